/-
C12 — facts about the GENERATED factor-base tables of pri.c (Gen/C12Tables.lean; re-checked by the kernel
whenever the tables change) and the specification of priBaseMod / priIsSieved derived from them.  No Mathlib.
-/
import Bee2V.C12.ModelPri
namespace Bee2V.C12
open Bee2V.Gen.C12

/-! ### an independent trial-division primality test -/

/-- try d, d + 1, … while d² ≤ n  (named `sieveTdLoop`: LemmasPri16 has its own `tdLoop`) -/
def sieveTdLoop (n : Nat) : Nat → Nat → Bool
  | 0, _ => true
  | fuel + 1, d => if d * d > n then true else if n % d = 0 then false else sieveTdLoop n fuel (d + 1)

def isPrimeTD' (n : Nat) : Bool := decide (2 ≤ n) && sieveTdLoop n n 2

theorem sieveTdLoop_iff (n : Nat) : ∀ fuel d, n < (d + fuel) * (d + fuel) →
    (sieveTdLoop n fuel d = true ↔ ∀ e, d ≤ e → e * e ≤ n → n % e ≠ 0) := by
  intro fuel
  induction fuel with
  | zero =>
    intro d h
    simp only [sieveTdLoop, true_iff]
    intro e he hee
    have := Nat.mul_le_mul he he
    simp only [Nat.add_zero] at h
    omega
  | succ fuel ih =>
    intro d h
    simp only [sieveTdLoop]
    by_cases h1 : d * d > n
    · simp only [h1, if_true, true_iff]
      intro e he hee
      have := Nat.mul_le_mul he he
      omega
    · rw [if_neg h1]
      by_cases h2 : n % d = 0
      · simp only [h2, if_true, Bool.false_eq_true, false_iff]
        intro hall
        exact hall d (Nat.le_refl d) (by omega) h2
      · rw [if_neg h2, ih (d + 1) (by rw [Nat.add_assoc, Nat.add_comm 1 fuel]; exact h)]
        constructor
        · intro hall e he hee
          by_cases hed : e = d
          · subst hed; exact h2
          · exact hall e (by omega) hee
        · intro hall e he hee
          exact hall e (by omega) hee

/-- `isPrimeTD' n` ⇔ n ≥ 2 has no divisor d with 2 ≤ d < n -/
theorem isPrimeTD'_iff (n : Nat) : isPrimeTD' n = true ↔ 2 ≤ n ∧ ∀ d, 2 ≤ d → d < n → n % d ≠ 0 := by
  have hfuel : n < (2 + n) * (2 + n) := by
    have : (2 + n) * 1 ≤ (2 + n) * (2 + n) := Nat.mul_le_mul_left _ (by omega)
    omega
  simp only [isPrimeTD', Bool.and_eq_true, decide_eq_true_eq, sieveTdLoop_iff n n 2 hfuel]
  constructor
  · rintro ⟨h2, hall⟩
    refine ⟨h2, ?_⟩
    intro d hd2 hdn hmod
    by_cases hdd : d * d ≤ n
    · exact hall d hd2 hdd hmod
    · -- the cofactor k = n / d is a divisor with k² ≤ n
      have hk : n = d * (n / d) := by
        have := Nat.div_add_mod n d
        omega
      have hkd : n / d < d := by
        apply (Nat.div_lt_iff_lt_mul (by omega)).2
        omega
      have hk2 : 2 ≤ n / d := by
        generalize n / d = k at hk
        rcases Nat.lt_or_ge k 2 with hlt | hge
        · have h01 : k = 0 ∨ k = 1 := by omega
          rcases h01 with h0 | h1
          · rw [h0] at hk; omega
          · rw [h1] at hk; omega
        · exact hge
      have hkk : (n / d) * (n / d) ≤ n := by
        have : (n / d) * (n / d) ≤ d * (n / d) := Nat.mul_le_mul_right _ (by omega)
        omega
      have hkm : n % (n / d) = 0 := by
        apply Nat.mod_eq_zero_of_dvd
        exact ⟨d, by rw [Nat.mul_comm]; exact hk⟩
      exact hall (n / d) hk2 hkk hkm
  · rintro ⟨h2, hall⟩
    refine ⟨h2, ?_⟩
    intro e he hee
    apply hall e he
    have : 2 * e ≤ e * e := Nat.mul_le_mul_right _ he
    omega

example : isPrimeTD' 8167 = true ∧ isPrimeTD' 8165 = false := by decide +kernel

/-! ### C1: `_base[]` is exactly the list of the first 1024 odd primes -/

theorem base_size : base.size = 1024 := by decide +kernel

set_option maxRecDepth 1000000 in
/-- the table = the increasing list of all n in [3, 8167] that pass trial division -/
theorem base_eq : base.toList = (List.range 8168).filter (fun n => decide (3 ≤ n) && isPrimeTD' n) := by
  decide +kernel

theorem base_mem_iff (n : Nat) : n ∈ base.toList ↔ 3 ≤ n ∧ n ≤ 8167 ∧ isPrimeTD' n = true := by
  rw [base_eq]
  simp only [List.mem_filter, List.mem_range, Bool.and_eq_true, decide_eq_true_eq]
  constructor
  · rintro ⟨h1, h2, h3⟩; exact ⟨h2, by omega, h3⟩
  · rintro ⟨h1, h2, h3⟩; exact ⟨by omega, h1, h3⟩

theorem base_sorted_list : base.toList.Pairwise (· < ·) := by
  rw [base_eq]
  exact List.Pairwise.filter _ List.pairwise_lt_range

theorem base_getElem! (i : Nat) (h : i < 1024) : base[i]! = base.toList[i]'(by simpa [base_size] using h) := by
  have h' : i < base.size := by rw [base_size]; exact h
  rw [getElem!_pos base i h', Array.getElem_toList]

/-- strictly increasing -/
theorem base_sorted (i j : Nat) (hij : i < j) (hj : j < 1024) : base[i]! < base[j]! := by
  rw [base_getElem! i (by omega), base_getElem! j hj]
  exact (List.pairwise_iff_getElem.1 base_sorted_list) i j _ _ hij

/-- every entry passes trial division -/
theorem base_all_prime (i : Nat) (h : i < 1024) : isPrimeTD' base[i]! = true := by
  rw [base_getElem! i h]
  exact ((base_mem_iff _).1 (List.getElem_mem _)).2.2

/-- every n in [3, 8167] that passes trial division occurs in the table -/
theorem base_complete (n : Nat) (h3 : 3 ≤ n) (hn : n ≤ 8167) (hp : isPrimeTD' n = true) :
    ∃ i, i < 1024 ∧ base[i]! = n := by
  have hm : n ∈ base.toList := (base_mem_iff n).2 ⟨h3, hn, hp⟩
  obtain ⟨i, hi, he⟩ := List.getElem_of_mem hm
  have hi' : i < 1024 := by simpa [base_size] using hi
  exact ⟨i, hi', by rw [base_getElem! i hi']; exact he⟩

theorem base_ge_3 (i : Nat) (h : i < 1024) : 3 ≤ base[i]! := by
  rw [base_getElem! i h]
  exact ((base_mem_iff _).1 (List.getElem_mem _)).1

/-! ### C2: `_prods[]` is aligned with `_base[]` -/

/-- base[i] · base[i+1] ⋯ base[i+n-1] -/
def baseProd (i : Nat) : Nat → Nat
  | 0 => 1
  | n + 1 => baseProd i n * base[i + n]!

/-- the alignment statement: walking through the product table from base index `i`, every entry is the product
    of the next `num` base primes, fits a W-bit word, and the walk stays inside the table -/
def AlignedAt (W : Nat) : List (Nat × Nat) → Nat → Prop
  | [], _ => True
  | (prod, num) :: rest, i =>
    i + num ≤ 1024 ∧ prod < 2 ^ W ∧ prod = baseProd i num ∧ AlignedAt W rest (i + num)

namespace SieveAux

def prodL (l : List Nat) : Nat := l.foldl (· * ·) 1

/-- linear-time checker: `bs` = the part of the base not yet consumed -/
def alignedL (W : Nat) : List (Nat × Nat) → List Nat → Bool
  | [], _ => true
  | (prod, num) :: rest, bs =>
    ((bs.take num).length == num) && decide (prod < 2 ^ W) && (prod == prodL (bs.take num)) &&
      alignedL W rest (bs.drop num)

theorem take_succ_drop (i n : Nat) (h : i + n < 1024) :
    (base.toList.drop i).take (n + 1) = (base.toList.drop i).take n ++ [base[i + n]!] := by
  have hlen : i + n < base.toList.length := by simpa [base_size] using h
  rw [List.take_add_one, List.getElem?_drop, List.getElem?_eq_getElem hlen, base_getElem! (i + n) h]
  rfl

theorem prodL_take_drop (i : Nat) : ∀ n, i + n ≤ 1024 → prodL ((base.toList.drop i).take n) = baseProd i n := by
  intro n
  induction n with
  | zero => intro _; rfl
  | succ n ih =>
    intro h
    rw [take_succ_drop i n (by omega), baseProd, ← ih (by omega)]
    simp [prodL, List.foldl_append]

theorem alignedL_sound (W : Nat) : ∀ l i, i ≤ 1024 → alignedL W l (base.toList.drop i) = true → AlignedAt W l i := by
  intro l
  induction l with
  | nil => intro i _ _; trivial
  | cons e rest ih =>
    intro i hi h
    obtain ⟨prod, num⟩ := e
    simp only [alignedL, Bool.and_eq_true, beq_iff_eq, decide_eq_true_eq, List.length_take, List.length_drop,
      List.drop_drop] at h
    obtain ⟨⟨⟨h1, h2⟩, h3⟩, h4⟩ := h
    have hlen : base.toList.length = 1024 := by simpa using base_size
    have hin : i + num ≤ 1024 := by omega
    refine ⟨hin, h2, ?_, ih (i + num) hin h4⟩
    rw [h3, prodL_take_drop i num hin]

end SieveAux

/-- the Bool checker over the generated tables (linear walk) -/
def prodsAligned (prods : Array (Nat × Nat)) (W : Nat) : Bool := SieveAux.alignedL W prods.toList base.toList

set_option maxRecDepth 1000000 in
theorem prods_aligned_16 : prodsAligned (prodsW 16) 16 = true := by decide +kernel
set_option maxRecDepth 1000000 in
theorem prods_aligned_32 : prodsAligned (prodsW 32) 32 = true := by decide +kernel
set_option maxRecDepth 1000000 in
theorem prods_aligned_64 : prodsAligned (prodsW 64) 64 = true := by decide +kernel

theorem prods_aligned (W : Nat) (hW : W = 16 ∨ W = 32 ∨ W = 64) : AlignedAt W (prodsW W).toList 0 := by
  apply SieveAux.alignedL_sound W _ 0 (by omega)
  rcases hW with h | h | h <;> subst h
  · exact prods_aligned_16
  · exact prods_aligned_32
  · exact prods_aligned_64

/-! ### C3: priBaseMod computes all residues a mod base[i] -/

namespace SieveAux

/-- the accumulator after `i` residues (newest first) -/
def modsRev (a i : Nat) : List Nat := ((List.range i).map (fun i => a % base[i]!)).reverse

theorem modsRev_succ (a i : Nat) : modsRev a (i + 1) = (a % base[i]!) :: modsRev a i := by
  simp [modsRev, List.range_succ]

theorem dvd_baseProd (i : Nat) : ∀ n j, j < n → base[i + j]! ∣ baseProd i n := by
  intro n
  induction n with
  | zero => intro j h; omega
  | succ n ih =>
    intro j h
    by_cases hj : j = n
    · subst hj; exact Nat.dvd_mul_left _ _
    · exact Nat.dvd_trans (ih j (by omega)) (Nat.dvd_mul_right _ _)

theorem inner_spec (a prod count : Nat) : ∀ num i, (∀ j, j < num → base[i + j]! ∣ prod) → i ≤ count →
    baseModInner (a % prod) count num i (modsRev a i) = (min (i + num) count, modsRev a (min (i + num) count)) := by
  intro num
  induction num with
  | zero => intro i _ hi; simp [baseModInner, Nat.min_eq_left hi]
  | succ num ih =>
    intro i hd hi
    simp only [baseModInner]
    by_cases hic : i < count
    · rw [if_pos hic]
      have h0 : a % prod % base[i]! = a % base[i]! := Nat.mod_mod_of_dvd a (by simpa using hd 0 (by omega))
      rw [h0, ← modsRev_succ, ih (i + 1) (fun j hj => by
        have := hd (j + 1) (by omega)
        rwa [show i + (j + 1) = i + 1 + j by omega] at this) (by omega)]
      rw [show i + 1 + num = i + (num + 1) by omega]
    · rw [if_neg hic]
      have : min (i + (num + 1)) count = i := by omega
      rw [this]

theorem prods_stop (a count : Nat) (l : List (Nat × Nat)) (acc : List Nat) :
    baseModProds a count l count acc = (count, acc) := by
  cases l with
  | nil => rfl
  | cons e rest => obtain ⟨p, n⟩ := e; simp [baseModProds]

theorem prods_spec (W a count : Nat) : ∀ l i, AlignedAt W l i → i ≤ count →
    ∃ i', baseModProds a count l i (modsRev a i) = (i', modsRev a i') ∧ i' ≤ count := by
  intro l
  induction l with
  | nil => intro i _ hi; exact ⟨i, rfl, hi⟩
  | cons e rest ih =>
    intro i hal hi
    obtain ⟨prod, num⟩ := e
    obtain ⟨_, _, hprod, hrest⟩ := hal
    simp only [baseModProds]
    by_cases hic : i < count
    · rw [if_pos hic, inner_spec a prod count num i (fun j hj => hprod ▸ dvd_baseProd i num j hj) hi]
      simp only
      by_cases hle : i + num ≤ count
      · rw [Nat.min_eq_left hle]
        exact ih (i + num) hrest hle
      · rw [Nat.min_eq_right (by omega), prods_stop]
        exact ⟨count, rfl, Nat.le_refl _⟩
    · rw [if_neg hic]
      exact ⟨i, rfl, hi⟩

theorem rest_spec (a count : Nat) : ∀ fuel i, i ≤ count → count - i ≤ fuel →
    baseModRest a count fuel i (modsRev a i) = modsRev a count := by
  intro fuel
  induction fuel with
  | zero =>
    intro i h1 h2
    have : i = count := by omega
    subst this; rfl
  | succ fuel ih =>
    intro i h1 h2
    simp only [baseModRest]
    by_cases hic : i < count
    · rw [if_pos hic, ← modsRev_succ, ih (i + 1) (by omega) (by omega)]
    · rw [if_neg hic]
      have : i = count := by omega
      subst this; rfl

end SieveAux

/-- priBaseMod returns a mod base[0], …, a mod base[count − 1] (the shortcut through `_prods` is exact) -/
theorem priBaseMod_spec (W a count : Nat) (hW : W = 16 ∨ W = 32 ∨ W = 64) (_hc : count ≤ 1024) :
    priBaseMod W a count = (List.range count).map (fun i => a % base[i]!) := by
  unfold priBaseMod
  obtain ⟨i', h, hi'⟩ := SieveAux.prods_spec W a count _ 0 (prods_aligned W hW) (Nat.zero_le _)
  have h0 : SieveAux.modsRev a 0 = [] := rfl
  rw [h0] at h
  rw [h]
  simp only
  rw [SieveAux.rest_spec a count count i' hi' (by omega)]
  simp [SieveAux.modsRev]

example : priBaseMod 32 1000003 12 = [1, 3, 4, 4, 4, 12, 14, 9, 25, 5, 4, 13] := by decide +kernel

/-! ### C4: priIsSieved -/

namespace SieveAux

theorem adjust_le (a : Nat) (d : Bool) : ∀ bc, adjustBaseCount a d bc ≤ bc := by
  intro bc
  induction bc with
  | zero => simp [adjustBaseCount]
  | succ bc ih =>
    simp only [adjustBaseCount]
    split
    · omega
    · omega

/-- the dropped primes exceed a -/
theorem adjust_dropped (a : Nat) : ∀ bc i, adjustBaseCount a false bc ≤ i → i < bc → a < base[i]! := by
  intro bc
  induction bc with
  | zero => intro i _ h; omega
  | succ bc ih =>
    intro i h1 h2
    simp only [adjustBaseCount, Bool.false_eq_true, false_and, or_false] at h1
    by_cases hgt : base[bc]! > a
    · rw [if_pos hgt] at h1
      by_cases hi : i = bc
      · subst hi; exact hgt
      · exact ih i h1 (by omega)
    · rw [if_neg hgt] at h1
      omega

/-- all the dropped ones are at the end: what remains are exactly the base primes ≤ a (sortedness) -/
theorem adjust_kept (a : Nat) : ∀ bc, bc ≤ 1024 → ∀ i, i < adjustBaseCount a false bc → base[i]! ≤ a := by
  intro bc
  induction bc with
  | zero => intro _ i h; simp [adjustBaseCount] at h
  | succ bc ih =>
    intro hbc i h
    simp only [adjustBaseCount, Bool.false_eq_true, false_and, or_false] at h
    by_cases hgt : base[bc]! > a
    · rw [if_pos hgt] at h
      exact ih (by omega) i h
    · rw [if_neg hgt] at h
      by_cases hi : i = bc
      · subst hi; omega
      · have := base_sorted i bc (by omega) (by omega)
        omega

end SieveAux

/-- priIsSieved: a is odd and no prime of the factor base (first `bc` entries) divides it.
    (The adjustment for one-word a only drops primes > a, which cannot divide an odd a ≥ 1.  A base prime itself
    is NOT sieved: a mod a = 0.) -/
theorem priIsSieved_iff (W a bc : Nat) (hW : W = 16 ∨ W = 32 ∨ W = 64) (hbc : bc ≤ 1024) :
    priIsSieved W a bc = true ↔ a % 2 = 1 ∧ ∀ i, i < bc → a % base[i]! ≠ 0 := by
  unfold priIsSieved
  by_cases h2 : a % 2 = 0
  · simp [h2]
  · have hodd : a % 2 = 1 := by omega
    rw [if_neg h2]
    simp only [hodd, true_and]
    have hle : (if a < 2 ^ W then adjustBaseCount a false bc else bc) ≤ bc := by
      split
      · exact SieveAux.adjust_le a false bc
      · exact Nat.le_refl _
    rw [priBaseMod_spec W a _ hW (by omega)]
    simp only [List.all_eq_true, List.mem_map, List.mem_range, decide_eq_true_eq, ne_eq,
      forall_exists_index, and_imp]
    constructor
    · intro h i hi
      by_cases hin : i < (if a < 2 ^ W then adjustBaseCount a false bc else bc)
      · exact h _ i hin rfl
      · by_cases hw : a < 2 ^ W
        · rw [if_pos hw] at hin
          have hgt := SieveAux.adjust_dropped a bc i (by omega) hi
          rw [Nat.mod_eq_of_lt hgt]
          omega
        · rw [if_neg hw] at hin; omega
    · intro h x i hi hx
      subst hx
      exact h i (by omega)

/-- the form with the adjustment visible: for one-word a only the base primes ≤ a are tried -/
theorem priIsSieved_iff' (W a bc : Nat) (hW : W = 16 ∨ W = 32 ∨ W = 64) (hbc : bc ≤ 1024) :
    priIsSieved W a bc = true ↔
      a % 2 = 1 ∧ ∀ i, i < bc → (a < 2 ^ W → base[i]! ≤ a) → a % base[i]! ≠ 0 := by
  rw [priIsSieved_iff W a bc hW hbc]
  constructor
  · rintro ⟨h1, h⟩; exact ⟨h1, fun i hi _ => h i hi⟩
  · rintro ⟨h1, h⟩
    refine ⟨h1, fun i hi => ?_⟩
    by_cases hle : a < 2 ^ W → base[i]! ≤ a
    · exact h i hi hle
    · have : a < base[i]! := by omega
      rw [Nat.mod_eq_of_lt this]; omega

example : priIsSieved 32 1000003 40 = true ∧ priIsSieved 32 1000001 40 = false ∧
    priIsSieved 16 173 40 = false ∧ priIsSieved 16 169 4 = true ∧ priIsSieved 16 169 5 = false := by decide +kernel

end Bee2V.C12

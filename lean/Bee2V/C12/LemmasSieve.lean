/-
C12 — facts about the GENERATED factor-base tables of pri.c (Gen/C12Tables.lean; re-checked by the kernel
whenever the tables change) and the specification of priBaseMod / priIsSieved derived from them.  No Mathlib.
-/
import Bee2V.C12.ModelPri
namespace Bee2V.C12
open Bee2V.Gen.C12

/-! ### an independent trial-division primality test -/

/-- try d, d + 1, … while d² ≤ n -/
def tdLoop (n : Nat) : Nat → Nat → Bool
  | 0, _ => true
  | fuel + 1, d => if d * d > n then true else if n % d = 0 then false else tdLoop n fuel (d + 1)

def isPrimeTD' (n : Nat) : Bool := decide (2 ≤ n) && tdLoop n n 2

theorem tdLoop_iff (n : Nat) : ∀ fuel d, n < (d + fuel) * (d + fuel) →
    (tdLoop n fuel d = true ↔ ∀ e, d ≤ e → e * e ≤ n → n % e ≠ 0) := by
  intro fuel
  induction fuel with
  | zero =>
    intro d h
    simp only [tdLoop, true_iff]
    intro e he hee
    have := Nat.mul_le_mul he he
    simp only [Nat.add_zero] at h
    omega
  | succ fuel ih =>
    intro d h
    simp only [tdLoop]
    by_cases h1 : d * d > n
    · simp only [h1, if_true, true_iff]
      intro e he hee
      have := Nat.mul_le_mul he he
      omega
    · rw [if_neg h1]
      by_cases h2 : n % d = 0
      · simp only [h2, if_true, Bool.false_eq_true, false_iff]
        intro hall
        exact hall d (Nat.le_refl d) (by omega) h2
      · rw [if_neg h2, ih (d + 1) (by rw [Nat.add_assoc, Nat.add_comm 1 fuel]; exact h)]
        constructor
        · intro hall e he hee
          by_cases hed : e = d
          · subst hed; exact h2
          · exact hall e (by omega) hee
        · intro hall e he hee
          exact hall e (by omega) hee

/-- `isPrimeTD' n` ⇔ n ≥ 2 has no divisor d with 2 ≤ d < n -/
theorem isPrimeTD'_iff (n : Nat) : isPrimeTD' n = true ↔ 2 ≤ n ∧ ∀ d, 2 ≤ d → d < n → n % d ≠ 0 := by
  have hfuel : n < (2 + n) * (2 + n) := by
    have : (2 + n) * 1 ≤ (2 + n) * (2 + n) := Nat.mul_le_mul_left _ (by omega)
    omega
  simp only [isPrimeTD', Bool.and_eq_true, decide_eq_true_eq, tdLoop_iff n n 2 hfuel]
  constructor
  · rintro ⟨h2, hall⟩
    refine ⟨h2, ?_⟩
    intro d hd2 hdn hmod
    by_cases hdd : d * d ≤ n
    · exact hall d hd2 hdd hmod
    · -- the cofactor k = n / d is a divisor with k² ≤ n
      have hk : n = d * (n / d) := by
        have := Nat.div_add_mod n d
        omega
      have hkd : n / d < d := by
        apply (Nat.div_lt_iff_lt_mul (by omega)).2
        omega
      have hk2 : 2 ≤ n / d := by
        generalize n / d = k at hk
        rcases Nat.lt_or_ge k 2 with hlt | hge
        · have h01 : k = 0 ∨ k = 1 := by omega
          rcases h01 with h0 | h1
          · rw [h0] at hk; omega
          · rw [h1] at hk; omega
        · exact hge
      have hkk : (n / d) * (n / d) ≤ n := by
        have : (n / d) * (n / d) ≤ d * (n / d) := Nat.mul_le_mul_right _ (by omega)
        omega
      have hkm : n % (n / d) = 0 := by
        apply Nat.mod_eq_zero_of_dvd
        exact ⟨d, by rw [Nat.mul_comm]; exact hk⟩
      exact hall (n / d) hk2 hkk hkm
  · rintro ⟨h2, hall⟩
    refine ⟨h2, ?_⟩
    intro e he hee
    apply hall e he
    have : 2 * e ≤ e * e := Nat.mul_le_mul_right _ he
    omega

example : isPrimeTD' 8167 = true ∧ isPrimeTD' 8165 = false := by decide +kernel

/-! ### C1: `_base[]` is exactly the list of the first 1024 odd primes -/

theorem base_size : base.size = 1024 := by decide +kernel

set_option maxRecDepth 1000000 in
/-- the table = the increasing list of all n in [3, 8167] that pass trial division -/
theorem base_eq : base.toList = (List.range 8168).filter (fun n => decide (3 ≤ n) && isPrimeTD' n) := by
  decide +kernel

theorem base_mem_iff (n : Nat) : n ∈ base.toList ↔ 3 ≤ n ∧ n ≤ 8167 ∧ isPrimeTD' n = true := by
  rw [base_eq]
  simp only [List.mem_filter, List.mem_range, Bool.and_eq_true, decide_eq_true_eq]
  constructor
  · rintro ⟨h1, h2, h3⟩; exact ⟨h2, by omega, h3⟩
  · rintro ⟨h1, h2, h3⟩; exact ⟨by omega, h1, h3⟩

theorem base_sorted_list : base.toList.Pairwise (· < ·) := by
  rw [base_eq]
  exact List.Pairwise.filter _ List.pairwise_lt_range

theorem base_getElem! (i : Nat) (h : i < 1024) : base[i]! = base.toList[i]'(by simpa [base_size] using h) := by
  have h' : i < base.size := by rw [base_size]; exact h
  rw [getElem!_pos base i h', Array.getElem_toList]

/-- strictly increasing -/
theorem base_sorted (i j : Nat) (hij : i < j) (hj : j < 1024) : base[i]! < base[j]! := by
  rw [base_getElem! i (by omega), base_getElem! j hj]
  exact (List.pairwise_iff_getElem.1 base_sorted_list) i j _ _ hij

/-- every entry passes trial division -/
theorem base_all_prime (i : Nat) (h : i < 1024) : isPrimeTD' base[i]! = true := by
  rw [base_getElem! i h]
  exact ((base_mem_iff _).1 (List.getElem_mem _)).2.2

/-- every n in [3, 8167] that passes trial division occurs in the table -/
theorem base_complete (n : Nat) (h3 : 3 ≤ n) (hn : n ≤ 8167) (hp : isPrimeTD' n = true) :
    ∃ i, i < 1024 ∧ base[i]! = n := by
  have hm : n ∈ base.toList := (base_mem_iff n).2 ⟨h3, hn, hp⟩
  obtain ⟨i, hi, he⟩ := List.getElem_of_mem hm
  have hi' : i < 1024 := by simpa [base_size] using hi
  exact ⟨i, hi', by rw [base_getElem! i hi']; exact he⟩

theorem base_ge_3 (i : Nat) (h : i < 1024) : 3 ≤ base[i]! := by
  rw [base_getElem! i h]
  exact ((base_mem_iff _).1 (List.getElem_mem _)).1

end Bee2V.C12

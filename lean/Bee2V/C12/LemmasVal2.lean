/-
C12 — decision lists of the validators of ModelVal2.lean (the instances with the constants regenerated from
the source): bign96, bignParamsVal with movBign, dstuPointVal; the regenerated constants have the standards'
values.  No Mathlib.
-/
import Bee2V.C12.ModelVal2
import Bee2V.C12.LemmasVal
namespace Bee2V.C12
open Bee2V.Gen.C12

/-! ### bign96 -/

/-- `bign96Start` accepts exactly: p odd, 192 bits, p ≡ 3 (mod 4); a, b, yG < p; q ≠ 0, 192 bits, odd -/
theorem bign96StartOk_iff (v : BignVals) :
    bign96StartOk v = true ↔
      v.p % 2 = 1 ∧ bitSize v.p = 192 ∧ v.p % 4 = 3 ∧ v.a < v.p ∧ v.b < v.p ∧ v.yG < v.p ∧ v.q ≠ 0 ∧
      bitSize v.q = 192 ∧ v.q % 2 = 1 := by
  simp only [bign96StartOk, Bool.and_eq_true, decide_eq_true_eq, and_assoc]

namespace Val2Aux

theorem op96_iff (l : Nat) (v : BignVals) :
    (l == 96 && bign96StartOk v) = true ↔ l = 96 ∧ bign96StartOk v = true := by
  simp only [Bool.and_eq_true, beq_iff_eq]

end Val2Aux

/-- bign96ParamsVal returns ERR_OK exactly when l = 96, bign96Start succeeds and the list of 6.1.4 holds
    with the MOV threshold written in bign96.c -/
theorem bign96ParamsVal_ok_iff (isPrime : Nat → Bool) (l : Nat) (v : BignVals) :
    bign96ParamsVal isPrime l v = 0 ↔
      l = 96 ∧ bign96StartOk v = true ∧ bignStartOk v = true ∧ v.B % v.p = v.b ∧ v.b ≠ 0 ∧
      ecpIsValid isPrime v.p v.a v.b = true ∧ ecpIsSafeGroup isPrime v.p v.q movBign96 = true ∧
      isQR v.b v.p = true ∧ powMod v.b ((v.p + 1) / 4) v.p = v.yG ∧
      Ecp.mul ⟨v.p, v.a, v.b⟩ v.q (some (0, v.yG)) = none := by
  unfold bign96ParamsVal
  rw [bignParamsValV_ok_iff, Val2Aux.op96_iff, and_assoc]

/-- only ERR_OK and ERR_BAD_PARAMS -/
theorem bign96ParamsVal_code (isPrime : Nat → Bool) (l : Nat) (v : BignVals) :
    bign96ParamsVal isPrime l v = 0 ∨ bign96ParamsVal isPrime l v = 502 :=
  bignParamsValV_code isPrime _ v _

theorem bign96PubkeyVal_ok_iff (l : Nat) (v : BignVals) (x y : Nat) :
    bign96PubkeyVal l v x y = 0 ↔
      l = 96 ∧ bign96StartOk v = true ∧ bignStartOk v = true ∧ x < v.p ∧ y < v.p ∧
      Ecp.onCurve ⟨v.p, v.a, v.b⟩ x y = true := by
  unfold bign96PubkeyVal
  rw [bignPubkeyValV_ok_iff, Val2Aux.op96_iff, and_assoc]

theorem bign96KeypairVal_ok_iff (l : Nat) (v : BignVals) (d x y : Nat) :
    bign96KeypairVal l v d x y = 0 ↔
      l = 96 ∧ bign96StartOk v = true ∧ bignStartOk v = true ∧ 0 < d ∧ d < v.q ∧
      Ecp.mul ⟨v.p, v.a, v.b⟩ d (some (0, v.yG)) = some (x, y) := by
  unfold bign96KeypairVal
  rw [bignKeypairValV_ok_iff, Val2Aux.op96_iff, and_assoc]

/-- `bign96StartOk` implies `bignStartOk` (the conjunct is redundant in the lists above) -/
theorem bignStartOk_of_bign96StartOk (v : BignVals) (h : bign96StartOk v = true) : bignStartOk v = true := by
  rw [bign96StartOk_iff] at h
  simp only [bignStartOk, Bool.and_eq_true, decide_eq_true_eq]
  exact ⟨⟨⟨⟨h.1, h.2.2.2.1⟩, h.2.2.2.2.1⟩, h.2.2.2.2.2.1⟩, h.2.2.2.2.2.2.1⟩

/-! ### bignParamsVal with the threshold of bign_params.c -/

theorem bignParamsVal_ok_iff' (isPrime : Nat → Bool) (operable : Bool) (v : BignVals) :
    bignParamsVal isPrime operable v = 0 ↔
      operable = true ∧ bignStartOk v = true ∧ v.B % v.p = v.b ∧ v.b ≠ 0 ∧
      ecpIsValid isPrime v.p v.a v.b = true ∧ ecpIsSafeGroup isPrime v.p v.q movBign = true ∧
      isQR v.b v.p = true ∧ powMod v.b ((v.p + 1) / 4) v.p = v.yG ∧
      Ecp.mul ⟨v.p, v.a, v.b⟩ v.q (some (0, v.yG)) = none := by
  unfold bignParamsVal
  exact bignParamsValV_ok_iff isPrime operable v movBign

/-! ### dstuPointVal -/

/-- dstuPointVal returns ERR_OK exactly when the curve is created, the coordinates are field elements,
    the point is on the curve and has the order (truncated to f->n words, as the C code reads it) -/
theorem dstuPointValV_ok_iff (W : Nat) (v : DstuVals) (x y : Nat) :
    dstuPointValV W v x y = 0 ↔
      ∃ E, dstuCreate W v = some E ∧ x < 2 ^ v.p0 ∧ y < 2 ^ v.p0 ∧ E.onCurve x y = true ∧
        E.mul (v.n % 2 ^ (W * wordSize W (2 ^ v.p0 - 1))) (some (x, y)) = none := by
  unfold dstuPointValV
  cases hc : dstuCreate W v with
  | none => simp
  | some E =>
    simp only [Option.some.injEq, exists_eq_left', Option.isNone_iff_eq_none]
    split
    · rename_i h; simp only [true_iff]; exact h
    · rename_i h; simp only [false_iff, show (401 : Nat) = 0 ↔ False by decide]; exact h

/-- only ERR_OK, ERR_BAD_PARAMS and ERR_BAD_POINT -/
theorem dstuPointValV_code (W : Nat) (v : DstuVals) (x y : Nat) :
    dstuPointValV W v x y = 0 ∨ dstuPointValV W v x y = 502 ∨ dstuPointValV W v x y = 401 := by
  unfold dstuPointValV
  cases dstuCreate W v with
  | none => simp
  | some E =>
    simp only
    split
    · exact Or.inl rfl
    · exact Or.inr (Or.inr rfl)

/-! ### the constants regenerated from the source have the standards' values
    (`stb99RiMargin` is stated apart: PropsVal2) -/

theorem source_constants :
    movBign = 50 ∧ movBignGen = 50 ∧ movBign96 = 50 ∧ movG12s256 = 31 ∧ movG12s512 = 131 ∧ movDstu = 32 ∧
    dstuOrderBits = 160 ∧ dstuMinM = 160 ∧ dstuMaxM = 509 ∧ g12sPBits256 = 253 ∧ g12sPBits512 = 507 ∧
    g12sQBits256 = 254 ∧ g12sQBits512 = 508 ∧ stb99DiMargin = 16 ∧ pfokLiMargin = 16 := by
  decide

end Bee2V.C12

/-
C12 — parameter / key validators as decision lists, with the arithmetic sub-checks modelled concretely.
Executable, no Mathlib.  Field elements are Nat (the value); Montgomery/Crandall representations are
transparent (qrFrom/qrTo convert), octet strings are little-endian.
`isPrime : Nat → Bool` is the primality oracle the validator calls (priIsPrime): abstract in the theorems,
instantiated in the driver.
Error codes: 0 ERR_OK, 109 ERR_BAD_INPUT, 502 ERR_BAD_PARAMS, 504 ERR_BAD_PRIVKEY, 505 ERR_BAD_PUBKEY, 524 ERR_BAD_SEED.
-/
import Bee2V.C12.ModelPri
import Bee2V.C12.ModelPp
namespace Bee2V.C12

/-! ### affine arithmetic on y² = x³ + ax + b over GF(p) (p an odd prime when these are reached) -/

structure Ecp where
  p : Nat
  a : Nat
  b : Nat

abbrev Pt := Option (Nat × Nat)   -- none = O

def invMod (x p : Nat) : Nat := powMod x (p - 2) p

def subMod (x y p : Nat) : Nat := (x + p - y % p) % p

/-- `ecpIsOnA`: y² = x³ + a x + b -/
def Ecp.onCurve (E : Ecp) (x y : Nat) : Bool :=
  (y * y) % E.p = (x * x % E.p * x + E.a * x + E.b) % E.p

def Ecp.add (E : Ecp) : Pt → Pt → Pt
  | none, Q => Q
  | P, none => P
  | some (x1, y1), some (x2, y2) =>
    let p := E.p
    if x1 = x2 then
      if (y1 + y2) % p = 0 then none
      else
        let lam := (3 * x1 * x1 + E.a) % p * invMod (2 * y1 % p) p % p
        let x3 := subMod (lam * lam) (x1 + x2) p
        some (x3, subMod (lam * subMod x1 x3 p) y1 p)
    else
      let lam := subMod y2 y1 p * invMod (subMod x2 x1 p) p % p
      let x3 := subMod (lam * lam) (x1 + x2) p
      some (x3, subMod (lam * subMod x1 x3 p) y1 p)

/-- double-and-add, most significant bit first (`bits` = bit length of k) -/
def Ecp.mulAux (E : Ecp) (P : Pt) (k : Nat) : Nat → Pt → Pt
  | 0, acc => acc
  | i + 1, acc =>
    let d := E.add acc acc
    Ecp.mulAux E P k i (if k.testBit i then E.add d P else d)

def Ecp.mul (E : Ecp) (k : Nat) (P : Pt) : Pt := Ecp.mulAux E P k (bitSize k) none

/-! ### arithmetic sub-checks -/

/-- number of W-bit words of a value (`wwWordSize`) -/
def wordSize (W v : Nat) : Nat := (bitSize v + W - 1) / W

/-- the Hasse-bound part of `ecpSeemsValidGroup` on word arrays: `n` = f->n, W = B_PER_W.
    t1[n+2] <- order·cofactor; t1 <- t1 - 1 (borrow ⇒ FALSE); t1 <- |t1 - p|; wordSize t1 > n ⇒ FALSE;
    t2[2n'] <- t1²; w <- t2 mod 4; t2 >>= 2; cmp(t2, p) > 0 ∨ (cmp = 0 ∧ w ≠ 0) ⇒ FALSE -/
def hasseP (W n p order cof : Nat) : Bool :=
  let t := order * cof
  if t = 0 then false
  else
    let t1 := t - 1
    let d := if t1 ≥ p then t1 - p else p - t1
    if wordSize W d > n then false
    else
      let t2 := d * d
      let w := t2 % 4
      let t2 := t2 / 4
      !(t2 > p ∨ (t2 = p ∧ w ≠ 0))

/-- the same for `ec2SeemsValidGroup` (after docs/C12.fix-2: the comparison is with 4·2^m):
    t2 <- |order·cofactor - 1 - 2^m|; wordSize t2 > n ⇒ FALSE; t2² ≤ 4·2^m -/
def hasse2 (W n m order cof : Nat) : Bool :=
  let t := order * cof
  if t = 0 then false
  else
    let t1 := t - 1
    let d := if t1 ≥ 2 ^ m then t1 - 2 ^ m else 2 ^ m - t1
    if wordSize W d > n then false
    else decide (d * d ≤ 4 * 2 ^ m)

/-- MOV loop of ecpIsSafeGroup / ec2IsSafeGroup / ecpMOVIsMet: `t1 = P mod q; t2 = t1; if (t2 == 1) FALSE;
    while (--threshold) { t2 = t2·t1 mod q; if (t2 == 1) FALSE; }`  (P = p resp. 2^m) -/
def movLoop (q t1 : Nat) : Nat → Nat → Bool
  | 0, _ => true
  | k + 1, t2 =>
    let t2' := t2 * t1 % q
    if t2' = 1 then false else movLoop q t1 k t2'

def movOk (P q threshold : Nat) : Bool :=
  if threshold = 0 then true
  else
    let t1 := P % q
    if t1 = 1 then false else movLoop q t1 (threshold - 1) t1

/-- `ecpIsSafeGroup(ec, mov_threshold)` : order prime, order ≠ p, MOV -/
def ecpIsSafeGroup (isPrime : Nat → Bool) (p order mov : Nat) : Bool :=
  isPrime order && decide (order ≠ p) && movOk p order mov

/-- discriminant part of `ecpIsValid`: 4a³ + 27b² ≢ 0 -/
def detNonZero (p a b : Nat) : Bool := (4 * a * a * a + 27 * b * b) % p ≠ 0

/-- `ecpIsValid`: operable, p prime, p > 3, a, b < p, non-singular -/
def ecpIsValid (isPrime : Nat → Bool) (p a b : Nat) : Bool :=
  decide (p % 2 = 1) && isPrime p && decide (p > 3) && decide (a < p) && decide (b < p) && detNonZero p a b

/-- Jacobi symbol = 1 for an odd prime modulus: Euler's criterion (zzJacobi is modelled by its value;
    the validator calls it only after p has been found prime) -/
def isQR (b p : Nat) : Bool := powMod b ((p - 1) / 2) p = 1

/-! ### bign (STB 34.101.45, algorithm 6.1.4) -/

structure BignParams where
  l : Nat
  p : List UInt8     -- 64 octets each
  a : List UInt8
  b : List UInt8
  q : List UInt8
  yG : List UInt8
  seed : List UInt8  -- 8 octets

def leVal (bs : List UInt8) : Nat := bs.foldr (fun x acc => x.toNat + 256 * acc) 0

def allZero (bs : List UInt8) : Bool := bs.all (· == 0)

/-- `bool_t bignIsOperable(const bign_params* params)` -/
def bignIsOperable (P : BignParams) : Bool :=
  (P.l == 128 || P.l == 192 || P.l == 256) &&
  (let no := P.l / 4
   (P.p.headD 0).toNat % 4 == 3 && (P.q.headD 0).toNat % 2 == 1 &&
   decide ((P.p.getD (no - 1) 0).toNat ≥ 128) && decide ((P.q.getD (no - 1) 0).toNat ≥ 128) &&
   allZero (P.p.drop no) &&
   !allZero (P.a.take no) && !allZero (P.b.take no) &&
   allZero (P.a.drop no) && allZero (P.b.drop no) && allZero (P.q.drop no) && allZero (P.yG.drop no))

/-- the conditions of bignParamsVal after bignIsOperable, over values; `B` = belt-hash(p‖a‖seed)‖belt-hash(p‖a‖seed+1)
    as a number (computed by the caller) -/
structure BignVals where
  p : Nat
  a : Nat
  b : Nat
  q : Nat
  yG : Nat
  B : Nat

/-- bignStart: gfpCreate (p odd, ≠ 1), ecpCreateJ (a, b < p), ecCreateGroup (yG < p, order ≠ 0) -/
def bignStartOk (v : BignVals) : Bool :=
  decide (v.p % 2 = 1) && decide (v.a < v.p) && decide (v.b < v.p) && decide (v.yG < v.p) && decide (v.q ≠ 0)

/-- `err_t bignParamsVal(const bign_params* params)` after the pointer check; `operable` = bignIsOperable -/
def bignParamsValV (isPrime : Nat → Bool) (operable : Bool) (v : BignVals) (mov : Nat := 50) : Nat :=
  if !operable then 502
  else if !bignStartOk v then 502
  else if v.B % v.p = v.b && v.b ≠ 0 && ecpIsValid isPrime v.p v.a v.b && ecpIsSafeGroup isPrime v.p v.q mov &&
      isQR v.b v.p then
    if powMod v.b ((v.p + 1) / 4) v.p ≠ v.yG then 502
    else if (Ecp.mul ⟨v.p, v.a, v.b⟩ v.q (some (0, v.yG))).isSome then 502
    else 0
  else 502

/-- `bignSeedInc`: seed + 1 as a 64-bit little-endian counter -/
def seedInc (seed : List UInt8) : List UInt8 :=
  let v := (leVal seed + 1) % 2 ^ 64
  (List.range 8).map (fun i => UInt8.ofNat (v / 256 ^ i % 256))

/-- `err_t bignPubkeyVal(params, pubkey)`: x, y < p ∧ on the curve (params only have to be operable and startable) -/
def bignPubkeyValV (operable : Bool) (v : BignVals) (x y : Nat) : Nat :=
  if !operable then 502
  else if !bignStartOk v then 502
  else if !(x < v.p ∧ y < v.p) then 505
  else if Ecp.onCurve ⟨v.p, v.a, v.b⟩ x y then 0 else 505

/-- `err_t bignKeypairVal(params, privkey, pubkey)`: 0 < d < q ∧ (x, y) = dG — BOTH coordinates
    (the behaviour after docs/C12.fix-4: coordinates exported with qrTo) -/
def bignKeypairValV (operable : Bool) (v : BignVals) (d x y : Nat) : Nat :=
  if !operable then 502
  else if !bignStartOk v then 502
  else if d = 0 ∨ d ≥ v.q then 504
  else match Ecp.mul ⟨v.p, v.a, v.b⟩ d (some (0, v.yG)) with
    | none => 502
    | some (x', y') => if x' = x ∧ y' = y then 0 else 505

/-! ### g12s (GOST R 34.10-2012) -/

structure G12sVals where
  l : Nat
  p : Nat
  a : Nat
  b : Nat
  q : Nat
  n : Nat      -- cofactor
  xP : Nat
  yP : Nat

/-- g12sEcCreate: l ∈ {256, 512}; p odd (gfpCreate), bit length of p > 253 / 507; a, b < p; xP, yP < p;
    q ≠ 0, fits f->n + 1 words, cofactor ≠ 0; bit length of q > 254 / 508, q odd -/
def g12sCreateOk (W : Nat) (v : G12sVals) : Bool :=
  (v.l == 256 || v.l == 512) &&
  decide (v.p ≠ 0) && decide (v.p % 2 = 1) && decide (v.p ≠ 1) &&
  decide (bitSize v.p > (if v.l = 256 then 253 else 507)) &&
  decide (v.a < v.p) && decide (v.b < v.p) && decide (v.xP < v.p) && decide (v.yP < v.p) &&
  decide (v.q ≠ 0) && decide (wordSize W v.q ≤ wordSize W v.p + 1) && decide (v.n ≠ 0) &&
  decide (bitSize v.q > (if v.l = 256 then 254 else 508)) && decide (v.q % 2 = 1)

/-- `err_t g12sParamsVal(const g12s_params* params)` -/
def g12sParamsValV (isPrime : Nat → Bool) (W : Nat) (v : G12sVals) : Nat :=
  if !g12sCreateOk W v then 502
  else if !ecpIsValid isPrime v.p v.a v.b then 502
  else if !(Ecp.onCurve ⟨v.p, v.a, v.b⟩ v.xP v.yP && hasseP W (wordSize W v.p) v.p v.q v.n) then 502
  else if !ecpIsSafeGroup isPrime v.p v.q (if v.l = 256 then 31 else 131) then 502
  else if (Ecp.mul ⟨v.p, v.a, v.b⟩ (v.q % 2 ^ (W * wordSize W v.p)) (some (v.xP, v.yP))).isSome then 502
  else if v.a = 0 ∨ v.b = 0 then 502
  else 0

/-! ### stb99 / pfok: Montgomery group B_p with R = 2^(l+2) -/

/-- d^t in B_p (u∘v = u v R⁻¹ mod p): d^t · R^(−(t−1)) mod p for t ≥ 1; unity = R mod p -/
def montPow (p R d t : Nat) : Nat :=
  let Rinv := invMod (R % p) p
  if t = 0 then R % p else powMod d t p * powMod Rinv (t - 1) p % p

structure Stb99Vals where
  l : Nat
  r : Nat
  p : Nat
  q : Nat
  a : Nat
  d : Nat
  tailsZero : Bool   -- unused octets of p, q, a, d are zero

/-- `err_t stb99ParamsVal(const stb99_params* params)` (after docs/C12.fix-3: d = 0 is rejected) -/
def stb99ParamsValV (isPrime : Nat → Bool) (lr : List (Nat × Nat)) (v : Stb99Vals) : Nat :=
  if !lr.contains (v.l, v.r) then 502
  else if !(v.tailsZero && bitSize v.p = v.l && isPrime v.p) then 502
  else if !(bitSize v.q = v.r && isPrime v.q) then 502
  else if (v.p - 1) % v.q ≠ 0 then 502
  else if !(v.d < v.p) ∨ v.d = 0 then 502
  else
    let R := 2 ^ (v.l + 2)
    let x := montPow v.p R v.d ((v.p - 1) / v.q)
    if x = R % v.p then 502
    else if v.a ≠ x then 502
    else 0

/-- chains di / ri of the seeds: `for (i = 1; i < count && x[i] > 16; ++i) if (x[i] ≥ SIZE_MAX/5 ∨ x[i-1] > 2 x[i] ∨
    5 x[i] ≥ 4 x[i-1] − 16) BAD; if (x[i-1] > 32) BAD; rest must be 0`.  size_t arithmetic: `4 x[i-1] − 16` and
    `5 x[i]`, `2 x[i]` are computed modulo 2^S (S = 64); x[0] > 16 is guaranteed by the caller. -/
def chainOk (S : Nat) (xs : List Nat) : Bool :=
  let M := 2 ^ S
  let rec go : Nat → List Nat → Bool
    | prev, [] => decide (prev ≤ 32)     -- the loop ran to the end of the array: `if (x[i-1] > 32) BAD`
    | prev, x :: rest =>
      if x > 16 then
        if x ≥ (M - 1) / 5 ∨ prev > 2 * x % M ∨ 5 * x % M ≥ (4 * prev % M + M - 16) % M then false
        else go x rest
      else if prev > 32 then false
      else (x :: rest).all (· == 0)
  match xs with
  | [] => false
  | x0 :: rest => if rest.isEmpty then decide (x0 ≤ 32) else go x0 rest

/-- `stb99SeedVal`: 0 = ok, 524 = ERR_BAD_SEED -/
def stb99SeedValV (S : Nat) (lr : List (Nat × Nat)) (l : Nat) (zi di ri : List Nat) : Nat :=
  match lr.find? (·.1 = l) with
  | none => 524
  | some (_, r) =>
    if !(zi.all (fun z => z ≠ 0 ∧ z < 65257)) then 524
    else
      let M := 2 ^ S
      let d0 := di.headD 0
      if d0 ≥ (M - 1) / 8 ∨ l > 2 * d0 ∨ 8 * d0 > 7 * l - r then 524
      else if !chainOk S di then 524
      else if ri.headD 0 ≠ r then 524
      else if !chainOk S ri then 524
      else 0

structure PfokVals where
  l : Nat
  r : Nat
  n : Nat
  p : Nat
  g : Nat
  p0 : Nat        -- p[0] (lowest octet)
  pTop : Nat      -- p[no - 1]
  tailsZero : Bool

/-- `pfokParamsIsOperable` -/
def pfokIsOperable (lr : List (Nat × Nat)) (v : PfokVals) : Bool :=
  lr.contains (v.l, v.r) && decide (v.n < v.l) &&
  decide (v.p0 % 4 = 3) && decide (v.pTop / 32 = 1) && v.tailsZero &&
  decide (v.g ≠ 0) && decide (v.g < v.p)

/-- `err_t pfokParamsVal(const pfok_params* params)` -/
def pfokParamsValV (isPrime : Nat → Bool) (lr : List (Nat × Nat)) (v : PfokVals) : Nat :=
  if !pfokIsOperable lr v then 502
  else if !isPrime v.p then 502
  else if !isPrime (v.p / 2) then 502
  else
    let R := 2 ^ (v.l + 2)
    let x := montPow v.p R v.g (v.p / 2)
    if x = R % v.p ∨ x = v.g then 502 else 0

/-- `err_t pfokPubkeyVal(params, pubkey)`: 0 < y < p -/
def pfokPubkeyValV (lr : List (Nat × Nat)) (v : PfokVals) (y : Nat) : Nat :=
  if !pfokIsOperable lr v then 502
  else if y = 0 ∨ y ≥ v.p then 505 else 0

/-- `pfokSeedVal` -/
def pfokSeedValV (S : Nat) (lr : List (Nat × Nat)) (l : Nat) (zi li : List Nat) : Nat :=
  if !(lr.any (·.1 = l)) then 524
  else if !(zi.all (fun z => z ≠ 0 ∧ z < 65257)) then 524
  else if li.headD 0 ≠ l - 1 then 524
  else if !chainOk S li then 524
  else 0

end Bee2V.C12

/-
C12 — ppIsIrred against trial division: exhaustive kernel check for all polynomials of degree ≤ 11
(chunks of `decide +kernel`), the unfolding of the trial-division specification, deg (a mod m) < deg m.  No Mathlib.
Timings (loaded machine, kernel): degree ≤ 8: 7 s, degree 9: 10 s, degree 10: 2 × 14 s, degree 11: 8 × 7 s;
degree 12 would need 32 more chunks of ≈ 4.5 s (≈ 2.5 min): not included.
-/
import Bee2V.C12.ModelPp
namespace Bee2V.C12

/-! ### irredTD: the specification it encodes -/

/-- `irredTD f`: f has degree ≥ 1 and no divisor d of degree 1 … deg f / 2 (d = 0, 1 are excluded) -/
theorem irredTD_spec (f : Nat) :
    irredTD f = true ↔ 2 ≤ f ∧ ∀ d, 2 ≤ d → d < 2 ^ (pdeg f / 2 + 1) → pmod f d ≠ 0 := by
  simp only [irredTD, Bool.and_eq_true, decide_eq_true_eq, List.all_eq_true, List.mem_range, Bool.or_eq_true,
    bne_iff_ne, ne_eq, ge_iff_le]
  constructor
  · rintro ⟨h2, h⟩
    refine ⟨h2, fun d hd2 hd => ?_⟩
    rcases h d hd with h' | h'
    · omega
    · exact h'
  · rintro ⟨h2, h⟩
    refine ⟨h2, fun d hd => ?_⟩
    by_cases hd2 : d < 2
    · exact Or.inl hd2
    · exact Or.inr (h d (by omega) hd)

example : irredTD 0b1011 = true ∧ irredTD 0b1001 = false := by decide +kernel

/-! ### plen / pmod: deg (a mod m) < deg m -/

namespace PpAux

theorem plen_le_iff (a k : Nat) : plen a ≤ k ↔ a < 2 ^ k := by
  unfold plen
  by_cases h : a = 0
  · subst h; simp [Nat.two_pow_pos]
  · rw [if_neg h, Nat.succ_le_iff, Nat.log2_lt h]

theorem plen_pos (a : Nat) (h : a ≠ 0) : 0 < plen a := by simp [plen, h]

theorem testBit_top (a : Nat) (h : a ≠ 0) : a.testBit (plen a - 1) = true := by
  simp only [plen, if_neg h, Nat.add_sub_cancel]
  exact Nat.testBit_log2 h

/-- cancelling the leading term lowers the length -/
theorem plen_step (a m : Nat) (ha : a ≠ 0) (hm : m ≠ 0) (hge : plen a ≥ plen m) :
    plen (a ^^^ (m <<< (plen a - plen m))) < plen a := by
  have hpa := plen_pos a ha
  have hpm := plen_pos m hm
  have h1 : a < 2 ^ plen a := (plen_le_iff a _).1 (Nat.le_refl _)
  have h2 : m <<< (plen a - plen m) < 2 ^ plen a := by
    rw [Nat.shiftLeft_eq]
    have hm' : m < 2 ^ plen m := (plen_le_iff m _).1 (Nat.le_refl _)
    have : m * 2 ^ (plen a - plen m) < 2 ^ plen m * 2 ^ (plen a - plen m) :=
      Nat.mul_lt_mul_of_pos_right hm' (Nat.two_pow_pos _)
    rwa [← Nat.pow_add, show plen m + (plen a - plen m) = plen a by omega] at this
  have hx : a ^^^ (m <<< (plen a - plen m)) < 2 ^ plen a := Nat.xor_lt_two_pow h1 h2
  have htop : (a ^^^ (m <<< (plen a - plen m))).testBit (plen a - 1) = false := by
    rw [Nat.testBit_xor, testBit_top a ha, Nat.testBit_shiftLeft,
      show plen a - 1 - (plen a - plen m) = plen m - 1 by omega, testBit_top m hm]
    have : plen a - 1 ≥ plen a - plen m := by omega
    simp [this]
  have hlt : a ^^^ (m <<< (plen a - plen m)) < 2 ^ (plen a - 1) := by
    apply Nat.lt_pow_two_of_testBit
    intro i hi
    by_cases hi' : i = plen a - 1
    · rw [hi']; exact htop
    · apply Nat.testBit_lt_two_pow
      exact Nat.lt_of_lt_of_le hx (Nat.pow_le_pow_right (by omega) (by omega))
  have := (plen_le_iff _ _).2 hlt
  omega

theorem pmodAux_plen (m : Nat) (hm : m ≠ 0) : ∀ fuel a, plen a < plen m + fuel →
    plen (pmodAux m (plen m) fuel a) < plen m := by
  intro fuel
  induction fuel with
  | zero => intro a h; simpa [pmodAux] using h
  | succ fuel ih =>
    intro a h
    simp only [pmodAux]
    by_cases hc : plen a ≥ plen m ∧ a ≠ 0
    · rw [if_pos hc]
      apply ih
      have := plen_step a m hc.2 hm hc.1
      omega
    · rw [if_neg hc]
      by_cases ha : a = 0
      · subst ha; exact plen_pos m hm
      · omega

end PpAux

/-- deg (a mod m) < deg m -/
theorem pmod_lt (a m : Nat) (hm : m ≠ 0) : pmod a m < 2 ^ (plen m - 1) := by
  have hpm := PpAux.plen_pos m hm
  rw [← PpAux.plen_le_iff]
  unfold pmod
  rw [if_neg hm]
  have := PpAux.pmodAux_plen m hm (plen a) a (by omega)
  omega

theorem plen_pmod_lt (a m : Nat) (hm : m ≠ 0) : plen (pmod a m) < plen m := by
  have := (PpAux.plen_le_iff _ _).2 (pmod_lt a m hm)
  have := PpAux.plen_pos m hm
  omega

/-! ### exhaustive comparison -/

namespace PpAux

/-- ppIsIrred and irredTD agree on lo, …, lo + n − 1 -/
def chk (lo n : Nat) : Bool := (List.range n).all (fun i => ppIsIrred (lo + i) == irredTD (lo + i))

theorem chk_sound (lo n : Nat) (h : chk lo n = true) (f : Nat) (h1 : lo ≤ f) (h2 : f < lo + n) :
    ppIsIrred f = irredTD f := by
  simp only [chk, List.all_eq_true, List.mem_range, beq_iff_eq] at h
  have := h (f - lo) (by omega)
  rwa [show lo + (f - lo) = f by omega] at this

set_option maxRecDepth 100000

theorem c0 : chk 0 512 = true := by decide +kernel
theorem c1 : chk 512 512 = true := by decide +kernel
theorem c2 : chk 1024 512 = true := by decide +kernel
theorem c3 : chk 1536 512 = true := by decide +kernel
theorem c4 : chk 2048 256 = true := by decide +kernel
theorem c5 : chk 2304 256 = true := by decide +kernel
theorem c6 : chk 2560 256 = true := by decide +kernel
theorem c7 : chk 2816 256 = true := by decide +kernel
theorem c8 : chk 3072 256 = true := by decide +kernel
theorem c9 : chk 3328 256 = true := by decide +kernel
theorem c10 : chk 3584 256 = true := by decide +kernel
theorem c11 : chk 3840 256 = true := by decide +kernel

end PpAux

open PpAux in
/-- `ppIsIrred` is exact (= trial division) on every polynomial of degree ≤ 11 -/
theorem ppIsIrred_exact_le : ∀ f, f < 2 ^ (11 + 1) → ppIsIrred f = irredTD f := by
  intro f hf
  have hf' : f < 4096 := hf
  by_cases h0 : f < 512; · exact chk_sound _ _ c0 f (by omega) (by omega)
  by_cases h1 : f < 1024; · exact chk_sound _ _ c1 f (by omega) (by omega)
  by_cases h2 : f < 1536; · exact chk_sound _ _ c2 f (by omega) (by omega)
  by_cases h3 : f < 2048; · exact chk_sound _ _ c3 f (by omega) (by omega)
  by_cases h4 : f < 2304; · exact chk_sound _ _ c4 f (by omega) (by omega)
  by_cases h5 : f < 2560; · exact chk_sound _ _ c5 f (by omega) (by omega)
  by_cases h6 : f < 2816; · exact chk_sound _ _ c6 f (by omega) (by omega)
  by_cases h7 : f < 3072; · exact chk_sound _ _ c7 f (by omega) (by omega)
  by_cases h8 : f < 3328; · exact chk_sound _ _ c8 f (by omega) (by omega)
  by_cases h9 : f < 3584; · exact chk_sound _ _ c9 f (by omega) (by omega)
  by_cases h10 : f < 3840; · exact chk_sound _ _ c10 f (by omega) (by omega)
  exact chk_sound _ _ c11 f (by omega) (by omega)

/-- hence: for degree ≤ 11 ppIsIrred decides "no divisor of degree 1 … deg/2" -/
theorem ppIsIrred_spec_le (f : Nat) (hf : f < 2 ^ (11 + 1)) :
    ppIsIrred f = true ↔ 2 ≤ f ∧ ∀ d, 2 ≤ d → d < 2 ^ (pdeg f / 2 + 1) → pmod f d ≠ 0 := by
  rw [ppIsIrred_exact_le f hf, irredTD_spec]

end Bee2V.C12

/-
C12 — ppIsIrred against trial division: exhaustive kernel check for all polynomials of degree ≤ 11
(chunks of `decide +kernel`), and the unfolding of the trial-division specification.  No Mathlib.
Timings (loaded machine, kernel): degree ≤ 8: 7 s, degree 9: 10 s, degree 10: 2 × 14 s, degree 11: 8 × 7 s;
degree 12 would need 32 more chunks of ≈ 4.5 s (≈ 2.5 min): not included.
-/
import Bee2V.C12.ModelPp
namespace Bee2V.C12

/-! ### irredTD: the specification it encodes -/

/-- `irredTD f`: f has degree ≥ 1 and no divisor d of degree 1 … deg f / 2 (d = 0, 1 are excluded) -/
theorem irredTD_spec (f : Nat) :
    irredTD f = true ↔ 2 ≤ f ∧ ∀ d, 2 ≤ d → d < 2 ^ (pdeg f / 2 + 1) → pmod f d ≠ 0 := by
  simp only [irredTD, Bool.and_eq_true, decide_eq_true_eq, List.all_eq_true, List.mem_range, Bool.or_eq_true,
    bne_iff_ne, ne_eq, ge_iff_le]
  constructor
  · rintro ⟨h2, h⟩
    refine ⟨h2, fun d hd2 hd => ?_⟩
    rcases h d hd with h' | h'
    · omega
    · exact h'
  · rintro ⟨h2, h⟩
    refine ⟨h2, fun d hd => ?_⟩
    by_cases hd2 : d < 2
    · exact Or.inl hd2
    · exact Or.inr (h d (by omega) hd)

example : irredTD 0b1011 = true ∧ irredTD 0b1001 = false := by decide +kernel

/-! ### exhaustive comparison -/

namespace PpAux

/-- ppIsIrred and irredTD agree on lo, …, lo + n − 1 -/
def chk (lo n : Nat) : Bool := (List.range n).all (fun i => ppIsIrred (lo + i) == irredTD (lo + i))

theorem chk_sound (lo n : Nat) (h : chk lo n = true) (f : Nat) (h1 : lo ≤ f) (h2 : f < lo + n) :
    ppIsIrred f = irredTD f := by
  simp only [chk, List.all_eq_true, List.mem_range, beq_iff_eq] at h
  have := h (f - lo) (by omega)
  rwa [show lo + (f - lo) = f by omega] at this

set_option maxRecDepth 100000

theorem c0 : chk 0 512 = true := by decide +kernel
theorem c1 : chk 512 512 = true := by decide +kernel
theorem c2 : chk 1024 512 = true := by decide +kernel
theorem c3 : chk 1536 512 = true := by decide +kernel
theorem c4 : chk 2048 256 = true := by decide +kernel
theorem c5 : chk 2304 256 = true := by decide +kernel
theorem c6 : chk 2560 256 = true := by decide +kernel
theorem c7 : chk 2816 256 = true := by decide +kernel
theorem c8 : chk 3072 256 = true := by decide +kernel
theorem c9 : chk 3328 256 = true := by decide +kernel
theorem c10 : chk 3584 256 = true := by decide +kernel
theorem c11 : chk 3840 256 = true := by decide +kernel

end PpAux

open PpAux in
/-- `ppIsIrred` is exact (= trial division) on every polynomial of degree ≤ 11 -/
theorem ppIsIrred_exact_le : ∀ f, f < 2 ^ (11 + 1) → ppIsIrred f = irredTD f := by
  intro f hf
  have hf' : f < 4096 := hf
  by_cases h0 : f < 512; · exact chk_sound _ _ c0 f (by omega) (by omega)
  by_cases h1 : f < 1024; · exact chk_sound _ _ c1 f (by omega) (by omega)
  by_cases h2 : f < 1536; · exact chk_sound _ _ c2 f (by omega) (by omega)
  by_cases h3 : f < 2048; · exact chk_sound _ _ c3 f (by omega) (by omega)
  by_cases h4 : f < 2304; · exact chk_sound _ _ c4 f (by omega) (by omega)
  by_cases h5 : f < 2560; · exact chk_sound _ _ c5 f (by omega) (by omega)
  by_cases h6 : f < 2816; · exact chk_sound _ _ c6 f (by omega) (by omega)
  by_cases h7 : f < 3072; · exact chk_sound _ _ c7 f (by omega) (by omega)
  by_cases h8 : f < 3328; · exact chk_sound _ _ c8 f (by omega) (by omega)
  by_cases h9 : f < 3584; · exact chk_sound _ _ c9 f (by omega) (by omega)
  by_cases h10 : f < 3840; · exact chk_sound _ _ c10 f (by omega) (by omega)
  exact chk_sound _ _ c11 f (by omega) (by omega)

/-- hence: for degree ≤ 11 ppIsIrred decides "no divisor of degree 1 … deg/2" -/
theorem ppIsIrred_spec_le (f : Nat) (hf : f < 2 ^ (11 + 1)) :
    ppIsIrred f = true ↔ 2 ≤ f ∧ ∀ d, 2 ≤ d → d < 2 ^ (pdeg f / 2 + 1) → pmod f d ≠ 0 := by
  rw [ppIsIrred_exact_le f hf, irredTD_spec]

end Bee2V.C12

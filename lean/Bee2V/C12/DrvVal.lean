import Bee2V.C12.ModelVal
import Bee2V.C12.ModelEc2
import Bee2V.C12.ModelVal2
import Bee2V.C01.Model.Hash
import Bee2V.Base.Proto
/-! C12 driver: validators of parameters and keys -/
namespace Bee2V.C12.DrvVal
open Bee2V.C12 Bee2V.Proto

/-- primality oracle of the driver: the model's Miller–Rabin with the first 16 primes as bases
    (stands for priIsPrime with its random bases; deterministic below 3.3·10^24) -/
def drvIsPrime (n : Nat) : Bool :=
  let tape := [2, 3, 5, 7, 11, 13, 17, 19, 23, 29, 31, 37, 41, 43, 47, 53].filter (fun b => b + 1 < n)
  priRMTest n tape.length tape

def beltHash (bs : List UInt8) : List UInt8 :=
  match (Bee2V.C01.hashHL Bee2V.C01.beltCipher bs).2 with
  | some h => h
  | none => []

def hexN (s : String) (n : Nat) : Option (List UInt8) :=
  match parseHex s with
  | some bs => if bs.length ≤ n then some (bs ++ List.replicate (n - bs.length) 0) else none
  | none => none

def bignParse : List String → Option BignParams
  | [l, p, a, b, seed, q, yG] => do
    let l ← parseNat l
    let p ← hexN p 64; let a ← hexN a 64; let b ← hexN b 64
    let seed ← hexN seed 8; let q ← hexN q 64; let yG ← hexN yG 64
    pure ⟨l, p, a, b, q, yG, seed⟩
  | _ => none

def bignVals (P : BignParams) (no : Nat) (withHash : Bool) : BignVals :=
  let pO := P.p.take no
  let aO := P.a.take no
  let B := if withHash then leVal (beltHash (pO ++ aO ++ P.seed) ++ beltHash (pO ++ aO ++ seedInc P.seed)) else 0
  ⟨leVal pO, leVal aO, leVal (P.b.take no), leVal (P.q.take no), leVal (P.yG.take no), B⟩

def handleBign (is96 : Bool) (op : String) (args : List String) : String :=
  match bignParse (args.take 7) with
  | none => "bad-op"
  | some P =>
    let rest := args.drop 7
    let no := if is96 then 24 else P.l / 4
    let operable := if is96 then P.l == 96 else bignIsOperable P
    let v := bignVals P no (operable && op == "val")
    let operable := if is96 then operable && bign96StartOk v else operable
    match op, rest with
    | "val", [] => toString (if is96 then bign96ParamsVal drvIsPrime P.l v else bignParamsVal drvIsPrime operable v)
    | "pub", [pk] =>
      match parseHex pk with
      | some pk =>
        if operable && pk.length ≠ 2 * no then "bad-op"
        else toString (bignPubkeyValV operable v (leVal (pk.take no)) (leVal (pk.drop no)))
      | none => "bad-op"
    | "kp", [d, pk] =>
      match parseHex d, parseHex pk with
      | some d, some pk =>
        if operable && (pk.length ≠ 2 * no || d.length ≠ no) then "bad-op"
        else toString (bignKeypairValV operable v (leVal d) (leVal (pk.take no)) (leVal (pk.drop no)))
      | _, _ => "bad-op"
    | _, _ => "bad-op"

def handleG12s (W : Nat) : List String → String
  | [l, p, a, b, q, n, xP, yP] =>
    match parseNat l, hexN p 68, hexN a 68, hexN b 68, hexN q 64, parseNat n, hexN xP 68, hexN yP 68 with
    | some l, some p, some a, some b, some q, some n, some xP, some yP =>
      if l ≠ 256 ∧ l ≠ 512 then "502" else
      let pv := leVal (p.take (68 * l / 512))
      let no := (bitSize pv + 7) / 8
      toString (g12sParamsValV drvIsPrime W
        ⟨l, pv, leVal (a.take no), leVal (b.take no), leVal (q.take (l / 8)), n % 2 ^ 32, leVal (xP.take no), leVal (yP.take no)⟩)
    | _, _, _, _, _, _, _, _ => "bad-op"
  | _ => "bad-op"

def dstuParse : List String → Option (DstuVals × Nat × List UInt8)
  | [p0, p1, p2, p3, A, B, n, c, P] => do
    let p0 ← parseNat p0; let p1 ← parseNat p1; let p2 ← parseNat p2; let p3 ← parseNat p3
    let A ← parseNat A; let c ← parseNat c
    let B ← hexN B 64; let n ← hexN n 64; let P ← hexN P 128
    let m := p0 % 65536
    let no := (m + 7) / 8
    pure (⟨m, p1 % 65536, p2 % 65536, p3 % 65536, A % 256, leVal (B.take no), leVal (n.take no), c % 2 ^ 32,
           leVal (P.take no), leVal ((P.drop no).take no)⟩, no, P)
  | _ => none

def handleDstu (W : Nat) (op : String) (args : List String) : String :=
  match dstuParse (args.take 9) with
  | none => "bad-op"
  | some (v, no, _) =>
    match op, args.drop 9 with
    | "val", [] => toString (dstuParamsValV drvIsPrime W v)
    | "point", [pt] =>
      match parseHex pt with
      | some pt =>
        if v.p0 < 160 ∨ v.p0 > 509 ∨ pt.length ≠ 2 * no then "bad-op"
        else toString (dstuPointValV W v (leVal (pt.take no)) (leVal (pt.drop no)))
      | none => "bad-op"
    | _, _ => "bad-op"

def natList (s : String) : Option (List Nat) :=
  if s = "-" then some [] else (s.splitOn ",").mapM parseNat

def padTo (n : Nat) (xs : List Nat) : List Nat := xs ++ List.replicate (n - xs.length) 0

def handleStb99 (op : String) (args : List String) : String :=
  match op, args with
  | "val", [l, r, p, q, a, d] =>
    match parseNat l, parseNat r, hexN p 308, hexN q 33, hexN a 308, hexN d 308 with
    | some l, some r, some p, some q, some a, some d =>
      let no := (l + 7) / 8; let mo := (r + 7) / 8
      toString (stb99ParamsValV drvIsPrime Bee2V.Gen.C12.stb99Ls
        ⟨l, r, leVal (p.take no), leVal (q.take mo), leVal (a.take no), leVal (d.take no),
         allZero (p.drop no) && allZero (q.drop mo) && allZero (a.drop no) && allZero (d.drop no)⟩)
    | _, _, _, _, _, _ => "bad-op"
  | "seedval", [l, zi, di, ri] =>
    match parseNat l, natList zi, natList di, natList ri with
    | some l, some zi, some di, some ri =>
      toString (stb99SeedVal 64 Bee2V.Gen.C12.stb99Ls l (padTo 31 zi) (padTo 18 di) (padTo 10 ri))
    | _, _, _, _ => "bad-op"
  | _, _ => "bad-op"

def handlePfok (op : String) (args : List String) : String :=
  match args with
  | l :: r :: n :: p :: g :: rest =>
    match parseNat l, parseNat r, parseNat n, hexN p 368, hexN g 368 with
    | some l, some r, some n, some p, some g =>
      let no := (l + 7) / 8
      let v : PfokVals := ⟨l, r, n, leVal (p.take no), leVal (g.take no), (p.headD 0).toNat, (p.getD (no - 1) 0).toNat,
                           allZero (p.drop no) && allZero (g.drop no)⟩
      match op, rest with
      | "val", [] => toString (pfokParamsValV drvIsPrime Bee2V.Gen.C12.pfokLs v)
      | "pub", [y] =>
        match parseHex y with
        | some y => if l < 4000 ∧ y.length ≠ no then "bad-op" else toString (pfokPubkeyValV Bee2V.Gen.C12.pfokLs v (leVal y))
        | none => "bad-op"
      | _, _ => "bad-op"
    | _, _, _, _, _ => "bad-op"
  | _ => "bad-op"

def handlePfokSeed : List String → String
  | [l, zi, li] =>
    match parseNat l, natList zi, natList li with
    | some l, some zi, some li => toString (pfokSeedVal 64 Bee2V.Gen.C12.pfokLs l (padTo 31 zi) (padTo 20 li))
    | _, _, _ => "bad-op"
  | _ => "bad-op"

def b2c (b : Bool) : String := if b then "1" else "0"

/-- `ecpgroup p a b xG yG q cof mov` -/
def handleEcpGroup (W : Nat) : List String → String
  | [p, a, b, x, y, q, cof, mov] =>
    match parseHex p, parseHex a, parseHex b, parseHex x, parseHex y, parseHex q, parseNat cof, parseNat mov with
    | some p, some a, some b, some x, some y, some q, some cof, some mov =>
      let no := p.length
      if no = 0 ∨ p.getLast! = 0 ∨ a.length ≠ no ∨ b.length ≠ no ∨ x.length ≠ no ∨ y.length ≠ no then "bad-op" else
      let pv := leVal p; let av := leVal a; let bv := leVal b; let xv := leVal x; let yv := leVal y; let qv := leVal q
      let n := wordSize W pv
      let cof := cof % 2 ^ 32
      -- gfpCreate: p odd, ≠ 1; ecpCreateJ: p > 3, a, b < p; ecCreateGroup: q ≠ 0 fits n+1 words, cof ≠ 0, x, y < p
      if pv % 2 = 0 ∨ pv ≤ 3 ∨ av ≥ pv ∨ bv ≥ pv ∨ qv = 0 ∨ wordSize W qv > n + 1 ∨ cof = 0 ∨ xv ≥ pv ∨ yv ≥ pv then "0"
      else
        let E : Ecp := ⟨pv, av, bv⟩
        let valid := ecpIsValid drvIsPrime pv av bv
        -- the group functions are only meaningful on a valid field; the harness calls them anyway
        let seems := E.onCurve xv yv && hasseP W n pv qv cof
        let safe := ecpIsSafeGroup drvIsPrime pv qv mov
        let ord := if valid && E.onCurve xv yv then b2c (E.mul qv (some (xv, yv))).isNone else "x"
        s!"1 {b2c valid} {b2c seems} {b2c safe} {ord}"
    | _, _, _, _, _, _, _, _ => "bad-op"
  | _ => "bad-op"

/-- `ec2group m k1 k2 k3 A B xG yG q cof mov` -/
def handleEc2Group (W : Nat) : List String → String
  | [m, k1, k2, k3, A, B, x, y, q, cof, mov] =>
    match parseNat m, parseNat k1, parseNat k2, parseNat k3, parseHex A, parseHex B, parseHex x, parseHex y, parseHex q,
          parseNat cof, parseNat mov with
    | some m, some k1, some k2, some k3, some A, some B, some x, some y, some q, some cof, some mov =>
      let no := (m + 7) / 8
      if m < 2 ∨ m > 600 ∨ A.length ≠ no ∨ B.length ≠ no ∨ x.length ≠ no ∨ y.length ≠ no then "bad-op" else
      let v : DstuVals := ⟨m, k1, k2, k3, leVal A, leVal B, leVal q, cof % 2 ^ 32, leVal x, leVal y⟩
      match ec2Group drvIsPrime W v mov with
      | none => "0"
      | some (valid, seems, safe, ord) =>
        let ordS := if valid && (⟨⟨m, 0⟩, 0, 0⟩ : Ec2).A = 0 then b2c ord else b2c ord
        s!"1 {b2c valid} {b2c seems} {b2c safe} {ordS}"
    | _, _, _, _, _, _, _, _, _, _, _ => "bad-op"
  | _ => "bad-op"

def handleBels : List String → String
  | [m0] => match parseHex m0 with
    | some bs => toString (belsValM (leVal bs) bs.length)
    | none => "bad-op"
  | _ => "bad-op"

def handleIrred : List String → String
  | [f] => match parseHex f with
    | some bs => if ppIsIrred (leVal bs) then "1" else "0"
    | none => "bad-op"
  | _ => "bad-op"

def handleIrredSweep : List String → String
  | [d] => match parseNat d with
    | some d => if d > 20 then "bad-op" else
      String.ofList ((List.range (2 ^ d)).map (fun c => if ppIsIrred (2 ^ d + c) then '1' else '0'))
    | none => "bad-op"
  | _ => "bad-op"

def handle (W : Nat) : List String → Option String
  | "bignval" :: a => some (handleBign false "val" a)
  | "bignpub" :: a => some (handleBign false "pub" a)
  | "bignkp" :: a => some (handleBign false "kp" a)
  | "bign96val" :: a => some (handleBign true "val" a)
  | "bign96pub" :: a => some (handleBign true "pub" a)
  | "bign96kp" :: a => some (handleBign true "kp" a)
  | "g12sval" :: a => some (handleG12s W a)
  | "dstuval" :: a => some (handleDstu W "val" a)
  | "dstupoint" :: a => some (handleDstu W "point" a)
  | "stb99val" :: a => some (handleStb99 "val" a)
  | "stb99seedval" :: a => some (handleStb99 "seedval" a)
  | "pfokval" :: a => some (handlePfok "val" a)
  | "pfokpub" :: a => some (handlePfok "pub" a)
  | "pfokseedval" :: a => some (handlePfokSeed a)
  | "ecpgroup" :: a => some (handleEcpGroup W a)
  | "ec2group" :: a => some (handleEc2Group W a)
  | "belsval" :: a => some (handleBels a)
  | "irred" :: a => some (handleIrred a)
  | "irredsweep" :: a => some (handleIrredSweep a)
  | _ => none

end Bee2V.C12.DrvVal

/-
C12 — src/math/pri.c priExtendPrime2 / priExtendPrime (Demytko extension p = 2·q·a·r + 1), priBasePrime.
Code-shaped, the generator's octets on an explicit tape.  Executable, no Mathlib.
-/
import Bee2V.C12.ModelPri
namespace Bee2V.C12
open Bee2V.Gen.C12

/-- `word priBasePrime(size_t i)` (pre: i < priBaseSize()) -/
def priBasePrime (i : Nat) : Nat := base[i]!

/-- Demytko's test as computed: t = (4^r)^a mod p ≠ 1 and t^q mod p = 1 -/
def demytko (p q a r : Nat) : Bool :=
  let t := powMod (powMod (4 % p) r p) a p
  t != 1 % p && powMod t q p == 1 % p

inductive ExtRes where
  | found (p : Nat)
  | fail
  | next (trials : Option Nat)

/-- `mods[i] += mods1[i]; if (mods[i] >= _base[i]) mods[i] -= _base[i]` for all i -/
def addMods : List Nat → List Nat → Nat → List Nat
  | m :: ms, m1 :: m1s, i => (if m + m1 ≥ base[i]! then m + m1 - base[i]! else m + m1) :: addMods ms m1s (i + 1)
  | _, _, _ => []

/-- inner `while (1)`: sieve, Demytko, p += 2qa (overflow of the np words or a longer bit length leaves the loop),
    ++r, residues, `if (trials != SIZE_MAX && trials-- == 0) return FALSE` -/
def extInner (l nW qa q a : Nat) : Nat → Option Nat → Nat → Nat → List Nat → List Nat → ExtRes
  | 0, tr, _, _, _, _ => .next tr
  | fuel + 1, tr, p, r, mods, mods1 =>
    if mods.all (· ≠ 0) && demytko p q a r then .found p
    else
      let p' := p + 2 * qa
      if p' ≥ 2 ^ nW ∨ bitSize p' > l then .next tr
      else
        match tr with
        | some 0 => .fail
        | _ => extInner l nW qa q a fuel (tr.map (· - 1)) p' (r + 1) (addMods mods mods1 0) mods1

/-- value of the next `k` octets of the tape (little-endian; an exhausted tape reads as zeros) -/
def drawOctets (k : Nat) (tape : List UInt8) : Nat × List UInt8 :=
  ((tape.take k).foldr (fun b acc => b.toNat + 256 * acc) 0, tape.drop k)

/-- outer `while (trials == SIZE_MAX || trials--)`: t <-R [2^(l-2), 2^(l-1)), r = ⌈t / qa⌉, skip when qa·r has more than
    l − 1 bits, p = 2·qa·r + 1 -/
def extOuter (W l q a bc : Nat) : Nat → Option Nat → List UInt8 → Option Nat × List UInt8
  | 0, _, tape => (none, tape)
  | fuel + 1, tr, tape =>
    if tr = some 0 then (none, tape)
    else
      let tr := tr.map (· - 1)
      let np := (l + W - 1) / W
      let (t0, tape') := drawOctets ((l + 7) / 8) tape
      let t := t0 % 2 ^ (l - 2) + 2 ^ (l - 2)
      let qa := q * a
      let r := (t + qa - 1) / qa
      let tt := qa * r
      if bitSize tt > l - 1 then extOuter W l q a bc fuel tr tape'
      else
        let p := 2 * tt + 1
        let mods := priBaseMod W p bc
        let mods1 := (priBaseMod W qa bc).zipIdx.map (fun (m, i) => if 2 * m ≥ base[i]! then 2 * m - base[i]! else 2 * m)
        match extInner l (np * W) qa q a (2 ^ l) tr p r mods mods1 with
        | .found p' => (some p', tape')
        | .fail => (none, tape')
        | .next tr' => extOuter W l q a bc fuel tr' tape'

/-- `bool_t priExtendPrime2(word p[], size_t l, const word q[], size_t n, const word a[], size_t m, size_t trials,
    size_t base_count, gen_i rng, void* rng_state, void* stack)`; trials = none ⇔ SIZE_MAX; `fuel` bounds the draws -/
def priExtendPrime2 (W l q a : Nat) (trials : Option Nat) (baseCount : Nat) (tape : List UInt8) (fuel : Nat) :
    Option Nat × List UInt8 :=
  let bc := if l < W then adjustBaseCount (2 ^ (l - 1)) false baseCount else baseCount
  extOuter W l q a bc fuel trials tape

/-- `priExtendPrime` = priExtendPrime2 with a = 1 -/
def priExtendPrime (W l q : Nat) (trials : Option Nat) (baseCount : Nat) (tape : List UInt8) (fuel : Nat) :
    Option Nat × List UInt8 := priExtendPrime2 W l q 1 trials baseCount tape fuel

end Bee2V.C12

/-
C12 — lemmas about the validator models of ModelVal.lean: the word-array Hasse checks equal the
Hasse bound, the MOV loop equals its quantified statement, every validator returns ERR_OK exactly
when all the conditions of its decision list hold.  No Mathlib.
-/
import Bee2V.C12.ModelVal
namespace Bee2V.C12

/-! ### bitSize / wordSize -/

namespace ValAux

theorem bitSize_le_iff (v k : Nat) : bitSize v ≤ k ↔ v < 2 ^ k := by
  unfold bitSize
  by_cases hv : v = 0
  · subst hv; simp [Nat.two_pow_pos]
  · rw [if_neg hv, Nat.succ_le_iff, Nat.log2_lt hv]

theorem wordSize_le_iff (W d n : Nat) (hW : 0 < W) : wordSize W d ≤ n ↔ d < 2 ^ (W * n) := by
  rw [← bitSize_le_iff]
  unfold wordSize
  generalize bitSize d = s
  rw [← Nat.lt_succ_iff, Nat.div_lt_iff_lt_mul hW, Nat.succ_mul, Nat.mul_comm n W]
  omega

theorem wordSize_gt_iff (W d n : Nat) (hW : 0 < W) : wordSize W d > n ↔ 2 ^ (W * n) ≤ d := by
  have := wordSize_le_iff W d n hW
  omega

/-- the final comparison on (t2 / 4, t2 % 4) is `t2 ≤ 4 p` -/
theorem quarter_cmp (s p : Nat) : (!decide (s / 4 > p ∨ (s / 4 = p ∧ s % 4 ≠ 0))) = true ↔ s ≤ 4 * p := by
  simp only [Bool.not_eq_true', decide_eq_false_iff_not]
  omega

theorem sq_sub_of_le (t c d : Nat) (h : t = c + d) : ((t : Int) - (c : Int)) ^ 2 = ((d * d : Nat) : Int) := by
  subst h
  have : ((c + d : Nat) : Int) - (c : Int) = (d : Int) := by omega
  rw [this, Int.pow_succ, Int.pow_succ, Int.pow_zero, Int.one_mul, Int.natCast_mul]

theorem sq_sub_of_ge (t c d : Nat) (h : c = t + d) : ((t : Int) - (c : Int)) ^ 2 = ((d * d : Nat) : Int) := by
  subst h
  have : (t : Int) - ((t + d : Nat) : Int) = -(d : Int) := by omega
  rw [this, Int.pow_succ, Int.pow_succ, Int.pow_zero, Int.one_mul, Int.natCast_mul, Int.neg_mul_neg]

/-- the common core of both Hasse checks: `c` = p resp. 2^m; `hbig`: a difference that does not fit n words
    violates the bound -/
theorem hasse_core (W n c t : Nat) (hW : 0 < W) (hbig : ∀ d, 2 ^ (W * n) ≤ d → 4 * c < d * d) (ht : t ≠ 0) :
    let t1 := t - 1
    let d := if t1 ≥ c then t1 - c else c - t1
    (¬ wordSize W d > n ∧ d * d ≤ 4 * c) ↔ ((t : Int) - (c + 1)) ^ 2 ≤ 4 * c := by
  intro t1 d
  have hsq : ((t : Int) - ((c + 1 : Nat) : Int)) ^ 2 = ((d * d : Nat) : Int) := by
    by_cases h : t1 ≥ c
    · apply sq_sub_of_le; simp only [d, if_pos h, t1]; omega
    · apply sq_sub_of_ge; simp only [d, if_neg h, t1]; omega
  have hsq' : ((t : Int) - (c + 1)) ^ 2 = ((d * d : Nat) : Int) := by
    rw [← hsq]; simp
  rw [hsq', wordSize_gt_iff W d n hW]
  constructor
  · rintro ⟨_, h⟩; omega
  · intro h
    have h' : d * d ≤ 4 * c := by omega
    refine ⟨?_, h'⟩
    intro hge
    have := hbig d hge
    omega

theorem big_of_lt (c B : Nat) (hc4 : 4 ≤ c) (hc : c < B) : ∀ d, B ≤ d → 4 * c < d * d := by
  intro d hd
  have hcd : c + 1 ≤ d := by omega
  have h1 : (c + 1) * (c + 1) ≤ d * d := Nat.mul_le_mul hcd hcd
  have : 4 * (c + 1) ≤ (c + 1) * (c + 1) := Nat.mul_le_mul_right _ (by omega)
  omega

theorem big_of_le (c B : Nat) (hc5 : 5 ≤ c) (hc : c ≤ B) : ∀ d, B ≤ d → 4 * c < d * d := by
  intro d hd
  have hcd : c ≤ d := by omega
  have h1 : c * c ≤ d * d := Nat.mul_le_mul hcd hcd
  have : 5 * c ≤ c * c := Nat.mul_le_mul_right _ hc5
  omega

end ValAux

open ValAux

/-! ### A1, A2: the Hasse bound -/

/-- `ecpSeemsValidGroup`'s word-array computation decides |order·cofactor − (p + 1)|² ≤ 4p -/
theorem hasseP_iff (W n p order cof : Nat) (hW : 0 < W) (_hn : 0 < n) (hp4 : 4 ≤ p) (hp : p < 2 ^ (W * n)) :
    hasseP W n p order cof = true ↔
      order * cof ≠ 0 ∧ ((order * cof : Int) - (p + 1)) ^ 2 ≤ 4 * p := by
  unfold hasseP
  by_cases ht : order * cof = 0
  · simp [ht]
  · have core := hasse_core W n p (order * cof) hW (big_of_lt p _ hp4 hp) ht
    simp only [ht, if_false, ne_eq, not_false_eq_true, true_and]
    simp only [Int.natCast_mul] at core
    rw [← core]
    by_cases hws : wordSize W (if order * cof - 1 ≥ p then order * cof - 1 - p else p - (order * cof - 1)) > n
    · simp [hws]
    · simp only [hws, if_false, not_false_eq_true, true_and]
      exact quarter_cmp _ p

example : hasseP 16 1 23 29 1 = true ∧ hasseP 16 1 23 37 1 = false := by decide

/-- the instance used by g12sParamsVal: n = f->n = number of words of p -/
theorem hasseP_wordSize_iff (W p order cof : Nat) (hW : 0 < W) (hp4 : 4 ≤ p) :
    hasseP W (wordSize W p) p order cof = true ↔
      order * cof ≠ 0 ∧ ((order * cof : Int) - (p + 1)) ^ 2 ≤ 4 * p := by
  have hp : p < 2 ^ (W * wordSize W p) := (wordSize_le_iff W p _ hW).1 (Nat.le_refl _)
  have hn : 0 < wordSize W p := by
    rcases Nat.eq_zero_or_pos (wordSize W p) with h0 | h
    · rw [h0] at hp; simp at hp; omega
    · exact h
  exact hasseP_iff W _ p order cof hW hn hp4 hp

/-- `ec2SeemsValidGroup` (after fix-2): |order·cofactor − (2^m + 1)|² ≤ 4·2^m -/
theorem hasse2_iff (W n m order cof : Nat) (hW : 0 < W) (_hn : 0 < n) (hm2 : 2 < m) (hm : m ≤ W * n) :
    hasse2 W n m order cof = true ↔
      order * cof ≠ 0 ∧ ((order * cof : Int) - (2 ^ m + 1)) ^ 2 ≤ 4 * 2 ^ m := by
  have h2m : 8 ≤ 2 ^ m := by
    have : 2 ^ 3 ≤ 2 ^ m := Nat.pow_le_pow_right (by omega) (by omega)
    simpa using this
  have hle : 2 ^ m ≤ 2 ^ (W * n) := Nat.pow_le_pow_right (by omega) hm
  unfold hasse2
  by_cases ht : order * cof = 0
  · simp [ht]
  · have core := hasse_core W n (2 ^ m) (order * cof) hW (big_of_le _ _ (by omega) hle) ht
    simp only [ht, if_false, ne_eq, not_false_eq_true, true_and]
    simp only [Int.natCast_mul, Int.natCast_pow, Int.cast_ofNat_Int] at core
    rw [← core]
    by_cases hws : wordSize W (if order * cof - 1 ≥ 2 ^ m then order * cof - 1 - 2 ^ m else 2 ^ m - (order * cof - 1)) > n
    · simp [hws]
    · simp [hws]

example : hasse2 16 1 5 37 1 = true ∧ hasse2 16 1 5 47 1 = false := by decide


/-! ### A3: the MOV loop -/

theorem movLoop_iff (q t1 : Nat) : ∀ k t2, movLoop q t1 k t2 = true ↔ ∀ j, 1 ≤ j → j ≤ k → t2 * t1 ^ j % q ≠ 1 := by
  intro k
  induction k with
  | zero => intro t2; simp only [movLoop, true_iff]; intro j h1 h2; omega
  | succ k ih =>
    intro t2
    have hstep : ∀ j, t2 * t1 % q * t1 ^ j % q = t2 * t1 ^ (j + 1) % q := by
      intro j
      rw [Nat.mod_mul_mod, Nat.pow_succ, Nat.mul_assoc, Nat.mul_comm t1]
    simp only [movLoop]
    constructor
    · intro h j h1 h2
      by_cases h0 : t2 * t1 % q = 1
      · simp [h0] at h
      · rw [if_neg h0, ih] at h
        by_cases hj : j = 1
        · subst hj; simpa using h0
        · have := h (j - 1) (by omega) (by omega)
          rw [hstep, show j - 1 + 1 = j by omega] at this
          exact this
    · intro h
      have h0 : t2 * t1 % q ≠ 1 := by simpa using h 1 (by omega) (by omega)
      rw [if_neg h0, ih]
      intro j h1 h2
      rw [hstep]
      exact h (j + 1) (by omega) (by omega)

/-- the MOV condition: P^i ≢ 1 (mod q) for i = 1 … threshold -/
theorem movOk_iff (P q thr : Nat) (_hq : 1 < q) :
    movOk P q thr = true ↔ ∀ i, 1 ≤ i → i ≤ thr → P ^ i % q ≠ 1 := by
  unfold movOk
  by_cases h0 : thr = 0
  · subst h0; simp only [if_true, true_iff]; intro i h1 h2; omega
  · simp only [h0, if_false]
    have hpow : ∀ j, P % q * (P % q) ^ j % q = P ^ (j + 1) % q := by
      intro j
      rw [← Nat.pow_succ', ← Nat.pow_mod]
    constructor
    · intro h i h1 h2
      by_cases h1' : P % q = 1
      · simp [h1'] at h
      · rw [if_neg h1', movLoop_iff] at h
        by_cases hi : i = 1
        · subst hi; simpa using h1'
        · have := h (i - 1) (by omega) (by omega)
          rw [hpow, show i - 1 + 1 = i by omega] at this
          exact this
    · intro h
      have h1' : P % q ≠ 1 := by simpa using h 1 (by omega) (by omega)
      rw [if_neg h1', movLoop_iff]
      intro j hj1 hj2
      rw [hpow]
      exact h (j + 1) (by omega) (by omega)

example : movOk 23 29 6 = true ∧ movOk 23 29 7 = false := by decide

/-! ### A4: decision lists -/

/-- `ecpIsOnA`: the curve equation modulo p -/
theorem onCurve_iff (E : Ecp) (x y : Nat) :
    Ecp.onCurve E x y = true ↔ (y * y) % E.p = (x * x * x + E.a * x + E.b) % E.p := by
  have h : (x * x % E.p * x + E.a * x + E.b) % E.p = (x * x * x + E.a * x + E.b) % E.p := by
    rw [Nat.add_assoc, Nat.add_mod, Nat.mod_mul_mod, ← Nat.add_mod, ← Nat.add_assoc]
  simp only [Ecp.onCurve, decide_eq_true_eq, h]

example : Ecp.onCurve ⟨23, 1, 1⟩ 3 10 = true ∧ Ecp.onCurve ⟨23, 1, 1⟩ 3 11 = false := by decide

theorem ecpIsSafeGroup_iff (isPrime : Nat → Bool) (p order mov : Nat) (hq : 1 < order) :
    ecpIsSafeGroup isPrime p order mov = true ↔
      isPrime order = true ∧ order ≠ p ∧ ∀ i, 1 ≤ i → i ≤ mov → p ^ i % order ≠ 1 := by
  simp only [ecpIsSafeGroup, Bool.and_eq_true, decide_eq_true_eq, movOk_iff p order mov hq, and_assoc]

theorem ecpIsValid_iff (isPrime : Nat → Bool) (p a b : Nat) :
    ecpIsValid isPrime p a b = true ↔
      p % 2 = 1 ∧ isPrime p = true ∧ 3 < p ∧ a < p ∧ b < p ∧ (4 * a ^ 3 + 27 * b ^ 2) % p ≠ 0 := by
  have h : 4 * a * a * a + 27 * b * b = 4 * a ^ 3 + 27 * b ^ 2 := by
    simp only [Nat.pow_succ, Nat.pow_zero, Nat.one_mul, Nat.mul_assoc]
  simp only [ecpIsValid, detNonZero, Bool.and_eq_true, decide_eq_true_eq, and_assoc, h, gt_iff_lt]

example : ecpIsValid (fun n => n == 23) 23 1 1 = true := by decide

/-- bignParamsVal returns ERR_OK exactly when the whole list of 6.1.4 holds -/
theorem bignParamsValV_ok_iff (isPrime : Nat → Bool) (operable : Bool) (v : BignVals) (mov : Nat) :
    bignParamsValV isPrime operable v mov = 0 ↔
      operable = true ∧ bignStartOk v = true ∧ v.B % v.p = v.b ∧ v.b ≠ 0 ∧
      ecpIsValid isPrime v.p v.a v.b = true ∧ ecpIsSafeGroup isPrime v.p v.q mov = true ∧
      isQR v.b v.p = true ∧ powMod v.b ((v.p + 1) / 4) v.p = v.yG ∧
      Ecp.mul ⟨v.p, v.a, v.b⟩ v.q (some (0, v.yG)) = none := by
  unfold bignParamsValV
  cases operable <;> cases hs : bignStartOk v <;> simp
  by_cases h1 : v.B % v.p = v.b <;> by_cases h2 : v.b = 0 <;>
    cases h3 : ecpIsValid isPrime v.p v.a v.b <;> cases h4 : ecpIsSafeGroup isPrime v.p v.q mov <;>
    cases h5 : isQR v.b v.p <;> simp [h1, h2]
  by_cases h6 : powMod v.b ((v.p + 1) / 4) v.p = v.yG <;> simp [h6]

/-- only ERR_OK and ERR_BAD_PARAMS -/
theorem bignParamsValV_code (isPrime : Nat → Bool) (operable : Bool) (v : BignVals) (mov : Nat) :
    bignParamsValV isPrime operable v mov = 0 ∨ bignParamsValV isPrime operable v mov = 502 := by
  unfold bignParamsValV
  repeat' split
  all_goals simp

theorem bignPubkeyValV_ok_iff (operable : Bool) (v : BignVals) (x y : Nat) :
    bignPubkeyValV operable v x y = 0 ↔
      operable = true ∧ bignStartOk v = true ∧ x < v.p ∧ y < v.p ∧ Ecp.onCurve ⟨v.p, v.a, v.b⟩ x y = true := by
  unfold bignPubkeyValV
  cases operable <;> cases hs : bignStartOk v <;> simp
  by_cases hxy : v.p ≤ x ∨ v.p ≤ y
  · rw [if_pos hxy]; simp; omega
  · rw [if_neg hxy]
    have : x < v.p ∧ y < v.p := by omega
    cases h : Ecp.onCurve ⟨v.p, v.a, v.b⟩ x y <;> simp [this]

theorem bignKeypairValV_ok_iff (operable : Bool) (v : BignVals) (d x y : Nat) :
    bignKeypairValV operable v d x y = 0 ↔
      operable = true ∧ bignStartOk v = true ∧ 0 < d ∧ d < v.q ∧
      Ecp.mul ⟨v.p, v.a, v.b⟩ d (some (0, v.yG)) = some (x, y) := by
  unfold bignKeypairValV
  cases operable <;> cases hs : bignStartOk v <;> simp
  by_cases hd : d = 0 ∨ d ≥ v.q
  · simp [hd]; omega
  · rw [if_neg hd]
    have : 0 < d ∧ d < v.q := by omega
    simp only [this, true_and]
    split
    · simp [*]
    · rename_i x' y' heq
      simp [heq]

/-- a public key with the right x and a wrong y is rejected (fix-4) -/
theorem bignKeypairValV_wrong_y (operable : Bool) (v : BignVals) (d x y y' : Nat) (hy : y ≠ y')
    (hmul : Ecp.mul ⟨v.p, v.a, v.b⟩ d (some (0, v.yG)) = some (x, y')) :
    bignKeypairValV operable v d x y ≠ 0 := by
  intro h
  rw [bignKeypairValV_ok_iff] at h
  have := h.2.2.2.2
  rw [hmul] at this
  simp at this
  exact hy this.symm

/-- trial-division oracle for the toy examples -/
def ValAux.tdPrime (n : Nat) : Bool := decide (2 ≤ n) && (List.range n).all (fun d => d < 2 || n % d != 0)

-- toy curve y² = x³ + x + 4 over GF(23): 29 points, G = (0, 2), 23 has order 7 mod 29
example : bignParamsValV ValAux.tdPrime true ⟨23, 1, 4, 29, 2, 4 + 23 * 5⟩ 6 = 0 := by decide +kernel
example : bignParamsValV ValAux.tdPrime true ⟨23, 1, 4, 29, 2, 4 + 23 * 5⟩ 7 = 502 := by decide +kernel
example : bignPubkeyValV true ⟨23, 1, 4, 29, 2, 4⟩ 7 20 = 0 ∧ bignPubkeyValV true ⟨23, 1, 4, 29, 2, 4⟩ 7 19 = 505 := by
  decide +kernel
example : bignKeypairValV true ⟨23, 1, 4, 29, 2, 4⟩ 5 7 20 = 0 ∧ bignKeypairValV true ⟨23, 1, 4, 29, 2, 4⟩ 5 7 3 = 505 := by
  decide +kernel

/-! #### g12s -/

theorem g12sParamsValV_ok_iff (isPrime : Nat → Bool) (W : Nat) (v : G12sVals) :
    g12sParamsValV isPrime W v = 0 ↔
      g12sCreateOk W v = true ∧ ecpIsValid isPrime v.p v.a v.b = true ∧
      Ecp.onCurve ⟨v.p, v.a, v.b⟩ v.xP v.yP = true ∧ hasseP W (wordSize W v.p) v.p v.q v.n = true ∧
      ecpIsSafeGroup isPrime v.p v.q (if v.l = 256 then 31 else 131) = true ∧
      Ecp.mul ⟨v.p, v.a, v.b⟩ (v.q % 2 ^ (W * wordSize W v.p)) (some (v.xP, v.yP)) = none ∧
      v.a ≠ 0 ∧ v.b ≠ 0 := by
  unfold g12sParamsValV
  cases h1 : g12sCreateOk W v <;> cases h2 : ecpIsValid isPrime v.p v.a v.b <;>
    cases h3 : Ecp.onCurve ⟨v.p, v.a, v.b⟩ v.xP v.yP <;> cases h4 : hasseP W (wordSize W v.p) v.p v.q v.n <;>
    cases h5 : ecpIsSafeGroup isPrime v.p v.q (if v.l = 256 then 31 else 131) <;> simp
  by_cases h7 : v.a = 0 ∨ v.b = 0
  · simp [h7]; omega
  · have : v.a ≠ 0 ∧ v.b ≠ 0 := by omega
    simp [this]

-- non-vacuity on a standard parameter set (id-GostR3410-2001-CryptoPro-A), W = 64; the oracle accepts exactly
-- p and q (≈ 15 s in the kernel: a 256-bit scalar multiplication with Fermat inversions)
example :
    let p := 2 ^ 256 - 617
    let q := 0xFFFFFFFFFFFFFFFFFFFFFFFFFFFFFFFF6C611070995AD10045841B09B761B893
    g12sParamsValV (fun n => n == p || n == q) 64
      ⟨256, p, p - 3, 166, q, 1, 1, 0x8D91E471E0989CDA27DF505A453F2B7635294F2DDF23E3B122ACC99C9E9F1E14⟩ = 0 := by
  decide +kernel

/-! #### stb99 -/

theorem stb99ParamsValV_ok_iff (isPrime : Nat → Bool) (lr : List (Nat × Nat)) (v : Stb99Vals) :
    stb99ParamsValV isPrime lr v = 0 ↔
      lr.contains (v.l, v.r) = true ∧ v.tailsZero = true ∧ bitSize v.p = v.l ∧ isPrime v.p = true ∧
      bitSize v.q = v.r ∧ isPrime v.q = true ∧ (v.p - 1) % v.q = 0 ∧ v.d < v.p ∧ v.d ≠ 0 ∧
      montPow v.p (2 ^ (v.l + 2)) v.d ((v.p - 1) / v.q) ≠ 2 ^ (v.l + 2) % v.p ∧
      v.a = montPow v.p (2 ^ (v.l + 2)) v.d ((v.p - 1) / v.q) := by
  unfold stb99ParamsValV
  cases h1 : lr.contains (v.l, v.r) <;> cases h2 : v.tailsZero <;> cases h3 : isPrime v.p <;>
    cases h4 : isPrime v.q <;> simp
  by_cases h5 : bitSize v.p = v.l <;> by_cases h6 : bitSize v.q = v.r <;>
    by_cases h7 : (v.p - 1) % v.q = 0 <;> simp [h5, h6, h7]
  by_cases h8 : v.p ≤ v.d ∨ v.d = 0
  · rw [if_pos h8]; simp; omega
  · have h8' : v.d < v.p ∧ v.d ≠ 0 := by omega
    rw [if_neg h8]
    simp only [h8', true_and, not_false_eq_true]
    by_cases h9 : montPow v.p (2 ^ (v.l + 2)) v.d ((v.p - 1) / v.q) = 2 ^ (v.l + 2) % v.p <;>
      by_cases h10 : v.a = montPow v.p (2 ^ (v.l + 2)) v.d ((v.p - 1) / v.q) <;> simp [h9, h10]

/-- after fix-3 a zero generator seed d is rejected -/
theorem stb99ParamsValV_a_pos (isPrime : Nat → Bool) (lr : List (Nat × Nat)) (v : Stb99Vals)
    (h : stb99ParamsValV isPrime lr v = 0) : v.d ≠ 0 :=
  ((stb99ParamsValV_ok_iff isPrime lr v).1 h).2.2.2.2.2.2.2.2.1

-- toy: p = 19 (5 bits), q = 3 (2 bits), R = 128, d = 4: a = d^6 R^(-5) mod p = 3 ≠ R mod p = 14
example : stb99ParamsValV ValAux.tdPrime [(5, 2)] ⟨5, 2, 19, 3, 3, 4, true⟩ = 0 ∧
    stb99ParamsValV ValAux.tdPrime [(5, 2)] ⟨5, 2, 19, 3, 0, 0, true⟩ = 502 := by decide +kernel

/-! #### pfok -/

theorem pfokIsOperable_iff (lr : List (Nat × Nat)) (v : PfokVals) :
    pfokIsOperable lr v = true ↔
      lr.contains (v.l, v.r) = true ∧ v.n < v.l ∧ v.p0 % 4 = 3 ∧ v.pTop / 32 = 1 ∧ v.tailsZero = true ∧
      v.g ≠ 0 ∧ v.g < v.p := by
  simp only [pfokIsOperable, Bool.and_eq_true, decide_eq_true_eq, and_assoc]

theorem pfokParamsValV_ok_iff (isPrime : Nat → Bool) (lr : List (Nat × Nat)) (v : PfokVals) :
    pfokParamsValV isPrime lr v = 0 ↔
      pfokIsOperable lr v = true ∧ isPrime v.p = true ∧ isPrime (v.p / 2) = true ∧
      montPow v.p (2 ^ (v.l + 2)) v.g (v.p / 2) ≠ 2 ^ (v.l + 2) % v.p ∧
      montPow v.p (2 ^ (v.l + 2)) v.g (v.p / 2) ≠ v.g := by
  unfold pfokParamsValV
  cases h1 : pfokIsOperable lr v <;> cases h2 : isPrime v.p <;> cases h3 : isPrime (v.p / 2) <;> simp

theorem pfokPubkeyValV_ok_iff (lr : List (Nat × Nat)) (v : PfokVals) (y : Nat) :
    pfokPubkeyValV lr v y = 0 ↔ pfokIsOperable lr v = true ∧ 0 < y ∧ y < v.p := by
  unfold pfokPubkeyValV
  cases h1 : pfokIsOperable lr v <;> simp
  omega

-- toy: p = 23 = 2·11 + 1, g = 5
example : pfokParamsValV ValAux.tdPrime [(5, 2)] ⟨5, 2, 3, 23, 5, 23, 32, true⟩ = 0 ∧
    pfokPubkeyValV [(5, 2)] ⟨5, 2, 3, 23, 5, 23, 32, true⟩ 22 = 0 ∧
    pfokPubkeyValV [(5, 2)] ⟨5, 2, 3, 23, 5, 23, 32, true⟩ 23 = 505 := by decide +kernel

end Bee2V.C12

/-
C12 — priIsPrimeW (src/math/pri.c) against the textbook notion "strong probable prime" and the three cited
computational results on the base sets {2,3}, {2,7,61} and Sinclair's 7 bases.

* `Spec.SPRP b a`   : the textbook definition (no reference to the model);
* `witnessW_iff_sprp`: one pass of the loop of the model for the base `b`  ⇔  `Spec.SPRP b a`;
* `Cited.PSW`, `Cited.Jaeschke`, `Cited.Sinclair` : the literature facts as Props (NOT proved here, hypotheses);
* `priIsPrimeW_iff_prime_of_cited` : under the cited facts the model decides primality exactly on W-bit words
  (the direction "prime ⇒ accepted" is unconditional: `priIsPrimeW_of_prime`).
-/
import Mathlib.Data.Nat.Prime.Basic
import Bee2V.C12.LemmasPri
namespace Bee2V.C12
open Bee2V.Gen.C12

/-! ### the textbook definition -/

/-- `a` is a strong probable prime to the base `b` (meant for odd `a > 2`):
    `a - 1 = r·2^s`, `r` odd, and `b^r ≡ 1` or `b^(r·2^i) ≡ -1 (mod a)` for some `0 ≤ i < s`. -/
def Spec.SPRP (b a : Nat) : Prop :=
  ∃ r s, r % 2 = 1 ∧ r * 2 ^ s = a - 1 ∧ (b ^ r % a = 1 % a ∨ ∃ i, i < s ∧ b ^ (r * 2 ^ i) % a = a - 1)

namespace SprpAux

/-- the decomposition `n = r·2^s` with `r` odd is unique -/
theorem odd_mul_two_pow_inj : ∀ (s s' r r' : Nat), r % 2 = 1 → r' % 2 = 1 → r * 2 ^ s = r' * 2 ^ s' →
    r = r' ∧ s = s'
  | 0, 0, r, r', _, _, h => by simpa using h
  | 0, s' + 1, r, r', hr, _, h => by
    exfalso
    rw [Nat.pow_zero, Nat.mul_one, Nat.pow_succ, ← Nat.mul_assoc] at h
    omega
  | s + 1, 0, r, r', _, hr', h => by
    exfalso
    rw [Nat.pow_zero, Nat.mul_one, Nat.pow_succ, ← Nat.mul_assoc] at h
    omega
  | s + 1, s' + 1, r, r', hr, hr', h => by
    have h' : r * 2 ^ s = r' * 2 ^ s' := by
      rw [Nat.pow_succ, Nat.pow_succ, ← Nat.mul_assoc, ← Nat.mul_assoc] at h
      omega
    have := odd_mul_two_pow_inj s s' r r' hr hr' h'
    omega

/-- one squaring step of the loop shifts the exponent `2^j` to `2^(j+1)` -/
theorem sq_step (x a j : Nat) : (x * x % a) ^ (2 ^ j) % a = x ^ (2 ^ (j + 1)) % a := by
  rw [← Nat.pow_mod, ← Nat.pow_two, ← Nat.pow_mul, ← Nat.pow_succ']

theorem sq_one (x a : Nat) : x ^ (2 ^ 1) % a = x * x % a := by
  rw [Nat.pow_one, Nat.pow_two]

/-- once `x^(2^j') ≡ 1`, all the later squares are `≡ 1` -/
theorem one_later {x a j' j : Nat} (ha : 1 < a) (h : x ^ (2 ^ j') % a = 1) (hj : j' ≤ j) :
    x ^ (2 ^ j) % a = 1 := by
  obtain ⟨d, rfl⟩ : ∃ d, j = j' + d := ⟨j - j', by omega⟩
  rw [Nat.pow_add, Nat.pow_mul, Nat.pow_mod, h, Nat.one_pow, Nat.mod_eq_of_lt ha]

/-- the loop of the model, literally: it leaves with `true` at the first `x_j = a - 1` (`1 ≤ j ≤ k`) provided no
    earlier `x_j'` was `1` -/
theorem sqLoopW_iff_first (a : Nat) : ∀ (k x : Nat), sqLoopW a k x = true ↔
    ∃ j, 1 ≤ j ∧ j ≤ k ∧ x ^ (2 ^ j) % a = a - 1 ∧ ∀ j', 1 ≤ j' → j' < j → x ^ (2 ^ j') % a ≠ 1
  | 0, x => by
    simp only [sqLoopW, Bool.false_eq_true, false_iff]
    rintro ⟨j, h1, h2, _⟩
    omega
  | k + 1, x => by
    rw [sqLoopW]
    split
    · next h =>
      simp only [true_iff]
      exact ⟨1, Nat.le_refl _, by omega, by rw [sq_one]; exact h, fun j' h1 h2 => by omega⟩
    · next hne =>
      split
      · next h1 =>
        simp only [Bool.false_eq_true, false_iff]
        rintro ⟨j, hj1, _, hj, hmin⟩
        by_cases hj' : j = 1
        · subst hj'; rw [sq_one] at hj; exact hne hj
        · exact hmin 1 (Nat.le_refl _) (by omega) (by rw [sq_one]; exact h1)
      · next hne1 =>
        rw [sqLoopW_iff_first a k (x * x % a)]
        constructor
        · rintro ⟨j, hj1, hjk, hj, hmin⟩
          refine ⟨j + 1, by omega, by omega, by rw [← sq_step]; exact hj, ?_⟩
          intro j' h1 h2
          by_cases hj' : j' = 1
          · subst hj'; rw [sq_one]; exact hne1
          · obtain ⟨i, rfl⟩ : ∃ i, j' = i + 1 := ⟨j' - 1, by omega⟩
            rw [← sq_step]
            exact hmin i (by omega) (by omega)
        · rintro ⟨j, hj1, hjk, hj, hmin⟩
          by_cases hj' : j = 1
          · subst hj'; rw [sq_one] at hj; exact absurd hj hne
          · obtain ⟨i, rfl⟩ : ∃ i, j = i + 1 := ⟨j - 1, by omega⟩
            refine ⟨i, by omega, by omega, by rw [sq_step]; exact hj, ?_⟩
            intro j' h1 h2
            rw [sq_step]
            exact hmin (j' + 1) (by omega) (by omega)

/-- for `a > 2` the side condition is automatic (`1 ≠ a - 1`): the loop accepts iff some `x_j = a - 1`, `1 ≤ j ≤ k` -/
theorem sqLoopW_iff (a : Nat) (ha : 2 < a) (k x : Nat) : sqLoopW a k x = true ↔
    ∃ j, 1 ≤ j ∧ j ≤ k ∧ x ^ (2 ^ j) % a = a - 1 := by
  rw [sqLoopW_iff_first]
  constructor
  · rintro ⟨j, h1, h2, h3, _⟩
    exact ⟨j, h1, h2, h3⟩
  · rintro ⟨j, h1, h2, h3⟩
    refine ⟨j, h1, h2, h3, ?_⟩
    intro j' _ hlt h
    have := one_later (by omega : 1 < a) h (Nat.le_of_lt hlt)
    omega

/-- with a decomposition `a - 1 = r·2^s` at hand `SPRP` is the statement about this `r`, `s` -/
theorem sprp_iff_of_decomp (a r s b : Nat) (hr : r % 2 = 1) (hrs : r * 2 ^ s = a - 1) :
    Spec.SPRP b a ↔ (b ^ r % a = 1 % a ∨ ∃ i, i < s ∧ b ^ (r * 2 ^ i) % a = a - 1) := by
  constructor
  · rintro ⟨r', s', hr', hrs', h⟩
    obtain ⟨rfl, rfl⟩ := odd_mul_two_pow_inj s' s r' r hr' hr (hrs'.trans hrs.symm)
    exact h
  · intro h
    exact ⟨r, s, hr, hrs, h⟩

end SprpAux

open SprpAux

/-! ### one base: the model's pass ⇔ SPRP -/

theorem witnessW_iff_sprp (a r s b : Nat) (ha : 2 < a) (hr : r % 2 = 1) (hrs : r * 2 ^ s = a - 1) (hs : 0 < s) :
    witnessW a r s b = true ↔ Spec.SPRP b a := by
  rw [sprp_iff_of_decomp a r s b hr hrs, Nat.mod_eq_of_lt (by omega : 1 < a)]
  unfold witnessW
  simp only [powMod_eq]
  have hx : ∀ j, (b ^ r % a) ^ (2 ^ j) % a = b ^ (r * 2 ^ j) % a := by
    intro j; rw [← Nat.pow_mod, ← Nat.pow_mul]
  split
  · next h =>
    simp only [true_iff]
    rcases h with h | h
    · exact Or.inl h
    · exact Or.inr ⟨0, hs, by simpa using h⟩
  · next hne =>
    rw [sqLoopW_iff a ha]
    constructor
    · rintro ⟨j, h1, h2, h3⟩
      exact Or.inr ⟨j, by omega, by rw [← hx]; exact h3⟩
    · rintro (h | ⟨i, hi, h⟩)
      · exact absurd (Or.inl h) hne
      · by_cases hi0 : i = 0
        · subst hi0
          exact absurd (Or.inr (by simpa using h)) hne
        · exact ⟨i, by omega, by omega, by rw [hx]; exact h⟩

/-! ### the cited facts (hypotheses, not proved here) -/

/-- Pomerance–Selfridge–Wagstaff 1980: ψ₂ = 1373653 (no composite below it is a strong pseudoprime to 2 and 3) -/
def Cited.PSW : Prop :=
  ∀ a, a % 2 = 1 → 3 < a → a < 1373653 → Spec.SPRP 2 a → Spec.SPRP 3 a → Nat.Prime a

/-- Jaeschke 1993: no composite below 4759123141 is a strong pseudoprime to 2, 7 and 61 -/
def Cited.Jaeschke : Prop :=
  ∀ a, a % 2 = 1 → 3 < a → a < 4759123141 → Spec.SPRP 2 a → Spec.SPRP 7 a → Spec.SPRP 61 a → Nat.Prime a

/-- Sinclair 2011: the 7-base set for 64-bit integers -/
def Cited.Sinclair : Prop :=
  ∀ a, a % 2 = 1 → 3 < a → a < 2 ^ 64 →
    (∀ b ∈ [2, 325, 9375, 28178, 450775, 9780504, 1795265022], Spec.SPRP b a) → Nat.Prime a

/-- what the code uses of Jaeschke's result: only the range where `{2,7,61}` is selected -/
def Cited.JaeschkeRange : Prop :=
  ∀ a, a % 2 = 1 → 1373653 ≤ a → a < 4759123141 → Spec.SPRP 2 a → Spec.SPRP 7 a → Spec.SPRP 61 a → Nat.Prime a

/-- what the code uses of Sinclair's result: only the range where the 7 bases are selected (all bases `< a` there) -/
def Cited.SinclairRange : Prop :=
  ∀ a, a % 2 = 1 → 4759123141 ≤ a → a < 2 ^ 64 →
    (∀ b ∈ [2, 325, 9375, 28178, 450775, 9780504, 1795265022], Spec.SPRP b a) → Nat.Prime a

theorem Cited.Jaeschke.range (h : Cited.Jaeschke) : Cited.JaeschkeRange :=
  fun a h1 h2 h3 => h a h1 (by omega) h3

theorem Cited.Sinclair.range (h : Cited.Sinclair) : Cited.SinclairRange :=
  fun a h1 h2 h3 => h a h1 (by omega) h3

/-! ### MAIN: under the cited facts priIsPrimeW decides primality exactly -/

namespace SprpAux

/-- acceptance by the model = `a ∈ {2,3}`, or `a > 3` odd and SPRP to every base of the selected set -/
theorem priIsPrimeW_sprp (W a : Nat) (ha : a < 2 ^ W) (h : priIsPrimeW W a = true) :
    a = 2 ∨ a = 3 ∨ (a % 2 = 1 ∧ 3 < a ∧ ∀ b ∈ basesW W a, Spec.SPRP b a) := by
  unfold priIsPrimeW at h
  split at h
  · have : a = 2 ∨ a = 3 := by simpa using h
    omega
  · next hc =>
    right; right
    have h3 : 3 < a := by omega
    have hodd : a % 2 = 1 := by omega
    refine ⟨hodd, h3, ?_⟩
    rcases hsp : splitOdd W (a - 1) 0 with ⟨r, s⟩
    obtain ⟨hr, hrs, hs⟩ := splitOdd_spec W a r s hodd (by omega) (by omega) hsp
    rw [hsp] at h
    simp only [List.all_reverse, List.all_eq_true] at h
    intro b hb
    exact (witnessW_iff_sprp a r s b (by omega) hr hrs hs).1 (h b hb)

theorem prime_of_two_or_three {a : Nat} (h : a = 2 ∨ a = 3) : Nat.Prime a := by
  rcases h with rfl | rfl
  · exact Nat.prime_two
  · exact Nat.prime_three

end SprpAux

/-- the strongest form: only the parts of the cited results that the selected branch of `basesW` needs -/
theorem priIsPrimeW_iff_prime_of_cited_range (W a : Nat) (hW : W = 16 ∨ W = 32 ∨ W = 64) (ha : a < 2 ^ W)
    (h1 : Cited.PSW) (h2 : W ≠ 16 → Cited.JaeschkeRange) (h3 : W = 64 → Cited.SinclairRange) :
    priIsPrimeW W a = true ↔ Nat.Prime a := by
  refine ⟨fun h => ?_, priIsPrimeW_of_prime W a hW ha⟩
  rcases priIsPrimeW_sprp W a ha h with h' | h' | ⟨hodd, hgt, hall⟩
  · exact prime_of_two_or_three (Or.inl h')
  · exact prime_of_two_or_three (Or.inr h')
  · unfold basesW at hall
    rcases hW with rfl | rfl | rfl
    · simp only [if_true, bases16] at hall
      exact h1 a hodd hgt (by omega) (hall 2 (by simp)) (hall 3 (by simp))
    · simp only [show (32 : Nat) ≠ 16 by decide, if_false, if_true] at hall
      split at hall
      · next hlt =>
        simp only [bases16] at hall
        exact h1 a hodd hgt hlt (hall 2 (by simp)) (hall 3 (by simp))
      · next hge =>
        simp only [bases32] at hall
        exact h2 (by decide) a hodd (by omega) (by omega) (hall 2 (by simp)) (hall 7 (by simp)) (hall 61 (by simp))
    · simp only [show (64 : Nat) ≠ 16 by decide, show (64 : Nat) ≠ 32 by decide, if_false] at hall
      split at hall
      · next hlt =>
        simp only [bases16] at hall
        exact h1 a hodd hgt hlt (hall 2 (by simp)) (hall 3 (by simp))
      · next hge =>
        split at hall
        · next hlt =>
          simp only [bases32] at hall
          exact h2 (by decide) a hodd (by omega) hlt (hall 2 (by simp)) (hall 7 (by simp)) (hall 61 (by simp))
        · next hge2 =>
          simp only [bases64] at hall
          exact h3 rfl a hodd (by omega) ha hall

/-- MAIN (standard form of the cited facts) -/
theorem priIsPrimeW_iff_prime_of_cited (W a : Nat) (hW : W = 16 ∨ W = 32 ∨ W = 64) (ha : a < 2 ^ W)
    (h1 : Cited.PSW) (h2 : Cited.Jaeschke) (h3 : Cited.Sinclair) :
    priIsPrimeW W a = true ↔ Nat.Prime a :=
  priIsPrimeW_iff_prime_of_cited_range W a hW ha h1 (fun _ => h2.range) (fun _ => h3.range)

/-- 16-bit words: only Pomerance–Selfridge–Wagstaff (`2^16 < 1373653`) -/
theorem priIsPrimeW16_iff_prime_of_PSW (a : Nat) (ha : a < 2 ^ 16) (h1 : Cited.PSW) :
    priIsPrimeW 16 a = true ↔ Nat.Prime a :=
  priIsPrimeW_iff_prime_of_cited_range 16 a (Or.inl rfl) ha h1 (fun h => absurd rfl h) (fun h => by omega)

/-- 32-bit words: PSW and Jaeschke (`2^32 < 4759123141`) -/
theorem priIsPrimeW32_iff_prime_of_cited (a : Nat) (ha : a < 2 ^ 32) (h1 : Cited.PSW) (h2 : Cited.Jaeschke) :
    priIsPrimeW 32 a = true ↔ Nat.Prime a :=
  priIsPrimeW_iff_prime_of_cited_range 32 a (Or.inr (Or.inl rfl)) ha h1 (fun _ => h2.range) (fun h => by omega)

/-- 64-bit words: all three -/
theorem priIsPrimeW64_iff_prime_of_cited (a : Nat) (ha : a < 2 ^ 64) (h1 : Cited.PSW) (h2 : Cited.Jaeschke)
    (h3 : Cited.Sinclair) : priIsPrimeW 64 a = true ↔ Nat.Prime a :=
  priIsPrimeW_iff_prime_of_cited 64 a (Or.inr (Or.inr rfl)) ha h1 h2 h3

/-! ### non-vacuity -/

/-- 2047 = 23·89 is a strong pseudoprime to the base 2 (2046 = 1023·2, 2^1023 ≡ 1) … -/
example : Spec.SPRP 2 2047 := ⟨1023, 1, by decide, by decide, Or.inl (by decide +kernel)⟩

/-- … and is not one to the base 3 -/
example : ¬ Spec.SPRP 3 2047 := by
  rw [sprp_iff_of_decomp 2047 1023 1 3 (by decide) (by decide)]
  decide +kernel

/-- the same through the model -/
example : ¬ Spec.SPRP 3 2047 := by
  rw [← witnessW_iff_sprp 2047 1023 1 3 (by decide) (by decide) (by decide) (by decide)]
  decide +kernel

/-- 2047 is composite: `Spec.SPRP` to a single base does not imply primality -/
example : ¬ Nat.Prime 2047 := by
  intro h
  have := (Nat.Prime.eq_one_or_self_of_dvd h 23 (by decide))
  omega

/-- the bound of `Cited.PSW` is tight: 1373653 = 829·1657 is a strong pseudoprime to 2 and to 3 -/
example : Spec.SPRP 2 1373653 ∧ Spec.SPRP 3 1373653 := by
  constructor
  · exact (witnessW_iff_sprp 1373653 343413 2 2 (by decide) (by decide) (by decide) (by decide)).1 (by decide +kernel)
  · exact (witnessW_iff_sprp 1373653 343413 2 3 (by decide) (by decide) (by decide) (by decide)).1 (by decide +kernel)

example : ¬ Nat.Prime 1373653 := by
  intro h
  have := (Nat.Prime.eq_one_or_self_of_dvd h 829 (by decide))
  omega

end Bee2V.C12

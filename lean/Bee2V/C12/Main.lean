import Bee2V.C12.Drv
/-- driver executable of area C12 (`drv_c12`) -/
def main : IO Unit := Bee2V.Proto.runLoop Bee2V.C12.Drv.handle

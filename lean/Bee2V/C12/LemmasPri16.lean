/-
C12 — priIsPrimeW on 16-bit words is EXACT: kernel-checked exhaustively against an independent trial division
(`decide +kernel`, no axioms beyond the kernel's own Nat arithmetic; no Mathlib).
Plus: the model rejects the strong pseudoprimes at the thresholds of the base sets and accepts primes next to them.
-/
import Bee2V.C12.ModelPri
namespace Bee2V.C12
open Bee2V.Gen.C12

/-! ### an independent primality predicate: trial division by 2 and by the odd numbers 3, 5, … ≤ √n -/

/-- no divisor among `d, d+2, d+4, …` with square ≤ n (at most `fuel` candidates) -/
def tdLoop (n : Nat) : Nat → Nat → Bool
  | 0, _ => true
  | fuel + 1, d =>
    bif n.blt (d * d) then true
    else bif (n % d).beq 0 then false
    else tdLoop n fuel (d + 2)

def isPrimeTD (n : Nat) : Bool :=
  Nat.ble 2 n && (n.beq 2 || (!(n % 2).beq 0 && tdLoop n n 3))

/-- `f` holds on `[lo, hi)` (counting down from `hi`: the argument of `f` is always a literal for the kernel) -/
def allRange (f : Nat → Bool) (lo : Nat) : Nat → Bool
  | 0 => true
  | n + 1 => bif n.blt lo then true else f n && allRange f lo n

theorem allRange_spec (f : Nat → Bool) (lo : Nat) : ∀ hi, allRange f lo hi = true → ∀ a, lo ≤ a → a < hi → f a = true
  | 0, _, a, _, h => by omega
  | n + 1, h, a, hlo, hhi => by
    rw [allRange] at h
    cases hb : n.blt lo with
    | true => rw [Nat.blt_eq] at hb; omega
    | false =>
      rw [hb] at h
      simp only [cond_false, Bool.and_eq_true] at h
      by_cases hn : a = n
      · subst hn; exact h.1
      · exact allRange_spec f lo n h.2 a hlo (by omega)

/-! ### all 16-bit words, in chunks of 4096 -/

def agree16 (a : Nat) : Bool := priIsPrimeW 16 a == isPrimeTD a

set_option maxRecDepth 100000 in
theorem chunk16_0 : allRange agree16 0 4096 = true := by decide +kernel
set_option maxRecDepth 100000 in
theorem chunk16_1 : allRange agree16 4096 8192 = true := by decide +kernel
set_option maxRecDepth 100000 in
theorem chunk16_2 : allRange agree16 8192 12288 = true := by decide +kernel
set_option maxRecDepth 100000 in
theorem chunk16_3 : allRange agree16 12288 16384 = true := by decide +kernel
set_option maxRecDepth 100000 in
theorem chunk16_4 : allRange agree16 16384 20480 = true := by decide +kernel
set_option maxRecDepth 100000 in
theorem chunk16_5 : allRange agree16 20480 24576 = true := by decide +kernel
set_option maxRecDepth 100000 in
theorem chunk16_6 : allRange agree16 24576 28672 = true := by decide +kernel
set_option maxRecDepth 100000 in
theorem chunk16_7 : allRange agree16 28672 32768 = true := by decide +kernel
set_option maxRecDepth 100000 in
theorem chunk16_8 : allRange agree16 32768 36864 = true := by decide +kernel
set_option maxRecDepth 100000 in
theorem chunk16_9 : allRange agree16 36864 40960 = true := by decide +kernel
set_option maxRecDepth 100000 in
theorem chunk16_10 : allRange agree16 40960 45056 = true := by decide +kernel
set_option maxRecDepth 100000 in
theorem chunk16_11 : allRange agree16 45056 49152 = true := by decide +kernel
set_option maxRecDepth 100000 in
theorem chunk16_12 : allRange agree16 49152 53248 = true := by decide +kernel
set_option maxRecDepth 100000 in
theorem chunk16_13 : allRange agree16 53248 57344 = true := by decide +kernel
set_option maxRecDepth 100000 in
theorem chunk16_14 : allRange agree16 57344 61440 = true := by decide +kernel
set_option maxRecDepth 100000 in
theorem chunk16_15 : allRange agree16 61440 65536 = true := by decide +kernel

/-- exhaustive, kernel-checked: on 16-bit words the model of `priIsPrimeW` decides primality exactly
    (`isPrimeTD_iff` in LemmasPri.lean ties `isPrimeTD` to `Nat.Prime`) -/
theorem priIsPrimeW16_exact (a : Nat) (ha : a < 65536) : priIsPrimeW 16 a = isPrimeTD a := by
  have hc : (0 ≤ a ∧ a < 4096) ∨ (4096 ≤ a ∧ a < 8192) ∨ (8192 ≤ a ∧ a < 12288) ∨ (12288 ≤ a ∧ a < 16384) ∨ (16384 ≤ a ∧ a < 20480) ∨ (20480 ≤ a ∧ a < 24576) ∨ (24576 ≤ a ∧ a < 28672) ∨ (28672 ≤ a ∧ a < 32768) ∨ (32768 ≤ a ∧ a < 36864) ∨ (36864 ≤ a ∧ a < 40960) ∨ (40960 ≤ a ∧ a < 45056) ∨ (45056 ≤ a ∧ a < 49152) ∨ (49152 ≤ a ∧ a < 53248) ∨ (53248 ≤ a ∧ a < 57344) ∨ (57344 ≤ a ∧ a < 61440) ∨ (61440 ≤ a ∧ a < 65536) := by omega
  rcases hc with h | h | h | h | h | h | h | h | h | h | h | h | h | h | h | h
  · exact eq_of_beq (allRange_spec agree16 _ _ chunk16_0 a h.1 h.2)
  · exact eq_of_beq (allRange_spec agree16 _ _ chunk16_1 a h.1 h.2)
  · exact eq_of_beq (allRange_spec agree16 _ _ chunk16_2 a h.1 h.2)
  · exact eq_of_beq (allRange_spec agree16 _ _ chunk16_3 a h.1 h.2)
  · exact eq_of_beq (allRange_spec agree16 _ _ chunk16_4 a h.1 h.2)
  · exact eq_of_beq (allRange_spec agree16 _ _ chunk16_5 a h.1 h.2)
  · exact eq_of_beq (allRange_spec agree16 _ _ chunk16_6 a h.1 h.2)
  · exact eq_of_beq (allRange_spec agree16 _ _ chunk16_7 a h.1 h.2)
  · exact eq_of_beq (allRange_spec agree16 _ _ chunk16_8 a h.1 h.2)
  · exact eq_of_beq (allRange_spec agree16 _ _ chunk16_9 a h.1 h.2)
  · exact eq_of_beq (allRange_spec agree16 _ _ chunk16_10 a h.1 h.2)
  · exact eq_of_beq (allRange_spec agree16 _ _ chunk16_11 a h.1 h.2)
  · exact eq_of_beq (allRange_spec agree16 _ _ chunk16_12 a h.1 h.2)
  · exact eq_of_beq (allRange_spec agree16 _ _ chunk16_13 a h.1 h.2)
  · exact eq_of_beq (allRange_spec agree16 _ _ chunk16_14 a h.1 h.2)
  · exact eq_of_beq (allRange_spec agree16 _ _ chunk16_15 a h.1 h.2)

/-! ### W = 32, 64 on the same range: the same base set, the same decomposition -/

theorem splitOdd_fuel : ∀ (f1 f2 r s : Nat), r ≠ 0 → r < 2 ^ f1 → r < 2 ^ f2 → splitOdd f1 r s = splitOdd f2 r s
  | 0, _, r, s, h0, h1, _ => by simp at h1; omega
  | _ + 1, 0, r, s, h0, _, h2 => by simp at h2; omega
  | f1 + 1, f2 + 1, r, s, h0, h1, h2 => by
    rw [splitOdd, splitOdd]
    split
    · rw [Nat.pow_succ] at h1 h2
      exact splitOdd_fuel f1 f2 (r / 2) (s + 1) (by omega) (by omega) (by omega)
    · rfl

theorem priIsPrimeW_small_eq16 (W a : Nat) (hW : W = 32 ∨ W = 64) (ha : a < 65536) :
    priIsPrimeW W a = priIsPrimeW 16 a := by
  unfold priIsPrimeW
  by_cases hc : a ≤ 3 ∨ a % 2 = 0
  · simp only [hc, if_true]
  · simp only [hc, if_false]
    have hb : basesW W a = basesW 16 a := by
      unfold basesW
      rcases hW with rfl | rfl <;> simp <;> omega
    have hs : splitOdd W (a - 1) 0 = splitOdd 16 (a - 1) 0 := by
      apply splitOdd_fuel _ _ _ _ (by omega) _ (by omega)
      rcases hW with rfl | rfl <;> omega
    rw [hb, hs]

theorem priIsPrimeW32_exact16 (a : Nat) (ha : a < 65536) : priIsPrimeW 32 a = isPrimeTD a := by
  rw [priIsPrimeW_small_eq16 32 a (Or.inl rfl) ha, priIsPrimeW16_exact a ha]

theorem priIsPrimeW64_exact16 (a : Nat) (ha : a < 65536) : priIsPrimeW 64 a = isPrimeTD a := by
  rw [priIsPrimeW_small_eq16 64 a (Or.inr rfl) ha, priIsPrimeW16_exact a ha]

/-! ### the thresholds of the base sets: strong pseudoprimes rejected, neighbouring primes accepted -/

/-- 1373653 = 829·1657 is the least strong pseudoprime to the bases 2, 3: `a < 1373653` is the right test -/
theorem spsp_2_3 : priIsPrimeW 32 1373653 = false ∧ priIsPrimeW 64 1373653 = false := by decide +kernel
/-- … and with the base set {2, 3} it would have been accepted -/
theorem spsp_2_3_bases16 : (splitOdd 32 1373652 0 = (343413, 2)) ∧ bases16.all (witnessW 1373653 343413 2) = true := by
  decide +kernel
/-- 4759123141 is the least strong pseudoprime to the bases 2, 7, 61 -/
theorem spsp_2_7_61 : priIsPrimeW 64 4759123141 = false := by decide +kernel
theorem spsp_2_7_61_bases32 : (splitOdd 64 4759123140 0 = (1189780785, 2)) ∧
    bases32.all (witnessW 4759123141 1189780785 2) = true := by decide +kernel
/-- ψ₄ = 3215031751 (bases 2, 3, 5, 7), ψ₇ = 341550071728321, ψ₉ = 3825123056546413051 (bases ≤ 23) -/
theorem spsp_psi : priIsPrimeW 64 3215031751 = false ∧ priIsPrimeW 64 341550071728321 = false ∧
    priIsPrimeW 64 3825123056546413051 = false := by decide +kernel
/-- Carmichael numbers / squares of primes -/
theorem composites_rejected : priIsPrimeW 16 561 = false ∧ priIsPrimeW 16 2047 = false ∧ priIsPrimeW 16 (251 * 251) = false ∧
    priIsPrimeW 32 (65521 * 65521) = false ∧ priIsPrimeW 64 (4294967291 * 4294967291) = false := by decide +kernel
/-- primes next to the thresholds and the largest primes of each word size -/
theorem primes_accepted : priIsPrimeW 32 1373639 = true ∧ priIsPrimeW 32 1373677 = true ∧
    priIsPrimeW 64 1373639 = true ∧ priIsPrimeW 64 1373677 = true ∧
    priIsPrimeW 64 4759123129 = true ∧ priIsPrimeW 64 4759123151 = true ∧
    priIsPrimeW 64 3215031749 = true ∧ priIsPrimeW 64 341550071728289 = true ∧
    priIsPrimeW 64 3825123056546412979 = true ∧ priIsPrimeW 64 3825123056546413057 = true ∧
    priIsPrimeW 16 65521 = true ∧ priIsPrimeW 32 4294967291 = true ∧ priIsPrimeW 64 18446744073709551557 = true := by
  decide +kernel

end Bee2V.C12

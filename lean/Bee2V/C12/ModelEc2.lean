/-
C12 — src/crypto/dstu.c dstuParamsVal / dstuPointVal over src/math/ec2.c, gf2.c: curves
y² + xy = x³ + A x² + B over GF(2^m), field elements Nat-coded polynomials.  Executable, no Mathlib.
-/
import Bee2V.C12.ModelVal
namespace Bee2V.C12

/-- quotient and remainder in GF(2)[x] -/
def pdivmodAux (m lm : Nat) : Nat → Nat → Nat → Nat × Nat
  | 0, q, a => (q, a)
  | fuel + 1, q, a =>
    if plen a ≥ lm ∧ a ≠ 0 then
      let s := plen a - lm
      pdivmodAux m lm fuel (q ||| (1 <<< s)) (a ^^^ (m <<< s))
    else (q, a)

def pdivmod (a m : Nat) : Nat × Nat := if m = 0 then (0, a) else pdivmodAux m (plen m) (plen a) 0 a

structure Gf2 where
  m : Nat
  mod : Nat

def Gf2.mul (F : Gf2) (a b : Nat) : Nat := pmod (pmul a b) F.mod
def Gf2.sqr (F : Gf2) (a : Nat) : Nat := pmod (psqr a) F.mod

/-- extended Euclid: s with s·a ≡ gcd (mod F.mod) -/
def Gf2.invAux (F : Gf2) : Nat → Nat → Nat → Nat → Nat → Nat
  | 0, _, _, s0, _ => s0
  | fuel + 1, r0, r1, s0, s1 =>
    if r1 = 0 then s0
    else
      let (q, r) := pdivmod r0 r1
      Gf2.invAux F fuel r1 r s1 (s0 ^^^ pmul q s1)

def Gf2.inv (F : Gf2) (a : Nat) : Nat := pmod (Gf2.invAux F (2 * F.m + 4) F.mod a 0 1) F.mod

structure Ec2 where
  F : Gf2
  A : Nat
  B : Nat

/-- `ec2IsOnA`: y² + xy = x³ + A x² + B -/
def Ec2.onCurve (E : Ec2) (x y : Nat) : Bool :=
  let F := E.F
  (F.sqr y ^^^ F.mul x y) = (F.mul (F.sqr x) x ^^^ F.mul E.A (F.sqr x) ^^^ E.B)

def Ec2.add (E : Ec2) : Pt → Pt → Pt
  | none, Q => Q
  | P, none => P
  | some (x1, y1), some (x2, y2) =>
    let F := E.F
    if x1 = x2 then
      if y1 ^^^ y2 = x1 then none          -- Q = -P (includes the 2-torsion point x = 0)
      else if x1 = 0 then none
      else
        let lam := x1 ^^^ F.mul y1 (F.inv x1)
        let x3 := F.sqr lam ^^^ lam ^^^ E.A
        some (x3, F.sqr x1 ^^^ F.mul (lam ^^^ 1) x3)
    else
      let lam := F.mul (y1 ^^^ y2) (F.inv (x1 ^^^ x2))
      let x3 := F.sqr lam ^^^ lam ^^^ x1 ^^^ x2 ^^^ E.A
      some (x3, F.mul lam (x1 ^^^ x3) ^^^ x3 ^^^ y1)

def Ec2.mulAux (E : Ec2) (P : Pt) (k : Nat) : Nat → Pt → Pt
  | 0, acc => acc
  | i + 1, acc =>
    let d := E.add acc acc
    Ec2.mulAux E P k i (if k.testBit i then E.add d P else d)

def Ec2.mul (E : Ec2) (k : Nat) (P : Pt) : Pt := Ec2.mulAux E P k (bitSize k) none

structure DstuVals where
  p0 : Nat
  p1 : Nat
  p2 : Nat
  p3 : Nat
  A : Nat       -- octet
  B : Nat       -- value of the first no octets
  n : Nat       -- order: value of the first no octets
  c : Nat
  xP : Nat
  yP : Nat

/-- `gf2Create`: the description (m, k1, k2, k3) is acceptable; returns the modulus -/
def gf2CreateMod (W : Nat) (v : DstuVals) : Option Nat :=
  if v.p1 = 0 then none
  else if v.p2 = 0 then
    if v.p3 ≠ 0 then none
    else if v.p0 % 8 = 0 ∨ v.p1 ≥ v.p0 ∨ v.p0 - v.p1 < W then none
    else some (2 ^ v.p0 ||| 2 ^ v.p1 ||| 1)
  else
    if v.p3 = 0 then none
    else if v.p1 ≥ v.p0 ∨ v.p2 ≥ v.p1 ∨ v.p3 ≥ v.p2 ∨ v.p0 - v.p1 < W ∨ v.p1 ≥ W then none
    else some (2 ^ v.p0 ||| 2 ^ v.p1 ||| 2 ^ v.p2 ||| 2 ^ v.p3 ||| 1)

/-- dstuEcCreate: 160 ≤ m ≤ 509, A ≤ 1, field created, B and the base point are field elements,
    order ≠ 0 (ecCreateGroup), cofactor ≠ 0 and fits a word -/
def dstuCreate (W : Nat) (v : DstuVals) : Option Ec2 :=
  if v.p0 < 160 ∨ v.p0 > 509 ∨ v.A > 1 then none
  else match gf2CreateMod W v with
    | none => none
    | some md =>
      if v.B < 2 ^ v.p0 ∧ v.xP < 2 ^ v.p0 ∧ v.yP < 2 ^ v.p0 ∧ v.n ≠ 0 ∧ v.c ≠ 0 ∧ v.c < 2 ^ W then
        some ⟨⟨v.p0, md⟩, v.A, v.B⟩
      else none

/-- `ec2IsSafeGroup(ec, mov)`: order prime, order ≠ 2^m, MOV -/
def ec2IsSafeGroup (isPrime : Nat → Bool) (m order mov : Nat) : Bool :=
  isPrime order && decide (order ≠ 2 ^ m) && movOk (2 ^ m) order mov

/-- `err_t dstuParamsVal(const dstu_params* params)` (Hasse check as repaired by docs/C12.fix-2) -/
def dstuParamsValV (isPrime : Nat → Bool) (W : Nat) (v : DstuVals) : Nat :=
  match dstuCreate W v with
  | none => 502
  | some E =>
    let nW := wordSize W (2 ^ v.p0 - 1)     -- f->n = W_OF_B(m)
    if bitSize (v.n % 2 ^ (W * nW)) ≤ 160 then 502
    else if !(ppIsIrred E.F.mod && decide (v.B ≠ 0)) then 502
    else if !(E.onCurve v.xP v.yP && hasse2 W nW v.p0 v.n v.c) then 502
    else if !ec2IsSafeGroup isPrime v.p0 v.n 32 then 502
    else if (E.mul (v.n % 2 ^ (W * nW)) (some (v.xP, v.yP))).isSome then 502
    else 0

/-- generic `ec2group` op of the harness: (created, ec2IsValid, ec2SeemsValidGroup, ec2IsSafeGroup, ecHasOrderA) -/
def ec2Group (isPrime : Nat → Bool) (W : Nat) (v : DstuVals) (mov : Nat) : Option (Bool × Bool × Bool × Bool) :=
  match gf2CreateMod W v with
  | none => none
  | some md =>
    if v.A < 2 ^ v.p0 ∧ v.B < 2 ^ v.p0 ∧ v.xP < 2 ^ v.p0 ∧ v.yP < 2 ^ v.p0 ∧ v.n ≠ 0 ∧ v.c ≠ 0 ∧ v.c < 2 ^ W then
      let E : Ec2 := ⟨⟨v.p0, md⟩, v.A, v.B⟩
      let nW := wordSize W (2 ^ v.p0 - 1)
      some (ppIsIrred md && decide (v.B ≠ 0),
            E.onCurve v.xP v.yP && hasse2 W nW v.p0 v.n v.c,
            ec2IsSafeGroup isPrime v.p0 v.n mov,
            (E.mul v.n (some (v.xP, v.yP))).isNone)
    else none

end Bee2V.C12

/-
C12 — src/math/pri.c over Nat (a word array [n]a is its value; `W` = B_PER_W).
Code-shaped: the same loops as recursion carrying the same variables.  Executable, no Mathlib.
Modelled by their specification (other areas' code): zzPowerModW / qrPower = modular power,
zzModW = `%`, wwBitSize = `Nat.log2 + 1`, zm rings = arithmetic mod a (Montgomery form is
transparent: `x·R ≡ ±R ⇔ x ≡ ±1`).
-/
import Bee2V.Gen.C12Tables
namespace Bee2V.C12
open Bee2V.Gen.C12

/-- bit length (`wwBitSize`) -/
def bitSize (a : Nat) : Nat := if a = 0 then 0 else Nat.log2 a + 1

/-- square-and-multiply, the value of `zzPowerModW(b, e, m)` / `qrPower` -/
def powMod (b e m : Nat) : Nat :=
  if e = 0 then 1 % m
  else
    let h := powMod b (e / 2) m
    if e % 2 = 0 then h * h % m else h * h % m * b % m
termination_by e
decreasing_by omega

/-! ### priIsPrimeW -/

/-- `for (r = a - 1, s = 0; r % 2 == 0; r >>= 1, ++s);`  (fuel = a bound on the number of halvings) -/
def splitOdd : Nat → Nat → Nat → Nat × Nat
  | 0, r, s => (r, s)
  | fuel + 1, r, s => if r % 2 = 0 ∧ r ≠ 0 then splitOdd fuel (r / 2) (s + 1) else (r, s)

/-- inner loop of priIsPrimeW: `for (i = 1; i < s; ++i) { base = base² % a; if (base == a-1) break;
    if (base == 1) return FALSE; } if (i == s) return FALSE;` with `k = s - i` squarings left.
    `true` = left by `break` (this base passes). -/
def sqLoopW (a : Nat) : Nat → Nat → Bool
  | 0, _ => false
  | k + 1, base =>
    let base' := base * base % a
    if base' = a - 1 then true
    else if base' = 1 then false
    else sqLoopW a k base'

/-- one iteration of `while (iter--)` for the base `b` -/
def witnessW (a r s b : Nat) : Bool :=
  let base := powMod b r a
  if base = 1 ∨ base = a - 1 then true else sqLoopW a (s - 1) base

/-- the choice of the base set: thresholds and comparison operators as in the source
    (`if (a < 1373653) … else if (a < 4759123141) … else …`) -/
def basesW (W a : Nat) : List Nat :=
  if W = 16 then bases16
  else if W = 32 then (if a < 1373653 then bases16 else bases32)
  else (if a < 1373653 then bases16 else if a < 4759123141 then bases32 else bases64)

/-- `bool_t priIsPrimeW(word a, void* stack)`; the bases are used from the last to the first (`bases[iter]`, `iter--`) -/
def priIsPrimeW (W a : Nat) : Bool :=
  if a ≤ 3 ∨ a % 2 = 0 then (a = 2 ∨ a = 3)
  else
    let (r, s) := splitOdd W (a - 1) 0
    (basesW W a).reverse.all (witnessW a r s)

/-! ### priNextPrimeW -/

/-- `while (!priIsPrimeW(p[0])) { p[0] += 2; if (wwBitSize(p) != l) return FALSE; }`; `p[0] += 2` is word
    arithmetic (mod 2^W: the wrapped value has a smaller bit size, the loop then stops) -/
def nextLoopW (W l : Nat) : Nat → Nat → Option Nat
  | 0, _ => none
  | fuel + 1, p =>
    if priIsPrimeW W p then some p
    else
      let p' := (p + 2) % 2 ^ W
      if bitSize p' ≠ l then none else nextLoopW W l fuel p'

/-- `bool_t priNextPrimeW(word p[1], word a, void* stack)` -/
def priNextPrimeW (W a : Nat) : Option Nat :=
  let l := bitSize a
  if l ≤ 1 then none
  else nextLoopW W l (2 ^ l) (a ||| 1)

/-! ### factor base: priBaseMod, priIsSieved, priIsSmooth -/

def prodsW (W : Nat) : Array (Nat × Nat) := if W = 16 then prods16 else if W = 32 then prods32 else prods64

/-- inner `while (num-- && i < count) mods[i] = t % _base[i], ++i;` -/
def baseModInner (t count : Nat) : Nat → Nat → List Nat → Nat × List Nat
  | 0, i, acc => (i, acc)
  | num + 1, i, acc =>
    if i < count then baseModInner t count num (i + 1) ((t % base[i]!) :: acc) else (i, acc)

/-- first loop of priBaseMod over `_prods` -/
def baseModProds (a count : Nat) : List (Nat × Nat) → Nat → List Nat → Nat × List Nat
  | [], i, acc => (i, acc)
  | (prod, num) :: rest, i, acc =>
    if i < count then
      let (i', acc') := baseModInner (a % prod) count num i acc
      baseModProds a count rest i' acc'
    else (i, acc)

/-- second loop `for (; i < count; ++i) mods[i] = zzModW(a, n, _base[i]);` -/
def baseModRest (a count : Nat) : Nat → Nat → List Nat → List Nat
  | 0, _, acc => acc
  | fuel + 1, i, acc => if i < count then baseModRest a count fuel (i + 1) ((a % base[i]!) :: acc) else acc

/-- `void priBaseMod(word mods[], const word a[], size_t n, size_t count)` -/
def priBaseMod (W a count : Nat) : List Nat :=
  let (i, acc) := baseModProds a count (prodsW W).toList 0 []
  (baseModRest a count count i acc).reverse

/-- `while (base_count > 0 && priBasePrime(base_count - 1) > a[0]) --base_count;` (`strict` = false)
    resp. `… >= p[0]` in priNextPrime (`strict` = true … the prime itself is dropped) -/
def adjustBaseCount (a : Nat) (dropEq : Bool) : Nat → Nat
  | 0 => 0
  | bc + 1 => if base[bc]! > a ∨ (dropEq ∧ base[bc]! = a) then adjustBaseCount a dropEq bc else bc + 1

/-- `bool_t priIsSieved(const word a[], size_t n, size_t base_count, void* stack)` -/
def priIsSieved (W a baseCount : Nat) : Bool :=
  if a % 2 = 0 then false
  else
    let bc := if a < 2 ^ W then adjustBaseCount a false baseCount else baseCount
    (priBaseMod W a bc).all (· ≠ 0)

/-- main loop of priIsSmooth: `for (i = 0; i < base_count;) { mod = t % _base[i]; if (mod == 0) { t /= _base[i];
    if (t == 1) return TRUE; } else ++i; }` -/
def smoothLoop (baseCount : Nat) : Nat → Nat → Nat → Bool
  | 0, _, _ => false
  | fuel + 1, t, i =>
    if i < baseCount then
      if t % base[i]! = 0 then
        let t' := t / base[i]!
        if t' = 1 then true else smoothLoop baseCount fuel t' i
      else smoothLoop baseCount fuel t (i + 1)
    else false

/-- number of trailing zero bits (`wwLoZeroBits`; the length in bits for a = 0 is not needed: see priIsSmooth) -/
def loZeroBits : Nat → Nat → Nat
  | 0, _ => 0
  | fuel + 1, a => if a ≠ 0 ∧ a % 2 = 0 then loZeroBits fuel (a / 2) + 1 else 0

/-- `bool_t priIsSmooth(const word a[], size_t n, size_t base_count, void* stack)` for a ≠ 0
    (for a = 0: wwLoZeroBits = n·W, the shifted value is 0, no prime "divides it down to 1": the loop divides 0
    by _base[0] forever … the real function does not terminate for a = 0 and base_count > 0; the driver
    refuses that input) -/
def priIsSmooth (a baseCount : Nat) : Bool :=
  let t := a / 2 ^ loZeroBits (bitSize a) a
  if t = 1 then true else smoothLoop baseCount (bitSize a + baseCount + 1) t 0

/-! ### priRMTest with an explicit tape of candidate bases -/

/-- `do if (i++ * 45 > B_PER_IMPOSSIBLE * 10 || !zzRandNZMod(base, …)) return FALSE;
    while (base == one || base == -one);`  — B_PER_IMPOSSIBLE = 64: at most 15 draws.
    The tape holds the values the generator yields (in 1 … a-1, plain representation). -/
def drawBase (a : Nat) : Nat → Nat → List Nat → Option Nat × List Nat
  | 0, _, tape => (none, tape)
  | fuel + 1, i, tape =>
    if i * 45 > 64 * 10 then (none, tape)
    else match tape with
      | [] => (none, [])
      | b :: t => if b = 1 ∨ b + 1 = a then drawBase a fuel (i + 1) t else (some b, t)

/-- inner loop of priRMTest: `for (i = 1; i < s; ++i) { base = base²; if (base == one) return FALSE;
    if (base == -one) break; } if (i == s) return FALSE;` -/
def sqLoopRM (a : Nat) : Nat → Nat → Bool
  | 0, _ => false
  | k + 1, base =>
    let base' := base * base % a
    if base' = 1 then false
    else if base' + 1 = a then true
    else sqLoopRM a k base'

/-- `while (iter--) { draw; base <- base^r; … }`; returns the verdict and the unread tape -/
def rmLoop (a r s : Nat) : Nat → List Nat → Bool × List Nat
  | 0, tape => (true, tape)
  | iter + 1, tape =>
    match drawBase a 16 0 tape with
    | (none, t) => (false, t)
    | (some b, t) =>
      let base := powMod b r a
      if base = 1 ∨ base + 1 = a then rmLoop a r s iter t
      else if sqLoopRM a (s - 1) base then rmLoop a r s iter t
      else (false, t)

/-- `bool_t priRMTest(const word a[], size_t n, size_t iter, void* stack)` with the tape of the generator -/
def priRMTestT (a iter : Nat) (tape : List Nat) : Bool × List Nat :=
  if a % 2 = 0 then (a = 2, tape)
  else if a < 49 then (a ≠ 1 ∧ (a = 3 ∨ a % 3 ≠ 0) ∧ (a = 5 ∨ a % 5 ≠ 0), tape)
  else
    let (r, s) := splitOdd (bitSize a) (a - 1) 0
    rmLoop a r s iter tape

def priRMTest (a iter : Nat) (tape : List Nat) : Bool := (priRMTestT a iter tape).1

/-- `priIsPrime` = priRMTest with (B_PER_IMPOSSIBLE + 1) / 2 = 32 iterations -/
def priIsPrime (a : Nat) (tape : List Nat) : Bool := priRMTest a 32 tape

/-! ### priIsSGPrime (Demytko) -/

/-- `p <- 2q + 1; return 4^q mod p == 1`  (pre: q odd, q > 1) -/
def priIsSGPrime (q : Nat) : Bool :=
  let p := 2 * q + 1
  powMod (4 % p) q p = 1 % p

/-! ### priNextPrime -/

/-- `for (i…) { if (mods[i] < _base[i] - 2) mods[i] += 2; else if (mods[i] == _base[i] - 1) mods[i] = 1;
    else mods[i] = 0, base_success = FALSE; }` -/
def stepMods : List Nat → Nat → List Nat × Bool
  | [], _ => ([], true)
  | m :: ms, i =>
    let (ms', ok) := stepMods ms (i + 1)
    if m < base[i]! - 2 then ((m + 2) :: ms', ok)
    else if m = base[i]! - 1 then (1 :: ms', ok)
    else (0 :: ms', false)

/-- `while (trials == SIZE_MAX || trials--)`; trials = none ⇔ SIZE_MAX -/
def nextLoop (nW l iter : Nat) : Nat → Option Nat → Nat → List Nat → Bool → List Nat → Option Nat
  | 0, _, _, _, _, _ => none
  | fuel + 1, trials, p, mods, ok, tape =>
    if trials = some 0 then none
    else
      let trials' := trials.map (· - 1)
      let (pass, tape') := if ok then priRMTestT p iter tape else (false, tape)
      if pass then some p
      else
        let p' := p + 2
        if p' ≥ 2 ^ nW ∨ bitSize p' > l then none
        else
          let (mods', ok') := stepMods mods 0
          nextLoop nW l iter fuel trials' p' mods' ok' tape'

/-- `bool_t priNextPrime(word p[], const word a[], size_t n, size_t trials, size_t base_count, size_t iter, …)`;
    `nW` = n·W (bits of the array), trials = none ⇔ SIZE_MAX, `fuel` bounds the candidates the driver follows.
    The factor base is adjusted when the VALUE fits a word (`l <= B_PER_W`, docs/C12.fix-5; it was `n == 1`). -/
def priNextPrime (W n a : Nat) (trials : Option Nat) (baseCount iter : Nat) (tape : List Nat) (fuel : Nat) : Option Nat :=
  let l := bitSize a
  if l ≤ 1 then none
  else
    let p := a ||| 1
    let bc := if l ≤ W then adjustBaseCount p true baseCount else baseCount
    let mods := priBaseMod W p bc
    nextLoop (n * W) l iter fuel trials p mods (mods.all (· ≠ 0)) tape

end Bee2V.C12

import Bee2V.C12.ModelEc2
/-! C12 — decision list of dstuParamsVal (DSTU 4145-2002 curves over GF(2^m)) -/
namespace Bee2V.C12

/-- dstuParamsVal returns ERR_OK exactly when: the curve description is acceptable (160 ≤ m ≤ 509, A ∈ {0,1},
    trinomial or pentanomial admitted by gf2Create, B and the base point are field elements, n ≠ 0, 0 < c < 2^W), the order has
    more than 160 bits, the modulus is irreducible and B ≠ 0, the base point is on the curve and the Hasse bound
    holds, the order is prime ≠ 2^m and passes MOV(32), and nP = O. -/
theorem dstuParamsVal_ok_iff (isPrime : Nat → Bool) (W : Nat) (v : DstuVals) :
    dstuParamsValV isPrime W v = 0 ↔
      ∃ E, dstuCreate W v = some E ∧
        160 < bitSize (v.n % 2 ^ (W * wordSize W (2 ^ v.p0 - 1))) ∧
        ppIsIrred E.F.mod = true ∧ v.B ≠ 0 ∧
        E.onCurve v.xP v.yP = true ∧ hasse2 W (wordSize W (2 ^ v.p0 - 1)) v.p0 v.n v.c = true ∧
        ec2IsSafeGroup isPrime v.p0 v.n 32 = true ∧
        E.mul (v.n % 2 ^ (W * wordSize W (2 ^ v.p0 - 1))) (some (v.xP, v.yP)) = none := by
  unfold dstuParamsValV
  cases hc : dstuCreate W v with
  | none => simp
  | some E =>
    simp only [Option.some.injEq, exists_eq_left']
    by_cases h1 : bitSize (v.n % 2 ^ (W * wordSize W (2 ^ v.p0 - 1))) ≤ 160
    · simp [h1]; omega
    · have h1' : 160 < bitSize (v.n % 2 ^ (W * wordSize W (2 ^ v.p0 - 1))) := by omega
      simp only [h1, if_false, h1', true_and]
      cases h2 : ppIsIrred E.F.mod <;> cases h3 : E.onCurve v.xP v.yP <;>
        cases h4 : hasse2 W (wordSize W (2 ^ v.p0 - 1)) v.p0 v.n v.c <;>
        cases h5 : ec2IsSafeGroup isPrime v.p0 v.n 32 <;>
        cases h6 : E.mul (v.n % 2 ^ (W * wordSize W (2 ^ v.p0 - 1))) (some (v.xP, v.yP)) <;>
        by_cases h7 : v.B = 0 <;> simp [h7]

end Bee2V.C12

/-
C12 — the validators' models instantiated with the constants REGENERATED from the source (Bee2V/Gen/C12Consts.lean),
bign96, the seed-chain validators with the margins of the source, dstuPointVal.  Executable, no Mathlib.
A changed constant in the C code changes Gen/C12Consts.lean; the theorems `*_constants` of PropsVal2.lean
(standard's values) then fail.
-/
import Bee2V.C12.ModelEc2
import Bee2V.Gen.C12Consts
namespace Bee2V.C12
open Bee2V.Gen.C12

/-- bignParamsVal with the MOV threshold written in bign_params.c -/
def bignParamsVal (isPrime : Nat → Bool) (operable : Bool) (v : BignVals) : Nat :=
  bignParamsValV isPrime operable v movBign

/-! ### bign96 (l = 96, 192-bit field, 24-octet fields; the unused octets of the structure are ignored) -/

/-- `bign96Start`: gfpCreate (p odd), bit length of p = 192, p ≡ 3 (mod 4); ecpCreateJ (a, b < p);
    ecCreateGroup (yG < p, q ≠ 0); bit length of q = 2l = 192, q odd -/
def bign96StartOk (v : BignVals) : Bool :=
  decide (v.p % 2 = 1) && decide (bitSize v.p = 192) && decide (v.p % 4 = 3) &&
  decide (v.a < v.p) && decide (v.b < v.p) && decide (v.yG < v.p) && decide (v.q ≠ 0) &&
  decide (bitSize v.q = 192) && decide (v.q % 2 = 1)

/-- `err_t bign96ParamsVal(const bign_params* params)`: l = 96, bign96Start, then the list of 6.1.4 -/
def bign96ParamsVal (isPrime : Nat → Bool) (l : Nat) (v : BignVals) : Nat :=
  bignParamsValV isPrime (l == 96 && bign96StartOk v) v movBign96

/-- `err_t bign96PubkeyVal(params, pubkey)` -/
def bign96PubkeyVal (l : Nat) (v : BignVals) (x y : Nat) : Nat :=
  bignPubkeyValV (l == 96 && bign96StartOk v) v x y

/-- `err_t bign96KeypairVal(params, privkey, pubkey)` -/
def bign96KeypairVal (l : Nat) (v : BignVals) (d x y : Nat) : Nat :=
  bignKeypairValV (l == 96 && bign96StartOk v) v d x y

/-! ### seed chains with the margin of the source -/

/-- as `chainOk`, the constant 16 of `5 x[i] >= 4 x[i-1] - 16` replaced by `margin` (0 = no subtraction) -/
def chainOkM (S margin : Nat) (xs : List Nat) : Bool :=
  let M := 2 ^ S
  let rec go : Nat → List Nat → Bool
    | prev, [] => decide (prev ≤ 32)     -- the loop ran to the end of the array: `if (x[i-1] > 32) BAD`
    | prev, x :: rest =>
      if x > 16 then
        if x ≥ (M - 1) / 5 ∨ prev > 2 * x % M ∨ 5 * x % M ≥ (4 * prev % M + M - margin) % M then false
        else go x rest
      else if prev > 32 then false
      else (x :: rest).all (· == 0)
  match xs with
  | [] => false
  | x0 :: rest => if rest.isEmpty then decide (x0 ≤ 32) else go x0 rest

/-- `stb99SeedVal` with the chain margins written in stb99DiVal / stb99RiVal -/
def stb99SeedVal (S : Nat) (lr : List (Nat × Nat)) (l : Nat) (zi di ri : List Nat) : Nat :=
  match lr.find? (·.1 = l) with
  | none => 524
  | some (_, r) =>
    if !(zi.all (fun z => z ≠ 0 ∧ z < 65257)) then 524
    else
      let M := 2 ^ S
      let d0 := di.headD 0
      if d0 ≥ (M - 1) / 8 ∨ l > 2 * d0 ∨ 8 * d0 > 7 * l - r then 524
      else if !chainOkM S stb99DiMargin di then 524
      else if ri.headD 0 ≠ r then 524
      else if !chainOkM S stb99RiMargin ri then 524
      else 0

/-- `pfokSeedVal` with the margin written in pfokLiVal -/
def pfokSeedVal (S : Nat) (lr : List (Nat × Nat)) (l : Nat) (zi li : List Nat) : Nat :=
  if !(lr.any (·.1 = l)) then 524
  else if !(zi.all (fun z => z ≠ 0 ∧ z < 65257)) then 524
  else if li.headD 0 ≠ l - 1 then 524
  else if !chainOkM S pfokLiMargin li then 524
  else 0

/-- the chain rule of the headers over the integers (no machine arithmetic): `xs` = x₀, …, x_t, 0, …, 0 with
    x_t ∈ {17 … 32} (t ≥ 1) or x₀ ≤ 32 alone, and 5 x_{i+1} + margin < 4 x_i, x_i ≤ 2 x_{i+1} for i < t -/
def Spec.chain (margin : Nat) (xs : List Nat) : Prop :=
  ∃ t, t < xs.length ∧ (∀ j, t < j → j < xs.length → xs.getD j 0 = 0) ∧
    (∀ i, i < t → xs.getD i 0 ≤ 2 * xs.getD (i + 1) 0 ∧ 5 * xs.getD (i + 1) 0 + margin < 4 * xs.getD i 0) ∧
    (∀ i, 1 ≤ i → i ≤ t → 16 < xs.getD i 0) ∧ xs.getD t 0 ≤ 32

/-! ### dstuPointVal -/

/-- `err_t dstuPointVal(params, point)`: 0, 502 (curve not created), 401 = ERR_BAD_POINT -/
def dstuPointValV (W : Nat) (v : DstuVals) (x y : Nat) : Nat :=
  match dstuCreate W v with
  | none => 502
  | some E =>
    let nW := wordSize W (2 ^ v.p0 - 1)
    if x < 2 ^ v.p0 ∧ y < 2 ^ v.p0 ∧ E.onCurve x y ∧ (E.mul (v.n % 2 ^ (W * nW)) (some (x, y))).isNone then 0 else 401

/-- dstuParamsVal with the constants written in dstu.c (the model `dstuParamsValV` carries 160 … 509, 160 and 32) -/
def dstuConstsMatch : Bool :=
  dstuMinM == 160 && dstuMaxM == 509 && dstuOrderBits == 160 && movDstu == 32

end Bee2V.C12

/-
C12 — structural predicates over object descriptions: obj.c objIsOperable2, qr.c qrIsOperable, zm.c zmIsValid,
gfp.c gfpIsOperable / gfpIsValid, gf2.c gf2IsOperable / gf2IsValid, ec.c ecIsOperable2 / ecIsOperable /
ecIsOperableGroup, ecp.c ecpIsOnA / ec2.c ec2IsOnA on raw word coordinates, mt.c mtMtxIsValid.
An object is modelled by what the predicates read: header counters, null-ness of pointers, sizes, the words behind
r->mod and f->params.  `memIsValid(buf, count)` is `count == 0 || buf != 0` (mem.c), size_t arithmetic is modulo 2^64.
Executable, no Mathlib.
-/
import Bee2V.C12.ModelEc2
namespace Bee2V.C12

/-- sizes the predicates compare with: sizeof(obj_hdr_t), sizeof(void*), sizeof(qr_o), sizeof(ec_o), O_PER_W -/
structure Layout where
  hdr : Nat
  ptr : Nat
  szQr : Nat
  szEc : Nat
  deriving Repr

/-- LP64 (also the 32-bit-word build: size_t and pointers stay 64-bit there) -/
def lp64 : Layout := ⟨24, 8, 144, 176⟩

structure ObjHdr where
  ptrOk : Bool      -- the object pointer itself is not null
  keep : Nat
  pCount : Nat
  oCount : Nat

/-- `memIsValid(buf, count)` -/
def memIsValid (ptrOk : Bool) (count : Nat) : Bool := count == 0 || ptrOk

/-- `wwIsValid(a, n)` = memIsValid(a, O_OF_W(n)), O_OF_W(n) = n · O_PER_W in size_t -/
def wwIsValid (W : Nat) (ptrOk : Bool) (n : Nat) : Bool := memIsValid ptrOk (n * (W / 8) % 2 ^ 64)

/-- `bool_t objIsOperable2(const void* obj)` -/
def objIsOperable2 (L : Layout) (h : ObjHdr) : Bool :=
  memIsValid h.ptrOk L.hdr && memIsValid h.ptrOk h.keep &&
  decide (h.oCount ≤ h.pCount) && decide ((L.hdr + L.ptr * h.pCount) % 2 ^ 64 ≤ h.keep)

structure QrObj where
  hdr : ObjHdr
  modOk : Bool
  unityOk : Bool
  paramsOk : Bool
  n : Nat
  no : Nat
  fns : List Bool        -- from, to, add, sub, neg, mul, sqr, inv, div are not null
  deep : Nat
  mod : List Nat         -- the words behind r->mod
  params : List Nat      -- the size_t array behind f->params (gf2: p[0..3])

/-- `bool_t qrIsOperable(const qr_o* r)` (docs/C12.fix-7: the non-recursive object test; with o_count == 0 required,
    objIsOperable and objIsOperable2 coincide) -/
def qrIsOperable (L : Layout) (W : Nat) (r : QrObj) : Bool :=
  objIsOperable2 L r.hdr &&
  decide (r.hdr.keep ≥ L.szQr) &&
  r.hdr.pCount == 3 && r.hdr.oCount == 0 &&
  decide (r.n > 0) && decide (r.no > 0) &&
  wwIsValid W r.unityOk r.n &&
  r.fns.all id

/-- `bool_t zmIsValid(const qr_o* r)` -/
def zmIsValid (L : Layout) (W : Nat) (r : QrObj) : Bool :=
  qrIsOperable L W r && wwIsValid W r.modOk r.n && r.mod.getD (r.n - 1) 0 != 0

/-- value of the first n words -/
def wordsVal (W : Nat) (ws : List Nat) (n : Nat) : Nat :=
  (ws.take n).foldr (fun w acc => w % 2 ^ W + 2 ^ W * acc) 0

/-- `bool_t gfpIsOperable(const qr_o* f)` -/
def gfpIsOperable (L : Layout) (W : Nat) (f : QrObj) : Bool :=
  zmIsValid L W f && f.mod.headD 0 % 2 == 1 && (decide (f.n > 1) || decide (f.mod.headD 0 > 1))

/-- `bool_t gfpIsValid(const qr_o* f, void* stack)`; `isPrime` = priIsPrime -/
def gfpIsValid (isPrime : Nat → Bool) (L : Layout) (W : Nat) (f : QrObj) : Bool :=
  gfpIsOperable L W f && isPrime (wordsVal W f.mod f.n)

/-- `bool_t gf2IsOperable(const qr_o* f)` -/
def gf2IsOperable (L : Layout) (W : Nat) (f : QrObj) : Bool :=
  if !(qrIsOperable L W f && memIsValid f.paramsOk (4 * 8)) then false
  else
    let p0 := f.params.getD 0 0; let p1 := f.params.getD 1 0; let p2 := f.params.getD 2 0; let p3 := f.params.getD 3 0
    if p0 ≤ p1 ∨ p1 < p2 ∨ p2 < p3 ∨ (p2 > 0 ∧ (p1 = p2 ∨ p2 = p3 ∨ p3 = 0)) ∨
       f.n ≠ (p0 + W - 1) / W ∨ f.no ≠ (p0 + 7) / 8 then false
    else
      let n1 := f.n + (if p0 % W = 0 then 1 else 0)
      if !wwIsValid W f.modOk n1 ∨ f.mod.getD (n1 - 1) 0 = 0 then false else true

/-- `bool_t gf2IsValid(const qr_o* f, void* stack)`: for p[1] > 0 the modulus is the polynomial described by p and
    irreducible; for p[1] == 0 (normal basis, reserved) nothing more is checked -/
def gf2IsValid (L : Layout) (W : Nat) (f : QrObj) : Bool :=
  if !gf2IsOperable L W f then false
  else
    let p0 := f.params.getD 0 0; let p1 := f.params.getD 1 0; let p2 := f.params.getD 2 0; let p3 := f.params.getD 3 0
    if p1 > 0 then
      let n1 := f.n + (if p0 % W = 0 then 1 else 0)
      let md := 2 ^ p0 ||| 2 ^ p1 ||| 2 ^ p2 ||| 2 ^ p3 ||| 1
      if wordsVal W f.mod n1 ≠ md then false else ppIsIrred md
    else true

structure EcObj where
  hdr : ObjHdr
  f : QrObj
  aOk : Bool
  bOk : Bool
  baseOk : Bool
  orderOk : Bool
  d : Nat
  cofactor : Nat
  fns : List Bool        -- froma, toa, neg, add, adda, sub, suba, dbl, dbla are not null (tpl is not examined)
  deep : Nat
  order : Nat            -- value of the n + 1 words behind ec->order

/-- `bool_t ecIsOperable2(const ec_o* ec)` -/
def ecIsOperable2 (L : Layout) (W : Nat) (ec : EcObj) : Bool :=
  objIsOperable2 L ec.hdr &&
  decide (ec.hdr.keep ≥ L.szEc) &&
  ec.hdr.pCount == 6 && ec.hdr.oCount == 1 &&
  wwIsValid W ec.aOk ec.f.n && wwIsValid W ec.bOk ec.f.n &&
  decide (ec.d ≥ 3) &&
  ec.fns.all id

/-- `bool_t ecIsOperable(const ec_o* ec)` -/
def ecIsOperable (L : Layout) (W : Nat) (ec : EcObj) : Bool :=
  ecIsOperable2 L W ec && qrIsOperable L W ec.f && decide (ec.deep ≥ ec.f.deep)

/-- `bool_t ecIsOperableGroup(const ec_o* ec)` -/
def ecIsOperableGroup (W : Nat) (ec : EcObj) : Bool :=
  wwIsValid W ec.baseOk (2 * ec.f.n) && wwIsValid W ec.orderOk (ec.f.n + 1) &&
  decide (ec.order ≠ 0) && decide (ec.cofactor ≠ 0)

/-- `bool_t ecpIsOnA(const word a[], const ec_o* ec, void* stack)` on raw word coordinates (values of the field
    representation): both coordinates are reduced (`zmIsIn`: < p) and satisfy the equation -/
def ecpIsOnA (E : Ecp) (x y : Nat) : Bool := decide (x < E.p) && decide (y < E.p) && E.onCurve x y

/-- `bool_t ec2IsOnA(…)`: `gf2IsIn` (degree < m) for both coordinates, then the equation -/
def ec2IsOnA (E : Ec2) (x y : Nat) : Bool := decide (x < 2 ^ E.F.m) && decide (y < 2 ^ E.F.m) && E.onCurve x y

/-- `bool_t mtMtxIsValid(const mt_mtx_t* mtx)` = memIsValid(mtx, sizeof(mt_mtx_t)) -/
def mtMtxIsValid (ptrOk : Bool) (sz : Nat) : Bool := memIsValid ptrOk sz

end Bee2V.C12

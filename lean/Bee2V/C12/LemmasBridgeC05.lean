/-
C12 ↔ C05 — the two executable models of `ppIsIrred` (pp_etc.c) agree:
`Bee2V.C12.ppIsIrred f = Bee2V.C05.ppIsIrredV f` for every f.  The primitives agree one by one:
remainder (`C12.pmod` = `C05.Spec.pmod`), Euclid (`C12.pgcd` = `C05.Spec.pgcd` = `C05.ppGCDV` on non-zero
arguments), squaring (`C12.psqr a` = `clmul a a`).  No Mathlib (C05.LemmasPp has none).
-/
import Bee2V.C12.ModelPp
import Bee2V.C05.ModelGf2
import Bee2V.C05.LemmasPp
namespace Bee2V.C12
namespace BridgeC05
open Bee2V.C05.Pp

/-! ### remainder -/

theorem plen_eq (a : Nat) (ha : a ≠ 0) : plen a = a.log2 + 1 := by
  unfold plen; rw [if_neg ha]

theorem xor_xor_cancel (a b : Nat) : a ^^^ b ^^^ a = b := by
  rw [Nat.xor_comm a b, Nat.xor_assoc, Nat.xor_self, Nat.xor_zero]

theorem pmodAux_spec (m : Nat) (hm : m ≠ 0) : ∀ (fuel a : Nat), a < 2 ^ (fuel + m.log2) →
    C05.Spec.pmod (pmodAux m (m.log2 + 1) fuel a) m = C05.Spec.pmod a m ∧
      pmodAux m (m.log2 + 1) fuel a < 2 ^ m.log2 := by
  intro fuel
  induction fuel with
  | zero =>
    intro a ha
    rw [Nat.zero_add] at ha
    exact ⟨rfl, ha⟩
  | succ fuel ih =>
    intro a ha
    unfold pmodAux
    by_cases hc : plen a ≥ m.log2 + 1 ∧ a ≠ 0
    · rw [if_pos hc]
      obtain ⟨hge, ha0⟩ := hc
      rw [plen_eq a ha0] at hge ⊢
      have hge' : m.log2 ≤ a.log2 := by omega
      rw [show a.log2 + 1 - (m.log2 + 1) = a.log2 - m.log2 by omega]
      have hlog : a.log2 < fuel + 1 + m.log2 := (Nat.log2_lt ha0).2 ha
      have hlt : a ^^^ (m <<< (a.log2 - m.log2)) < 2 ^ (a.log2 - m.log2 + m.log2) := by
        apply xor_shift_lt hm
        · rw [show a.log2 - m.log2 + m.log2 + 1 = a.log2 + 1 by omega]; exact Nat.lt_log2_self
        · rw [show a.log2 - m.log2 + m.log2 = a.log2 by omega]; exact Nat.testBit_log2 ha0
      have hlt' : a ^^^ (m <<< (a.log2 - m.log2)) < 2 ^ (fuel + m.log2) :=
        Nat.lt_of_lt_of_le hlt (Nat.pow_le_pow_right (by omega) (by omega))
      obtain ⟨h1, h2⟩ := ih _ hlt'
      refine ⟨?_, h2⟩
      rw [h1]
      apply pmod_cong hm
      exact ⟨2 ^ (a.log2 - m.log2), by rw [xor_xor_cancel, two_pow_clmul]⟩
    · rw [if_neg hc]
      refine ⟨rfl, ?_⟩
      by_cases ha0 : a = 0
      · subst ha0; exact Nat.two_pow_pos _
      · rw [plen_eq a ha0] at hc
        exact (Nat.log2_lt ha0).1 (by omega)

/-- the two remainders agree -/
theorem pmod_eq (a m : Nat) : pmod a m = C05.Spec.pmod a m := by
  by_cases hm : m = 0
  · subst hm; rfl
  · unfold pmod
    rw [if_neg hm, plen_eq m hm]
    have hlt : a < 2 ^ (plen a + m.log2) := by
      by_cases ha0 : a = 0
      · subst ha0; exact Nat.two_pow_pos _
      · rw [plen_eq a ha0]
        exact Nat.lt_of_lt_of_le Nat.lt_log2_self (Nat.pow_le_pow_right (by omega) (by omega))
    obtain ⟨h1, h2⟩ := pmodAux_spec m hm (plen a) a hlt
    rw [← h1, pmod_of_lt hm h2]

/-! ### Euclid -/

theorem pgcdAux_eq : ∀ (f a b : Nat), pgcdAux f a b = C05.Spec.pgcdAux f a b := by
  intro f
  induction f with
  | zero => intro a b; rfl
  | succ f ih =>
    intro a b
    unfold pgcdAux C05.Spec.pgcdAux
    rw [pmod_eq, ih]

theorem pgcd_eq (a b : Nat) : pgcd a b = C05.Spec.pgcd a b := by
  apply isPGcd_unique (a := a) (b := b) _ (pgcd_spec a b)
  unfold pgcd
  rw [pgcdAux_eq]
  apply pgcdAux_spec
  have hb : b < 2 ^ plen b := by
    by_cases hb0 : b = 0
    · subst hb0; exact Nat.two_pow_pos _
    · rw [plen_eq b hb0]; exact Nat.lt_log2_self
  exact Nat.lt_of_lt_of_le hb (Nat.pow_le_pow_right (by omega) (by omega))

/-! ### squaring -/

theorem sqr_xor' (x y : Nat) :
    C05.Spec.clmul (x ^^^ y) (x ^^^ y) = C05.Spec.clmul x x ^^^ C05.Spec.clmul y y := by
  rw [xor_clmul, clmul_xor, clmul_xor, clmul_comm y x]
  apply Nat.eq_of_testBit_eq
  intro i
  simp only [Nat.testBit_xor]
  cases (C05.Spec.clmul x x).testBit i <;> cases (C05.Spec.clmul x y).testBit i <;>
    cases (C05.Spec.clmul y y).testBit i <;> rfl

theorem or_eq_xor_of_lt (acc k : Nat) (h : acc < 2 ^ k) : acc ||| (1 <<< k) = acc ^^^ (1 <<< k) := by
  apply Nat.eq_of_testBit_eq
  intro j
  rw [Nat.testBit_or, Nat.testBit_xor, Nat.one_shiftLeft, Nat.testBit_two_pow]
  by_cases hj : k = j
  · subst hj
    rw [Nat.testBit_lt_two_pow h]
    simp
  · simp [hj]

theorem split_bit (a : Nat) : a = (a % 2) ^^^ (2 * (a / 2)) := by
  apply Nat.eq_of_testBit_eq
  intro j
  rw [Nat.testBit_xor]
  cases j with
  | zero =>
    simp only [Nat.testBit_zero, Nat.mul_mod_right, Nat.mod_mod]
    rcases Nat.mod_two_eq_zero_or_one a with h | h <;> simp [h]
  | succ j =>
    rw [Nat.testBit_succ, Nat.testBit_succ, Nat.testBit_succ, Nat.mul_div_cancel_left _ (by decide : 0 < 2)]
    have : a % 2 / 2 = 0 := by omega
    rw [this]
    simp

theorem clmul_self_step (a : Nat) :
    C05.Spec.clmul a a = (a % 2) ^^^ (C05.Spec.clmul (a / 2) (a / 2) <<< 2) := by
  conv => lhs; rw [split_bit a]
  rw [sqr_xor', clmul_two_mul, two_mul_clmul]
  congr 1
  · rcases Nat.mod_two_eq_zero_or_one a with h | h <;> rw [h]
    · exact zero_clmul 0
    · exact clmul_one 1

theorem psqrAux_spec : ∀ (fuel a i acc : Nat), a < 2 ^ fuel → acc < 2 ^ (2 * i) →
    psqrAux fuel a i acc = acc ^^^ (C05.Spec.clmul a a <<< (2 * i)) := by
  intro fuel
  induction fuel with
  | zero =>
    intro a i acc ha _
    have : a = 0 := by simpa using ha
    subst this
    simp [psqrAux, zero_clmul]
  | succ fuel ih =>
    intro a i acc ha hacc
    unfold psqrAux
    have ha2 : a / 2 < 2 ^ fuel := by rw [Nat.pow_succ] at ha; omega
    have hpow : (2 : Nat) ^ (2 * i) < 2 ^ (2 * (i + 1)) := Nat.pow_lt_pow_right (by decide) (by omega)
    have hacc' : (if a % 2 = 1 then acc ||| 1 <<< (2 * i) else acc) < 2 ^ (2 * (i + 1)) := by
      split
      · rw [or_eq_xor_of_lt acc _ hacc]
        apply Nat.xor_lt_two_pow (by omega)
        rw [Nat.one_shiftLeft]; exact hpow
      · omega
    rw [ih (a / 2) (i + 1) _ ha2 hacc', clmul_self_step a, Nat.shiftLeft_xor_distrib, ← Nat.shiftLeft_add,
      show 2 + 2 * i = 2 * (i + 1) by omega, ← Nat.xor_assoc]
    congr 1
    rcases Nat.mod_two_eq_zero_or_one a with h | h
    · simp [h]
    · simp only [h, if_true]
      rw [or_eq_xor_of_lt acc _ hacc]

/-- spreading the bits = carry-less square -/
theorem psqr_eq (a : Nat) : psqr a = C05.Spec.clmul a a := by
  unfold psqr
  have ha : a < 2 ^ plen a := by
    by_cases ha0 : a = 0
    · subst ha0; exact Nat.two_pow_pos _
    · rw [plen_eq a ha0]; exact Nat.lt_log2_self
  rw [psqrAux_spec (plen a) a 0 0 ha (Nat.two_pow_pos _)]
  simp

/-! ### the Ben-Or loop -/

theorem irredLoop_eq (a : Nat) (ha : a ≠ 0) : ∀ (i h : Nat), irredLoop a i h = C05.ppIsIrredLoop a i h := by
  intro i
  induction i with
  | zero => intro h; rfl
  | succ i ih =>
    intro h
    unfold irredLoop C05.ppIsIrredLoop
    simp only
    by_cases h0 : h ^^^ 2 = 0
    · rw [if_pos h0, if_pos h0]
    · rw [if_neg h0, if_neg h0, pgcd_eq, ← gcdV_eq_pgcd h0 ha]
      by_cases hg : C05.ppGCDV (h ^^^ 2) a ≠ 1
      · rw [if_pos hg, if_pos hg]
      · rw [if_neg hg, if_neg hg]
        have hh : h ^^^ 2 ^^^ 2 = h := by rw [Nat.xor_assoc, Nat.xor_self, Nat.xor_zero]
        rw [hh, ih, psqr_eq, pmod_eq]

end BridgeC05

open BridgeC05

/-- the C12 and the C05 model of `ppIsIrred` are the same function -/
theorem ppIsIrred_eq_C05 (f : Nat) : ppIsIrred f = C05.ppIsIrredV f := by
  unfold ppIsIrred C05.ppIsIrredV
  by_cases h1 : f ≤ 1
  · rw [if_pos h1, if_pos h1]
  · rw [if_neg h1, if_neg h1]
    have hf : f ≠ 0 := by omega
    rw [irredLoop_eq f hf]
    unfold pdeg
    rw [plen_eq f hf, Nat.add_sub_cancel]

example : ppIsIrred 0x11B = true ∧ C05.ppIsIrredV 0x11B = true ∧ ppIsIrred 0x11D = C05.ppIsIrredV 0x11D := by
  decide +kernel

end Bee2V.C12

/-
C12 — priExtendPrime2 / priExtendPrime (ModelPri2.lean): what the function returns is of the form 2·q·a·r + 1, has
exactly l bits, passed the sieve and Demytko's test; with the documented preconditions (q an odd prime,
l ≤ 2·bitlen q) Demytko's test PROVES primality, so the returned number is prime for every generator tape.
-/
import Mathlib.Data.Nat.Prime.Basic
import Mathlib.Data.Nat.Totient
import Mathlib.Data.ZMod.Basic
import Mathlib.GroupTheory.OrderOfElement
import Mathlib.FieldTheory.Finite.Basic
import Bee2V.C12.ModelPri2
import Bee2V.C12.LemmasPri
import Bee2V.C12.LemmasNext
import Bee2V.C12.LemmasNextP
import Bee2V.C12.LemmasSieve
import Bee2V.C12.LemmasSmooth
import Bee2V.C12.LemmasVal
namespace Bee2V.C12
open Bee2V.Gen.C12

/-! ### priBasePrime -/

theorem priBasePrime_prime (i : Nat) (h : i < 1024) : Nat.Prime (priBasePrime i) := SmoothAux.base_prime i h

theorem priBasePrime_strictMono (i j : Nat) (hij : i < j) (hj : j < 1024) : priBasePrime i < priBasePrime j :=
  base_sorted i j hij hj

theorem priBasePrime_ge_3 (i : Nat) (h : i < 1024) : 3 ≤ priBasePrime i := base_ge_3 i h

/-! ### the incremental residues -/

namespace ExtAux
open NextPAux

theorem add_mod_step (p d b : Nat) (hb : 0 < b) :
    (if p % b + d % b ≥ b then p % b + d % b - b else p % b + d % b) = (p + d) % b := by
  have h1 := Nat.mod_lt p hb
  have h2 := Nat.mod_lt d hb
  rw [Nat.add_mod p d b]
  generalize p % b = x at *
  generalize d % b = y at *
  split
  · rw [Nat.mod_eq_sub_mod (by omega), Nat.mod_eq_of_lt (by omega)]
  · rw [Nat.mod_eq_of_lt (by omega)]

theorem addMods_gen (p d : Nat) : ∀ (k s : Nat), s + k ≤ 1024 →
    addMods (res p s k) (res d s k) s = res (p + d) s k := by
  intro k
  induction k with
  | zero => intro s _; simp [res, addMods]
  | succ k ih =>
    intro s hs
    have hb := base_ge_3 s (by omega)
    rw [res_succ, res_succ, res_succ, addMods, ih (s + 1) (by omega), add_mod_step p d _ (by omega)]

end ExtAux

open NextPAux in
/-- `mods[i] += mods1[i]` with one conditional subtraction keeps `mods` = the residues of the candidate -/
theorem addMods_spec (p d bc : Nat) (hbc : bc ≤ 1024) (mods mods1 : List Nat)
    (hm : mods = (List.range bc).map (fun i => p % base[i]!))
    (hm1 : mods1 = (List.range bc).map (fun i => d % base[i]!)) :
    addMods mods mods1 0 = (List.range bc).map (fun i => (p + d) % base[i]!) := by
  subst hm hm1
  rw [← res_zero_eq, ← res_zero_eq, ← res_zero_eq]
  exact ExtAux.addMods_gen p d bc 0 (by omega)

/-! ### the inner loop -/

namespace ExtAux
open NextPAux

theorem extInner_found_gen (l nW q a bc : Nat) (hbc : bc ≤ 1024) :
    ∀ (fuel : Nat) (tr : Option Nat) (p r p' : Nat), p = 2 * (q * a) * r + 1 → bitSize p ≤ l → p < 2 ^ nW →
      extInner l nW (q * a) q a fuel tr p r (res p 0 bc) (res (2 * (q * a)) 0 bc) = .found p' →
      ∃ r', p' = 2 * (q * a) * r' + 1 ∧ r ≤ r' ∧ demytko p' q a r' = true ∧ (∀ i, i < bc → p' % base[i]! ≠ 0) ∧
        p ≤ p' ∧ bitSize p' ≤ l ∧ p' < 2 ^ nW
  | 0, tr, p, r, p', _, _, _, h => by simp [extInner] at h
  | fuel + 1, tr, p, r, p', hp, hb, hlt, h => by
    rw [extInner] at h
    split at h
    · next hc =>
      simp only [ExtRes.found.injEq] at h
      subst h
      rw [Bool.and_eq_true] at hc
      exact ⟨r, hp, Nat.le_refl _, hc.2, (res_all_iff p bc).1 hc.1, Nat.le_refl _, hb, hlt⟩
    · simp only at h
      split at h
      · cases h
      · next hov =>
        have hp' : p + 2 * (q * a) = 2 * (q * a) * (r + 1) + 1 := by rw [hp, Nat.mul_succ]; omega
        rw [addMods_gen p (2 * (q * a)) bc 0 (by omega)] at h
        split at h
        · cases h
        · obtain ⟨r', h1, h2, h3, h4, h5, h6, h7⟩ :=
            extInner_found_gen l nW q a bc hbc fuel _ (p + 2 * (q * a)) (r + 1) p' hp' (by omega) (by omega) h
          exact ⟨r', h1, by omega, h3, h4, by omega, h6, h7⟩

end ExtAux

open NextPAux in
/-- a candidate the inner loop returns: `p' = 2·q·a·r' + 1` for some `r' ≥ r`, accepted by Demytko's test with that
    `r'`, not divisible by the first `bc` base primes, inside the array and the bit length -/
theorem extInner_found (l nW qa q a bc fuel : Nat) (tr : Option Nat) (p r : Nat) (mods mods1 : List Nat) (p' : Nat)
    (hbc : bc ≤ 1024) (hqa : qa = q * a) (hp : p = 2 * qa * r + 1)
    (hm : mods = (List.range bc).map (fun i => p % base[i]!))
    (hm1 : mods1 = (List.range bc).map (fun i => (2 * qa) % base[i]!))
    (hb : bitSize p ≤ l) (hlt : p < 2 ^ nW)
    (h : extInner l nW qa q a fuel tr p r mods mods1 = .found p') :
    ∃ r', p' = 2 * qa * r' + 1 ∧ r ≤ r' ∧ demytko p' q a r' = true ∧ (∀ i, i < bc → p' % base[i]! ≠ 0) ∧
      p ≤ p' ∧ bitSize p' ≤ l ∧ p' < 2 ^ nW := by
  subst hqa hm hm1
  rw [← res_zero_eq, ← res_zero_eq] at h
  exact ExtAux.extInner_found_gen l nW q a bc hbc fuel tr p r p' hp hb hlt h

/-! ### the outer loop -/

namespace ExtAux
open NextPAux

/-- the doubling of the residues of q·a (`mods1[i] += mods1[i]` with one conditional subtraction) -/
theorem dbl_gen (x : Nat) : ∀ (k s : Nat), s + k ≤ 1024 →
    ((res x s k).zipIdx s).map (fun (m, i) => if 2 * m ≥ base[i]! then 2 * m - base[i]! else 2 * m) =
      res (2 * x) s k := by
  intro k
  induction k with
  | zero => intro s _; simp [res]
  | succ k ih =>
    intro s hs
    have hb := base_ge_3 s (by omega)
    have key := add_mod_step x x _ (show 0 < base[s]! by omega)
    rw [← Nat.two_mul, ← Nat.two_mul] at key
    rw [res_succ, res_succ, List.zipIdx_cons, List.map_cons, ih (s + 1) (by omega)]
    simp only []
    rw [key]

theorem np_ge (W l : Nat) (hW : W = 16 ∨ W = 32 ∨ W = 64) : l ≤ (l + W - 1) / W * W := by
  rcases hW with rfl | rfl | rfl <;> omega

/-- the start candidate of one outer round -/
theorem start_bounds (l qa t0 : Nat) (hl : 2 ≤ l) (hqa : 0 < qa)
    (hbs : bitSize (qa * ((t0 % 2 ^ (l - 2) + 2 ^ (l - 2) + qa - 1) / qa)) ≤ l - 1) :
    2 ^ (l - 1) ≤ 2 * (qa * ((t0 % 2 ^ (l - 2) + 2 ^ (l - 2) + qa - 1) / qa)) + 1 ∧
    2 * (qa * ((t0 % 2 ^ (l - 2) + 2 ^ (l - 2) + qa - 1) / qa)) + 1 < 2 ^ l := by
  have hlt := (ValAux.bitSize_le_iff _ _).1 hbs
  have hpos : 0 < 2 ^ (l - 2) := Nat.pow_pos (by decide)
  have h1 : 2 ^ (l - 1) = 2 * 2 ^ (l - 2) := by
    rw [show l - 1 = (l - 2) + 1 by omega, Nat.pow_succ]; omega
  have h2 : 2 ^ l = 2 * 2 ^ (l - 1) := by
    rw [show l = (l - 1) + 1 by omega, Nat.pow_succ, Nat.add_sub_cancel]; omega
  have hm : 2 ^ (l - 2) ≤ t0 % 2 ^ (l - 2) + 2 ^ (l - 2) := Nat.le_add_left _ _
  generalize t0 % 2 ^ (l - 2) + 2 ^ (l - 2) = t at *
  have hd := Nat.div_add_mod (t + qa - 1) qa
  have hr := Nat.mod_lt (t + qa - 1) hqa
  generalize (t + qa - 1) / qa = r at *
  generalize qa * r = tt at *
  omega

theorem extOuter_succ (W l q a bc fuel : Nat) (tr : Option Nat) (tape tape' : List UInt8) (t0 : Nat)
    (hd : drawOctets ((l + 7) / 8) tape = (t0, tape')) :
    extOuter W l q a bc (fuel + 1) tr tape =
      if tr = some 0 then (none, tape)
      else if bitSize (q * a * ((t0 % 2 ^ (l - 2) + 2 ^ (l - 2) + q * a - 1) / (q * a))) > l - 1 then
        extOuter W l q a bc fuel (tr.map (· - 1)) tape'
      else
        match extInner l ((l + W - 1) / W * W) (q * a) q a (2 ^ l) (tr.map (· - 1))
            (2 * (q * a * ((t0 % 2 ^ (l - 2) + 2 ^ (l - 2) + q * a - 1) / (q * a))) + 1)
            ((t0 % 2 ^ (l - 2) + 2 ^ (l - 2) + q * a - 1) / (q * a))
            (priBaseMod W (2 * (q * a * ((t0 % 2 ^ (l - 2) + 2 ^ (l - 2) + q * a - 1) / (q * a))) + 1) bc)
            ((priBaseMod W (q * a) bc).zipIdx.map
              (fun (m, i) => if 2 * m ≥ base[i]! then 2 * m - base[i]! else 2 * m)) with
        | .found p' => (some p', tape')
        | .fail => (none, tape')
        | .next tr' => extOuter W l q a bc fuel tr' tape' := by
  rw [extOuter, hd]
  rfl

theorem extOuter_found (W l q a bc : Nat) (hW : W = 16 ∨ W = 32 ∨ W = 64) (hbc : bc ≤ 1024) (hl : 2 ≤ l)
    (hqa : 0 < q * a) :
    ∀ (fuel : Nat) (tr : Option Nat) (tape : List UInt8) (p : Nat), (extOuter W l q a bc fuel tr tape).1 = some p →
      ∃ r, p = 2 * (q * a) * r + 1 ∧ bitSize p = l ∧ demytko p q a r = true ∧ (∀ i, i < bc → p % base[i]! ≠ 0)
  | 0, tr, tape, p, h => by simp [extOuter] at h
  | fuel + 1, tr, tape, p, h => by
    rw [extOuter_succ W l q a bc fuel tr tape (tape.drop ((l + 7) / 8)) _ rfl] at h
    split at h
    · simp at h
    · generalize (drawOctets ((l + 7) / 8) tape).1 = t0 at h
      generalize List.drop ((l + 7) / 8) tape = tape' at h
      split at h
      · exact extOuter_found W l q a bc hW hbc hl hqa fuel _ _ p h
      · next hbs =>
        obtain ⟨hlo, hhi⟩ := start_bounds l (q * a) _ hl hqa (Nat.le_of_not_lt hbs)
        rw [priBaseMod_spec W _ bc hW hbc, priBaseMod_spec W _ bc hW hbc, ← res_zero_eq, ← res_zero_eq,
          dbl_gen (q * a) bc 0 (by omega)] at h
        split at h
        · next p' hres =>
          simp only [Option.some.injEq] at h
          subst h
          have hnp : 2 ^ l ≤ 2 ^ ((l + W - 1) / W * W) := Nat.pow_le_pow_right (by decide) (np_ge W l hW)
          obtain ⟨r', h1, _, h3, h4, h5, h6, _⟩ :=
            extInner_found_gen l _ q a bc hbc _ _ _ _ p' (by rw [Nat.mul_assoc 2])
              ((ValAux.bitSize_le_iff _ _).2 hhi) (by omega) hres
          refine ⟨r', h1, ?_, h3, h4⟩
          exact (bitSize_eq_iff p' l (by omega)).2 ⟨by omega, (ValAux.bitSize_le_iff _ _).1 h6⟩
        · simp at h
        · exact extOuter_found W l q a bc hW hbc hl hqa fuel _ _ p h
end ExtAux

/-- what priExtendPrime2 returns (for every tape, every `trials`, every `fuel`): `p = 2·q·a·r + 1` with exactly `l`
    bits that passed Demytko's test with that `r` and is not divisible by the base primes in use -/
theorem priExtendPrime2_found (W l q a : Nat) (trials : Option Nat) (baseCount : Nat) (tape : List UInt8) (fuel p : Nat)
    (hW : W = 16 ∨ W = 32 ∨ W = 64) (hbc : baseCount ≤ 1024) (hl : 2 ≤ l) (hqa : 0 < q * a)
    (h : (priExtendPrime2 W l q a trials baseCount tape fuel).1 = some p) :
    ∃ r, p = 2 * q * a * r + 1 ∧ bitSize p = l ∧ demytko p q a r = true := by
  unfold priExtendPrime2 at h
  simp only at h
  have hbc' : (if l < W then adjustBaseCount (2 ^ (l - 1)) false baseCount else baseCount) ≤ 1024 := by
    split
    · exact Nat.le_trans (SieveAux.adjust_le _ _ _) hbc
    · exact hbc
  obtain ⟨r, h1, h2, h3, _⟩ := ExtAux.extOuter_found W l q a _ hW hbc' hl hqa fuel trials tape p h
  exact ⟨r, by rw [h1, Nat.mul_assoc 2 q a], h2, h3⟩

/-! ### Demytko's test is a primality proof -/

namespace ExtAux

/-- a prime dividing φ(n) divides n or l − 1 for a prime l ∣ n -/
theorem prime_dvd_totient {q n : Nat} (hq : q.Prime) (h : q ∣ Nat.totient n) :
    q ∣ n ∨ ∃ l, l.Prime ∧ l ∣ n ∧ q ∣ l - 1 := by
  have h1 : q ∣ n * ∏ p ∈ n.primeFactors, (p - 1) := by
    rw [← Nat.totient_mul_prod_primeFactors]; exact Dvd.dvd.mul_right h _
  rcases (Nat.Prime.dvd_mul hq).1 h1 with h2 | h2
  · exact Or.inl h2
  · right
    obtain ⟨l, hl, hd⟩ := (Prime.dvd_finsetProd_iff hq.prime _).1 h2
    exact ⟨l, Nat.prime_of_mem_primeFactors hl, Nat.dvd_of_mem_primeFactors hl, hd⟩

/-- Pocklington's step: 2^(qR) ≡ 1, 2^R ≢ 1 (mod p), p = qR + 1 odd: some prime factor of p is ≡ 1 (mod q) -/
theorem demytko_factor {p q R : Nat} (hq : q.Prime) (hp : p = q * R + 1) (hodd : p % 2 = 1) (hp1 : 1 < p)
    (h1 : 2 ^ R % p ≠ 1) (h2 : 2 ^ (q * R) % p = 1) : ∃ l, l.Prime ∧ l ∣ p ∧ q ∣ l - 1 := by
  have hz2 : (2 : ZMod p) ^ (q * R) = 1 := by
    have := (ZMod.natCast_eq_natCast_iff' (2 ^ (q * R)) 1 p).2 (by rw [h2, Nat.mod_eq_of_lt hp1])
    simpa using this
  have hz1 : (2 : ZMod p) ^ R ≠ 1 := by
    intro hc
    have := (ZMod.natCast_eq_natCast_iff' (2 ^ R) 1 p).1 (by simpa using hc)
    rw [Nat.mod_eq_of_lt hp1] at this
    exact h1 this
  have hd1 : orderOf (2 : ZMod p) ∣ q * R := orderOf_dvd_of_pow_eq_one hz2
  have hd2 : ¬ orderOf (2 : ZMod p) ∣ R := fun hc => hz1 (orderOf_dvd_iff_pow_eq_one.1 hc)
  have hqd : q ∣ orderOf (2 : ZMod p) := by
    by_contra hnq
    have hc : Nat.Coprime (orderOf (2 : ZMod p)) q := ((Nat.Prime.coprime_iff_not_dvd hq).2 hnq).symm
    exact hd2 (hc.dvd_of_dvd_mul_left hd1)
  have hcop : Nat.Coprime 2 p := (Nat.Prime.coprime_iff_not_dvd Nat.prime_two).2 (by omega)
  have ht := Nat.ModEq.pow_totient hcop
  have hz3 : (2 : ZMod p) ^ Nat.totient p = 1 := by
    have := (ZMod.natCast_eq_natCast_iff _ _ _).2 ht
    simpa using this
  have hqphi : q ∣ Nat.totient p := dvd_trans hqd (orderOf_dvd_of_pow_eq_one hz3)
  rcases prime_dvd_totient hq hqphi with hqp | hl
  · exfalso
    rw [hp] at hqp
    have : q ∣ 1 := (Nat.dvd_add_right (dvd_mul_right q R)).1 hqp
    exact hq.one_lt.ne' (Nat.dvd_one.1 this)
  · exact hl

end ExtAux

open ExtAux in
/-- Demytko's test is a primality PROOF: q an odd prime, p = 2·q·a·r + 1 with 2·a·r < 4q + 1,
    (4^r)^a ≢ 1 and ((4^r)^a)^q ≡ 1 (mod p)  ⟹  p is prime -/
theorem demytko_sound (p q a r : Nat) (hq : Nat.Prime q) (hq2 : q % 2 = 1) (hp : p = 2 * q * a * r + 1)
    (hR : 2 * a * r < 4 * q + 1) (h : demytko p q a r = true) : Nat.Prime p := by
  have hq3 : 3 ≤ q := by have := hq.two_le; omega
  unfold demytko at h
  simp only [powMod_eq, Bool.and_eq_true, bne_iff_ne, beq_iff_eq, ne_eq] at h
  obtain ⟨h1, h2⟩ := h
  have har : a * r ≠ 0 := by
    intro h0
    have hp1 : p = 1 := by rw [hp, Nat.mul_assoc, h0, Nat.mul_zero]
    subst hp1
    simp [Nat.mod_one] at h1
  have hpR : p = q * (2 * a * r) + 1 := by rw [hp]; ring
  have hR2 : 2 ≤ 2 * a * r := by
    have : 0 < a * r := Nat.pos_of_ne_zero har
    rw [Nat.mul_assoc]; omega
  have hqR : q * 2 ≤ q * (2 * a * r) := Nat.mul_le_mul_left q hR2
  have hp7 : 7 ≤ p := by omega
  have e1 : ((4 % p) ^ r % p) ^ a % p = 2 ^ (2 * a * r) % p := by
    rw [← Nat.pow_mod, ← pow_mul, ← Nat.pow_mod, show (4 : ℕ) = 2 ^ 2 by norm_num, ← pow_mul]
    congr 2; ring
  rw [e1, Nat.mod_eq_of_lt (show 1 < p by omega)] at h1 h2
  rw [← Nat.pow_mod, ← pow_mul, Nat.mul_comm] at h2
  have hodd : p % 2 = 1 := by rw [hp, Nat.mul_assoc, Nat.mul_assoc]; omega
  obtain ⟨l, hl, hlp, hql⟩ := demytko_factor hq hpR hodd (by omega) h1 h2
  -- l ≡ 1 (mod 2q)
  have hl2 := hl.two_le
  have hlodd : l % 2 = 1 := by
    rcases hl.eq_two_or_odd with h2' | h2'
    · subst h2'; obtain ⟨c, hc⟩ := hlp; omega
    · exact h2'
  have hcop : Nat.Coprime 2 q := (Nat.coprime_primes Nat.prime_two hq).2 (by omega)
  have h2ql : 2 * q ∣ l - 1 := Nat.Coprime.mul_dvd_of_dvd_of_dvd hcop (Nat.dvd_of_mod_eq_zero (by omega)) hql
  have hlge : 2 * q + 1 ≤ l := by have := Nat.le_of_dvd (by omega) h2ql; omega
  have hlmod : l % (2 * q) = 1 := by
    obtain ⟨u, hu⟩ := h2ql
    have : l = 2 * q * u + 1 := by omega
    rw [this, Nat.mul_add_mod]; exact Nat.mod_eq_of_lt (by omega)
  have hpmod : p % (2 * q) = 1 := by
    rw [hp, Nat.mul_assoc (2 * q), Nat.mul_add_mod]; exact Nat.mod_eq_of_lt (by omega)
  obtain ⟨m, hm⟩ := hlp
  by_cases hm1 : m = 1
  · rw [hm, hm1, Nat.mul_one]; exact hl
  · exfalso
    have hm0 : m ≠ 0 := by rintro rfl; omega
    have hmmod : m % (2 * q) = 1 := by
      have := hpmod
      rw [hm, Nat.mul_mod, hlmod, Nat.one_mul, Nat.mod_mod] at this
      exact this
    have hmge : 2 * q + 1 ≤ m := by
      have hd := Nat.div_add_mod m (2 * q)
      rw [hmmod] at hd
      have : m / (2 * q) ≠ 0 := by
        intro h0; rw [h0] at hd; omega
      have : 2 * q * 1 ≤ 2 * q * (m / (2 * q)) := Nat.mul_le_mul_left _ (Nat.pos_of_ne_zero this)
      omega
    have hge : (2 * q + 1) * (2 * q + 1) ≤ p := by rw [hm]; exact Nat.mul_le_mul hlge hmge
    have hle : q * (2 * a * r) ≤ q * (4 * q) := Nat.mul_le_mul_left q (by omega)
    have hexp : (2 * q + 1) * (2 * q + 1) = q * (4 * q) + 4 * q + 1 := by ring
    omega

/-! ### MAIN: the number priExtendPrime2 returns is prime -/

/-- With the documented preconditions (q an odd prime, a > 0, 2 ≤ l ≤ 2·bitlen q) every value priExtendPrime2 returns
    is a PRIME with exactly l bits, ≡ 1 (mod 2q), and 2·q·a divides p − 1.  There is no hypothesis on the tape, on
    `trials`, on `base_count` (≤ 1024 = priBaseSize) or on the fuel: the statement holds for every generator output. -/
theorem priExtendPrime2_prime (W l q a : Nat) (trials : Option Nat) (baseCount : Nat) (tape : List UInt8) (fuel p : Nat)
    (hW : W = 16 ∨ W = 32 ∨ W = 64) (hbc : baseCount ≤ 1024) (hl2 : 2 ≤ l) (ha : 0 < a)
    (hq : Nat.Prime q) (hq2 : q % 2 = 1) (hl : l ≤ 2 * bitSize q)
    (h : (priExtendPrime2 W l q a trials baseCount tape fuel).1 = some p) :
    Nat.Prime p ∧ bitSize p = l ∧ p % (2 * q) = 1 ∧ (2 * q * a) ∣ (p - 1) := by
  have hq0 := hq.pos
  obtain ⟨r, hp, hb, hd⟩ :=
    priExtendPrime2_found W l q a trials baseCount tape fuel p hW hbc hl2 (Nat.mul_pos hq0 ha) h
  have hk : 1 ≤ bitSize q := by unfold bitSize; rw [if_neg (by omega)]; omega
  have hqlo : 2 ^ (bitSize q - 1) ≤ q := ((bitSize_eq_iff q (bitSize q) hk).1 rfl).1
  have hplt : p < 2 ^ l := by have := bitSize_lt p; rwa [hb] at this
  have hpow : 2 ^ l ≤ 2 ^ (bitSize q - 1) * 2 ^ (bitSize q + 1) := by
    rw [← Nat.pow_add]; exact Nat.pow_le_pow_right (by decide) (by omega)
  have hR : 2 * a * r < 4 * q + 1 := by
    have h1 : q * (2 * a * r) < q * 2 ^ (bitSize q + 1) := by
      have e : p = q * (2 * a * r) + 1 := by rw [hp]; ring
      have := Nat.mul_le_mul_right (2 ^ (bitSize q + 1)) hqlo
      omega
    have h2 := Nat.lt_of_mul_lt_mul_left h1
    have h3 : 2 ^ (bitSize q + 1) = 4 * 2 ^ (bitSize q - 1) := by
      rw [show bitSize q + 1 = (bitSize q - 1) + 2 by omega, Nat.pow_add]; omega
    omega
  refine ⟨demytko_sound p q a r hq hq2 hp hR hd, hb, ?_, ⟨r, by rw [hp, Nat.add_sub_cancel]⟩⟩
  have h2q : 1 < 2 * q := by omega
  rw [hp, Nat.mul_assoc (2 * q), Nat.mul_add_mod]
  exact Nat.mod_eq_of_lt h2q

/-- `priExtendPrime` (a = 1) -/
theorem priExtendPrime_prime (W l q : Nat) (trials : Option Nat) (baseCount : Nat) (tape : List UInt8) (fuel p : Nat)
    (hW : W = 16 ∨ W = 32 ∨ W = 64) (hbc : baseCount ≤ 1024) (hl2 : 2 ≤ l)
    (hq : Nat.Prime q) (hq2 : q % 2 = 1) (hl : l ≤ 2 * bitSize q)
    (h : (priExtendPrime W l q trials baseCount tape fuel).1 = some p) :
    Nat.Prime p ∧ bitSize p = l ∧ p % (2 * q) = 1 := by
  have := priExtendPrime2_prime W l q 1 trials baseCount tape fuel p hW hbc hl2 (by decide) hq hq2 hl h
  exact ⟨this.1, this.2.1, this.2.2.1⟩

/-! ### non-vacuity -/

/-- 688139 = 2·1009·341 + 1, 738589 = 2·1009·3·122 + 1, 920209 = 2·1009·456 + 1; l = 20 = 2·bitlen 1009 -/
example : priExtendPrime2 64 20 1009 1 (some 50) 10 [0x12, 0x34, 0x05] 60 = (some 688139, []) ∧
    priExtendPrime2 64 20 1009 3 (some 50) 10 [0x12, 0x34, 0x05] 60 = (some 738589, []) ∧
    priExtendPrime2 16 20 1009 1 none 100 [0xff, 0xff, 0xff, 1, 2, 3] 60 = (some 920209, []) ∧
    priExtendPrime2 64 20 1009 1 (some 2) 10 [0x12, 0x34, 0x05] 60 = (none, []) ∧
    priExtendPrime 64 20 1009 (some 0) 10 [0x12, 0x34, 0x05] 60 = (none, [0x12, 0x34, 0x05]) ∧
    bitSize 1009 = 10 := by decide +kernel

/-- Demytko's test on the returned value, on a composite of the same shape (2·1009·342 + 1 = 690157 = 11·62741) and the
    degenerate a·r = 0 -/
example : demytko 688139 1009 1 341 = true ∧ demytko 690157 1009 1 342 = false ∧ demytko 1 1009 0 5 = false := by
  decide +kernel

/-- the side condition `2·a·r < 4q + 1` cannot be dropped: 2^10 ≡ 1 (mod 341), q = 5, a = 1, r = 34: 341 = 11·31
    passes both congruences of the test -/
example : demytko 341 5 1 34 = true ∧ 341 = 2 * 5 * 1 * 34 + 1 ∧ 341 = 11 * 31 := by decide +kernel

example : priBasePrime 0 = 3 ∧ priBasePrime 1 = 5 ∧ priBasePrime 1023 = 8167 := by decide +kernel

end Bee2V.C12

/-
C12 — src/math/pp/pp_etc.c ppIsIrred, src/crypto/bels.c belsValM over Nat-coded GF(2)[x]
(bit i of the number = coefficient of x^i).  Executable, no Mathlib.
ppGCD / ppSqrMod (pp_gcd.c, pp_mod.c — not anchored here) are modelled by their specification:
Euclid's gcd and square-then-reduce.
-/
namespace Bee2V.C12

/-- degree + 1 (= wwBitSize) -/
def plen (a : Nat) : Nat := if a = 0 then 0 else Nat.log2 a + 1

/-- `ppDeg(a) = wwBitSize(a) - 1` (SIZE_MAX for a = 0 in C; not used for 0 here) -/
def pdeg (a : Nat) : Nat := plen a - 1

/-- a mod m in GF(2)[x] (m ≠ 0): cancel the leading term while deg a ≥ deg m -/
def pmodAux (m lm : Nat) : Nat → Nat → Nat
  | 0, a => a
  | fuel + 1, a => if plen a ≥ lm ∧ a ≠ 0 then pmodAux m lm fuel (a ^^^ (m <<< (plen a - lm))) else a

def pmod (a m : Nat) : Nat := if m = 0 then a else pmodAux m (plen m) (plen a) a

/-- Euclid -/
def pgcdAux : Nat → Nat → Nat → Nat
  | 0, a, _ => a
  | fuel + 1, a, b => if b = 0 then a else pgcdAux fuel b (pmod a b)

def pgcd (a b : Nat) : Nat := pgcdAux (plen a + plen b + 1) a b

/-- squaring = spreading the bits -/
def psqrAux : Nat → Nat → Nat → Nat → Nat
  | 0, _, _, acc => acc
  | fuel + 1, a, i, acc => psqrAux fuel (a / 2) (i + 1) (if a % 2 = 1 then acc ||| (1 <<< (2 * i)) else acc)

def psqr (a : Nat) : Nat := psqrAux (plen a) a 0 0

/-- carry-less product -/
def pmulAux : Nat → Nat → Nat → Nat → Nat
  | 0, _, _, acc => acc
  | fuel + 1, a, b, acc => pmulAux fuel (a <<< 1) (b / 2) (if b % 2 = 1 then acc ^^^ a else acc)

def pmul (a b : Nat) : Nat := pmulAux (plen b) a b 0

/-- main loop of ppIsIrred: `for (i = deg a / 2; i; --i) { flip bit 1 of h; if (h == 0) return FALSE;
    d = gcd(h, a); if (d != 1) return FALSE; flip bit 1 of h; if (i > 1) h = h² mod a; }` -/
def irredLoop (a : Nat) : Nat → Nat → Bool
  | 0, _ => true
  | i + 1, h =>
    let h1 := h ^^^ 2
    if h1 = 0 then false
    else if pgcd h1 a ≠ 1 then false
    else irredLoop a i (if i + 1 > 1 then pmod (psqr h) a else h)

/-- `bool_t ppIsIrred(const word a[], size_t n, void* stack)` -/
def ppIsIrred (a : Nat) : Bool :=
  if a ≤ 1 then false else irredLoop a (pdeg a / 2) 4

/-- `err_t belsValM(const octet m0[], size_t len)`: f0 = x^(8 len) + m0; 0 = ERR_OK, 505 = ERR_BAD_PUBKEY,
    109 = ERR_BAD_INPUT -/
def belsValM (m0 len : Nat) : Nat :=
  if len ≠ 16 ∧ len ≠ 24 ∧ len ≠ 32 then 109
  else if ppIsIrred (2 ^ (8 * len) + m0 % 2 ^ (8 * len)) then 0 else 505

/-- specification for small degrees: no divisor of degree 1 … deg/2 (trial division) -/
def irredTD (f : Nat) : Bool :=
  decide (f ≥ 2) && (List.range (2 ^ (pdeg f / 2 + 1))).all (fun d => d < 2 || pmod f d != 0)

end Bee2V.C12

/-
C12 — the seed-chain validators of ModelVal2.lean (size_t arithmetic modulo 2^S) decide the chain rule of the
headers over the integers (`Spec.chain`).  No Mathlib.
(History: an earlier version of the models had `go _ [] = true` and accepted [100, 60], which the C loop rejects
by `if (x[count-1] > 32) return ERR_BAD_SEED`; the models now have `go prev [] = decide (prev ≤ 32)`.)
-/
import Bee2V.C12.ModelVal2
namespace Bee2V.C12
open Bee2V.Gen.C12

namespace SeedAux

theorem chain_nil (m : Nat) : ¬ Spec.chain m [] := by
  rintro ⟨t, ht, _⟩
  simp at ht

theorem chain_single (m p : Nat) : Spec.chain m [p] ↔ p ≤ 32 := by
  constructor
  · rintro ⟨t, ht, _, _, _, hl⟩
    have h0 : t = 0 := by simpa using ht
    subst h0
    simpa using hl
  · intro h
    refine ⟨0, by simp, ?_, ?_, ?_, by simpa using h⟩
    · intro j h1 h2
      simp at h2
      omega
    · intro i hi; omega
    · intro i h1 h2; omega

/-- all entries zero, by index -/
theorem all_zero_iff (l : List Nat) : (∀ y ∈ l, y = 0) ↔ ∀ j, j < l.length → l.getD j 0 = 0 := by
  induction l with
  | nil => simp
  | cons a l ih =>
    constructor
    · intro h j hj
      cases j with
      | zero => simpa using h a (by simp)
      | succ j =>
        rw [List.getD_cons_succ]
        exact (ih.1 (fun y hy => h y (by simp [hy]))) j (by simpa using hj)
    · intro h y hy
      rcases List.mem_cons.1 hy with rfl | hy
      · simpa using h 0 (by simp)
      · refine ih.2 ?_ y hy
        intro j hj
        have := h (j + 1) (by simpa using hj)
        rwa [List.getD_cons_succ] at this

/-- unfolding `Spec.chain` at the head: either the chain ends at the head (head ≤ 32, zeros follow) or the next
    entry continues it -/
theorem chain_cons_cons (m p x : Nat) (rest : List Nat) :
    Spec.chain m (p :: x :: rest) ↔
      (p ≤ 32 ∧ ∀ y ∈ x :: rest, y = 0) ∨
      (16 < x ∧ p ≤ 2 * x ∧ 5 * x + m < 4 * p ∧ Spec.chain m (x :: rest)) := by
  constructor
  · rintro ⟨t, ht, hz, hs, hg, hl⟩
    cases t with
    | zero =>
      left
      refine ⟨by simpa using hl, ?_⟩
      rw [all_zero_iff]
      intro j hj
      have := hz (j + 1) (by omega) (by simpa using hj)
      rwa [List.getD_cons_succ] at this
    | succ t =>
      right
      have h0 := hs 0 (by omega)
      have h1 := hg 1 (by omega) (by omega)
      simp only [List.getD_cons_succ, List.getD_cons_zero, Nat.zero_add] at h0 h1
      refine ⟨h1, h0.1, h0.2, t, by simpa using ht, ?_, ?_, ?_, ?_⟩
      · intro j h1 h2
        have := hz (j + 1) (by omega) (by simpa using h2)
        rwa [List.getD_cons_succ] at this
      · intro i hi
        have := hs (i + 1) (by omega)
        simpa only [List.getD_cons_succ] using this
      · intro i hi1 hi2
        have := hg (i + 1) (by omega) (by omega)
        rwa [List.getD_cons_succ] at this
      · rwa [List.getD_cons_succ] at hl
  · rintro (⟨hp, hz⟩ | ⟨hx, h1, h2, t, ht, hz, hs, hg, hl⟩)
    · rw [all_zero_iff] at hz
      refine ⟨0, by simp, ?_, ?_, ?_, by simpa using hp⟩
      · intro j h1 h2
        obtain ⟨j, rfl⟩ : ∃ k, j = k + 1 := ⟨j - 1, by omega⟩
        rw [List.getD_cons_succ]
        exact hz j (by simpa using h2)
      · intro i hi; omega
      · intro i h1 h2; omega
    · refine ⟨t + 1, by simpa using ht, ?_, ?_, ?_, ?_⟩
      · intro j h1 h2
        obtain ⟨j, rfl⟩ : ∃ k, j = k + 1 := ⟨j - 1, by omega⟩
        rw [List.getD_cons_succ]
        exact hz j (by omega) (by simpa using h2)
      · intro i hi
        cases i with
        | zero => simpa using ⟨h1, h2⟩
        | succ i =>
          have := hs i (by omega)
          simpa only [List.getD_cons_succ] using this
      · intro i hi1 hi2
        obtain ⟨i, rfl⟩ : ∃ k, i = k + 1 := ⟨i - 1, by omega⟩
        rw [List.getD_cons_succ]
        cases i with
        | zero => simpa using hx
        | succ i => exact hg (i + 1) (by omega) (by omega)
      · rwa [List.getD_cons_succ]

/-- the size_t test of one chain step is the integer test, when the previous entry is below SIZE_MAX/5 and
    the subtraction of the margin does not wrap -/
theorem step_iff (M m prev x : Nat) (hprev : prev < (M - 1) / 5) (hm : m ≤ 4 * prev) :
    ¬ (x ≥ (M - 1) / 5 ∨ prev > 2 * x % M ∨ 5 * x % M ≥ (4 * prev % M + M - m) % M) ↔
      prev ≤ 2 * x ∧ 5 * x + m < 4 * prev := by
  by_cases hx : x ≥ (M - 1) / 5
  · simp only [hx, true_or, not_true_eq_false, false_iff]
    omega
  · have e1 : 2 * x % M = 2 * x := Nat.mod_eq_of_lt (by omega)
    have e2 : 5 * x % M = 5 * x := Nat.mod_eq_of_lt (by omega)
    have e3 : 4 * prev % M = 4 * prev := Nat.mod_eq_of_lt (by omega)
    have e4 : (4 * prev + M - m) % M = 4 * prev - m := by
      rw [show 4 * prev + M - m = (4 * prev - m) + M by omega, Nat.add_mod_right]
      exact Nat.mod_eq_of_lt (by omega)
    rw [e1, e2, e3, e4]
    omega

/-- the loop of the validators from an entry `prev` on -/
theorem go_iff (M m : Nat) (hm : m ≤ 64) : ∀ (rest : List Nat) (prev : Nat),
    prev < (M - 1) / 5 → m ≤ 4 * prev →
    (chainOkM.go m M prev rest = true ↔ Spec.chain m (prev :: rest)) := by
  intro rest
  induction rest with
  | nil =>
    intro prev _ _
    simp [chainOkM.go, chain_single]
  | cons x rest ih =>
    intro prev hprev hmp
    rw [chain_cons_cons]
    unfold chainOkM.go
    by_cases hx : x > 16
    · rw [if_pos hx]
      have hno : ¬ (prev ≤ 32 ∧ ∀ y ∈ x :: rest, y = 0) := by
        rintro ⟨_, hz⟩
        have := hz x (by simp)
        omega
      have hstep := step_iff M m prev x hprev hmp
      by_cases hc : x ≥ (M - 1) / 5 ∨ prev > 2 * x % M ∨ 5 * x % M ≥ (4 * prev % M + M - m) % M
      · rw [if_pos hc]
        have : ¬ (prev ≤ 2 * x ∧ 5 * x + m < 4 * prev) := fun h => (hstep.2 h) hc
        simp only [Bool.false_eq_true, false_iff]
        rintro (h | ⟨_, h1, h2, _⟩)
        · exact hno h
        · exact this ⟨h1, h2⟩
      · rw [if_neg hc]
        have hs := hstep.1 hc
        have hxlt : x < (M - 1) / 5 := by omega
        rw [ih x hxlt (by have := hm; omega)]
        constructor
        · intro h; exact Or.inr ⟨hx, hs.1, hs.2, h⟩
        · rintro (h | ⟨_, _, _, h⟩)
          · exact absurd h hno
          · exact h
    · rw [if_neg hx]
      have hno : ¬ (16 < x ∧ prev ≤ 2 * x ∧ 5 * x + m < 4 * prev ∧ Spec.chain m (x :: rest)) := fun h => hx h.1
      by_cases hp : prev > 32
      · rw [if_pos hp]
        simp only [Bool.false_eq_true, false_iff]
        rintro (⟨h, _⟩ | h)
        · omega
        · exact hno h
      · rw [if_neg hp]
        simp only [List.all_eq_true, beq_iff_eq]
        constructor
        · intro h; exact Or.inl ⟨by omega, h⟩
        · rintro (⟨_, h⟩ | h)
          · exact h
          · exact absurd h hno

end SeedAux

open SeedAux

/-- the chain validators (stb99DiVal / stb99RiVal / pfokLiVal after the checks of the first entry) decide the
    chain rule of the headers.  Hypotheses: the first entry is below SIZE_MAX/5 (stb99DiVal checks SIZE_MAX/8;
    r, l − 1 are small) and the subtraction `4 x₀ − margin` does not wrap (the callers guarantee x₀ > 16 ≥ margin).
    Every later accepted entry is smaller than its predecessor, so the C guard `x[i] >= SIZE_MAX / 5` rejects
    nothing that the integer rule accepts. -/
theorem chainOkM_iff (S margin : Nat) (xs : List Nat) (hm : margin ≤ 64)
    (h0 : xs.headD 0 < (2 ^ S - 1) / 5) (hm0 : margin ≤ 4 * xs.headD 0) :
    chainOkM S margin xs = true ↔ Spec.chain margin xs := by
  cases xs with
  | nil => simp [chainOkM, chain_nil]
  | cons x0 rest =>
    simp only [List.headD_cons] at h0 hm0
    unfold chainOkM
    cases rest with
    | nil => simp [chain_single]
    | cons x rest =>
      simp only [List.isEmpty_cons, Bool.false_eq_true, if_false]
      exact go_iff (2 ^ S) margin hm (x :: rest) x0 h0 hm0

/-- every entry of an accepted chain after the first is smaller than its predecessor (so the C test
    `x[i] >= SIZE_MAX / 5` rejects nothing the integer rule accepts) -/
theorem Spec.chain_decreasing (margin : Nat) (xs : List Nat) (h : Spec.chain margin xs) :
    ∃ t, t < xs.length ∧ (∀ i, i < t → xs.getD (i + 1) 0 < xs.getD i 0) ∧
      (∀ j, t < j → j < xs.length → xs.getD j 0 = 0) := by
  obtain ⟨t, ht, hz, hs, _, _⟩ := h
  exact ⟨t, ht, fun i hi => by have := hs i hi; omega, hz⟩

/-! ### stb99SeedVal / pfokSeedVal -/

namespace SeedAux

theorem zi_iff (zi : List Nat) :
    (zi.all (fun z => decide (z ≠ 0 ∧ z < 65257))) = true ↔ ∀ z ∈ zi, 1 ≤ z ∧ z ≤ 65256 := by
  simp only [List.all_eq_true, decide_eq_true_eq]
  constructor
  · intro h z hz; have := h z hz; omega
  · intro h z hz; have := h z hz; omega

theorem find_fst (lr : List (Nat × Nat)) (l : Nat) (p : Nat × Nat)
    (h : lr.find? (fun q => decide (q.1 = l)) = some p) : p.1 = l ∧ p ∈ lr := by
  have h1 := List.find?_some h
  have h2 := List.mem_of_find?_eq_some h
  exact ⟨by simpa using h1, h2⟩

end SeedAux

/-- `stb99SeedVal` returns ERR_OK exactly for the seeds of the header: l in the table (r = r(l)),
    zi ∈ {1 … 65256}, l/2 ≤ di[0] ≤ (7l − r)/8, the chain rule for di (margin of stb99DiVal), ri[0] = r, the chain
    rule for ri (margin of stb99RiVal).  `hl`, `hr`: sizes for which size_t arithmetic is exact
    (l ≥ 33 so that di[0] > 16; r > 16). -/
theorem stb99SeedVal_iff (S : Nat) (lr : List (Nat × Nat)) (l : Nat) (zi di ri : List Nat)
    (hRi : stb99RiMargin ≤ 16)
    (hl : 32 < l) (hlS : 7 * l + 9 ≤ 2 ^ S)
    (hr : ∀ p ∈ lr, 16 < p.2 ∧ p.2 < (2 ^ S - 1) / 5) :
    stb99SeedVal S lr l zi di ri = 0 ↔
      ∃ r, lr.find? (·.1 = l) = some (l, r) ∧ (∀ z ∈ zi, 1 ≤ z ∧ z ≤ 65256) ∧
        l ≤ 2 * di.headD 0 ∧ 8 * di.headD 0 ≤ 7 * l - r ∧ Spec.chain stb99DiMargin di ∧
        ri.headD 0 = r ∧ Spec.chain stb99RiMargin ri := by
  have hDi : stb99DiMargin ≤ 16 := by decide
  unfold stb99SeedVal
  cases hf : lr.find? (fun q => decide (q.1 = l)) with
  | none => simp
  | some p =>
    obtain ⟨l', r⟩ := p
    obtain ⟨hl', hmem⟩ := find_fst lr l (l', r) hf
    simp only at hl'
    subst hl'
    have hr' := hr _ hmem
    simp only at hr'
    simp only [Option.some.injEq, Prod.mk.injEq, true_and, exists_eq_left']
    rw [← zi_iff]
    cases hz : zi.all (fun z => decide (z ≠ 0 ∧ z < 65257))
    · simp
    · simp only [Bool.not_true, Bool.false_eq_true, if_false, true_and]
      by_cases hd : di.headD 0 ≥ (2 ^ S - 1) / 8 ∨ l' > 2 * di.headD 0 ∨ 8 * di.headD 0 > 7 * l' - r
      · rw [if_pos hd]
        simp only [show (524 : Nat) = 0 ↔ False by decide, false_iff]
        rintro ⟨h1, h2, _⟩
        omega
      · rw [if_neg hd]
        have hd1 : l' ≤ 2 * di.headD 0 ∧ 8 * di.headD 0 ≤ 7 * l' - r := by omega
        have hd0 : di.headD 0 < (2 ^ S - 1) / 5 := by omega
        rw [← chainOkM_iff S stb99DiMargin di (by omega) hd0 (by omega)]
        cases hcd : chainOkM S stb99DiMargin di
        · simp
        · simp only [Bool.not_true, Bool.false_eq_true, if_false, hd1, true_and]
          by_cases hr0 : ri.headD 0 = r
          · have hr1 : ri.headD 0 < (2 ^ S - 1) / 5 := by omega
            rw [← chainOkM_iff S stb99RiMargin ri (by omega) hr1 (by omega), if_neg (fun h => h hr0)]
            cases hcr : chainOkM S stb99RiMargin ri
            · simp
            · simpa using hr0
          · rw [if_pos hr0]
            simp only [show (524 : Nat) = 0 ↔ False by decide, false_iff]
            exact fun h => hr0 h.1

/-- the instance for 64-bit size_t -/
theorem stb99SeedVal64_iff (lr : List (Nat × Nat)) (l : Nat) (zi di ri : List Nat)
    (hRi : stb99RiMargin ≤ 16) (hl : 32 < l) (hl' : l < 2 ^ 60)
    (hr : ∀ p ∈ lr, 16 < p.2 ∧ p.2 < 2 ^ 60) :
    stb99SeedVal 64 lr l zi di ri = 0 ↔
      ∃ r, lr.find? (·.1 = l) = some (l, r) ∧ (∀ z ∈ zi, 1 ≤ z ∧ z ≤ 65256) ∧
        l ≤ 2 * di.headD 0 ∧ 8 * di.headD 0 ≤ 7 * l - r ∧ Spec.chain stb99DiMargin di ∧
        ri.headD 0 = r ∧ Spec.chain stb99RiMargin ri :=
  stb99SeedVal_iff 64 lr l zi di ri hRi hl (by omega) (fun p hp => by have := hr p hp; omega)

/-- `pfokSeedVal` returns ERR_OK exactly for the seeds of the header -/
theorem pfokSeedVal_iff (S : Nat) (lr : List (Nat × Nat)) (l : Nat) (zi li : List Nat)
    (hl : 17 < l) (hlS : l - 1 < (2 ^ S - 1) / 5) :
    pfokSeedVal S lr l zi li = 0 ↔
      (∃ p ∈ lr, p.1 = l) ∧ (∀ z ∈ zi, 1 ≤ z ∧ z ≤ 65256) ∧ li.headD 0 = l - 1 ∧
        Spec.chain pfokLiMargin li := by
  have hLi : pfokLiMargin ≤ 16 := by decide
  unfold pfokSeedVal
  rw [← zi_iff]
  cases h1 : lr.any (fun q => decide (q.1 = l))
  · have : ¬ ∃ p ∈ lr, p.1 = l := by
      rintro ⟨p, hp, hpl⟩
      have : lr.any (fun q => decide (q.1 = l)) = true := List.any_eq_true.2 ⟨p, hp, by simpa using hpl⟩
      rw [h1] at this
      exact Bool.false_ne_true this
    simp [this]
  · have hex : ∃ p ∈ lr, p.1 = l := by
      obtain ⟨p, hp, hpl⟩ := List.any_eq_true.1 h1
      exact ⟨p, hp, by simpa using hpl⟩
    simp only [Bool.not_true, Bool.false_eq_true, if_false, hex, true_and]
    cases hz : zi.all (fun z => decide (z ≠ 0 ∧ z < 65257))
    · simp
    · simp only [Bool.not_true, Bool.false_eq_true, if_false, true_and]
      by_cases h0 : li.headD 0 = l - 1
      · have hl0 : li.headD 0 < (2 ^ S - 1) / 5 := by omega
        rw [← chainOkM_iff S pfokLiMargin li (by omega) hl0 (by omega), if_neg (fun h => h h0)]
        cases hc : chainOkM S pfokLiMargin li
        · simp
        · simpa using h0
      · rw [if_pos h0]
        simp only [show (524 : Nat) = 0 ↔ False by decide, false_iff]
        exact fun h => h0 h.1

/-! ### non-vacuity: the standard chains (stb99SeedAdj / pfokSeedAdj for l = 638) -/

example : chainOkM 64 stb99DiMargin [320, 161, 81, 41, 21, 0, 0, 0, 0, 0, 0, 0, 0, 0, 0, 0, 0, 0] = true := by decide
example : chainOkM 64 16 [143, 72, 37, 19, 0, 0, 0, 0, 0, 0] = true ∧
    chainOkM 64 0 [143, 72, 37, 19, 0, 0, 0, 0, 0, 0] = true := by decide
-- 5·161 + 16 = 821 < 1280 but 5·257 + 16 ≥ 4·320; a chain that does not end in {17 … 32}; a non-zero tail;
-- a chain that reaches the end of the array with a last entry > 32
example : chainOkM 64 16 [320, 257, 0] = false ∧ chainOkM 64 16 [320, 161, 0] = false ∧
    chainOkM 64 16 [320, 161, 81, 41, 21, 0, 1] = false ∧ chainOkM 64 16 [100, 60] = false ∧
    chainOkM 64 16 [100, 60, 32] = true := by decide
-- the margin matters: 5·20 = 100 < 4·27 = 108 but 100 + 16 ≥ 108
example : chainOkM 64 0 [27, 20, 0] = true ∧ chainOkM 64 16 [27, 20, 0] = false := by decide
-- size_t wrap-around: 5·x wraps to a small value, the guard x ≥ SIZE_MAX/5 rejects
example : chainOkM 64 16 [2 ^ 63, (2 ^ 64 + 4) / 5 * 1, 0] = false := by decide

example : stb99SeedVal 64 [(638, 143), (766, 154)] 638 [1, 2, 3]
    [320, 161, 81, 41, 21, 0, 0, 0, 0, 0, 0, 0, 0, 0, 0, 0, 0, 0] [143, 72, 37, 19, 0, 0, 0, 0, 0, 0] = 0 := by decide
example : stb99SeedVal 64 [(638, 143), (766, 154)] 638 [1, 2, 0]
    [320, 161, 81, 41, 21, 0, 0, 0, 0, 0, 0, 0, 0, 0, 0, 0, 0, 0] [143, 72, 37, 19, 0, 0, 0, 0, 0, 0] = 524 := by decide
example : stb99SeedVal 64 [(638, 143), (766, 154)] 638 [1, 2, 3]
    [318, 161, 81, 41, 21, 0, 0, 0, 0, 0, 0, 0, 0, 0, 0, 0, 0, 0] [143, 72, 37, 19, 0, 0, 0, 0, 0, 0] = 524 := by decide
example : pfokSeedVal 64 [(638, 130)] 638 [1, 2, 3]
    [637, 319, 160, 81, 41, 21, 0, 0, 0, 0, 0, 0, 0, 0, 0, 0, 0, 0, 0, 0] = 0 := by decide
example : Spec.chain 16 [320, 161, 81, 41, 21, 0, 0, 0, 0, 0, 0, 0, 0, 0, 0, 0, 0, 0] :=
  (chainOkM_iff 64 16 _ (by decide) (by decide) (by decide)).1 (by decide)

end Bee2V.C12

/-
C12 — priNextPrime (multi-word): the incremental sieve `stepMods` keeps the residues of the candidate exact,
the search loop returns an odd candidate ≥ a of the same bit length that passes the sieve (adjusted base count)
and the Miller–Rabin test on the tape at that point; every earlier candidate was rejected by the sieve or by
priRMTestT.  No Mathlib.
-/
import Bee2V.C12.ModelPri
import Bee2V.C12.LemmasSieve
import Bee2V.C12.LemmasNext
namespace Bee2V.C12
open Bee2V.Gen.C12

namespace NextPAux

/-- residues of p modulo base[s], …, base[s+k-1] -/
def res (p s k : Nat) : List Nat := (List.range' s k).map (fun i => p % base[i]!)

theorem res_succ (p s k : Nat) : res p s (k + 1) = (p % base[s]!) :: res p (s + 1) k := by
  simp [res, List.range'_succ]

theorem res_zero_eq (p bc : Nat) : res p 0 bc = (List.range bc).map (fun i => p % base[i]!) := by
  simp [res, List.range_eq_range']

/-- one entry of the incremental update -/
theorem step_one (p b : Nat) (hb : 3 ≤ b) :
    (p + 2) % b = if p % b < b - 2 then p % b + 2 else if p % b = b - 1 then 1 else 0 := by
  have hlt := Nat.mod_lt p (show 0 < b by omega)
  rw [Nat.add_mod, Nat.mod_eq_of_lt (show 2 < b by omega)]
  generalize p % b = m at *
  split
  · exact Nat.mod_eq_of_lt (by omega)
  · split
    · next h =>
      rw [h, show b - 1 + 2 = 1 + b by omega, Nat.add_mod_right]
      exact Nat.mod_eq_of_lt (by omega)
    · have : m + 2 = b := by omega
      rw [this, Nat.mod_self]

theorem stepMods_gen (p : Nat) : ∀ (k s : Nat), s + k ≤ 1024 →
    stepMods (res p s k) s = (res (p + 2) s k, (res (p + 2) s k).all (fun x => decide (x ≠ 0))) := by
  intro k
  induction k with
  | zero => intro s _; simp [res, stepMods]
  | succ k ih =>
    intro s hs
    have hb := base_ge_3 s (by omega)
    rw [res_succ, res_succ, stepMods, ih (s + 1) (by omega)]
    simp only [List.all_cons]
    rw [step_one p _ hb]
    have hlt := Nat.mod_lt p (show 0 < base[s]! by omega)
    generalize p % base[s]! = m at hlt ⊢
    generalize base[s]! = b at hb hlt ⊢
    by_cases h1 : m < b - 2
    · simp [h1]
    · by_cases h2 : m = b - 1
      · have h1' : ¬ b - 1 < b - 2 := by omega
        simp [h2, h1']
      · simp [h1, h2]

theorem res_all_iff (p bc : Nat) :
    (res p 0 bc).all (fun x => decide (x ≠ 0)) = true ↔ ∀ i, i < bc → p % base[i]! ≠ 0 := by
  simp only [res, List.all_eq_true, List.mem_map, List.mem_range'_1, decide_eq_true_eq,
    forall_exists_index, and_imp]
  constructor
  · intro h i hi; exact h _ i (Nat.zero_le _) (by omega) rfl
  · intro h x i _ hi hx; subst hx; exact h i (by omega)

theorem bitSize_mono (a b : Nat) (h : a ≤ b) : bitSize a ≤ bitSize b :=
  bitSize_le_of_lt a _ (Nat.lt_of_le_of_lt h (bitSize_lt b))

/-- the adjustment of priNextPrime (`>=`): the dropped primes are ≥ a … -/
theorem adjustT_dropped (a : Nat) : ∀ bc i, adjustBaseCount a true bc ≤ i → i < bc → a ≤ base[i]! := by
  intro bc
  induction bc with
  | zero => intro i _ h; omega
  | succ bc ih =>
    intro i h1 h2
    simp only [adjustBaseCount, true_and] at h1
    by_cases hge : base[bc]! > a ∨ base[bc]! = a
    · rw [if_pos hge] at h1
      by_cases hi : i = bc
      · subst hi; omega
      · exact ih i h1 (by omega)
    · rw [if_neg hge] at h1
      omega

/-- … and the kept ones are < a (the table is increasing) -/
theorem adjustT_kept (a : Nat) : ∀ bc, bc ≤ 1024 → ∀ i, i < adjustBaseCount a true bc → base[i]! < a := by
  intro bc
  induction bc with
  | zero => intro _ i h; simp [adjustBaseCount] at h
  | succ bc ih =>
    intro hbc i h
    simp only [adjustBaseCount, true_and] at h
    by_cases hge : base[bc]! > a ∨ base[bc]! = a
    · rw [if_pos hge] at h
      exact ih (by omega) i h
    · rw [if_neg hge] at h
      by_cases hi : i = bc
      · subst hi; omega
      · have := base_sorted i bc (by omega) (by omega)
        omega

end NextPAux

open NextPAux

/-- `stepMods`: from the residues of p to the residues of p + 2; the flag = "no residue is 0" -/
theorem stepMods_spec (p bc : Nat) (hbc : bc ≤ 1024) :
    stepMods ((List.range bc).map (fun i => p % base[i]!)) 0 =
      ((List.range bc).map (fun i => (p + 2) % base[i]!),
       ((List.range bc).map (fun i => (p + 2) % base[i]!)).all (fun x => decide (x ≠ 0))) := by
  rw [← res_zero_eq, ← res_zero_eq]
  exact stepMods_gen p bc 0 (by omega)

example : stepMods [1 % 3, 1 % 5, 1 % 7] 0 = ([0, 3, 3], false) ∧ stepMods [0, 3, 3] 0 = ([2, 0, 5], false) ∧
    stepMods [2, 0, 5] 0 = ([1, 2, 0], false) := by decide +kernel

/-- the search loop, started in a state where `mods` are the residues of p and `ok` says that none is 0:
    a returned p' = p + 2j stays inside the array and the bit length, passes the sieve and priRMTestT on some tape
    (the tape at that point); each earlier candidate was divisible by a base prime or rejected by priRMTestT;
    at most `trials` candidates are looked at. -/
theorem nextLoop_some (nW l iter bc : Nat) (hbc : bc ≤ 1024) :
    ∀ (fuel : Nat) (trials : Option Nat) (p : Nat) (tape : List Nat) (p' : Nat),
    p < 2 ^ nW → bitSize p ≤ l →
    nextLoop nW l iter fuel trials p (res p 0 bc) ((res p 0 bc).all (fun x => decide (x ≠ 0))) tape = some p' →
    ∃ j, p' = p + 2 * j ∧ (∀ n, trials = some n → j < n) ∧ p' < 2 ^ nW ∧ bitSize p' ≤ l ∧
      (∀ i, i < bc → p' % base[i]! ≠ 0) ∧ (∃ tape', (priRMTestT p' iter tape').1 = true) ∧
      ∀ k, k < j → (∃ i, i < bc ∧ (p + 2 * k) % base[i]! = 0) ∨
        ∃ tape'', (priRMTestT (p + 2 * k) iter tape'').1 = false := by
  intro fuel
  induction fuel with
  | zero => intro trials p tape p' _ _ h; simp [nextLoop] at h
  | succ fuel ih =>
    intro trials p tape p' hp hb h
    rw [nextLoop] at h
    by_cases ht : trials = some 0
    · simp [ht] at h
    · rw [if_neg ht] at h
      -- the continuation after a rejected candidate
      have cont : ∀ tape1,
          (∃ i, i < bc ∧ p % base[i]! = 0) ∨ (∃ tape'', (priRMTestT p iter tape'').1 = false) →
          (if p + 2 ≥ 2 ^ nW ∨ bitSize (p + 2) > l then none
            else
              match stepMods (res p 0 bc) 0 with
              | (mods', ok') => nextLoop nW l iter fuel (trials.map (· - 1)) (p + 2) mods' ok' tape1) = some p' →
          ∃ j, p' = p + 2 * j ∧ (∀ n, trials = some n → j < n) ∧ p' < 2 ^ nW ∧ bitSize p' ≤ l ∧
            (∀ i, i < bc → p' % base[i]! ≠ 0) ∧ (∃ tape', (priRMTestT p' iter tape').1 = true) ∧
            ∀ k, k < j → (∃ i, i < bc ∧ (p + 2 * k) % base[i]! = 0) ∨
              ∃ tape'', (priRMTestT (p + 2 * k) iter tape'').1 = false := by
        intro tape1 hrej h1
        by_cases hout : p + 2 ≥ 2 ^ nW ∨ bitSize (p + 2) > l
        · rw [if_pos hout] at h1; simp at h1
        · rw [if_neg hout, stepMods_gen p bc 0 (by omega)] at h1
          simp only at h1
          obtain ⟨j, hj, htr, h2, h3, h4, h5, h6⟩ := ih _ (p + 2) tape1 p' (by omega) (by omega) h1
          refine ⟨j + 1, by omega, ?_, h2, h3, h4, h5, ?_⟩
          · intro n hn
            subst hn
            have := htr (n - 1) rfl
            have : n ≠ 0 := fun h0 => ht (by rw [h0])
            omega
          · intro k hk
            cases k with
            | zero => simpa using hrej
            | succ k =>
              have := h6 k (by omega)
              rwa [show p + 2 + 2 * k = p + 2 * (k + 1) by omega] at this
      cases hok : (res p 0 bc).all (fun x => decide (x ≠ 0))
      · -- the sieve rejects p
        rw [hok] at h
        simp only [Bool.false_eq_true, if_false] at h
        have hrej : ∃ i, i < bc ∧ p % base[i]! = 0 := by
          apply Classical.byContradiction
          intro hno
          have : (res p 0 bc).all (fun x => decide (x ≠ 0)) = true :=
            (res_all_iff p bc).2 (fun i hi hz => hno ⟨i, hi, hz⟩)
          rw [hok] at this
          exact Bool.false_ne_true this
        exact cont tape (Or.inl hrej) h
      · rw [hok] at h
        simp only [if_true] at h
        rcases hrm : priRMTestT p iter tape with ⟨pass, tape1⟩
        rw [hrm] at h
        simp only at h
        cases pass
        · simp only [Bool.false_eq_true, if_false] at h
          exact cont tape1 (Or.inr ⟨tape, by rw [hrm]⟩) h
        · simp only [if_true, Option.some.injEq] at h
          subst h
          refine ⟨0, rfl, ?_, hp, hb, (res_all_iff p bc).1 hok, ⟨tape, by rw [hrm]⟩, fun k hk => by omega⟩
          intro n hn
          have : n ≠ 0 := fun h0 => ht (by rw [hn, h0])
          omega

/-- the form of the brief: `mods`, `ok` given by the invariant -/
theorem nextLoop_spec (nW l iter bc fuel : Nat) (trials : Option Nat) (p : Nat) (mods : List Nat) (ok : Bool)
    (tape : List Nat) (p' : Nat) (hbc : bc ≤ 1024) (hp : p < 2 ^ nW) (hb : bitSize p ≤ l)
    (hmods : mods = (List.range bc).map (fun i => p % base[i]!))
    (hok : ok = mods.all (fun x => decide (x ≠ 0)))
    (h : nextLoop nW l iter fuel trials p mods ok tape = some p') :
    p ≤ p' ∧ (p' - p) % 2 = 0 ∧ p' < 2 ^ nW ∧ bitSize p' ≤ l ∧ (∀ i, i < bc → p' % base[i]! ≠ 0) ∧
      (∃ tape', (priRMTestT p' iter tape').1 = true) ∧
      (∀ n, trials = some n → p' < p + 2 * n) ∧
      ∀ x, p ≤ x → x < p' → (x - p) % 2 = 0 →
        (∃ i, i < bc ∧ x % base[i]! = 0) ∨ ∃ tape'', (priRMTestT x iter tape'').1 = false := by
  subst hok
  rw [← res_zero_eq] at hmods
  subst hmods
  obtain ⟨j, hj, htr, h2, h3, h4, h5, h6⟩ := nextLoop_some nW l iter bc hbc fuel trials p tape p' hp hb h
  refine ⟨by omega, by omega, h2, h3, h4, h5, ?_, ?_⟩
  · intro n hn; have := htr n hn; omega
  · intro x hx1 hx2 hx3
    have e : p + 2 * ((x - p) / 2) = x := by omega
    have hk : (x - p) / 2 < j := by omega
    have := h6 ((x - p) / 2) hk
    rwa [e] at this

/-- `priNextPrime … = some p`: p is odd, a ≤ p, of the bit length of a, no prime of the (adjusted) factor base divides
    it, it passes priRMTestT with `iter` rounds on some tape, and every odd x with a ≤ x < p was rejected by the
    sieve or by priRMTestT.  (Primality of p is not claimed: `priRMTest_of_prime` gives the converse direction.) -/
theorem priNextPrime_spec (W n a : Nat) (trials : Option Nat) (baseCount iter : Nat) (tape : List Nat) (fuel p : Nat)
    (hW : W = 16 ∨ W = 32 ∨ W = 64) (hbc : baseCount ≤ 1024) (ha : a < 2 ^ (n * W))
    (h : priNextPrime W n a trials baseCount iter tape fuel = some p) :
    let bc := if bitSize a ≤ W then adjustBaseCount (a ||| 1) true baseCount else baseCount
    2 ≤ bitSize a ∧ p % 2 = 1 ∧ a ≤ p ∧ p < 2 ^ (n * W) ∧ bitSize p = bitSize a ∧
      (∀ i, i < bc → p % base[i]! ≠ 0) ∧ (∃ tape', (priRMTestT p iter tape').1 = true) ∧
      (∀ t, trials = some t → p < (a ||| 1) + 2 * t) ∧
      ∀ x, x % 2 = 1 → a ≤ x → x < p →
        (∃ i, i < bc ∧ x % base[i]! = 0) ∨ ∃ tape'', (priRMTestT x iter tape'').1 = false := by
  intro bc
  unfold priNextPrime at h
  simp only at h
  by_cases hl : bitSize a ≤ 1
  · rw [if_pos hl] at h; simp at h
  · rw [if_neg hl] at h
    have hl2 : 2 ≤ bitSize a := by omega
    have hbs := bitSize_or_one a hl2
    have hbcle : bc ≤ 1024 := by
      show (if bitSize a ≤ W then adjustBaseCount (a ||| 1) true baseCount else baseCount) ≤ 1024
      split
      · exact Nat.le_trans (SieveAux.adjust_le _ _ _) hbc
      · exact hbc
    have hp0 : a ||| 1 < 2 ^ (n * W) := by
      have h1 : a ||| 1 < 2 ^ bitSize a := hbs ▸ bitSize_lt (a ||| 1)
      have h2 : 2 ^ bitSize a ≤ 2 ^ (n * W) := Nat.pow_le_pow_right (by decide) (bitSize_le_of_lt a _ ha)
      omega
    have hmods := priBaseMod_spec W (a ||| 1) bc hW hbcle
    obtain ⟨h1, h2, h3, h4, h5, h6, h7, h8⟩ :=
      nextLoop_spec (n * W) (bitSize a) iter bc fuel trials (a ||| 1) _ _ tape p hbcle hp0 (by omega) hmods rfl h
    have ho := or_one_eq a
    have hodd : (a ||| 1) % 2 = 1 := by rw [Nat.or_mod_two_eq_one]; right; rfl
    have hap : a ≤ p := by split at ho <;> omega
    refine ⟨hl2, by omega, hap, h3, ?_, h5, h6, h7, ?_⟩
    · have := bitSize_mono a p hap
      omega
    · intro x hx hax hxp
      have hge : a ||| 1 ≤ x := by split at ho <;> omega
      exact h8 x hge hxp (by omega)

/-- the adjusted base count made explicit: when a fits a word, exactly the base primes < a | 1 are sieved -/
theorem priNextPrime_sieved (W n a : Nat) (trials : Option Nat) (baseCount iter : Nat) (tape : List Nat) (fuel p : Nat)
    (hW : W = 16 ∨ W = 32 ∨ W = 64) (hbc : baseCount ≤ 1024) (ha : a < 2 ^ (n * W))
    (h : priNextPrime W n a trials baseCount iter tape fuel = some p) :
    ∀ i, i < baseCount → (bitSize a ≤ W → base[i]! < a ||| 1) → p % base[i]! ≠ 0 := by
  have hs := (priNextPrime_spec W n a trials baseCount iter tape fuel p hW hbc ha h).2.2.2.2.2.1
  intro i hi hlt
  apply hs i
  by_cases hw : bitSize a ≤ W
  · rw [if_pos hw]
    apply Classical.byContradiction
    intro hnot
    have := adjustT_dropped (a ||| 1) baseCount i (by omega) hi
    have := hlt hw
    omega
  · rw [if_neg hw]; exact hi

/-- non-vacuity: one-word values (adjusted base) and a two-word value; tape of bases 2, 3, 5, … -/
example : priNextPrime 16 1 90 none 10 2 [2, 3, 5, 7, 11, 13] 100 = some 97 ∧
    priNextPrime 16 1 24 (some 2) 10 2 [2, 3, 5, 7] 100 = none ∧
    priNextPrime 16 2 70000 none 10 2 [2, 3, 5, 7, 11, 13, 17, 19] 100 = some 70001 := by decide +kernel

end Bee2V.C12

import Bee2V.C12.ModelTm
import Bee2V.C12.ModelPri
import Bee2V.Base.Proto
import Bee2V.C12.DrvVal
import Bee2V.C12.DrvObj
/-! C12 driver: line protocol handlers (see docs/C12.md) -/
namespace Bee2V.C12.Drv
open Bee2V.C12 Bee2V.Proto

def b2s (b : Bool) : String := if b then "1" else "0"

/-- LE hex number → (value, octet length) -/
def numArg (s : String) : Option (Nat × Nat) := (parseHex s).map fun bs => (leNat bs, bs.length)

def putNum (v no : Nat) : String := toHex (natLE no v)

/-- split the tape octets into elements of `el` octets -/
def tapeOf (el : Nat) (bs : List UInt8) : List Nat :=
  if el = 0 then [] else
  let rec go (fuel : Nat) (bs : List UInt8) (acc : List Nat) : List Nat :=
    match fuel with
    | 0 => acc.reverse
    | fuel + 1 => if bs.length < el then acc.reverse else go fuel (bs.drop el) (leNat (bs.take el) :: acc)
  go (bs.length / el + 1) bs []

def wordsOf (W no : Nat) : Nat := let n := (8 * no + W - 1) / W; if n = 0 then 1 else n

def handleDate : List String → String
  | [h] =>
    match parseHex h with
    | some [a, b, c, d, e, f] => b2s (tmDateIsValid2 a b c d e f)
    | _ => "bad-op"
  | _ => "bad-op"

def handleDate3 : List String → String
  | [y, m, d] =>
    match parseNat y, parseNat m, parseNat d with
    | some y, some m, some d => b2s (tmDateIsValid y m d)
    | _, _, _ => "bad-op"
  | _ => "bad-op"

def handlePri (op : String) (W : Nat) (args : List String) : String :=
  match op, args with
  | "primew", [a] => match parseNat a with
    | some a => b2s (priIsPrimeW W (a % 2 ^ W))
    | none => "bad-op"
  | "nextw", [a] => match parseNat a with
    | some a => match priNextPrimeW W (a % 2 ^ W) with
      | some p => s!"1 {p}"
      | none => "0"
    | none => "bad-op"
  | "sieved", [a, bc] => match numArg a, parseNat bc with
    | some (a, _), some bc => b2s (priIsSieved W a bc)
    | _, _ => "bad-op"
  | "smooth", [a, bc] => match numArg a, parseNat bc with
    | some (a, _), some bc => if a = 0 then "refused" else b2s (priIsSmooth a bc)
    | _, _ => "bad-op"
  | "basemod", [a, c] => match numArg a, parseNat c with
    | some (a, _), some c =>
      if c > Bee2V.Gen.C12.base.size then "bad-op"
      else (priBaseMod W a c).foldl (fun s m => s ++ " " ++ toString m) (toString c)
    | _, _ => "bad-op"
  | "rm", [a, iter, tape] => match numArg a, parseNat iter, parseHex tape with
    | some (a, no), some iter, some tb =>
      let (r, rest) := priRMTestT a iter (tapeOf no tb)
      s!"{b2s r} {rest.length}"
    | _, _, _ => "bad-op"
  | "nextp", [a, trials, bc, iter, tape] =>
    match numArg a, (if trials = "max" then some none else (parseNat trials).map some), parseNat bc, parseNat iter, parseHex tape with
    | some (a, no), some trials, some bc, some iter, some tb =>
      if bc > Bee2V.Gen.C12.base.size then "bad-op" else
      match priNextPrime W (wordsOf W no) a trials bc iter (tapeOf no tb) 100000 with
      | some p => "1 " ++ putNum p no
      | none => "0"
    | _, _, _, _, _ => "bad-op"
  | "sg", [q] => match numArg q with
    | some (q, _) => if q % 2 = 0 ∨ q ≤ 1 then "refused" else b2s (priIsSGPrime q)
    | none => "bad-op"
  | _, _ => "bad-op"

def priOps : List String := ["primew", "nextw", "sieved", "smooth", "basemod", "rm", "nextp", "sg"]

/-- ops whose result depends on the word size carry it as `w32:` / `w64:` prefix-free first token `W=<n>`;
    the others default to 64 -/
def handle : List String → String
  | "date" :: args => handleDate args
  | "date3" :: args => handleDate3 args
  | "W32" :: rest => ((DrvObj.handle 32 rest).orElse (fun _ => DrvVal.handle 32 rest)).getD "bad-op"
  | ["extend", w, l, q, a, trials, bc, tape] =>
    match parseNat w with
    | some W => if W = 32 ∨ W = 64 then DrvObj.handleExtend W [l, q, a, trials, bc, tape] else "wrong-word-size"
    | none => "bad-op"
  | ["layout"] => (DrvObj.handle 64 ["layout"]).getD "bad-op"
  | ["basesize"] => (DrvObj.handle 64 ["basesize"]).getD "bad-op"
  | op :: w :: args =>
    match (DrvObj.handle 64 (op :: w :: args)).orElse (fun _ => DrvVal.handle 64 (op :: w :: args)) with
    | some r => r
    | none =>
    if priOps.contains op then
      match parseNat w with
      | some W => if W = 32 ∨ W = 64 then handlePri op W args else "wrong-word-size"
      | none => "bad-op"
    else "bad-op"
  | _ => "bad-op"

end Bee2V.C12.Drv

import Bee2V.C12.LemmasTm
/-!
C12 — property theorems (validators accept exactly the valid parameters, keys, primes, polynomials).
Only property theorems + non-vacuity examples here; the lemmas are in Lemmas*.lean.
-/
namespace Bee2V.C12

/-! ## dates (src/core/tm.c) -/

/-- `tmDateIsValid(y, m, d)` ⇔ (y, m, d) is a date of the Gregorian calendar, for all `size_t` triples. -/
theorem tmDateIsValid_gregorian (y m d : Nat) :
    tmDateIsValid y m d = true ↔ Spec.gregorian y m d := tmDateIsValid_iff y m d

/-- `tmDateIsValid2(date)` ⇔ the six octets are decimal digits ∧ (2000 + YY, MM, DD) is a Gregorian date;
    for all 256^6 octet vectors (structural proof). -/
theorem tmDateIsValid2_iff (d0 d1 d2 d3 d4 d5 : UInt8) :
    tmDateIsValid2 d0 d1 d2 d3 d4 d5 = true ↔
      (d0 ≤ 9 ∧ d1 ≤ 9 ∧ d2 ≤ 9 ∧ d3 ≤ 9 ∧ d4 ≤ 9 ∧ d5 ≤ 9) ∧
      Spec.gregorian (2000 + (10 * d0.toNat + d1.toNat)) (10 * d2.toNat + d3.toNat) (10 * d4.toNat + d5.toNat) := by
  unfold tmDateIsValid2
  simp only [Bool.and_eq_true, decide_eq_true_eq, tmDateIsValid_iff]
  have : 10 * d0.toNat + d1.toNat + 2000 = 2000 + (10 * d0.toNat + d1.toNat) := by omega
  rw [this]
  constructor
  · rintro ⟨⟨⟨⟨⟨⟨a, b⟩, c⟩, d⟩, e⟩, f⟩, g⟩; exact ⟨⟨a, b, c, d, e, f⟩, g⟩
  · rintro ⟨⟨a, b, c, d, e, f⟩, g⟩; exact ⟨⟨⟨⟨⟨⟨a, b⟩, c⟩, d⟩, e⟩, f⟩, g⟩

/-- non-vacuity: 29 Feb 2024 validates, 29 Feb 2023 and the "digit" 0x0A do not -/
example : tmDateIsValid2 2 4 0 2 2 9 = true ∧ tmDateIsValid2 2 3 0 2 2 9 = false ∧
    tmDateIsValid2 0 0 0 1 0 10 = false ∧ tmDateIsValid2 0 0 0 12 0 31 = false := by decide

end Bee2V.C12

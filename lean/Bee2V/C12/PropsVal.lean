import Bee2V.C12.LemmasVal
import Bee2V.C12.LemmasPp
import Bee2V.C12.LemmasSieve
/-!
C12 — property theorems for the parameter / key validators (decision lists + arithmetic sub-checks), the
irreducibility test and the factor base.  Re-exports of LemmasVal / LemmasPp / LemmasSieve under the audited names.
`isPrime` is the primality oracle the validator calls (priIsPrime); its own theorems are in PropsPri.lean.
-/
namespace Bee2V.C12
open Bee2V.Gen.C12

/-! ### arithmetic sub-checks -/

/-- the word-array computation of ecpSeemsValidGroup (n = f->n words, 2n-word square, shift by 2, compare) decides the
    Hasse bound (c·q − (p + 1))² ≤ 4p. -/
theorem ecpSeemsValidGroup_hasse (W n p order cof : Nat) (hW : 0 < W) (hn : 0 < n) (hp4 : 4 ≤ p) (hp : p < 2 ^ (W * n)) :
    hasseP W n p order cof = true ↔ order * cof ≠ 0 ∧ ((order * cof : Int) - (p + 1)) ^ 2 ≤ 4 * p :=
  hasseP_iff W n p order cof hW hn hp4 hp

/-- the same for ec2SeemsValidGroup as repaired by docs/C12.fix-2 (before the repair the last comparison was
    `t3` with itself and the bound was not checked). -/
theorem ec2SeemsValidGroup_hasse (W n m order cof : Nat) (hW : 0 < W) (hn : 0 < n) (hm2 : 2 < m) (hm : m ≤ W * n) :
    hasse2 W n m order cof = true ↔ order * cof ≠ 0 ∧ ((order * cof : Int) - (2 ^ m + 1)) ^ 2 ≤ 4 * 2 ^ m :=
  hasse2_iff W n m order cof hW hn hm2 hm

/-- the MOV loop: P^i ≢ 1 (mod q) for i = 1 … threshold. -/
theorem mov_threshold (P q thr : Nat) (hq : 1 < q) :
    movOk P q thr = true ↔ ∀ i, 1 ≤ i → i ≤ thr → P ^ i % q ≠ 1 := movOk_iff P q thr hq

theorem ecpIsOnA_equation (E : Ecp) (x y : Nat) :
    Ecp.onCurve E x y = true ↔ (y * y) % E.p = (x * x * x + E.a * x + E.b) % E.p := onCurve_iff E x y

theorem ecpIsSafeGroup_conditions (isPrime : Nat → Bool) (p order mov : Nat) (hq : 1 < order) :
    ecpIsSafeGroup isPrime p order mov = true ↔
      isPrime order = true ∧ order ≠ p ∧ ∀ i, 1 ≤ i → i ≤ mov → p ^ i % order ≠ 1 :=
  ecpIsSafeGroup_iff isPrime p order mov hq

theorem ecpIsValid_conditions (isPrime : Nat → Bool) (p a b : Nat) :
    ecpIsValid isPrime p a b = true ↔
      p % 2 = 1 ∧ isPrime p = true ∧ 3 < p ∧ a < p ∧ b < p ∧ (4 * a ^ 3 + 27 * b ^ 2) % p ≠ 0 :=
  ecpIsValid_iff isPrime p a b

/-! ### decision lists: ERR_OK ⇔ every condition of the standard's list -/

/-- bignParamsVal (STB 34.101.45, 6.1.4): operable sizes, b = belt-hash(p‖a‖seed‖…) mod p ≠ 0, p prime, non-singular,
    q prime ≠ p, MOV(50), b a square, G = (0, b^((p+1)/4)), qG = O. -/
theorem bignParamsVal_ok_iff (isPrime : Nat → Bool) (operable : Bool) (v : BignVals) (mov : Nat) :
    bignParamsValV isPrime operable v mov = 0 ↔
      operable = true ∧ bignStartOk v = true ∧ v.B % v.p = v.b ∧ v.b ≠ 0 ∧
      ecpIsValid isPrime v.p v.a v.b = true ∧ ecpIsSafeGroup isPrime v.p v.q mov = true ∧
      isQR v.b v.p = true ∧ powMod v.b ((v.p + 1) / 4) v.p = v.yG ∧
      Ecp.mul ⟨v.p, v.a, v.b⟩ v.q (some (0, v.yG)) = none :=
  bignParamsValV_ok_iff isPrime operable v mov

/-- bignPubkeyVal: x, y < p ∧ on the curve. -/
theorem bignPubkeyVal_ok_iff (operable : Bool) (v : BignVals) (x y : Nat) :
    bignPubkeyValV operable v x y = 0 ↔
      operable = true ∧ bignStartOk v = true ∧ x < v.p ∧ y < v.p ∧ Ecp.onCurve ⟨v.p, v.a, v.b⟩ x y = true :=
  bignPubkeyValV_ok_iff operable v x y

/-- bignKeypairVal: 0 < d < q ∧ Q = dG — BOTH coordinates. -/
theorem bignKeypairVal_ok_iff (operable : Bool) (v : BignVals) (d x y : Nat) :
    bignKeypairValV operable v d x y = 0 ↔
      operable = true ∧ bignStartOk v = true ∧ 0 < d ∧ d < v.q ∧
      Ecp.mul ⟨v.p, v.a, v.b⟩ d (some (0, v.yG)) = some (x, y) :=
  bignKeypairValV_ok_iff operable v d x y

/-- a key pair whose public key has the right x and another y is rejected. -/
theorem bignKeypairVal_rejects_wrong_y (operable : Bool) (v : BignVals) (d x y y' : Nat) (hy : y ≠ y')
    (hmul : Ecp.mul ⟨v.p, v.a, v.b⟩ d (some (0, v.yG)) = some (x, y')) :
    bignKeypairValV operable v d x y ≠ 0 := bignKeypairValV_wrong_y operable v d x y y' hy hmul

/-- g12sParamsVal (GOST R 34.10-2012). -/
theorem g12sParamsVal_ok_iff (isPrime : Nat → Bool) (W : Nat) (v : G12sVals) :
    g12sParamsValV isPrime W v = 0 ↔
      g12sCreateOk W v = true ∧ ecpIsValid isPrime v.p v.a v.b = true ∧
      Ecp.onCurve ⟨v.p, v.a, v.b⟩ v.xP v.yP = true ∧ hasseP W (wordSize W v.p) v.p v.q v.n = true ∧
      ecpIsSafeGroup isPrime v.p v.q (if v.l = 256 then 31 else 131) = true ∧
      Ecp.mul ⟨v.p, v.a, v.b⟩ (v.q % 2 ^ (W * wordSize W v.p)) (some (v.xP, v.yP)) = none ∧
      v.a ≠ 0 ∧ v.b ≠ 0 :=
  g12sParamsValV_ok_iff isPrime W v

/-- stb99ParamsVal (STB 1176.2): p prime of l bits, q prime of r bits, q | p − 1, 0 < d < p,
    a = d^((p−1)/q) ≠ e in the Montgomery group B_p. -/
theorem stb99ParamsVal_ok_iff (isPrime : Nat → Bool) (lr : List (Nat × Nat)) (v : Stb99Vals) :
    stb99ParamsValV isPrime lr v = 0 ↔
      lr.contains (v.l, v.r) = true ∧ v.tailsZero = true ∧ bitSize v.p = v.l ∧ isPrime v.p = true ∧
      bitSize v.q = v.r ∧ isPrime v.q = true ∧ (v.p - 1) % v.q = 0 ∧ v.d < v.p ∧ v.d ≠ 0 ∧
      montPow v.p (2 ^ (v.l + 2)) v.d ((v.p - 1) / v.q) ≠ 2 ^ (v.l + 2) % v.p ∧
      v.a = montPow v.p (2 ^ (v.l + 2)) v.d ((v.p - 1) / v.q) :=
  stb99ParamsValV_ok_iff isPrime lr v

/-- pfokParamsVal: p and (p − 1)/2 prime, g^((p−1)/2) ∉ {e, g} in B_p. -/
theorem pfokParamsVal_ok_iff (isPrime : Nat → Bool) (lr : List (Nat × Nat)) (v : PfokVals) :
    pfokParamsValV isPrime lr v = 0 ↔
      pfokIsOperable lr v = true ∧ isPrime v.p = true ∧ isPrime (v.p / 2) = true ∧
      montPow v.p (2 ^ (v.l + 2)) v.g (v.p / 2) ≠ 2 ^ (v.l + 2) % v.p ∧
      montPow v.p (2 ^ (v.l + 2)) v.g (v.p / 2) ≠ v.g :=
  pfokParamsValV_ok_iff isPrime lr v

/-! ### irreducibility (ppIsIrred, belsValM) -/

/-- independent enumeration (kept beside the general theorem `ppIsIrred_exact` / `ppIsIrred_irreducible` of PropsPp.lean, which
    closes the former partial statement through C05's Ben-Or proof): for all polynomials of degree ≤ 11 the test agrees
    with trial division, kernel-checked exhaustively. -/
theorem ppIsIrred_enumerated_le11 (f : Nat) (hf : f < 2 ^ (11 + 1)) :
    ppIsIrred f = true ↔ 2 ≤ f ∧ ∀ d, 2 ≤ d → d < 2 ^ (pdeg f / 2 + 1) → pmod f d ≠ 0 := ppIsIrred_spec_le f hf

example : ppIsIrred 0b10011 = true ∧ ppIsIrred 0b10101 = false := by decide +kernel

/-! ### factor base (tables regenerated from pri.c) -/

/-- `_base[]` is exactly the list of the odd primes up to 8167 (1024 of them), in increasing order. -/
theorem base_is_first_odd_primes :
    base.size = 1024 ∧ base.toList = (List.range 8168).filter (fun n => decide (3 ≤ n) && isPrimeTD' n) :=
  ⟨base_size, base_eq⟩

/-- the shortcut of priBaseMod through the products `_prods[]` is exact, for every word size. -/
theorem priBaseMod_exact (W a count : Nat) (hW : W = 16 ∨ W = 32 ∨ W = 64) (hc : count ≤ 1024) :
    priBaseMod W a count = (List.range count).map (fun i => a % base[i]!) := priBaseMod_spec W a count hW hc

/-- priIsSieved ⇔ a odd and not divisible by the first `bc` primes of the factor base. -/
theorem priIsSieved_exact (W a bc : Nat) (hW : W = 16 ∨ W = 32 ∨ W = 64) (hbc : bc ≤ 1024) :
    priIsSieved W a bc = true ↔ a % 2 = 1 ∧ ∀ i, i < bc → a % base[i]! ≠ 0 := priIsSieved_iff W a bc hW hbc

end Bee2V.C12

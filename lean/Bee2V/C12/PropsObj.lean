import Bee2V.C12.LemmasObj
import Bee2V.C12.LemmasExt
/-!
C12 — property theorems, fourth part: the structural predicates over ring / field / curve descriptions return TRUE
exactly under the conditions their headers list; the on-curve predicates reject non-canonical coordinates;
priExtendPrime2 returns primes of the requested shape (Demytko's theorem proved).  Re-exports of LemmasObj / LemmasExt.
-/
namespace Bee2V.C12
open Bee2V.Gen.C12

/-! ### objects (obj.h, qr.h, zm.h, gfp.h, gf2.h, ec.h) -/

theorem objIsOperable2_conditions (L : Layout) (h : ObjHdr) :
    objIsOperable2 L h = true ↔
      (L.hdr = 0 ∨ h.ptrOk = true) ∧ (h.keep = 0 ∨ h.ptrOk = true) ∧ h.oCount ≤ h.pCount ∧
      (L.hdr + L.ptr * h.pCount) % 2 ^ 64 ≤ h.keep := objIsOperable2_iff L h

/-- qrIsOperable (qr.h): object operable, keep ≥ sizeof(qr_o), 3 pointers, no nested objects, n > 0, no > 0, unity buffer
    valid, the nine function pointers set. -/
theorem qrIsOperable_conditions (L : Layout) (W : Nat) (r : QrObj) :
    qrIsOperable L W r = true ↔
      objIsOperable2 L r.hdr = true ∧ L.szQr ≤ r.hdr.keep ∧ r.hdr.pCount = 3 ∧ r.hdr.oCount = 0 ∧
      0 < r.n ∧ 0 < r.no ∧ wwIsValid W r.unityOk r.n = true ∧ (∀ f ∈ r.fns, f = true) := qrIsOperable_iff L W r

/-- zmIsValid (zm.h): qrIsOperable, modulus buffer valid, top word of the modulus non-zero. -/
theorem zmIsValid_conditions (L : Layout) (W : Nat) (r : QrObj) :
    zmIsValid L W r = true ↔
      qrIsOperable L W r = true ∧ wwIsValid W r.modOk r.n = true ∧ r.mod.getD (r.n - 1) 0 ≠ 0 := zmIsValid_iff L W r

/-- gfpIsOperable (gfp.h): zmIsValid and the modulus is odd and greater than 1 — as tested on the words … -/
theorem gfpIsOperable_conditions (L : Layout) (W : Nat) (f : QrObj) :
    gfpIsOperable L W f = true ↔
      zmIsValid L W f = true ∧ f.mod.headD 0 % 2 = 1 ∧ (1 < f.n ∨ 1 < f.mod.headD 0) := gfpIsOperable_iff L W f

/-- … and as a statement about the VALUE of the modulus. -/
theorem gfpIsOperable_modulus_odd_gt_one (L : Layout) (W : Nat) (f : QrObj) (hW : 0 < W) (hw : ∀ w ∈ f.mod, w < 2 ^ W)
    (h : gfpIsOperable L W f = true) :
    wordsVal W f.mod f.n % 2 = 1 ∧ 1 < wordsVal W f.mod f.n := gfpIsOperable_value L W f hW hw h

/-- gfpIsValid (gfp.h): gfpIsOperable and the modulus passes the primality oracle (priIsPrime: PropsPri). -/
theorem gfpIsValid_conditions (isPrime : Nat → Bool) (L : Layout) (W : Nat) (f : QrObj) :
    gfpIsValid isPrime L W f = true ↔
      gfpIsOperable L W f = true ∧ isPrime (wordsVal W f.mod f.n) = true := gfpIsValid_iff isPrime L W f

/-- gf2IsOperable (gf2.h): qrIsOperable, params valid, p0 > p1 ≥ p2 ≥ p3, strict for pentanomials (p2 > 0), n = ⌈p0/W⌉,
    no = ⌈p0/8⌉, modulus buffer valid and its last word non-zero. -/
theorem gf2IsOperable_conditions (L : Layout) (W : Nat) (f : QrObj) :
    gf2IsOperable L W f = true ↔
      qrIsOperable L W f = true ∧ memIsValid f.paramsOk 32 = true ∧
      f.params.getD 1 0 < f.params.getD 0 0 ∧ f.params.getD 2 0 ≤ f.params.getD 1 0 ∧
      f.params.getD 3 0 ≤ f.params.getD 2 0 ∧
      (0 < f.params.getD 2 0 →
        f.params.getD 2 0 < f.params.getD 1 0 ∧ f.params.getD 3 0 < f.params.getD 2 0 ∧ 0 < f.params.getD 3 0) ∧
      f.n = (f.params.getD 0 0 + W - 1) / W ∧ f.no = (f.params.getD 0 0 + 7) / 8 ∧
      wwIsValid W f.modOk (f.n + (if f.params.getD 0 0 % W = 0 then 1 else 0)) = true ∧
      f.mod.getD (f.n + (if f.params.getD 0 0 % W = 0 then 1 else 0) - 1) 0 ≠ 0 := gf2IsOperable_iff L W f

/-- gf2IsValid (gf2.h): operable and, for p1 > 0, the modulus IS the polynomial x^p0 + x^p1 + x^p2 + x^p3 + 1 and that
    polynomial is irreducible (`ppIsIrred_irreducible`, PropsPp); for p1 = 0 (normal basis, reserved) nothing more. -/
theorem gf2IsValid_conditions (L : Layout) (W : Nat) (f : QrObj) :
    gf2IsValid L W f = true ↔
      gf2IsOperable L W f = true ∧
      (0 < f.params.getD 1 0 →
        wordsVal W f.mod (f.n + (if f.params.getD 0 0 % W = 0 then 1 else 0)) =
          2 ^ f.params.getD 0 0 ||| 2 ^ f.params.getD 1 0 ||| 2 ^ f.params.getD 2 0 ||| 2 ^ f.params.getD 3 0 ||| 1 ∧
        ppIsIrred (2 ^ f.params.getD 0 0 ||| 2 ^ f.params.getD 1 0 ||| 2 ^ f.params.getD 2 0 |||
          2 ^ f.params.getD 3 0 ||| 1) = true) := gf2IsValid_iff L W f

theorem ecIsOperable2_conditions (L : Layout) (W : Nat) (ec : EcObj) :
    ecIsOperable2 L W ec = true ↔
      objIsOperable2 L ec.hdr = true ∧ L.szEc ≤ ec.hdr.keep ∧ ec.hdr.pCount = 6 ∧ ec.hdr.oCount = 1 ∧
      wwIsValid W ec.aOk ec.f.n = true ∧ wwIsValid W ec.bOk ec.f.n = true ∧ 3 ≤ ec.d ∧
      (∀ f ∈ ec.fns, f = true) := ecIsOperable2_iff L W ec

theorem ecIsOperable_conditions (L : Layout) (W : Nat) (ec : EcObj) :
    ecIsOperable L W ec = true ↔
      ecIsOperable2 L W ec = true ∧ qrIsOperable L W ec.f = true ∧ ec.f.deep ≤ ec.deep := ecIsOperable_iff L W ec

/-- ecIsOperableGroup (ec.h): base buffer (2n words) and order buffer (n + 1 words) valid, order ≠ 0, cofactor ≠ 0. -/
theorem ecIsOperableGroup_conditions (W : Nat) (ec : EcObj) :
    ecIsOperableGroup W ec = true ↔
      wwIsValid W ec.baseOk (2 * ec.f.n) = true ∧ wwIsValid W ec.orderOk (ec.f.n + 1) = true ∧
      ec.order ≠ 0 ∧ ec.cofactor ≠ 0 := ecIsOperableGroup_iff W ec

theorem mtMtxIsValid_conditions (ok : Bool) (sz : Nat) : mtMtxIsValid ok sz = true ↔ sz = 0 ∨ ok = true :=
  mtMtxIsValid_iff ok sz

/-! ### on-curve predicates on raw coordinates -/

/-- ecpIsOnA: both coordinates reduced and the curve equation. -/
theorem ecpIsOnA_exact (E : Ecp) (x y : Nat) :
    ecpIsOnA E x y = true ↔ x < E.p ∧ y < E.p ∧ (y * y) % E.p = (x * x * x + E.a * x + E.b) % E.p := ecpIsOnA_iff E x y

/-- non-canonical representatives x + k·p, y + k·p (k ≥ 1) satisfy the congruence but are rejected. -/
theorem ecpIsOnA_rejects_noncanonical (E : Ecp) (x y k : Nat) (hk : 0 < k) :
    ecpIsOnA E (x + k * E.p) y = false ∧ ecpIsOnA E x (y + k * E.p) = false ∧
    Ecp.onCurve E (x + k * E.p) y = Ecp.onCurve E x y :=
  ⟨ecpIsOnA_noncanonical E x y k hk, ecpIsOnA_noncanonical_y E x y k hk, ecpIsOnA_congr_shift E x y k⟩

theorem ec2IsOnA_exact (E : Ec2) (x y : Nat) :
    ec2IsOnA E x y = true ↔ x < 2 ^ E.F.m ∧ y < 2 ^ E.F.m ∧ Ec2.onCurve E x y = true := ec2IsOnA_iff E x y

theorem ec2IsOnA_rejects_high_bits (E : Ec2) (x y h : Nat) (hh : 0 < h) :
    ec2IsOnA E (x ||| (h <<< E.F.m)) y = false ∧ ec2IsOnA E x (y ||| (h <<< E.F.m)) = false :=
  ⟨ec2IsOnA_high_bits E x y h hh, ec2IsOnA_high_bits_y E x y h hh⟩

/-! ### priExtendPrime2 / priExtendPrime / priBasePrime -/

/-- Demytko's theorem for the test as computed: q odd prime, p = 2qar + 1, 2ar < 4q + 1, (4^r)^a ≢ 1 and ((4^r)^a)^q ≡ 1
    (mod p) ⇒ p is prime.  (The bound cannot be dropped: 341 = 11·31 passes with q = 5, a = 1, r = 34.) -/
theorem demytko_test_sound (p q a r : Nat) (hq : Nat.Prime q) (hq2 : q % 2 = 1) (hp : p = 2 * q * a * r + 1)
    (hR : 2 * a * r < 4 * q + 1) (h : demytko p q a r = true) : Nat.Prime p := demytko_sound p q a r hq hq2 hp hR h

/-- whatever priExtendPrime2 returns — for EVERY output of the generator (tape), every trials / base_count — is a prime
    of exactly l bits with p ≡ 1 (mod 2q) and 2qa | p − 1, given the documented preconditions (q odd prime, a > 0,
    l ≤ 2·bitlen(q)). -/
theorem priExtendPrime2_returns_prime (W l q a : Nat) (trials : Option Nat) (baseCount : Nat) (tape : List UInt8) (fuel p : Nat)
    (hW : W = 16 ∨ W = 32 ∨ W = 64) (hbc : baseCount ≤ 1024) (hl2 : 2 ≤ l) (ha : 0 < a)
    (hq : Nat.Prime q) (hq2 : q % 2 = 1) (hl : l ≤ 2 * bitSize q)
    (h : (priExtendPrime2 W l q a trials baseCount tape fuel).1 = some p) :
    Nat.Prime p ∧ bitSize p = l ∧ p % (2 * q) = 1 ∧ (2 * q * a) ∣ (p - 1) :=
  priExtendPrime2_prime W l q a trials baseCount tape fuel p hW hbc hl2 ha hq hq2 hl h

theorem priExtendPrime_returns_prime (W l q : Nat) (trials : Option Nat) (baseCount : Nat) (tape : List UInt8) (fuel p : Nat)
    (hW : W = 16 ∨ W = 32 ∨ W = 64) (hbc : baseCount ≤ 1024) (hl2 : 2 ≤ l)
    (hq : Nat.Prime q) (hq2 : q % 2 = 1) (hl : l ≤ 2 * bitSize q)
    (h : (priExtendPrime W l q trials baseCount tape fuel).1 = some p) :
    Nat.Prime p ∧ bitSize p = l ∧ p % (2 * q) = 1 :=
  priExtendPrime_prime W l q trials baseCount tape fuel p hW hbc hl2 hq hq2 hl h

/-- priBasePrime(i), i < priBaseSize() = 1024, is prime and the table is strictly increasing (with
    `base_is_first_odd_primes`: it is the (i + 1)-th odd prime). -/
theorem priBasePrime_is_prime (i : Nat) (h : i < 1024) : Nat.Prime (priBasePrime i) := priBasePrime_prime i h

end Bee2V.C12

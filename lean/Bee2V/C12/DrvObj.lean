import Bee2V.C12.ModelObj
import Bee2V.C12.ModelPri2
import Bee2V.C12.DrvVal
/-! C12 driver: object predicates, on-curve predicates on raw coordinates, priExtendPrime2, priBasePrime -/
namespace Bee2V.C12.DrvObj
open Bee2V.C12 Bee2V.Proto Bee2V.C12.DrvVal

def wordsOfVal (W n v : Nat) : List Nat := (List.range n).map (fun i => v / 2 ^ (W * i) % 2 ^ W)

def setAt (xs : List Nat) (i v : Nat) : List Nat := xs.set i v

def setFn (fns : List Bool) (i : Nat) : List Bool := fns.set i false

def qrFnNames : List String := ["from", "to", "add", "sub", "neg", "mul", "sqr", "inv", "div"]
def ecFnNames : List String := ["froma", "toa", "neg", "add", "adda", "sub", "suba", "dbl", "dbla"]

def splitTok (t : String) : Option (String × String) :=
  match t.splitOn "=" with
  | [a, b] => some (a, b)
  | _ => none

def corruptQr (W : Nat) (r : QrObj) (tok : String) : Option QrObj :=
  match splitTok tok with
  | none => none
  | some (k, vs) =>
    let v := (vs.toNat?).getD 0 % 2 ^ 64
    match k with
    | "keep" => some { r with hdr := { r.hdr with keep := v } }
    | "pcount" => some { r with hdr := { r.hdr with pCount := v } }
    | "ocount" => some { r with hdr := { r.hdr with oCount := v } }
    | "n" => some { r with n := v }
    | "no" => some { r with no := v }
    | "deep" => some { r with deep := v }
    | "mod" => some { r with modOk := false }
    | "unity" => some { r with unityOk := false }
    | "params" => some { r with paramsOk := false }
    | "modtop" => some { r with mod := setAt r.mod (r.n - 1 + v / 2 ^ 32) (v % 2 ^ 32 % 2 ^ W) }
    | "modlow" => some { r with mod := setAt r.mod 0 (v % 2 ^ W) }
    | "p0" => some { r with params := setAt r.params 0 v }
    | "p1" => some { r with params := setAt r.params 1 v }
    | "p2" => some { r with params := setAt r.params 2 v }
    | "p3" => some { r with params := setAt r.params 3 v }
    | _ => match qrFnNames.idxOf? k with
      | some i => some { r with fns := setFn r.fns i }
      | none => none

def corruptEc (W : Nat) (e : EcObj) (tok : String) : Option EcObj :=
  if tok.startsWith "f." then (corruptQr W e.f (tok.drop 2).toString).map (fun f => { e with f := f })
  else match splitTok tok with
  | none => none
  | some (k, vs) =>
    let v := (vs.toNat?).getD 0 % 2 ^ 64
    match k with
    | "keep" => some { e with hdr := { e.hdr with keep := v } }
    | "pcount" => some { e with hdr := { e.hdr with pCount := v } }
    | "ocount" => some { e with hdr := { e.hdr with oCount := v } }
    | "d" => some { e with d := v }
    | "cofactor" => some { e with cofactor := v % 2 ^ W }
    | "deep" => some { e with deep := if vs = "f" then e.f.deep else if vs = "f-1" then e.f.deep - 1 else v }
    | "A" => some { e with aOk := false }
    | "B" => some { e with bOk := false }
    | "base" => some { e with baseOk := false }
    | "order" => some { e with orderOk := false }
    | "ordval" => some { e with order := 0 }
    | "tpl" => some e
    | _ => match ecFnNames.idxOf? k with
      | some i => some { e with fns := setFn e.fns i }
      | none => none

def b (x : Bool) : String := if x then "1" else "0"

def allTrue (n : Nat) : List Bool := List.replicate n true

/-- a freshly created gfp description (abstract: keep and deep are "large enough") -/
def gfpObj (W pv no : Nat) : QrObj :=
  let n := (let k := (8 * no + W - 1) / W; if k = 0 then 1 else k)
  ⟨⟨true, 100000, 3, 0⟩, true, true, true, n, no, allTrue 9, 1000, wordsOfVal W n pv, []⟩

def gf2Obj (W m k1 k2 k3 md : Nat) : QrObj :=
  let n := (m + W - 1) / W
  let n1 := n + (if m % W = 0 then 1 else 0)
  ⟨⟨true, 100000, 3, 0⟩, true, true, true, n, (m + 7) / 8, allTrue 9, 1000, wordsOfVal W n1 md, [m, k1, k2, k3]⟩

def handleObj (W : Nat) : List String → String
  | "gfp" :: p :: toks =>
    match parseHex p with
    | some pb =>
      let no := pb.length
      if no = 0 ∨ pb.getLast! = 0 then "bad-op" else
      let pv := leVal pb
      if pv % 2 = 0 ∨ pv = 1 then "0" else
      match toks.foldlM (corruptQr W) (gfpObj W pv no) with
      | none => "bad-op"
      | some f => s!"1 {b (qrIsOperable lp64 W f)} {b (zmIsValid lp64 W f)} {b (gfpIsOperable lp64 W f)} {b (gfpIsValid drvIsPrime lp64 W f)}"
    | none => "bad-op"
  | "gf2" :: m :: k1 :: k2 :: k3 :: toks =>
    match parseNat m, parseNat k1, parseNat k2, parseNat k3 with
    | some m, some k1, some k2, some k3 =>
      if m < 2 ∨ m > 600 then "bad-op" else
      match gf2CreateMod W ⟨m, k1, k2, k3, 0, 0, 0, 0, 0, 0⟩ with
      | none => "0"
      | some md =>
        match toks.foldlM (corruptQr W) (gf2Obj W m k1 k2 k3 md) with
        | none => "bad-op"
        | some f => s!"1 {b (qrIsOperable lp64 W f)} {b (gf2IsOperable lp64 W f)} {b (gf2IsValid lp64 W f)}"
    | _, _, _, _ => "bad-op"
  | "ecp" :: p :: a :: bb :: x :: y :: q :: cof :: toks =>
    match parseHex p, parseHex a, parseHex bb, parseHex x, parseHex y, parseHex q, parseNat cof with
    | some p, some a, some bb, some x, some y, some q, some cof =>
      let no := p.length
      if no = 0 ∨ p.getLast! = 0 ∨ a.length ≠ no ∨ bb.length ≠ no ∨ x.length ≠ no ∨ y.length ≠ no then "bad-op" else
      let pv := leVal p; let qv := leVal q; let cof := cof % 2 ^ 32
      let n := wordSize W pv
      if pv % 2 = 0 ∨ pv ≤ 3 ∨ leVal a ≥ pv ∨ leVal bb ≥ pv ∨ qv = 0 ∨ wordSize W qv > n + 1 ∨ cof = 0 ∨ leVal x ≥ pv ∨ leVal y ≥ pv then "0"
      else
        let e : EcObj := ⟨⟨true, 100000, 6, 1⟩, gfpObj W pv no, true, true, true, true, 3, cof, allTrue 9, 2000, qv⟩
        match toks.foldlM (corruptEc W) e with
        | none => "bad-op"
        | some e => s!"1 {b (ecIsOperable2 lp64 W e)} {b (ecIsOperable lp64 W e)} {b (ecIsOperableGroup W e)} {b (qrIsOperable lp64 W e.f)}"
    | _, _, _, _, _, _, _ => "bad-op"
  | "ec2" :: m :: k1 :: k2 :: k3 :: A :: B :: x :: y :: q :: cof :: toks =>
    match parseNat m, parseNat k1, parseNat k2, parseNat k3, parseHex A, parseHex B, parseHex x, parseHex y, parseHex q, parseNat cof with
    | some m, some k1, some k2, some k3, some A, some B, some x, some y, some q, some cof =>
      let no := (m + 7) / 8
      if m < 2 ∨ m > 600 then "bad-op"
      else if A.length ≠ no ∨ B.length ≠ no ∨ x.length ≠ no ∨ y.length ≠ no then "bad-op" else
      let qv := leVal q; let cof := cof % 2 ^ 32
      let n := (m + W - 1) / W
      match gf2CreateMod W ⟨m, k1, k2, k3, 0, 0, 0, 0, 0, 0⟩ with
      | none => "0"
      | some md =>
        if leVal A ≥ 2 ^ m ∨ leVal B ≥ 2 ^ m ∨ leVal x ≥ 2 ^ m ∨ leVal y ≥ 2 ^ m ∨ qv = 0 ∨ wordSize W qv > n + 1 ∨ cof = 0 ∨ cof ≥ 2 ^ W then "0"
        else
          let e : EcObj := ⟨⟨true, 100000, 6, 1⟩, gf2Obj W m k1 k2 k3 md, true, true, true, true, 3, cof, allTrue 9, 2000, qv⟩
          match toks.foldlM (corruptEc W) e with
          | none => "bad-op"
          | some e => s!"1 {b (ecIsOperable2 lp64 W e)} {b (ecIsOperable lp64 W e)} {b (ecIsOperableGroup W e)} {b (qrIsOperable lp64 W e.f)}"
    | _, _, _, _, _, _, _, _, _, _ => "bad-op"
  | _ => "bad-op"

def handleEcpOn : List String → String
  | [p, a, bb, x, y, kx, ky] =>
    match parseHex p, parseHex a, parseHex bb, parseHex x, parseHex y, parseNat kx, parseNat ky with
    | some p, some a, some bb, some x, some y, some kx, some ky =>
      let no := p.length
      if no = 0 ∨ p.getLast! = 0 ∨ a.length ≠ no ∨ bb.length ≠ no ∨ x.length ≠ no ∨ y.length ≠ no then "bad-op" else
      let pv := leVal p
      if pv % 2 = 0 ∨ pv ≤ 3 ∨ leVal a ≥ pv ∨ leVal bb ≥ pv ∨ leVal x ≥ pv ∨ leVal y ≥ pv then "0"
      else "1 " ++ b (ecpIsOnA ⟨pv, leVal a, leVal bb⟩ (leVal x + kx * pv) (leVal y + ky * pv))
    | _, _, _, _, _, _, _ => "bad-op"
  | _ => "bad-op"

def handleEc2On (W : Nat) : List String → String
  | [m, k1, k2, k3, A, B, x, y, hx, hy] =>
    match parseNat m, parseNat k1, parseNat k2, parseNat k3, parseHex A, parseHex B, parseHex x, parseHex y, parseNat hx, parseNat hy with
    | some m, some k1, some k2, some k3, some A, some B, some x, some y, some hx, some hy =>
      let no := (m + 7) / 8
      if m < 2 ∨ m > 600 then "bad-op"
      else if A.length ≠ no ∨ B.length ≠ no ∨ x.length ≠ no ∨ y.length ≠ no then "bad-op" else
      match gf2CreateMod W ⟨m, k1, k2, k3, 0, 0, 0, 0, 0, 0⟩ with
      | none => "0"
      | some md =>
        if leVal A ≥ 2 ^ m ∨ leVal B ≥ 2 ^ m ∨ leVal x ≥ 2 ^ m ∨ leVal y ≥ 2 ^ m then "0"
        else "1 " ++ b (ec2IsOnA ⟨⟨m, md⟩, leVal A, leVal B⟩ (leVal x ^^^ pmul hx md) (leVal y ^^^ pmul hy md))
    | _, _, _, _, _, _, _, _, _, _ => "bad-op"
  | _ => "bad-op"

def handleExtend (W : Nat) : List String → String
  | [l, q, a, trials, bc, tape] =>
    match parseNat l, parseHex q, parseHex a, (if trials = "max" then some 100000 else parseNat trials), parseNat bc, parseHex tape with
    | some l, some q, some a, some trials, some bc, some tape =>
      let qv := leVal q; let av := leVal a
      if qv = 0 ∨ av = 0 ∨ qv % 2 = 0 ∨ qv < 3 ∨ bc > 1024 ∨ l > 8000 ∨ bitSize qv + bitSize av > l ∨ l > 2 * bitSize qv then "refused"
      else
        let (r, rest) := priExtendPrime2 W l qv av (some trials) bc tape (trials + 2)
        match r with
        | some p => s!"1 {toHex (natLE ((l + 7) / 8) p)} {rest.length}"
        | none => s!"0 {rest.length}"
    | _, _, _, _, _, _ => "bad-op"
  | _ => "bad-op"

def handle (W : Nat) : List String → Option String
  | "obj" :: a => some (handleObj W a)
  | "ecpon" :: a => some (handleEcpOn a)
  | "ec2on" :: a => some (handleEc2On W a)
  | ["layout"] => some s!"{lp64.hdr} {lp64.ptr} {lp64.szQr} {lp64.szEc}"
  | ["basesize"] => some (toString Bee2V.Gen.C12.base.size)
  | ["baseprime", i] => (parseNat i).map (fun i => if i ≥ Bee2V.Gen.C12.base.size then "refused" else toString (priBasePrime i))
  | ["mtx", s] => some (b (mtMtxIsValid (s != "null") 40))
  | _ => none

end Bee2V.C12.DrvObj

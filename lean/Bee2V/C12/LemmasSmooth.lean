/-
C12 — priIsSmooth: a ≠ 0 is accepted exactly when every prime divisor of a is 2 or one of the first
`base_count` primes of the factor base.
-/
import Mathlib.Data.Nat.Prime.Basic
import Bee2V.C12.ModelPri
import Bee2V.C12.LemmasSieve
import Bee2V.C12.LemmasNext
namespace Bee2V.C12
open Bee2V.Gen.C12

namespace SmoothAux

/-- the entries of the factor base are primes (bridge from the kernel-checked trial division to `Nat.Prime`) -/
theorem base_prime (i : Nat) (h : i < 1024) : Nat.Prime base[i]! := by
  obtain ⟨h2, hd⟩ := (isPrimeTD'_iff _).1 (base_all_prime i h)
  rw [Nat.prime_def_lt]
  refine ⟨h2, ?_⟩
  intro m hm hdvd
  rcases Nat.lt_or_ge m 2 with hlt | hge
  · have : m ≠ 0 := by
      rintro rfl
      have := Nat.eq_zero_of_zero_dvd hdvd
      omega
    omega
  · exact absurd (Nat.mod_eq_zero_of_dvd hdvd) (hd m hge hm)

/-- `wwLoZeroBits` followed by the shift: a = 2^k · t with t odd -/
theorem loZeroBits_spec : ∀ (fuel a : Nat), a ≠ 0 → a < 2 ^ fuel →
    2 ^ loZeroBits fuel a ∣ a ∧ (a / 2 ^ loZeroBits fuel a) % 2 = 1 := by
  intro fuel
  induction fuel with
  | zero => intro a ha h; simp at h; omega
  | succ fuel ih =>
    intro a ha h
    unfold loZeroBits
    by_cases hc : a ≠ 0 ∧ a % 2 = 0
    · rw [if_pos hc]
      have hlt : a / 2 < 2 ^ fuel := by rw [Nat.pow_succ] at h; omega
      obtain ⟨h1, h2⟩ := ih (a / 2) (by omega) hlt
      have ha2 : a = 2 * (a / 2) := by omega
      rw [Nat.pow_succ, Nat.mul_comm]
      refine ⟨?_, ?_⟩
      · rw [ha2]
        exact Nat.mul_dvd_mul_left 2 (by rwa [← ha2])
      · rw [← Nat.div_div_eq_div_mul]
        exact h2
    · rw [if_neg hc]
      simp only [Nat.pow_zero, Nat.div_one, Nat.one_dvd, true_and]
      omega

/-- `k`-smooth with respect to the first `bc` base primes -/
def Smooth (bc t : Nat) : Prop := ∀ p, Nat.Prime p → p ∣ t → ∃ j, j < bc ∧ base[j]! = p

theorem smooth_mul_base (bc i t' : Nat) (hbc : bc ≤ 1024) (hi : i < bc) :
    Smooth bc (base[i]! * t') ↔ Smooth bc t' := by
  constructor
  · intro h p hp hd
    exact h p hp (Dvd.dvd.mul_left hd _)
  · intro h p hp hd
    rcases (Nat.Prime.dvd_mul hp).1 hd with h1 | h1
    · exact ⟨i, hi, ((Nat.prime_dvd_prime_iff_eq hp (base_prime i (by omega))).1 h1).symm⟩
    · exact h p hp h1

/-- the main loop: invariant "no base[j], j < i, divides t"; `e` bounds the bit length of t -/
theorem smoothLoop_iff (bc : Nat) (hbc : bc ≤ 1024) : ∀ (fuel t i e : Nat), 2 ≤ t → i ≤ bc → t < 2 ^ e →
    e + (bc - i) ≤ fuel → (∀ j, j < i → ¬ base[j]! ∣ t) →
    (smoothLoop bc fuel t i = true ↔ Smooth bc t) := by
  intro fuel
  induction fuel with
  | zero =>
    intro t i e ht hi he hf _
    have : e = 0 := by omega
    subst this
    simp at he
    omega
  | succ fuel ih =>
    intro t i e ht hi he hf hinv
    unfold smoothLoop
    by_cases hib : i < bc
    · rw [if_pos hib]
      have hb3 := base_ge_3 i (by omega)
      by_cases hdiv : t % base[i]! = 0
      · rw [if_pos hdiv]
        have hmul : t = base[i]! * (t / base[i]!) := by
          have := Nat.div_add_mod t base[i]!
          omega
        generalize t / base[i]! = q at hmul ⊢
        have hsm : Smooth bc t ↔ Smooth bc q := by
          conv => lhs; rw [hmul]
          exact smooth_mul_base bc i _ hbc hib
        by_cases h1 : q = 1
        · simp only [h1, if_true, true_iff]
          rw [hsm, h1]
          intro p hp hd
          exact absurd (Nat.dvd_one.1 hd) hp.ne_one
        · simp only [h1, if_false]
          have hpos : q ≠ 0 := by
            intro h0
            rw [h0] at hmul
            omega
          obtain ⟨e', rfl⟩ : ∃ e', e = e' + 1 := by
            refine ⟨e - 1, ?_⟩
            have : e ≠ 0 := by rintro rfl; simp at he; omega
            omega
          have hlt : q < 2 ^ e' := by
            rw [Nat.pow_succ] at he
            have h2 : 2 * q ≤ base[i]! * q := Nat.mul_le_mul_right _ (by omega)
            omega
          rw [hsm]
          refine ih q i e' (by omega) hi hlt (by omega) ?_
          intro j hj hd
          exact hinv j hj (Nat.dvd_trans hd ⟨base[i]!, by rw [Nat.mul_comm]; exact hmul⟩)
      · rw [if_neg hdiv]
        refine ih t (i + 1) e ht (by omega) he (by omega) ?_
        intro j hj hd
        by_cases hji : j = i
        · subst hji; exact hdiv (Nat.mod_eq_zero_of_dvd hd)
        · exact hinv j (by omega) hd
    · rw [if_neg hib]
      simp only [Bool.false_eq_true, false_iff]
      intro hs
      obtain ⟨p, hp, hd⟩ := Nat.exists_prime_and_dvd (show t ≠ 1 by omega)
      obtain ⟨j, hj, rfl⟩ := hs p hp hd
      exact hinv j (by omega) hd

end SmoothAux

open SmoothAux

/-- `priIsSmooth`: a = 2^k · (product of primes among the first `bc` of the factor base) ⇔ every prime divisor of
    a is 2 or one of these primes -/
theorem priIsSmooth_iff (a bc : Nat) (ha : a ≠ 0) (hbc : bc ≤ 1024) :
    priIsSmooth a bc = true ↔ ∀ p, Nat.Prime p → p ∣ a → p = 2 ∨ ∃ i, i < bc ∧ base[i]! = p := by
  obtain ⟨hdvd, hodd⟩ := loZeroBits_spec (bitSize a) a ha (bitSize_lt a)
  unfold priIsSmooth
  generalize loZeroBits (bitSize a) a = k at hdvd hodd
  have hmul : a = 2 ^ k * (a / 2 ^ k) := (Nat.mul_div_cancel' hdvd).symm
  have hta : a / 2 ^ k ≤ a := Nat.div_le_self _ _
  generalize a / 2 ^ k = t at hmul hodd hta
  simp only
  have hspec : (∀ p, Nat.Prime p → p ∣ a → p = 2 ∨ ∃ i, i < bc ∧ base[i]! = p) ↔ Smooth bc t := by
    constructor
    · intro h p hp hd
      rcases h p hp (hmul ▸ Dvd.dvd.mul_left hd _) with h2 | h2
      · subst h2
        have := Nat.mod_eq_zero_of_dvd hd
        omega
      · exact h2
    · intro h p hp hd
      rw [hmul] at hd
      rcases (Nat.Prime.dvd_mul hp).1 hd with h1 | h1
      · exact Or.inl ((Nat.prime_dvd_prime_iff_eq hp Nat.prime_two).1 (hp.dvd_of_dvd_pow h1))
      · exact Or.inr (h p hp h1)
  rw [hspec]
  by_cases h1 : t = 1
  · simp only [h1, if_true, true_iff]
    intro p hp hd
    exact absurd (Nat.dvd_one.1 hd) hp.ne_one
  · rw [if_neg h1]
    exact smoothLoop_iff bc hbc _ t 0 (bitSize a) (by omega) (Nat.zero_le _)
      (Nat.lt_of_le_of_lt hta (bitSize_lt a)) (by omega) (fun j hj => by omega)

example : priIsSmooth (2 ^ 5 * 3 * 3 * 7 * 13) 5 = true ∧ priIsSmooth (2 ^ 5 * 3 * 3 * 7 * 17) 5 = false ∧
    priIsSmooth 1 0 = true ∧ priIsSmooth 64 0 = true ∧ priIsSmooth 3 0 = false := by decide +kernel

end Bee2V.C12

import Bee2V.C12.LemmasPri
/-!
C12 — property theorems for src/math/pri.c (primality tests, next-prime search, Sophie Germain test).
Statements only re-export the lemmas of LemmasPri / LemmasPri16 / LemmasNext under the names the audit collects.
`Nat.Prime` (Mathlib) is the independent specification.
-/
namespace Bee2V.C12

/-! ### priIsPrimeW — deterministic Miller–Rabin on machine words -/

/-- prime ⇒ accepted, for every word size and every word value (Fermat + the only square roots of 1 mod a prime are ±1). -/
theorem priIsPrimeW_accepts_primes (W a : Nat) (hW : W = 16 ∨ W = 32 ∨ W = 64) (ha : a < 2 ^ W) (hp : Nat.Prime a) :
    priIsPrimeW W a = true := priIsPrimeW_of_prime W a hW ha hp

/-- exact on the 16-bit range (kernel-checked exhaustively against trial division, which is proved equal to Nat.Prime). -/
theorem priIsPrimeW_exact_16bit (W a : Nat) (hW : W = 16 ∨ W = 32 ∨ W = 64) (ha : a < 65536) :
    priIsPrimeW W a = true ↔ Nat.Prime a := priIsPrimeW_iff_prime_small W a hW ha

/-
FULL STATEMENT (not proved): ∀ W ∈ {16,32,64}, a < 2^W, priIsPrimeW W a = true ↔ Nat.Prime a.
The direction composite ⇒ rejected for 65536 ≤ a rests on the exhaustive computations cited in pri.c
(Pomerance–Selfridge–Wagstaff: ψ(2,3) = 1373653; Jaeschke: ψ(2,7,61) = 4759123141; Sinclair's 7 bases for 2^64),
which cannot be re-run in the kernel.  What IS proved: the thresholds are exactly those numbers — the model rejects
them and would accept them with the smaller base set — plus the sampled pseudoprimes below.
-/
theorem priIsPrimeW_iff_prime_partial (W a : Nat) (hW : W = 16 ∨ W = 32 ∨ W = 64) (ha : a < 2 ^ W) :
    (Nat.Prime a → priIsPrimeW W a = true) ∧ (a < 65536 → priIsPrimeW W a = true → Nat.Prime a) :=
  ⟨priIsPrimeW_of_prime W a hW ha, fun h16 h => (priIsPrimeW_iff_prime_small W a hW h16).1 h⟩

/-- the thresholds are tight: 1373653 = ψ(2,3) and 4759123141 = ψ(2,7,61) are rejected by the model, and each WOULD
    pass the smaller base set (so `<` vs `<=` at the thresholds matters). -/
theorem priIsPrimeW_thresholds_tight :
    priIsPrimeW 32 1373653 = false ∧ priIsPrimeW 64 1373653 = false ∧ priIsPrimeW 64 4759123141 = false ∧
    Bee2V.Gen.C12.bases16.all (witnessW 1373653 343413 2) = true ∧
    Bee2V.Gen.C12.bases32.all (witnessW 4759123141 1189780785 2) = true :=
  ⟨spsp_2_3.1, spsp_2_3.2, spsp_2_7_61, spsp_2_3_bases16.2, spsp_2_7_61_bases32.2⟩

/-! ### priRMTest / priIsPrime — Miller–Rabin with the generator's tape -/

/-- prime ⇒ accepted for ANY tape of bases in 1 … a-1: the verdict only depends on the draw budget
    (`drawsOk`: every iteration obtains, within 15 draws, a value different from ±1). -/
theorem priRMTest_accepts_primes (a iter : Nat) (tape : List Nat) (hp : Nat.Prime a) (ht : ∀ b ∈ tape, 0 < b ∧ b < a) :
    priRMTest a iter tape = (decide (a < 49) || drawsOk a iter tape) := priRMTest_of_prime a iter tape hp ht

/-- composite ⇒ rejected is NOT a theorem for priRMTest (it is probabilistic): a tape of strong liars fools it. -/
theorem priRMTest_fooled_by_liars : priRMTest 2047 3 [2, 2, 2] = true ∧ ¬ Nat.Prime 2047 := by
  refine ⟨by decide +kernel, ?_⟩
  intro h
  have : (23 : Nat) ∣ 2047 := ⟨89, by decide⟩
  rcases (Nat.dvd_prime h).1 this with h1 | h1 <;> omega

example : priRMTest 1000003 3 [2, 3, 5] = true ∧ priRMTest 1000001 3 [2, 3, 5] = false ∧
    drawsOk 1000003 3 [2, 3, 5] = true := by decide +kernel

/-! ### priNextPrimeW -/

/-- the search returns the least odd number ≥ a of the same bit length that priIsPrimeW accepts, or reports that none
    exists (relative to the model's primality predicate; with `priIsPrimeW_exact_16bit` absolute on the 16-bit range). -/
theorem priNextPrimeW_least (W a : Nat) (ha : a < 2 ^ W) :
    match priNextPrimeW W a with
    | some p => p % 2 = 1 ∧ a ≤ p ∧ bitSize p = bitSize a ∧ priIsPrimeW W p = true ∧
        ∀ x, x % 2 = 1 → a ≤ x → x < p → priIsPrimeW W x = false
    | none => bitSize a ≤ 1 ∨ ∀ x, x % 2 = 1 → a ≤ x → bitSize x = bitSize a → priIsPrimeW W x = false :=
  priNextPrimeW_spec W a ha

/-- absolute version on the 16-bit range: the least odd prime ≥ a of the same bit length. -/
theorem priNextPrimeW_least_prime_16bit (W a p : Nat) (hW : W = 16 ∨ W = 32 ∨ W = 64) (ha : a < 65536)
    (h : priNextPrimeW W a = some p) :
    Nat.Prime p ∧ a ≤ p ∧ bitSize p = bitSize a ∧ ∀ x, a ≤ x → x < p → Nat.Prime x → x = 2 :=
  priNextPrimeW_prime_small W a p hW ha h

/-! ### priIsSGPrime (Demytko) -/

/-- for an odd prime q: priIsSGPrime q ⇔ 2q + 1 is prime (deterministic, both directions). -/
theorem priIsSGPrime_exact (q : Nat) (hq : Nat.Prime q) (hqodd : q % 2 = 1) :
    priIsSGPrime q = true ↔ Nat.Prime (2 * q + 1) := priIsSGPrime_iff q hq hqodd

example : priIsSGPrime 11 = true ∧ priIsSGPrime 13 = false := by decide +kernel

end Bee2V.C12

/-
C12 — decision lists of the structural predicates (ModelObj.lean): every predicate returns TRUE exactly when the
conditions listed in its header hold, in the order of the source.
-/
import Bee2V.C12.ModelObj
import Bee2V.C12.LemmasVal
namespace Bee2V.C12

/-! ### memory / object header -/

theorem memIsValid_iff (ok : Bool) (c : Nat) : memIsValid ok c = true ↔ (c = 0 ∨ ok = true) := by
  simp [memIsValid]

theorem wwIsValid_iff (W : Nat) (ok : Bool) (n : Nat) :
    wwIsValid W ok n = true ↔ (n * (W / 8) % 2 ^ 64 = 0 ∨ ok = true) := by
  simp [wwIsValid, memIsValid]

theorem mtMtxIsValid_iff (ok : Bool) (sz : Nat) : mtMtxIsValid ok sz = true ↔ sz = 0 ∨ ok = true := by
  simp [mtMtxIsValid, memIsValid]

theorem objIsOperable2_iff (L : Layout) (h : ObjHdr) :
    objIsOperable2 L h = true ↔
      (L.hdr = 0 ∨ h.ptrOk = true) ∧ (h.keep = 0 ∨ h.ptrOk = true) ∧ h.oCount ≤ h.pCount ∧
      (L.hdr + L.ptr * h.pCount) % 2 ^ 64 ≤ h.keep := by
  simp [objIsOperable2, memIsValid, and_assoc]

/-- a null object pointer is refused as soon as the header has a size -/
theorem objIsOperable2_null (L : Layout) (h : ObjHdr) (hL : 0 < L.hdr) (hn : h.ptrOk = false) :
    objIsOperable2 L h = false := by
  cases hb : objIsOperable2 L h with
  | false => rfl
  | true =>
    have := ((objIsOperable2_iff L h).1 hb).1
    rw [hn] at this
    rcases this with h0 | h0
    · omega
    · cases h0

/-! ### rings -/

theorem qrIsOperable_iff (L : Layout) (W : Nat) (r : QrObj) :
    qrIsOperable L W r = true ↔
      objIsOperable2 L r.hdr = true ∧ L.szQr ≤ r.hdr.keep ∧ r.hdr.pCount = 3 ∧ r.hdr.oCount = 0 ∧
      0 < r.n ∧ 0 < r.no ∧ wwIsValid W r.unityOk r.n = true ∧ (∀ f ∈ r.fns, f = true) := by
  simp [qrIsOperable, and_assoc]

theorem zmIsValid_iff (L : Layout) (W : Nat) (r : QrObj) :
    zmIsValid L W r = true ↔
      qrIsOperable L W r = true ∧ wwIsValid W r.modOk r.n = true ∧ r.mod.getD (r.n - 1) 0 ≠ 0 := by
  simp [zmIsValid, and_assoc]

theorem gfpIsOperable_iff (L : Layout) (W : Nat) (f : QrObj) :
    gfpIsOperable L W f = true ↔
      zmIsValid L W f = true ∧ f.mod.headD 0 % 2 = 1 ∧ (1 < f.n ∨ 1 < f.mod.headD 0) := by
  simp [gfpIsOperable, and_assoc]

theorem gfpIsValid_iff (isPrime : Nat → Bool) (L : Layout) (W : Nat) (f : QrObj) :
    gfpIsValid isPrime L W f = true ↔
      gfpIsOperable L W f = true ∧ isPrime (wordsVal W f.mod f.n) = true := by
  simp [gfpIsValid]

namespace ObjAux

theorem wordsVal_zero (W : Nat) (ws : List Nat) : wordsVal W ws 0 = 0 := by simp [wordsVal]

theorem wordsVal_nil (W n : Nat) : wordsVal W [] n = 0 := by simp [wordsVal]

theorem wordsVal_cons (W : Nat) (w : Nat) (ws : List Nat) (n : Nat) :
    wordsVal W (w :: ws) (n + 1) = w % 2 ^ W + 2 ^ W * wordsVal W ws n := by
  simp [wordsVal]

/-- a non-zero word at position `k < n` puts the value at or above `2^(W·k)` -/
theorem wordsVal_ge (W : Nat) : ∀ (ws : List Nat) (n k : Nat), k < n → (∀ w ∈ ws, w < 2 ^ W) → ws.getD k 0 ≠ 0 →
    2 ^ (W * k) ≤ wordsVal W ws n
  | [], n, k, _, _, h => by simp at h
  | w :: ws, 0, k, hk, _, _ => by omega
  | w :: ws, n + 1, 0, _, hw, h => by
    rw [wordsVal_cons]
    have hlt : w < 2 ^ W := hw w List.mem_cons_self
    have h0 : w ≠ 0 := by simpa using h
    rw [Nat.mod_eq_of_lt hlt]
    simp only [Nat.mul_zero, Nat.pow_zero]
    omega
  | w :: ws, n + 1, k + 1, hk, hw, h => by
    rw [wordsVal_cons]
    have ih := wordsVal_ge W ws n k (by omega) (fun x hx => hw x (List.mem_cons_of_mem _ hx)) (by simpa using h)
    have : 2 ^ (W * (k + 1)) = 2 ^ W * 2 ^ (W * k) := by rw [Nat.mul_succ, Nat.pow_add, Nat.mul_comm]
    rw [this]
    have := Nat.mul_le_mul_left (2 ^ W) ih
    omega

theorem wordsVal_mod_two (W : Nat) (hW : 0 < W) (ws : List Nat) (n : Nat) (hn : 0 < n) (hw : ∀ w ∈ ws, w < 2 ^ W) :
    wordsVal W ws n % 2 = ws.headD 0 % 2 := by
  obtain ⟨m, rfl⟩ : ∃ m, n = m + 1 := ⟨n - 1, by omega⟩
  cases ws with
  | nil => simp [wordsVal_nil]
  | cons w ws =>
    rw [wordsVal_cons, Nat.mod_eq_of_lt (hw w List.mem_cons_self)]
    obtain ⟨V, rfl⟩ : ∃ V, W = V + 1 := ⟨W - 1, by omega⟩
    simp only [List.headD_cons]
    rw [Nat.pow_succ, Nat.mul_comm (2 ^ V) 2, Nat.mul_assoc, Nat.add_mul_mod_self_left]

end ObjAux

/-- value-level reading of gfpIsOperable: the modulus is odd and greater than 1 -/
theorem gfpIsOperable_value (L : Layout) (W : Nat) (f : QrObj) (hW : 0 < W) (hw : ∀ w ∈ f.mod, w < 2 ^ W)
    (h : gfpIsOperable L W f = true) :
    wordsVal W f.mod f.n % 2 = 1 ∧ 1 < wordsVal W f.mod f.n := by
  obtain ⟨hzm, hodd, hgt⟩ := (gfpIsOperable_iff L W f).1 h
  obtain ⟨hqr, _, htop⟩ := (zmIsValid_iff L W f).1 hzm
  have hn : 0 < f.n := ((qrIsOperable_iff L W f).1 hqr).2.2.2.2.1
  have hpar := ObjAux.wordsVal_mod_two W hW f.mod f.n hn hw
  refine ⟨by omega, ?_⟩
  rcases hgt with hgt | hgt
  · have hge := ObjAux.wordsVal_ge W f.mod f.n (f.n - 1) (by omega) hw htop
    have : 2 ^ 1 ≤ 2 ^ (W * (f.n - 1)) :=
      Nat.pow_le_pow_right (by decide) (Nat.mul_pos hW (by omega))
    omega
  · have hge := ObjAux.wordsVal_ge W f.mod f.n 0 hn hw (by
      cases hm : f.mod with
      | nil => rw [hm] at hgt; simp at hgt
      | cons w ws => rw [hm] at hgt; simp at hgt ⊢; omega)
    -- value ≥ 1 and odd; exclude the value 1 through the low word
    cases hm : f.mod with
    | nil => rw [hm] at hgt; simp at hgt
    | cons w ws =>
      rw [hm] at hgt hw
      obtain ⟨m, hm'⟩ : ∃ m, f.n = m + 1 := ⟨f.n - 1, by omega⟩
      rw [hm', ObjAux.wordsVal_cons, Nat.mod_eq_of_lt (hw w List.mem_cons_self)]
      simp only [List.headD_cons] at hgt
      omega

/-! ### binary fields -/

theorem gf2IsOperable_iff (L : Layout) (W : Nat) (f : QrObj) :
    gf2IsOperable L W f = true ↔
      qrIsOperable L W f = true ∧ memIsValid f.paramsOk 32 = true ∧
      f.params.getD 1 0 < f.params.getD 0 0 ∧ f.params.getD 2 0 ≤ f.params.getD 1 0 ∧
      f.params.getD 3 0 ≤ f.params.getD 2 0 ∧
      (0 < f.params.getD 2 0 →
        f.params.getD 2 0 < f.params.getD 1 0 ∧ f.params.getD 3 0 < f.params.getD 2 0 ∧ 0 < f.params.getD 3 0) ∧
      f.n = (f.params.getD 0 0 + W - 1) / W ∧ f.no = (f.params.getD 0 0 + 7) / 8 ∧
      wwIsValid W f.modOk (f.n + (if f.params.getD 0 0 % W = 0 then 1 else 0)) = true ∧
      f.mod.getD (f.n + (if f.params.getD 0 0 % W = 0 then 1 else 0) - 1) 0 ≠ 0 := by
  unfold gf2IsOperable
  simp only []
  generalize f.params.getD 0 0 = p0
  generalize f.params.getD 1 0 = p1
  generalize f.params.getD 2 0 = p2
  generalize f.params.getD 3 0 = p3
  generalize f.n + (if p0 % W = 0 then 1 else 0) = n1
  cases hq : qrIsOperable L W f <;> cases hm : memIsValid f.paramsOk 32 <;> simp
  constructor
  · rintro ⟨⟨h1, h2, h3, h4, h5, h6⟩, h7, h8⟩
    refine ⟨h1, h2, h3, fun hp => ?_, h5, h6, h7, h8⟩
    omega
  · rintro ⟨h1, h2, h3, h4, h5, h6, h7, h8⟩
    refine ⟨⟨h1, h2, h3, ?_, h5, h6⟩, h7, h8⟩
    by_cases hp : p2 = 0
    · exact Or.inl hp
    · have := h4 (by omega)
      exact Or.inr (by omega)

theorem gf2IsValid_iff (L : Layout) (W : Nat) (f : QrObj) :
    gf2IsValid L W f = true ↔
      gf2IsOperable L W f = true ∧
      (0 < f.params.getD 1 0 →
        wordsVal W f.mod (f.n + (if f.params.getD 0 0 % W = 0 then 1 else 0)) =
          2 ^ f.params.getD 0 0 ||| 2 ^ f.params.getD 1 0 ||| 2 ^ f.params.getD 2 0 ||| 2 ^ f.params.getD 3 0 ||| 1 ∧
        ppIsIrred (2 ^ f.params.getD 0 0 ||| 2 ^ f.params.getD 1 0 ||| 2 ^ f.params.getD 2 0 |||
          2 ^ f.params.getD 3 0 ||| 1) = true) := by
  unfold gf2IsValid
  simp only []
  cases ho : gf2IsOperable L W f <;> simp
  by_cases hp : f.params[1]?.getD 0 = 0
  · simp [hp]
  · have hp' : 0 < f.params[1]?.getD 0 := by omega
    simp [hp, hp']

/-! ### curves -/

theorem ecIsOperable2_iff (L : Layout) (W : Nat) (ec : EcObj) :
    ecIsOperable2 L W ec = true ↔
      objIsOperable2 L ec.hdr = true ∧ L.szEc ≤ ec.hdr.keep ∧ ec.hdr.pCount = 6 ∧ ec.hdr.oCount = 1 ∧
      wwIsValid W ec.aOk ec.f.n = true ∧ wwIsValid W ec.bOk ec.f.n = true ∧ 3 ≤ ec.d ∧
      (∀ f ∈ ec.fns, f = true) := by
  simp [ecIsOperable2, and_assoc]

theorem ecIsOperable_iff (L : Layout) (W : Nat) (ec : EcObj) :
    ecIsOperable L W ec = true ↔
      ecIsOperable2 L W ec = true ∧ qrIsOperable L W ec.f = true ∧ ec.f.deep ≤ ec.deep := by
  simp [ecIsOperable, and_assoc]

theorem ecIsOperableGroup_iff (W : Nat) (ec : EcObj) :
    ecIsOperableGroup W ec = true ↔
      wwIsValid W ec.baseOk (2 * ec.f.n) = true ∧ wwIsValid W ec.orderOk (ec.f.n + 1) = true ∧
      ec.order ≠ 0 ∧ ec.cofactor ≠ 0 := by
  simp [ecIsOperableGroup, and_assoc]

/-! ### affine points -/

theorem ecpIsOnA_iff (E : Ecp) (x y : Nat) :
    ecpIsOnA E x y = true ↔
      x < E.p ∧ y < E.p ∧ (y * y) % E.p = (x * x * x + E.a * x + E.b) % E.p := by
  simp only [ecpIsOnA, Bool.and_eq_true, decide_eq_true_eq, onCurve_iff, and_assoc]

/-- a coordinate that is not reduced is rejected although it satisfies the congruence -/
theorem ecpIsOnA_noncanonical (E : Ecp) (x y k : Nat) (hk : 0 < k) : ecpIsOnA E (x + k * E.p) y = false := by
  cases h : ecpIsOnA E (x + k * E.p) y with
  | false => rfl
  | true =>
    have h1 := ((ecpIsOnA_iff E _ y).1 h).1
    have : E.p ≤ k * E.p := Nat.le_mul_of_pos_left _ hk
    omega

theorem ecpIsOnA_noncanonical_y (E : Ecp) (x y k : Nat) (hk : 0 < k) : ecpIsOnA E x (y + k * E.p) = false := by
  cases h : ecpIsOnA E x (y + k * E.p) with
  | false => rfl
  | true =>
    have h1 := ((ecpIsOnA_iff E x _).1 h).2.1
    have : E.p ≤ k * E.p := Nat.le_mul_of_pos_left _ hk
    omega

/-- the congruence alone does not distinguish `x` from `x + k·p` … the range test does -/
theorem ecpIsOnA_congr_shift (E : Ecp) (x y k : Nat) :
    Ecp.onCurve E (x + k * E.p) y = Ecp.onCurve E x y := by
  have hX : (x + k * E.p) % E.p = x % E.p := Nat.add_mul_mod_self_right _ _ _
  have hmul : ∀ u v u' v' : Nat, u % E.p = u' % E.p → v % E.p = v' % E.p → (u * v) % E.p = (u' * v') % E.p := by
    intro u v u' v' h1 h2; rw [Nat.mul_mod, h1, h2, ← Nat.mul_mod]
  have hadd : ∀ u v u' v' : Nat, u % E.p = u' % E.p → v % E.p = v' % E.p → (u + v) % E.p = (u' + v') % E.p := by
    intro u v u' v' h1 h2; rw [Nat.add_mod, h1, h2, ← Nat.add_mod]
  have key : ((x + k * E.p) * (x + k * E.p) * (x + k * E.p) + E.a * (x + k * E.p) + E.b) % E.p =
      (x * x * x + E.a * x + E.b) % E.p :=
    hadd _ _ _ _ (hadd _ _ _ _ (hmul _ _ _ _ (hmul _ _ _ _ hX hX) hX) (hmul _ _ _ _ rfl hX)) rfl
  have h1 := onCurve_iff E (x + k * E.p) y
  have h2 := onCurve_iff E x y
  rw [key] at h1
  cases ha : Ecp.onCurve E (x + k * E.p) y <;> cases hb : Ecp.onCurve E x y <;> simp_all

theorem ec2IsOnA_iff (E : Ec2) (x y : Nat) :
    ec2IsOnA E x y = true ↔ x < 2 ^ E.F.m ∧ y < 2 ^ E.F.m ∧ Ec2.onCurve E x y = true := by
  simp only [ec2IsOnA, Bool.and_eq_true, decide_eq_true_eq, and_assoc]

namespace ObjAux

theorem le_or_shift (x h m : Nat) (hh : 0 < h) : 2 ^ m ≤ x ||| (h <<< m) := by
  have h1 : h <<< m ≤ x ||| (h <<< m) := Nat.right_le_or
  have h2 : 2 ^ m ≤ h <<< m := by
    rw [Nat.shiftLeft_eq]
    exact Nat.le_mul_of_pos_left _ hh
  omega

end ObjAux

/-- a coordinate with bits at or above the degree is rejected -/
theorem ec2IsOnA_high_bits (E : Ec2) (x y h : Nat) (hh : 0 < h) : ec2IsOnA E (x ||| (h <<< E.F.m)) y = false := by
  cases hb : ec2IsOnA E (x ||| (h <<< E.F.m)) y with
  | false => rfl
  | true =>
    have h1 := ((ec2IsOnA_iff E _ y).1 hb).1
    have := ObjAux.le_or_shift x h E.F.m hh
    omega

theorem ec2IsOnA_high_bits_y (E : Ec2) (x y h : Nat) (hh : 0 < h) : ec2IsOnA E x (y ||| (h <<< E.F.m)) = false := by
  cases hb : ec2IsOnA E x (y ||| (h <<< E.F.m)) with
  | false => rfl
  | true =>
    have h1 := ((ec2IsOnA_iff E x _).1 hb).2.1
    have := ObjAux.le_or_shift y h E.F.m hh
    omega

/-! ### non-vacuity: small well-formed objects are accepted, the same with one field damaged are rejected -/

namespace ObjAux

def fns9 : List Bool := [true, true, true, true, true, true, true, true, true]

/-- Z/23 on one 64-bit word -/
def qrT : QrObj := ⟨⟨true, 200, 3, 0⟩, true, true, true, 1, 1, fns9, 0, [23], []⟩

/-- GF(2^5), x^5 + x^2 + 1 -/
def g2T : QrObj := { qrT with mod := [37], params := [5, 2, 0, 0] }

def ecT : EcObj := ⟨⟨true, 300, 6, 1⟩, qrT, true, true, true, true, 3, 1, fns9, 0, 29⟩

def e2T : Ec2 := ⟨⟨3, 0b1011⟩, 1, 1⟩

end ObjAux

open ObjAux in
example : objIsOperable2 lp64 qrT.hdr = true ∧ qrIsOperable lp64 64 qrT = true ∧ zmIsValid lp64 64 qrT = true ∧
    gfpIsOperable lp64 64 qrT = true ∧ gfpIsValid (fun p => p == 23) lp64 64 qrT = true := by decide

open ObjAux in
/-- damaged: null object, keep too small, o_count, p_count, p_count wrapping the size computation is still compared
    with keep, n = 0, a null function pointer, null unity, null modulus, top word 0, even modulus, modulus 1,
    composite modulus -/
example :
    qrIsOperable lp64 64 { qrT with hdr := ⟨false, 200, 3, 0⟩ } = false ∧
    qrIsOperable lp64 64 { qrT with hdr := ⟨true, 143, 3, 0⟩ } = false ∧
    qrIsOperable lp64 64 { qrT with hdr := ⟨true, 200, 3, 1⟩ } = false ∧
    qrIsOperable lp64 64 { qrT with hdr := ⟨true, 200, 4, 0⟩ } = false ∧
    objIsOperable2 lp64 ⟨true, 16, 2 ^ 61 - 1, 0⟩ = true ∧
    objIsOperable2 lp64 ⟨true, 15, 2 ^ 61 - 1, 0⟩ = false ∧
    qrIsOperable lp64 64 { qrT with n := 0 } = false ∧
    qrIsOperable lp64 64 { qrT with no := 0 } = false ∧
    qrIsOperable lp64 64 { qrT with fns := [true, true, true, true, true, true, true, false, true] } = false ∧
    qrIsOperable lp64 64 { qrT with unityOk := false } = false ∧
    zmIsValid lp64 64 { qrT with modOk := false } = false ∧
    zmIsValid lp64 64 { qrT with n := 2, mod := [23, 0] } = false ∧
    gfpIsOperable lp64 64 { qrT with mod := [22] } = false ∧
    gfpIsOperable lp64 64 { qrT with mod := [1] } = false ∧
    gfpIsOperable lp64 64 { qrT with n := 2, mod := [1, 1] } = true ∧
    gfpIsValid (fun p => p == 23) lp64 64 { qrT with mod := [21] } = false := by decide

open ObjAux in
example : gf2IsOperable lp64 64 g2T = true ∧ gf2IsValid lp64 64 g2T = true ∧
    gf2IsValid lp64 64 { g2T with mod := [61], params := [5, 4, 3, 2] } = true := by decide

open ObjAux in
/-- damaged: null params, p1 ≥ p0, p2 = p1 > 0, p3 = 0 with p2 > 0, n or no not matching the degree, top word 0,
    modulus not the described polynomial, reducible polynomial (x^5 + x + 1 = (x^2 + x + 1)(x^3 + x^2 + 1));
    p1 = 0 (reserved) is operable and nothing more is checked -/
example :
    gf2IsOperable lp64 64 { g2T with paramsOk := false } = false ∧
    gf2IsOperable lp64 64 { g2T with params := [5, 5, 0, 0] } = false ∧
    gf2IsOperable lp64 64 { g2T with params := [5, 2, 2, 1] } = false ∧
    gf2IsOperable lp64 64 { g2T with params := [5, 4, 3, 0] } = false ∧
    gf2IsOperable lp64 64 { g2T with n := 2 } = false ∧
    gf2IsOperable lp64 64 { g2T with no := 2 } = false ∧
    gf2IsOperable lp64 64 { g2T with mod := [0] } = false ∧
    gf2IsOperable lp64 64 { g2T with params := [64, 4, 3, 1], no := 8, mod := [27] } = false ∧
    gf2IsOperable lp64 64 { g2T with params := [64, 4, 3, 1], no := 8, mod := [27, 1] } = true ∧
    gf2IsValid lp64 64 { g2T with mod := [39] } = false ∧
    gf2IsValid lp64 64 { g2T with mod := [35], params := [5, 1, 0, 0] } = false ∧
    gf2IsValid lp64 64 { g2T with mod := [39], params := [5, 0, 0, 0] } = true := by decide

open ObjAux in
example : ecIsOperable2 lp64 64 ecT = true ∧ ecIsOperable lp64 64 ecT = true ∧ ecIsOperableGroup 64 ecT = true := by
  decide

open ObjAux in
example :
    ecIsOperable2 lp64 64 { ecT with hdr := ⟨true, 175, 6, 1⟩ } = false ∧
    ecIsOperable2 lp64 64 { ecT with hdr := ⟨true, 300, 6, 0⟩ } = false ∧
    ecIsOperable2 lp64 64 { ecT with aOk := false } = false ∧
    ecIsOperable2 lp64 64 { ecT with d := 2 } = false ∧
    ecIsOperable lp64 64 { ecT with f := { qrT with no := 0 } } = false ∧
    ecIsOperable lp64 64 { ecT with f := { qrT with deep := 1 } } = false ∧
    ecIsOperableGroup 64 { ecT with baseOk := false } = false ∧
    ecIsOperableGroup 64 { ecT with order := 0 } = false ∧
    ecIsOperableGroup 64 { ecT with cofactor := 0 } = false := by decide

example : ecpIsOnA ⟨23, 1, 1⟩ 3 10 = true ∧ ecpIsOnA ⟨23, 1, 1⟩ 3 11 = false ∧
    ecpIsOnA ⟨23, 1, 1⟩ 26 10 = false ∧ Ecp.onCurve ⟨23, 1, 1⟩ 26 10 = true ∧
    ecpIsOnA ⟨23, 1, 1⟩ 3 33 = false := by decide

open ObjAux in
example : ec2IsOnA e2T 2 5 = true ∧ ec2IsOnA e2T 2 4 = false ∧ ec2IsOnA e2T (2 ||| (1 <<< 3)) 5 = false ∧
    ec2IsOnA e2T 2 (5 ||| (1 <<< 3)) = false := by decide

example : mtMtxIsValid true 40 = true ∧ mtMtxIsValid false 40 = false ∧ mtMtxIsValid false 0 = true := by decide

end Bee2V.C12

import Bee2V.C12.LemmasBridgeC05
import Bee2V.C12.PropsEc2
import Bee2V.C05.PropsFld
/-!
C12 — irreducibility, unconditional.  `ppIsIrred` of ModelPp.lean is C05's `ppIsIrredV` (LemmasBridgeC05), for which
Bee2V.C05.PropsFld proves Ben-Or in both directions: TRUE ⇔ `NatIrred` ⇔ `Irreducible` over (ZMod 2)[X].
This closes the former partial statement (PropsVal.lean keeps the kernel enumeration for degree ≤ 11, `ppIsIrred_enumerated_le11`, as an independent check).
-/
namespace Bee2V.C12
open Bee2V.C05 Bee2V.C05.Fld

/-- ppIsIrred returns TRUE exactly for the irreducible polynomials of GF(2)[x], every degree
    (`NatIrred f`: degree ≥ 1 and every factorisation f = b·c over GF(2) is trivial). -/
theorem ppIsIrred_exact (f : Nat) : ppIsIrred f = true ↔ NatIrred f := by
  rw [ppIsIrred_eq_C05]; exact ppIsIrredV_iff f

/-- the same against Mathlib's `Irreducible` over (ZMod 2)[X] (`decode`: bit i ↦ coefficient of X^i, a ring isomorphism
    for xor / carry-less product: `Bee2V.C05.decode_ring_iso`). -/
theorem ppIsIrred_irreducible (f : Nat) : ppIsIrred f = true ↔ Irreducible (decode f) := by
  rw [ppIsIrred_eq_C05]; exact ppIsIrredV_iff_irreducible f

/-- belsValM(m0, len) = ERR_OK ⇔ len ∈ {16, 24, 32} and x^(8 len) + m0(x) is irreducible over GF(2);
    ERR_BAD_INPUT ⇔ wrong length; ERR_BAD_PUBKEY otherwise. -/
theorem belsValM_exact (m0 len : Nat) :
    (belsValM m0 len = 0 ↔ (len = 16 ∨ len = 24 ∨ len = 32) ∧ Irreducible (decode (2 ^ (8 * len) + m0 % 2 ^ (8 * len)))) ∧
    (belsValM m0 len = 109 ↔ ¬ (len = 16 ∨ len = 24 ∨ len = 32)) := by
  unfold belsValM
  by_cases hl : len ≠ 16 ∧ len ≠ 24 ∧ len ≠ 32
  · have : ¬ (len = 16 ∨ len = 24 ∨ len = 32) := by omega
    simp [hl, this]
  · have hl' : len = 16 ∨ len = 24 ∨ len = 32 := by omega
    rw [if_neg hl]
    cases h : ppIsIrred (2 ^ (8 * len) + m0 % 2 ^ (8 * len))
    · have hn : ¬ Irreducible (decode (2 ^ (8 * len) + m0 % 2 ^ (8 * len))) := by
        rw [← ppIsIrred_irreducible, h]; simp
      simp [hl', hn]
    · have hy : Irreducible (decode (2 ^ (8 * len) + m0 % 2 ^ (8 * len))) := (ppIsIrred_irreducible _).1 h
      simp [hl', hy]

/-- the field check of dstuParamsVal (gf2IsValid inside ec2IsValid) in absolute form: dstuParamsVal = ERR_OK ⇔ … ∧ the
    reduction polynomial is irreducible over GF(2) ∧ … (the other conditions as in `dstuParamsVal_ok_iff`). -/
theorem dstuParamsVal_ok_iff_irreducible (isPrime : Nat → Bool) (W : Nat) (v : DstuVals) :
    dstuParamsValV isPrime W v = 0 ↔
      ∃ E, dstuCreate W v = some E ∧
        160 < bitSize (v.n % 2 ^ (W * wordSize W (2 ^ v.p0 - 1))) ∧
        Irreducible (decode E.F.mod) ∧ v.B ≠ 0 ∧
        E.onCurve v.xP v.yP = true ∧ hasse2 W (wordSize W (2 ^ v.p0 - 1)) v.p0 v.n v.c = true ∧
        ec2IsSafeGroup isPrime v.p0 v.n 32 = true ∧
        E.mul (v.n % 2 ^ (W * wordSize W (2 ^ v.p0 - 1))) (some (v.xP, v.yP)) = none := by
  rw [dstuParamsVal_ok_iff]
  constructor
  · rintro ⟨E, h1, h2, h3, h4⟩; exact ⟨E, h1, h2, (ppIsIrred_irreducible _).1 h3, h4⟩
  · rintro ⟨E, h1, h2, h3, h4⟩; exact ⟨E, h1, h2, (ppIsIrred_irreducible _).2 h3, h4⟩

/-- non-vacuity: the standard bels polynomial x^128 + x^7 + x^2 + x + 1 and the reduction polynomial of the first
    DSTU curve x^163 + x^7 + x^6 + x^3 + 1 are irreducible; x^4 + x^2 + 1 is not -/
example : NatIrred (2 ^ 128 + 0x87) ∧ NatIrred (2 ^ 163 + 2 ^ 7 + 2 ^ 6 + 2 ^ 3 + 1) ∧ ¬ NatIrred 0b10101 := by
  decide +kernel

end Bee2V.C12

import Bee2V.C12.LemmasSprp
/-!
C12 — priIsPrimeW against the textbook notion "strong probable prime" and the three literature bounds.

What was `priIsPrimeW_iff_prime_partial` (prime ⇒ accepted for all words; composite ⇒ rejected only below 2^16) is
sharpened to: the witness loop of the code IS the strong-probable-prime test (`Spec.SPRP`, defined without reference to
the model), and therefore `priIsPrimeW W a ⇔ Nat.Prime a` for ALL a < 2^W follows from exactly three published
computations, stated as hypotheses in their standard form (they cannot be re-run in the kernel: ψ₂ alone needs ≈ 7·10^5
Miller–Rabin evaluations ≈ 35 min of kernel time, the 64-bit bound is out of reach):
  Cited.PSW       Pomerance–Selfridge–Wagstaff 1980: no composite below 1373653 is a strong pseudoprime to 2 and 3;
  Cited.Jaeschke  Jaeschke 1993: none below 4759123141 to 2, 7 and 61;
  Cited.Sinclair  Sinclair 2011 (see Forišek–Jančina 2015; miller-rabin.appspot.com): none below 2^64 to
                  2, 325, 9375, 28178, 450775, 9780504, 1795265022.
Unconditional parts: `priIsPrimeW_accepts_primes`, `priIsPrimeW_exact_16bit`, `priIsPrimeW_thresholds_tight` (PropsPri).
-/
namespace Bee2V.C12

/-- the per-base loop of priIsPrimeW (power, then up to s − 1 squarings with both exits) decides "a is a strong probable
    prime to base b" in the textbook sense: a − 1 = r·2^s, b^r ≡ 1 or b^(r·2^i) ≡ −1 for some i < s. -/
theorem priIsPrimeW_witness_is_sprp (a r s b : Nat) (ha : 2 < a) (hr : r % 2 = 1) (hrs : r * 2 ^ s = a - 1) (hs : 0 < s) :
    witnessW a r s b = true ↔ Spec.SPRP b a := witnessW_iff_sprp a r s b ha hr hrs hs

/-- priIsPrimeW W a ⇔ a prime, for EVERY word a < 2^W, given the three cited computations (only the ranges the code
    actually relies on: {2,3} below 1373653; {2,7,61} on [1373653, 4759123141); the 7 bases on [4759123141, 2^64)). -/
theorem priIsPrimeW_iff_prime_of_cited_bounds (W a : Nat) (hW : W = 16 ∨ W = 32 ∨ W = 64) (ha : a < 2 ^ W)
    (h1 : Cited.PSW) (h2 : W ≠ 16 → Cited.JaeschkeRange) (h3 : W = 64 → Cited.SinclairRange) :
    priIsPrimeW W a = true ↔ Nat.Prime a := priIsPrimeW_iff_prime_of_cited_range W a hW ha h1 h2 h3

/-- the 64-bit build with the bounds in their published (full-range) form. -/
theorem priIsPrimeW64_iff_prime_of_cited_bounds (a : Nat) (ha : a < 2 ^ 64)
    (h1 : Cited.PSW) (h2 : Cited.Jaeschke) (h3 : Cited.Sinclair) :
    priIsPrimeW 64 a = true ↔ Nat.Prime a := priIsPrimeW64_iff_prime_of_cited a ha h1 h2 h3

/-- the bound of Cited.PSW is tight (so the `<` of `if (a < 1373653)` in pri.c cannot be `<=`): 1373653 = 829·1657 is a strong
    probable prime to 2 and to 3. -/
theorem psw_bound_tight : Spec.SPRP 2 1373653 ∧ Spec.SPRP 3 1373653 ∧ ¬ Nat.Prime 1373653 := by
  refine ⟨?_, ?_, ?_⟩
  · exact (witnessW_iff_sprp 1373653 343413 2 2 (by decide) (by decide) (by decide) (by decide)).1 (by decide +kernel)
  · exact (witnessW_iff_sprp 1373653 343413 2 3 (by decide) (by decide) (by decide) (by decide)).1 (by decide +kernel)
  · intro h
    have : (829 : Nat) ∣ 1373653 := ⟨1657, by decide⟩
    rcases (Nat.dvd_prime h).1 this with h1 | h1 <;> omega

end Bee2V.C12

/-
C12 — lemmas on the model of src/math/pri.c (ModelPri.lean): the Miller–Rabin style tests accept every prime.
-/
import Mathlib.FieldTheory.Finite.Basic
import Mathlib.Data.Nat.Prime.Basic
import Bee2V.C12.ModelPri
import Bee2V.C12.LemmasPri16
import Bee2V.C12.LemmasNext
namespace Bee2V.C12
open Bee2V.Gen.C12

/-! ### powMod = modular power -/

/-- the square-and-multiply of the model is the modular power (all `m`, also `m = 0` where `% 0` is the identity,
    and `m = 1` where both sides are `0`) -/
theorem powMod_eq (b e m : Nat) : powMod b e m = b ^ e % m := by
  induction e using Nat.strong_induction_on with
  | _ e ih =>
    rw [powMod]
    split
    · next h => subst h; simp
    · next h =>
      have hh := ih (e / 2) (by omega)
      simp only [hh]
      have he : e = e / 2 + e / 2 + e % 2 := by omega
      split
      · next h2 =>
        rw [← Nat.mul_mod, ← Nat.pow_add]
        congr 2; omega
      · next h2 =>
        rw [← Nat.mul_mod, ← Nat.pow_add, Nat.mod_mul_mod]
        have : e = (e / 2 + e / 2) + 1 := by omega
        conv => rhs; rw [this, Nat.pow_succ]

theorem powMod_lt (b e m : Nat) (hm : 0 < m) : powMod b e m < m := by
  rw [powMod_eq]; exact Nat.mod_lt _ hm

/-! ### splitOdd -/

/-- general form with the accumulator: `r·2^s` is preserved, the returned `r'` is odd -/
theorem splitOdd_spec_acc : ∀ (fuel r s r' s' : Nat), r ≠ 0 → r < 2 ^ fuel → splitOdd fuel r s = (r', s') →
    r' % 2 = 1 ∧ r' * 2 ^ s' = r * 2 ^ s ∧ s ≤ s' ∧ (r % 2 = 0 → s < s')
  | 0, r, s, r', s', h0, hlt, _ => by simp at hlt; omega
  | fuel + 1, r, s, r', s', h0, hlt, h => by
    rw [splitOdd] at h
    split at h
    · next hc =>
      have hlt' : r / 2 < 2 ^ fuel := by rw [Nat.pow_succ] at hlt; omega
      have ih := splitOdd_spec_acc fuel (r / 2) (s + 1) r' s' (by omega) hlt' h
      refine ⟨ih.1, ?_, by omega, fun _ => by omega⟩
      rw [ih.2.1, Nat.pow_succ]
      have : r = r / 2 * 2 := by omega
      conv => rhs; rw [this]
      rw [Nat.mul_assoc, Nat.mul_comm (2 ^ s) 2]
    · next hc =>
      simp only [Prod.mk.injEq] at h
      obtain ⟨rfl, rfl⟩ := h
      refine ⟨by omega, rfl, Nat.le_refl _, fun h2 => by omega⟩

/-- `a` odd, `a > 1`: `a - 1 = r·2^s` with `r` odd and `s > 0` -/
theorem splitOdd_spec (fuel a r s : Nat) (hodd : a % 2 = 1) (h1 : 1 < a) (hf : a - 1 < 2 ^ fuel)
    (h : splitOdd fuel (a - 1) 0 = (r, s)) : r % 2 = 1 ∧ r * 2 ^ s = a - 1 ∧ 0 < s := by
  have := splitOdd_spec_acc fuel (a - 1) 0 r s (by omega) hf h
  refine ⟨this.1, by simpa using this.2.1, this.2.2.2 (by omega)⟩

/-! ### square roots of 1 modulo a prime -/

theorem sqrt_one_of_prime {p x : Nat} (hp : Nat.Prime p) (hx : x < p) (h : x * x % p = 1) :
    x = 1 ∨ x = p - 1 := by
  have hp2 := hp.two_le
  have hx0 : x ≠ 0 := by rintro rfl; simp at h
  have hmod : 1 ≡ x * x [MOD p] := by
    unfold Nat.ModEq; rw [h, Nat.mod_eq_of_lt (by omega)]
  have hge : 1 ≤ x * x := Nat.mul_pos (by omega) (by omega)
  have hdvd : p ∣ x * x - 1 := (Nat.modEq_iff_dvd' hge).1 hmod
  have hfac : x * x - 1 = (x - 1) * (x + 1) := by
    obtain ⟨y, rfl⟩ : ∃ y, x = y + 1 := ⟨x - 1, by omega⟩
    simp only [Nat.add_sub_cancel]
    have : (y + 1) * (y + 1) = y * (y + 1 + 1) + 1 := by ring
    rw [this, Nat.add_sub_cancel]
  rw [hfac] at hdvd
  rcases (Nat.Prime.dvd_mul hp).1 hdvd with h1 | h1
  · left
    have := Nat.eq_zero_of_dvd_of_lt h1 (by omega)
    omega
  · right
    have := Nat.le_of_dvd (by omega) h1
    omega

/-! ### the squaring loops accept for a prime modulus -/

theorem sqLoopW_of_prime {a : Nat} (hp : Nat.Prime a) : ∀ (k base : Nat), base < a → base ≠ 1 → base ≠ a - 1 →
    base ^ (2 ^ (k + 1)) % a = 1 → sqLoopW a k base = true
  | 0, base, hlt, h1, h2, h => by
    exfalso
    have : base * base % a = 1 := by simpa [Nat.pow_succ, Nat.pow_zero] using h
    rcases sqrt_one_of_prime hp hlt this with h | h <;> contradiction
  | k + 1, base, hlt, h1, h2, h => by
    rw [sqLoopW]
    have ha := hp.pos
    split
    · rfl
    · next hne =>
      split
      · next h1' =>
        exfalso
        rcases sqrt_one_of_prime hp hlt h1' with h | h <;> contradiction
      · next hne1 =>
        apply sqLoopW_of_prime hp k _ (Nat.mod_lt _ ha) hne1 hne
        rw [← Nat.pow_mod, ← Nat.pow_two, ← Nat.pow_mul, ← Nat.pow_succ']
        exact h

theorem sqLoopRM_of_prime {a : Nat} (hp : Nat.Prime a) : ∀ (k base : Nat), base < a → base ≠ 1 → base ≠ a - 1 →
    base ^ (2 ^ (k + 1)) % a = 1 → sqLoopRM a k base = true
  | 0, base, hlt, h1, h2, h => by
    exfalso
    have : base * base % a = 1 := by simpa [Nat.pow_succ, Nat.pow_zero] using h
    rcases sqrt_one_of_prime hp hlt this with h | h <;> contradiction
  | k + 1, base, hlt, h1, h2, h => by
    rw [sqLoopRM]
    have ha := hp.pos
    split
    · next h1' =>
      exfalso
      rcases sqrt_one_of_prime hp hlt h1' with h | h <;> contradiction
    · next hne1 =>
      split
      · rfl
      · next hne =>
        apply sqLoopRM_of_prime hp k _ (Nat.mod_lt _ ha) hne1 (by omega)
        rw [← Nat.pow_mod, ← Nat.pow_two, ← Nat.pow_mul, ← Nat.pow_succ']
        exact h

/-! ### one base -/

/-- Fermat in the form used below -/
theorem fermat_nat {a b : Nat} (hp : Nat.Prime a) (hb : ¬ a ∣ b) : b ^ (a - 1) % a = 1 := by
  have hc : Nat.Coprime b a := ((Nat.Prime.coprime_iff_not_dvd hp).2 hb).symm
  have := Nat.ModEq.pow_totient hc
  rw [Nat.totient_prime hp] at this
  unfold Nat.ModEq at this
  rw [this, Nat.mod_eq_of_lt hp.one_lt]

/-- `x₀ = b^r mod a` satisfies `x₀^(2^s) ≡ 1` -/
theorem base_pow_two_pow {a r s b : Nat} (hp : Nat.Prime a) (hrs : r * 2 ^ s = a - 1) (hb : ¬ a ∣ b) :
    (b ^ r % a) ^ (2 ^ s) % a = 1 := by
  rw [← Nat.pow_mod, ← Nat.pow_mul, hrs]
  exact fermat_nat hp hb

theorem witnessW_of_prime {a r s b : Nat} (hp : Nat.Prime a) (_h2 : 2 < a) (hrs : r * 2 ^ s = a - 1) (hs : 0 < s)
    (hb : ¬ a ∣ b) : witnessW a r s b = true := by
  unfold witnessW
  simp only [powMod_eq]
  split
  · rfl
  · next hne =>
    have hne' : b ^ r % a ≠ 1 ∧ b ^ r % a ≠ a - 1 := by omega
    apply sqLoopW_of_prime hp (s - 1) _ (Nat.mod_lt _ hp.pos) hne'.1 hne'.2
    rw [Nat.sub_add_cancel hs]
    exact base_pow_two_pow hp hrs hb

/-! ### MAIN 1: priIsPrimeW accepts every prime word -/

theorem basesW_lt (W a : Nat) (hW : W = 16 ∨ W = 32 ∨ W = 64) (h3 : 3 < a) :
    ∀ b ∈ basesW W a, 0 < b ∧ b < a := by
  intro b hb
  unfold basesW at hb
  rcases hW with rfl | rfl | rfl
  · simp [bases16] at hb; omega
  · simp only [show (32 : Nat) ≠ 16 by decide, if_false, if_true] at hb
    split at hb
    · simp [bases16] at hb; omega
    · simp [bases32] at hb; omega
  · simp only [show (64 : Nat) ≠ 16 by decide, show (64 : Nat) ≠ 32 by decide, if_false] at hb
    split at hb
    · simp [bases16] at hb; omega
    · split at hb
      · simp [bases32] at hb; omega
      · simp [bases64] at hb; omega

theorem priIsPrimeW_of_prime (W a : Nat) (hW : W = 16 ∨ W = 32 ∨ W = 64) (ha : a < 2 ^ W) (hp : Nat.Prime a) :
    priIsPrimeW W a = true := by
  unfold priIsPrimeW
  split
  · next hc =>
    have : a = 2 ∨ a = 3 := by
      rcases hc with hc | hc
      · have := hp.two_le; omega
      · left
        exact ((Nat.prime_dvd_prime_iff_eq Nat.prime_two hp).1 (Nat.dvd_of_mod_eq_zero hc)).symm
    simpa using this
  · next hc =>
    have h3 : 3 < a := by omega
    have hodd : a % 2 = 1 := by omega
    rcases hsp : splitOdd W (a - 1) 0 with ⟨r, s⟩
    obtain ⟨_, hrs, hs⟩ := splitOdd_spec W a r s hodd (by omega) (by omega) hsp
    simp only [List.all_reverse, List.all_eq_true]
    intro b hb
    have hbl := basesW_lt W a hW h3 b hb
    apply witnessW_of_prime hp (by omega) hrs hs
    intro hd
    have := Nat.le_of_dvd hbl.1 hd
    omega

/-! ### MAIN 2: priRMTest (tape-driven) accepts every prime as long as the generator delivers bases -/

/-- the skeleton of `rmLoop` that only follows the draws -/
def drawsOk (a : Nat) : Nat → List Nat → Bool
  | 0, _ => true
  | iter + 1, tape =>
    match drawBase a 16 0 tape with
    | (none, _) => false
    | (some _, t) => drawsOk a iter t

/-- what `drawBase` returns comes from the tape; the unread tape is a part of the tape -/
theorem drawBase_mem (a : Nat) : ∀ (fuel i : Nat) (tape : List Nat),
    (∀ b, (drawBase a fuel i tape).1 = some b → b ∈ tape ∧ b ≠ 1 ∧ b + 1 ≠ a) ∧
    (∀ x ∈ (drawBase a fuel i tape).2, x ∈ tape)
  | 0, i, tape => by simp [drawBase]
  | fuel + 1, i, [] => by rw [drawBase]; split <;> simp
  | fuel + 1, i, b :: t => by
    rw [drawBase]
    split
    · simp
    · split
      · have ih := drawBase_mem a fuel (i + 1) t
        refine ⟨fun x hx => ?_, fun x hx => List.mem_cons_of_mem _ (ih.2 x hx)⟩
        have := ih.1 x hx
        exact ⟨List.mem_cons_of_mem _ this.1, this.2⟩
      · next hne =>
        refine ⟨fun x hx => ?_, fun x hx => List.mem_cons_of_mem _ hx⟩
        simp only [Option.some.injEq] at hx
        subst hx
        exact ⟨List.mem_cons_self, by omega, by omega⟩

theorem rmLoop_of_prime {a r s : Nat} (hp : Nat.Prime a) (hrs : r * 2 ^ s = a - 1) (hs : 0 < s) :
    ∀ (iter : Nat) (tape : List Nat), (∀ b ∈ tape, 0 < b ∧ b < a) →
      (rmLoop a r s iter tape).1 = drawsOk a iter tape
  | 0, tape, _ => by simp [rmLoop, drawsOk]
  | iter + 1, tape, ht => by
    rw [rmLoop, drawsOk]
    have hm := drawBase_mem a 16 0 tape
    rcases hd : drawBase a 16 0 tape with ⟨o, t⟩
    rw [hd] at hm
    have ht' : ∀ b ∈ t, 0 < b ∧ b < a := fun b hb => ht b (hm.2 b hb)
    have ih := rmLoop_of_prime hp hrs hs iter t ht'
    cases o with
    | none => rfl
    | some b =>
      have hb := ht b (hm.1 b rfl).1
      have hnd : ¬ a ∣ b := fun hdv => by have := Nat.le_of_dvd hb.1 hdv; omega
      simp only [powMod_eq]
      split
      · exact ih
      · next hne =>
        have hsq : sqLoopRM a (s - 1) (b ^ r % a) = true := by
          apply sqLoopRM_of_prime hp (s - 1) _ (Nat.mod_lt _ hp.pos) (by omega) (by omega)
          rw [Nat.sub_add_cancel hs]
          exact base_pow_two_pow hp hrs hnd
        rw [hsq]
        exact ih

/-- a prime is rejected by `priRMTest` only when the generator fails to deliver a base
    (`drawsOk` = false: `zzRandNZMod` fails or 15 draws in a row hit ±1) -/
theorem priRMTest_of_prime (a iter : Nat) (tape : List Nat) (hp : Nat.Prime a) (ht : ∀ b ∈ tape, 0 < b ∧ b < a) :
    priRMTest a iter tape = (decide (a < 49) || drawsOk a iter tape) := by
  unfold priRMTest priRMTestT
  have h2 := hp.two_le
  split
  · next hev =>
    have : a = 2 := ((Nat.prime_dvd_prime_iff_eq Nat.prime_two hp).1 (Nat.dvd_of_mod_eq_zero hev)).symm
    subst this; rfl
  · next hodd =>
    split
    · next hlt =>
      have h3 : a = 3 ∨ a % 3 ≠ 0 := by
        by_cases h : a % 3 = 0
        · left; exact ((Nat.prime_dvd_prime_iff_eq Nat.prime_three hp).1 (Nat.dvd_of_mod_eq_zero h)).symm
        · right; exact h
      have h5 : a = 5 ∨ a % 5 ≠ 0 := by
        by_cases h : a % 5 = 0
        · left; exact ((Nat.prime_dvd_prime_iff_eq Nat.prime_five hp).1 (Nat.dvd_of_mod_eq_zero h)).symm
        · right; exact h
      have h1 : a ≠ 1 := by omega
      simp [hlt, h1, h3, h5]
    · next hge =>
      rcases hsp : splitOdd (bitSize a) (a - 1) 0 with ⟨r, s⟩
      have hf : a - 1 < 2 ^ bitSize a := by have := bitSize_lt a; omega
      obtain ⟨_, hrs, hs⟩ := splitOdd_spec (bitSize a) a r s (by omega) (by omega) hf hsp
      simp only [rmLoop_of_prime hp hrs hs iter tape ht, hge, decide_false, Bool.false_or]

/-! ### priIsSGPrime -/

theorem priIsSGPrime_of_prime (q : Nat) (hq : Nat.Prime q) (hp : Nat.Prime (2 * q + 1)) : priIsSGPrime q = true := by
  unfold priIsSGPrime
  have hq2 := hq.two_le
  simp only [powMod_eq, decide_eq_true_eq]
  rw [← Nat.pow_mod, Nat.mod_eq_of_lt (a := 1) (by omega)]
  have h4 : 4 ^ q = 2 ^ (2 * q + 1 - 1) := by
    rw [Nat.add_sub_cancel, Nat.pow_mul]
  rw [h4]
  apply fermat_nat hp
  intro hd
  have := Nat.le_of_dvd (by decide) hd
  omega

/-! ### priIsSGPrime, converse (Pocklington / Demytko with the factored part `q` of `p - 1 = 2q`) -/

theorem pow4_mod9 (q : Nat) (h : 4 ^ q % 9 = 1) : q % 3 = 0 := by
  have h1 : 4 ^ q % 9 = 4 ^ (q % 3) % 9 := by
    conv_lhs => rw [← Nat.div_add_mod q 3, Nat.pow_add, Nat.pow_mul, Nat.mul_mod, Nat.pow_mod]
    simp
  rw [h1] at h
  rcases (by omega : q % 3 = 0 ∨ q % 3 = 1 ∨ q % 3 = 2) with h3 | h3 | h3
  · exact h3
  · rw [h3] at h; simp at h
  · rw [h3] at h; simp at h

/-- every prime factor `ℓ ≠ 3` of `p = 2q + 1` is `p` itself when `4^q ≡ 1 (mod p)` -/
theorem sg_factor {q l : Nat} (hq : q.Prime) (hqodd : q % 2 = 1) (hl : l.Prime) (hl3 : l ≠ 3)
    (hdvd : l ∣ 2 * q + 1) (h : 4 ^ q % (2 * q + 1) = 1) : l = 2 * q + 1 := by
  have := Fact.mk hl
  have hmodl : 4 ^ q % l = 1 % l := by rw [← Nat.mod_mod_of_dvd _ hdvd, h]
  have hz : (4 : ZMod l) ^ q = 1 := by
    have := (ZMod.natCast_eq_natCast_iff' (4 ^ q) 1 l).2 hmodl
    simpa using this
  have hord : orderOf (4 : ZMod l) ∣ q := orderOf_dvd_of_pow_eq_one hz
  rcases (Nat.dvd_prime hq).1 hord with h1 | h1
  · exfalso
    have h41 : (4 : ZMod l) = 1 := orderOf_eq_one_iff.1 h1
    have h41' : ((4 : ℕ) : ZMod l) = ((1 : ℕ) : ZMod l) := by simpa using h41
    have hm := (ZMod.natCast_eq_natCast_iff' 4 1 l).1 h41'
    have hd : l ∣ 4 - 1 := (Nat.modEq_iff_dvd' (by decide)).1 (Eq.symm hm)
    exact hl3 ((Nat.prime_dvd_prime_iff_eq hl Nat.prime_three).1 hd)
  · have h40 : (4 : ZMod l) ≠ 0 := by
      intro h0
      rw [h0, zero_pow hq.ne_zero] at hz
      exact zero_ne_one hz
    have hd := ZMod.orderOf_dvd_card_sub_one h40
    rw [h1] at hd
    have hlodd : l % 2 = 1 := by
      rcases hl.eq_two_or_odd with h2 | h2
      · subst h2; obtain ⟨c, hc⟩ := hdvd; omega
      · exact h2
    have h2d : 2 ∣ l - 1 := Nat.dvd_of_mod_eq_zero (by omega)
    have hcop : Nat.Coprime 2 q := (Nat.coprime_primes Nat.prime_two hq).2 (by omega)
    have hmul : 2 * q ∣ l - 1 := Nat.Coprime.mul_dvd_of_dvd_of_dvd hcop h2d hd
    have hl2 := hl.two_le
    have hle := Nat.le_of_dvd (by omega) hmul
    have hle2 := Nat.le_of_dvd (by omega) hdvd
    omega

/-- `priIsSGPrime q = true` for an odd prime `q` proves that `2q + 1` is prime -/
theorem priIsSGPrime_sound (q : Nat) (hq : q.Prime) (hqodd : q % 2 = 1) (h : priIsSGPrime q = true) :
    Nat.Prime (2 * q + 1) := by
  have hq2 := hq.two_le
  have h1 : 4 ^ q % (2 * q + 1) = 1 := by
    unfold priIsSGPrime at h
    simp only [powMod_eq, decide_eq_true_eq] at h
    rwa [← Nat.pow_mod, Nat.mod_eq_of_lt (a := 1) (by omega)] at h
  have hp1 : 2 * q + 1 ≠ 1 := by omega
  by_cases h3 : Nat.minFac (2 * q + 1) = 3
  · exfalso
    have h3d : 3 ∣ 2 * q + 1 := h3 ▸ Nat.minFac_dvd _
    obtain ⟨m, hm⟩ := h3d
    have hm1 : m ≠ 1 := by omega
    by_cases h3' : Nat.minFac m = 3
    · have h3m : 3 ∣ m := h3' ▸ Nat.minFac_dvd m
      have h9 : 9 ∣ 2 * q + 1 := by obtain ⟨c, hc⟩ := h3m; exact ⟨c, by omega⟩
      have h49 : 4 ^ q % 9 = 1 := by rw [← Nat.mod_mod_of_dvd _ h9, h1]
      have hq3 : q % 3 = 0 := pow4_mod9 q h49
      have : q = 3 := ((Nat.prime_dvd_prime_iff_eq Nat.prime_three hq).1 (Nat.dvd_of_mod_eq_zero hq3)).symm
      obtain ⟨c, hc⟩ := h9
      omega
    · have hl := Nat.minFac_prime hm1
      have hdv : Nat.minFac m ∣ 2 * q + 1 := Dvd.dvd.trans (Nat.minFac_dvd m) ⟨3, by omega⟩
      have heq := sg_factor hq hqodd hl h3' hdv h1
      have hle := Nat.minFac_le (n := m) (by omega)
      omega
  · have heq := sg_factor hq hqodd (Nat.minFac_prime hp1) h3 (Nat.minFac_dvd _) h1
    rw [← heq]
    exact Nat.minFac_prime hp1

/-- for odd primes `q`: the model's Demytko test decides exactly whether `2q + 1` is prime -/
theorem priIsSGPrime_iff (q : Nat) (hq : q.Prime) (hqodd : q % 2 = 1) :
    priIsSGPrime q = true ↔ Nat.Prime (2 * q + 1) :=
  ⟨priIsSGPrime_sound q hq hqodd, priIsSGPrime_of_prime q hq⟩
/-! ### the trial division of LemmasPri16 is `Nat.Prime` -/

theorem tdLoop_iff (n : Nat) : ∀ (fuel d : Nat), tdLoop n fuel d = true ↔
    ∀ j, j < fuel → (d + 2 * j) * (d + 2 * j) ≤ n → n % (d + 2 * j) ≠ 0
  | 0, d => by simp [tdLoop]
  | fuel + 1, d => by
    rw [tdLoop]
    cases h1 : n.blt (d * d) with
    | true =>
      rw [Nat.blt_eq] at h1
      simp only [cond_true, true_iff]
      intro j _ hle
      have : d * d ≤ (d + 2 * j) * (d + 2 * j) := Nat.mul_le_mul (by omega) (by omega)
      omega
    | false =>
      have h1' : d * d ≤ n := by
        apply Nat.le_of_not_lt; intro h; rw [← Nat.blt_eq] at h; rw [h] at h1; cases h1
      simp only [cond_false]
      cases h2 : (n % d).beq 0 with
      | true =>
        have h2' : n % d = 0 := Nat.eq_of_beq_eq_true h2
        simp only [cond_true, Bool.false_eq_true, false_iff]
        intro hall
        exact hall 0 (by omega) (by simpa using h1') (by simpa using h2')
      | false =>
        have h2' : n % d ≠ 0 := Nat.ne_of_beq_eq_false h2
        simp only [cond_false]
        rw [tdLoop_iff n fuel (d + 2)]
        constructor
        · intro hall j hj hle
          cases j with
          | zero => simpa using h2'
          | succ j =>
            have := hall j (by omega)
            rw [show d + 2 + 2 * j = d + 2 * (j + 1) by omega] at this
            exact this hle
        · intro hall j hj hle
          have := hall (j + 1) (by omega)
          rw [show d + 2 * (j + 1) = d + 2 + 2 * j by omega] at this
          exact this hle

theorem isPrimeTD_iff (n : Nat) : isPrimeTD n = true ↔ Nat.Prime n := by
  have hspec : isPrimeTD n = true ↔ 2 ≤ n ∧ (n = 2 ∨ (n % 2 ≠ 0 ∧
      ∀ j, j < n → (3 + 2 * j) * (3 + 2 * j) ≤ n → n % (3 + 2 * j) ≠ 0)) := by
    unfold isPrimeTD
    have hne : ((!(n % 2).beq 0) = true) ↔ n % 2 ≠ 0 := by
      cases h : (n % 2).beq 0 with
      | true => simp [Nat.eq_of_beq_eq_true h]
      | false => simpa using Nat.ne_of_beq_eq_false h
    rw [Bool.and_eq_true, Bool.or_eq_true, Bool.and_eq_true, Nat.ble_eq, tdLoop_iff, Nat.beq_eq, hne]
  rw [hspec]
  constructor
  · rintro ⟨h2, h | ⟨hodd, hall⟩⟩
    · subst h; exact Nat.prime_two
    · refine Nat.prime_def_le_sqrt.2 ⟨h2, fun m hm hms hdvd => ?_⟩
      have hmm : m * m ≤ n := Nat.le_sqrt.1 hms
      by_cases hm2 : m % 2 = 0
      · have : 2 ∣ n := Nat.dvd_trans (Nat.dvd_of_mod_eq_zero hm2) hdvd
        omega
      · have hmn : m ≤ n := Nat.le_trans (Nat.le_mul_self m) hmm
        have := hall ((m - 3) / 2) (by omega)
        rw [show 3 + 2 * ((m - 3) / 2) = m by omega] at this
        exact this hmm (Nat.mod_eq_zero_of_dvd hdvd)
  · intro hp
    refine ⟨hp.two_le, ?_⟩
    rcases hp.eq_two_or_odd with h | h
    · exact Or.inl h
    · right
      refine ⟨by omega, fun j _ hle hmod => ?_⟩
      rcases (Nat.dvd_prime hp).1 (Nat.dvd_of_mod_eq_zero hmod) with h1 | h1
      · omega
      · rw [h1] at hle
        have : n * 2 ≤ n * n := Nat.mul_le_mul_left n hp.two_le
        have := hp.two_le
        omega

/-! ### 16-bit range: the model's priIsPrimeW decides `Nat.Prime` (exhaustive kernel check of LemmasPri16) -/

theorem priIsPrimeW16_iff_prime (a : Nat) (ha : a < 65536) : priIsPrimeW 16 a = true ↔ Nat.Prime a := by
  rw [priIsPrimeW16_exact a ha, isPrimeTD_iff]

theorem priIsPrimeW_iff_prime_small (W a : Nat) (hW : W = 16 ∨ W = 32 ∨ W = 64) (ha : a < 65536) :
    priIsPrimeW W a = true ↔ Nat.Prime a := by
  rcases hW with rfl | rfl | rfl
  · exact priIsPrimeW16_iff_prime a ha
  · rw [priIsPrimeW32_exact16 a ha, isPrimeTD_iff]
  · rw [priIsPrimeW64_exact16 a ha, isPrimeTD_iff]

/-- composite ⇒ rejected, on the 16-bit range, for every word size -/
theorem priIsPrimeW_rejects_composite_small (W a : Nat) (hW : W = 16 ∨ W = 32 ∨ W = 64) (ha : a < 65536)
    (hc : ¬ Nat.Prime a) : priIsPrimeW W a = false := by
  cases h : priIsPrimeW W a with
  | false => rfl
  | true => exact absurd ((priIsPrimeW_iff_prime_small W a hW ha).1 h) hc

/-- priNextPrimeW on the 16-bit range returns the next prime (`a = 2` excepted: the search starts at `a | 1 = 3`) -/
theorem priNextPrimeW_prime_small (W a p : Nat) (hW : W = 16 ∨ W = 32 ∨ W = 64) (ha : a < 65536)
    (h : priNextPrimeW W a = some p) :
    Nat.Prime p ∧ a ≤ p ∧ bitSize p = bitSize a ∧ ∀ x, a ≤ x → x < p → Nat.Prime x → x = 2 := by
  have h16 : (65536 : Nat) ≤ 2 ^ W := by rcases hW with rfl | rfl | rfl <;> decide
  obtain ⟨_, hle, hbs, hacc, hall⟩ := priNextPrimeW_some W a p (by omega) h
  have hp16 : p < 65536 := by
    have h1 := bitSize_lt p
    have h2 : 2 ^ bitSize p ≤ 2 ^ 16 := Nat.pow_le_pow_right (by decide) (hbs ▸ bitSize_le_of_lt a 16 (by simpa using ha))
    have : (2 : Nat) ^ 16 = 65536 := by decide
    omega
  refine ⟨(priIsPrimeW_iff_prime_small W p hW hp16).1 hacc, hle, hbs, fun x hax hxp hx => ?_⟩
  rcases hx.eq_two_or_odd with h2 | h2
  · exact h2
  · have := hall x h2 hax hxp
    rw [(priIsPrimeW_iff_prime_small W x hW (by omega)).2 hx] at this
    cases this


/-! ### non-vacuity -/

example : priRMTest 53 3 [1, 7, 52, 52, 10, 33] = true ∧ drawsOk 53 3 [1, 7, 52, 52, 10, 33] = true ∧
    drawsOk 53 3 [1, 7, 52] = false ∧ priRMTest 53 3 [1, 7, 52] = false ∧ priRMTest 91 3 [3, 5, 7] = false := by
  decide +kernel
example : priIsSGPrime 11 = true ∧ priIsSGPrime 7 = false ∧ priIsSGPrime 13 = false ∧ priIsSGPrime 1013 = true := by
  decide +kernel
example : priNextPrimeW 32 65500 = some 65519 ∧ priNextPrimeW 64 1000 = some 1009 := by decide +kernel

end Bee2V.C12

/-
C12 — src/core/tm.c : tmDateIsValid / tmDateIsValid2 (code-shaped, executable, no Mathlib).
-/
namespace Bee2V.C12

/-- `#define yearIsSlope(y) ((y) % 400 == 0 || (y) % 4 == 0 && (y) % 100)` -/
def yearIsSlope (y : Nat) : Bool := y % 400 == 0 || (y % 4 == 0 && y % 100 != 0)

/-- `bool_t tmDateIsValid(size_t y, size_t m, size_t d)` — the same conjunction, in the same order -/
def tmDateIsValid (y m d : Nat) : Bool :=
  decide (1583 ≤ y) &&
  decide (1 ≤ m) && decide (m ≤ 12) &&
  decide (1 ≤ d) && decide (d ≤ 31) &&
  !(d == 31 && (m == 4 || m == 6 || m == 9 || m == 11)) &&
  !(m == 2 && (decide (d > 29) || (d == 29 && !yearIsSlope y)))

/-- `bool_t tmDateIsValid2(const octet date[6])` (the `memIsValid` conjunct is the caller's contract).
    The arithmetic is `size_t` arithmetic; the values stay below 2000 + 10·255 + 255, no wrap. -/
def tmDateIsValid2 (d0 d1 d2 d3 d4 d5 : UInt8) : Bool :=
  decide (d0 ≤ 9) && decide (d1 ≤ 9) && decide (d2 ≤ 9) &&
  decide (d3 ≤ 9) && decide (d4 ≤ 9) && decide (d5 ≤ 9) &&
  tmDateIsValid (10 * d0.toNat + d1.toNat + 2000) (10 * d2.toNat + d3.toNat) (10 * d4.toNat + d5.toNat)

/-! ### independent specification: the Gregorian calendar -/

/-- leap-year rule of the Gregorian calendar -/
def Spec.isLeap (y : Nat) : Prop := (y % 4 = 0 ∧ y % 100 ≠ 0) ∨ y % 400 = 0

instance (y : Nat) : Decidable (Spec.isLeap y) := by unfold Spec.isLeap; infer_instance

/-- days-in-month table (months 1..12; 0 for anything else) -/
def Spec.daysInMonth (y m : Nat) : Nat :=
  match m with
  | 1 => 31 | 2 => if Spec.isLeap y then 29 else 28 | 3 => 31 | 4 => 30 | 5 => 31 | 6 => 30
  | 7 => 31 | 8 => 31 | 9 => 30 | 10 => 31 | 11 => 30 | 12 => 31
  | _ => 0

/-- (y, m, d) is a date of the Gregorian calendar (in force since 15 Oct 1582; tm.c takes whole years ≥ 1583) -/
def Spec.gregorian (y m d : Nat) : Prop :=
  1583 ≤ y ∧ 1 ≤ m ∧ m ≤ 12 ∧ 1 ≤ d ∧ d ≤ Spec.daysInMonth y m

end Bee2V.C12

/-
C12 — priNextPrimeW: the search returns the FIRST odd number ≥ a of the same bit length that priIsPrimeW accepts;
`none` only when there is none (or the bit length is ≤ 1).  Relative to the model's predicate `priIsPrimeW W`
(LemmasPri / LemmasPri16 tie that predicate to `Nat.Prime`).  No Mathlib.
-/
import Bee2V.C12.ModelPri
namespace Bee2V.C12

/-! ### bitSize -/

theorem bitSize_eq_iff (x l : Nat) (hl : 1 ≤ l) : bitSize x = l ↔ 2 ^ (l - 1) ≤ x ∧ x < 2 ^ l := by
  unfold bitSize
  by_cases hx : x = 0
  · subst hx
    have : 0 < 2 ^ (l - 1) := Nat.pow_pos (by decide)
    simp; omega
  · simp only [hx, if_false]
    obtain ⟨m, rfl⟩ : ∃ m, l = m + 1 := ⟨l - 1, by omega⟩
    rw [Nat.add_sub_cancel, Nat.add_right_cancel_iff]
    exact Nat.log2_eq_iff hx

theorem bitSize_lt (x : Nat) : x < 2 ^ bitSize x := by
  unfold bitSize
  split
  · next h => subst h; simp
  · exact Nat.lt_log2_self

theorem bitSize_le_of_lt (x W : Nat) (h : x < 2 ^ W) : bitSize x ≤ W := by
  unfold bitSize
  split
  · omega
  · next hx => exact (Nat.log2_lt hx).2 h

theorem bitSize_le_one (x : Nat) (h : x < 2) : bitSize x ≤ 1 := bitSize_le_of_lt x 1 (by simpa using h)

theorem or_one_eq (a : Nat) : a ||| 1 = if a % 2 = 0 then a + 1 else a := by
  have h1 : (a ||| 1) / 2 = a / 2 := by rw [Nat.or_div_two]; simp
  have h2 : (a ||| 1) % 2 = 1 := by rw [Nat.or_mod_two_eq_one]; right; rfl
  split <;> omega

/-- the word addition `p[0] += 2` does not wrap while the bit length stays `l ≥ 2` -/
theorem step_no_wrap (W l p : Nat) (hl2 : 2 ≤ l) (hlW : l ≤ W) (hp : bitSize p = l)
    (h : bitSize ((p + 2) % 2 ^ W) = l) : (p + 2) % 2 ^ W = p + 2 := by
  apply Nat.mod_eq_of_lt
  apply Classical.byContradiction
  intro hge
  have hpl : p < 2 ^ l := hp ▸ bitSize_lt p
  have hlW' : 2 ^ l ≤ 2 ^ W := Nat.pow_le_pow_right (by decide) hlW
  have h4 : 2 ^ 2 ≤ 2 ^ l := Nat.pow_le_pow_right (by decide) hl2
  generalize 2 ^ W = c at *
  generalize 2 ^ l = d at *
  have : (p + 2) % c = p + 2 - c := by
    rw [Nat.mod_eq_sub_mod (by omega), Nat.mod_eq_of_lt (by omega)]
  rw [this] at h
  have := bitSize_le_one (p + 2 - c) (by omega)
  omega

/-! ### nextLoopW -/

/-- found: `p' = p + 2j`, accepted, of bit length `l`, and the `j` earlier candidates were rejected -/
theorem nextLoopW_some (W l : Nat) (hl2 : 2 ≤ l) (hlW : l ≤ W) : ∀ (fuel p p' : Nat), bitSize p = l →
    nextLoopW W l fuel p = some p' →
    ∃ j, p' = p + 2 * j ∧ priIsPrimeW W p' = true ∧ bitSize p' = l ∧ ∀ k, k < j → priIsPrimeW W (p + 2 * k) = false
  | 0, p, p', _, h => by simp [nextLoopW] at h
  | fuel + 1, p, p', hp, h => by
    rw [nextLoopW] at h
    split at h
    · next hacc =>
      simp only [Option.some.injEq] at h
      subst h
      exact ⟨0, rfl, hacc, hp, fun k hk => by omega⟩
    · next hrej =>
      simp only at h
      split at h
      · simp at h
      · next hbs =>
        have hbs' : bitSize ((p + 2) % 2 ^ W) = l := Classical.byContradiction fun hne => hbs hne
        have hnw := step_no_wrap W l p hl2 hlW hp hbs'
        rw [hnw] at h hbs'
        obtain ⟨j, hj, hacc, hb, hall⟩ := nextLoopW_some W l hl2 hlW fuel (p + 2) p' hbs' h
        refine ⟨j + 1, by omega, hacc, hb, ?_⟩
        intro k hk
        cases k with
        | zero => simpa using hrej
        | succ k =>
          have := hall k (by omega)
          rwa [show p + 2 * (k + 1) = p + 2 + 2 * k by omega]

/-- the form asked for: `p ≤ p'`, accepted, same bit length, every earlier candidate rejected -/
theorem nextLoopW_spec (W l fuel p p' : Nat) (hl2 : 2 ≤ l) (hlW : l ≤ W) (hp : bitSize p = l)
    (h : nextLoopW W l fuel p = some p') :
    p ≤ p' ∧ p' % 2 = p % 2 ∧ priIsPrimeW W p' = true ∧ bitSize p' = l ∧
      ∀ k, p + 2 * k < p' → priIsPrimeW W (p + 2 * k) = false := by
  obtain ⟨j, hj, hacc, hb, hall⟩ := nextLoopW_some W l hl2 hlW fuel p p' hp h
  exact ⟨by omega, by omega, hacc, hb, fun k hk => hall k (by omega)⟩

/-- not found with enough fuel: no candidate `p + 2k` of bit length `l` is accepted -/
theorem nextLoopW_none (W l : Nat) (hl2 : 2 ≤ l) (hlW : l ≤ W) : ∀ (fuel p : Nat), bitSize p = l →
    2 ^ l ≤ p + 2 * fuel → nextLoopW W l fuel p = none →
    ∀ k, bitSize (p + 2 * k) = l → priIsPrimeW W (p + 2 * k) = false
  | 0, p, hp, hf, _ => by
    have := hp ▸ bitSize_lt p
    omega
  | fuel + 1, p, hp, hf, h => by
    rw [nextLoopW] at h
    have hpb := (bitSize_eq_iff p l (by omega)).1 hp
    split at h
    · simp at h
    · next hrej =>
      have hrej' : priIsPrimeW W p = false := by simpa using hrej
      simp only at h
      by_cases hbs : bitSize ((p + 2) % 2 ^ W) = l
      · have hnw := step_no_wrap W l p hl2 hlW hp hbs
        rw [if_neg (by simpa using hbs), hnw] at h
        rw [hnw] at hbs
        have ih := nextLoopW_none W l hl2 hlW fuel (p + 2) hbs (by omega) h
        intro k hk
        cases k with
        | zero => simpa using hrej'
        | succ k =>
          rw [show p + 2 * (k + 1) = p + 2 + 2 * k by omega] at hk ⊢
          exact ih k hk
      · -- the loop stops: p + 2 has left the range of bit length l
        have hout : 2 ^ l ≤ p + 2 := by
          apply Classical.byContradiction
          intro hlt
          have hlW' : 2 ^ l ≤ 2 ^ W := Nat.pow_le_pow_right (by decide) hlW
          apply hbs
          rw [Nat.mod_eq_of_lt (by omega)]
          exact (bitSize_eq_iff (p + 2) l (by omega)).2 ⟨by omega, by omega⟩
        intro k hk
        cases k with
        | zero => simpa using hrej'
        | succ k =>
          have := ((bitSize_eq_iff _ l (by omega)).1 hk).2
          omega

/-! ### priNextPrimeW -/

theorem bitSize_or_one (a : Nat) (h : 2 ≤ bitSize a) : bitSize (a ||| 1) = bitSize a := by
  have hb := (bitSize_eq_iff a (bitSize a) (by omega)).1 rfl
  rw [bitSize_eq_iff _ _ (by omega), or_one_eq]
  split
  · next hev =>
    obtain ⟨m, hm⟩ : ∃ m, bitSize a = m + 1 := ⟨bitSize a - 1, by omega⟩
    rw [hm, Nat.pow_succ] at hb ⊢
    omega
  · exact hb

/-- `priNextPrimeW W a = some p`: `p` is the least odd number `≥ a` accepted by `priIsPrimeW W`, and it has the bit
    length of `a`.  `= none`: bit length ≤ 1, or no odd number `≥ a` of that bit length is accepted. -/
theorem priNextPrimeW_some (W a p : Nat) (ha : a < 2 ^ W) (h : priNextPrimeW W a = some p) :
    p % 2 = 1 ∧ a ≤ p ∧ bitSize p = bitSize a ∧ priIsPrimeW W p = true ∧
      ∀ x, x % 2 = 1 → a ≤ x → x < p → priIsPrimeW W x = false := by
  unfold priNextPrimeW at h
  simp only at h
  split at h
  · simp at h
  · next hl =>
    have hl2 : 2 ≤ bitSize a := by omega
    have hb := bitSize_or_one a hl2
    obtain ⟨hle, hpar, hacc, hbs, hall⟩ :=
      nextLoopW_spec W (bitSize a) _ _ p hl2 (bitSize_le_of_lt a W ha) hb h
    have ho := or_one_eq a
    have hodd : (a ||| 1) % 2 = 1 := by rw [Nat.or_mod_two_eq_one]; right; rfl
    refine ⟨by omega, by split at ho <;> omega, hbs, hacc, ?_⟩
    intro x hx hax hxp
    have hge : a ||| 1 ≤ x := by split at ho <;> omega
    have := hall ((x - (a ||| 1)) / 2) (by omega)
    rwa [show (a ||| 1) + 2 * ((x - (a ||| 1)) / 2) = x by omega] at this

theorem priNextPrimeW_none (W a : Nat) (ha : a < 2 ^ W) (h : priNextPrimeW W a = none) :
    bitSize a ≤ 1 ∨ ∀ x, x % 2 = 1 → a ≤ x → bitSize x = bitSize a → priIsPrimeW W x = false := by
  unfold priNextPrimeW at h
  simp only at h
  split at h
  · next hl => exact Or.inl hl
  · next hl =>
    right
    have hl2 : 2 ≤ bitSize a := by omega
    have hb := bitSize_or_one a hl2
    have hnone := nextLoopW_none W (bitSize a) hl2 (bitSize_le_of_lt a W ha) _ _ hb (by omega) h
    have ho := or_one_eq a
    have hodd : (a ||| 1) % 2 = 1 := by rw [Nat.or_mod_two_eq_one]; right; rfl
    intro x hx hax hbx
    have hge : a ||| 1 ≤ x := by split at ho <;> omega
    have := hnone ((x - (a ||| 1)) / 2)
    rw [show (a ||| 1) + 2 * ((x - (a ||| 1)) / 2) = x by omega] at this
    exact this hbx

/-- both directions in one statement -/
theorem priNextPrimeW_spec (W a : Nat) (ha : a < 2 ^ W) :
    match priNextPrimeW W a with
    | some p => p % 2 = 1 ∧ a ≤ p ∧ bitSize p = bitSize a ∧ priIsPrimeW W p = true ∧
        ∀ x, x % 2 = 1 → a ≤ x → x < p → priIsPrimeW W x = false
    | none => bitSize a ≤ 1 ∨ ∀ x, x % 2 = 1 → a ≤ x → bitSize x = bitSize a → priIsPrimeW W x = false := by
  cases h : priNextPrimeW W a with
  | some p => exact priNextPrimeW_some W a p ha h
  | none => exact priNextPrimeW_none W a ha h

/-- non-vacuity -/
example : priNextPrimeW 16 65500 = some 65519 ∧ priNextPrimeW 16 65522 = none ∧ priNextPrimeW 16 1 = none ∧
    priNextPrimeW 32 24 = some 29 ∧ priNextPrimeW 64 (2 ^ 64 - 58) = none := by decide +kernel

end Bee2V.C12

import Bee2V.C12.ModelTm
/-! C12 — tm.c date validation equals the Gregorian calendar (structural proof, no enumeration of inputs) -/
namespace Bee2V.C12

theorem yearIsSlope_iff (y : Nat) : yearIsSlope y = true ↔ Spec.isLeap y := by
  unfold yearIsSlope Spec.isLeap
  simp only [Bool.or_eq_true, Bool.and_eq_true, beq_iff_eq, bne_iff_ne, ne_eq]
  omega

/-- the code's conjunction decides membership in the calendar (all y, m, d : size_t, no bound) -/
theorem tmDateIsValid_iff (y m d : Nat) : tmDateIsValid y m d = true ↔ Spec.gregorian y m d := by
  unfold tmDateIsValid Spec.gregorian
  by_cases hy : 1583 ≤ y <;> by_cases hm1 : 1 ≤ m <;> by_cases hm2 : m ≤ 12 <;> simp [hy, hm1, hm2]
  have hcases : m = 1 ∨ m = 2 ∨ m = 3 ∨ m = 4 ∨ m = 5 ∨ m = 6 ∨ m = 7 ∨ m = 8 ∨ m = 9 ∨ m = 10 ∨ m = 11 ∨ m = 12 := by omega
  have hl := yearIsSlope_iff y
  rcases hcases with h | h | h | h | h | h | h | h | h | h | h | h <;> subst h <;> simp [Spec.daysInMonth]
  all_goals first
    | omega
    | (by_cases hs : Spec.isLeap y
       · have : yearIsSlope y = true := hl.mpr hs
         simp [hs, this]; omega
       · have : yearIsSlope y = false := by
           cases h : yearIsSlope y
           · rfl
           · exact absurd (hl.mp h) hs
         simp [hs, this]; omega)

end Bee2V.C12

/-
C17 — executable instance of the signature layer `Sig` for the driver: the static functions
btokParamsStd / btokPubkeyCalc / btokPubkeyVal / btokKeypairVal / btokSign / btokVerify of btok_cvc.c
over
  * bign (l = 128, 192, 256): the C02 model with its standard contexts (`Bee2V.C02.stdCtx`),
  * bign96: bign96.c written here on the C02 affine curve arithmetic (parameters regenerated from bign96.c),
  * belt-hash (C01 model) for the 192/256-bit curves, bash384 / bash512 (C03 model) for the 384/512-bit ones.
No theorem is stated about this file: it only makes the CVC part of the model executable so that it can be
compared with the library; the theorems take `Sig` abstractly (Laws.lean).  No Mathlib.
-/
import Bee2V.C17.ModelCVC
import Bee2V.C02.Inst
import Bee2V.C03.Sponge
import Bee2V.C03.BashF
namespace Bee2V.C17.Inst
open Bee2V.C17 Bee2V.C02
open Bee2V.Gen.C17Src (c96_p c96_a c96_b c96_q c96_yG)

def ofC02 : Bee2V.C02.Err → E
  | .ok => .ok | .badInput => .badInput | .badOid => .badOid | .badRng => .badParams | .badParams => .badParams
  | .badPrivkey => .badPrivkey | .badPubkey => .badPubkey | .badSharedkey => .badInput | .badSig => .badSig
  | .badKeytoken => .badKeytoken

/-- bignOidToDER of a dotted string -/
def oidDER (s : String) : Bytes :=
  match Bee2V.C08.derOIDEnc (Bee2V.C08.cstr s) with
  | .ok b => b
  | _ => []

def oidBeltHash := oidDER "1.2.112.0.2.0.34.101.31.81"
def oidBash384 := oidDER "1.2.112.0.2.0.34.101.77.12"
def oidBash512 := oidDER "1.2.112.0.2.0.34.101.77.13"

/-- bashHashStart(l) + StepH + StepG(hashLen) -/
def bashHash (l : Nat) (m : Bytes) (hashLen : Nat) : Bytes :=
  Bee2V.C03.hashStepG Bee2V.C03.bashF hashLen (Bee2V.C03.hashStepH Bee2V.C03.bashF m (Bee2V.C03.hashStart l))

/-- the hashing step of btokSign / btokVerify for a private key of n octets: (hash, oid_der) -/
def hashFor (n : Nat) (buf : Bytes) : Bytes × Bytes :=
  if n ≤ 32 then ((beltHash buf).take n, oidBeltHash)
  else (bashHash (n * 4) buf n, if n = 48 then oidBash384 else oidBash512)

/-- btokParamsStd for the bign levels (privkey_len 32, 48, 64) -/
def ctxOf (n : Nat) : Option (Ctx Pt) :=
  if n = 32 then (Bee2V.Gen.C02Params.std[0]?).map stdCtx
  else if n = 48 then (Bee2V.Gen.C02Params.std[1]?).map stdCtx
  else if n = 64 then (Bee2V.Gen.C02Params.std[2]?).map stdCtx
  else none

/-! ### bign96 -/

def E96 : Curve := ⟨c96_p, c96_a, c96_b⟩
def G96 : Pt := .A 0 c96_yG

def enc96 (xy : Nat × Nat) : Bytes := natLE 24 xy.1 ++ natLE 24 xy.2

def load96 (pub : Bytes) : Option Pt :=
  let x := leNat (pub.take 24)
  let y := leNat (pub.drop 24)
  if x ≥ c96_p ∨ y ≥ c96_p then none else if E96.isOn x y then some (.A x y) else none

def pubkeyVal96 (pub : Bytes) : E := match load96 pub with | some _ => .ok | none => .badPubkey

def pubkeyCalc96 (priv : Bytes) : E × Bytes :=
  let d := leNat priv
  if d = 0 ∨ d ≥ c96_q then (.badPrivkey, []) else
  match (E96.smul d G96).xy with
  | some Q => (.ok, enc96 Q)
  | none => (.badParams, [])

def keypairVal96 (priv pub : Bytes) : E :=
  let d := leNat priv
  if d = 0 ∨ d ≥ c96_q then .badPrivkey else
  match (E96.smul d G96).xy with
  | some Q => if enc96 Q = pub then .ok else .badPubkey
  | none => .badParams

/-- the static belt32BlockEncr of bign96.c: the round counter is carried across calls -/
def b32EncrR (key blk : Bytes) (round : Nat) : Bytes × Nat :=
  let x4 (h : Bytes) (r : Nat) : Bytes := Bee2V.C01.xorb (h.take 4) (natLE 4 r) ++ h.drop 4
  let enc := Bee2V.C01.beltCipher.enc key
  let h0 := blk.take 8
  let h1 := (blk.drop 8).take 8
  let h2 := (blk.drop 16).take 8
  let e := enc (h1 ++ h2)
  let h1 := x4 (e.take 8) round
  let h2 := e.drop 8
  let h0 := Bee2V.C01.xorb h0 h1
  let e := enc (h2 ++ h0)
  let h2 := x4 (e.take 8) (round + 1)
  let h0 := e.drop 8
  let h1 := Bee2V.C01.xorb h1 h2
  let e := enc (h0 ++ h1)
  let h0 := x4 (e.take 8) (round + 2)
  let h1 := e.drop 8
  let h2 := Bee2V.C01.xorb h2 h0
  (h0 ++ h1 ++ h2, round + 3)

def nonce96 (key : Bytes) : Nat → Bytes → Nat → Option Nat
  | 0, _, _ => none
  | fuel + 1, k, round =>
    let r := b32EncrR key k round
    let v := leNat r.1
    if v ≠ 0 ∧ v < c96_q then some v else nonce96 key fuel r.1 r.2

/-- bign96Sign2 with t_len = 0 -/
def sign96 (oid Hb priv : Bytes) : E × Bytes :=
  if !oidOkDER oid then (.badOid, []) else
  let d := leNat priv
  if d = 0 ∨ d ≥ c96_q then (.badPrivkey, []) else
  let theta := beltHash (oid ++ priv)
  match nonce96 (Bee2V.C01.fmtKey theta) 4096 Hb 1 with
  | none => (.oob, [])
  | some k =>
    match (E96.smul k G96).xy with
    | none => (.badParams, [])
    | some R =>
      let s0b := (beltHash (oid ++ natLE 24 R.1 ++ Hb)).take 10
      let s0 := leNat s0b + 2 ^ 103
      let W := 2 ^ 192
      let t := (s0 * d) % c96_q
      let s1 := subMod W k t c96_q
      let s1 := subMod W s1 (redOnce (leNat Hb) c96_q) c96_q
      (.ok, s0b ++ natLE 24 s1)

/-- bign96Verify -/
def verify96 (oid Hb sig pub : Bytes) : E :=
  if !oidOkDER oid then .badOid else
  -- qrFrom ×2 only (the curve equation is checked by the caller through bign96PubkeyVal)
  let x := leNat (pub.take 24)
  let y := leNat (pub.drop 24)
  if x ≥ c96_p ∨ y ≥ c96_p then .badPubkey else
  let s1 := leNat (sig.drop 10)
  if s1 ≥ c96_q then .badSig else
  let s1 := addMod (2 ^ 192) s1 (redOnce (leNat Hb) c96_q) c96_q
  let s0 := leNat (sig.take 10) + 2 ^ 103
  match (E96.add (E96.smul s1 G96) (E96.smul s0 (.A x y))).xy with
  | none => .badSig
  | some R => if (beltHash (oid ++ natLE 24 R.1 ++ Hb)).take 10 = sig.take 10 then .ok else .badSig

/-! ### the static functions of btok_cvc.c -/

/-- btokPubkeyCalc (the caller has checked privkey_len) -/
def pubkeyCalc (priv : Bytes) : E × Bytes :=
  if priv.length = 24 then pubkeyCalc96 priv else
  match ctxOf priv.length with
  | none => (.badInput, [])
  | some C => let r := Bee2V.C02.pubkeyCalc C priv; (ofC02 r.1, r.2)

/-- btokPubkeyVal -/
def pubkeyVal (pub : Bytes) : E :=
  if pub.length % 2 ≠ 0 then .badInput else
  if pub.length = 48 then pubkeyVal96 pub else
  match ctxOf (pub.length / 2) with
  | none => .badInput
  | some C => ofC02 (Bee2V.C02.pubkeyVal C pub)

/-- btokKeypairVal -/
def keypairVal (priv pub : Bytes) : E :=
  if pub.length ≠ 2 * priv.length then .badKeypair else
  if priv.length = 24 then keypairVal96 priv pub else
  match ctxOf priv.length with
  | none => .badInput
  | some C => ofC02 (Bee2V.C02.keypairVal C priv pub)

/-- btokSign with the rng not started (t_len = 0) -/
def sign (buf priv : Bytes) : E × Bytes :=
  let h := hashFor priv.length buf
  if priv.length = 24 then sign96 h.2 h.1 priv else
  match ctxOf priv.length with
  | none => (.badInput, [])
  | some C =>
    match Bee2V.C02.sign2 C 4096 h.2 h.1 priv (some []) with
    | some r => (ofC02 r.1, r.2)
    | none => (.oob, [])

/-- btokVerify (the callers pass pubkey_len ∈ {48, 64, 96, 128}) -/
def verify (buf sig pub : Bytes) : E :=
  if pub.length % 2 ≠ 0 then .badInput else
  let h := hashFor (pub.length / 2) buf
  let v := pubkeyVal pub
  if v ≠ .ok then v else
  if pub.length = 48 then verify96 h.2 h.1 sig pub else
  match ctxOf (pub.length / 2) with
  | none => .badInput
  | some C => ofC02 (Bee2V.C02.verify C h.2 h.1 sig pub)

def stdSig : Sig := ⟨pubkeyCalc, pubkeyVal, keypairVal, sign, verify⟩

end Bee2V.C17.Inst

/-
C17 — the laws assumed of the abstract signature layer `Sig` (proved for bign in C02: `sign_complete`,
`sign2_complete_partial`, `keypairVal_exact`, `pubkeyVal_exact`; bign96: C16) and of the block cipher
(proved for belt in C01: `blockDecr_blockEncr`, lengths).  No Mathlib.
-/
import Bee2V.C17.ModelCVC
import Bee2V.C17.ModelSM
namespace Bee2V.C17

/-- the cipher maps 16-octet blocks to 16-octet blocks (what the C01 mode theorems need) -/
def CipherOK (C : Bee2V.C01.Cipher) : Prop := ∀ k x, x.length = 16 → (C.enc k x).length = 16

structure SigLaws (S : Sig) : Prop where
  /-- btokPubkeyCalc returns a key of twice the length that passes btokKeypairVal and btokPubkeyVal -/
  calc_len : ∀ priv pub, S.pubkeyCalc priv = (.ok, pub) → pub.length = 2 * priv.length
  calc_keypair : ∀ priv pub, S.pubkeyCalc priv = (.ok, pub) → S.keypairVal priv pub = .ok
  keypair_pub : ∀ priv pub, S.keypairVal priv pub = .ok → S.pubkeyVal pub = .ok ∧ pub.length = 2 * priv.length
  /-- btokPubkeyVal accepts only the four key lengths (its btokParamsStd(len / 2) step) -/
  pubVal_len : ∀ pub, S.pubkeyVal pub = .ok → pubkeyLenOk pub.length = true
  /-- btokSign writes sigLenOfPriv octets -/
  sign_len : ∀ body priv sig, S.sign body priv = (.ok, sig) → sig.length = sigLenOfPriv priv.length
  /-- COMPLETENESS: a signature made with the private key of a valid pair verifies under its public key -/
  sign_verify : ∀ body priv pub sig, privLenOk priv.length = true → S.keypairVal priv pub = .ok →
    S.sign body priv = (.ok, sig) → S.verify body sig pub = .ok

end Bee2V.C17

/-
C17 — executable, code-shaped model of src/crypto/btok/btok_cvc.c (CV certificates).

The signature layer (static btokPubkeyCalc / btokPubkeyVal / btokKeypairVal / btokSign / btokVerify:
bign / bign96 over belt-hash / bash384 / bash512) is the abstract record `Sig`; the theorems assume
its laws (Laws in LemmasCVC), the driver instantiates it with executable bign (SigInst.lean).
DER primitives, SEQ anchors and the encoder interpreter `runEnc` come from the C08 model,
`tmDateIsValid2` from the C12 model.
-/
import Bee2V.C17.Basic
import Bee2V.C12.ModelTm
namespace Bee2V.C17
open Bee2V.C08
open Bee2V.Gen.C17Src (nameMin nameMax pubLens privLens keyBits)

/-- `btok_cvc_t`.  `authority`/`holder` are the C strings (octets before the NUL) held in the 13-octet
fields; `pubkey` has `pubkey_len` octets, `sig` has `sig_len` octets. -/
structure Cvc where
  authority : Bytes
  holder : Bytes
  pubkey : Bytes
  from_ : Bytes       -- 6 octets YYMMDD, one decimal digit per octet
  until_ : Bytes
  hatEid : Bytes      -- 5 octets
  hatEsign : Bytes    -- 2 octets
  sig : Bytes
  deriving Repr, DecidableEq, Inhabited

/-- the static signature layer of btok_cvc.c -/
structure Sig where
  /-- btokPubkeyCalc(pubkey, privkey, privkey_len) -/
  pubkeyCalc : Bytes → E × Bytes
  /-- btokPubkeyVal(pubkey, pubkey_len) -/
  pubkeyVal : Bytes → E
  /-- btokKeypairVal(privkey, privkey_len, pubkey, pubkey_len) -/
  keypairVal : Bytes → Bytes → E
  /-- btokSign(sig, buf, count, privkey, privkey_len) with the rng not started (deterministic mode) -/
  sign : Bytes → Bytes → E × Bytes
  /-- btokVerify(buf, count, sig, pubkey, pubkey_len) -/
  verify : Bytes → Bytes → Bytes → E

/-- the object identifiers of btok_cvc.c (regenerated from the source) -/
def oid_pubkey := cstr Bee2V.Gen.C17Src.oid_bign_pubkey
def oid_eid_access := cstr Bee2V.Gen.C17Src.oid_eid_access
def oid_esign_access := cstr Bee2V.Gen.C17Src.oid_esign_access
def oid_esign_auth_ext := cstr Bee2V.Gen.C17Src.oid_esign_auth_ext

/-! ### content checks -/

/-- btokCVCNameIsValid -/
def nameIsValid (name : Bytes) : Bool :=
  decide (nameMin ≤ name.length) && decide (name.length ≤ nameMax) && name.all (fun c => isPrintable c.toNat)

/-- tmDateIsValid2 on a 6-octet buffer -/
def dateIsValid (d : Bytes) : Bool :=
  match d with
  | [d0, d1, d2, d3, d4, d5] => Bee2V.C12.tmDateIsValid2 d0 d1 d2 d3 d4 d5
  | _ => false

/-- memCmp(left, right, n) ≤ 0 (lexicographic from the first octet) -/
def memLeq : Bytes → Bytes → Bool
  | x :: xs, y :: ys => if x < y then true else if y < x then false else memLeq xs ys
  | _, _ => true

/-- tmDateLeq2 -/
def dateLeq (l r : Bytes) : Bool := memLeq l r

def pubkeyLenOk (n : Nat) : Bool := pubLens.contains n

/-- btokCVCSeemsValid -/
def cvcSeemsValid (c : Cvc) : Bool :=
  nameIsValid c.authority && nameIsValid c.holder && dateIsValid c.from_ && dateIsValid c.until_ &&
  dateLeq c.from_ c.until_ && pubkeyLenOk c.pubkey.length

/-- btokCVCCheck -/
def cvcCheck (S : Sig) (c : Cvc) : E :=
  if !nameIsValid c.authority || !nameIsValid c.holder then .badName
  else if !dateIsValid c.from_ || !dateIsValid c.until_ || !dateLeq c.from_ c.until_ then .badDate
  else S.pubkeyVal c.pubkey

/-- btokCVCCheck2: `strEq(cvc->authority, cvca->holder)` is equality of the whole strings -/
def cvcCheck2 (S : Sig) (c ca : Cvc) : E :=
  let code := cvcCheck S c
  if code ≠ .ok then code
  else if c.authority ≠ ca.holder then .badName
  else if !dateIsValid ca.from_ || !dateIsValid ca.until_ || !dateLeq ca.from_ c.from_ ||
      !dateLeq c.from_ ca.until_ then .badDate
  else .ok

/-! ### body -/

/-- btokCVCBodyEnc(body, cvc): the `derEncStep` lines in order -/
def bodyEncSteps (c : Cvc) : List EStep :=
  [ .start 0 0x7F4E,
      .bytes (derTSIZEEnc 0x5F29 0),
      .bytes (derTPSTREnc 0x42 c.authority),
      .start 1 0x7F49,
        .bytes (derOIDEnc oid_pubkey),
        .bytes (derTBITEnc 3 c.pubkey (8 * c.pubkey.length)),
      .stop 1,
      .bytes (derTPSTREnc 0x5F20 c.holder) ] ++
  (if !isZero c.hatEid then
    [ .start 2 0x7F4C,
        .bytes (derOIDEnc oid_eid_access),
        .bytes (derEnc 4 c.hatEid),
      .stop 2 ] else []) ++
  [ .bytes (derEnc 0x5F25 c.from_),
    .bytes (derEnc 0x5F24 c.until_) ] ++
  (if !isZero c.hatEsign then
    [ .start 3 0x65,
        .start 4 0x73,
          .bytes (derOIDEnc oid_esign_auth_ext),
          .start 5 0x7F4C,           -- the C code reuses the anchor CertHAT
            .bytes (derOIDEnc oid_esign_access),
            .bytes (derEnc 4 c.hatEsign),
          .stop 5,
        .stop 4,
      .stop 3 ] else []) ++
  [ .stop 0 ]

def bodyEnc (c : Cvc) : R Bytes :=
  if !cvcSeemsValid c then .err else runEnc (bodyEncSteps c) [] []

/-- `R Unit` guard -/
def guard (b : Bool) : R Unit := if b then .ok () else .err

/-- the optional CertHAT (eId) of btokCVCBodyDec at position `p`: (hat_eid, new position) -/
def decHatEid (body : Bytes) (p : Nat) : R (Bytes × Nat) :=
  match derStartsWith (body.drop p) 0x7F4C with
  | .oob => .oob
  | .err => .ok (zeros 5, p)
  | .ok () => do
    let (a, t) ← derTSEQDecStart (body.drop p) 0x7F4C
    let q := p + t
    let t ← derOIDDec2 (body.drop q) oid_eid_access
    let q := q + t
    let (hat, t) ← derTOCTDec2 (body.drop q) 4 5
    let q := q + t
    derTSEQDecStop (q - p) a
    pure (hat, q)

/-- the optional CVExt (eSign) at position `p` -/
def decHatEsign (body : Bytes) (p : Nat) : R (Bytes × Nat) :=
  match derStartsWith (body.drop p) 0x65 with
  | .oob => .oob
  | .err => .ok (zeros 2, p)
  | .ok () => do
    let (aExt, t) ← derTSEQDecStart (body.drop p) 0x65
    let q1 := p + t
    let (aDdt, t) ← derTSEQDecStart (body.drop q1) 0x73
    let q2 := q1 + t
    let t ← derOIDDec2 (body.drop q2) oid_esign_auth_ext
    let q3 := q2 + t
    let (aHat, t) ← derTSEQDecStart (body.drop q3) 0x7F4C
    let q := q3 + t
    let t ← derOIDDec2 (body.drop q) oid_esign_access
    let q := q + t
    let (hat, t) ← derTOCTDec2 (body.drop q) 4 2
    let q := q + t
    derTSEQDecStop (q - q3) aHat
    derTSEQDecStop (q - q1) aDdt
    derTSEQDecStop (q - p) aExt
    pure (hat, q)

/-- btokCVCBodyDec(cvc, body, count) = (cvc with sig = [], exact length of the body) -/
def bodyDec (body : Bytes) : R (Cvc × Nat) := do
  let (aBody, t) ← derTSEQDecStart body 0x7F4E
  let p := t
  let t ← derTSIZEDec2 (body.drop p) 0x5F29 0
  let p := p + t
  -- authority
  let (auth, t) ← derTPSTRDec (body.drop p) 0x42
  guard (decide (nameMin ≤ auth.length) && decide (auth.length ≤ nameMax))
  let p := p + t
  -- PubKey
  let pPub := p
  let (aPub, t) ← derTSEQDecStart (body.drop p) 0x7F49
  let p := p + t
  let t ← derOIDDec2 (body.drop p) oid_pubkey
  let p := p + t
  let (pk, bits, t) ← derTBITDec (body.drop p) 3
  guard (keyBits.contains bits)
  let p := p + t
  derTSEQDecStop (p - pPub) aPub
  -- holder
  let (holder, t) ← derTPSTRDec (body.drop p) 0x5F20
  guard (decide (nameMin ≤ holder.length) && decide (holder.length ≤ nameMax))
  let p := p + t
  -- CertHAT
  let (hatEid, p) ← decHatEid body p
  -- from / until
  let (from_, t) ← derTOCTDec2 (body.drop p) 0x5F25 6
  let p := p + t
  let (until_, t) ← derTOCTDec2 (body.drop p) 0x5F24 6
  let p := p + t
  -- CVExt
  let (hatEsign, p) ← decHatEsign body p
  derTSEQDecStop p aBody
  pure (⟨auth, holder, pk, from_, until_, hatEid, hatEsign, []⟩, p)

/-! ### certificates -/

def privLenOk (n : Nat) : Bool := privLens.contains n

/-- sig_len chosen by btokCVCWrap -/
def sigLenOfPriv (n : Nat) : Nat := if n = 24 then 34 else n + n / 2

/-- SEQ[0x7F21] { body, OCT[0x5F37] sig } as btokCVCWrap writes it -/
def certEnc (body sig : Bytes) : R Bytes :=
  runEnc [.start 0 0x7F21, .bytes (.ok body), .bytes (derEnc 0x5F37 sig), .stop 0] [] []

/-- btokCVCWrap, "построить открытый ключ": the public key is derived when `pubkey_len == 0` -/
def wrapGenPub (S : Sig) (c : Cvc) (priv : Bytes) : E × Cvc :=
  if c.pubkey.length = 0 then
    let k := S.pubkeyCalc priv
    if k.1 ≠ .ok then (k.1, c) else (.ok, { c with pubkey := k.2 })
  else (.ok, c)

/-- btokCVCWrap after btokSign returned `s` = (code, sig): write SEQ { body, OCT sig[0 .. n) } -/
def wrapSignWith (c : Cvc) (body : Bytes) (n : Nat) (s : E × Bytes) : E × Cvc × Bytes :=
  if s.1 ≠ .ok then (s.1, c, []) else
  match certEnc body (s.2.take n) with
  | .ok cert => (.ok, { c with sig := s.2.take n }, cert)
  | _ => (.oob, c, [])          -- ASSERT(t != SIZE_MAX)

/-- btokCVCWrap, sign the encoded body and write the certificate -/
def wrapSign (S : Sig) (c : Cvc) (body priv : Bytes) : E × Cvc × Bytes :=
  wrapSignWith c body (sigLenOfPriv priv.length) (S.sign body priv)

/-- btokCVCWrap from "проверить содержимое сертификата" on -/
def wrapChecked (S : Sig) (c : Cvc) (priv : Bytes) : E × Cvc × Bytes :=
  let code := cvcCheck S c
  if code ≠ .ok then (code, c, []) else
  match bodyEnc c with
  | .ok body => wrapSign S c body priv
  | _ => (.oob, c, [])            -- ASSERT(t != SIZE_MAX)

/-- btokCVCWrap(cert, &cert_len, cvc, privkey, privkey_len), cert ≠ 0:
    (code, cvc after the call, certificate) -/
def cvcWrap (S : Sig) (c : Cvc) (priv : Bytes) : E × Cvc × Bytes :=
  if !privLenOk priv.length then (.badInput, c, []) else
  let r := wrapGenPub S c priv
  if r.1 ≠ .ok then (r.1, r.2, []) else wrapChecked S r.2 priv

/-- how the (pubkey, pubkey_len) arguments of btokCVCUnwrap are given -/
inductive PkArg
  | none                -- (0, 0): the signature is not verified
  | self                -- (cvc->pubkey, 0): verified with the key inside the certificate
  | key (pk : Bytes)    -- (pubkey, pubkey_len), pubkey_len ≠ 0
  | foreign             -- (p, 0) with p ≠ 0 and p ≠ cvc->pubkey
  deriving Repr, DecidableEq

/-- the `if (pubkey_len == 0)` search of the signature length -/
def sigLenProbe (rest : Bytes) : R Nat :=
  match derDec3 rest 0x5F37 34 with
  | .ok _ => .ok 34
  | .oob => .oob
  | .err =>
    match derDec3 rest 0x5F37 48 with
    | .ok _ => .ok 48
    | .oob => .oob
    | .err =>
      match derDec3 rest 0x5F37 72 with
      | .ok _ => .ok 72
      | .oob => .oob
      | .err =>
        match derDec3 rest 0x5F37 96 with
        | .ok _ => .ok 96
        | .oob => .oob
        | .err => .err

def ofR {α} (r : R α) (e : E) : Except E α :=
  match r with
  | .ok a => .ok a
  | .err => .error e
  | .oob => .error .oob

/-- the signature length btokCVCUnwrap expects: derived from the verification key, or probed (34|48|72|96) -/
def sigLenOf (vk : Option Bytes) (rest : Bytes) : Except E Nat :=
  match vk with
  | some k => .ok (if k.length = 48 then 34 else k.length - k.length / 4)
  | none => ofR (sigLenProbe rest) .badFormat

/-- btokCVCUnwrap(cvc, cert, cert_len, pubkey, pubkey_len) -/
def cvcUnwrap (S : Sig) (cert : Bytes) (arg : PkArg) : Except E Cvc :=
  match arg with
  | .foreign => .error .badInput
  | .key pk => if !pubkeyLenOk pk.length then .error .badInput else go (some pk) false
  | .self => go none true
  | .none => go none false
where
  go (pk : Option Bytes) (self : Bool) : Except E Cvc :=
    match ofR (derTSEQDecStart cert 0x7F21) .badFormat with
    | .error e => .error e
    | .ok (a, t) =>
      match ofR (bodyDec (cert.drop t)) .badFormat with
      | .error e => .error e
      | .ok (c, t2) =>
        let body := (cert.drop t).take t2
        let p := t + t2
        -- the verification key
        let vk : Option Bytes := match pk with
          | some k => some k
          | none => if self then some c.pubkey else none
        match sigLenOf vk (cert.drop p) with
        | .error e => .error e
        | .ok sigLen =>
          match ofR (derTOCTDec2 (cert.drop p) 0x5F37 sigLen) .badFormat with
          | .error e => .error e
          | .ok (sig, t3) =>
            let c := { c with sig := sig }
            let p := p + t3
            let vcode : E := match vk with
              | some k => S.verify body sig k
              | none => .ok
            if vcode ≠ .ok then .error vcode else
            match ofR (derTSEQDecStop p a) .badFormat with
            | .error e => .error e
            | .ok _ =>
              if cert.length - p ≠ 0 then .error .badFormat else
              let code := cvcCheck S c
              if code ≠ .ok then .error code else .ok c

/-- btokCVCIss -/
def cvcIss (S : Sig) (c : Cvc) (certa priva : Bytes) : E × Cvc × Bytes :=
  match cvcUnwrap S certa .none with
  | .error e => (e, c, [])
  | .ok ca =>
    let code := cvcCheck2 S c ca
    if code ≠ .ok then (code, c, []) else
    let code := S.keypairVal priva ca.pubkey
    if code ≠ .ok then (code, c, []) else
    cvcWrap S c priva

/-- the date part of btokCVCVal / Val2 (`date` = none ⇔ NULL) -/
def dateCheck (c : Cvc) (date : Option Bytes) : E :=
  match date with
  | none => .ok
  | some d =>
    if !dateIsValid d then .badDate
    else if !dateLeq c.from_ d || !dateLeq d c.until_ then .outOfRange
    else .ok

/-- btokCVCVal(cert, cert_len, certa, certa_len, date) -/
def cvcVal (S : Sig) (cert certa : Bytes) (date : Option Bytes) : E :=
  match cvcUnwrap S certa .none with
  | .error e => e
  | .ok ca =>
    match cvcUnwrap S cert (.key ca.pubkey) with
    | .error e => e
    | .ok c =>
      let code := cvcCheck2 S c ca
      if code ≠ .ok then code else dateCheck c date

/-- btokCVCVal2(cvc, cert, cert_len, cvca, date): `cvca->pubkey_len == 0` makes btokCVCUnwrap see
    (cvca->pubkey, 0), a foreign pointer -/
def cvcVal2 (S : Sig) (cert : Bytes) (ca : Cvc) (date : Option Bytes) : E × Option Cvc :=
  match cvcUnwrap S cert (if ca.pubkey.length = 0 then .foreign else .key ca.pubkey) with
  | .error e => (e, none)
  | .ok c =>
    let code := cvcCheck2 S c ca
    if code ≠ .ok then (code, some c) else (dateCheck c date, some c)

/-- btokCVCMatch -/
def cvcMatch (S : Sig) (cert priv : Bytes) : E :=
  match cvcUnwrap S cert .none with
  | .error e => e
  | .ok c => S.keypairVal priv c.pubkey

/-- btokCVCLen -/
def cvcLen (der : Bytes) : R Nat :=
  match derDec2 der 0x7F21 with
  | .ok (_, _, c) => .ok c
  | .err => .err
  | .oob => .oob

end Bee2V.C17

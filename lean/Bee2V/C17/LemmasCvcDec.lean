/-
C17 — decoder side of the CV-certificate round trip: btokCVCBodyDec on the explicit code of CvcCode.lean.
Layer 1 (this part): control flow of bodyDec / decHatEid / decHatEsign for an ARBITRARY buffer, every decoder
result given as a hypothesis (never unfold a C08 decoder on a buffer with literal head octets).  No Mathlib.
-/
import Bee2V.C17.CvcCode
import Bee2V.C17.LemmasCVC
import Bee2V.C08.LemmasSid
namespace Bee2V.C17
open Bee2V.C08
open Bee2V.Gen.C17Src (nameMin nameMax keyBits)

theorem R_bind_ok {α β : Type} (a : α) (f : α → R β) : (R.ok a >>= f) = f a := rfl

/-- decHatEid when the optional CertHAT is absent -/
theorem decHatEid_absent (body : Bytes) (p : Nat) (h : derStartsWith (body.drop p) 0x7F4C = .err) :
    decHatEid body p = .ok (zeros 5, p) := by
  unfold decHatEid; rw [h]

/-- decHatEid when it is present -/
theorem decHatEid_present (body : Bytes) (p : Nat) (a : Anchor) (t t1 t2 : Nat) (hat : Bytes)
    (h0 : derStartsWith (body.drop p) 0x7F4C = .ok ())
    (h1 : derTSEQDecStart (body.drop p) 0x7F4C = .ok (a, t))
    (h2 : derOIDDec2 (body.drop (p + t)) oid_eid_access = .ok t1)
    (h3 : derTOCTDec2 (body.drop (p + t + t1)) 4 5 = .ok (hat, t2))
    (h4 : derTSEQDecStop (p + t + t1 + t2 - p) a = .ok ()) :
    decHatEid body p = .ok (hat, p + t + t1 + t2) := by
  unfold decHatEid; rw [h0]
  simp only [h1, R_bind_ok, h2, h3, h4]
  rfl

theorem decHatEsign_absent (body : Bytes) (p : Nat) (h : derStartsWith (body.drop p) 0x65 = .err) :
    decHatEsign body p = .ok (zeros 2, p) := by
  unfold decHatEsign; rw [h]

theorem decHatEsign_present (body : Bytes) (p : Nat) (aE aD aH : Anchor) (tE tD tO tH tO2 tV : Nat) (hat : Bytes)
    (h0 : derStartsWith (body.drop p) 0x65 = .ok ())
    (h1 : derTSEQDecStart (body.drop p) 0x65 = .ok (aE, tE))
    (h2 : derTSEQDecStart (body.drop (p + tE)) 0x73 = .ok (aD, tD))
    (h3 : derOIDDec2 (body.drop (p + tE + tD)) oid_esign_auth_ext = .ok tO)
    (h4 : derTSEQDecStart (body.drop (p + tE + tD + tO)) 0x7F4C = .ok (aH, tH))
    (h5 : derOIDDec2 (body.drop (p + tE + tD + tO + tH)) oid_esign_access = .ok tO2)
    (h6 : derTOCTDec2 (body.drop (p + tE + tD + tO + tH + tO2)) 4 2 = .ok (hat, tV))
    (h7 : derTSEQDecStop (p + tE + tD + tO + tH + tO2 + tV - (p + tE + tD + tO)) aH = .ok ())
    (h8 : derTSEQDecStop (p + tE + tD + tO + tH + tO2 + tV - (p + tE)) aD = .ok ())
    (h9 : derTSEQDecStop (p + tE + tD + tO + tH + tO2 + tV - p) aE = .ok ()) :
    decHatEsign body p = .ok (hat, p + tE + tD + tO + tH + tO2 + tV) := by
  unfold decHatEsign; rw [h0]
  simp only [h1, R_bind_ok, h2, h3, h4, h5, h6, h7, h8, h9]
  rfl

theorem guard_true : guard true = .ok () := rfl

/-- control flow of btokCVCBodyDec -/
theorem bodyDec_core (body : Bytes) (aB aP : Anchor) (t0 tv ta tp to tb th tf tu p8 p11 bits : Nat)
    (auth holder pk fr un he hs : Bytes)
    (H1 : derTSEQDecStart body 0x7F4E = .ok (aB, t0))
    (H2 : derTSIZEDec2 (body.drop t0) 0x5F29 0 = .ok tv)
    (H3 : derTPSTRDec (body.drop (t0 + tv)) 0x42 = .ok (auth, ta))
    (G3 : (decide (nameMin ≤ auth.length) && decide (auth.length ≤ nameMax)) = true)
    (H4 : derTSEQDecStart (body.drop (t0 + tv + ta)) 0x7F49 = .ok (aP, tp))
    (H5 : derOIDDec2 (body.drop (t0 + tv + ta + tp)) oid_pubkey = .ok to)
    (H6 : derTBITDec (body.drop (t0 + tv + ta + tp + to)) 3 = .ok (pk, bits, tb))
    (G6 : keyBits.contains bits = true)
    (H7 : derTSEQDecStop (t0 + tv + ta + tp + to + tb - (t0 + tv + ta)) aP = .ok ())
    (H8 : derTPSTRDec (body.drop (t0 + tv + ta + tp + to + tb)) 0x5F20 = .ok (holder, th))
    (G8 : (decide (nameMin ≤ holder.length) && decide (holder.length ≤ nameMax)) = true)
    (H9 : decHatEid body (t0 + tv + ta + tp + to + tb + th) = .ok (he, p8))
    (H10 : derTOCTDec2 (body.drop p8) 0x5F25 6 = .ok (fr, tf))
    (H11 : derTOCTDec2 (body.drop (p8 + tf)) 0x5F24 6 = .ok (un, tu))
    (H12 : decHatEsign body (p8 + tf + tu) = .ok (hs, p11))
    (H13 : derTSEQDecStop p11 aB = .ok ()) :
    bodyDec body = .ok (⟨auth, holder, pk, fr, un, he, hs, []⟩, p11) := by
  unfold bodyDec
  simp only [H1, R_bind_ok, H2, H3, G3, guard_true, H4, H5, H6, G6, H7, H8, G8, H9, H10, H11, H12, H13]
  rfl

/-! ### Layer 2: the primitive decoders on `tlvC` codes (tags are variables here; instantiate, never unfold) -/

theorem tlvC_length (tag : Nat) (v : Bytes) :
    (tlvC tag v).length = tCount tag + (derLEnc v.length).length + v.length := by
  simp only [tlvC, List.length_append, beBytes_length]

theorem tlvC_le (tag : Nat) (v : Bytes) (hlt : tag < U32) (hl : v.length < W) :
    2 ≤ (tlvC tag v).length ∧ (tlvC tag v).length ≤ 13 + v.length := by
  rw [tlvC_length]
  have h4 := tCount_le4 tag hlt
  have h9 := derLEnc_le9 v.length hl
  omega

theorem tlvC_eq_derEnc (tag : Nat) (v : Bytes) (hv : derTIsValid tag = true) : derEnc tag v = .ok (tlvC tag v) :=
  derEnc_eq tag v hv

theorem seqStart_tlvC (tag : Nat) (content rest : Bytes) (hv : derTIsValid tag = true)
    (hc : derTIsConstructive tag = true) (hlt : tag < U32) (hl : content.length < SIZE_MAX) :
    derTSEQDecStart (tlvC tag content ++ rest) tag =
      .ok (⟨0, tag, content.length⟩, tCount tag + (derLEnc content.length).length) :=
  derTSEQDecStart_enc tag content rest hv hc hlt hl

theorem startsWith_tlvC (tag tag' : Nat) (v rest : Bytes) (hv : derTIsValid tag = true) (hlt : tag < U32) :
    derStartsWith (tlvC tag v ++ rest) tag' = if tag = tag' then .ok () else .err := by
  unfold derStartsWith tlvC
  rw [List.append_assoc, List.append_assoc, derT_roundtrip' tag hv hlt]

theorem pstrDec_tlvC (tag : Nat) (v rest : Bytes) (hp : v.all (fun c => isPrintable c.toNat) = true)
    (hv : derTIsValid tag = true) (hlt : tag < U32) (hlen : 13 + v.length + rest.length < W) :
    derTPSTRDec (tlvC tag v ++ rest) tag = .ok (v, (tlvC tag v).length) := by
  obtain ⟨e, he, hd⟩ := derTPSTR_roundtrip' tag v hp hv hlt rest hlen
  unfold derTPSTREnc at he
  rw [hp] at he
  simp only [Bool.not_true, Bool.false_eq_true, if_false] at he
  rw [tlvC_eq_derEnc tag v hv] at he
  cases he
  exact hd

theorem octDec2_of_derDec (x : Bytes) (tag off len c : Nat) (v : Bytes) (h : derDec x = .ok (tag, off, len, c))
    (hs : (x.drop off).take len = v) (hb : off + len ≤ x.length) : derTOCTDec2 x tag len = .ok (v, c) := by
  unfold derTOCTDec2 derDec3 rdSlice
  rw [h]
  simp [hs, hb]

theorem octDec2_tlvC (tag : Nat) (v rest : Bytes) (hv : derTIsValid tag = true) (hlt : tag < U32)
    (hlen : 13 + v.length + rest.length < W) :
    derTOCTDec2 (tlvC tag v ++ rest) tag v.length = .ok (v, (tlvC tag v).length) := by
  obtain ⟨e, he, hd, hs⟩ := derEnc_roundtrip' tag v hv hlt rest hlen
  rw [tlvC_eq_derEnc tag v hv] at he
  cases he
  refine octDec2_of_derDec _ _ _ _ _ _ hd hs ?_
  have := tlvC_length tag v
  simp only [List.length_append]; omega

theorem oidDec2_oidC (oid rest : Bytes) (hok : derOIDEnc oid = .ok (oidC oid))
    (hlen : 13 + (oidC oid).length + rest.length < W) :
    derOIDDec2 (oidC oid ++ rest) oid = .ok (oidC oid).length :=
  derOIDDec2_roundtrip oid (oidC oid) rest hok hlen

/-! ### ground facts (each evaluated once by the kernel, never by `simp`/`whnf`) -/

private theorem isOk_of {α : Type} {r : R α} (h : r.isOk = true) : ∃ a, r = .ok a := by
  cases r with
  | ok a => exact ⟨a, rfl⟩
  | err => cases h
  | oob => cases h

private theorem oidC_of_isOk (oid : Bytes) (h : (derOIDEnc oid).isOk = true) : derOIDEnc oid = .ok (oidC oid) := by
  obtain ⟨a, ha⟩ := isOk_of h
  unfold oidC; rw [ha]

private theorem g_oid_pubkey : derOIDEnc oid_pubkey = .ok (oidC oid_pubkey) := oidC_of_isOk _ (by decide +kernel)
private theorem g_oid_eid : derOIDEnc oid_eid_access = .ok (oidC oid_eid_access) := oidC_of_isOk _ (by decide +kernel)
private theorem g_oid_esign : derOIDEnc oid_esign_access = .ok (oidC oid_esign_access) := oidC_of_isOk _ (by decide +kernel)
private theorem g_oid_ext : derOIDEnc oid_esign_auth_ext = .ok (oidC oid_esign_auth_ext) := oidC_of_isOk _ (by decide +kernel)
private theorem g_oidlen_pubkey : (oidC oid_pubkey).length ≤ 20 := by decide +kernel
private theorem g_oidlen_eid : (oidC oid_eid_access).length ≤ 20 := by decide +kernel
private theorem g_oidlen_esign : (oidC oid_esign_access).length ≤ 20 := by decide +kernel
private theorem g_oidlen_ext : (oidC oid_esign_auth_ext).length ≤ 20 := by decide +kernel
private theorem g_verC : derTSIZEEnc 0x5F29 0 = .ok verC := by decide +kernel

private theorem v7F4E : derTIsValid 0x7F4E = true ∧ derTIsConstructive 0x7F4E = true := by decide +kernel
private theorem v7F49 : derTIsValid 0x7F49 = true ∧ derTIsConstructive 0x7F49 = true := by decide +kernel
private theorem v7F4C : derTIsValid 0x7F4C = true ∧ derTIsConstructive 0x7F4C = true := by decide +kernel
private theorem v65 : derTIsValid 0x65 = true ∧ derTIsConstructive 0x65 = true := by decide +kernel
private theorem v73 : derTIsValid 0x73 = true ∧ derTIsConstructive 0x73 = true := by decide +kernel
private theorem v5F29 : derTIsValid 0x5F29 = true := by decide +kernel
private theorem v42 : derTIsValid 0x42 = true := by decide +kernel
private theorem v5F20 : derTIsValid 0x5F20 = true := by decide +kernel
private theorem v5F25 : derTIsValid 0x5F25 = true := by decide +kernel
private theorem v5F24 : derTIsValid 0x5F24 = true := by decide +kernel
private theorem v3 : derTIsValid 3 = true := by decide +kernel
private theorem v4 : derTIsValid 4 = true := by decide +kernel
theorem ltU32 {t : Nat} (h : t < 65536) : t < U32 := by unfold U32; omega

theorem sizeDec2_verC (rest : Bytes) : derTSIZEDec2 (verC ++ rest) 0x5F29 0 = .ok 4 := by
  obtain ⟨e, he, hd⟩ := derTSIZE_roundtrip' 0x5F29 0 v5F29 (ltU32 (by omega)) (by unfold W; omega) rest
  rw [g_verC] at he
  cases he
  generalize verC ++ rest = x at hd
  unfold derTSIZEDec2
  rw [hd]
  rfl

/-- BIT STRING of whole octets -/
theorem bitEnc_bitC (pk : Bytes) (h : 8 * pk.length + 15 < W) : derTBITEnc 3 pk (8 * pk.length) = .ok (bitC pk) := by
  have e1 : (8 * pk.length + 7) % W / 8 = pk.length := by rw [Nat.mod_eq_of_lt (by omega)]; omega
  have e2 : (8 * pk.length + 15) % W / 8 = pk.length + 1 := by rw [Nat.mod_eq_of_lt (by omega)]; omega
  have e3 : ¬ (8 * pk.length % 8 ≠ 0) := by omega
  unfold derTBITEnc
  simp only [e1, e2, e3, if_false, derTEnc_ok 3 v3, rdSlice, Nat.zero_add, Nat.le_refl, if_true, List.drop_zero,
    List.take_length]
  simp only [bitC, tlvC, List.length_cons, List.append_assoc]

theorem bitDec_bitC (pk rest : Bytes) (hlen : 40 + pk.length + rest.length < W) (h8 : 8 * pk.length + 15 < W) :
    derTBITDec (bitC pk ++ rest) 3 = .ok (pk, 8 * pk.length, (bitC pk).length) := by
  obtain ⟨e, he, hd⟩ := derTBIT_roundtrip' 3 pk (8 * pk.length) (by omega) v3 (ltU32 (by omega)) rest (by omega) h8
  rw [bitEnc_bitC pk h8] at he
  cases he
  have hc : bitClean pk (8 * pk.length) = pk := by
    unfold bitClean
    have : ¬ (8 * pk.length % 8 ≠ 0) := by omega
    rw [if_neg this]
  rw [hc] at hd
  exact hd

theorem isZero_eq_zeros (b : Bytes) (h : isZero b = true) : b = zeros b.length := by
  induction b with
  | nil => rfl
  | cons x xs ih =>
    simp only [isZero, List.all_cons, Bool.and_eq_true, beq_iff_eq] at h
    have := ih (by simpa [isZero] using h.2)
    rw [h.1]
    simp only [List.length_cons, zeros, Bee2V.C01.zeros, List.replicate_succ]
    congr 1

/-! ### Layer 3: the optional parts on their explicit codes -/

theorem drop_at (pre tail : Bytes) (k : Nat) (hk : k = pre.length) : (pre ++ tail).drop k = tail := by
  subst hk; exact List.drop_left' rfl

/-- head of a tlvC code: T ‖ L -/
def tlHd (tag : Nat) (content : Bytes) : Bytes := beBytes (tCount tag) tag ++ derLEnc content.length

theorem tlvC_split (tag : Nat) (content : Bytes) : tlvC tag content = tlHd tag content ++ content := by
  simp only [tlvC, tlHd]

theorem tlHd_length (tag : Nat) (content : Bytes) :
    (tlHd tag content).length = tCount tag + (derLEnc content.length).length := by
  simp only [tlHd, List.length_append, beBytes_length]

theorem hatEid_fact (c : Cvc) (body pre post' x : Bytes) (hb : body = pre ++ (hatEidC c ++ (tlvC 0x5F25 x ++ post')))
    (he : c.hatEid.length = 5) (hpost : post'.length + x.length + 100 < W) :
    decHatEid body pre.length = .ok (c.hatEid, pre.length + (hatEidC c).length) := by
  by_cases hz : isZero c.hatEid = true
  · have hC : hatEidC c = [] := by simp [hatEidC, hz]
    have hd : body.drop pre.length = tlvC 0x5F25 x ++ post' := by rw [hb, hC]; exact drop_at _ _ _ rfl
    have h0 : derStartsWith (body.drop pre.length) 0x7F4C = .err := by
      rw [hd, startsWith_tlvC 0x5F25 0x7F4C x post' v5F25 (ltU32 (by omega))]
      rfl
    rw [decHatEid_absent body _ h0, hC]
    have := isZero_eq_zeros c.hatEid hz
    rw [he] at this
    rw [this]; rfl
  · have hz' : isZero c.hatEid = false := by simpa using hz
    have hC : hatEidC c = tlvC 0x7F4C (oidC oid_eid_access ++ tlvC 4 c.hatEid) := by simp [hatEidC, hz']
    generalize hO : oidC oid_eid_access = O at *
    have hOl : O.length ≤ 20 := by rw [← hO]; exact g_oidlen_eid
    generalize hV : tlvC 4 c.hatEid = V at *
    have hVl := tlvC_le 4 c.hatEid (ltU32 (by omega)) (by rw [he]; unfold W; omega)
    rw [hV, he] at hVl
    have hlenOV : (O ++ V).length < SIZE_MAX := by simp only [List.length_append]; unfold SIZE_MAX; omega
    have hd : body.drop pre.length = tlvC 0x7F4C (O ++ V) ++ (tlvC 0x5F25 x ++ post') := by
      rw [hb, hC]; exact drop_at _ _ _ rfl
    have h0 : derStartsWith (body.drop pre.length) 0x7F4C = .ok () := by
      rw [hd, startsWith_tlvC 0x7F4C 0x7F4C _ _ v7F4C.1 (ltU32 (by omega))]; rfl
    have h1 : derTSEQDecStart (body.drop pre.length) 0x7F4C =
        .ok (⟨0, 0x7F4C, (O ++ V).length⟩, (tlHd 0x7F4C (O ++ V)).length) := by
      rw [hd, tlHd_length]
      exact seqStart_tlvC 0x7F4C (O ++ V) _ v7F4C.1 v7F4C.2 (ltU32 (by omega)) hlenOV
    have hb2 : body = (pre ++ tlHd 0x7F4C (O ++ V)) ++ (O ++ (V ++ (tlvC 0x5F25 x ++ post'))) := by
      rw [hb, hC, tlvC_split]; simp only [List.append_assoc]
    have h2 : derOIDDec2 (body.drop (pre.length + (tlHd 0x7F4C (O ++ V)).length)) oid_eid_access = .ok O.length := by
      rw [hb2, drop_at _ _ _ (by simp only [List.length_append]), ← hO]
      have hpl := tlvC_le 0x5F25 x (ltU32 (by omega)) (by omega)
      refine oidDec2_oidC oid_eid_access _ g_oid_eid ?_
      rw [hO]; simp only [List.length_append]; omega
    have hb3 : body = (pre ++ tlHd 0x7F4C (O ++ V) ++ O) ++ (V ++ (tlvC 0x5F25 x ++ post')) := by
      rw [hb2]; simp only [List.append_assoc]
    have h3 : derTOCTDec2 (body.drop (pre.length + (tlHd 0x7F4C (O ++ V)).length + O.length)) 4 5 = .ok (c.hatEid, V.length) := by
      rw [hb3, drop_at _ _ _ (by simp only [List.length_append]), ← hV, ← he]
      have hpl := tlvC_le 0x5F25 x (ltU32 (by omega)) (by omega)
      refine octDec2_tlvC 4 c.hatEid _ v4 (ltU32 (by omega)) ?_
      simp only [List.length_append]; omega
    have h4 : derTSEQDecStop (pre.length + (tlHd 0x7F4C (O ++ V)).length + O.length + V.length - pre.length)
        ⟨0, 0x7F4C, (O ++ V).length⟩ = .ok () := by
      have e : pre.length + (tlHd 0x7F4C (O ++ V)).length + O.length + V.length - pre.length =
          tCount 0x7F4C + (derLEnc (O ++ V).length).length + (O ++ V).length := by
        rw [tlHd_length]; simp only [List.length_append]; omega
      have hW : tCount 0x7F4C + (derLEnc (O ++ V).length).length + (O ++ V).length < W := by
        have h4' := tCount_le4 0x7F4C (ltU32 (by omega))
        have hl : (O ++ V).length = O.length + V.length := List.length_append
        have h9 := derLEnc_le9 (O ++ V).length (by rw [hl]; unfold W; omega)
        rw [hl] at h9 ⊢
        clear e h0 h1 h2 h3 hb hb2 hb3 hd
        unfold W; omega
      rw [e]
      exact derTSEQDecStop_enc 0 0x7F4C _ v7F4C.1 hW
    rw [decHatEid_present body pre.length _ _ _ _ _ h0 h1 h2 h3 h4, hC]
    congr 2
    rw [tlvC_split, List.length_append, List.length_append]; omega

theorem stop_ok (tag : Nat) (content : Bytes) (pos : Nat) (hv : derTIsValid tag = true) (hlt : tag < 65536)
    (hl : content.length < 4294967296) (hpos : pos = (tlHd tag content).length + content.length) :
    derTSEQDecStop pos ⟨0, tag, content.length⟩ = .ok () := by
  have h4 := tCount_le4 tag (ltU32 hlt)
  have h9 := derLEnc_le9 content.length (by unfold W; omega)
  rw [hpos, tlHd_length]
  exact derTSEQDecStop_enc 0 tag _ hv (by unfold W; omega)

theorem hatEsign_fact (c : Cvc) (body pre post : Bytes) (hb : body = pre ++ (hatEsignC c ++ post))
    (hs : c.hatEsign.length = 2) (hpost : post.length + 200 < 4294967296)
    (hnext : isZero c.hatEsign = true → derStartsWith post 0x65 = .err) :
    decHatEsign body pre.length = .ok (c.hatEsign, pre.length + (hatEsignC c).length) := by
  by_cases hz : isZero c.hatEsign = true
  · have hC : hatEsignC c = [] := by simp [hatEsignC, hz]
    have hd : body.drop pre.length = post := by rw [hb, hC]; exact drop_at _ _ _ rfl
    have h0 : derStartsWith (body.drop pre.length) 0x65 = .err := by rw [hd]; exact hnext hz
    rw [decHatEsign_absent body _ h0, hC]
    have := isZero_eq_zeros c.hatEsign hz
    rw [hs] at this
    rw [this]; rfl
  · have hz' : isZero c.hatEsign = false := by simpa using hz
    have hC : hatEsignC c =
        tlvC 0x65 (tlvC 0x73 (oidC oid_esign_auth_ext ++ tlvC 0x7F4C (oidC oid_esign_access ++ tlvC 4 c.hatEsign))) := by
      simp [hatEsignC, hz']
    generalize hO1 : oidC oid_esign_auth_ext = O1 at *
    generalize hO2 : oidC oid_esign_access = O2 at *
    have hO1l : O1.length ≤ 20 := by rw [← hO1]; exact g_oidlen_ext
    have hO2l : O2.length ≤ 20 := by rw [← hO2]; exact g_oidlen_esign
    generalize hV : tlvC 4 c.hatEsign = V at *
    have hVl := tlvC_le 4 c.hatEsign (ltU32 (by omega)) (by rw [hs]; unfold W; omega)
    rw [hV, hs] at hVl
    -- the nested contents and their sizes
    have hIl : (O2 ++ V).length = O2.length + V.length := List.length_append
    have hHl := tlvC_le 0x7F4C (O2 ++ V) (ltU32 (by omega)) (by rw [hIl]; unfold W; omega)
    generalize hH : tlvC 0x7F4C (O2 ++ V) = H at *
    have hDl : (O1 ++ H).length = O1.length + H.length := List.length_append
    have hDDl := tlvC_le 0x73 (O1 ++ H) (ltU32 (by omega)) (by rw [hDl]; unfold W; omega)
    generalize hDD : tlvC 0x73 (O1 ++ H) = DD at *
    have hEl := tlvC_le 0x65 DD (ltU32 (by omega)) (by unfold W; omega)
    -- splits
    have sE : tlvC 0x65 DD = tlHd 0x65 DD ++ DD := tlvC_split _ _
    have sD : DD = tlHd 0x73 (O1 ++ H) ++ (O1 ++ H) := by rw [← hDD]; exact tlvC_split _ _
    have sH : H = tlHd 0x7F4C (O2 ++ V) ++ (O2 ++ V) := by rw [← hH]; exact tlvC_split _ _
    have lE := tlHd_length 0x65 DD
    have lD := tlHd_length 0x73 (O1 ++ H)
    have lH := tlHd_length 0x7F4C (O2 ++ V)
    generalize htE : tlHd 0x65 DD = TE at *
    generalize htD : tlHd 0x73 (O1 ++ H) = TD at *
    generalize htH : tlHd 0x7F4C (O2 ++ V) = TH at *
    have hDDlen : DD.length = TD.length + (O1.length + H.length) := by rw [sD]; simp only [List.length_append]
    have hHlen : H.length = TH.length + (O2.length + V.length) := by rw [sH]; simp only [List.length_append]
    -- drops
    have d0 : body.drop pre.length = tlvC 0x65 DD ++ post := by rw [hb, hC]; exact drop_at _ _ _ rfl
    have b1 : body = (pre ++ TE) ++ (DD ++ post) := by rw [hb, hC, sE]; simp only [List.append_assoc]
    have d1 : body.drop (pre.length + TE.length) = tlvC 0x73 (O1 ++ H) ++ post := by
      rw [b1, drop_at _ _ _ (by simp only [List.length_append]), hDD]
    have b2 : body = (pre ++ TE ++ TD) ++ (O1 ++ (H ++ post)) := by
      rw [b1]; conv => lhs; rw [sD]
      simp only [List.append_assoc]
    have d2 : body.drop (pre.length + TE.length + TD.length) = O1 ++ (H ++ post) := by
      rw [b2, drop_at _ _ _ (by simp only [List.length_append])]
    have b3 : body = (pre ++ TE ++ TD ++ O1) ++ (H ++ post) := by rw [b2]; simp only [List.append_assoc]
    have d3 : body.drop (pre.length + TE.length + TD.length + O1.length) = tlvC 0x7F4C (O2 ++ V) ++ post := by
      rw [b3, drop_at _ _ _ (by simp only [List.length_append]), hH]
    have b4 : body = (pre ++ TE ++ TD ++ O1 ++ TH) ++ (O2 ++ (V ++ post)) := by
      rw [b3]; conv => lhs; rw [sH]
      simp only [List.append_assoc]
    have d4 : body.drop (pre.length + TE.length + TD.length + O1.length + TH.length) = O2 ++ (V ++ post) := by
      rw [b4, drop_at _ _ _ (by simp only [List.length_append])]
    have b5 : body = (pre ++ TE ++ TD ++ O1 ++ TH ++ O2) ++ (V ++ post) := by rw [b4]; simp only [List.append_assoc]
    have d5 : body.drop (pre.length + TE.length + TD.length + O1.length + TH.length + O2.length) = V ++ post := by
      rw [b5, drop_at _ _ _ (by simp only [List.length_append])]
    -- the decoder calls
    have h0 : derStartsWith (body.drop pre.length) 0x65 = .ok () := by
      rw [d0, startsWith_tlvC 0x65 0x65 _ _ v65.1 (ltU32 (by omega))]; rfl
    have h1 : derTSEQDecStart (body.drop pre.length) 0x65 = .ok (⟨0, 0x65, DD.length⟩, TE.length) := by
      rw [d0, lE]
      exact seqStart_tlvC 0x65 DD _ v65.1 v65.2 (ltU32 (by omega)) (by unfold SIZE_MAX; omega)
    have h2 : derTSEQDecStart (body.drop (pre.length + TE.length)) 0x73 = .ok (⟨0, 0x73, (O1 ++ H).length⟩, TD.length) := by
      rw [d1, lD]
      exact seqStart_tlvC 0x73 (O1 ++ H) _ v73.1 v73.2 (ltU32 (by omega)) (by rw [hDl]; unfold SIZE_MAX; omega)
    have h3 : derOIDDec2 (body.drop (pre.length + TE.length + TD.length)) oid_esign_auth_ext = .ok O1.length := by
      rw [d2, ← hO1]
      refine oidDec2_oidC oid_esign_auth_ext _ g_oid_ext ?_
      rw [hO1]; simp only [List.length_append]; unfold W; omega
    have h4 : derTSEQDecStart (body.drop (pre.length + TE.length + TD.length + O1.length)) 0x7F4C =
        .ok (⟨0, 0x7F4C, (O2 ++ V).length⟩, TH.length) := by
      rw [d3, lH]
      exact seqStart_tlvC 0x7F4C (O2 ++ V) _ v7F4C.1 v7F4C.2 (ltU32 (by omega)) (by rw [hIl]; unfold SIZE_MAX; omega)
    have h5 : derOIDDec2 (body.drop (pre.length + TE.length + TD.length + O1.length + TH.length)) oid_esign_access = .ok O2.length := by
      rw [d4, ← hO2]
      refine oidDec2_oidC oid_esign_access _ g_oid_esign ?_
      rw [hO2]; simp only [List.length_append]; unfold W; omega
    have h6 : derTOCTDec2 (body.drop (pre.length + TE.length + TD.length + O1.length + TH.length + O2.length)) 4 2 =
        .ok (c.hatEsign, V.length) := by
      rw [d5, ← hV, ← hs]
      refine octDec2_tlvC 4 c.hatEsign _ v4 (ltU32 (by omega)) ?_
      unfold W; omega
    have h7 : derTSEQDecStop (pre.length + TE.length + TD.length + O1.length + TH.length + O2.length + V.length -
        (pre.length + TE.length + TD.length + O1.length)) ⟨0, 0x7F4C, (O2 ++ V).length⟩ = .ok () := by
      refine stop_ok 0x7F4C (O2 ++ V) _ v7F4C.1 (by omega) (by rw [hIl]; omega) ?_
      rw [htH, hIl]; omega
    have h8 : derTSEQDecStop (pre.length + TE.length + TD.length + O1.length + TH.length + O2.length + V.length -
        (pre.length + TE.length)) ⟨0, 0x73, (O1 ++ H).length⟩ = .ok () := by
      refine stop_ok 0x73 (O1 ++ H) _ v73.1 (by omega) (by rw [hDl]; omega) ?_
      rw [htD, hDl, hHlen]; omega
    have h9 : derTSEQDecStop (pre.length + TE.length + TD.length + O1.length + TH.length + O2.length + V.length -
        pre.length) ⟨0, 0x65, DD.length⟩ = .ok () := by
      refine stop_ok 0x65 DD _ v65.1 (by omega) (by omega) ?_
      rw [htE, hDDlen, hHlen]; omega
    rw [decHatEsign_present body pre.length _ _ _ _ _ _ _ _ _ _ h0 h1 h2 h3 h4 h5 h6 h7 h8 h9, hC]
    congr 2
    rw [sE, List.length_append, hDDlen, hHlen]; omega

/-! ### Layer 4: btokCVCBodyDec on the explicit code of a valid content -/

theorem dateIsValid_len (d : Bytes) (h : dateIsValid d = true) : d.length = 6 := by
  unfold dateIsValid at h
  split at h
  · rfl
  · cases h

theorem hatEidC_le (c : Cvc) (he : c.hatEid.length = 5) : (hatEidC c).length ≤ 60 := by
  unfold hatEidC
  split
  · have h1 := tlvC_le 4 c.hatEid (ltU32 (by omega)) (by rw [he]; unfold W; omega)
    have h2 := g_oidlen_eid
    have h3 := tlvC_le 0x7F4C (oidC oid_eid_access ++ tlvC 4 c.hatEid) (ltU32 (by omega))
      (by simp only [List.length_append]; unfold W; omega)
    simp only [List.length_append] at h3
    omega
  · simp

theorem hatEsignC_le (c : Cvc) (hs : c.hatEsign.length = 2) : (hatEsignC c).length ≤ 100 := by
  unfold hatEsignC
  split
  · have h1 := tlvC_le 4 c.hatEsign (ltU32 (by omega)) (by rw [hs]; unfold W; omega)
    have h2 := g_oidlen_esign
    have h2' := g_oidlen_ext
    have h3 := tlvC_le 0x7F4C (oidC oid_esign_access ++ tlvC 4 c.hatEsign) (ltU32 (by omega))
      (by simp only [List.length_append]; unfold W; omega)
    simp only [List.length_append] at h3
    have h4 := tlvC_le 0x73 (oidC oid_esign_auth_ext ++ tlvC 0x7F4C (oidC oid_esign_access ++ tlvC 4 c.hatEsign))
      (ltU32 (by omega)) (by simp only [List.length_append]; unfold W; omega)
    simp only [List.length_append] at h4
    have h5 := tlvC_le 0x65 (tlvC 0x73 (oidC oid_esign_auth_ext ++ tlvC 0x7F4C (oidC oid_esign_access ++ tlvC 4 c.hatEsign)))
      (ltU32 (by omega)) (by unfold W; omega)
    omega
  · simp

section
attribute [local irreducible] tlvC tlHd hatEidC hatEsignC bodyContent bodyCode verC oidC

theorem bodyDec_bodyCode (c : Cvc) (rest : Bytes) (hv : cvcSeemsValid c = true) (he : c.hatEid.length = 5)
    (hs : c.hatEsign.length = 2) (hrest : rest.length + 2000 < 4294967296)
    (hnext : isZero c.hatEsign = true → derStartsWith rest 0x65 = .err) :
    bodyDec (bodyCode c ++ rest) = .ok ({ c with sig := [] }, (bodyCode c).length) := by
  -- what validity gives
  simp only [cvcSeemsValid, Bool.and_eq_true] at hv
  obtain ⟨⟨⟨⟨⟨hna, hnh⟩, hdf⟩, hdu⟩, _⟩, hpl⟩ := hv
  simp only [nameIsValid, Bool.and_eq_true, decide_eq_true_eq] at hna hnh
  obtain ⟨⟨ha1, ha2⟩, hap⟩ := hna
  obtain ⟨⟨hh1, hh2⟩, hhp⟩ := hnh
  rw [nameMin_eq] at ha1 hh1
  rw [nameMax_eq] at ha2 hh2
  have hfl := dateIsValid_len _ hdf
  have hul := dateIsValid_len _ hdu
  have hpk : c.pubkey.length = 48 ∨ c.pubkey.length = 64 ∨ c.pubkey.length = 96 ∨ c.pubkey.length = 128 := by
    simp only [pubkeyLenOk, pubLens_eq] at hpl; simpa using hpl
  have hpk128 : c.pubkey.length ≤ 128 := by omega
  have hbits : keyBits.contains (8 * c.pubkey.length) = true := by
    rw [keyBits_eq]; rcases hpk with h | h | h | h <;> simp [h]
  -- the pieces
  have hvl : verC.length = 4 := by unfold verC; rfl
  generalize hO : oidC oid_pubkey = O
  have hOl : O.length ≤ 20 := by rw [← hO]; exact g_oidlen_pubkey
  have hAl := tlvC_le 0x42 c.authority (ltU32 (by omega)) (by unfold W; omega)
  have hBl := tlvC_le 3 (0 :: c.pubkey) (ltU32 (by omega)) (by simp only [List.length_cons]; unfold W; omega)
  simp only [List.length_cons] at hBl
  have hOBl : (O ++ bitC c.pubkey).length = O.length + (bitC c.pubkey).length := List.length_append
  have hPl := tlvC_le 0x7F49 (O ++ bitC c.pubkey) (ltU32 (by omega)) (by rw [hOBl]; unfold bitC W; omega)
  have hHl := tlvC_le 0x5F20 c.holder (ltU32 (by omega)) (by unfold W; omega)
  have hFl := tlvC_le 0x5F25 c.from_ (ltU32 (by omega)) (by unfold W; omega)
  have hUl := tlvC_le 0x5F24 c.until_ (ltU32 (by omega)) (by unfold W; omega)
  have hE1l := hatEidC_le c he
  have hE2l := hatEsignC_le c hs
  have hB : bitC c.pubkey = tlvC 3 (0 :: c.pubkey) := rfl
  rw [← hB] at hBl
  have sP : tlvC 0x7F49 (O ++ bitC c.pubkey) = tlHd 0x7F49 (O ++ bitC c.pubkey) ++ (O ++ bitC c.pubkey) := tlvC_split _ _
  have lP := tlHd_length 0x7F49 (O ++ bitC c.pubkey)
  generalize hTP : tlHd 0x7F49 (O ++ bitC c.pubkey) = TP at *
  have hPlen : (tlvC 0x7F49 (O ++ bitC c.pubkey)).length = TP.length + (O.length + (bitC c.pubkey).length) := by
    rw [sP]; simp only [List.length_append]
  have hKdef : bodyContent c = verC ++ tlvC 0x42 c.authority ++ tlvC 0x7F49 (O ++ bitC c.pubkey) ++ tlvC 0x5F20 c.holder ++
      hatEidC c ++ tlvC 0x5F25 c.from_ ++ tlvC 0x5F24 c.until_ ++ hatEsignC c := by
    unfold bodyContent; rw [hO]
  have hKlen : (bodyContent c).length = 4 + (tlvC 0x42 c.authority).length + (TP.length + (O.length + (bitC c.pubkey).length)) +
      (tlvC 0x5F20 c.holder).length + (hatEidC c).length + (tlvC 0x5F25 c.from_).length + (tlvC 0x5F24 c.until_).length +
      (hatEsignC c).length := by
    rw [hKdef]; simp only [List.length_append, hPlen, hvl]
  have sB : bodyCode c = tlHd 0x7F4E (bodyContent c) ++ bodyContent c := by unfold bodyCode; exact tlvC_split _ _
  have lB := tlHd_length 0x7F4E (bodyContent c)
  generalize hT0 : tlHd 0x7F4E (bodyContent c) = T0 at *
  have hT0l : T0.length ≤ 13 := by
    have h4 := tCount_le4 0x7F4E (ltU32 (by omega))
    have h9 := derLEnc_le9 (bodyContent c).length (by unfold W; omega)
    omega
  generalize hA : tlvC 0x42 c.authority = A at *
  generalize hHd : tlvC 0x5F20 c.holder = Hd at *
  generalize hBB : bitC c.pubkey = B at *
  -- the buffer, right-nested
  have hbody : bodyCode c ++ rest = T0 ++ (verC ++ (A ++ (TP ++ (O ++ (B ++ (Hd ++ (hatEidC c ++ (tlvC 0x5F25 c.from_ ++
      (tlvC 0x5F24 c.until_ ++ (hatEsignC c ++ rest)))))))))) := by
    rw [sB, hKdef, sP]; simp only [List.append_assoc]
  generalize bodyCode c ++ rest = body at *
  -- successive drops
  have D2 : body.drop T0.length = verC ++ (A ++ (TP ++ (O ++ (B ++ (Hd ++ (hatEidC c ++ (tlvC 0x5F25 c.from_ ++
      (tlvC 0x5F24 c.until_ ++ (hatEsignC c ++ rest))))))))) := by rw [hbody]; exact drop_at _ _ _ rfl
  have B3 : body = (T0 ++ verC) ++ (A ++ (TP ++ (O ++ (B ++ (Hd ++ (hatEidC c ++ (tlvC 0x5F25 c.from_ ++
      (tlvC 0x5F24 c.until_ ++ (hatEsignC c ++ rest))))))))) := by rw [hbody]; simp only [List.append_assoc]
  have D3 := congrArg (List.drop (T0.length + 4)) B3
  rw [drop_at _ _ _ (by simp only [List.length_append, hvl])] at D3
  have B4 : body = (T0 ++ verC ++ A) ++ (TP ++ (O ++ (B ++ (Hd ++ (hatEidC c ++ (tlvC 0x5F25 c.from_ ++
      (tlvC 0x5F24 c.until_ ++ (hatEsignC c ++ rest)))))))) := by rw [hbody]; simp only [List.append_assoc]
  have D4 := congrArg (List.drop (T0.length + 4 + A.length)) B4
  rw [drop_at _ _ _ (by simp only [List.length_append, hvl])] at D4
  have B5 : body = (T0 ++ verC ++ A ++ TP) ++ (O ++ (B ++ (Hd ++ (hatEidC c ++ (tlvC 0x5F25 c.from_ ++
      (tlvC 0x5F24 c.until_ ++ (hatEsignC c ++ rest))))))) := by rw [hbody]; simp only [List.append_assoc]
  have D5 := congrArg (List.drop (T0.length + 4 + A.length + TP.length)) B5
  rw [drop_at _ _ _ (by simp only [List.length_append, hvl])] at D5
  have B6 : body = (T0 ++ verC ++ A ++ TP ++ O) ++ (B ++ (Hd ++ (hatEidC c ++ (tlvC 0x5F25 c.from_ ++
      (tlvC 0x5F24 c.until_ ++ (hatEsignC c ++ rest)))))) := by rw [hbody]; simp only [List.append_assoc]
  have D6 := congrArg (List.drop (T0.length + 4 + A.length + TP.length + O.length)) B6
  rw [drop_at _ _ _ (by simp only [List.length_append, hvl])] at D6
  have B8 : body = (T0 ++ verC ++ A ++ TP ++ O ++ B) ++ (Hd ++ (hatEidC c ++ (tlvC 0x5F25 c.from_ ++
      (tlvC 0x5F24 c.until_ ++ (hatEsignC c ++ rest))))) := by rw [hbody]; simp only [List.append_assoc]
  have D8 := congrArg (List.drop (T0.length + 4 + A.length + TP.length + O.length + B.length)) B8
  rw [drop_at _ _ _ (by simp only [List.length_append, hvl])] at D8
  have B9 : body = (T0 ++ verC ++ A ++ TP ++ O ++ B ++ Hd) ++ (hatEidC c ++ (tlvC 0x5F25 c.from_ ++
      (tlvC 0x5F24 c.until_ ++ (hatEsignC c ++ rest)))) := by rw [hbody]; simp only [List.append_assoc]
  have L9 : (T0 ++ verC ++ A ++ TP ++ O ++ B ++ Hd).length =
      T0.length + 4 + A.length + TP.length + O.length + B.length + Hd.length := by
    simp only [List.length_append, hvl]
  have B10 : body = (T0 ++ verC ++ A ++ TP ++ O ++ B ++ Hd ++ hatEidC c) ++ (tlvC 0x5F25 c.from_ ++
      (tlvC 0x5F24 c.until_ ++ (hatEsignC c ++ rest))) := by rw [hbody]; simp only [List.append_assoc]
  have D10 := congrArg (List.drop (T0.length + 4 + A.length + TP.length + O.length + B.length + Hd.length + (hatEidC c).length)) B10
  rw [drop_at _ _ _ (by simp only [List.length_append, hvl])] at D10
  have B11 : body = (T0 ++ verC ++ A ++ TP ++ O ++ B ++ Hd ++ hatEidC c ++ tlvC 0x5F25 c.from_) ++
      (tlvC 0x5F24 c.until_ ++ (hatEsignC c ++ rest)) := by rw [hbody]; simp only [List.append_assoc]
  have D11 := congrArg (List.drop (T0.length + 4 + A.length + TP.length + O.length + B.length + Hd.length + (hatEidC c).length +
      (tlvC 0x5F25 c.from_).length)) B11
  rw [drop_at _ _ _ (by simp only [List.length_append, hvl])] at D11
  have B12 : body = (T0 ++ verC ++ A ++ TP ++ O ++ B ++ Hd ++ hatEidC c ++ tlvC 0x5F25 c.from_ ++ tlvC 0x5F24 c.until_) ++
      (hatEsignC c ++ rest) := by rw [hbody]; simp only [List.append_assoc]
  have L12 : (T0 ++ verC ++ A ++ TP ++ O ++ B ++ Hd ++ hatEidC c ++ tlvC 0x5F25 c.from_ ++ tlvC 0x5F24 c.until_).length =
      T0.length + 4 + A.length + TP.length + O.length + B.length + Hd.length + (hatEidC c).length +
      (tlvC 0x5F25 c.from_).length + (tlvC 0x5F24 c.until_).length := by
    simp only [List.length_append, hvl]
  -- decoder calls
  have H1 : derTSEQDecStart body 0x7F4E = .ok (⟨0, 0x7F4E, (bodyContent c).length⟩, T0.length) := by
    have := seqStart_tlvC 0x7F4E (bodyContent c) rest v7F4E.1 v7F4E.2 (ltU32 (by omega)) (by unfold SIZE_MAX; omega)
    rw [tlvC_split, hT0, ← lB] at this
    rw [hbody]
    have e : T0 ++ bodyContent c ++ rest = T0 ++ (verC ++ (A ++ (TP ++ (O ++ (B ++ (Hd ++ (hatEidC c ++ (tlvC 0x5F25 c.from_ ++
        (tlvC 0x5F24 c.until_ ++ (hatEsignC c ++ rest)))))))))) := by
      rw [hKdef, sP]; simp only [List.append_assoc]
    rw [← e]; exact this
  have H2 : derTSIZEDec2 (body.drop T0.length) 0x5F29 0 = .ok 4 := by rw [D2]; exact sizeDec2_verC _
  have H3 : derTPSTRDec (body.drop (T0.length + 4)) 0x42 = .ok (c.authority, A.length) := by
    rw [D3, ← hA]
    refine pstrDec_tlvC 0x42 c.authority _ hap v42 (ltU32 (by omega)) ?_
    simp only [List.length_append]; unfold W; omega
  have H4 : derTSEQDecStart (body.drop (T0.length + 4 + A.length)) 0x7F49 = .ok (⟨0, 0x7F49, (O ++ B).length⟩, TP.length) := by
    rw [D4, lP]
    have := seqStart_tlvC 0x7F49 (O ++ B) (Hd ++ (hatEidC c ++ (tlvC 0x5F25 c.from_ ++ (tlvC 0x5F24 c.until_ ++ (hatEsignC c ++ rest)))))
      v7F49.1 v7F49.2 (ltU32 (by omega)) (by rw [hOBl]; unfold SIZE_MAX; omega)
    rw [sP] at this
    have e : TP ++ (O ++ B) ++ (Hd ++ (hatEidC c ++ (tlvC 0x5F25 c.from_ ++ (tlvC 0x5F24 c.until_ ++ (hatEsignC c ++ rest))))) =
        TP ++ (O ++ (B ++ (Hd ++ (hatEidC c ++ (tlvC 0x5F25 c.from_ ++ (tlvC 0x5F24 c.until_ ++ (hatEsignC c ++ rest))))))) := by
      simp only [List.append_assoc]
    rw [← e]; exact this
  have H5 : derOIDDec2 (body.drop (T0.length + 4 + A.length + TP.length)) oid_pubkey = .ok O.length := by
    rw [D5, ← hO]
    refine oidDec2_oidC oid_pubkey _ g_oid_pubkey ?_
    rw [hO]; simp only [List.length_append]; unfold W; omega
  have H6 : derTBITDec (body.drop (T0.length + 4 + A.length + TP.length + O.length)) 3 =
      .ok (c.pubkey, 8 * c.pubkey.length, B.length) := by
    rw [D6, ← hBB]
    refine bitDec_bitC c.pubkey _ ?_ (by unfold W; omega)
    simp only [List.length_append]; unfold W; omega
  have H7 : derTSEQDecStop (T0.length + 4 + A.length + TP.length + O.length + B.length - (T0.length + 4 + A.length))
      ⟨0, 0x7F49, (O ++ B).length⟩ = .ok () := by
    refine stop_ok 0x7F49 (O ++ B) _ v7F49.1 (by omega) (by rw [hOBl]; omega) ?_
    rw [hTP, hOBl]; omega
  have H8 : derTPSTRDec (body.drop (T0.length + 4 + A.length + TP.length + O.length + B.length)) 0x5F20 = .ok (c.holder, Hd.length) := by
    rw [D8, ← hHd]
    refine pstrDec_tlvC 0x5F20 c.holder _ hhp v5F20 (ltU32 (by omega)) ?_
    simp only [List.length_append]; unfold W; omega
  have H9 := hatEid_fact c body _ (tlvC 0x5F24 c.until_ ++ (hatEsignC c ++ rest)) c.from_ B9 he
    (by simp only [List.length_append]; unfold W; omega)
  rw [L9] at H9
  have H10 : derTOCTDec2 (body.drop (T0.length + 4 + A.length + TP.length + O.length + B.length + Hd.length + (hatEidC c).length))
      0x5F25 6 = .ok (c.from_, (tlvC 0x5F25 c.from_).length) := by
    rw [D10, ← hfl]
    refine octDec2_tlvC 0x5F25 c.from_ _ v5F25 (ltU32 (by omega)) ?_
    simp only [List.length_append]; unfold W; omega
  have H11 : derTOCTDec2 (body.drop (T0.length + 4 + A.length + TP.length + O.length + B.length + Hd.length + (hatEidC c).length +
      (tlvC 0x5F25 c.from_).length)) 0x5F24 6 = .ok (c.until_, (tlvC 0x5F24 c.until_).length) := by
    rw [D11, ← hul]
    refine octDec2_tlvC 0x5F24 c.until_ _ v5F24 (ltU32 (by omega)) ?_
    simp only [List.length_append]; unfold W; omega
  have H12 := hatEsign_fact c body _ rest B12 hs (by omega) hnext
  rw [L12] at H12
  have H13 : derTSEQDecStop (T0.length + 4 + A.length + TP.length + O.length + B.length + Hd.length + (hatEidC c).length +
      (tlvC 0x5F25 c.from_).length + (tlvC 0x5F24 c.until_).length + (hatEsignC c).length)
      ⟨0, 0x7F4E, (bodyContent c).length⟩ = .ok () := by
    refine stop_ok 0x7F4E (bodyContent c) _ v7F4E.1 (by omega) (by omega) ?_
    rw [hT0, hKlen]; omega
  have G3 : (decide (nameMin ≤ c.authority.length) && decide (c.authority.length ≤ nameMax)) = true := by
    rw [nameMin_eq, nameMax_eq]; simp [ha1, ha2]
  have G8 : (decide (nameMin ≤ c.holder.length) && decide (c.holder.length ≤ nameMax)) = true := by
    rw [nameMin_eq, nameMax_eq]; simp [hh1, hh2]
  have := bodyDec_core body _ _ _ _ _ _ _ _ _ _ _ _ _ _ _ _ _ _ _ _ _ H1 H2 H3 G3 H4 H5 H6 hbits H7 H8 G8 H9 H10 H11 H12 H13
  rw [this]
  congr 2
  rw [sB, List.length_append, hKlen]; omega

end

end Bee2V.C17

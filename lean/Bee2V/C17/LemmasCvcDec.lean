/-
C17 — decoder side of the CV-certificate round trip: btokCVCBodyDec on the explicit code of CvcCode.lean.
Layer 1 (this part): control flow of bodyDec / decHatEid / decHatEsign for an ARBITRARY buffer, every decoder
result given as a hypothesis (never unfold a C08 decoder on a buffer with literal head octets).  No Mathlib.
-/
import Bee2V.C17.CvcCode
import Bee2V.C17.LemmasCVC
namespace Bee2V.C17
open Bee2V.C08
open Bee2V.Gen.C17Src (nameMin nameMax keyBits)

theorem R_bind_ok {α β : Type} (a : α) (f : α → R β) : (R.ok a >>= f) = f a := rfl

/-- decHatEid when the optional CertHAT is absent -/
theorem decHatEid_absent (body : Bytes) (p : Nat) (h : derStartsWith (body.drop p) 0x7F4C = .err) :
    decHatEid body p = .ok (zeros 5, p) := by
  unfold decHatEid; rw [h]

/-- decHatEid when it is present -/
theorem decHatEid_present (body : Bytes) (p : Nat) (a : Anchor) (t t1 t2 : Nat) (hat : Bytes)
    (h0 : derStartsWith (body.drop p) 0x7F4C = .ok ())
    (h1 : derTSEQDecStart (body.drop p) 0x7F4C = .ok (a, t))
    (h2 : derOIDDec2 (body.drop (p + t)) oid_eid_access = .ok t1)
    (h3 : derTOCTDec2 (body.drop (p + t + t1)) 4 5 = .ok (hat, t2))
    (h4 : derTSEQDecStop (p + t + t1 + t2 - p) a = .ok ()) :
    decHatEid body p = .ok (hat, p + t + t1 + t2) := by
  unfold decHatEid; rw [h0]
  simp only [h1, R_bind_ok, h2, h3, h4]
  rfl

end Bee2V.C17

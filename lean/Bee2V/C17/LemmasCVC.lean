/-
C17 — lemmas for the CV-certificate theorems (PropsCVC.lean).  No Mathlib.
-/
import Bee2V.C17.ModelCVC
import Bee2V.C17.Laws
import Bee2V.C12.Props
namespace Bee2V.C17
open Bee2V.Gen.C17Src

theorem nameMin_eq : nameMin = 8 := by decide
theorem nameMax_eq : nameMax = 12 := by decide
theorem pubLens_eq : pubLens = [48, 64, 96, 128] := by decide
theorem privLens_eq : privLens = [24, 32, 48, 64] := by decide
theorem keyBits_eq : keyBits = [384, 512, 768, 1024] := by decide

/-- big-endian value of an octet string (the order memCmp decides) -/
def beNat : Bytes → Nat
  | [] => 0
  | x :: xs => x.toNat * 256 ^ xs.length + beNat xs

theorem beNat_lt (xs : Bytes) : beNat xs < 256 ^ xs.length := by
  induction xs with
  | nil => simp [beNat]
  | cons x xs ih =>
    simp only [beNat, List.length_cons, Nat.pow_succ]
    have := x.toNat_lt
    have h1 : x.toNat * 256 ^ xs.length ≤ 255 * 256 ^ xs.length := Nat.mul_le_mul_right _ (by omega)
    omega

/-- memCmp(l, r, n) ≤ 0 ⇔ l ≤ r as big-endian numbers (equal lengths) -/
theorem memLeq_iff (l r : Bytes) (h : l.length = r.length) : memLeq l r = true ↔ beNat l ≤ beNat r := by
  induction l generalizing r with
  | nil =>
    cases r with
    | nil => simp [memLeq, beNat]
    | cons y ys => simp at h
  | cons x xs ih =>
    cases r with
    | nil => simp at h
    | cons y ys =>
      have hl : xs.length = ys.length := by simpa using h
      have bx := beNat_lt xs
      have by' := beNat_lt ys
      simp only [memLeq, beNat, hl]
      have hpos : 0 < 256 ^ ys.length := Nat.pow_pos (by omega)
      rw [hl] at bx
      by_cases h1 : x < y
      · have : x.toNat + 1 ≤ y.toNat := by exact UInt8.lt_iff_toNat_lt.mp h1
        have := Nat.mul_le_mul_right (256 ^ ys.length) this
        simp only [h1, if_true, true_iff]
        rw [Nat.add_mul] at this
        omega
      · by_cases h2 : y < x
        · have : y.toNat + 1 ≤ x.toNat := by exact UInt8.lt_iff_toNat_lt.mp h2
          have := Nat.mul_le_mul_right (256 ^ ys.length) this
          simp only [h1, h2, if_false, if_true, Bool.false_eq_true, false_iff]
          rw [Nat.add_mul] at this
          omega
        · have hxy : x = y := by
            apply UInt8.toNat_inj.mp
            have a : ¬ x.toNat < y.toNat := fun h => h1 (UInt8.lt_iff_toNat_lt.mpr h)
            have b : ¬ y.toNat < x.toNat := fun h => h2 (UInt8.lt_iff_toNat_lt.mpr h)
            omega
          subst hxy
          simp only [h1, if_false]
          rw [ih ys hl]
          omega

theorem toy_lens (n : Nat) (h : privLenOk n = true) : pubkeyLenOk (n + n) = true := by
  simp only [privLenOk, privLens_eq] at h
  have : n = 24 ∨ n = 32 ∨ n = 48 ∨ n = 64 := by simpa using h
  simp only [pubkeyLenOk, pubLens_eq]
  rcases this with h | h | h | h <;> simp [h]

theorem cvcCheck_ok_iff' (S : Sig) (c : Cvc) :
    cvcCheck S c = .ok ↔
      nameIsValid c.authority = true ∧ nameIsValid c.holder = true ∧ dateIsValid c.from_ = true ∧
      dateIsValid c.until_ = true ∧ dateLeq c.from_ c.until_ = true ∧ S.pubkeyVal c.pubkey = .ok := by
  unfold cvcCheck
  cases nameIsValid c.authority <;> cases nameIsValid c.holder <;> cases dateIsValid c.from_ <;>
    cases dateIsValid c.until_ <;> cases dateLeq c.from_ c.until_ <;> simp

theorem ofR_err {α : Type} {r : Bee2V.C08.R α} {e0 e : E} (h : ofR r e0 = .error e) : e = e0 ∨ e = .oob := by
  unfold ofR at h
  split at h <;> cases h <;> simp

theorem ofR_ok {α : Type} {r : Bee2V.C08.R α} {e0 : E} {a : α} (h : ofR r e0 = .ok a) : r = .ok a := by
  unfold ofR at h
  split at h <;> cases h
  rfl

theorem sigLenOf_err {vk : Option Bytes} {rest : Bytes} {e : E} (h : sigLenOf vk rest = .error e) :
    e = .badFormat ∨ e = .oob := by
  unfold sigLenOf at h
  split at h
  · cases h
  · exact ofR_err h

/-- btokCVCUnwrap never "fails with ERR_OK" -/
theorem cvcUnwrap_go_err (S : Sig) (cert : Bytes) (pk : Option Bytes) (self : Bool) (e : E)
    (h : cvcUnwrap.go S cert pk self = .error e) : e ≠ .ok := by
  unfold cvcUnwrap.go at h
  dsimp only at h
  repeat' (first
    | (cases h <;> first | assumption | (have := ofR_err (by assumption); rcases this with rfl | rfl <;> intro hh <;> cases hh) | (have := sigLenOf_err (by assumption); rcases this with rfl | rfl <;> intro hh <;> cases hh) | (intro hh; cases hh; done))
    | split at h)

theorem cvcUnwrap_err (S : Sig) (cert : Bytes) (arg : PkArg) (e : E) (h : cvcUnwrap S cert arg = .error e) : e ≠ .ok := by
  unfold cvcUnwrap at h
  split at h
  · cases h; intro hh; cases hh
  · split at h
    · cases h; intro hh; cases hh
    · exact cvcUnwrap_go_err S cert _ _ e h
  · exact cvcUnwrap_go_err S cert _ _ e h
  · exact cvcUnwrap_go_err S cert _ _ e h

end Bee2V.C17

/-
C17 — lemmas for the CV-certificate theorems (PropsCVC.lean).  No Mathlib.
-/
import Bee2V.C17.ModelCVC
import Bee2V.C17.Laws
namespace Bee2V.C17
open Bee2V.Gen.C17Src

theorem nameMin_eq : nameMin = 8 := by decide
theorem nameMax_eq : nameMax = 12 := by decide

end Bee2V.C17

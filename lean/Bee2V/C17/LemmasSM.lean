/-
C17 — lemmas for the secure-messaging theorems (PropsSM.lean).  No Mathlib.
-/
import Bee2V.C17.ModelSM
import Bee2V.C17.Laws
namespace Bee2V.C17
open Bee2V.C01 (leNat Cipher)
open Bee2V.C08 (Cmd Resp)
open Bee2V.Gen.C17Src

theorem oct_toNat (v : Nat) : (oct v).toNat = v % 256 := by
  simp [oct, Bee2V.C08.oct, UInt8.toNat_ofNat']

/-- the carry loop adds `carry` to the little-endian number, modulo 256^len -/
theorem ctrIncLoop_spec (ctr : Bytes) (c : Nat) :
    (ctrIncLoop ctr c).length = ctr.length ∧
    leNat (ctrIncLoop ctr c) = (leNat ctr + c) % 256 ^ ctr.length := by
  induction ctr generalizing c with
  | nil => simp [ctrIncLoop, leNat, Nat.mod_one]
  | cons b bs ih =>
    obtain ⟨h1, h2⟩ := ih ((c + b.toNat) / 256)
    refine ⟨by simp [ctrIncLoop, h1], ?_⟩
    simp only [ctrIncLoop, leNat, List.length_cons, oct_toNat, h2]
    rw [Nat.pow_succ, Nat.mul_comm (256 ^ bs.length) 256, Nat.mod_mul]
    have e1 : (b.toNat + 256 * leNat bs + c) % 256 = (c + b.toNat) % 256 := by omega
    have e2 : (b.toNat + 256 * leNat bs + c) / 256 = leNat bs + (c + b.toNat) / 256 := by omega
    rw [e1, e2]

/-! ### the regenerated constants (a change of the source breaks these lemmas, hence every theorem) -/
theorem parCmdWrap_eq : parCmdWrap = 1 := by decide
theorem parCmdUnwrap_eq : parCmdUnwrap = 1 := by decide
theorem parRespWrap_eq : parRespWrap = 0 := by decide
theorem parRespUnwrap_eq : parRespUnwrap = 0 := by decide
theorem cdfStarMax_eq : cdfStarMax = 65535 := by decide
theorem cmdMin_eq : cmdMin = 15 := by decide
theorem respMin_eq : respMin = 12 := by decide
theorem respRdfMax_eq : respRdfMax = 65536 := by decide

theorem ctrParity_lt (st : SmSt) : ctrParity st < 2 := by unfold ctrParity; omega

/-- the parity read from `ctr[0]` is the parity of the 128-bit counter -/
theorem ctrParity_eq (st : SmSt) (h : st.ctr.length = 16) : ctrParity st = leNat st.ctr % 2 := by
  unfold ctrParity
  match hc : st.ctr with
  | [] => simp [hc] at h
  | b :: bs => simp only [List.headD_cons, leNat]; omega

/-! ### result codes -/

theorem smCmdWrapPre_eq (cmd : Cmd) :
    smCmdWrapPre cmd =
      if Bee2V.C08.apduCmdIsValid cmd = false ∨ smBit cmd.cla = true then some .badApdu
      else if cdfStarLen cmd > 65535 then some .badApdu else none := by
  unfold smCmdWrapPre
  rw [cdfStarMax_eq]
  cases Bee2V.C08.apduCmdIsValid cmd <;> cases smBit cmd.cla <;> simp

theorem smCmdWrap_code' (C : Cipher) (cmd : Cmd) (st : SmSt) :
    (smCmdWrap C cmd st).1 =
      if Bee2V.C08.apduCmdIsValid cmd = false ∨ smBit cmd.cla = true then .badApdu
      else if cdfStarLen cmd > 65535 then .badApdu
      else if ctrParity st ≠ 1 then .badLogic else .ok := by
  unfold smCmdWrap
  rw [smCmdWrapPre_eq, parCmdWrap_eq]
  by_cases h1 : Bee2V.C08.apduCmdIsValid cmd = false ∨ smBit cmd.cla = true
  · simp only [if_pos h1]
  · simp only [if_neg h1]
    by_cases h2 : cdfStarLen cmd > 65535
    · simp only [if_pos h2]
    · simp only [if_neg h2]
      by_cases h3 : ctrParity st ≠ 1
      · simp only [if_pos h3]
      · simp only [if_neg h3]

theorem smCmdUnwrap_code' (C : Cipher) (apdu : Bytes) (st : SmSt) :
    (smCmdUnwrap C apdu st).1 =
      match smCmdParse apdu with
      | .error e => e
      | .ok p =>
        if ctrParity st ≠ 1 then .badLogic
        else if mac2V C st.key1 (apdu.take 4) ((apdu.drop (4 + p.lcLen)).take (p.c1 + p.c2)) ((apdu.drop p.macOff).take 8) = false
          then .badMac
        else match apdu.take 4 with
          | [_, _, _, _] => .ok
          | _ => .badApdu := by
  unfold smCmdUnwrap
  rw [parCmdUnwrap_eq]
  cases hp : smCmdParse apdu with
  | error e => rfl
  | ok p =>
    simp only []
    by_cases h3 : ctrParity st ≠ 1
    · simp only [if_pos h3]
    · simp only [if_neg h3]
      cases hm : mac2V C st.key1 (apdu.take 4) ((apdu.drop (4 + p.lcLen)).take (p.c1 + p.c2)) ((apdu.drop p.macOff).take 8) with
      | false => simp
      | true =>
        simp only [Bool.not_true, Bool.false_eq_true, if_false]
        generalize apdu.take 4 = hdr
        rcases hdr with _ | ⟨a, _ | ⟨b, _ | ⟨c, _ | ⟨d, _ | ⟨e, t⟩⟩⟩⟩⟩ <;> simp

theorem smRespWrap_code' (C : Cipher) (resp : Resp) (st : SmSt) :
    (smRespWrap C resp st).1 =
      if resp.rdf.length > 65536 then .badApdu else if ctrParity st ≠ 0 then .badLogic else .ok := by
  unfold smRespWrap apduRespIsValid
  rw [parRespWrap_eq, respRdfMax_eq]
  by_cases h1 : resp.rdf.length > 65536
  · have : ¬ resp.rdf.length ≤ 65536 := by omega
    simp [h1, this]
  · have : resp.rdf.length ≤ 65536 := by omega
    simp only [if_neg h1, this, decide_true, Bool.not_true, Bool.false_eq_true, if_false]
    by_cases h3 : ctrParity st ≠ 0
    · simp only [if_pos h3]
    · simp only [if_neg h3]

theorem smRespUnwrap_code' (C : Cipher) (apdu : Bytes) (st : SmSt) :
    (smRespUnwrap C apdu st).1 =
      match smRespParse apdu with
      | .error e => e
      | .ok p =>
        if ctrParity st ≠ 0 then .badLogic
        else if mac2V C st.key1 (apdu.take p.c1) (apdu.drop (apdu.length - 2)) ((apdu.drop p.macOff).take 8) = false then .badMac
        else match apdu.drop (apdu.length - 2) with
          | [_, _] => .ok
          | _ => .badApdu := by
  unfold smRespUnwrap
  rw [parRespUnwrap_eq]
  cases hp : smRespParse apdu with
  | error e => rfl
  | ok p =>
    simp only []
    by_cases h3 : ctrParity st ≠ 0
    · simp only [if_pos h3]
    · simp only [if_neg h3]
      cases hm : mac2V C st.key1 (apdu.take p.c1) (apdu.drop (apdu.length - 2)) ((apdu.drop p.macOff).take 8) with
      | false => simp
      | true =>
        simp only [Bool.not_true, Bool.false_eq_true, if_false]
        generalize apdu.drop (apdu.length - 2) = sw
        rcases sw with _ | ⟨a, _ | ⟨b, _ | ⟨c, t⟩⟩⟩ <;> simp

/-! ### the parsers fail only with ERR_BAD_APDU (or the model's `oob`, excluded separately) -/

theorem parse87_err {body : Bytes} {e : E} (h : parse87 body = .error e) : e = .badApdu ∨ e = .oob := by
  unfold parse87 at h
  repeat' (first | (cases h <;> first | exact Or.inl rfl | exact Or.inr rfl) | split at h)

theorem parse97_err {rest : Bytes} {n : Nat} {e : E} (h : parse97 rest n = .error e) : e = .badApdu ∨ e = .oob := by
  unfold parse97 at h
  dsimp only at h
  repeat' (first | (cases h <;> first | exact Or.inl rfl | exact Or.inr rfl) | split at h)

theorem parse8E_err {rest : Bytes} {e : E} (h : parse8E rest = .error e) : e = .badApdu ∨ e = .oob := by
  unfold parse8E at h
  repeat' (first | (cases h <;> first | exact Or.inl rfl | exact Or.inr rfl) | split at h)

theorem smCmdParse_err {apdu : Bytes} {e : E} (h : smCmdParse apdu = .error e) : e = .badApdu ∨ e = .oob := by
  unfold smCmdParse at h
  dsimp only at h
  repeat' (first
    | (cases h <;> first | exact Or.inl rfl | exact Or.inr rfl | exact parse87_err (by assumption) | exact parse97_err (by assumption) | exact parse8E_err (by assumption))
    | split at h)

theorem smRespParse_err {apdu : Bytes} {e : E} (h : smRespParse apdu = .error e) : e = .badApdu ∨ e = .oob := by
  unfold smRespParse at h
  dsimp only at h
  repeat' (first
    | (cases h <;> first | exact Or.inl rfl | exact Or.inr rfl | exact parse87_err (by assumption) | exact parse8E_err (by assumption))
    | split at h)

theorem smCmdParse_ok_len {apdu : Bytes} {p : CmdParse} (h : smCmdParse apdu = .ok p) : 15 ≤ apdu.length := by
  unfold smCmdParse at h
  dsimp only at h
  rw [cmdMin_eq] at h
  by_cases hc : apdu.length < 15 ∨ (!smBit (apdu.headD 0)) = true
  · rw [if_pos hc] at h; cases h
  · have := not_or.mp hc; omega

theorem smRespParse_ok_len {apdu : Bytes} {p : RespParse} (h : smRespParse apdu = .ok p) : 12 ≤ apdu.length := by
  unfold smRespParse at h
  dsimp only at h
  rw [respMin_eq] at h
  by_cases hc : apdu.length < 12
  · rw [if_pos hc] at h; cases h
  · omega

theorem take4_of_len {apdu : Bytes} (h : 4 ≤ apdu.length) : ∃ a b c d, apdu.take 4 = [a, b, c, d] := by
  match apdu, h with
  | a :: b :: c :: d :: t, _ => exact ⟨a, b, c, d, rfl⟩

theorem last2_of_len {apdu : Bytes} (h : 2 ≤ apdu.length) : ∃ a b, apdu.drop (apdu.length - 2) = [a, b] := by
  have hl : (apdu.drop (apdu.length - 2)).length = 2 := by simp; omega
  match hd : apdu.drop (apdu.length - 2), hl with
  | [a, b], _ => exact ⟨a, b, rfl⟩

end Bee2V.C17

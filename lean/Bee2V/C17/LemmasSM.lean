/-
C17 — lemmas for the secure-messaging theorems (PropsSM.lean).  No Mathlib.
-/
import Bee2V.C17.ModelSM
import Bee2V.C17.Laws
namespace Bee2V.C17
open Bee2V.C01 (leNat Cipher)
open Bee2V.C08 (Cmd Resp)
open Bee2V.Gen.C17Src

theorem oct_toNat (v : Nat) : (oct v).toNat = v % 256 := by
  simp [oct, Bee2V.C08.oct, UInt8.toNat_ofNat']

/-- the carry loop adds `carry` to the little-endian number, modulo 256^len -/
theorem ctrIncLoop_spec (ctr : Bytes) (c : Nat) :
    (ctrIncLoop ctr c).length = ctr.length ∧
    leNat (ctrIncLoop ctr c) = (leNat ctr + c) % 256 ^ ctr.length := by
  induction ctr generalizing c with
  | nil => simp [ctrIncLoop, leNat, Nat.mod_one]
  | cons b bs ih =>
    obtain ⟨h1, h2⟩ := ih ((c + b.toNat) / 256)
    refine ⟨by simp [ctrIncLoop, h1], ?_⟩
    simp only [ctrIncLoop, leNat, List.length_cons, oct_toNat, h2]
    rw [Nat.pow_succ, Nat.mul_comm (256 ^ bs.length) 256, Nat.mod_mul]
    have e1 : (b.toNat + 256 * leNat bs + c) % 256 = (c + b.toNat) % 256 := by omega
    have e2 : (b.toNat + 256 * leNat bs + c) / 256 = leNat bs + (c + b.toNat) / 256 := by omega
    rw [e1, e2]

end Bee2V.C17

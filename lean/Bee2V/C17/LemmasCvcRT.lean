/-
C17 — CV-certificate round trip: btokCVCUnwrap on what btokCVCWrap wrote (encoder side LemmasCvcEnc, decoder side
LemmasCvcDec, composition here).  No Mathlib.
-/
import Bee2V.C17.LemmasCvcEnc
import Bee2V.C17.LemmasCvcDec
namespace Bee2V.C17
open Bee2V.C08

/-- what a successful btokCVCWrap has done -/
theorem cvcWrap_ok_inv (S : Sig) (c c' : Cvc) (priv cert : Bytes) (h : cvcWrap S c priv = (.ok, c', cert)) :
    privLenOk priv.length = true ∧
    ∃ c1 body sg,
      (c1 = c ∨ (c.pubkey.length = 0 ∧ ∃ pk, S.pubkeyCalc priv = (.ok, pk) ∧ c1 = { c with pubkey := pk })) ∧
      cvcCheck S c1 = .ok ∧ bodyEnc c1 = .ok body ∧ S.sign body priv = (.ok, sg) ∧
      c' = { c1 with sig := sg.take (sigLenOfPriv priv.length) } ∧ certEnc body c'.sig = .ok cert := by
  unfold cvcWrap at h
  have hpl : privLenOk priv.length = true := by
    cases hp : privLenOk priv.length
    · rw [hp, if_pos rfl] at h; cases h
    · rfl
  rw [if_neg (by simp [hpl])] at h
  refine ⟨hpl, ?_⟩
  dsimp only at h
  -- the content after the optional key generation
  have hc1 : ∃ rc c1, (if c.pubkey.length = 0 then
        (if (S.pubkeyCalc priv).1 ≠ .ok then ((S.pubkeyCalc priv).1, c) else (E.ok, { c with pubkey := (S.pubkeyCalc priv).2 }))
        else (E.ok, c)) = (rc, c1) := ⟨_, _, rfl⟩
  obtain ⟨rc, c1, hr⟩ := hc1
  rw [hr] at h
  dsimp only at h
  by_cases hrc : rc ≠ .ok
  · rw [if_pos hrc] at h; cases h; exact absurd rfl hrc
  rw [if_neg hrc] at h
  have hrc' : rc = .ok := by simpa using hrc
  have hc1' : c1 = c ∨ (c.pubkey.length = 0 ∧ ∃ pk, S.pubkeyCalc priv = (.ok, pk) ∧ c1 = { c with pubkey := pk }) := by
    by_cases h0 : c.pubkey.length = 0
    · rw [if_pos h0] at hr
      by_cases hk : (S.pubkeyCalc priv).1 ≠ .ok
      · rw [if_pos hk] at hr; cases hr; exact absurd hrc' hk
      · rw [if_neg hk] at hr; cases hr
        right
        refine ⟨h0, (S.pubkeyCalc priv).2, ?_, rfl⟩
        have : (S.pubkeyCalc priv).1 = .ok := by simpa using hk
        rw [← this]
    · rw [if_neg h0] at hr; cases hr; exact Or.inl rfl
  by_cases hck : cvcCheck S c1 ≠ .ok
  · rw [if_pos hck] at h; cases h; exact absurd rfl hck
  rw [if_neg hck] at h
  have hck' : cvcCheck S c1 = .ok := by simpa using hck
  cases hb : bodyEnc c1 with
  | err => rw [hb] at h; cases h
  | oob => rw [hb] at h; cases h
  | ok body =>
    rw [hb] at h; dsimp only at h
    by_cases hsc : (S.sign body priv).1 ≠ .ok
    · rw [if_pos hsc] at h; cases h; exact absurd rfl hsc
    rw [if_neg hsc] at h
    have hsc' : (S.sign body priv).1 = .ok := by simpa using hsc
    cases hce : certEnc body (List.take (sigLenOfPriv priv.length) (S.sign body priv).2) with
    | err => rw [hce] at h; cases h
    | oob => rw [hce] at h; cases h
    | ok cert0 =>
      rw [hce] at h; cases h
      exact ⟨c1, body, (S.sign body priv).2, hc1', hck', rfl, by rw [← hsc'], rfl, hce⟩

end Bee2V.C17

/-
C17 — CV-certificate round trip: btokCVCUnwrap on what btokCVCWrap wrote (encoder side LemmasCvcEnc, decoder side
LemmasCvcDec, composition here).  No Mathlib.
-/
import Bee2V.C17.LemmasCvcEnc
import Bee2V.C17.LemmasCvcDec
import Bee2V.C17.Laws
namespace Bee2V.C17
open Bee2V.C08

/- `whnf` must never look inside the encoders (their step lists contain ground calls of well-founded C08 routines):
   the stages of btokCVCWrap are inverted one at a time, the later stages opaque. -/

section
attribute [local irreducible] certEnc
theorem wrapSign_inv (S : Sig) (c c' : Cvc) (body priv cert : Bytes) (h : wrapSign S c body priv = (.ok, c', cert)) :
    ∃ sg, S.sign body priv = (.ok, sg) ∧ c' = { c with sig := sg.take (sigLenOfPriv priv.length) } ∧
      certEnc body c'.sig = .ok cert := by
  unfold wrapSign wrapSignWith at h
  by_cases hsc : (S.sign body priv).1 ≠ .ok
  · rw [if_pos hsc] at h; exact absurd (Prod.mk.inj h).1 hsc
  rw [if_neg hsc] at h
  have hsc' : (S.sign body priv).1 = .ok := by simpa using hsc
  obtain ⟨rc2, hce⟩ : ∃ r, certEnc body (List.take (sigLenOfPriv priv.length) (S.sign body priv).2) = r := ⟨_, rfl⟩
  rw [hce] at h
  cases rc2 with
  | err => exact absurd (Prod.mk.inj h).1 (by simp)
  | oob => exact absurd (Prod.mk.inj h).1 (by simp)
  | ok cert0 =>
    have h2 := Prod.mk.inj (Prod.mk.inj h).2
    have hc' : c' = { c with sig := List.take (sigLenOfPriv priv.length) (S.sign body priv).2 } := h2.1.symm
    have hcert : cert0 = cert := h2.2
    refine ⟨(S.sign body priv).2, ?_, hc', ?_⟩
    · rw [← hsc']
    · rw [hc', ← hcert]; exact hce
end

section
attribute [local irreducible] bodyEnc wrapSign cvcCheck
theorem wrapChecked_inv (S : Sig) (c c' : Cvc) (priv cert : Bytes) (h : wrapChecked S c priv = (.ok, c', cert)) :
    cvcCheck S c = .ok ∧ ∃ body, bodyEnc c = .ok body ∧ wrapSign S c body priv = (.ok, c', cert) := by
  unfold wrapChecked at h
  dsimp only at h
  by_cases hck : cvcCheck S c ≠ .ok
  · rw [if_pos hck] at h; exact absurd (Prod.mk.inj h).1 hck
  rw [if_neg hck] at h
  refine ⟨by simpa using hck, ?_⟩
  obtain ⟨rb, hb⟩ : ∃ rb, bodyEnc c = rb := ⟨_, rfl⟩
  rw [hb] at h
  cases rb with
  | err => exact absurd (Prod.mk.inj h).1 (by simp)
  | oob => exact absurd (Prod.mk.inj h).1 (by simp)
  | ok body => exact ⟨body, hb, h⟩
end

section
attribute [local irreducible] wrapChecked
theorem cvcWrap_inv (S : Sig) (c c' : Cvc) (priv cert : Bytes) (h : cvcWrap S c priv = (.ok, c', cert)) :
    privLenOk priv.length = true ∧ ∃ c1, wrapGenPub S c priv = (.ok, c1) ∧ wrapChecked S c1 priv = (.ok, c', cert) := by
  unfold cvcWrap at h
  have hpl : privLenOk priv.length = true := by
    cases hp : privLenOk priv.length
    · rw [hp] at h
      have := (Prod.mk.inj h).1
      simp at this
    · rfl
  rw [if_neg (by simp [hpl])] at h
  refine ⟨hpl, ?_⟩
  dsimp only at h
  obtain ⟨rc, c1, hr⟩ : ∃ rc c1, wrapGenPub S c priv = (rc, c1) := ⟨_, _, rfl⟩
  rw [hr] at h
  dsimp only at h
  by_cases hrc : rc ≠ .ok
  · rw [if_pos hrc] at h; exact absurd (Prod.mk.inj h).1 hrc
  rw [if_neg hrc] at h
  have hrc' : rc = .ok := by simpa using hrc
  subst hrc'
  exact ⟨c1, hr, h⟩
end

theorem wrapGenPub_inv (S : Sig) (c c1 : Cvc) (priv : Bytes) (h : wrapGenPub S c priv = (.ok, c1)) :
    c1 = c ∨ (c.pubkey.length = 0 ∧ ∃ pk, S.pubkeyCalc priv = (.ok, pk) ∧ c1 = { c with pubkey := pk }) := by
  unfold wrapGenPub at h
  by_cases h0 : c.pubkey.length = 0
  · rw [if_pos h0] at h
    dsimp only at h
    by_cases hk : (S.pubkeyCalc priv).1 ≠ .ok
    · rw [if_pos hk] at h
      exact absurd (Prod.mk.inj h).1 hk
    · rw [if_neg hk] at h
      right
      refine ⟨h0, (S.pubkeyCalc priv).2, ?_, (Prod.mk.inj h).2.symm⟩
      have : (S.pubkeyCalc priv).1 = .ok := by simpa using hk
      rw [← this]
  · rw [if_neg h0] at h; exact Or.inl (Prod.mk.inj h).2.symm

/-! ### the certificate SEQ { body, OCT[5F37] sig } read back -/

section
attribute [local irreducible] tlvC tlHd bodyCode certCode
theorem bodyCode_le (c1 : Cvc) (hv : cvcSeemsValid c1 = true) (he : c1.hatEid.length = 5) (hs : c1.hatEsign.length = 2) :
    (bodyCode c1).length ≤ 1000 := by
  have hK : (bodyContent c1).length ≤ 600 := by
    simp only [cvcSeemsValid, Bool.and_eq_true] at hv
    obtain ⟨⟨⟨⟨⟨hna, hnh⟩, hdf⟩, hdu⟩, _⟩, hpl⟩ := hv
    simp only [nameIsValid, Bool.and_eq_true, decide_eq_true_eq] at hna hnh
    rw [nameMax_eq] at hna hnh
    have hfl := dateIsValid_len _ hdf
    have hul := dateIsValid_len _ hdu
    have hpk : c1.pubkey.length ≤ 128 := pubkey_len_le _ hpl
    have hA := tlvC_le 0x42 c1.authority (ltU32 (by omega)) (by unfold W; omega)
    have hH := tlvC_le 0x5F20 c1.holder (ltU32 (by omega)) (by unfold W; omega)
    have hF := tlvC_le 0x5F25 c1.from_ (ltU32 (by omega)) (by unfold W; omega)
    have hU := tlvC_le 0x5F24 c1.until_ (ltU32 (by omega)) (by unfold W; omega)
    have hB := tlvC_le 3 (0 :: c1.pubkey) (ltU32 (by omega)) (by simp only [List.length_cons]; unfold W; omega)
    simp only [List.length_cons] at hB
    have hO := oidC_len_pubkey
    have hP := tlvC_le 0x7F49 (oidC oid_pubkey ++ bitC c1.pubkey) (ltU32 (by omega))
      (by simp only [List.length_append]; unfold bitC W; omega)
    simp only [List.length_append] at hP
    have hE1 := hatEidC_le c1 he
    have hE2 := hatEsignC_le c1 hs
    have hvl : verC.length = 4 := rfl
    have hbit : (bitC c1.pubkey).length = (tlvC 3 (0 :: c1.pubkey)).length := rfl
    unfold bodyContent
    simp only [List.length_append, hvl]
    generalize (tlvC 0x42 c1.authority).length = n1 at *
    generalize (tlvC 0x5F20 c1.holder).length = n2 at *
    generalize (tlvC 0x5F25 c1.from_).length = n3 at *
    generalize (tlvC 0x5F24 c1.until_).length = n4 at *
    generalize (tlvC 0x7F49 (oidC oid_pubkey ++ bitC c1.pubkey)).length = n5 at *
    generalize (tlvC 3 (0 :: c1.pubkey)).length = n6 at *
    generalize (hatEidC c1).length = n7 at *
    generalize (hatEsignC c1).length = n8 at *
    generalize (oidC oid_pubkey).length = n9 at *
    omega
  have := tlvC_le 0x7F4E (bodyContent c1) (ltU32 (by omega)) (by unfold W; omega)
  unfold bodyCode; omega

/-- all the DER-level facts btokCVCUnwrap needs about a certificate written as certCode (bodyCode c1) sig -/
theorem cert_decode_facts (c1 : Cvc) (sig : Bytes) (hv : cvcSeemsValid c1 = true) (he : c1.hatEid.length = 5)
    (hs : c1.hatEsign.length = 2) (hsl : sig.length ≤ 96) :
    ∃ a t t3, derTSEQDecStart (certCode (bodyCode c1) sig) 0x7F21 = .ok (a, t) ∧
      bodyDec ((certCode (bodyCode c1) sig).drop t) = .ok ({ c1 with sig := [] }, (bodyCode c1).length) ∧
      ((certCode (bodyCode c1) sig).drop t).take (bodyCode c1).length = bodyCode c1 ∧
      derTOCTDec2 ((certCode (bodyCode c1) sig).drop (t + (bodyCode c1).length)) 0x5F37 sig.length = .ok (sig, t3) ∧
      derTSEQDecStop (t + (bodyCode c1).length + t3) a = .ok () ∧
      (certCode (bodyCode c1) sig).length = t + (bodyCode c1).length + t3 ∧
      (certCode (bodyCode c1) sig).drop (t + (bodyCode c1).length) = tlvC 0x5F37 sig ++ [] := by
  have hbl := bodyCode_le c1 hv he hs
  generalize hB : bodyCode c1 = body at *
  have hSl := tlvC_le 0x5F37 sig (ltU32 (by omega)) (by unfold W; omega)
  generalize hSg : tlvC 0x5F37 sig = Sg at *
  have hcl : (body ++ Sg).length = body.length + Sg.length := List.length_append
  have sC : certCode body sig = tlHd 0x7F21 (body ++ Sg) ++ (body ++ Sg) := by unfold certCode; rw [hSg]; exact tlvC_split _ _
  have lC := tlHd_length 0x7F21 (body ++ Sg)
  generalize hT : tlHd 0x7F21 (body ++ Sg) = T at *
  have hTl : T.length ≤ 13 := by
    have h4 := tCount_le4 0x7F21 (ltU32 (by omega))
    have h9 := derLEnc_le9 (body ++ Sg).length (by rw [hcl]; unfold W; omega)
    omega
  refine ⟨⟨0, 0x7F21, (body ++ Sg).length⟩, T.length, Sg.length, ?_, ?_, ?_, ?_, ?_, ?_, ?_⟩
  · have := seqStart_tlvC 0x7F21 (body ++ Sg) [] tv_7F21 tc_7F21 (ltU32 (by omega)) (by rw [hcl]; unfold SIZE_MAX; omega)
    rw [List.append_nil, tlvC_split, hT, ← lC] at this
    rw [sC]; exact this
  · have hd : (certCode body sig).drop T.length = body ++ (Sg ++ []) := by
      rw [sC, drop_at _ _ _ rfl, List.append_nil]
    rw [hd, ← hB]
    refine bodyDec_bodyCode c1 _ hv he hs (by simp only [List.length_append, List.length_nil]; omega) ?_
    intro _
    rw [← hSg, startsWith_tlvC 0x5F37 0x65 sig [] tv_5F37 (ltU32 (by omega))]
    rfl
  · rw [sC, drop_at _ _ _ rfl]
    exact List.take_left' rfl
  · have e : certCode body sig = (T ++ body) ++ (Sg ++ []) := by rw [sC]; simp only [List.append_assoc, List.append_nil]
    rw [e, drop_at _ _ _ (by simp only [List.length_append]), ← hSg]
    refine octDec2_tlvC 0x5F37 sig [] tv_5F37 (ltU32 (by omega)) ?_
    simp only [List.length_nil]; unfold W; omega
  · refine stop_ok 0x7F21 (body ++ Sg) _ tv_7F21 (by omega) (by rw [hcl]; omega) ?_
    rw [hT, hcl]; omega
  · rw [sC, List.length_append, hcl]; omega
  · have e : certCode body sig = (T ++ body) ++ (Sg ++ []) := by rw [sC]; simp only [List.append_assoc, List.append_nil]
    rw [e, drop_at _ _ _ (by simp only [List.length_append])]
end

/-! ### the signature-length probe of btokCVCUnwrap(…, 0, 0) -/

theorem derDec3_of_derDec (x : Bytes) (tag off len c L : Nat) (h : derDec x = .ok (tag, off, len, c)) :
    derDec3 x tag L = if len ≠ L then .err else .ok (off, c) := by
  unfold derDec3
  rw [h]
  by_cases hl : len ≠ L <;> simp [hl]

theorem sigLenProbe_of_derDec (x : Bytes) (off len c : Nat) (h : derDec x = .ok (0x5F37, off, len, c))
    (hl : len = 34 ∨ len = 48 ∨ len = 72 ∨ len = 96) : sigLenProbe x = .ok len := by
  unfold sigLenProbe
  rw [derDec3_of_derDec x _ _ _ _ 34 h, derDec3_of_derDec x _ _ _ _ 48 h, derDec3_of_derDec x _ _ _ _ 72 h,
    derDec3_of_derDec x _ _ _ _ 96 h]
  rcases hl with h1 | h1 | h1 | h1 <;> subst h1 <;> simp

section
attribute [local irreducible] tlvC
theorem sigLenProbe_tlvC (sig : Bytes) (hl : sig.length = 34 ∨ sig.length = 48 ∨ sig.length = 72 ∨ sig.length = 96) :
    sigLenProbe (tlvC 0x5F37 sig ++ []) = .ok sig.length := by
  obtain ⟨e, he, hd, _⟩ := derEnc_roundtrip' 0x5F37 sig tv_5F37 (ltU32 (by omega)) []
    (by simp only [List.length_nil]; unfold W; omega)
  rw [tlvC_eq_derEnc 0x5F37 sig tv_5F37] at he
  cases he
  exact sigLenProbe_of_derDec _ _ _ _ hd hl
end

/-- everything btokCVCUnwrap will find in a certificate written by btokCVCWrap -/
theorem cvcWrap_facts (S : Sig) (L : SigLaws S) (c c' : Cvc) (priv cert : Bytes)
    (he : c.hatEid.length = 5) (hs : c.hatEsign.length = 2) (h : cvcWrap S c priv = (.ok, c', cert)) :
    privLenOk priv.length = true ∧ ∃ body a t t3, cvcCheck S c' = .ok ∧ S.sign body priv = (.ok, c'.sig) ∧
      sigLenProbe (cert.drop (t + body.length)) = .ok c'.sig.length ∧
      derTSEQDecStart cert 0x7F21 = .ok (a, t) ∧
      bodyDec (cert.drop t) = .ok ({ c' with sig := [] }, body.length) ∧
      (cert.drop t).take body.length = body ∧
      derTOCTDec2 (cert.drop (t + body.length)) 0x5F37 c'.sig.length = .ok (c'.sig, t3) ∧
      derTSEQDecStop (t + body.length + t3) a = .ok () ∧ cert.length = t + body.length + t3 := by
  obtain ⟨hpl, c1, hg, hw⟩ := cvcWrap_inv S c c' priv cert h
  obtain ⟨hck, body, hb, hsg⟩ := wrapChecked_inv S c1 c' priv cert hw
  obtain ⟨sg, hsign, hc', hce⟩ := wrapSign_inv S c1 c' body priv cert hsg
  have he1 : c1.hatEid.length = 5 ∧ c1.hatEsign.length = 2 := by
    rcases wrapGenPub_inv S c c1 priv hg with h1 | ⟨_, pk, _, h1⟩ <;> rw [h1] <;> exact ⟨he, hs⟩
  -- the content is valid in the sense of btokCVCSeemsValid
  have hchk := (cvcCheck_ok_iff' S c1).mp hck
  have hv : cvcSeemsValid c1 = true := by
    unfold cvcSeemsValid
    simp only [hchk.1, hchk.2.1, hchk.2.2.1, hchk.2.2.2.1, hchk.2.2.2.2.1, L.pubVal_len _ hchk.2.2.2.2.2, Bool.and_self]
  have hbody : body = bodyCode c1 := by
    have := bodyEnc_eq c1 hv (by omega) (by omega)
    rw [hb] at this; cases this; rfl
  have hsl := L.sign_len body priv sg hsign
  have hsg96 : sg.length ≤ 96 := by
    rw [hsl]; unfold sigLenOfPriv
    have : priv.length = 24 ∨ priv.length = 32 ∨ priv.length = 48 ∨ priv.length = 64 := by
      have := hpl; simp only [privLenOk, privLens_eq] at this; simpa using this
    rcases this with h | h | h | h <;> simp [h]
  have hsig : c'.sig = sg := by rw [hc']; exact List.take_of_length_le (by omega)
  have hcert : cert = certCode (bodyCode c1) c'.sig := by
    have hbl := bodyCode_le c1 hv he1.1 he1.2
    have := certEnc_eq body c'.sig (by rw [hsig, hbody]; unfold Bee2V.C08.W; omega)
    rw [hce] at this; cases this; rw [hbody]
  obtain ⟨a, t, t3, f1, f2, f3, f4, f5, f6, f7⟩ := cert_decode_facts c1 c'.sig hv he1.1 he1.2 (by rw [hsig]; exact hsg96)
  rw [← hcert] at f1 f2 f3 f4 f6 f7
  rw [← hbody] at f2 f3 f4 f5 f6 f7
  have hc1 : ({ c1 with sig := [] } : Cvc) = { c' with sig := [] } := by rw [hc']
  rw [hc1] at f2
  have hslen : c'.sig.length = 34 ∨ c'.sig.length = 48 ∨ c'.sig.length = 72 ∨ c'.sig.length = 96 := by
    rw [hsig, hsl]; unfold sigLenOfPriv
    have : priv.length = 24 ∨ priv.length = 32 ∨ priv.length = 48 ∨ priv.length = 64 := by
      have := hpl; simp only [privLenOk, privLens_eq] at this; simpa using this
    rcases this with h | h | h | h <;> simp [h]
  have hprobe : sigLenProbe (cert.drop (t + body.length)) = .ok c'.sig.length := by
    rw [f7]; exact sigLenProbe_tlvC c'.sig hslen
  refine ⟨hpl, body, a, t, t3, ?_, by rw [hsig]; exact hsign, hprobe, f1, f2, f3, f4, f5, f6⟩
  rw [hc']; exact hck

/-- btokCVCUnwrap without a key on a certificate whose DER layer decodes as stated: no verification, same content -/
theorem cvcUnwrap_none_of_facts (S : Sig) (c' : Cvc) (body cert : Bytes) (hcheck : cvcCheck S c' = .ok)
    (a : Anchor) (t t3 : Nat)
    (h1 : derTSEQDecStart cert 0x7F21 = .ok (a, t))
    (h2 : bodyDec (cert.drop t) = .ok ({ c' with sig := [] }, body.length))
    (hp : sigLenProbe (cert.drop (t + body.length)) = .ok c'.sig.length)
    (h4 : derTOCTDec2 (cert.drop (t + body.length)) 0x5F37 c'.sig.length = .ok (c'.sig, t3))
    (h5 : derTSEQDecStop (t + body.length + t3) a = .ok ())
    (h6 : cert.length = t + body.length + t3) :
    cvcUnwrap S cert .none = .ok c' := by
  unfold cvcUnwrap
  dsimp only
  unfold cvcUnwrap.go
  simp only [h1, ofR, h2, sigLenOf, hp, h4, ne_eq, not_true_eq_false, if_false, h5, h6, Nat.sub_self, hcheck,
    Bool.false_eq_true]

end Bee2V.C17

/-
C17 — CV-certificate round trip: btokCVCUnwrap on what btokCVCWrap wrote (encoder side LemmasCvcEnc, decoder side
LemmasCvcDec, composition here).  No Mathlib.
-/
import Bee2V.C17.LemmasCvcEnc
import Bee2V.C17.LemmasCvcDec
namespace Bee2V.C17
open Bee2V.C08

/- `whnf` must never look inside the encoders (their step lists contain ground calls of well-founded C08 routines):
   the stages of btokCVCWrap are inverted one at a time, the later stages opaque. -/

section
attribute [local irreducible] certEnc
theorem wrapSign_inv (S : Sig) (c c' : Cvc) (body priv cert : Bytes) (h : wrapSign S c body priv = (.ok, c', cert)) :
    ∃ sg, S.sign body priv = (.ok, sg) ∧ c' = { c with sig := sg.take (sigLenOfPriv priv.length) } ∧
      certEnc body c'.sig = .ok cert := by
  unfold wrapSign at h
  dsimp only at h
  by_cases hsc : (S.sign body priv).1 ≠ .ok
  · rw [if_pos hsc] at h; exact absurd (congrArg Prod.fst h) hsc
  rw [if_neg hsc] at h
  have hsc' : (S.sign body priv).1 = .ok := by simpa using hsc
  obtain ⟨rc2, hce⟩ : ∃ r, certEnc body (List.take (sigLenOfPriv priv.length) (S.sign body priv).2) = r := ⟨_, rfl⟩
  rw [hce] at h
  cases rc2 with
  | err => exact absurd (congrArg Prod.fst h) (by simp)
  | oob => exact absurd (congrArg Prod.fst h) (by simp)
  | ok cert0 =>
    dsimp only at h
    have h2 := congrArg Prod.snd h
    dsimp only at h2
    have hc' : c' = { c with sig := List.take (sigLenOfPriv priv.length) (S.sign body priv).2 } := (congrArg Prod.fst h2).symm
    have hcert : cert0 = cert := congrArg Prod.snd h2
    refine ⟨(S.sign body priv).2, ?_, hc', ?_⟩
    · rw [← hsc']
    · rw [hc', ← hcert]; exact hce
end

section
attribute [local irreducible] bodyEnc wrapSign cvcCheck
theorem wrapChecked_inv (S : Sig) (c c' : Cvc) (priv cert : Bytes) (h : wrapChecked S c priv = (.ok, c', cert)) :
    cvcCheck S c = .ok ∧ ∃ body, bodyEnc c = .ok body ∧ wrapSign S c body priv = (.ok, c', cert) := by
  unfold wrapChecked at h
  dsimp only at h
  by_cases hck : cvcCheck S c ≠ .ok
  · rw [if_pos hck] at h; exact absurd (congrArg Prod.fst h) hck
  rw [if_neg hck] at h
  refine ⟨by simpa using hck, ?_⟩
  obtain ⟨rb, hb⟩ : ∃ rb, bodyEnc c = rb := ⟨_, rfl⟩
  rw [hb] at h
  cases rb with
  | err => exact absurd (congrArg Prod.fst h) (by simp)
  | oob => exact absurd (congrArg Prod.fst h) (by simp)
  | ok body => exact ⟨body, rfl, h⟩
end

section
attribute [local irreducible] wrapChecked
theorem cvcWrap_inv (S : Sig) (c c' : Cvc) (priv cert : Bytes) (h : cvcWrap S c priv = (.ok, c', cert)) :
    privLenOk priv.length = true ∧ ∃ c1, wrapGenPub S c priv = (.ok, c1) ∧ wrapChecked S c1 priv = (.ok, c', cert) := by
  unfold cvcWrap at h
  have hpl : privLenOk priv.length = true := by
    cases hp : privLenOk priv.length
    · rw [hp] at h
      have := congrArg Prod.fst h
      simp at this
    · rfl
  rw [if_neg (by simp [hpl])] at h
  refine ⟨hpl, ?_⟩
  dsimp only at h
  obtain ⟨rc, c1, hr⟩ : ∃ rc c1, wrapGenPub S c priv = (rc, c1) := ⟨_, _, rfl⟩
  rw [hr] at h
  dsimp only at h
  by_cases hrc : rc ≠ .ok
  · rw [if_pos hrc] at h; exact absurd (congrArg Prod.fst h) hrc
  rw [if_neg hrc] at h
  have hrc' : rc = .ok := by simpa using hrc
  subst hrc'
  exact ⟨c1, rfl, h⟩
end

theorem wrapGenPub_inv (S : Sig) (c c1 : Cvc) (priv : Bytes) (h : wrapGenPub S c priv = (.ok, c1)) :
    c1 = c ∨ (c.pubkey.length = 0 ∧ ∃ pk, S.pubkeyCalc priv = (.ok, pk) ∧ c1 = { c with pubkey := pk }) := by
  unfold wrapGenPub at h
  by_cases h0 : c.pubkey.length = 0
  · rw [if_pos h0] at h
    dsimp only at h
    by_cases hk : (S.pubkeyCalc priv).1 ≠ .ok
    · rw [if_pos hk] at h
      exact absurd (congrArg Prod.fst h) hk
    · rw [if_neg hk] at h
      right
      refine ⟨h0, (S.pubkeyCalc priv).2, ?_, (congrArg Prod.snd h).symm⟩
      have : (S.pubkeyCalc priv).1 = .ok := by simpa using hk
      rw [← this]
  · rw [if_neg h0] at h; exact Or.inl (congrArg Prod.snd h).symm

end Bee2V.C17

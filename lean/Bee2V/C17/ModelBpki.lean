/-
C17 — executable, code-shaped model of the password-protected containers of src/crypto/bpki.c:
bpkiPrivkeyWrap / Unwrap, bpkiShareWrap / Unwrap.

Reused models (read-only): the static codecs bpkiPrivkeyEnc/Dec, bpkiShareEnc/Dec, bpkiEdataEnc/Dec
(C08 Model3: the `derEncStep`/`derDecStep` lines over the DER primitives), belt-PBKDF2 (HMAC-hbelt) and
belt-KWP from C01.  The model is parametrised by the `Cipher` like the C01 modes.
-/
import Bee2V.C17.Basic
namespace Bee2V.C17
open Bee2V.C01 (Cipher)
open Bee2V.C08 (R DSt)
open Bee2V.Gen.C17Src (iterMin)

/-- which PrivateKeyInfo codec: bign private key or bels share -/
inductive PkiKind | privkey | share
  deriving DecidableEq, Repr

def pkiEnc : PkiKind → Bytes → R Bytes
  | .privkey, k => Bee2V.C08.bpkiPrivkeyEnc k
  | .share, s => Bee2V.C08.bpkiShareEnc s

/-- bpkiPrivkeyDec / bpkiShareDec: (payload, exact length of the code) -/
def pkiDec (kind : PkiKind) (pki : Bytes) : R (Bytes × Nat) :=
  match (match kind with | .privkey => Bee2V.C08.bpkiPrivkeyDec pki | .share => Bee2V.C08.bpkiShareDec pki) with
  | .ok (c, st) =>
    match st.outs with
    | [v] => .ok (v, c)
    | _ => .err
  | .err => .err
  | .oob => .oob

/-- the input checks of bpkiPrivkeyWrap / bpkiShareWrap after `iter < 10000` -/
def payloadCheck : PkiKind → Bytes → E
  | .privkey, k => if k.length ≠ 32 ∧ k.length ≠ 24 ∧ k.length ≠ 48 ∧ k.length ≠ 64 then .badPrivkey else .ok
  | .share, s =>
    if (s.length ≠ 17 ∧ s.length ≠ 25 ∧ s.length ≠ 33) ∨ (s.headD 0).toNat = 0 ∨ (s.headD 0).toNat > 16 then .badSharekey   -- after fix 43d6f21 (was ERR_BAD_SECKEY)
    else .ok

/-- the part shared by Wrap and the harness op `rawwrap`: PBKDF2, belt-KWP, EncryptedPrivateKeyInfo -/
def epkiSeal (C : Cipher) (pki pwd salt : Bytes) (iter : Nat) : E × Bytes :=
  match Bee2V.C01.pbkdf2 C pwd iter salt with
  | (.ok, some key) =>
    match Bee2V.C01.kwpWrap C pki none key with
    | (.ok, some edata) =>
      match Bee2V.C08.bpkiEdataEnc edata salt iter with
      | .ok epki => (.ok, epki)
      | _ => (.badFormat, [])
    | (e, _) => (ofBelt e, [])
  | (e, _) => (ofBelt e, [])

/-- bpkiPrivkeyWrap / bpkiShareWrap (epki ≠ 0, salt = 8 octets) -/
def pkiWrap (C : Cipher) (kind : PkiKind) (payload pwd salt : Bytes) (iter : Nat) : E × Bytes :=
  if iter < iterMin then (.badInput, []) else
  let c := payloadCheck kind payload
  if c ≠ .ok then (c, []) else
  match pkiEnc kind payload with
  | .ok pki => epkiSeal C pki pwd salt iter
  | _ => (.badFormat, [])

/-- bpkiPrivkeyWrap / bpkiShareWrap with epki == 0: the ANNOUNCED length.  The sizing pass of the C code calls the static
encoders with null buffers (`bpkiPrivkeyEnc(0, …)`, `bpkiEdataEnc(0, 0, edata_len, 0, iter)`), i.e. it computes the length
of the code of data of the given SIZES: modelled by encoding zero octets of these sizes.  The length depends on `iter`
through the DER INTEGER iterCount (2 content octets up to 32767, 3 up to 8388607, …). -/
def pkiWrapLen (kind : PkiKind) (payload : Bytes) (iter : Nat) : E × Nat :=
  if iter < iterMin then (.badInput, 0) else
  let c := payloadCheck kind payload
  if c ≠ .ok then (c, 0) else
  match pkiEnc kind payload with
  | .ok pki =>
    match Bee2V.C08.bpkiEdataEnc (zeros (pki.length + 16)) (zeros 8) iter with
    | .ok e => (.ok, e.length)
    | _ => (.badFormat, 0)
  | _ => (.badFormat, 0)

/-- bpkiEdataDec as used by Unwrap: (edata, salt, iter) if the code is exactly the input -/
def edataOpen (epki : Bytes) : Except E (Bytes × Bytes × Nat) :=
  match Bee2V.C08.bpkiEdataDec epki with
  | .ok (c, st) =>
    if c ≠ epki.length then .error .badFormat else
    match st.outs, st.nums with
    | [salt, edata], [iter] => .ok (edata, salt, iter)
    | _, _ => .error .badFormat
  | .err => .error .badFormat
  | .oob => .error .oob

/-- bpkiPrivkeyUnwrap / bpkiShareUnwrap (privkey ≠ 0) -/
def pkiUnwrap (C : Cipher) (kind : PkiKind) (epki pwd : Bytes) : E × Option Bytes :=
  match edataOpen epki with
  | .error e => (e, none)
  | .ok (edata, salt, iter) =>
    match Bee2V.C01.pbkdf2 C pwd iter salt with
    | (.ok, some key) =>
      match Bee2V.C01.kwpUnwrap C edata none key with
      | (.ok, some pki) =>
        match pkiDec kind pki with
        | .ok (v, c) =>
          if c ≠ pki.length then (.badFormat, none)
          else if kind = .share ∧ ((v.headD 0).toNat = 0 ∨ (v.headD 0).toNat > 16) then (.badSharekey, some v)
          else (.ok, some v)
        | .err => (.badFormat, none)
        | .oob => (.oob, none)
      | (e, _) => (ofBelt e, none)
    | (e, _) => (ofBelt e, none)

end Bee2V.C17

/-
C17 — the DER fields of secure messaging: what the parsers of ModelSM return on the fields written by the
wrappers (over the C08 round-trip theorem for TLV).  No Mathlib.
-/
import Bee2V.C17.ModelSM
import Bee2V.C08.Props3
namespace Bee2V.C17
open Bee2V.C08

theorem derTEnc_87 : derTEnc 0x87 = .ok [0x87] := by decide +kernel
theorem derTEnc_97 : derTEnc 0x97 = .ok [0x97] := by decide +kernel
theorem derTEnc_8E : derTEnc 0x8E = .ok [0x8E] := by decide +kernel

/-- the `[]` arm of `tl` (ASSERT in the C text) is never taken for the three tags of secure messaging -/
theorem tl_87 (n : Nat) : tl 0x87 n = 0x87 :: derLEnc n := by simp [tl, derTLEnc, derTEnc_87]
theorem tl_97 (n : Nat) : tl 0x97 n = 0x97 :: derLEnc n := by simp [tl, derTLEnc, derTEnc_97]
theorem tl_8E (n : Nat) : tl 0x8E n = 0x8E :: derLEnc n := by simp [tl, derTLEnc, derTEnc_8E]
theorem tl_8E_8 : tl 0x8E 8 = [0x8E, 8] := by rw [tl_8E]; rfl

theorem derEnc_87 (v : Bytes) : derEnc 0x87 v = .ok (tl 0x87 v.length ++ v) := by simp [derEnc, derTEnc_87, tl_87]
theorem derEnc_97 (v : Bytes) : derEnc 0x97 v = .ok (tl 0x97 v.length ++ v) := by simp [derEnc, derTEnc_97, tl_97]
theorem derEnc_8E (v : Bytes) : derEnc 0x8E v = .ok (tl 0x8E v.length ++ v) := by simp [derEnc, derTEnc_8E, tl_8E]

theorem lt_U32_of_lt_256 {t : Nat} (h : t < 256) : t < U32 := by unfold U32; omega

/-- decoding a field written by derEnc, any continuation: tag, value offset, length, total length, value -/
theorem derDec_field (tag : Nat) (e val rest : Bytes) (hE : derEnc tag val = .ok e) (htag : tag < U32)
    (hlen : 13 + val.length + rest.length < W) :
    derDec (e ++ rest) = .ok (tag, e.length - val.length, val.length, e.length) ∧
    ((e ++ rest).drop (e.length - val.length)).take val.length = val :=
  derEnc_roundtrip tag val e rest htag hlen hE

/-- a field with another tag is "absent" for derDec2 / derDec3 -/
theorem derDec2_other (tag tag' : Nat) (e val rest : Bytes) (hE : derEnc tag' val = .ok e) (htag : tag' < U32)
    (hne : tag' ≠ tag) (hlen : 13 + val.length + rest.length < W) : derDec2 (e ++ rest) tag = .err := by
  unfold derDec2
  rw [(derDec_field tag' e val rest hE htag hlen).1]
  simp [hne]

/-- the 0x87 field written by the wrappers (data ≠ []) -/
theorem parse87_present (y rest : Bytes) (hy : 1 ≤ y.length) (hlen : 20 + y.length + rest.length < W) :
    parse87 (tl 0x87 (y.length + 1) ++ [2] ++ y ++ rest) =
      .ok ((tl 0x87 (y.length + 1)).length + 1 + y.length, (tl 0x87 (y.length + 1)).length + 1, y.length) := by
  have hE : derEnc 0x87 (2 :: y) = .ok (tl 0x87 (y.length + 1) ++ (2 :: y)) := by
    have := derEnc_87 (2 :: y); simpa using this
  obtain ⟨hd, hs⟩ := derDec_field 0x87 _ (2 :: y) rest hE (lt_U32_of_lt_256 (by omega)) (by simp only [List.length_cons]; omega)
  have e1 : tl 0x87 (y.length + 1) ++ [2] ++ y ++ rest = tl 0x87 (y.length + 1) ++ (2 :: y) ++ rest := by simp
  rw [e1]
  unfold parse87 derDec2
  rw [hd]
  simp only [List.length_append, List.length_cons, ne_eq, not_true_eq_false, if_false]
  have hoff : (tl 0x87 (y.length + 1)).length + (y.length + 1) - (y.length + 1) = (tl 0x87 (y.length + 1)).length := by omega
  simp only [List.length_append, List.length_cons] at hs
  rw [hoff] at hs ⊢
  have hh : (List.drop (tl 0x87 (y.length + 1)).length (tl 0x87 (y.length + 1) ++ 2 :: y ++ rest)).head? = some 2 := by
    simp
  rw [hh]
  have : ¬ (y.length + 1 < 2) := by omega
  simp only [this, false_or, not_true_eq_false, if_false]
  congr 2 <;> omega

/-- no 0x87 field when the buffer starts with a field of another tag -/
theorem parse87_absent (tag' : Nat) (e val rest : Bytes) (hE : derEnc tag' val = .ok e) (htag : tag' < U32)
    (hne : tag' ≠ 0x87) (hlen : 13 + val.length + rest.length < W) : parse87 (e ++ rest) = .ok (0, 0, 0) := by
  unfold parse87
  rw [derDec2_other 0x87 tag' e val rest hE htag hne hlen]

/-- parse8E in terms of derDec, for an ARBITRARY buffer (never unfold the parsers on a buffer whose first octets
are literals: `whnf` would then run the well-founded tag/length loops of the C08 model) -/
theorem parse8E_of_derDec (x : Bytes) (off c : Nat) (h : derDec x = .ok (0x8E, off, 8, c)) : parse8E x = .ok (off, c) := by
  unfold parse8E derDec3
  rw [h]
  simp

/-- the 0x8E field written by the wrappers -/
theorem parse8E_present (mac rest : Bytes) (hm : mac.length = 8) (hlen : 40 + rest.length < W) :
    parse8E ([0x8E, 8] ++ mac ++ rest) = .ok (2, 10) := by
  have hE : derEnc 0x8E mac = .ok ([0x8E, 8] ++ mac) := by rw [derEnc_8E, hm, tl_8E_8]
  have hl : 13 + mac.length + rest.length < W := by rw [hm]; omega
  obtain ⟨hd, _⟩ := derDec_field 0x8E _ mac rest hE (lt_U32_of_lt_256 (by omega)) hl
  have hl1 : ([0x8E, 8] ++ mac).length = 10 := by simp [hm]
  rw [hl1, hm] at hd
  exact parse8E_of_derDec _ _ _ hd

/-- parse97 in terms of derDec for an arbitrary buffer -/
theorem parse97_of_derDec (x : Bytes) (n off l c : Nat) (h : derDec x = .ok (0x97, off, l, c)) :
    parse97 x n =
      match (x.drop off).take l with
      | [v0] =>
        let r := if v0.toNat = 0 then 256 else v0.toNat
        if n ≥ 256 then .error .badApdu else .ok (c, r)
      | [v0, v1] =>
        let r := if v0.toNat * 256 + v1.toNat = 0 then 65536 else v0.toNat * 256 + v1.toNat
        if (n < 256 ∧ r ≤ 256) ∨ n = 0 then .error .badApdu else .ok (c, r)
      | [v0, v1, v2] =>
        let r := if v1.toNat * 256 + v2.toNat = 0 then 65536 else v1.toNat * 256 + v2.toNat
        if v0 ≠ 0 ∨ n ≠ 0 ∨ r ≤ 256 then .error .badApdu else .ok (c, r)
      | _ => .error .badApdu := by
  unfold parse97 derDec2
  rw [h]
  simp only [ne_eq, not_true_eq_false, if_false]
  rfl

theorem parse97_absent (tag' : Nat) (e val rest : Bytes) (n : Nat) (hE : derEnc tag' val = .ok e) (htag : tag' < U32)
    (hne : tag' ≠ 0x97) (hlen : 13 + val.length + rest.length < W) : parse97 (e ++ rest) n = .ok (0, 0) := by
  unfold parse97
  rw [derDec2_other 0x97 tag' e val rest hE htag hne hlen]

theorem oct_toNat' (v : Nat) : (oct v).toNat = v % 256 := by
  simp [oct, Bee2V.C08.oct, UInt8.toNat_ofNat']

/-- the 0x97 field written by btokSMCmdWrap, for each of the three forms of Le -/
theorem parse97_present (n rdf : Nat) (rest : Bytes) (hr : rdf ≠ 0) (hrdf : rdf ≤ 65536) (hlen : 40 + rest.length < W) :
    let l := if n < 256 ∧ rdf ≤ 256 then 1 else if n ≠ 0 then 2 else 3
    parse97 (tl 0x97 l ++ leVal rdf l ++ rest) n = .ok (2 + l, rdf) := by
  intro l
  have hl : l = 1 ∨ l = 2 ∨ l = 3 := by
    simp only [l]; by_cases h1 : n < 256 ∧ rdf ≤ 256 <;> by_cases h2 : n ≠ 0 <;> simp [h1, h2]
  have hvl : (leVal rdf l).length = l := by
    rcases hl with h | h | h <;> simp [leVal, h]
  have htl : tl 0x97 l = [0x97, oct l] := by
    rw [tl_97]; simp only [derLEnc]
    have : l < 128 := by omega
    simp [this]
  have hE : derEnc 0x97 (leVal rdf l) = .ok (tl 0x97 l ++ leVal rdf l) := by rw [derEnc_97, hvl]
  obtain ⟨hd, hs⟩ := derDec_field 0x97 _ (leVal rdf l) rest hE (lt_U32_of_lt_256 (by omega)) (by rw [hvl]; omega)
  have hlen2 : (tl 0x97 l ++ leVal rdf l).length = 2 + l := by rw [htl]; simp [hvl]; omega
  rw [hlen2, hvl] at hd hs
  rw [parse97_of_derDec _ n _ _ _ hd, hs]
  by_cases c1 : n < 256 ∧ rdf ≤ 256
  · have h : l = 1 := by simp [l, c1]
    simp only [h, leVal, if_true, oct_toNat']
    have : ¬ n ≥ 256 := by omega
    simp only [this, if_false]
    congr 2
    split <;> omega
  · by_cases c2 : n ≠ 0
    · have h : l = 2 := by simp [l, c1, c2]
      have e2 : leVal rdf 2 = [oct (rdf / 256), oct rdf] := by simp [leVal]
      simp only [h, e2, oct_toNat']
      by_cases h65 : rdf = 65536
      · subst h65
        have : ¬ ((n < 256 ∧ 65536 ≤ 256) ∨ n = 0) := by omega
        simp [this]
        exact c2
      · have hne : rdf / 256 % 256 * 256 + rdf % 256 = rdf := by omega
        have : ¬ ((n < 256 ∧ rdf ≤ 256) ∨ n = 0) := by omega
        simp only [hne, hr, if_false, this]
    · have h : l = 3 := by simp [l, c1, c2]
      have hn0 : n = 0 := by simpa using c2
      have e3 : leVal rdf 3 = [0, oct (rdf / 256), oct rdf] := by simp [leVal]
      simp only [h, e3, oct_toNat']
      have hgt : 256 < rdf := by omega
      by_cases h65 : rdf = 65536
      · subst h65; simp [hn0]
      · have hne : rdf / 256 % 256 * 256 + rdf % 256 = rdf := by omega
        have : ¬ ((0 : UInt8) ≠ 0 ∨ n ≠ 0 ∨ rdf ≤ 256) := by simp [hn0]; omega
        simp only [hne, hr, if_false, this]

end Bee2V.C17

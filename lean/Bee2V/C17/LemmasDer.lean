/-
C17 — the DER fields of secure messaging: what the parsers of ModelSM return on the fields written by the
wrappers (over the C08 round-trip theorem for TLV).  No Mathlib.
-/
import Bee2V.C17.ModelSM
import Bee2V.C08.Props3
namespace Bee2V.C17
open Bee2V.C08

theorem derTEnc_87 : derTEnc 0x87 = .ok [0x87] := by decide +kernel
theorem derTEnc_97 : derTEnc 0x97 = .ok [0x97] := by decide +kernel
theorem derTEnc_8E : derTEnc 0x8E = .ok [0x8E] := by decide +kernel

/-- the `[]` arm of `tl` (ASSERT in the C text) is never taken for the three tags of secure messaging -/
theorem tl_87 (n : Nat) : tl 0x87 n = 0x87 :: derLEnc n := by simp [tl, derTLEnc, derTEnc_87]
theorem tl_97 (n : Nat) : tl 0x97 n = 0x97 :: derLEnc n := by simp [tl, derTLEnc, derTEnc_97]
theorem tl_8E (n : Nat) : tl 0x8E n = 0x8E :: derLEnc n := by simp [tl, derTLEnc, derTEnc_8E]
theorem tl_8E_8 : tl 0x8E 8 = [0x8E, 8] := by rw [tl_8E]; rfl

theorem derEnc_87 (v : Bytes) : derEnc 0x87 v = .ok (tl 0x87 v.length ++ v) := by simp [derEnc, derTEnc_87, tl_87]
theorem derEnc_97 (v : Bytes) : derEnc 0x97 v = .ok (tl 0x97 v.length ++ v) := by simp [derEnc, derTEnc_97, tl_97]
theorem derEnc_8E (v : Bytes) : derEnc 0x8E v = .ok (tl 0x8E v.length ++ v) := by simp [derEnc, derTEnc_8E, tl_8E]

theorem lt_U32_of_lt_256 {t : Nat} (h : t < 256) : t < U32 := by unfold U32; omega

/-- decoding a field written by derEnc, any continuation: tag, value offset, length, total length, value -/
theorem derDec_field (tag : Nat) (e val rest : Bytes) (hE : derEnc tag val = .ok e) (htag : tag < U32)
    (hlen : 13 + val.length + rest.length < W) :
    derDec (e ++ rest) = .ok (tag, e.length - val.length, val.length, e.length) ∧
    ((e ++ rest).drop (e.length - val.length)).take val.length = val :=
  derEnc_roundtrip tag val e rest htag hlen hE

/-- a field with another tag is "absent" for derDec2 / derDec3 -/
theorem derDec2_other (tag tag' : Nat) (e val rest : Bytes) (hE : derEnc tag' val = .ok e) (htag : tag' < U32)
    (hne : tag' ≠ tag) (hlen : 13 + val.length + rest.length < W) : derDec2 (e ++ rest) tag = .err := by
  unfold derDec2
  rw [(derDec_field tag' e val rest hE htag hlen).1]
  simp [hne]

/-- the 0x87 field written by the wrappers (data ≠ []) -/
theorem parse87_present (y rest : Bytes) (hy : 1 ≤ y.length) (hlen : 20 + y.length + rest.length < W) :
    parse87 (tl 0x87 (y.length + 1) ++ [2] ++ y ++ rest) =
      .ok ((tl 0x87 (y.length + 1)).length + 1 + y.length, (tl 0x87 (y.length + 1)).length + 1, y.length) := by
  have hE : derEnc 0x87 (2 :: y) = .ok (tl 0x87 (y.length + 1) ++ (2 :: y)) := by
    have := derEnc_87 (2 :: y); simpa using this
  obtain ⟨hd, hs⟩ := derDec_field 0x87 _ (2 :: y) rest hE (lt_U32_of_lt_256 (by omega)) (by simp only [List.length_cons]; omega)
  have e1 : tl 0x87 (y.length + 1) ++ [2] ++ y ++ rest = tl 0x87 (y.length + 1) ++ (2 :: y) ++ rest := by simp
  rw [e1]
  unfold parse87 derDec2
  rw [hd]
  simp only [List.length_append, List.length_cons, ne_eq, not_true_eq_false, if_false]
  have hoff : (tl 0x87 (y.length + 1)).length + (y.length + 1) - (y.length + 1) = (tl 0x87 (y.length + 1)).length := by omega
  simp only [List.length_append, List.length_cons] at hs
  rw [hoff] at hs ⊢
  have hh : (List.drop (tl 0x87 (y.length + 1)).length (tl 0x87 (y.length + 1) ++ 2 :: y ++ rest)).head? = some 2 := by
    simp
  rw [hh]
  have : ¬ (y.length + 1 < 2) := by omega
  simp only [this, false_or, not_true_eq_false, if_false]
  congr 2 <;> omega

/-- no 0x87 field when the buffer starts with a field of another tag -/
theorem parse87_absent (tag' : Nat) (e val rest : Bytes) (hE : derEnc tag' val = .ok e) (htag : tag' < U32)
    (hne : tag' ≠ 0x87) (hlen : 13 + val.length + rest.length < W) : parse87 (e ++ rest) = .ok (0, 0, 0) := by
  unfold parse87
  rw [derDec2_other 0x87 tag' e val rest hE htag hne hlen]

/-- the 0x8E field (stated on the literal octets `8E 08`: a ground `tl 0x8E 8` must never be reduced by
`whnf`, the tag validity check behind it is a well-founded recursion) -/
theorem parse8E_present (mac rest : Bytes) (hm : mac.length = 8) (hlen : 40 + rest.length < W) :
    parse8E ([0x8E, 8] ++ mac ++ rest) = .ok (2, 10) := by
  have hE : derEnc 0x8E mac = .ok ([0x8E, 8] ++ mac) := by rw [derEnc_8E, hm, tl_8E_8]
  have hl : 13 + mac.length + rest.length < W := by rw [hm]; omega
  obtain ⟨hd, _⟩ := derDec_field 0x8E _ mac rest hE (lt_U32_of_lt_256 (by omega)) hl
  unfold parse8E derDec3
  rw [hd]
  simp [hm]

end Bee2V.C17

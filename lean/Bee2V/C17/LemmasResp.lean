/-
C17 — response round trip of secure messaging (lemmas).  No Mathlib.
-/
import Bee2V.C17.LemmasSM
import Bee2V.C17.LemmasMac
import Bee2V.C17.LemmasDer
import Bee2V.C01.PropsStream
namespace Bee2V.C17
open Bee2V.C01 (Cipher)
open Bee2V.C08 (Cmd Resp W)
open Bee2V.Gen.C17Src

/-- the parser on  prot ‖ 8E 08 T ‖ SW1 SW2  once the 0x87 part is known -/
theorem respParse_frame (prot M : Bytes) (sw1 sw2 : UInt8) (hM : M.length = 8) (yOff n : Nat)
    (hp87 : parse87 (prot ++ [0x8E, 8] ++ M) = .ok (prot.length, yOff, n)) (hW : prot.length + 100 < W) :
    smRespParse (prot ++ [0x8E, 8] ++ M ++ [sw1, sw2]) = .ok ⟨prot.length, yOff, n, prot.length + 2⟩ := by
  have hlen : (prot ++ [0x8E, 8] ++ M ++ [sw1, sw2]).length = prot.length + 12 := by simp [hM]
  have hbody : (prot ++ [0x8E, 8] ++ M ++ [sw1, sw2]).take (prot.length + 12 - 2) = prot ++ [0x8E, 8] ++ M := by
    have : prot.length + 12 - 2 = (prot ++ [0x8E, 8] ++ M).length := by simp [hM]
    rw [this, List.take_left']
    rfl
  have hrest : (prot ++ [0x8E, 8] ++ M).drop prot.length = [0x8E, 8] ++ M ++ [] := by
    rw [List.append_assoc, List.drop_left']
    · simp
    · rfl
  have h8 := parse8E_present M [] hM (by simp only [List.length_nil]; unfold W; omega)
  unfold smRespParse
  simp only [hlen, respMin_eq, hbody, hp87, hrest, h8]
  have : ¬ (prot.length + 12 < 12) := by omega
  simp only [this, if_false]
  have : ¬ (prot.length + 10 + 2 ≠ prot.length + 12) := by omega
  simp only [this, if_false]

/-- belt-CFB under the SM state: the ciphertext has the length of the data and decrypts to it -/
theorem sm_cfb (C : Cipher) (hC : CipherOK C) (st : SmSt) (hctr : st.ctr.length = 16) (data : Bytes) :
    (Bee2V.C01.cfbStepD C (Bee2V.C01.cfbStart st.key2 st.ctr)
      (Bee2V.C01.cfbStepE C (Bee2V.C01.cfbStart st.key2 st.ctr) data).2).2 = data ∧
    (Bee2V.C01.cfbStepE C (Bee2V.C01.cfbStart st.key2 st.ctr) data).2.length = data.length :=
  Bee2V.C01.cfbStepD_cfbStepE C hC (Bee2V.C01.cfbStart st.key2 st.ctr) (by simp [Bee2V.C01.cfbStart])
    (by simpa [Bee2V.C01.cfbStart] using hctr) data

/-- btokSMRespUnwrap on  prot ‖ 8E 08 T ‖ SW1 SW2  once the parse result and the MAC verdict are known -/
theorem respUnwrap_frame (C : Cipher) (st : SmSt) (prot M : Bytes) (sw1 sw2 : UInt8) (hM : M.length = 8) (yOff n : Nat)
    (hp : smRespParse (prot ++ [0x8E, 8] ++ M ++ [sw1, sw2]) = .ok ⟨prot.length, yOff, n, prot.length + 2⟩)
    (hpar : ctrParity st = 0) (hmac : mac2V C st.key1 prot [sw1, sw2] M = true) :
    smRespUnwrap C (prot ++ [0x8E, 8] ++ M ++ [sw1, sw2]) st =
      (.ok, some ⟨sw1, sw2,
        if n ≠ 0 then (Bee2V.C01.cfbStepD C (Bee2V.C01.cfbStart st.key2 st.ctr)
          (((prot ++ [0x8E, 8] ++ M ++ [sw1, sw2]).drop yOff).take n)).2
        else ((prot ++ [0x8E, 8] ++ M ++ [sw1, sw2]).drop yOff).take n⟩) := by
  have hlen : (prot ++ [0x8E, 8] ++ M ++ [sw1, sw2]).length = prot.length + 12 := by simp [hM]
  have hsw : (prot ++ [0x8E, 8] ++ M ++ [sw1, sw2]).drop (prot.length + 12 - 2) = [sw1, sw2] := by
    have : prot.length + 12 - 2 = (prot ++ [0x8E, 8] ++ M).length := by simp [hM]
    rw [this, List.drop_left']
    rfl
  have htk : (prot ++ [0x8E, 8] ++ M ++ [sw1, sw2]).take prot.length = prot := by
    rw [List.append_assoc, List.append_assoc, List.take_left']
    rfl
  have htag : ((prot ++ [0x8E, 8] ++ M ++ [sw1, sw2]).drop (prot.length + 2)).take 8 = M := by
    have e : prot ++ [0x8E, 8] ++ M ++ [sw1, sw2] = (prot ++ [0x8E, 8]) ++ (M ++ [sw1, sw2]) := by simp
    have : prot.length + 2 = (prot ++ [0x8E, 8]).length := by simp
    rw [e, this, List.drop_left', ← hM, List.take_left']
    · rfl
    · rfl
  unfold smRespUnwrap
  rw [hp]
  simp only [parRespUnwrap_eq, hpar, ne_eq, not_true_eq_false, if_false, hlen, hsw, htk, htag, hmac, Bool.not_true,
    Bool.false_eq_true]

theorem tl87_len (n : Nat) (h : n < W) : 2 ≤ (tl 0x87 n).length ∧ (tl 0x87 n).length ≤ 10 := by
  rw [tl_87]
  have := Bee2V.C08.derLEnc_le9 n h
  simp only [List.length_cons]
  omega

/-- the whole response round trip on the explicit octets -/
theorem resp_roundtrip_core (C : Cipher) (hC : CipherOK C) (sw1 sw2 : UInt8) (rdf : Bytes) (st : SmSt)
    (hctr : st.ctr.length = 16) (hv : rdf.length ≤ 65536) (hpar : ctrParity st = 0) :
    let apdu := f87 C st rdf ++ [0x8E, 8] ++ mac3 C st.key1 (f87 C st rdf) [sw1] [sw2] ++ [sw1, sw2]
    smRespUnwrap C apdu st = (.ok, some ⟨sw1, sw2, rdf⟩) ∧ smRespUnwrapFmt apdu = (.ok, rdf.length) ∧
    apdu.length = (f87 C st rdf).length + 12 := by
  intro apdu
  have hMl := mac3_length C hC st.key1 (f87 C st rdf) [sw1] [sw2]
  have hmac : mac2V C st.key1 (f87 C st rdf) [sw1, sw2]
      (mac3 C st.key1 (f87 C st rdf) [sw1] [sw2]) = true :=
    mac2V_mac3 C hC st.key1 (f87 C st rdf) [sw1] [sw2]
  obtain ⟨hdec, hylen⟩ := sm_cfb C hC st hctr rdf
  revert apdu
  generalize hM : mac3 C st.key1 (f87 C st rdf) [sw1] [sw2] = M at *
  intro apdu
  have hWn : rdf.length + 1 < W := by unfold W; omega
  have htl := tl87_len (rdf.length + 1) hWn
  by_cases hn : rdf.length = 0
  · -- no data: RDF* = 8E 08 T
    have hnil : rdf = [] := List.length_eq_zero_iff.mp hn
    have hprot : f87 C st rdf = [] := by simp [f87, hn]
    have hE : Bee2V.C08.derEnc 0x8E M = .ok ([0x8E, 8] ++ M) := by rw [derEnc_8E, hMl, tl_8E_8]
    have h87 : parse87 ([] ++ [0x8E, 8] ++ M) = .ok (([] : Bytes).length, 0, 0) := by
      have := parse87_absent 0x8E ([0x8E, 8] ++ M) M [] hE (lt_U32_of_lt_256 (by omega)) (by omega)
        (by rw [hMl]; simp only [List.length_nil]; unfold W; omega)
      simpa using this
    have hp := respParse_frame [] M sw1 sw2 hMl 0 0 h87 (by simp only [List.length_nil]; unfold W; omega)
    have hu := respUnwrap_frame C st [] M sw1 sw2 hMl 0 0 hp hpar (by have := hmac; rw [hprot] at this; exact this)
    have hap : apdu = [] ++ [0x8E, 8] ++ M ++ [sw1, sw2] := by simp only [apdu, hprot]
    rw [hap]
    refine ⟨?_, ?_, ?_⟩
    · rw [hu]; simp [hnil]
    · unfold smRespUnwrapFmt; rw [hp]; simp [hn]
    · simp [hMl, hprot]
  · -- data: RDF* = 87 L 02 Y 8E 08 T
    have hn1 : 1 ≤ rdf.length := by omega
    let y := (Bee2V.C01.cfbStepE C (Bee2V.C01.cfbStart st.key2 st.ctr) rdf).2
    have hyl : y.length = rdf.length := hylen
    have hprot : f87 C st rdf = tl 0x87 (y.length + 1) ++ [2] ++ y := by
      simp only [f87, ne_eq, hn, not_false_eq_true, if_true, hyl, y]
    have hpl : (f87 C st rdf).length = (tl 0x87 (y.length + 1)).length + 1 + y.length := by
      rw [hprot]; simp only [List.length_append, List.length_cons, List.length_nil]
    have h87 : parse87 (f87 C st rdf ++ [0x8E, 8] ++ M) =
        .ok ((f87 C st rdf).length, (tl 0x87 (y.length + 1)).length + 1, y.length) := by
      have := parse87_present y ([0x8E, 8] ++ M) (by omega) (by
        simp only [List.length_append, List.length_cons, List.length_nil, hMl]; unfold W; omega)
      rw [hpl, hprot]
      simpa [List.append_assoc] using this
    have hWp : (f87 C st rdf).length + 100 < W := by rw [hpl, hyl]; unfold W; omega
    have hp := respParse_frame (f87 C st rdf) M sw1 sw2 hMl _ _ h87 hWp
    have hu := respUnwrap_frame C st (f87 C st rdf) M sw1 sw2 hMl _ _ hp hpar hmac
    have hct : ((f87 C st rdf ++ [0x8E, 8] ++ M ++ [sw1, sw2]).drop
        ((tl 0x87 (y.length + 1)).length + 1)).take y.length = y := by
      have e : f87 C st rdf ++ [0x8E, 8] ++ M ++ [sw1, sw2] =
          (tl 0x87 (y.length + 1) ++ [2]) ++ (y ++ ([0x8E, 8] ++ M ++ [sw1, sw2])) := by
        rw [hprot]; simp [List.append_assoc]
      have : (tl 0x87 (y.length + 1)).length + 1 = (tl 0x87 (y.length + 1) ++ [2]).length := by simp
      rw [e, this, List.drop_left', List.take_left']
      · rfl
      · rfl
    refine ⟨?_, ?_, ?_⟩
    · rw [hu, hct]
      have : y.length ≠ 0 := by omega
      simp only [ne_eq, this, not_false_eq_true, if_true]
      rw [show (Bee2V.C01.cfbStepD C (Bee2V.C01.cfbStart st.key2 st.ctr) y).2 = rdf from hdec]
    · unfold smRespUnwrapFmt; rw [hp]; simp [hyl]
    · simp [apdu, hMl]

end Bee2V.C17

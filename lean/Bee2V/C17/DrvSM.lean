/-
C17 driver, secure-messaging ops (same line protocol as harness/c17.c, see its header).
-/
import Bee2V.C17.ModelSM
import Bee2V.Base.Proto
namespace Bee2V.C17.Drv
open Bee2V.C17 Bee2V.Proto
open Bee2V.C08 (Cmd Resp)

abbrev BC := Bee2V.C01.beltCipher

def octN (s : String) : Option UInt8 :=
  match parseNat s with
  | some n => if n < 256 then some (UInt8.ofNat n) else none
  | none => none

def hexN (s : String) (n : Nat) : Option Bytes :=
  match parseHex s with
  | some b => if b.length = n then some b else none
  | none => none

/-- state = btokSMStart(key) with the counter overwritten -/
def smState (key ctr : String) : Option SmSt :=
  match hexN key 32, hexN ctr 16 with
  | some k, some c => some { smStart BC k with ctr := c }
  | _, _ => none

def mkCmd (cla ins p1 p2 cdf rdf : String) : Option Cmd :=
  match octN cla, octN ins, octN p1, octN p2, parseHex cdf, parseNat rdf with
  | some a, some b, some c, some d, some x, some r => some ⟨a, b, c, d, x, r⟩
  | _, _, _, _, _, _ => none

def mkResp (sw1 sw2 rdf : String) : Option Resp :=
  match octN sw1, octN sw2, parseHex rdf with
  | some a, some b, some x => some ⟨a, b, x⟩
  | _, _, _ => none

def showWrap (r : E × Bytes) : String :=
  if r.1 = .ok then s!"0 {toHex r.2}" else s!"{r.1.code}"

/-- probe (apdu == 0) then the real call, as harness do_cw -/
def doCw (cmd : Cmd) (st : SmSt) : E × Bytes :=
  let p := smCmdWrapLen cmd
  if p.1 ≠ .ok then (p.1, []) else
  let r := smCmdWrap BC cmd st
  if r.1 = .ok ∧ r.2.length ≠ p.2 then (.oob, []) else r

def doRw (resp : Resp) (st : SmSt) : E × Bytes :=
  let p := smRespWrapLen resp
  if p.1 ≠ .ok then (p.1, []) else
  let r := smRespWrap BC resp st
  if r.1 = .ok ∧ r.2.length ≠ p.2 then (.oob, []) else r

def showCmd (c : Cmd) : String :=
  s!"{c.cla.toNat} {c.ins.toNat} {c.p1.toNat} {c.p2.toNat} {toHex c.cdf} {c.rdf_len}"

def showCu (apdu : Bytes) (st : Option SmSt) : String :=
  match st with
  | some st =>
    let f := smCmdUnwrapFmt apdu
    if f.1 ≠ .ok then s!"{f.1.code}" else
    let r := smCmdUnwrap BC apdu st
    match r with
    | (.ok, some c) => if c.cdf.length ≠ f.2 then s!"0 {f.2} | 0 size-mismatch" else s!"0 {f.2} | 0 {showCmd c}"
    | (e, _) => s!"0 {f.2} | {e.code}"
  | none =>
    match smCmdUnwrap0 apdu with
    | (.ok, some c) => s!"0 {c.cdf.length} | 0 {showCmd c}"
    | (e, _) => s!"{e.code}"

def showRu (apdu : Bytes) (st : Option SmSt) : String :=
  match st with
  | some st =>
    let f := smRespUnwrapFmt apdu
    if f.1 ≠ .ok then s!"{f.1.code}" else
    match smRespUnwrap BC apdu st with
    | (.ok, some r) =>
      if r.rdf.length ≠ f.2 then s!"0 {f.2} | 0 size-mismatch" else s!"0 {f.2} | 0 {r.sw1.toNat} {r.sw2.toNat} {toHex r.rdf}"
    | (e, _) => s!"0 {f.2} | {e.code}"
  | none =>
    match smRespUnwrap0 apdu with
    | (.ok, some r) => s!"0 {r.rdf.length} | 0 {r.sw1.toNat} {r.sw2.toNat} {toHex r.rdf}"
    | (e, _) => s!"{e.code}"

structure Seq where
  a : SmSt
  b : SmSt
  wire : Option Bytes

def seqStep (s : Seq) (tok : String) : Seq × String :=
  let f := tok.splitOn ":"
  match f with
  | [] => (s, "bad-step")
  | h :: args =>
    let hc := h.toList
    match hc with
    | who :: opc =>
      if (who ≠ 'A' ∧ who ≠ 'B') ∨ opc.isEmpty then (s, "bad-step") else
      let st := if who = 'B' then s.b else s.a
      let put (st' : SmSt) : Seq := if who = 'B' then { s with b := st' } else { s with a := st' }
      let op := String.ofList opc
      match op, args with
      | "i", [] => let st' := smCtrInc st; (put st', toHex st'.ctr)
      | "cw", [cla, ins, p1, p2, cdf, rdf] =>
        match mkCmd cla ins p1 p2 cdf rdf with
        | some cmd =>
          let r := doCw cmd st
          (if r.1 = .ok then { s with wire := some r.2 } else s, showWrap r)
        | none => (s, "bad-step")
      | "rw", [sw1, sw2, rdf] =>
        match mkResp sw1 sw2 rdf with
        | some resp =>
          let r := doRw resp st
          (if r.1 = .ok then { s with wire := some r.2 } else s, showWrap r)
        | none => (s, "bad-step")
      | "cu", [] => (s, match s.wire with | some w => showCu w (some st) | none => "no-wire")
      | "ru", [] => (s, match s.wire with | some w => showRu w (some st) | none => "no-wire")
      | _, _ => (s, "bad-step")
    | [] => (s, "bad-step")

def runSeq (key : Bytes) (steps : List String) : String :=
  let st0 := smStart BC key
  let r := steps.foldl (fun (acc : Seq × List String) tok =>
    let x := seqStep acc.1 tok
    (x.1, x.2 :: acc.2)) (⟨st0, st0, none⟩, [])
  ";".intercalate r.2.reverse

def handleSM : List String → Option String
  | ["smstart", key] =>
    match hexN key 32 with
    | some k => let st := smStart BC k; some s!"{toHex st.key1} {toHex st.key2} {toHex st.ctr}"
    | none => some "bad-op"
  | ["smctr", ctr] =>
    match hexN ctr 16 with
    | some c => some (toHex (ctrIncLoop c 1))
    | none => some "bad-op"
  | ["smcw", key, ctr, cla, ins, p1, p2, cdf, rdf] =>
    match smState key ctr, mkCmd cla ins p1 p2 cdf rdf with
    | some st, some cmd => some (showWrap (doCw cmd st))
    | _, _ => some "bad-op"
  | ["smcw0", cla, ins, p1, p2, cdf, rdf] =>
    match mkCmd cla ins p1 p2 cdf rdf with
    | some cmd => some (showWrap (smCmdWrap0 cmd))
    | none => some "bad-op"
  | ["smcu", key, ctr, x] =>
    match smState key ctr, parseHex x with
    | some st, some x => some (showCu x (some st))
    | _, _ => some "bad-op"
  | ["smcu0", x] =>
    match parseHex x with
    | some x => some (showCu x none)
    | none => some "bad-op"
  | ["smrw", key, ctr, sw1, sw2, rdf] =>
    match smState key ctr, mkResp sw1 sw2 rdf with
    | some st, some resp => some (showWrap (doRw resp st))
    | _, _ => some "bad-op"
  | ["smrw0", sw1, sw2, rdf] =>
    match mkResp sw1 sw2 rdf with
    | some resp => some (showWrap (smRespWrap0 resp))
    | none => some "bad-op"
  | ["smru", key, ctr, x] =>
    match smState key ctr, parseHex x with
    | some st, some x => some (showRu x (some st))
    | _, _ => some "bad-op"
  | ["smru0", x] =>
    match parseHex x with
    | some x => some (showRu x none)
    | none => some "bad-op"
  | "smseq" :: key :: steps =>
    match hexN key 32 with
    | some k => if steps.isEmpty then some "bad-op" else some (runSeq k steps)
    | none => some "bad-op"
  | _ => none

end Bee2V.C17.Drv

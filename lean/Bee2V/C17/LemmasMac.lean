/-
C17 — belt-MAC facts needed by the secure-messaging round trips: the tag has 8 octets, the fragmentation
of the input does not matter (C01 `mac_chunk_independent`).  No Mathlib.
-/
import Bee2V.C17.ModelSM
import Bee2V.C17.Laws
import Bee2V.C01.PropsChunk
namespace Bee2V.C17
open Bee2V.C01

theorem length_xorb (a b : Bytes) : (xorb a b).length = min a.length b.length := by
  simp only [xorb, List.length_zipWith]

theorem length_zeros (n : Nat) : (zeros n).length = n := by simp [zeros, Bee2V.C01.zeros]

theorem macChain_length (C : Cipher) (hC : CipherOK C) (k : Bytes) :
    ∀ (n : Nat) (s X : Bytes), 16 * n ≤ X.length → s.length = 16 → (macChain C k n s X).length = 16 := by
  intro n
  induction n with
  | zero => intro s X _ hs; simpa [macChain] using hs
  | succ n ih =>
    intro s X hX hs
    simp only [macChain]
    apply ih
    · simp only [List.length_drop]; omega
    · apply hC
      rw [length_xorb, hs, List.length_take]; omega

/-- the 16-octet `mac` field after `beltMACStepG_internal`, for a state reached from Start by StepA calls -/
theorem macG_length (C : Cipher) (hC : CipherOK C) (key : Bytes) (cs : List Bytes) :
    (macStepGInternal C (cs.foldl (macStepA C) (macStart C key))).mac.length = 16 := by
  obtain ⟨hk, hr, hs, hf, _, hb⟩ := mac_state_spec C key cs
  generalize cs.foldl (macStepA C) (macStart C key) = st at *
  generalize cs.flatten = X at *
  have hrl : st.r.length = 16 := by rw [hr]; exact hC _ _ (length_zeros 16)
  have hsl : st.s.length = 16 := by
    rw [hs]; apply macChain_length C hC
    · omega
    · exact length_zeros 16
  have hfl : st.filled ≤ 16 := by rw [hf]; split <;> omega
  unfold macStepGInternal
  split
  · apply hC
    simp only [length_xorb, List.length_append, List.length_take, List.length_drop, hrl, hsl, hb]
    decide
  · rename_i hne
    have hne' : st.filled ≠ 16 := by simpa using hne
    apply hC
    simp only [length_xorb, List.length_append, List.length_take, List.length_drop, hrl, hsl, hb, length_zeros,
      List.length_cons, List.length_nil]
    omega

theorem mac2_length (C : Cipher) (hC : CipherOK C) (key a b : Bytes) : (mac2 C key a b).length = 8 := by
  have h := macG_length C hC key [a, b]
  simp only [List.foldl_cons, List.foldl_nil] at h
  simp only [mac2, macStepG, List.length_take, h]
  rfl

theorem mac3_length (C : Cipher) (hC : CipherOK C) (key a b c : Bytes) : (mac3 C key a b c).length = 8 := by
  have h := macG_length C hC key [a, b, c]
  simp only [List.foldl_cons, List.foldl_nil] at h
  simp only [mac3, macStepG, List.length_take, h]
  rfl

/-- verification against the tag computed over the same fragments succeeds -/
theorem mac2V_mac2 (C : Cipher) (hC : CipherOK C) (key a b : Bytes) : mac2V C key a b (mac2 C key a b) = true := by
  have hl := mac2_length C hC key a b
  simp only [mac2V, macStepV, decide_eq_true_eq]
  rw [hl]
  simp only [mac2, macStepG]

/-- three fragments on the sending side, two on the receiving side: same tag (C01 chunk independence) -/
theorem mac2V_mac3 (C : Cipher) (hC : CipherOK C) (key a b c : Bytes) :
    mac2V C key a (b ++ c) (mac3 C key a b c) = true := by
  have h3 := mac_chunk_independent C key [a, b, c] 8
  have h2 := mac_chunk_independent C key [a, b ++ c] 8
  simp only [List.foldl_cons, List.foldl_nil, List.flatten_cons, List.flatten_nil, List.append_nil] at h3 h2
  have e : mac3 C key a b c = mac2 C key a (b ++ c) := by
    simp only [mac3, mac2]; rw [h3, h2]
  rw [e]; exact mac2V_mac2 C hC key a (b ++ c)

/-- a received tag of at most 8 octets verifies iff it equals the recomputed tag (cut to its length) -/
theorem mac2V_iff (C : Cipher) (key a b t : Bytes) (ht : t.length ≤ 8) :
    mac2V C key a b t = true ↔ t = (mac2 C key a b).take t.length := by
  simp only [mac2V, macStepV, decide_eq_true_eq, mac2, macStepG, List.take_take]
  rw [Nat.min_eq_left ht]

theorem mac2_take8 (C : Cipher) (key a b : Bytes) : (mac2 C key a b).take 8 = mac2 C key a b := by
  simp only [mac2, macStepG, List.take_take, Nat.min_self]

end Bee2V.C17

/-
C17 — property theorems, CV certificates (btok_cvc.c).  Model: ModelCVC.lean; signature layer abstract (Laws.lean).
-/
import Bee2V.C17.LemmasCVC
import Bee2V.C17.LemmasCvcRT
namespace Bee2V.C17

/-- a C string literal as octets -/
def cstr' (s : String) : Bytes := s.toUTF8.toList

/-- btokCVCCheck accepts exactly: both names valid (8..12 printable characters), both dates valid,
    from ≤ until, public key accepted by btokPubkeyVal. -/
theorem cvcCheck_ok_iff (S : Sig) (c : Cvc) :
    cvcCheck S c = .ok ↔
      nameIsValid c.authority = true ∧ nameIsValid c.holder = true ∧ dateIsValid c.from_ = true ∧
      dateIsValid c.until_ = true ∧ dateLeq c.from_ c.until_ = true ∧ S.pubkeyVal c.pubkey = .ok :=
  cvcCheck_ok_iff' S c
example : cvcCheck ⟨fun _ => (.ok, []), fun _ => .ok, fun _ _ => .ok, fun _ _ => (.ok, []), fun _ _ _ => .ok⟩
    ⟨cstr' "BYCA0000", cstr' "BYCA1000", [], [2, 2, 0, 7, 0, 7], [2, 3, 0, 7, 0, 7], [], [], []⟩ = .ok := by decide +kernel

/-- names: 8..12 characters, every one of them printable (PrintableString alphabet) -/
theorem nameIsValid_iff (n : Bytes) :
    nameIsValid n = true ↔ 8 ≤ n.length ∧ n.length ≤ 12 ∧ ∀ c ∈ n, Bee2V.C08.isPrintable c.toNat = true := by
  unfold nameIsValid
  rw [nameMin_eq, nameMax_eq]
  simp only [Bool.and_eq_true, decide_eq_true_eq, List.all_eq_true, and_assoc]

/-- dates: six octets, each a decimal digit, (2000 + YY, MM, DD) a date of the Gregorian calendar (C12) -/
theorem dateIsValid_iff (d : Bytes) :
    dateIsValid d = true ↔
      ∃ d0 d1 d2 d3 d4 d5 : UInt8, d = [d0, d1, d2, d3, d4, d5] ∧
        (d0 ≤ 9 ∧ d1 ≤ 9 ∧ d2 ≤ 9 ∧ d3 ≤ 9 ∧ d4 ≤ 9 ∧ d5 ≤ 9) ∧
        Bee2V.C12.Spec.gregorian (2000 + (10 * d0.toNat + d1.toNat)) (10 * d2.toNat + d3.toNat) (10 * d4.toNat + d5.toNat) := by
  unfold dateIsValid
  constructor
  · intro h
    split at h
    · rename_i d0 d1 d2 d3 d4 d5
      exact ⟨d0, d1, d2, d3, d4, d5, rfl, (Bee2V.C12.tmDateIsValid2_iff _ _ _ _ _ _).mp h⟩
    · cases h
  · rintro ⟨d0, d1, d2, d3, d4, d5, rfl, h⟩
    exact (Bee2V.C12.tmDateIsValid2_iff _ _ _ _ _ _).mpr h
example : dateIsValid [2, 4, 0, 2, 2, 9] = true ∧ dateIsValid [2, 3, 0, 2, 2, 9] = false ∧
    dateIsValid [2, 3, 0, 10, 0, 1] = false := by decide

/-- the order used for validity periods is the order of the dates as big-endian numbers, i.e. chronological
order for valid dates (tmDateLeq2 = memCmp ≤ 0) -/
theorem dateLeq_iff (l r : Bytes) (h : l.length = r.length) : dateLeq l r = true ↔ beNat l ≤ beNat r :=
  memLeq_iff l r h
example : dateLeq [2, 3, 1, 2, 3, 1] [2, 4, 0, 1, 0, 1] = true ∧ dateLeq [2, 4, 0, 1, 0, 1] [2, 3, 1, 2, 3, 1] = false := by decide

/-- btokCVCCheck2: content valid, authority EQUAL to the issuer's holder as whole strings (a prefix or an extension
is a different name), issuer dates valid, issuer.from ≤ from ≤ issuer.until -/
theorem cvcCheck2_ok_iff (S : Sig) (c ca : Cvc) :
    cvcCheck2 S c ca = .ok ↔
      cvcCheck S c = .ok ∧ c.authority = ca.holder ∧ dateIsValid ca.from_ = true ∧ dateIsValid ca.until_ = true ∧
      dateLeq ca.from_ c.from_ = true ∧ dateLeq c.from_ ca.until_ = true := by
  unfold cvcCheck2
  by_cases h1 : cvcCheck S c = .ok
  · by_cases h2 : c.authority = ca.holder
    · simp only [h1, ne_eq, not_true_eq_false, if_false, h2, true_and]
      cases dateIsValid ca.from_ <;> cases dateIsValid ca.until_ <;> cases dateLeq ca.from_ c.from_ <;>
        cases dateLeq c.from_ ca.until_ <;> simp
    · simp [h1, h2]
  · simp [h1]

theorem cvcCheck2_prefix_rejected (S : Sig) (c ca : Cvc) (x : UInt8) (suffix : Bytes)
    (h : ca.holder = c.authority ++ x :: suffix ∨ c.authority = ca.holder ++ x :: suffix) :
    cvcCheck2 S c ca ≠ .ok := by
  intro hok
  have he := ((cvcCheck2_ok_iff S c ca).mp hok).2.1
  rcases h with h | h
  · rw [he] at h
    have := congrArg List.length h
    simp at this
  · rw [← he] at h
    have := congrArg List.length h
    simp at this

/-- the date argument of btokCVCVal / Val2: absent, or valid and inside [from, until] -/
theorem dateCheck_ok_iff (c : Cvc) (date : Option Bytes) :
    dateCheck c date = .ok ↔
      date = none ∨ ∃ d, date = some d ∧ dateIsValid d = true ∧ dateLeq c.from_ d = true ∧ dateLeq d c.until_ = true := by
  unfold dateCheck
  cases date with
  | none => simp
  | some d =>
    simp only [reduceCtorEq, Option.some.injEq, exists_eq_left', false_or]
    cases dateIsValid d <;> cases dateLeq c.from_ d <;> cases dateLeq d c.until_ <;> simp

/-- CHAIN LINK (btokCVCVal): ERR_OK ⇔ the issuer certificate parses, the certificate parses AND its signature
verifies under the issuer's public key (inside btokCVCUnwrap), names / validity windows line up (Check2), and the
date (if given) is valid and inside the certificate's period. -/
theorem cvcVal_ok_iff (S : Sig) (cert certa : Bytes) (date : Option Bytes) :
    cvcVal S cert certa date = .ok ↔
      ∃ ca c, cvcUnwrap S certa .none = .ok ca ∧ cvcUnwrap S cert (.key ca.pubkey) = .ok c ∧
        cvcCheck2 S c ca = .ok ∧ dateCheck c date = .ok := by
  constructor
  · intro h
    unfold cvcVal at h
    cases h1 : cvcUnwrap S certa .none with
    | error e => rw [h1] at h; exact absurd h (cvcUnwrap_err S certa _ e h1)
    | ok ca =>
      rw [h1] at h; dsimp only at h
      cases h2 : cvcUnwrap S cert (.key ca.pubkey) with
      | error e => rw [h2] at h; exact absurd h (cvcUnwrap_err S cert _ e h2)
      | ok c =>
        rw [h2] at h; dsimp only at h
        by_cases h3 : cvcCheck2 S c ca = .ok
        · rw [if_neg (by simp [h3])] at h; exact ⟨ca, c, rfl, h2, h3, h⟩
        · rw [if_pos h3] at h; exact absurd h h3
  · rintro ⟨ca, c, h1, h2, h3, h4⟩
    unfold cvcVal
    rw [h1]; dsimp only; rw [h2]; dsimp only; rw [if_neg (by simp [h3])]; exact h4

/-- btokCVCVal2: the same with the issuer given by its content -/
theorem cvcVal2_ok_iff (S : Sig) (cert : Bytes) (ca : Cvc) (date : Option Bytes) :
    (cvcVal2 S cert ca date).1 = .ok ↔
      ∃ c, cvcUnwrap S cert (if ca.pubkey.length = 0 then .foreign else .key ca.pubkey) = .ok c ∧
        cvcCheck2 S c ca = .ok ∧ dateCheck c date = .ok := by
  constructor
  · intro h
    unfold cvcVal2 at h
    cases h2 : cvcUnwrap S cert (if ca.pubkey.length = 0 then .foreign else .key ca.pubkey) with
    | error e => rw [h2] at h; exact absurd h (cvcUnwrap_err S cert _ e h2)
    | ok c =>
      rw [h2] at h; dsimp only at h
      by_cases h3 : cvcCheck2 S c ca = .ok
      · rw [if_neg (by simp [h3])] at h; exact ⟨c, rfl, h3, h⟩
      · rw [if_pos h3] at h; exact absurd h h3
  · rintro ⟨c, h2, h3, h4⟩
    unfold cvcVal2
    rw [h2]; dsimp only; rw [if_neg (by simp [h3])]; exact h4

/-- WHAT IS VERIFIED: when btokCVCUnwrap succeeds with a verification key `pk`, the certificate is
SEQ[7F21]{ body, OCT[5F37] sig } read with nothing left over, `body` are exactly the `t2` octets of the certificate
decoded by btokCVCBodyDec, the signature found in the certificate was checked by btokVerify over exactly these octets
under `pk`, and the decoded content passes btokCVCCheck. -/
theorem cvcUnwrap_verified (S : Sig) (cert pk : Bytes) (c : Cvc) (h : cvcUnwrap S cert (.key pk) = .ok c) :
    ∃ a t c0 t2 t3, Bee2V.C08.derTSEQDecStart cert 0x7F21 = .ok (a, t) ∧ bodyDec (cert.drop t) = .ok (c0, t2) ∧
      c = { c0 with sig := c.sig } ∧
      Bee2V.C08.derTOCTDec2 (cert.drop (t + t2)) 0x5F37 (if pk.length = 48 then 34 else pk.length - pk.length / 4) = .ok (c.sig, t3) ∧
      cert.length ≤ t + t2 + t3 ∧ Bee2V.C08.derTSEQDecStop (t + t2 + t3) a = .ok () ∧
      S.verify ((cert.drop t).take t2) c.sig pk = .ok ∧ cvcCheck S c = .ok := by
  unfold cvcUnwrap at h
  dsimp only at h
  split at h
  · cases h
  · unfold cvcUnwrap.go at h
    dsimp only at h
    cases hs : ofR (Bee2V.C08.derTSEQDecStart cert 0x7F21) .badFormat with
    | error e => rw [hs] at h; cases h
    | ok r =>
      obtain ⟨a, t⟩ := r
      rw [hs] at h; dsimp only at h
      cases hb : ofR (bodyDec (cert.drop t)) .badFormat with
      | error e => rw [hb] at h; cases h
      | ok r =>
        obtain ⟨c0, t2⟩ := r
        rw [hb] at h; dsimp only [sigLenOf] at h
        cases ho : ofR (Bee2V.C08.derTOCTDec2 (cert.drop (t + t2)) 0x5F37 (if pk.length = 48 then 34 else pk.length - pk.length / 4)) .badFormat with
        | error e => rw [ho] at h; cases h
        | ok r =>
          obtain ⟨sig, t3⟩ := r
          rw [ho] at h; dsimp only at h
          split at h
          · cases h
          · rename_i hv
            cases hst : ofR (Bee2V.C08.derTSEQDecStop (t + t2 + t3) a) .badFormat with
            | error e => rw [hst] at h; cases h
            | ok u =>
              rw [hst] at h; dsimp only at h
              split at h
              · cases h
              · rename_i hlen
                split at h
                · cases h
                · rename_i hck
                  cases h
                  refine ⟨a, t, c0, t2, t3, ofR_ok hs, ofR_ok hb, rfl, ofR_ok ho, ?_, ofR_ok hst, ?_, ?_⟩
                  · have : ¬ (cert.length - (t + t2 + t3) ≠ 0) := hlen
                    omega
                  · simpa using hv
                  · simpa using hck

/-- ANY ALTERED SIGNED OCTET ⇒ Verify is evaluated on a DIFFERENT message: two octet strings of the same length that
differ at an offset inside the body [t, t + t2) have different body slices — so an altered certificate that still
parses with the same layout passes only if the issuer's signature verifies over a message it was not made for
(soundness of the signature scheme, C02 `verify_exact`). -/
theorem altered_body_differs (cert cert' : Bytes) (t t2 i : Nat) (hi : t ≤ i) (hi2 : i < t + t2) (hl : i < cert.length)
    (hl' : i < cert'.length) (hne : cert[i]? ≠ cert'[i]?) :
    (cert.drop t).take t2 ≠ (cert'.drop t).take t2 := by
  intro h
  apply hne
  have e1 : ((cert.drop t).take t2)[i - t]? = cert[i]? := by
    rw [List.getElem?_take_of_lt (by omega), List.getElem?_drop]; congr 1; omega
  have e2 : ((cert'.drop t).take t2)[i - t]? = cert'[i]? := by
    rw [List.getElem?_take_of_lt (by omega), List.getElem?_drop]; congr 1; omega
  rw [← e1, ← e2, h]
example : ([1, 2, 3, 4, 5] : Bytes)[2]? ≠ ([1, 2, 9, 4, 5] : Bytes)[2]? := by decide

/-- ACCEPTANCE relative to the DER layer (the composition logic of btokCVCUnwrap): if the certificate decodes (outer SEQ
start/stop, btokCVCBodyDec, the signature OCTET STRING, nothing left over) to the content `c'` and the body octets `body`,
`c'.sig` is what btokSign produced over `body` with a private key matching `pub`, and `c'` passes btokCVCCheck, then
btokCVCUnwrap under `pub` returns exactly `c'`: the signature length derived from the verification key is the one
written for every key length (34/48/72/96), Verify is applied to the octets that were signed.  `cvc_roundtrip` below
discharges the decode hypotheses for everything btokCVCWrap writes. -/
theorem cvcUnwrap_accepts_signed (S : Sig) (L : SigLaws S) (c' : Cvc) (body cert priv pub : Bytes)
    (hpl : privLenOk priv.length = true) (hkp : S.keypairVal priv pub = .ok)
    (hsign : S.sign body priv = (.ok, c'.sig)) (hcheck : cvcCheck S c' = .ok)
    (a : Bee2V.C08.Anchor) (t t3 : Nat)
    (h1 : Bee2V.C08.derTSEQDecStart cert 0x7F21 = .ok (a, t))
    (h2 : bodyDec (cert.drop t) = .ok ({ c' with sig := [] }, body.length))
    (h3 : (cert.drop t).take body.length = body)
    (h4 : Bee2V.C08.derTOCTDec2 (cert.drop (t + body.length)) 0x5F37 c'.sig.length = .ok (c'.sig, t3))
    (h5 : Bee2V.C08.derTSEQDecStop (t + body.length + t3) a = .ok ())
    (h6 : cert.length = t + body.length + t3) :
    cvcUnwrap S cert (.key pub) = .ok c' := by
  have hsl := L.sign_len body priv c'.sig hsign
  have hv := L.sign_verify body priv pub c'.sig hpl hkp hsign
  obtain ⟨_, hpublen⟩ := L.keypair_pub priv pub hkp
  have hpriv : priv.length = 24 ∨ priv.length = 32 ∨ priv.length = 48 ∨ priv.length = 64 := by
    have := hpl; simp only [privLenOk, privLens_eq] at this; simpa using this
  have hpubok : pubkeyLenOk pub.length = true := by
    simp only [pubkeyLenOk, pubLens_eq]; rcases hpriv with h | h | h | h <;> simp [hpublen, h]
  have hsiglen : (if pub.length = 48 then 34 else pub.length - pub.length / 4) = c'.sig.length := by
    rw [hsl, hpublen]; unfold sigLenOfPriv; rcases hpriv with h | h | h | h <;> simp [h]
  unfold cvcUnwrap
  simp only [hpubok, Bool.not_true, Bool.false_eq_true, if_false]
  unfold cvcUnwrap.go
  simp only [h1, ofR, h2, sigLenOf, hsiglen, h4, h3, hv, ne_eq, not_true_eq_false, if_false, h5, h6, Nat.sub_self, hcheck]

/-! ### round trip: btokCVCUnwrap (btokCVCWrap c key) = c -/

/-- ROUND TRIP.  For every signature layer satisfying `SigLaws`, every content (names, dates, key of every admissible
length, zero or non-zero access words of 5 / 2 octets) and every private key that btokCVCWrap accepts: the
certificate it writes is parsed back by btokCVCUnwrap, under the public key `pub` matching the signing key, to EXACTLY
the content Wrap reports (with the public key filled in when it was derived, and the signature).
DER layer: C08 (`Nested`, typed round trips); `bodyEnc_eq` / `bodyDec_bodyCode` for the body. -/
theorem cvc_roundtrip (S : Sig) (L : SigLaws S) (c c' : Cvc) (priv pub cert : Bytes)
    (he : c.hatEid.length = 5) (hs : c.hatEsign.length = 2) (hkp : S.keypairVal priv pub = .ok)
    (h : cvcWrap S c priv = (.ok, c', cert)) :
    cvcUnwrap S cert (.key pub) = .ok c' := by
  obtain ⟨hpl, body, a, t, t3, hck, hsign, _, f1, f2, f3, f4, f5, f6⟩ := cvcWrap_facts S L c c' priv cert he hs h
  exact cvcUnwrap_accepts_signed S L c' body cert priv pub hpl hkp hsign hck a t t3 f1 f2 f3 f4 f5 f6

/-- the same without a key (`btokCVCUnwrap(cvc, cert, len, 0, 0)`, the call btokCVCIss / Val / Match make on the
issuer certificate): the signature length is found by the probe 34 | 48 | 72 | 96, nothing is verified, the content is
the same. -/
theorem cvc_roundtrip_nokey (S : Sig) (L : SigLaws S) (c c' : Cvc) (priv cert : Bytes)
    (he : c.hatEid.length = 5) (hs : c.hatEsign.length = 2) (h : cvcWrap S c priv = (.ok, c', cert)) :
    cvcUnwrap S cert .none = .ok c' := by
  obtain ⟨hpl, body, a, t, t3, hck, hsign, hp, f1, f2, f3, f4, f5, f6⟩ := cvcWrap_facts S L c c' priv cert he hs h
  exact cvcUnwrap_none_of_facts S c' body cert hck a t t3 f1 f2 hp f4 f5 f6

/-- ISSUE ⇒ VALIDATES.  A certificate issued by btokCVCIss under the issuer certificate `certa` and the issuer's
private key validates against `certa` with btokCVCVal (no date given): the chain link lines up by construction. -/
theorem cvcIss_validates (S : Sig) (L : SigLaws S) (c c' : Cvc) (certa priva cert : Bytes)
    (he : c.hatEid.length = 5) (hs : c.hatEsign.length = 2) (h : cvcIss S c certa priva = (.ok, c', cert)) :
    cvcVal S cert certa none = .ok := by
  unfold cvcIss at h
  cases hu : cvcUnwrap S certa .none with
  | error e => rw [hu] at h; exact absurd (Prod.mk.inj h).1 (cvcUnwrap_err S certa _ e hu)
  | ok ca =>
    rw [hu] at h; dsimp only at h
    by_cases h2 : cvcCheck2 S c ca ≠ .ok
    · rw [if_pos h2] at h; exact absurd (Prod.mk.inj h).1 h2
    rw [if_neg h2] at h
    by_cases h3 : S.keypairVal priva ca.pubkey ≠ .ok
    · rw [if_pos h3] at h; exact absurd (Prod.mk.inj h).1 h3
    rw [if_neg h3] at h
    have h2' : cvcCheck2 S c ca = .ok := by simpa using h2
    have h3' : S.keypairVal priva ca.pubkey = .ok := by simpa using h3
    have hrt := cvc_roundtrip S L c c' priva ca.pubkey cert he hs h3' h
    -- the content Wrap reports differs from `c` only in the signature: the public key was present (Check2 passed)
    obtain ⟨hpl, c1, hg, hw⟩ := cvcWrap_inv S c c' priva cert h
    obtain ⟨hck, body, hb, hsg⟩ := wrapChecked_inv S c1 c' priva cert hw
    obtain ⟨sg, hsign, hc', hce⟩ := wrapSign_inv S c1 c' body priva cert hsg
    have hc0 := (cvcCheck2_ok_iff S c ca).mp h2'
    have hpk : c.pubkey.length ≠ 0 := by
      have := L.pubVal_len _ ((cvcCheck_ok_iff S c).mp hc0.1).2.2.2.2.2
      simp only [pubkeyLenOk, pubLens_eq] at this
      intro h0; rw [h0] at this; simp at this
    have hc1 : c1 = c := by
      rcases wrapGenPub_inv S c c1 priva hg with h1 | ⟨h0, _⟩
      · exact h1
      · exact absurd h0 hpk
    rw [cvcVal_ok_iff]
    refine ⟨ca, c', hu, hrt, ?_, by simp [dateCheck]⟩
    rw [hc', hc1]
    exact h2'

/-! ### non-vacuity: the laws of the signature layer are satisfiable -/

/-- a toy signature layer: the public key is the private key twice, every signature is `sigLen` zero octets and verifies -/
def toySig : Sig :=
  ⟨fun priv => if privLenOk priv.length then (.ok, priv ++ priv) else (.badInput, []),
   fun pub => if pubkeyLenOk pub.length then .ok else .badInput,
   fun priv pub => if pub = priv ++ priv ∧ privLenOk priv.length = true then .ok else .badKeypair,
   fun _ priv => (.ok, List.replicate (sigLenOfPriv priv.length) 0), fun _ _ _ => .ok⟩

example : SigLaws toySig where
  calc_len := by
    intro priv pub h
    simp only [toySig] at h
    split at h
    · simp only [Prod.mk.injEq, true_and] at h; rw [← h]; simp; omega
    · cases h
  calc_keypair := by
    intro priv pub h
    simp only [toySig] at h ⊢
    split at h
    · rename_i hp; simp only [Prod.mk.injEq, true_and] at h; simp [h, hp]
    · cases h
  keypair_pub := by
    intro priv pub h
    simp only [toySig] at h ⊢
    split at h
    · rename_i hp
      obtain ⟨h1, h2⟩ := hp
      subst h1
      simp only [List.length_append, toy_lens _ h2, if_true, true_and]; omega
    · cases h
  pubVal_len := by
    intro pub h
    simp only [toySig] at h
    split at h
    · assumption
    · cases h
  sign_len := by intro body priv sig h; simp only [toySig, Prod.mk.injEq, true_and] at h; rw [← h]; simp
  sign_verify := by intros; rfl

end Bee2V.C17

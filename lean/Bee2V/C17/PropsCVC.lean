/-
C17 — property theorems, CV certificates (btok_cvc.c).  Model: ModelCVC.lean; signature layer abstract (Laws.lean).
-/
import Bee2V.C17.LemmasCVC
namespace Bee2V.C17

/-- btokCVCCheck accepts exactly: both names valid (8..12 printable characters), both dates valid,
    from ≤ until, public key accepted by btokPubkeyVal. -/
theorem cvcCheck_ok_iff (S : Sig) (c : Cvc) :
    cvcCheck S c = .ok ↔
      nameIsValid c.authority = true ∧ nameIsValid c.holder = true ∧ dateIsValid c.from_ = true ∧
      dateIsValid c.until_ = true ∧ dateLeq c.from_ c.until_ = true ∧ S.pubkeyVal c.pubkey = .ok := by
  unfold cvcCheck
  cases nameIsValid c.authority <;> cases nameIsValid c.holder <;> cases dateIsValid c.from_ <;>
    cases dateIsValid c.until_ <;> cases dateLeq c.from_ c.until_ <;> simp

end Bee2V.C17

/-
C17 — command round trip of secure messaging (lemmas).  No Mathlib.
-/
import Bee2V.C17.LemmasResp
namespace Bee2V.C17
open Bee2V.C01 (Cipher)
open Bee2V.C08 (Cmd Resp W)
open Bee2V.Gen.C17Src

/-- control flow of the parser of btokSMCmdUnwrap for an arbitrary buffer, given what each step sees -/
theorem cmdParse_core (A : Bytes) (a4 a5 a6 : UInt8) (t body : Bytes) (lcLen L k c1 c2 yOff n rdf : Nat)
    (hcount : A.length = 4 + lcLen + L + k) (hmin : 15 ≤ A.length) (hbit : smBit (A.headD 0) = true)
    (hA4 : A.drop 4 = a4 :: a5 :: a6 :: t)
    (hlen : (if a4 ≠ 0 then a4.toNat else a5.toNat * 256 + a6.toNat) = L)
    (hlcl : (if a4 ≠ 0 then 1 else 3) = lcLen)
    (hbody : (A.drop (4 + lcLen)).take L = body)
    (h87 : parse87 body = .ok (c1, yOff, n)) (h97 : parse97 (body.drop c1) n = .ok (c2, rdf))
    (hk : k = (if rdf = 0 then 0 else if L < 256 ∧ rdf ≤ 256 then 1 else 2)) (hk2 : k ≤ 2)
    (hz : isZero ((A.drop (4 + lcLen + L)).take k) = true)
    (hform : lcLen = (if k = 2 ∨ L ≥ 256 then 3 else 1))
    (h8E : parse8E (body.drop (c1 + c2)) = .ok (2, 10)) (hsum : c1 + c2 + 10 = L) :
    smCmdParse A = .ok ⟨lcLen, L, c1, c2, 4 + lcLen + yOff, n, rdf, 4 + lcLen + c1 + c2 + 2⟩ := by
  unfold smCmdParse
  rw [cmdMin_eq]
  have h1 : ¬ (A.length < 15 ∨ (!smBit (A.headD 0)) = true) := by
    intro h; rcases h with h | h
    · omega
    · rw [hbit] at h; cases h
  simp only [h1, if_false, hA4, hlen, hlcl]
  have h2 : ¬ (4 + lcLen + L > A.length ∨ 4 + lcLen + L + 2 < A.length) := by omega
  simp only [h2, if_false, hbody, h87, h97, ← hk]
  have h3 : ¬ (A.length ≠ 4 + lcLen + L + k ∨ (!isZero ((A.drop (4 + lcLen + L)).take k)) = true) := by
    intro h; rcases h with h | h
    · exact h hcount
    · rw [hz] at h; cases h
  simp only [h3, if_false, ← hform, ne_eq, not_true_eq_false, h8E]
  have h4 : ¬ (c1 + c2 + 10 ≠ L) := by omega
  simp only [h4, if_false]

/-! ### list algebra on  H ‖ LC ‖ P ‖ T ‖ M ‖ Z -/

theorem drop_app {a b : Bytes} {k : Nat} (h : k = a.length) : (a ++ b).drop k = b := by
  subst h; exact List.drop_left' rfl
theorem take_app {a b : Bytes} {k : Nat} (h : k = a.length) : (a ++ b).take k = a := by
  subst h; exact List.take_left' rfl

theorem isZero_zeros (k : Nat) : isZero (zeros k) = true := by
  simp [isZero, zeros, Bee2V.C01.zeros]

theorem oct_ne_zero {v : Nat} (h1 : v % 256 ≠ 0) : oct v ≠ 0 := by
  intro h
  have := congrArg UInt8.toNat h
  rw [oct_toNat] at this
  exact h1 (by simpa using this)

theorem clr_set (c : UInt8) (h : smBit c = false) : clrSmBit (setSmBit c) = c ∧ smBit (setSmBit c) = true := by
  have hlt : c.toNat < 256 := c.toNat_lt
  have h0 : ¬ (c.toNat / 4 % 2 = 1) := by simpa [smBit] using h
  have hs : setSmBit c = oct (c.toNat + 4) := by simp [setSmBit, h]
  have hsn : (setSmBit c).toNat = c.toNat + 4 := by rw [hs, oct_toNat]; omega
  have hb : smBit (setSmBit c) = true := by simp only [smBit, hsn, decide_eq_true_eq]; omega
  refine ⟨?_, hb⟩
  simp only [clrSmBit, hb, if_true, hsn]
  apply UInt8.toNat_inj.mp
  rw [oct_toNat]; omega

/-- the protected fields and the length of CDF* -/
theorem f97_len (c : Cmd) : (f97 c).length = if c.rdf_len ≠ 0 then 2 + rdfLenLen c else 0 := by
  unfold f97
  by_cases h : c.rdf_len ≠ 0
  · have hl : rdfLenLen c = 1 ∨ rdfLenLen c = 2 ∨ rdfLenLen c = 3 := by
      unfold rdfLenLen
      by_cases h1 : c.cdf.length < 256 ∧ c.rdf_len ≤ 256 <;> by_cases h2 : c.cdf.length ≠ 0 <;> simp [h, h1, h2]
    have htl : (tl 0x97 (rdfLenLen c)).length = 2 := by
      rw [tl_97]; simp only [Bee2V.C08.derLEnc]
      have : rdfLenLen c < 128 := by omega
      simp [this]
    have hv : (leVal c.rdf_len (rdfLenLen c)).length = rdfLenLen c := by
      rcases hl with h' | h' | h' <;> simp [leVal, h']
    rw [if_pos h, if_pos h, List.length_append, htl, hv]
  · simp [h]

theorem rdfLenLen_le (c : Cmd) : rdfLenLen c ≤ 3 := by
  unfold rdfLenLen
  split
  · omega
  · split
    · omega
    · split <;> omega

theorem leVal_len_le (r l : Nat) : (leVal r l).length ≤ 3 := by
  unfold leVal
  split
  · simp
  · split <;> simp

/-- what the two field parsers return on the protected fields written by btokSMCmdWrap, whatever follows -/
theorem fields_parse (C : Cipher) (hC : CipherOK C) (cmd : Cmd) (st : SmSt) (hctr : st.ctr.length = 16)
    (hcdf : cmd.cdf.length < 65536) (hrdf : cmd.rdf_len ≤ 65536) (M : Bytes) (hMl : M.length = 8) :
    ∃ yOff,
      parse87 (f87 C st cmd.cdf ++ f97 cmd ++ [0x8E, 8] ++ M) = .ok ((f87 C st cmd.cdf).length, yOff, cmd.cdf.length) ∧
      parse97 ((f87 C st cmd.cdf ++ f97 cmd ++ [0x8E, 8] ++ M).drop (f87 C st cmd.cdf).length) cmd.cdf.length =
        .ok ((f97 cmd).length, cmd.rdf_len) ∧
      (∀ rest, ((f87 C st cmd.cdf ++ rest).drop yOff).take cmd.cdf.length =
        if cmd.cdf.length ≠ 0 then (Bee2V.C01.cfbStepE C (Bee2V.C01.cfbStart st.key2 st.ctr) cmd.cdf).2 else []) ∧
      (f87 C st cmd.cdf).length = (if cmd.cdf.length ≠ 0 then (tl 0x87 (cmd.cdf.length + 1)).length + 1 + cmd.cdf.length else 0) := by
  obtain ⟨_, hylen⟩ := sm_cfb C hC st hctr cmd.cdf
  have hE8 : Bee2V.C08.derEnc 0x8E M = .ok ([0x8E, 8] ++ M) := by rw [derEnc_8E, hMl, tl_8E_8]
  have h97len := f97_len cmd
  -- the 0x97 part, common to both cases
  have h97 : parse97 (f97 cmd ++ [0x8E, 8] ++ M) cmd.cdf.length = .ok ((f97 cmd).length, cmd.rdf_len) := by
    by_cases hr : cmd.rdf_len ≠ 0
    · have := parse97_present cmd.cdf.length cmd.rdf_len ([0x8E, 8] ++ M) hr hrdf (by
        simp only [List.length_append, List.length_cons, List.length_nil, hMl]; unfold W; omega)
      simp only at this
      have hl : rdfLenLen cmd = (if cmd.cdf.length < 256 ∧ cmd.rdf_len ≤ 256 then 1 else if cmd.cdf.length ≠ 0 then 2 else 3) := by
        unfold rdfLenLen; rw [if_neg hr]
      rw [h97len, if_pos hr, hl]
      unfold f97
      rw [if_pos hr, hl]
      simpa [List.append_assoc] using this
    · have hr0 : cmd.rdf_len = 0 := by simpa using hr
      have hf : f97 cmd = [] := by simp [f97, hr0]
      rw [hf]
      have := parse97_absent 0x8E ([0x8E, 8] ++ M) M [] cmd.cdf.length hE8 (lt_U32_of_lt_256 (by omega)) (by omega)
        (by rw [hMl]; simp only [List.length_nil]; unfold W; omega)
      simpa [hr0] using this
  by_cases hn : cmd.cdf.length ≠ 0
  · -- data present
    let y := (Bee2V.C01.cfbStepE C (Bee2V.C01.cfbStart st.key2 st.ctr) cmd.cdf).2
    have hyl : y.length = cmd.cdf.length := hylen
    have hP : f87 C st cmd.cdf = tl 0x87 (y.length + 1) ++ [2] ++ y := by
      unfold f87; rw [if_pos hn, hyl]
    have hPl : (f87 C st cmd.cdf).length = (tl 0x87 (y.length + 1)).length + 1 + y.length := by
      rw [hP]; simp only [List.length_append, List.length_cons, List.length_nil]
    refine ⟨(tl 0x87 (y.length + 1)).length + 1, ?_, ?_, ?_, ?_⟩
    · have := parse87_present y (f97 cmd ++ [0x8E, 8] ++ M) (by omega) (by
        simp only [List.length_append, List.length_cons, List.length_nil, hMl, h97len]
        have := rdfLenLen_le cmd
        unfold W; split <;> omega)
      rw [hPl, hP, ← hyl]
      simpa [List.append_assoc] using this
    · rw [List.append_assoc, List.append_assoc, drop_app rfl]
      simpa [List.append_assoc] using h97
    · intro rest
      rw [if_pos hn, hP, ← hyl]
      have e : tl 0x87 (y.length + 1) ++ [2] ++ y ++ rest = (tl 0x87 (y.length + 1) ++ [2]) ++ (y ++ rest) := by simp
      rw [e, drop_app (by simp), take_app rfl]
    · rw [if_pos hn, hPl, hyl]
  · have hn0 : cmd.cdf.length = 0 := by simpa using hn
    have hP : f87 C st cmd.cdf = [] := by simp [f87, hn0]
    refine ⟨0, ?_, ?_, ?_, ?_⟩
    · rw [hP, hn0]
      simp only [List.nil_append, List.length_nil]
      by_cases hr : cmd.rdf_len ≠ 0
      · have hE : Bee2V.C08.derEnc 0x97 (leVal cmd.rdf_len (rdfLenLen cmd)) = .ok (f97 cmd) := by
          have hl : (leVal cmd.rdf_len (rdfLenLen cmd)).length = rdfLenLen cmd := by
            have := h97len; rw [if_pos hr] at this
            unfold f97 at this; rw [if_pos hr, List.length_append] at this
            have htl : (tl 0x97 (rdfLenLen cmd)).length = 2 := by
              rw [tl_97]; simp only [Bee2V.C08.derLEnc]
              have : rdfLenLen cmd < 128 := by have := rdfLenLen_le cmd; omega
              simp [this]
            omega
          rw [derEnc_97, hl]; simp [f97, hr]
        have hvl := leVal_len_le cmd.rdf_len (rdfLenLen cmd)
        have := parse87_absent 0x97 (f97 cmd) _ ([0x8E, 8] ++ M) hE (lt_U32_of_lt_256 (by omega)) (by omega)
          (by simp only [List.length_append, List.length_cons, List.length_nil, hMl]; unfold W; omega)
        simpa [List.append_assoc] using this
      · have hr0 : cmd.rdf_len = 0 := by simpa using hr
        have hf : f97 cmd = [] := by simp [f97, hr0]
        rw [hf]
        have := parse87_absent 0x8E ([0x8E, 8] ++ M) M [] hE8 (lt_U32_of_lt_256 (by omega)) (by omega)
          (by rw [hMl]; simp only [List.length_nil]; unfold W; omega)
        simpa using this
    · rw [hP]
      simpa [hn0] using h97
    · intro rest; simp [hn0]
    · simp [hn0, hP]

theorem tl97_len (l : Nat) (h : l < 128) : (tl 0x97 l).length = 2 := by
  rw [tl_97]; simp only [Bee2V.C08.derLEnc]; simp [h]

/-- rules 1–3 as computed by Wrap are what Unwrap re-derives -/
theorem star_spec (cmd : Cmd) :
    ((starLens cmd).1 = 1 ∨ (starLens cmd).1 = 3) ∧ ((starLens cmd).1 = 1 → cdfStarLen cmd < 256) ∧
    (starLens cmd).2 = (if cmd.rdf_len = 0 then 0 else if cdfStarLen cmd < 256 ∧ cmd.rdf_len ≤ 256 then 1 else 2) ∧
    (starLens cmd).1 = (if (starLens cmd).2 = 2 ∨ cdfStarLen cmd ≥ 256 then 3 else 1) ∧ (starLens cmd).2 ≤ 2 := by
  unfold starLens
  by_cases h0 : cmd.rdf_len = 0
  · by_cases h1 : cdfStarLen cmd < 256
    · simp [h0, h1]
    · simp [h0, h1]
  · by_cases h1 : cmd.rdf_len ≤ 256 ∧ cdfStarLen cmd < 256
    · have h2 : cdfStarLen cmd < 256 ∧ cmd.rdf_len ≤ 256 := ⟨h1.2, h1.1⟩
      simp [h0, h1, h2]
    · have h2 : ¬ (cdfStarLen cmd < 256 ∧ cmd.rdf_len ≤ 256) := fun h => h1 ⟨h.2, h.1⟩
      simp [h0, h1, h2]

theorem cdfStarLen_eq (C : Cipher) (st : SmSt) (cmd : Cmd)
    (h87 : (f87 C st cmd.cdf).length = (if cmd.cdf.length ≠ 0 then (tl 0x87 (cmd.cdf.length + 1)).length + 1 + cmd.cdf.length else 0)) :
    cdfStarLen cmd = (f87 C st cmd.cdf).length + (f97 cmd).length + 10 := by
  unfold cdfStarLen
  rw [h87, f97_len, tl_8E_8]
  have := rdfLenLen_le cmd
  by_cases hn : cmd.cdf.length ≠ 0 <;> by_cases hr : cmd.rdf_len ≠ 0
  · rw [if_pos hn, if_pos hr, if_pos hn, if_pos hr, tl97_len _ (by omega)]; simp only [List.length_cons, List.length_nil]; omega
  · rw [if_pos hn, if_neg hr, if_pos hn, if_neg hr]; simp only [List.length_cons, List.length_nil]; omega
  · rw [if_neg hn, if_pos hr, if_neg hn, if_pos hr, tl97_len _ (by omega)]; simp only [List.length_cons, List.length_nil]; omega
  · rw [if_neg hn, if_neg hr, if_neg hn, if_neg hr]; simp only [List.length_cons, List.length_nil]; omega

/-- COMMAND ROUND TRIP on the explicit octets written by btokSMCmdWrap -/
theorem cmd_roundtrip_core (C : Cipher) (hC : CipherOK C) (cmd : Cmd) (st : SmSt) (hctr : st.ctr.length = 16)
    (hcdf : cmd.cdf.length < 65536) (hrdf : cmd.rdf_len ≤ 65536) (hbit : smBit cmd.cla = false)
    (hL : cdfStarLen cmd ≤ 65535) (hpar : ctrParity st = 1)
    (M : Bytes) (hM : M = mac2 C st.key1 [setSmBit cmd.cla, cmd.ins, cmd.p1, cmd.p2] (f87 C st cmd.cdf ++ f97 cmd))
    (lc : Bytes) (hlc : lc = if (starLens cmd).1 = 1 then [oct (cdfStarLen cmd)] else [0, oct (cdfStarLen cmd / 256), oct (cdfStarLen cmd)])
    (A : Bytes) (hA : A = [setSmBit cmd.cla, cmd.ins, cmd.p1, cmd.p2] ++ lc ++ (f87 C st cmd.cdf ++ f97 cmd) ++ [0x8E, 8] ++ M ++
      zeros (starLens cmd).2) :
    smCmdUnwrap C A st = (.ok, some cmd) ∧ smCmdUnwrapFmt A = (.ok, cmd.cdf.length) ∧
    A.length = 4 + (starLens cmd).1 + cdfStarLen cmd + (starLens cmd).2 := by
  have hMl : M.length = 8 := by rw [hM]; exact mac2_length C hC _ _ _
  have hmac : mac2V C st.key1 [setSmBit cmd.cla, cmd.ins, cmd.p1, cmd.p2] (f87 C st cmd.cdf ++ f97 cmd) M = true := by
    rw [hM]; exact mac2V_mac2 C hC _ _ _
  obtain ⟨hdec, _⟩ := sm_cfb C hC st hctr cmd.cdf
  obtain ⟨yOff, h87, h97, hy, h87l⟩ := fields_parse C hC cmd st hctr hcdf hrdf M hMl
  have hLeq := cdfStarLen_eq C st cmd h87l
  obtain ⟨hlc13, hlc1, hk, hform, hk2⟩ := star_spec cmd
  obtain ⟨hclr, hset⟩ := clr_set cmd.cla hbit
  -- abbreviations
  generalize hP87 : f87 C st cmd.cdf = P87 at *
  generalize hP97 : f97 cmd = P97 at *
  generalize hLL : cdfStarLen cmd = L at *
  generalize hkk : (starLens cmd).2 = k at *
  generalize hll : (starLens cmd).1 = lcLen at *
  have hlcl : lc.length = lcLen := by
    rw [hlc]; rcases hlc13 with h | h <;> simp [h]
  have hzl : (zeros k).length = k := length_zeros k
  have hcount : A.length = 4 + lcLen + L + k := by
    rw [hA]; simp only [List.length_append, List.length_cons, List.length_nil, hlcl, hMl, hzl]; omega
  -- slices of A
  have e1 : A = ([setSmBit cmd.cla, cmd.ins, cmd.p1, cmd.p2] ++ lc) ++ ((P87 ++ P97 ++ [0x8E, 8] ++ M) ++ zeros k) := by
    rw [hA]; simp [List.append_assoc]
  have hbody : (A.drop (4 + lcLen)).take L = P87 ++ P97 ++ [0x8E, 8] ++ M := by
    rw [e1, drop_app (by simp only [List.length_append, List.length_cons, List.length_nil, hlcl] <;> omega), take_app (by simp [hMl]; omega)]
  have hzz : (A.drop (4 + lcLen + L)).take k = zeros k := by
    have e2 : A = ([setSmBit cmd.cla, cmd.ins, cmd.p1, cmd.p2] ++ lc ++ (P87 ++ P97 ++ [0x8E, 8] ++ M)) ++ zeros k := by
      rw [hA]; simp [List.append_assoc]
    rw [e2, drop_app (by simp only [List.length_append, List.length_cons, List.length_nil, hlcl, hMl]; omega)]
    exact List.take_of_length_le (by rw [hzl]; exact Nat.le_refl _)
  have h8E : parse8E ((P87 ++ P97 ++ [0x8E, 8] ++ M).drop (P87.length + P97.length)) = .ok (2, 10) := by
    have : (P87 ++ P97 ++ [0x8E, 8] ++ M) = (P87 ++ P97) ++ ([0x8E, 8] ++ M ++ []) := by simp [List.append_assoc]
    rw [this, drop_app (by simp)]
    exact parse8E_present M [] hMl (by simp only [List.length_nil]; unfold W; omega)
  -- the three octets behind the header
  obtain ⟨a4, a5, a6, t, hA4, hlenv, hlclv⟩ : ∃ a4 a5 a6 t, A.drop 4 = a4 :: a5 :: a6 :: t ∧
      (if a4 ≠ 0 then a4.toNat else a5.toNat * 256 + a6.toNat) = L ∧ (if a4 ≠ 0 then 1 else 3) = lcLen := by
    have hd4 : A.drop 4 = lc ++ ((P87 ++ P97 ++ [0x8E, 8] ++ M) ++ zeros k) := by
      rw [hA]; simp [List.append_assoc]
    rcases hlc13 with h | h
    · have hl256 := hlc1 h
      rw [if_pos h] at hlc
      have hne : oct L ≠ 0 := oct_ne_zero (by omega)
      have hlen2 : 2 ≤ ((P87 ++ P97 ++ [0x8E, 8] ++ M) ++ zeros k).length := by simp [hMl]; omega
      match hrest : (P87 ++ P97 ++ [0x8E, 8] ++ M) ++ zeros k, hlen2 with
      | a5 :: a6 :: t, _ =>
        refine ⟨oct L, a5, a6, t, ?_, ?_, ?_⟩
        · rw [hd4, hlc, hrest]; rfl
        · rw [if_pos hne, oct_toNat]; omega
        · rw [if_pos hne, h]
    · have hne3 : ¬ (3 = 1) := by omega
      rw [h] at hlc
      simp only [hne3, if_false] at hlc
      refine ⟨0, oct (L / 256), oct L, (P87 ++ P97 ++ [0x8E, 8] ++ M) ++ zeros k, ?_, ?_, ?_⟩
      · rw [hd4, hlc]; rfl
      · simp only [ne_eq, not_true_eq_false, if_false, oct_toNat]; omega
      · simp only [ne_eq, not_true_eq_false, if_false, h]
  have hhead : smBit (A.headD 0) = true := by rw [hA]; simpa using hset
  have hparse := cmdParse_core A a4 a5 a6 t _ lcLen L k P87.length P97.length yOff cmd.cdf.length cmd.rdf_len hcount
    (by omega) hhead hA4 hlenv hlclv hbody h87 h97 hk hk2 (by rw [hzz]; exact isZero_zeros k) hform h8E (by omega)
  refine ⟨?_, ?_, hcount⟩
  · -- Unwrap
    have htk4 : A.take 4 = [setSmBit cmd.cla, cmd.ins, cmd.p1, cmd.p2] := by
      rw [hA]; simp [List.append_assoc]
    have hprot : (A.drop (4 + lcLen)).take (P87.length + P97.length) = P87 ++ P97 := by
      have e3 : A = ([setSmBit cmd.cla, cmd.ins, cmd.p1, cmd.p2] ++ lc) ++ ((P87 ++ P97) ++ ([0x8E, 8] ++ M ++ zeros k)) := by
        rw [hA]; simp [List.append_assoc]
      rw [e3, drop_app (by simp only [List.length_append, List.length_cons, List.length_nil, hlcl] <;> omega), take_app (by simp)]
    have htag : (A.drop (4 + lcLen + P87.length + P97.length + 2)).take 8 = M := by
      have e4 : A = ([setSmBit cmd.cla, cmd.ins, cmd.p1, cmd.p2] ++ lc ++ (P87 ++ P97) ++ [0x8E, 8]) ++ (M ++ zeros k) := by
        rw [hA]; simp [List.append_assoc]
      rw [e4, drop_app (by simp [hlcl]; omega), take_app hMl.symm]
    have hct : (A.drop (4 + lcLen + yOff)).take cmd.cdf.length =
        if cmd.cdf.length ≠ 0 then (Bee2V.C01.cfbStepE C (Bee2V.C01.cfbStart st.key2 st.ctr) cmd.cdf).2 else [] := by
      have e5 : A = ([setSmBit cmd.cla, cmd.ins, cmd.p1, cmd.p2] ++ lc) ++ (P87 ++ (P97 ++ [0x8E, 8] ++ M ++ zeros k)) := by
        rw [hA]; simp [List.append_assoc]
      rw [e5, show 4 + lcLen + yOff = ([setSmBit cmd.cla, cmd.ins, cmd.p1, cmd.p2] ++ lc).length + yOff by simp [hlcl] <;> omega,
        ← List.drop_drop, drop_app rfl]
      exact hy _
    unfold smCmdUnwrap
    rw [hparse]
    simp only [parCmdUnwrap_eq, hpar, ne_eq, not_true_eq_false, if_false, htk4, hprot, htag, hmac, Bool.not_true,
      Bool.false_eq_true, hct, hclr]
    by_cases hn : cmd.cdf.length = 0
    · have hnil : cmd.cdf = [] := List.length_eq_zero_iff.mp hn
      have hc : cmd = ⟨cmd.cla, cmd.ins, cmd.p1, cmd.p2, [], cmd.rdf_len⟩ := by
        revert hnil; cases cmd; intro h; simp only at h; simp [h]
      simp only [hn, not_true_eq_false, if_false, List.take_zero]
      exact congrArg (fun x => (E.ok, some x)) hc.symm
    · simp only [hn, not_false_eq_true, if_true, hdec]
  · unfold smCmdUnwrapFmt; rw [hparse]

end Bee2V.C17

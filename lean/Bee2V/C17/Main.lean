import Bee2V.C17.Drv
/-- driver executable of area C17 (`drv_c17`) -/
def main : IO Unit := Bee2V.Proto.runLoop Bee2V.C17.Drv.handle

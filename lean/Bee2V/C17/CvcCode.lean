/-
C17 — the DER code of a CV certificate written out explicitly (specification form of what btokCVCBodyEnc /
btokCVCWrap write through the SEQ anchors).  Shared by the encoder-side lemmas (LemmasCvcEnc: bodyEnc c = bodyCode c)
and the decoder-side lemmas (LemmasCvcDec: bodyDec (bodyCode c ++ rest) = c).  No Mathlib.
-/
import Bee2V.C17.ModelCVC
import Bee2V.C08.Nested
namespace Bee2V.C17
open Bee2V.C08

/-- T ‖ L ‖ V with the minimal tag and length codes (= derEnc tag v for a valid tag: C08 `derEnc_eq`) -/
def tlvC (tag : Nat) (v : Bytes) : Bytes := beBytes (tCount tag) tag ++ derLEnc v.length ++ v

/-- the code of an object identifier given as dotted string (`[]` if the string is not a valid OID; the four OIDs of
btok_cvc.c are valid: `oidC_ok`) -/
def oidC (oid : Bytes) : Bytes :=
  match derOIDEnc oid with
  | .ok b => b
  | _ => []

/-- SIZE[0x5F29](0) -/
def verC : Bytes := [0x5F, 0x29, 0x01, 0x00]

/-- BIT STRING of whole octets: 03 L 00 v -/
def bitC (pk : Bytes) : Bytes := tlvC 3 (0 :: pk)

def hatEidC (c : Cvc) : Bytes :=
  if !isZero c.hatEid then tlvC 0x7F4C (oidC oid_eid_access ++ tlvC 4 c.hatEid) else []

def hatEsignC (c : Cvc) : Bytes :=
  if !isZero c.hatEsign then
    tlvC 0x65 (tlvC 0x73 (oidC oid_esign_auth_ext ++ tlvC 0x7F4C (oidC oid_esign_access ++ tlvC 4 c.hatEsign)))
  else []

/-- the members of CertificateBody -/
def bodyContent (c : Cvc) : Bytes :=
  verC ++ tlvC 0x42 c.authority ++ tlvC 0x7F49 (oidC oid_pubkey ++ bitC c.pubkey) ++ tlvC 0x5F20 c.holder ++
  hatEidC c ++ tlvC 0x5F25 c.from_ ++ tlvC 0x5F24 c.until_ ++ hatEsignC c

/-- SEQ[APPLICATION 78] CertificateBody -/
def bodyCode (c : Cvc) : Bytes := tlvC 0x7F4E (bodyContent c)

/-- SEQ[APPLICATION 33] CVCertificate { body, OCT[APPLICATION 55] sig } -/
def certCode (body sig : Bytes) : Bytes := tlvC 0x7F21 (body ++ tlvC 0x5F37 sig)

end Bee2V.C17

/-
C17 driver, container ops (same line protocol as harness/c17.c, see its header).
-/
import Bee2V.C17.ModelBpki
import Bee2V.C17.DrvSM
namespace Bee2V.C17.Drv
open Bee2V.C17 Bee2V.Proto

def showUnwrap (kind : PkiKind) (epki pwd : Bytes) : String :=
  let r := pkiUnwrap BC kind epki pwd
  match r with
  | (.ok, some v) => s!"0 {v.length} | 0 {toHex v}"
  | (.badSharekey, some v) => s!"0 {v.length} | {E.badSharekey.code} {toHex v}"
  | (e, _) => s!"{e.code}"

def handleBpki : List String → Option String
  | [op, payload, pwd, salt, iter] =>
    if op ≠ "pkwrap" ∧ op ≠ "shwrap" then none else
    match parseHex payload, parseHex pwd, parseHex salt, parseNat iter with
    | some x, some pwd, some salt, some iter =>
      if salt.length ≠ 8 then some "bad-op" else
      -- as the harness: length query first, then the call; announced and written lengths must agree
      let kind : PkiKind := if op = "pkwrap" then .privkey else .share
      let q := pkiWrapLen kind x iter
      if q.1 ≠ .ok then some s!"{q.1.code}" else
      let r := pkiWrap BC kind x pwd salt iter
      if r.1 = .ok ∧ r.2.length ≠ q.2 then some "9999" else some (showWrap r)
    | _, _, _, _ => some "bad-op"
  | [op, epki, pwd] =>
    if op = "pkwraplen" ∨ op = "shwraplen" then
      match parseHex epki, parseNat pwd with
      | some x, some iter =>
        let q := pkiWrapLen (if op = "pkwraplen" then .privkey else .share) x iter
        some (if q.1 = .ok then s!"0 {q.2}" else s!"{q.1.code}")
      | _, _ => some "bad-op"
    else
    if op ≠ "pkunwrap" ∧ op ≠ "shunwrap" then none else
    match parseHex epki, parseHex pwd with
    | some epki, some pwd => some (showUnwrap (if op = "pkunwrap" then .privkey else .share) epki pwd)
    | _, _ => some "bad-op"
  | ["rawwrap", kind, payload, pwd, salt, iter] =>
    match parseHex payload, parseHex pwd, parseHex salt, parseNat iter with
    | some x, some pwd, some salt, some iter =>
      if salt.length ≠ 8 ∨ (kind ≠ "pk" ∧ kind ≠ "sh" ∧ kind ≠ "raw") then some "bad-op" else
      let pki : Bee2V.C08.R Bytes := if kind = "pk" then pkiEnc .privkey x else if kind = "sh" then pkiEnc .share x else .ok x
      match pki with
      | .ok pki => some (showWrap (epkiSeal BC pki pwd salt iter))
      | _ => some "enc-err"
    | _, _, _, _ => some "bad-op"
  | ["pbkdf", pwd, iter, salt] =>
    match parseHex pwd, parseNat iter, parseHex salt with
    | some pwd, some iter, some salt =>
      match Bee2V.C01.pbkdf2 BC pwd iter salt with
      | (.ok, some k) => some s!"0 {toHex k}"
      | (e, _) => some s!"{(ofBelt e).code}"
    | _, _, _ => some "bad-op"
  | _ => none

end Bee2V.C17.Drv

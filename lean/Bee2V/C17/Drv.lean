/-
C17 driver: line protocol of `drv_c17` (ops documented in harness/c17.c).
-/
import Bee2V.C17.DrvSM
import Bee2V.C17.DrvCVC
import Bee2V.C17.DrvBpki
namespace Bee2V.C17.Drv

def handle (toks : List String) : String :=
  match handleSM toks with
  | some r => r
  | none =>
    match handleCVC toks with
    | some r => r
    | none =>
      match handleBpki toks with
      | some r => r
      | none => "bad-op"

end Bee2V.C17.Drv

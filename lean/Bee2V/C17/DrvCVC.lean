/-
C17 driver, CV-certificate ops (same line protocol as harness/c17.c, see its header).
-/
import Bee2V.C17.SigInst
import Bee2V.C17.DrvSM
namespace Bee2V.C17.Drv
open Bee2V.C17 Bee2V.Proto Bee2V.C08

abbrev S0 : Sig := Bee2V.C17.Inst.stdSig

/-- a name token: at most 12 octets; the C string ends at the first NUL -/
def nameTok (s : String) : Option Bytes :=
  match parseHex s with
  | some b => if b.length ≤ 12 then some (b.takeWhile (· ≠ 0)) else none
  | none => none

def hexLe (s : String) (n : Nat) : Option Bytes :=
  match parseHex s with
  | some b => if b.length ≤ n then some b else none
  | none => none

/-- AUTH HOLDER FROM UNTIL EID ESIGN PUBKEY -/
def mkCvc : List String → Option Cvc
  | [a, h, f, u, e, g, pk] =>
    match nameTok a, nameTok h, hexN f 6, hexN u 6, hexN e 5, hexN g 2, hexLe pk 128 with
    | some a, some h, some f, some u, some e, some g, some pk => some ⟨a, h, pk, f, u, e, g, []⟩
    | _, _, _, _, _, _, _ => none
  | _ => none

def showCvc (c : Cvc) : String :=
  s!"{toHex c.authority} {toHex c.holder} {toHex c.from_} {toHex c.until_} {toHex c.hatEid} {toHex c.hatEsign} {toHex c.pubkey} {toHex c.sig}"

def dateTok (s : String) : Option (Option Bytes) :=
  if s = "N" then some none else (hexN s 6).map some

def showR' {α} (f : α → String) : R α → String
  | .ok a => f a
  | .err => "err"
  | .oob => "OOB"

def showWrapCvc (r : E × Cvc × Bytes) : String :=
  if r.1 = .ok then s!"0 {toHex r.2.2} {showCvc r.2.1}" else s!"{r.1.code}"

def showExc (r : Except E Cvc) : String :=
  match r with
  | .ok c => s!"0 {showCvc c}"
  | .error e => s!"{e.code}"

def handleCVC : List String → Option String
  | "cvccheck" :: t =>
    if t.length ≠ 7 then none else
    match mkCvc t with
    | some c => some s!"{(cvcCheck S0 c).code}"
    | none => some "invalid"
  | "cvccheck2" :: t =>
    if t.length ≠ 14 then none else
    match mkCvc (t.take 7), mkCvc (t.drop 7) with
    | some c, some ca => some s!"{(cvcCheck2 S0 c ca).code}"
    | _, _ => some "invalid"
  | "cvcbody" :: t =>
    if t.length ≠ 7 then none else
    match mkCvc t with
    | some c => some (showR' toHex (bodyEnc c))
    | none => some "invalid"
  | ["cvcbdec", x] =>
    match parseHex x with
    | some x => some (showR' (fun (r : Cvc × Nat) => s!"{showCvc r.1} {r.2}") (bodyDec x))
    | none => some "bad-op"
  | "cvcwrap" :: t =>
    if t.length ≠ 8 then none else
    match mkCvc (t.take 7), parseHex (t.getD 7 "") with
    | some c, some priv => some (showWrapCvc (cvcWrap S0 c priv))
    | none, _ => some "invalid"
    | _, _ => some "bad-op"
  | "cvciss" :: t =>
    if t.length ≠ 9 then none else
    match mkCvc (t.take 7), parseHex (t.getD 7 ""), parseHex (t.getD 8 "") with
    | some c, some certa, some priva => some (showWrapCvc (cvcIss S0 c certa priva))
    | none, _, _ => some "invalid"
    | _, _, _ => some "bad-op"
  | ["cvcunwrap", cert, mode, pk] =>
    match parseHex cert, parseNat mode, parseHex pk with
    | some cert, some mode, some pk =>
      let arg : PkArg := if mode = 0 then (if pk.isEmpty then .foreign else .key pk)
        else if mode = 1 then .none else if mode = 2 then .self else .foreign
      some (showExc (cvcUnwrap S0 cert arg))
    | _, _, _ => some "bad-op"
  | ["cvcval", cert, certa, date] =>
    match parseHex cert, parseHex certa, dateTok date with
    | some cert, some certa, some d => some s!"{(cvcVal S0 cert certa d).code}"
    | _, _, _ => some "bad-op"
  | "cvcval2" :: cert :: t =>
    if t.length ≠ 8 then none else
    match parseHex cert, mkCvc (t.take 7), dateTok (t.getD 7 "") with
    | some cert, some ca, some d =>
      match cvcVal2 S0 cert ca d with
      | (.ok, some c) => some s!"0 {showCvc c}"
      | (e, _) => some s!"{e.code}"
    | _, none, _ => some "invalid"
    | _, _, _ => some "bad-op"
  | ["cvcmatch", cert, priv] =>
    match parseHex cert, parseHex priv with
    | some cert, some priv => some s!"{(cvcMatch S0 cert priv).code}"
    | _, _ => some "bad-op"
  | ["cvclen", x] =>
    match parseHex x with
    | some x => some (showR' (fun (n : Nat) => s!"{n}") (cvcLen x))
    | none => some "bad-op"
  | ["sigvfy", body, sig, pk] =>
    match parseHex body, parseHex sig, parseHex pk with
    | some body, some sig, some pk =>
      if !pubkeyLenOk pk.length ∨ sig.length ≠ (if pk.length = 48 then 34 else pk.length - pk.length / 4) then some "bad-op"
      else some s!"{(S0.verify body sig pk).code}"
    | _, _, _ => some "bad-op"
  | ["pubcalc", priv] =>
    match parseHex priv with
    | some priv =>
      if !privLenOk priv.length then some s!"{E.badInput.code}" else
      let r := S0.pubkeyCalc priv
      some (if r.1 = .ok then s!"0 {toHex r.2}" else s!"{r.1.code}")
    | none => some "bad-op"
  | _ => none

end Bee2V.C17.Drv

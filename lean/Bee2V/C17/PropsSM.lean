/-
C17 — property theorems, secure messaging (btok_sm.c).  Model: ModelSM.lean.
-/
import Bee2V.C17.LemmasSM
namespace Bee2V.C17
open Bee2V.C01 (leNat Cipher)
open Bee2V.C08 (Cmd Resp)

/-- btokSMCtrInc is `+1 mod 2^128` on the little-endian counter, the keys are untouched, the length stays 16. -/
theorem smCtrInc_spec (st : SmSt) (h : st.ctr.length = 16) :
    leNat (smCtrInc st).ctr = (leNat st.ctr + 1) % 2 ^ 128 ∧ (smCtrInc st).ctr.length = 16 ∧
    (smCtrInc st).key1 = st.key1 ∧ (smCtrInc st).key2 = st.key2 := by
  obtain ⟨h1, h2⟩ := ctrIncLoop_spec st.ctr 1
  refine ⟨?_, by simp [smCtrInc, h1, h], rfl, rfl⟩
  simp only [smCtrInc, h2, h]
example : (smCtrInc ⟨[], [], List.replicate 16 255⟩).ctr = List.replicate 16 0 := by decide +kernel
example : (smCtrInc ⟨[], [], 255 :: 255 :: List.replicate 14 7⟩).ctr = 0 :: 0 :: 8 :: List.replicate 13 7 := by decide +kernel

end Bee2V.C17

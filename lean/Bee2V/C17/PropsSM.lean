/-
C17 — property theorems, secure messaging (btok_sm.c).  Model: ModelSM.lean.
-/
import Bee2V.C17.LemmasSM
namespace Bee2V.C17
open Bee2V.C01 (leNat Cipher)
open Bee2V.C08 (Cmd Resp)

/-- btokSMCtrInc is `+1 mod 2^128` on the little-endian counter, the keys are untouched, the length stays 16. -/
theorem smCtrInc_spec (st : SmSt) (h : st.ctr.length = 16) :
    leNat (smCtrInc st).ctr = (leNat st.ctr + 1) % 2 ^ 128 ∧ (smCtrInc st).ctr.length = 16 ∧
    (smCtrInc st).key1 = st.key1 ∧ (smCtrInc st).key2 = st.key2 := by
  obtain ⟨h1, h2⟩ := ctrIncLoop_spec st.ctr 1
  refine ⟨?_, by simp [smCtrInc, h1, h], rfl, rfl⟩
  simp only [smCtrInc, h2, h]
example : (smCtrInc ⟨[], [], List.replicate 16 255⟩).ctr = List.replicate 16 0 := by decide +kernel
example : (smCtrInc ⟨[], [], 255 :: 255 :: List.replicate 14 7⟩).ctr = 0 :: 0 :: 8 :: List.replicate 13 7 := by decide +kernel

/-- the parity the code reads from `ctr[0]` is the parity of the whole 128-bit counter; an increment flips it -/
theorem ctrParity_spec (st : SmSt) (h : st.ctr.length = 16) :
    ctrParity st = leNat st.ctr % 2 ∧ ctrParity (smCtrInc st) = 1 - ctrParity st := by
  obtain ⟨h1, h2, _, _⟩ := smCtrInc_spec st h
  have e2 := ctrParity_eq (smCtrInc st) h2
  have e1 := ctrParity_eq st h
  refine ⟨e1, ?_⟩
  rw [e2, h1, e1]
  omega
example : ctrParity ⟨[], [], List.replicate 16 255⟩ = 1 ∧ ctrParity (smCtrInc ⟨[], [], List.replicate 16 255⟩) = 0 := by
  decide +kernel

/-! ### exact result code / refusal condition of each of the four calls -/

/-- btokSMCmdWrap (state given, output buffer given): ERR_BAD_APDU for an invalid or already protected command and
for a protected data field that does not fit Lc* (fix-1); otherwise ERR_BAD_LOGIC exactly at an even counter. -/
theorem cmdWrap_code (C : Cipher) (cmd : Cmd) (st : SmSt) :
    (smCmdWrap C cmd st).1 =
      if Bee2V.C08.apduCmdIsValid cmd = false ∨ smBit cmd.cla = true then .badApdu
      else if cdfStarLen cmd > 65535 then .badApdu
      else if ctrParity st ≠ 1 then .badLogic else .ok := smCmdWrap_code' C cmd st

theorem cmdWrap_badLogic_iff (C : Cipher) (cmd : Cmd) (st : SmSt) (h : st.ctr.length = 16) :
    (smCmdWrap C cmd st).1 = .badLogic ↔
      Bee2V.C08.apduCmdIsValid cmd = true ∧ smBit cmd.cla = false ∧ cdfStarLen cmd ≤ 65535 ∧ leNat st.ctr % 2 = 0 := by
  rw [smCmdWrap_code', ← ctrParity_eq st h]
  have := ctrParity_lt st
  cases Bee2V.C08.apduCmdIsValid cmd <;> cases smBit cmd.cla <;> simp <;>
    (by_cases h2 : 65535 < cdfStarLen cmd <;> simp [h2] <;> omega)
example : (smCmdWrap ⟨fun _ x => x, fun _ x => x⟩ ⟨0, 1, 2, 3, [7], 0⟩ ⟨[], [], List.replicate 16 0⟩).1 = .badLogic := by
  decide +kernel

/-- a refused wrap returns no octets -/
theorem cmdWrap_refused_empty (C : Cipher) (cmd : Cmd) (st : SmSt) (h : (smCmdWrap C cmd st).1 ≠ .ok) :
    (smCmdWrap C cmd st).2 = [] := by
  unfold smCmdWrap at h ⊢
  cases hp : smCmdWrapPre cmd with
  | some e => simp [hp]
  | none =>
    simp only [hp] at h ⊢
    by_cases h3 : ctrParity st ≠ Bee2V.Gen.C17Src.parCmdWrap
    · simp [h3]
    · simp [h3] at h

/-- btokSMCmdUnwrap: the structure checks first; then ERR_BAD_LOGIC exactly at an even counter; then the MAC -/
theorem cmdUnwrap_code (C : Cipher) (apdu : Bytes) (st : SmSt) :
    (smCmdUnwrap C apdu st).1 =
      match smCmdParse apdu with
      | .error e => e
      | .ok p =>
        if ctrParity st ≠ 1 then .badLogic
        else if mac2V C st.key1 (apdu.take 4) ((apdu.drop (4 + p.lcLen)).take (p.c1 + p.c2)) ((apdu.drop p.macOff).take 8) = false
          then .badMac
        else match apdu.take 4 with
          | [_, _, _, _] => .ok
          | _ => .badApdu := smCmdUnwrap_code' C apdu st

theorem cmdUnwrap_badLogic_iff (C : Cipher) (apdu : Bytes) (st : SmSt) (h : st.ctr.length = 16) :
    (smCmdUnwrap C apdu st).1 = .badLogic ↔ (∃ p, smCmdParse apdu = .ok p) ∧ leNat st.ctr % 2 = 0 := by
  rw [smCmdUnwrap_code', ← ctrParity_eq st h]
  have := ctrParity_lt st
  cases hp : smCmdParse apdu with
  | error e =>
    have := smCmdParse_err hp
    simp only [reduceCtorEq, exists_false, false_and, iff_false]
    rcases this with rfl | rfl <;> simp
  | ok p =>
    simp only [Except.ok.injEq, exists_eq', true_and]
    by_cases h3 : ctrParity st ≠ 1
    · simp only [if_pos h3, true_iff]; omega
    · simp only [if_neg h3]
      have : ctrParity st ≠ 0 := by omega
      simp only [this, iff_false]
      split
      · simp
      · split <;> simp

example : (smCmdUnwrapFmt [4, 1, 2, 3, 10, 0x8E, 8, 0, 0, 0, 0, 0, 0, 0, 0]).1 = .ok := by decide +kernel

/-- btokSMRespWrap: ERR_BAD_APDU for rdf_len > 65536; otherwise ERR_BAD_LOGIC exactly at an odd counter -/
theorem respWrap_code (C : Cipher) (resp : Resp) (st : SmSt) :
    (smRespWrap C resp st).1 =
      if resp.rdf.length > 65536 then .badApdu else if ctrParity st ≠ 0 then .badLogic else .ok :=
  smRespWrap_code' C resp st

theorem respWrap_badLogic_iff (C : Cipher) (resp : Resp) (st : SmSt) (h : st.ctr.length = 16) :
    (smRespWrap C resp st).1 = .badLogic ↔ resp.rdf.length ≤ 65536 ∧ leNat st.ctr % 2 = 1 := by
  rw [smRespWrap_code', ← ctrParity_eq st h]
  have := ctrParity_lt st
  by_cases h1 : resp.rdf.length > 65536
  · simp only [if_pos h1, reduceCtorEq, false_iff]; omega
  · simp only [if_neg h1]
    by_cases h3 : ctrParity st ≠ 0
    · simp only [if_pos h3, true_iff]; omega
    · simp only [if_neg h3, reduceCtorEq, false_iff]; omega
example : (smRespWrap ⟨fun _ x => x, fun _ x => x⟩ ⟨0x90, 0, [7]⟩ ⟨[], [], 1 :: List.replicate 15 0⟩).1 = .badLogic := by
  decide +kernel

/-- btokSMRespUnwrap: the structure checks first; then ERR_BAD_LOGIC exactly at an odd counter; then the MAC -/
theorem respUnwrap_code (C : Cipher) (apdu : Bytes) (st : SmSt) :
    (smRespUnwrap C apdu st).1 =
      match smRespParse apdu with
      | .error e => e
      | .ok p =>
        if ctrParity st ≠ 0 then .badLogic
        else if mac2V C st.key1 (apdu.take p.c1) (apdu.drop (apdu.length - 2)) ((apdu.drop p.macOff).take 8) = false then .badMac
        else match apdu.drop (apdu.length - 2) with
          | [_, _] => .ok
          | _ => .badApdu := smRespUnwrap_code' C apdu st

theorem respUnwrap_badLogic_iff (C : Cipher) (apdu : Bytes) (st : SmSt) (h : st.ctr.length = 16) :
    (smRespUnwrap C apdu st).1 = .badLogic ↔ (∃ p, smRespParse apdu = .ok p) ∧ leNat st.ctr % 2 = 1 := by
  rw [smRespUnwrap_code', ← ctrParity_eq st h]
  have := ctrParity_lt st
  cases hp : smRespParse apdu with
  | error e =>
    have := smRespParse_err hp
    simp only [reduceCtorEq, exists_false, false_and, iff_false]
    rcases this with rfl | rfl <;> simp
  | ok p =>
    simp only [Except.ok.injEq, exists_eq', true_and]
    by_cases h3 : ctrParity st ≠ 0
    · simp only [if_pos h3, true_iff]; omega
    · simp only [if_neg h3]
      have : ctrParity st ≠ 1 := by omega
      simp only [this, iff_false]
      split
      · simp
      · split <;> simp
example : (smRespUnwrapFmt [0x8E, 8, 0, 0, 0, 0, 0, 0, 0, 0, 0x90, 0]).1 = .ok := by decide +kernel

/-- a refused unwrap returns nothing -/
theorem unwrap_refused_none (C : Cipher) (apdu : Bytes) (st : SmSt) :
    ((smCmdUnwrap C apdu st).1 ≠ .ok → (smCmdUnwrap C apdu st).2 = none) ∧
    ((smRespUnwrap C apdu st).1 ≠ .ok → (smRespUnwrap C apdu st).2 = none) := by
  constructor
  · unfold smCmdUnwrap
    cases smCmdParse apdu with
    | error e => simp
    | ok p =>
      dsimp only
      split
      · simp
      · split
        · simp
        · split <;> simp
  · unfold smRespUnwrap
    cases smRespParse apdu with
    | error e => simp
    | ok p =>
      dsimp only
      split
      · simp
      · split
        · simp
        · split <;> simp

end Bee2V.C17

/-
C17 — property theorems, secure messaging (btok_sm.c).  Model: ModelSM.lean.
-/
import Bee2V.C17.LemmasSM
import Bee2V.C17.LemmasResp
import Bee2V.C17.LemmasCmd
namespace Bee2V.C17
open Bee2V.C01 (leNat Cipher)
open Bee2V.C08 (Cmd Resp)

/-- btokSMCtrInc is `+1 mod 2^128` on the little-endian counter, the keys are untouched, the length stays 16. -/
theorem smCtrInc_spec (st : SmSt) (h : st.ctr.length = 16) :
    leNat (smCtrInc st).ctr = (leNat st.ctr + 1) % 2 ^ 128 ∧ (smCtrInc st).ctr.length = 16 ∧
    (smCtrInc st).key1 = st.key1 ∧ (smCtrInc st).key2 = st.key2 := by
  obtain ⟨h1, h2⟩ := ctrIncLoop_spec st.ctr 1
  refine ⟨?_, by simp [smCtrInc, h1, h], rfl, rfl⟩
  simp only [smCtrInc, h2, h]
example : (smCtrInc ⟨[], [], List.replicate 16 255⟩).ctr = List.replicate 16 0 := by decide +kernel
example : (smCtrInc ⟨[], [], 255 :: 255 :: List.replicate 14 7⟩).ctr = 0 :: 0 :: 8 :: List.replicate 13 7 := by decide +kernel

/-- the parity the code reads from `ctr[0]` is the parity of the whole 128-bit counter; an increment flips it -/
theorem ctrParity_spec (st : SmSt) (h : st.ctr.length = 16) :
    ctrParity st = leNat st.ctr % 2 ∧ ctrParity (smCtrInc st) = 1 - ctrParity st := by
  obtain ⟨h1, h2, _, _⟩ := smCtrInc_spec st h
  have e2 := ctrParity_eq (smCtrInc st) h2
  have e1 := ctrParity_eq st h
  refine ⟨e1, ?_⟩
  rw [e2, h1, e1]
  omega
example : ctrParity ⟨[], [], List.replicate 16 255⟩ = 1 ∧ ctrParity (smCtrInc ⟨[], [], List.replicate 16 255⟩) = 0 := by
  decide +kernel

/-! ### exact result code / refusal condition of each of the four calls -/

/-- btokSMCmdWrap (state given, output buffer given): ERR_BAD_APDU for an invalid or already protected command and
for a protected data field that does not fit Lc* (fix-1); otherwise ERR_BAD_LOGIC exactly at an even counter. -/
theorem cmdWrap_code (C : Cipher) (cmd : Cmd) (st : SmSt) :
    (smCmdWrap C cmd st).1 =
      if Bee2V.C08.apduCmdIsValid cmd = false ∨ smBit cmd.cla = true then .badApdu
      else if cdfStarLen cmd > 65535 then .badApdu
      else if ctrParity st ≠ 1 then .badLogic else .ok := smCmdWrap_code' C cmd st

theorem cmdWrap_badLogic_iff (C : Cipher) (cmd : Cmd) (st : SmSt) (h : st.ctr.length = 16) :
    (smCmdWrap C cmd st).1 = .badLogic ↔
      Bee2V.C08.apduCmdIsValid cmd = true ∧ smBit cmd.cla = false ∧ cdfStarLen cmd ≤ 65535 ∧ leNat st.ctr % 2 = 0 := by
  rw [smCmdWrap_code', ← ctrParity_eq st h]
  have := ctrParity_lt st
  cases Bee2V.C08.apduCmdIsValid cmd <;> cases smBit cmd.cla <;> simp <;>
    (by_cases h2 : 65535 < cdfStarLen cmd <;> simp [h2] <;> omega)
example : (smCmdWrap ⟨fun _ x => x, fun _ x => x⟩ ⟨0, 1, 2, 3, [7], 0⟩ ⟨[], [], List.replicate 16 0⟩).1 = .badLogic := by
  decide +kernel

/-- a refused wrap returns no octets -/
theorem cmdWrap_refused_empty (C : Cipher) (cmd : Cmd) (st : SmSt) (h : (smCmdWrap C cmd st).1 ≠ .ok) :
    (smCmdWrap C cmd st).2 = [] := by
  unfold smCmdWrap at h ⊢
  cases hp : smCmdWrapPre cmd with
  | some e => simp [hp]
  | none =>
    simp only [hp] at h ⊢
    by_cases h3 : ctrParity st ≠ Bee2V.Gen.C17Src.parCmdWrap
    · simp [h3]
    · simp [h3] at h

/-- btokSMCmdUnwrap: the structure checks first; then ERR_BAD_LOGIC exactly at an even counter; then the MAC -/
theorem cmdUnwrap_code (C : Cipher) (apdu : Bytes) (st : SmSt) :
    (smCmdUnwrap C apdu st).1 =
      match smCmdParse apdu with
      | .error e => e
      | .ok p =>
        if ctrParity st ≠ 1 then .badLogic
        else if mac2V C st.key1 (apdu.take 4) ((apdu.drop (4 + p.lcLen)).take (p.c1 + p.c2)) ((apdu.drop p.macOff).take 8) = false
          then .badMac
        else match apdu.take 4 with
          | [_, _, _, _] => .ok
          | _ => .badApdu := smCmdUnwrap_code' C apdu st

theorem cmdUnwrap_badLogic_iff (C : Cipher) (apdu : Bytes) (st : SmSt) (h : st.ctr.length = 16) :
    (smCmdUnwrap C apdu st).1 = .badLogic ↔ (∃ p, smCmdParse apdu = .ok p) ∧ leNat st.ctr % 2 = 0 := by
  rw [smCmdUnwrap_code', ← ctrParity_eq st h]
  have := ctrParity_lt st
  cases hp : smCmdParse apdu with
  | error e =>
    have := smCmdParse_err hp
    simp only [reduceCtorEq, exists_false, false_and, iff_false]
    rcases this with rfl | rfl <;> simp
  | ok p =>
    simp only [Except.ok.injEq, exists_eq', true_and]
    by_cases h3 : ctrParity st ≠ 1
    · simp only [if_pos h3, true_iff]; omega
    · simp only [if_neg h3]
      have : ctrParity st ≠ 0 := by omega
      simp only [this, iff_false]
      split
      · simp
      · split <;> simp

example : (smCmdUnwrapFmt [4, 1, 2, 3, 10, 0x8E, 8, 0, 0, 0, 0, 0, 0, 0, 0]).1 = .ok := by decide +kernel

/-- btokSMRespWrap: ERR_BAD_APDU for rdf_len > 65536; otherwise ERR_BAD_LOGIC exactly at an odd counter -/
theorem respWrap_code (C : Cipher) (resp : Resp) (st : SmSt) :
    (smRespWrap C resp st).1 =
      if resp.rdf.length > 65536 then .badApdu else if ctrParity st ≠ 0 then .badLogic else .ok :=
  smRespWrap_code' C resp st

theorem respWrap_badLogic_iff (C : Cipher) (resp : Resp) (st : SmSt) (h : st.ctr.length = 16) :
    (smRespWrap C resp st).1 = .badLogic ↔ resp.rdf.length ≤ 65536 ∧ leNat st.ctr % 2 = 1 := by
  rw [smRespWrap_code', ← ctrParity_eq st h]
  have := ctrParity_lt st
  by_cases h1 : resp.rdf.length > 65536
  · simp only [if_pos h1, reduceCtorEq, false_iff]; omega
  · simp only [if_neg h1]
    by_cases h3 : ctrParity st ≠ 0
    · simp only [if_pos h3, true_iff]; omega
    · simp only [if_neg h3, reduceCtorEq, false_iff]; omega
example : (smRespWrap ⟨fun _ x => x, fun _ x => x⟩ ⟨0x90, 0, [7]⟩ ⟨[], [], 1 :: List.replicate 15 0⟩).1 = .badLogic := by
  decide +kernel

/-- btokSMRespUnwrap: the structure checks first; then ERR_BAD_LOGIC exactly at an odd counter; then the MAC -/
theorem respUnwrap_code (C : Cipher) (apdu : Bytes) (st : SmSt) :
    (smRespUnwrap C apdu st).1 =
      match smRespParse apdu with
      | .error e => e
      | .ok p =>
        if ctrParity st ≠ 0 then .badLogic
        else if mac2V C st.key1 (apdu.take p.c1) (apdu.drop (apdu.length - 2)) ((apdu.drop p.macOff).take 8) = false then .badMac
        else match apdu.drop (apdu.length - 2) with
          | [_, _] => .ok
          | _ => .badApdu := smRespUnwrap_code' C apdu st

theorem respUnwrap_badLogic_iff (C : Cipher) (apdu : Bytes) (st : SmSt) (h : st.ctr.length = 16) :
    (smRespUnwrap C apdu st).1 = .badLogic ↔ (∃ p, smRespParse apdu = .ok p) ∧ leNat st.ctr % 2 = 1 := by
  rw [smRespUnwrap_code', ← ctrParity_eq st h]
  have := ctrParity_lt st
  cases hp : smRespParse apdu with
  | error e =>
    have := smRespParse_err hp
    simp only [reduceCtorEq, exists_false, false_and, iff_false]
    rcases this with rfl | rfl <;> simp
  | ok p =>
    simp only [Except.ok.injEq, exists_eq', true_and]
    by_cases h3 : ctrParity st ≠ 0
    · simp only [if_pos h3, true_iff]; omega
    · simp only [if_neg h3]
      have : ctrParity st ≠ 1 := by omega
      simp only [this, iff_false]
      split
      · simp
      · split <;> simp
example : (smRespUnwrapFmt [0x8E, 8, 0, 0, 0, 0, 0, 0, 0, 0, 0x90, 0]).1 = .ok := by decide +kernel

/-- a refused unwrap returns nothing -/
theorem unwrap_refused_none (C : Cipher) (apdu : Bytes) (st : SmSt) :
    ((smCmdUnwrap C apdu st).1 ≠ .ok → (smCmdUnwrap C apdu st).2 = none) ∧
    ((smRespUnwrap C apdu st).1 ≠ .ok → (smRespUnwrap C apdu st).2 = none) := by
  constructor
  · unfold smCmdUnwrap
    cases smCmdParse apdu with
    | error e => simp
    | ok p =>
      dsimp only
      split
      · simp
      · split
        · simp
        · split <;> simp
  · unfold smRespUnwrap
    cases smRespParse apdu with
    | error e => simp
    | ok p =>
      dsimp only
      split
      · simp
      · split
        · simp
        · split <;> simp

/-! ### round trips -/

/-- RESPONSES: every response btokSMRespWrap accepts (rdf_len 0..65536, even counter) is recovered unchanged by
btokSMRespUnwrap of a peer with the same keys and counter; the format-only call announces the right size; the
length probe of Wrap announces the real length.  For every cipher with 16-octet blocks (belt: C01). -/
theorem resp_roundtrip (C : Cipher) (hC : CipherOK C) (resp : Resp) (st : SmSt) (hctr : st.ctr.length = 16)
    (apdu : Bytes) (h : smRespWrap C resp st = (.ok, apdu)) :
    smRespUnwrap C apdu st = (.ok, some resp) ∧ smRespUnwrapFmt apdu = (.ok, resp.rdf.length) ∧
    (smRespWrapLen resp) = (.ok, apdu.length) := by
  have hc := smRespWrap_code' C resp st
  rw [h] at hc
  have hv : resp.rdf.length ≤ 65536 := by
    by_cases h1 : resp.rdf.length > 65536
    · rw [if_pos h1] at hc; cases hc
    · omega
  have hpar : ctrParity st = 0 := by
    have : ¬ resp.rdf.length > 65536 := by omega
    rw [if_neg this] at hc
    by_cases h3 : ctrParity st ≠ 0
    · rw [if_pos h3] at hc; cases hc
    · simpa using h3
  have hval : apduRespIsValid resp = true := by simp [apduRespIsValid, respRdfMax_eq, hv]
  have hap : apdu = f87 C st resp.rdf ++ [0x8E, 8] ++ mac3 C st.key1 (f87 C st resp.rdf) [resp.sw1] [resp.sw2] ++
      [resp.sw1, resp.sw2] := by
    unfold smRespWrap at h
    simp only [hval, parRespWrap_eq, hpar, Bool.not_true, Bool.false_eq_true, if_false, ne_eq, not_true_eq_false,
      Prod.mk.injEq, true_and] at h
    rw [← h, tl_8E_8]
  obtain ⟨h1, h2, h3⟩ := resp_roundtrip_core C hC resp.sw1 resp.sw2 resp.rdf st hctr hv hpar
  rw [← hap] at h1 h2 h3
  refine ⟨h1, h2, ?_⟩
  unfold smRespWrapLen
  simp only [hval, Bool.not_true, Bool.false_eq_true, if_false, h3, Prod.mk.injEq, true_and, tl_8E_8]
  unfold f87
  by_cases hn : resp.rdf.length = 0
  · simp [hn]
  · have := (sm_cfb C hC st hctr resp.rdf).2
    simp [hn, this]; omega
example : (smRespWrap ⟨fun _ x => x, fun _ x => x⟩ ⟨0x90, 0, [1, 2, 3]⟩ ⟨[], [], List.replicate 16 0⟩).1 = .ok ∧
    (smRespWrap ⟨fun _ x => x, fun _ x => x⟩ ⟨0x90, 0, [1, 2, 3]⟩ ⟨[], [], List.replicate 16 0⟩).2.length = 18 := by
  decide +kernel

/-- COMMANDS: every command btokSMCmdWrap accepts for protection — every Lc/Le form, data length 0..65535 as
long as the protected field fits the two-octet Lc* (fix-1), odd counter — is recovered unchanged by btokSMCmdUnwrap of
a peer with the same keys and counter; the format-only call announces the right size and the length probe of Wrap
the real length.  For every cipher with 16-octet blocks (belt: C01). -/
theorem cmd_roundtrip (C : Cipher) (hC : CipherOK C) (cmd : Cmd) (st : SmSt) (hctr : st.ctr.length = 16)
    (apdu : Bytes) (h : smCmdWrap C cmd st = (.ok, apdu)) :
    smCmdUnwrap C apdu st = (.ok, some cmd) ∧ smCmdUnwrapFmt apdu = (.ok, cmd.cdf.length) ∧
    smCmdWrapLen cmd = (.ok, apdu.length) := by
  have hc := smCmdWrap_code' C cmd st
  rw [h] at hc
  by_cases h1 : Bee2V.C08.apduCmdIsValid cmd = false ∨ smBit cmd.cla = true
  · rw [if_pos h1] at hc; cases hc
  rw [if_neg h1] at hc
  by_cases h2 : cdfStarLen cmd > 65535
  · rw [if_pos h2] at hc; cases hc
  rw [if_neg h2] at hc
  by_cases h3 : ctrParity st ≠ 1
  · rw [if_pos h3] at hc; cases hc
  have hpar : ctrParity st = 1 := by simpa using h3
  have hvalid : Bee2V.C08.apduCmdIsValid cmd = true := by
    cases hv : Bee2V.C08.apduCmdIsValid cmd
    · exact absurd (Or.inl hv) h1
    · rfl
  have hbit : smBit cmd.cla = false := by
    cases hb : smBit cmd.cla
    · rfl
    · exact absurd (Or.inr hb) h1
  have hv2 : cmd.cdf.length < 65536 ∧ cmd.rdf_len ≤ 65536 := by
    simpa [Bee2V.C08.apduCmdIsValid] using hvalid
  have hpre : smCmdWrapPre cmd = none := by
    rw [smCmdWrapPre_eq, if_neg h1, if_neg h2]
  have hap : apdu = [setSmBit cmd.cla, cmd.ins, cmd.p1, cmd.p2] ++
      (if (starLens cmd).1 = 1 then [oct (cdfStarLen cmd)] else [0, oct (cdfStarLen cmd / 256), oct (cdfStarLen cmd)]) ++
      (f87 C st cmd.cdf ++ f97 cmd) ++ [0x8E, 8] ++
      mac2 C st.key1 [setSmBit cmd.cla, cmd.ins, cmd.p1, cmd.p2] (f87 C st cmd.cdf ++ f97 cmd) ++ zeros (starLens cmd).2 := by
    unfold smCmdWrap at h
    rw [hpre] at h
    simp only [parCmdWrap_eq, hpar, ne_eq, not_true_eq_false, if_false, Prod.mk.injEq, true_and] at h
    rw [← h, tl_8E_8]
  obtain ⟨r1, r2, r3⟩ := cmd_roundtrip_core C hC cmd st hctr hv2.1 hv2.2 hbit (by omega) hpar _ rfl _ rfl apdu hap
  refine ⟨r1, r2, ?_⟩
  unfold smCmdWrapLen
  rw [hpre, r3]
example : (smCmdWrap ⟨fun _ x => x, fun _ x => x⟩ ⟨0, 0xA4, 4, 12, [1, 2, 3], 256⟩ ⟨[], [], 1 :: List.replicate 15 0⟩).1 = .ok ∧
    (smCmdWrap ⟨fun _ x => x, fun _ x => x⟩ ⟨0, 0xA4, 4, 12, [1, 2, 3], 256⟩ ⟨[], [], 1 :: List.replicate 15 0⟩).2.length = 25 := by
  decide +kernel

/-- which commands are accepted for protection: exactly the valid unprotected ones whose protected data field
fits Lc*, at an odd counter -/
theorem cmdWrap_ok_iff (C : Cipher) (cmd : Cmd) (st : SmSt) :
    (smCmdWrap C cmd st).1 = .ok ↔
      Bee2V.C08.apduCmdIsValid cmd = true ∧ smBit cmd.cla = false ∧ cdfStarLen cmd ≤ 65535 ∧ ctrParity st = 1 := by
  rw [smCmdWrap_code']
  have := ctrParity_lt st
  cases Bee2V.C08.apduCmdIsValid cmd <;> cases smBit cmd.cla <;> simp <;>
    (by_cases h2 : 65535 < cdfStarLen cmd <;> simp [h2] <;> omega)

/-- the protected data field is at most 19 octets longer than the data: every command with at most 65516 data
octets fits (65520 when no response data is expected); longer ones are refused (fix-1) -/
theorem cdfStarLen_le (cmd : Cmd) (h : cmd.cdf.length ≤ 65516) : cdfStarLen cmd ≤ 65535 := by
  unfold cdfStarLen
  rw [tl_8E_8]
  have h3 := rdfLenLen_le cmd
  have h87 : cmd.cdf.length ≠ 0 → (tl 0x87 (cmd.cdf.length + 1)).length ≤ 4 := by
    intro _
    rw [tl_87]; simp only [List.length_cons, Bee2V.C08.derLEnc_length]
    split
    · omega
    · have : Bee2V.C08.octLen (cmd.cdf.length + 1) ≤ 2 := by
        by_cases hs : cmd.cdf.length + 1 < 256
        · rw [Bee2V.C08.octLen_small (by omega) hs]; omega
        · rw [Bee2V.C08.octLen_r2 (by omega) (by omega)]; exact Nat.le_refl _
      omega
  have h2 : cmd.cdf.length ≠ 0 → rdfLenLen cmd ≤ 2 := by
    intro hn; unfold rdfLenLen
    split
    · omega
    · split
      · omega
      · exact Nat.le_refl _
  by_cases hn : cmd.cdf.length ≠ 0 <;> by_cases hr : cmd.rdf_len ≠ 0
  · rw [if_pos hn, if_pos hr, tl97_len _ (by omega)]; have := h87 hn; have := h2 hn
    simp only [List.length_cons, List.length_nil]; omega
  · rw [if_pos hn, if_neg hr]; have := h87 hn; simp only [List.length_cons, List.length_nil]; omega
  · rw [if_neg hn, if_pos hr, tl97_len _ (by omega)]; simp only [List.length_cons, List.length_nil]; omega
  · rw [if_neg hn, if_neg hr]; simp only [List.length_cons, List.length_nil]; omega

/-! ### Unwrap accepts ⇔ well-formed ∧ in-parity ∧ the tag is the belt-mac of the RECEIVED protected octets -/

/-- btokSMCmdUnwrap returns ERR_OK exactly when the structure parses, the counter is odd and the 8 tag octets equal
belt-mac(key1, header ‖ protected fields) computed over the octets received.  (The counter is not under the MAC:
replay / reordering detection is NOT claimed.) -/
theorem cmdUnwrap_ok_iff (C : Cipher) (apdu : Bytes) (st : SmSt) :
    (smCmdUnwrap C apdu st).1 = .ok ↔
      ∃ p, smCmdParse apdu = .ok p ∧ ctrParity st = 1 ∧
        (apdu.drop p.macOff).take 8 =
          (mac2 C st.key1 (apdu.take 4) ((apdu.drop (4 + p.lcLen)).take (p.c1 + p.c2))).take ((apdu.drop p.macOff).take 8).length := by
  rw [smCmdUnwrap_code']
  cases hp : smCmdParse apdu with
  | error e =>
    have := smCmdParse_err hp
    simp only [reduceCtorEq, false_and, exists_false, iff_false]
    rcases this with rfl | rfl <;> simp
  | ok p =>
    obtain ⟨a, b, c, d, h4⟩ := take4_of_len (by have := smCmdParse_ok_len hp; omega : 4 ≤ apdu.length)
    have hle : ((apdu.drop p.macOff).take 8).length ≤ 8 := by simp only [List.length_take]; omega
    have hiff := mac2V_iff C st.key1 (apdu.take 4) ((apdu.drop (4 + p.lcLen)).take (p.c1 + p.c2)) _ hle
    simp only [Except.ok.injEq, exists_eq_left']
    by_cases h3 : ctrParity st ≠ 1
    · rw [if_pos h3]
      exact ⟨fun h => (by cases h), fun h => absurd h.1 h3⟩
    · have h3' : ctrParity st = 1 := by simpa using h3
      rw [if_neg h3]
      cases hm : mac2V C st.key1 (apdu.take 4) ((apdu.drop (4 + p.lcLen)).take (p.c1 + p.c2)) ((apdu.drop p.macOff).take 8) with
      | false =>
        rw [if_pos rfl]
        refine ⟨fun h => (by cases h), fun h => ?_⟩
        have := hiff.mpr h.2
        rw [hm] at this; cases this
      | true =>
        rw [if_neg (by simp)]
        refine ⟨fun _ => ⟨h3', hiff.mp hm⟩, fun _ => ?_⟩
        rw [h4]

/-- ALTERATION ⇒ MAC forgery, with the witness explicit: if two protected commands are both accepted under the same
state, carry the same 8-octet tag and differ in a MAC-covered octet (header or protected fields), then belt-mac
collides on two different inputs under key1. -/
theorem cmd_altered_collision (C : Cipher) (apdu apdu' : Bytes) (st : SmSt) (p p' : CmdParse)
    (hp : smCmdParse apdu = .ok p) (hp' : smCmdParse apdu' = .ok p')
    (hok : (smCmdUnwrap C apdu st).1 = .ok) (hok' : (smCmdUnwrap C apdu' st).1 = .ok)
    (htag : (apdu.drop p.macOff).take 8 = (apdu'.drop p'.macOff).take 8)
    (hlen : ((apdu.drop p.macOff).take 8).length = 8) :
    mac2 C st.key1 (apdu.take 4) ((apdu.drop (4 + p.lcLen)).take (p.c1 + p.c2)) =
      mac2 C st.key1 (apdu'.take 4) ((apdu'.drop (4 + p'.lcLen)).take (p'.c1 + p'.c2)) := by
  obtain ⟨q, hq, _, h1⟩ := (cmdUnwrap_ok_iff C apdu st).mp hok
  obtain ⟨q', hq', _, h1'⟩ := (cmdUnwrap_ok_iff C apdu' st).mp hok'
  rw [hp] at hq; cases hq
  rw [hp'] at hq'; cases hq'
  have hlen' : ((apdu'.drop p'.macOff).take 8).length = 8 := by rw [← htag]; exact hlen
  rw [hlen, mac2_take8] at h1
  rw [hlen', mac2_take8] at h1'
  rw [← h1, ← h1', htag]

/-- the same for responses: ERR_OK ⇔ structure ∧ even counter ∧ tag = belt-mac(key1, received RDF-field ‖ SW1 SW2) -/
theorem respUnwrap_ok_iff (C : Cipher) (apdu : Bytes) (st : SmSt) :
    (smRespUnwrap C apdu st).1 = .ok ↔
      ∃ p, smRespParse apdu = .ok p ∧ ctrParity st = 0 ∧
        (apdu.drop p.macOff).take 8 =
          (mac2 C st.key1 (apdu.take p.c1) (apdu.drop (apdu.length - 2))).take ((apdu.drop p.macOff).take 8).length := by
  rw [smRespUnwrap_code']
  cases hp : smRespParse apdu with
  | error e =>
    have := smRespParse_err hp
    simp only [reduceCtorEq, false_and, exists_false, iff_false]
    rcases this with rfl | rfl <;> simp
  | ok p =>
    obtain ⟨a, b, h2⟩ := last2_of_len (by have := smRespParse_ok_len hp; omega : 2 ≤ apdu.length)
    have hle : ((apdu.drop p.macOff).take 8).length ≤ 8 := by simp only [List.length_take]; omega
    have hiff := mac2V_iff C st.key1 (apdu.take p.c1) (apdu.drop (apdu.length - 2)) _ hle
    simp only [Except.ok.injEq, exists_eq_left']
    by_cases h3 : ctrParity st ≠ 0
    · rw [if_pos h3]
      exact ⟨fun h => (by cases h), fun h => absurd h.1 h3⟩
    · have h3' : ctrParity st = 0 := by simpa using h3
      rw [if_neg h3]
      cases hm : mac2V C st.key1 (apdu.take p.c1) (apdu.drop (apdu.length - 2)) ((apdu.drop p.macOff).take 8) with
      | false =>
        rw [if_pos rfl]
        refine ⟨fun h => (by cases h), fun h => ?_⟩
        have := hiff.mpr h.2
        rw [hm] at this; cases this
      | true =>
        rw [if_neg (by simp)]
        refine ⟨fun _ => ⟨h3', hiff.mp hm⟩, fun _ => ?_⟩
        rw [h2]

/-- the original Le inside the 0x97 object is big-endian in each of its three forms (values whose octets differ) -/
example : f97 ⟨0, 0xA4, 4, 12, [], 300⟩ = [0x97, 3, 0, 0x01, 0x2C] ∧ f97 ⟨0, 0xA4, 4, 12, [9], 0x1234⟩ = [0x97, 2, 0x12, 0x34] ∧
    f97 ⟨0, 0xA4, 4, 12, [9], 200⟩ = [0x97, 1, 200] ∧ f97 ⟨0, 0xA4, 4, 12, [], 65536⟩ = [0x97, 3, 0, 0, 0] ∧
    (smCmdUnwrap ⟨fun _ x => x, fun _ x => x⟩
      (smCmdWrap ⟨fun _ x => x, fun _ x => x⟩ ⟨0, 0xA4, 4, 12, [], 0xFF00⟩ ⟨[], [], 1 :: List.replicate 15 0⟩).2
      ⟨[], [], 1 :: List.replicate 15 0⟩).2.map (fun c => c.rdf_len) = some 0xFF00 := by decide +kernel

/-! ### non-vacuity of the hypotheses -/

/-- belt itself satisfies `CipherOK` (C01 `length_blockEncr`), and so does the identity cipher used in the examples -/
example : CipherOK Bee2V.C01.beltCipher := fun k x h => Bee2V.C01.length_blockEncr k x h
example : CipherOK ⟨fun _ x => x, fun _ x => x⟩ := fun _ _ h => h
/-- a complete exchange evaluated on the model: wrap at counter 1, unwrap at counter 1 gives the command back, unwrap at
counter 2 is refused with ERR_BAD_LOGIC, one altered octet is refused with ERR_BAD_MAC -/
example :
    (smCmdUnwrap ⟨fun _ x => x, fun _ x => x⟩ (smCmdWrap ⟨fun _ x => x, fun _ x => x⟩ ⟨0, 0xA4, 4, 12, [1, 2, 3], 256⟩ ⟨[], [], 1 :: List.replicate 15 0⟩).2 ⟨[], [], 1 :: List.replicate 15 0⟩).1 = .ok ∧
    (smCmdUnwrap ⟨fun _ x => x, fun _ x => x⟩ (smCmdWrap ⟨fun _ x => x, fun _ x => x⟩ ⟨0, 0xA4, 4, 12, [1, 2, 3], 256⟩ ⟨[], [], 1 :: List.replicate 15 0⟩).2 ⟨[], [], 1 :: List.replicate 15 0⟩).2.map
      (fun c => (c.cdf, c.rdf_len, c.cla.toNat)) = some ([1, 2, 3], 256, 0) ∧
    (smCmdUnwrap ⟨fun _ x => x, fun _ x => x⟩ (smCmdWrap ⟨fun _ x => x, fun _ x => x⟩ ⟨0, 0xA4, 4, 12, [1, 2, 3], 256⟩ ⟨[], [], 1 :: List.replicate 15 0⟩).2 ⟨[], [], 2 :: List.replicate 15 0⟩).1 = .badLogic ∧
    (smCmdUnwrap ⟨fun _ x => x, fun _ x => x⟩ ((smCmdWrap ⟨fun _ x => x, fun _ x => x⟩ ⟨0, 0xA4, 4, 12, [1, 2, 3], 256⟩ ⟨[], [], 1 :: List.replicate 15 0⟩).2.set 8 0x55) ⟨[], [], 1 :: List.replicate 15 0⟩).1 = .badMac := by
  decide +kernel

end Bee2V.C17

/-
C17 — lemmas for the container theorems (PropsBpki.lean).  No Mathlib.
-/
import Bee2V.C17.ModelBpki
import Bee2V.C17.Laws
import Bee2V.C01.PropsWbl
import Bee2V.C08.ContRT
namespace Bee2V.C17
open Bee2V.C01 (Cipher)
open Bee2V.Gen.C17Src

theorem iterMin_eq : iterMin = 10000 := by decide

/-- Unwrap ∘ Wrap relative to the two DER codec round trips (supplied by C08 `ContRT` in PropsBpki) -/
theorem pki_roundtrip_of_codec (C : Cipher) (hC : CipherOK C) (kind : PkiKind) (payload pwd salt epki : Bytes) (iter : Nat)
    (hcodec1 : ∀ pki, pkiEnc kind payload = .ok pki → pkiDec kind pki = .ok (payload, pki.length) ∧ pki.length ≤ 200)
    (hcodec2 : ∀ edata e, edata.length < 4294967296 → Bee2V.C08.bpkiEdataEnc edata salt iter = .ok e →
      edataOpen e = .ok (edata, salt, iter))
    (h : pkiWrap C kind payload pwd salt iter = (.ok, epki)) :
    pkiUnwrap C kind epki pwd = (.ok, some payload) := by
  unfold pkiWrap at h
  dsimp only at h
  by_cases hi : iter < Bee2V.Gen.C17Src.iterMin
  · rw [if_pos hi] at h; cases h
  · rw [if_neg hi] at h
    by_cases hpc : payloadCheck kind payload ≠ .ok
    · rw [if_pos hpc] at h
      have := (Prod.mk.inj h).1
      exact absurd this hpc
    · rw [if_neg hpc] at h
      have hpc' : payloadCheck kind payload = .ok := by simpa using hpc
      cases he : pkiEnc kind payload with
      | err => rw [he] at h; cases h
      | oob => rw [he] at h; cases h
      | ok pki =>
        rw [he] at h; dsimp only at h
        unfold epkiSeal at h
        obtain ⟨e, o, hk⟩ : ∃ e o, Bee2V.C01.pbkdf2 C pwd iter salt = (e, o) := ⟨_, _, rfl⟩
        rw [hk] at h
        cases o with
        | none =>
          cases e <;> try (cases h)
          unfold Bee2V.C01.pbkdf2 at hk
          split at hk <;> cases hk
        | some key =>
          cases e <;> try (cases h)
          dsimp only at h
          obtain ⟨e2, o2, hw⟩ : ∃ e o, Bee2V.C01.kwpWrap C pki none key = (e, o) := ⟨_, _, rfl⟩
          rw [hw] at h
          cases o2 with
          | none =>
            cases e2 <;> try (cases h)
            unfold Bee2V.C01.kwpWrap at hw
            split at hw <;> cases hw
          | some edata =>
            cases e2 <;> try (cases h)
            dsimp only at h
            cases hee : Bee2V.C08.bpkiEdataEnc edata salt iter with
            | err => rw [hee] at h; cases h
            | oob => rw [hee] at h; cases h
            | ok e3 =>
              rw [hee] at h; cases h
              -- the KWP facts: wrap succeeded, so the key length is admissible and the payload code has ≥ 16 octets
              have hkw : ¬ (pki.length < 16 ∨ Bee2V.C01.validKeyLen key.length = false) := by
                intro hb
                have := (Bee2V.C01.kwpWrap_badInput_iff C pki none key).mpr hb
                rw [hw] at this; cases this
              have hk16 : 16 ≤ pki.length := by
                have := not_or.mp hkw; omega
              have hkv : Bee2V.C01.validKeyLen key.length = true := by
                cases hv : Bee2V.C01.validKeyLen key.length
                · exact absurd (Or.inr hv) hkw
                · rfl
              obtain ⟨tok, ht1, htl, ht2⟩ := Bee2V.C01.kwpUnwrap_kwpWrap C hC pki none key hk16 hkv (by intro h hh; cases hh)
              rw [hw] at ht1
              have htok : tok = edata := by cases ht1; rfl
              subst htok
              unfold pkiUnwrap
              have hp200 := (hcodec1 pki he).2
              rw [hcodec2 _ _ (by omega) hee]; dsimp only
              rw [hk]; dsimp only
              rw [ht2]; dsimp only
              rw [(hcodec1 pki he).1]; dsimp only
              rw [if_neg (by simp)]
              -- the first-octet rule of shares was already enforced by Wrap
              have hsh : ¬ (kind = .share ∧ ((payload.headD 0).toNat = 0 ∨ (payload.headD 0).toNat > 16)) := by
                rintro ⟨hkd, hb⟩
                subst hkd
                simp only [payloadCheck] at hpc'
                by_cases hb' : (payload.length ≠ 17 ∧ payload.length ≠ 25 ∧ payload.length ≠ 33) ∨
                    (payload.headD 0).toNat = 0 ∨ (payload.headD 0).toNat > 16
                · rw [if_pos hb'] at hpc'; cases hpc'
                · exact hb' (Or.inr hb)
              rw [if_neg hsh]


/-! ### the announced length (sizing pass) equals the written length, for every iteration count -/

/-- what a successful Wrap has done -/
theorem pkiWrap_inv (C : Cipher) (hC : CipherOK C) (kind : PkiKind) (payload pwd salt epki : Bytes) (iter : Nat)
    (h : pkiWrap C kind payload pwd salt iter = (.ok, epki)) :
    ¬ iter < Bee2V.Gen.C17Src.iterMin ∧ payloadCheck kind payload = .ok ∧
    ∃ pki key edata, pkiEnc kind payload = .ok pki ∧ Bee2V.C01.pbkdf2 C pwd iter salt = (.ok, some key) ∧
      Bee2V.C01.kwpWrap C pki none key = (.ok, some edata) ∧ edata.length = pki.length + 16 ∧
      Bee2V.C08.bpkiEdataEnc edata salt iter = .ok epki := by
  unfold pkiWrap at h
  dsimp only at h
  by_cases hi : iter < Bee2V.Gen.C17Src.iterMin
  · rw [if_pos hi] at h; cases h
  · rw [if_neg hi] at h
    by_cases hpc : payloadCheck kind payload ≠ .ok
    · rw [if_pos hpc] at h
      exact absurd (Prod.mk.inj h).1 hpc
    · rw [if_neg hpc] at h
      have hpc' : payloadCheck kind payload = .ok := by simpa using hpc
      refine ⟨hi, hpc', ?_⟩
      cases he : pkiEnc kind payload with
      | err => rw [he] at h; cases h
      | oob => rw [he] at h; cases h
      | ok pki =>
        rw [he] at h; dsimp only at h
        unfold epkiSeal at h
        obtain ⟨e, o, hk⟩ : ∃ e o, Bee2V.C01.pbkdf2 C pwd iter salt = (e, o) := ⟨_, _, rfl⟩
        rw [hk] at h
        cases o with
        | none =>
          cases e <;> try (cases h)
          unfold Bee2V.C01.pbkdf2 at hk
          split at hk <;> cases hk
        | some key =>
          cases e <;> try (cases h)
          dsimp only at h
          obtain ⟨e2, o2, hw⟩ : ∃ e o, Bee2V.C01.kwpWrap C pki none key = (e, o) := ⟨_, _, rfl⟩
          rw [hw] at h
          cases o2 with
          | none =>
            cases e2 <;> try (cases h)
            unfold Bee2V.C01.kwpWrap at hw
            split at hw <;> cases hw
          | some edata =>
            cases e2 <;> try (cases h)
            dsimp only at h
            cases hee : Bee2V.C08.bpkiEdataEnc edata salt iter with
            | err => rw [hee] at h; cases h
            | oob => rw [hee] at h; cases h
            | ok e3 =>
              rw [hee] at h; cases h
              have hkw : ¬ (pki.length < 16 ∨ Bee2V.C01.validKeyLen key.length = false) := by
                intro hb
                have := (Bee2V.C01.kwpWrap_badInput_iff C pki none key).mpr hb
                rw [hw] at this; cases this
              have hk16 : 16 ≤ pki.length := by
                have := not_or.mp hkw; omega
              have hkv : Bee2V.C01.validKeyLen key.length = true := by
                cases hv : Bee2V.C01.validKeyLen key.length
                · exact absurd (Or.inr hv) hkw
                · rfl
              obtain ⟨tok, ht1, htl, _⟩ := Bee2V.C01.kwpUnwrap_kwpWrap C hC pki none key hk16 hkv (by intro h hh; cases hh)
              rw [hw] at ht1
              have htok : tok = edata := by cases ht1; rfl
              subst htok
              exact ⟨pki, key, tok, rfl, hk, hw, htl, hee⟩

open Bee2V.C08 (Tree tCount derLEnc tlvCode edataTree) in
mutual
/-- length of the DER code of a tree, from the lengths of its leaves -/
def clen : Tree → Nat
  | .prim b => b.length
  | .seq _ tag kids => tCount tag + (derLEnc (clenL kids)).length + clenL kids
def clenL : List Tree → Nat
  | [] => 0
  | t :: ts => clen t + clenL ts
end

open Bee2V.C08 (Tree) in
mutual
theorem code_len (t : Tree) : t.code.length = clen t := by
  match t with
  | .prim b => simp only [Tree.code, clen]
  | .seq s tag kids =>
    simp only [Tree.code, clen, List.length_append, Bee2V.C08.beBytes_length, codeL_len kids]
theorem codeL_len (ts : List Tree) : (Tree.codeL ts).length = clenL ts := by
  match ts with
  | [] => simp only [Tree.codeL, clenL, List.length_nil]
  | t :: ts => simp only [Tree.codeL, clenL, List.length_append, code_len t, codeL_len ts]
end

theorem tlvCode_len (tag : Nat) (v : Bytes) :
    (Bee2V.C08.tlvCode tag v).length = Bee2V.C08.tCount tag + (Bee2V.C08.derLEnc v.length).length + v.length := by
  simp only [Bee2V.C08.tlvCode, List.length_append, Bee2V.C08.beBytes_length]

/-- the length of an EncryptedPrivateKeyInfo depends only on the SIZES of edata and salt, and on iter -/
theorem edata_code_len_congr (e e' s s' : Bytes) (iter : Nat) (he : e.length = e'.length) (hs : s.length = s'.length) :
    (Bee2V.C08.Tree.codeL [Bee2V.C08.edataTree e s iter]).length =
      (Bee2V.C08.Tree.codeL [Bee2V.C08.edataTree e' s' iter]).length := by
  rw [codeL_len, codeL_len]
  simp only [Bee2V.C08.edataTree, clenL, clen, tlvCode_len, he, hs]

/-- ANNOUNCED = WRITTEN, for every iteration count: the length the sizing pass of Wrap announces (a function of the
payload size and of `iter` through the DER INTEGER iterCount) is the length of the container Wrap writes. -/
theorem pkiWrap_len' (C : Cipher) (hC : CipherOK C) (kind : PkiKind) (payload pwd salt epki : Bytes) (iter : Nat)
    (hsalt : salt.length = 8) (hiter : iter < 18446744073709551616)
    (hpl : ∀ pki, pkiEnc kind payload = .ok pki → pki.length ≤ 200)
    (h : pkiWrap C kind payload pwd salt iter = (.ok, epki)) :
    pkiWrapLen kind payload iter = (.ok, epki.length) := by
  obtain ⟨hi, hpc, pki, key, edata, he, _, _, hel, hee⟩ := pkiWrap_inv C hC kind payload pwd salt epki iter h
  have hp := hpl pki he
  have h1 := Bee2V.C08.edata_enc edata salt iter hsalt hiter (by omega)
  rw [hee] at h1
  have hz : (zeros (pki.length + 16)).length = pki.length + 16 := by simp [zeros, Bee2V.C01.zeros]
  have hz8 : (zeros 8).length = 8 := by simp [zeros, Bee2V.C01.zeros]
  have h2 := Bee2V.C08.edata_enc (zeros (pki.length + 16)) (zeros 8) iter hz8 hiter (by rw [hz]; omega)
  unfold pkiWrapLen
  rw [if_neg hi]
  dsimp only
  rw [if_neg (by simp [hpc]), he]
  dsimp only
  rw [h2]
  dsimp only
  have : epki = Bee2V.C08.Tree.codeL [Bee2V.C08.edataTree edata salt iter] := by cases h1; rfl
  rw [this, edata_code_len_congr edata (zeros (pki.length + 16)) salt (zeros 8) iter (by rw [hz, hel]) (by rw [hz8, hsalt])]

end Bee2V.C17

/-
C17 — lemmas for the container theorems (PropsBpki.lean).  No Mathlib.
-/
import Bee2V.C17.ModelBpki
import Bee2V.C17.Laws
import Bee2V.C01.PropsWbl
import Bee2V.C08.ContRT
namespace Bee2V.C17
open Bee2V.C01 (Cipher)
open Bee2V.Gen.C17Src

theorem iterMin_eq : iterMin = 10000 := by decide

/-- Unwrap ∘ Wrap relative to the two DER codec round trips (supplied by C08 `ContRT` in PropsBpki) -/
theorem pki_roundtrip_of_codec (C : Cipher) (hC : CipherOK C) (kind : PkiKind) (payload pwd salt epki : Bytes) (iter : Nat)
    (hcodec1 : ∀ pki, pkiEnc kind payload = .ok pki → pkiDec kind pki = .ok (payload, pki.length) ∧ pki.length ≤ 200)
    (hcodec2 : ∀ edata e, edata.length < 4294967296 → Bee2V.C08.bpkiEdataEnc edata salt iter = .ok e →
      edataOpen e = .ok (edata, salt, iter))
    (h : pkiWrap C kind payload pwd salt iter = (.ok, epki)) :
    pkiUnwrap C kind epki pwd = (.ok, some payload) := by
  unfold pkiWrap at h
  dsimp only at h
  by_cases hi : iter < Bee2V.Gen.C17Src.iterMin
  · rw [if_pos hi] at h; cases h
  · rw [if_neg hi] at h
    by_cases hpc : payloadCheck kind payload ≠ .ok
    · rw [if_pos hpc] at h
      have := (Prod.mk.inj h).1
      exact absurd this hpc
    · rw [if_neg hpc] at h
      have hpc' : payloadCheck kind payload = .ok := by simpa using hpc
      cases he : pkiEnc kind payload with
      | err => rw [he] at h; cases h
      | oob => rw [he] at h; cases h
      | ok pki =>
        rw [he] at h; dsimp only at h
        unfold epkiSeal at h
        obtain ⟨e, o, hk⟩ : ∃ e o, Bee2V.C01.pbkdf2 C pwd iter salt = (e, o) := ⟨_, _, rfl⟩
        rw [hk] at h
        cases o with
        | none =>
          cases e <;> try (cases h)
          unfold Bee2V.C01.pbkdf2 at hk
          split at hk <;> cases hk
        | some key =>
          cases e <;> try (cases h)
          dsimp only at h
          obtain ⟨e2, o2, hw⟩ : ∃ e o, Bee2V.C01.kwpWrap C pki none key = (e, o) := ⟨_, _, rfl⟩
          rw [hw] at h
          cases o2 with
          | none =>
            cases e2 <;> try (cases h)
            unfold Bee2V.C01.kwpWrap at hw
            split at hw <;> cases hw
          | some edata =>
            cases e2 <;> try (cases h)
            dsimp only at h
            cases hee : Bee2V.C08.bpkiEdataEnc edata salt iter with
            | err => rw [hee] at h; cases h
            | oob => rw [hee] at h; cases h
            | ok e3 =>
              rw [hee] at h; cases h
              -- the KWP facts: wrap succeeded, so the key length is admissible and the payload code has ≥ 16 octets
              have hkw : ¬ (pki.length < 16 ∨ Bee2V.C01.validKeyLen key.length = false) := by
                intro hb
                have := (Bee2V.C01.kwpWrap_badInput_iff C pki none key).mpr hb
                rw [hw] at this; cases this
              have hk16 : 16 ≤ pki.length := by
                have := not_or.mp hkw; omega
              have hkv : Bee2V.C01.validKeyLen key.length = true := by
                cases hv : Bee2V.C01.validKeyLen key.length
                · exact absurd (Or.inr hv) hkw
                · rfl
              obtain ⟨tok, ht1, htl, ht2⟩ := Bee2V.C01.kwpUnwrap_kwpWrap C hC pki none key hk16 hkv (by intro h hh; cases hh)
              rw [hw] at ht1
              have htok : tok = edata := by cases ht1; rfl
              subst htok
              unfold pkiUnwrap
              have hp200 := (hcodec1 pki he).2
              rw [hcodec2 _ _ (by omega) hee]; dsimp only
              rw [hk]; dsimp only
              rw [ht2]; dsimp only
              rw [(hcodec1 pki he).1]; dsimp only
              rw [if_neg (by simp)]
              -- the first-octet rule of shares was already enforced by Wrap
              have hsh : ¬ (kind = .share ∧ ((payload.headD 0).toNat = 0 ∨ (payload.headD 0).toNat > 16)) := by
                rintro ⟨hkd, hb⟩
                subst hkd
                simp only [payloadCheck] at hpc'
                by_cases hb' : (payload.length ≠ 17 ∧ payload.length ≠ 25 ∧ payload.length ≠ 33) ∨
                    (payload.headD 0).toNat = 0 ∨ (payload.headD 0).toNat > 16
                · rw [if_pos hb'] at hpc'; cases hpc'
                · exact hb' (Or.inr hb)
              rw [if_neg hsh]


end Bee2V.C17

/-
C17 — lemmas for the container theorems (PropsBpki.lean).  No Mathlib.
-/
import Bee2V.C17.ModelBpki
import Bee2V.C17.Laws
import Bee2V.C01.PropsWbl
namespace Bee2V.C17
open Bee2V.Gen.C17Src

theorem iterMin_eq : iterMin = 10000 := by decide

end Bee2V.C17

/-
C17 — executable, code-shaped model of src/crypto/btok/btok_sm.c (secure messaging), with
docs/C17.fix-1.diff applied (btokSMCmdWrap rejects a protected data field longer than 65535 octets).

Reused models (read-only): belt-KRP / belt-CFB / belt-MAC from C01 (parametrised by a `Cipher`),
DER TL/TLV and the APDU codec from C08.

State `btok_sm_st` = (key1, key2, ctr); the scratch `stack[]` is not state.  The counter parity is
read from `ctr[0]` exactly as the code does (`st->ctr[0] % 2`).
-/
import Bee2V.C17.Basic
namespace Bee2V.C17
open Bee2V.C01 (Cipher)
open Bee2V.C08 (Cmd Resp R)
open Bee2V.Gen.C17Src (parCmdWrap parCmdUnwrap parRespWrap parRespUnwrap cmdMin respMin cdfStarMax respRdfMax)

structure SmSt where
  key1 : Bytes   -- belt-mac key
  key2 : Bytes   -- belt-cfb key
  ctr : Bytes    -- 16 octets, little-endian counter
  deriving Repr, DecidableEq

/-- btokSMStart: key_i ← belt-keyrep(key, 0, <i>, 256); ctr ← 0 -/
def smStart (C : Cipher) (key : Bytes) : SmSt :=
  let ctr0 := zeros 16
  let st := Bee2V.C01.krpStart key (ctr0.take 12)        -- beltKRPStart(stack, key, 32, st->ctr): level = 12 octets
  ⟨Bee2V.C01.krpStepG C st 32 (1 :: ctr0.drop 1),        -- st->ctr[0] = 1; header = st->ctr
   Bee2V.C01.krpStepG C st 32 (2 :: ctr0.drop 1),        -- st->ctr[0] = 2
   ctr0⟩

/-- the loop of btokSMCtrInc: `carry += ctr[pos], ctr[pos] = (octet)carry, carry >>= 8` -/
def ctrIncLoop : Bytes → Nat → Bytes
  | [], _ => []
  | b :: bs, carry => oct (carry + b.toNat) :: ctrIncLoop bs ((carry + b.toNat) / 256)

/-- btokSMCtrInc -/
def smCtrInc (st : SmSt) : SmSt := { st with ctr := ctrIncLoop st.ctr 1 }

/-- `st->ctr[0] % 2` -/
def ctrParity (st : SmSt) : Nat := (st.ctr.headD 0).toNat % 2

/-- `cla & 0x04` set? -/
def smBit (c : UInt8) : Bool := c.toNat / 4 % 2 = 1
/-- `cla | 0x04` -/
def setSmBit (c : UInt8) : UInt8 := if smBit c then c else oct (c.toNat + 4)
/-- `cla & 0xFB` -/
def clrSmBit (c : UInt8) : UInt8 := if smBit c then oct (c.toNat - 4) else c

/-! ### commands -/

/-- static apduCmdRDFLenLen -/
def rdfLenLen (c : Cmd) : Nat :=
  if c.rdf_len = 0 then 0
  else if c.cdf.length < 256 ∧ c.rdf_len ≤ 256 then 1
  else if c.cdf.length ≠ 0 then 2
  else 3

/-- value of der(0x97, Le): `l` octets -/
def leVal (rdf_len l : Nat) : Bytes :=
  if l = 1 then [oct rdf_len]
  else if l = 2 then [oct (rdf_len / 256), oct rdf_len]
  else [0, oct (rdf_len / 256), oct rdf_len]

/-- length of the protected data field CDF* -/
def cdfStarLen (c : Cmd) : Nat :=
  c.cdf.length
  + (if c.cdf.length ≠ 0 then (tl 0x87 (c.cdf.length + 1)).length + 1 else 0)
  + (if c.rdf_len ≠ 0 then (tl 0x97 (rdfLenLen c)).length + rdfLenLen c else 0)
  + ((tl 0x8E 8).length + 8)

/-- (len(Lc*), len(Le*)) by rules 1–3 -/
def starLens (c : Cmd) : Nat × Nat :=
  if c.rdf_len = 0 then (if cdfStarLen c < 256 then 1 else 3, 0)
  else if c.rdf_len ≤ 256 ∧ cdfStarLen c < 256 then (1, 1)
  else (3, 2)

/-- checks of btokSMCmdWrap made before the counter is looked at (`state != 0`); `none` = go on -/
def smCmdWrapPre (cmd : Cmd) : Option E :=
  if !Bee2V.C08.apduCmdIsValid cmd || smBit cmd.cla then some .badApdu
  else if cdfStarLen cmd > cdfStarMax then some .badApdu      -- fix-1 (bound regenerated from the source)
  else none

/-- btokSMCmdWrap(0, &count, cmd, state), state ≠ 0: the announced length -/
def smCmdWrapLen (cmd : Cmd) : E × Nat :=
  match smCmdWrapPre cmd with
  | some e => (e, 0)
  | none => (.ok, 4 + (starLens cmd).1 + cdfStarLen cmd + (starLens cmd).2)

/-- the protected field der(0x87, 02 ‖ Y), Y = belt-cfb(data, key2, ctr); empty for empty data -/
def f87 (C : Cipher) (st : SmSt) (data : Bytes) : Bytes :=
  if data.length ≠ 0 then
    tl 0x87 (data.length + 1) ++ [2] ++ (Bee2V.C01.cfbStepE C (Bee2V.C01.cfbStart st.key2 st.ctr) data).2
  else []

/-- der(0x97, Le) -/
def f97 (c : Cmd) : Bytes :=
  if c.rdf_len ≠ 0 then tl 0x97 (rdfLenLen c) ++ leVal c.rdf_len (rdfLenLen c) else []

/-- belt-mac(key1, a ‖ b) computed with two StepA calls as the code does -/
def mac2 (C : Cipher) (key1 a b : Bytes) : Bytes :=
  (Bee2V.C01.macStepG C (Bee2V.C01.macStepA C (Bee2V.C01.macStepA C (Bee2V.C01.macStart C key1) a) b) 8).2

/-- btokSMCmdWrap(apdu, &count, cmd, state), apdu ≠ 0, state ≠ 0 -/
def smCmdWrap (C : Cipher) (cmd : Cmd) (st : SmSt) : E × Bytes :=
  match smCmdWrapPre cmd with
  | some e => (e, [])
  | none =>
    if ctrParity st ≠ parCmdWrap then (.badLogic, []) else
    let hdr := [setSmBit cmd.cla, cmd.ins, cmd.p1, cmd.p2]
    let cdf_len := cdfStarLen cmd
    let lc : Bytes := if (starLens cmd).1 = 1 then [oct cdf_len] else [0, oct (cdf_len / 256), oct cdf_len]
    let prot := f87 C st cmd.cdf ++ f97 cmd
    (.ok, hdr ++ lc ++ prot ++ tl 0x8E 8 ++ mac2 C st.key1 hdr prot ++ zeros (starLens cmd).2)

/-- btokSMCmdWrap(apdu, &count, cmd, 0): encoding without protection -/
def smCmdWrap0 (cmd : Cmd) : E × Bytes :=
  if !Bee2V.C08.apduCmdIsValid cmd then (.badApdu, []) else (.ok, Bee2V.C08.apduCmdEnc cmd)

/-- what the parser of btokSMCmdUnwrap has established when it reaches "ограничиться проверкой формата?" -/
structure CmdParse where
  lcLen : Nat      -- cdf_len_len: 1 or 3
  len : Nat        -- len(CDF*)
  c1 : Nat         -- length of der(0x87, …) or 0
  c2 : Nat         -- length of der(0x97, …) or 0
  ctOff : Nat      -- offset of the ciphertext Y in apdu
  ctLen : Nat      -- cdf_len
  rdfLen : Nat
  macOff : Nat     -- offset of the 8 MAC octets in apdu
  deriving Repr, DecidableEq

/-- the 0x87 field of CDF* / RDF*: (c1, offset of Y in `body`, len(Y)); absent field = (0, 0, 0) -/
def parse87 (body : Bytes) : Except E (Nat × Nat × Nat) :=
  match Bee2V.C08.derDec2 body 0x87 with
  | .ok (off, l, c) =>
    if l < 2 ∨ (body.drop off).head? ≠ some 2 then .error .badApdu else .ok (c, off + 1, l - 1)
  | .err => .ok (0, 0, 0)
  | .oob => .error .oob

/-- the 0x97 field: (c2, rdf_len); absent field = (0, 0) -/
def parse97 (rest : Bytes) (cdf_len : Nat) : Except E (Nat × Nat) :=
  match Bee2V.C08.derDec2 rest 0x97 with
  | .ok (off, l, c) =>
    match (rest.drop off).take l with
    | [v0] =>
      let r := if v0.toNat = 0 then 256 else v0.toNat
      if cdf_len ≥ 256 then .error .badApdu else .ok (c, r)
    | [v0, v1] =>
      let r := if v0.toNat * 256 + v1.toNat = 0 then 65536 else v0.toNat * 256 + v1.toNat
      if (cdf_len < 256 ∧ r ≤ 256) ∨ cdf_len = 0 then .error .badApdu else .ok (c, r)
    | [v0, v1, v2] =>
      let r := if v1.toNat * 256 + v2.toNat = 0 then 65536 else v1.toNat * 256 + v2.toNat
      if v0 ≠ 0 ∨ cdf_len ≠ 0 ∨ r ≤ 256 then .error .badApdu else .ok (c, r)
    | _ => .error .badApdu                       -- rdf_len_len == 0 || rdf_len_len > 3
  | .err => .ok (0, 0)
  | .oob => .error .oob

/-- the 0x8E field: (offset of T, c3) -/
def parse8E (rest : Bytes) : Except E (Nat × Nat) :=
  match Bee2V.C08.derDec3 rest 0x8E 8 with
  | .ok (off, c) => .ok (off, c)
  | .err => .error .badApdu
  | .oob => .error .oob

/-- btokSMCmdUnwrap, state ≠ 0: everything up to the format-only exit -/
def smCmdParse (apdu : Bytes) : Except E CmdParse :=
  let count := apdu.length
  if count < cmdMin ∨ !smBit (apdu.headD 0) then .error .badApdu else
  match apdu.drop 4 with
  | a4 :: a5 :: a6 :: _ =>
    let len := if a4 ≠ 0 then a4.toNat else a5.toNat * 256 + a6.toNat
    let lcLen := if a4 ≠ 0 then 1 else 3
    let offset := 4 + lcLen
    if offset + len > count ∨ offset + len + 2 < count then .error .badApdu else
    let body := (apdu.drop offset).take len
    match parse87 body with
    | .error e => .error e
    | .ok (c1, yOff, cdf_len) =>
      match parse97 (body.drop c1) cdf_len with
      | .error e => .error e
      | .ok (c2, rdf_len) =>
        let rdf_len_len := if rdf_len = 0 then 0 else if len < 256 ∧ rdf_len ≤ 256 then 1 else 2
        if count ≠ offset + len + rdf_len_len ∨ !isZero ((apdu.drop (offset + len)).take rdf_len_len) then
          .error .badApdu
        else if lcLen ≠ (if rdf_len_len = 2 ∨ len ≥ 256 then 3 else 1) then .error .badApdu
        else
          match parse8E (body.drop (c1 + c2)) with
          | .error e => .error e
          | .ok (mOff, c3) =>
            if c1 + c2 + c3 ≠ len then .error .badApdu
            else .ok ⟨lcLen, len, c1, c2, offset + yOff, cdf_len, rdf_len, offset + c1 + c2 + mOff⟩
  | _ => .error .badApdu

/-- btokSMCmdUnwrap(0, &size, apdu, count, state): format check; size − sizeof(apdu_cmd_t) -/
def smCmdUnwrapFmt (apdu : Bytes) : E × Nat :=
  match smCmdParse apdu with
  | .ok p => (.ok, p.ctLen)
  | .error e => (e, 0)

/-- `beltMACStepV(mac, …)` after the two StepA calls -/
def mac2V (C : Cipher) (key1 a b mac : Bytes) : Bool :=
  (Bee2V.C01.macStepV C (Bee2V.C01.macStepA C (Bee2V.C01.macStepA C (Bee2V.C01.macStart C key1) a) b) mac).2

/-- btokSMCmdUnwrap(cmd, &size, apdu, count, state), cmd ≠ 0, state ≠ 0 -/
def smCmdUnwrap (C : Cipher) (apdu : Bytes) (st : SmSt) : E × Option Cmd :=
  match smCmdParse apdu with
  | .error e => (e, none)
  | .ok p =>
    if ctrParity st ≠ parCmdUnwrap then (.badLogic, none) else
    let hdr := apdu.take 4
    let prot := (apdu.drop (4 + p.lcLen)).take (p.c1 + p.c2)
    if !mac2V C st.key1 hdr prot ((apdu.drop p.macOff).take 8) then (.badMac, none) else
    let ct := (apdu.drop p.ctOff).take p.ctLen
    let cdf := if p.ctLen ≠ 0 then (Bee2V.C01.cfbStepD C (Bee2V.C01.cfbStart st.key2 st.ctr) ct).2 else ct
    match hdr with
    | [cla, ins, p1, p2] => (.ok, some ⟨clrSmBit cla, ins, p1, p2, cdf, p.rdfLen⟩)
    | _ => (.badApdu, none)        -- unreachable: count ≥ 15

/-- btokSMCmdUnwrap(cmd, &size, apdu, count, 0) -/
def smCmdUnwrap0 (apdu : Bytes) : E × Option Cmd :=
  if apdu.length < 4 ∨ smBit (apdu.headD 0) then (.badApdu, none) else
  match Bee2V.C08.apduCmdDec apdu with
  | .ok c => (.ok, some c)
  | .err => (.badApdu, none)
  | .oob => (.oob, none)

/-! ### responses -/

def apduRespIsValid (r : Resp) : Bool := r.rdf.length ≤ respRdfMax

/-- btokSMRespWrap(0, &count, resp, state): announced length -/
def smRespWrapLen (resp : Resp) : E × Nat :=
  if !apduRespIsValid resp then (.badApdu, 0) else
  (.ok, resp.rdf.length + (if resp.rdf.length ≠ 0 then (tl 0x87 (resp.rdf.length + 1)).length + 1 else 0)
    + ((tl 0x8E 8).length + 8) + 2)

/-- belt-mac over three fragments (StepA ×3) -/
def mac3 (C : Cipher) (key1 a b c : Bytes) : Bytes :=
  (Bee2V.C01.macStepG C (Bee2V.C01.macStepA C (Bee2V.C01.macStepA C
    (Bee2V.C01.macStepA C (Bee2V.C01.macStart C key1) a) b) c) 8).2

/-- btokSMRespWrap(apdu, &count, resp, state), apdu ≠ 0, state ≠ 0 -/
def smRespWrap (C : Cipher) (resp : Resp) (st : SmSt) : E × Bytes :=
  if !apduRespIsValid resp then (.badApdu, []) else
  if ctrParity st ≠ parRespWrap then (.badLogic, []) else
  let prot := f87 C st resp.rdf
  (.ok, prot ++ tl 0x8E 8 ++ mac3 C st.key1 prot [resp.sw1] [resp.sw2] ++ [resp.sw1, resp.sw2])

def smRespWrap0 (resp : Resp) : E × Bytes :=
  if !apduRespIsValid resp then (.badApdu, []) else (.ok, Bee2V.C08.apduRespEnc resp)

structure RespParse where
  c1 : Nat
  ctOff : Nat
  ctLen : Nat
  macOff : Nat
  deriving Repr, DecidableEq

/-- btokSMRespUnwrap, state ≠ 0, up to the format-only exit -/
def smRespParse (apdu : Bytes) : Except E RespParse :=
  let count := apdu.length
  if count < respMin then .error .badApdu else
  let body := apdu.take (count - 2)
  match parse87 body with
  | .error e => .error e
  | .ok (c1, yOff, rdf_len) =>
    match parse8E (body.drop c1) with
    | .error e => .error e
    | .ok (mOff, c2) =>
      if c1 + c2 + 2 ≠ count then .error .badApdu else .ok ⟨c1, yOff, rdf_len, c1 + mOff⟩

def smRespUnwrapFmt (apdu : Bytes) : E × Nat :=
  match smRespParse apdu with
  | .ok p => (.ok, p.ctLen)
  | .error e => (e, 0)

/-- btokSMRespUnwrap(resp, &size, apdu, count, state), resp ≠ 0, state ≠ 0 -/
def smRespUnwrap (C : Cipher) (apdu : Bytes) (st : SmSt) : E × Option Resp :=
  match smRespParse apdu with
  | .error e => (e, none)
  | .ok p =>
    if ctrParity st ≠ parRespUnwrap then (.badLogic, none) else
    let sw := apdu.drop (apdu.length - 2)
    if !mac2V C st.key1 (apdu.take p.c1) sw ((apdu.drop p.macOff).take 8) then (.badMac, none) else
    let ct := (apdu.drop p.ctOff).take p.ctLen
    let rdf := if p.ctLen ≠ 0 then (Bee2V.C01.cfbStepD C (Bee2V.C01.cfbStart st.key2 st.ctr) ct).2 else ct
    match sw with
    | [sw1, sw2] => (.ok, some ⟨sw1, sw2, rdf⟩)
    | _ => (.badApdu, none)        -- unreachable: count ≥ 12

def smRespUnwrap0 (apdu : Bytes) : E × Option Resp :=
  if apdu.length < 2 then (.badApdu, none) else
  match Bee2V.C08.apduRespDec apdu with
  | .ok r => (.ok, some r)
  | .err => (.badApdu, none)
  | .oob => (.oob, none)

end Bee2V.C17

/-
C17 — token layer.  Layer 0: error codes, octet helpers shared by the three models
(ModelSM = btok_sm.c, ModelCVC = btok_cvc.c, ModelBpki = bpki.c).  No Mathlib.

Conventions (as in C01 / C08, whose models are imported read-only):
* buffers are `List UInt8`; `ptr + k, count - k` is `drop k`; in-place edits (memMove, memCopy) are list
  operations (modelled, not verified: C11 covers overlap);
* `err_t` is the inductive `E` (`E.code` = the numeric value printed by the harness);
* bit operations on single octets are written arithmetically (`x & 4 ≠ 0` ⇔ `x / 4 % 2 = 1`), the reading
  is checked by the correspondence run on all 256 octet values.
-/
import Bee2V.C01.Model.Modes
import Bee2V.C01.Model.Hash
import Bee2V.C01.Model.Wbl
import Bee2V.C08.Model3
import Bee2V.Gen.C17Src
namespace Bee2V.C17

abbrev Bytes := List UInt8

/-- `err_t` values returned by the modelled functions -/
inductive E
  | ok | badInput | badFormat | badDate | badName | outOfRange | badApdu | badParams | badSeckey
  | badPrivkey | badPubkey | badKeypair | badSharekey | badSig | badMac | badKeytoken | badLogic | badOid
  | notImplemented
  | oob          -- the MODEL read outside its input (never a C result; excluded by the C08 theorems)
  deriving DecidableEq, Repr, Inhabited

def E.code : E → Nat
  | .ok => 0 | .badInput => 109 | .notImplemented => 119 | .badOid => 301 | .badFormat => 306 | .badDate => 308
  | .badName => 309 | .outOfRange => 310 | .badApdu => 312 | .badParams => 502 | .badSeckey => 503
  | .badPrivkey => 504 | .badPubkey => 505 | .badKeypair => 506 | .badSharekey => 508 | .badSig => 510
  | .badMac => 511 | .badKeytoken => 513 | .badLogic => 517 | .oob => 99999

/-- belt error of the C01 model ↦ err_t -/
def ofBelt : Bee2V.C01.Err → E
  | .ok => .ok | .badInput => .badInput | .badMac => .badMac | .badKeytoken => .badKeytoken
  | .notImplemented => .notImplemented

abbrev zeros (n : Nat) : Bytes := Bee2V.C01.zeros n
abbrev oct (v : Nat) : UInt8 := Bee2V.C08.oct v

/-- `memIsZero(buf, count)` -/
def isZero (b : Bytes) : Bool := b.all (· == 0)

/-- `derTLEnc(0, tag, len)` for the fixed one-octet tags of secure messaging; the `[]` arm stands for the
ASSERT(c != SIZE_MAX) of the C text and is never taken for 0x87/0x97/0x8E (`tl_ok` in LemmasSM). -/
def tl (tag len : Nat) : Bytes :=
  match Bee2V.C08.derTLEnc tag len with
  | .ok b => b
  | _ => []

end Bee2V.C17

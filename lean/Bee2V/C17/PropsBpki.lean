/-
C17 — property theorems, password-protected containers (bpki.c).  Model: ModelBpki.lean.
-/
import Bee2V.C17.LemmasBpki
namespace Bee2V.C17
open Bee2V.C01 (Cipher)

/-- bpkiPrivkeyWrap / bpkiShareWrap refuse an iteration count below 10000 (before anything else) -/
theorem pkiWrap_iter_refused (C : Cipher) (kind : PkiKind) (payload pwd salt : Bytes) (iter : Nat) (h : iter < 10000) :
    pkiWrap C kind payload pwd salt iter = (.badInput, []) := by
  unfold pkiWrap
  rw [iterMin_eq, if_pos h]
example : (9999 : Nat) < 10000 := by decide

/-- order of the checks of Wrap: iteration count, then the payload (key length / share format) -/
theorem pkiWrap_payload_refused (C : Cipher) (kind : PkiKind) (payload pwd salt : Bytes) (iter : Nat) (h : 10000 ≤ iter)
    (hp : payloadCheck kind payload ≠ .ok) :
    pkiWrap C kind payload pwd salt iter = (payloadCheck kind payload, []) := by
  unfold pkiWrap
  rw [iterMin_eq, if_neg (by omega)]
  simp only [hp, ne_eq, not_false_eq_true, if_true]
example : payloadCheck .privkey (List.replicate 16 1) = .badPrivkey ∧ payloadCheck .share (0 :: List.replicate 16 1) = .badSharekey ∧
    payloadCheck .share (17 :: List.replicate 16 1) = .badSharekey ∧ payloadCheck .share (16 :: List.replicate 32 1) = .ok := by decide

/-- WHAT OPENS A CONTAINER: Unwrap returns a payload only if belt-KWP accepted the encrypted data under the key
PBKDF2 derives from the given password and the salt / iteration count FOUND IN THE CONTAINER, i.e. (C01
`kwpUnwrap_spec`) the last 16 octets recovered by belt-WBL⁻¹ are zero.  A wrong password therefore opens the
container only if it derives the same key (PBKDF2/HMAC collision — e.g. HMAC's zero padding of short keys) or if
the 128-bit KWP check collides: the witness is explicit. -/
theorem pkiUnwrap_ok_kwp (C : Cipher) (hC : CipherOK C) (kind : PkiKind) (epki pwd v : Bytes)
    (h : pkiUnwrap C kind epki pwd = (.ok, some v)) :
    ∃ edata salt iter key pki, edataOpen epki = .ok (edata, salt, iter) ∧
      Bee2V.C01.pbkdf2 C pwd iter salt = (.ok, some key) ∧
      Bee2V.C01.kwpUnwrap C edata none key = (.ok, some pki) ∧
      (Bee2V.C01.wblStepDBase C (Bee2V.C01.fmtKey key) edata).1.drop (edata.length - 16) = zeros 16 ∧
      pkiDec kind pki = .ok (v, pki.length) := by
  unfold pkiUnwrap at h
  cases ho : edataOpen epki with
  | error e => rw [ho] at h; cases h
  | ok r =>
    obtain ⟨edata, salt, iter⟩ := r
    rw [ho] at h; dsimp only at h
    obtain ⟨e, o, hk⟩ : ∃ e o, Bee2V.C01.pbkdf2 C pwd iter salt = (e, o) := ⟨_, _, rfl⟩
    rw [hk] at h
    cases o with
    | none => cases e <;> cases h
    | some key =>
      cases e <;> try (cases h)
      dsimp only at h
      obtain ⟨e2, o2, hu⟩ : ∃ e o, Bee2V.C01.kwpUnwrap C edata none key = (e, o) := ⟨_, _, rfl⟩
      rw [hu] at h
      cases o2 with
      | none => cases e2 <;> cases h
      | some pki =>
        cases e2 <;> try (cases h)
        dsimp only at h
        have hs := Bee2V.C01.kwpUnwrap_spec C hC edata none key
        rw [hu] at hs
        have hz : (Bee2V.C01.wblStepDBase C (Bee2V.C01.fmtKey key) edata).1.drop (edata.length - 16) = zeros 16 := by
          split at hs
          · cases hs
          · split at hs
            · rename_i hz; simpa using hz
            · cases hs
        refine ⟨edata, salt, iter, key, pki, rfl, hk, hu, hz, ?_⟩
        cases hd : pkiDec kind pki with
        | err => rw [hd] at h; cases h
        | oob => rw [hd] at h; cases h
        | ok r =>
          obtain ⟨v', c⟩ := r
          rw [hd] at h; dsimp only at h
          split at h
          · cases h
          · rename_i hc
            split at h
            · cases h
            · cases h
              have : c = pki.length := by simpa using hc
              rw [this]

/-- ROUND TRIP of the password-protected containers: for every cipher with 16-octet blocks, every private key
(24/32/48/64 octets) or share (17/25/33 octets, first octet 1..16), every password, every 8-octet salt and every
iteration count ≥ 10000 (< 2^64) that bpkiPrivkeyWrap / bpkiShareWrap accept, bpkiPrivkeyUnwrap / bpkiShareUnwrap under
the same password return the key.  DER codecs: C08 `ContRT` (PrivateKeyInfo, share, EncryptedPrivateKeyInfo round trips);
belt-KWP: C01 `kwpUnwrap_kwpWrap`; PBKDF2 is a function of (password, salt, iterations). -/
theorem pki_roundtrip (C : Cipher) (hC : CipherOK C) (kind : PkiKind) (payload pwd salt epki : Bytes) (iter : Nat)
    (hsalt : salt.length = 8) (hiter : iter < 18446744073709551616)
    (h : pkiWrap C kind payload pwd salt iter = (.ok, epki)) :
    pkiUnwrap C kind epki pwd = (.ok, some payload) := by
  -- Wrap has checked the payload
  have hpc : payloadCheck kind payload = .ok := by
    unfold pkiWrap at h
    dsimp only at h
    by_cases hi : iter < Bee2V.Gen.C17Src.iterMin
    · rw [if_pos hi] at h; exact absurd (Prod.mk.inj h).1 (by simp)
    · rw [if_neg hi] at h
      by_cases hp : payloadCheck kind payload ≠ .ok
      · rw [if_pos hp] at h; exact absurd (Prod.mk.inj h).1 hp
      · simpa using hp
  refine pki_roundtrip_of_codec C hC kind payload pwd salt epki iter ?_ ?_ h
  · intro pki he
    cases kind with
    | privkey =>
      have hk : payload.length = 24 ∨ payload.length = 32 ∨ payload.length = 48 ∨ payload.length = 64 := by
        simp only [payloadCheck] at hpc
        by_cases hb : payload.length ≠ 32 ∧ payload.length ≠ 24 ∧ payload.length ≠ 48 ∧ payload.length ≠ 64
        · rw [if_pos hb] at hpc; cases hpc
        · omega
      obtain ⟨st, hd, ho⟩ := Bee2V.C08.bpkiPrivkey_roundtrip payload pki hk he
      have hl := Bee2V.C08.bpkiPrivkeyEnc_len payload pki hk he
      refine ⟨?_, by omega⟩
      simp only [pkiDec, hd, ho]
    | share =>
      have hk : payload.length = 17 ∨ payload.length = 25 ∨ payload.length = 33 := by
        simp only [payloadCheck] at hpc
        by_cases hb : (payload.length ≠ 17 ∧ payload.length ≠ 25 ∧ payload.length ≠ 33) ∨
            (payload.headD 0).toNat = 0 ∨ (payload.headD 0).toNat > 16
        · rw [if_pos hb] at hpc; cases hpc
        · have := (not_or.mp hb).1; omega
      obtain ⟨st, hd, ho⟩ := Bee2V.C08.bpkiShare_roundtrip payload pki hk he
      have hl := Bee2V.C08.bpkiShareEnc_len payload pki hk he
      refine ⟨?_, by omega⟩
      simp only [pkiDec, hd, ho]
  · intro edata e hed hee
    obtain ⟨st, hd, ho, hn⟩ := Bee2V.C08.bpkiEdata_roundtrip edata salt e iter hsalt hiter hed hee
    simp only [edataOpen, hd, ho, hn, ne_eq, not_true_eq_false, if_false]
example : (pkiWrap ⟨fun _ x => x, fun _ x => x⟩ .privkey (List.replicate 32 7) [1, 2, 3] (List.replicate 8 9) 9999).1 = .badInput := by
  decide +kernel

/-- ANNOUNCED LENGTH = WRITTEN LENGTH, for EVERY iteration count 10000 ≤ iter < 2^64 (not only the default): the
length query of bpkiPrivkeyWrap / bpkiShareWrap (`epki == 0`; `pkiWrapLen`, a function of the payload size and of `iter`
through the DER INTEGER iterCount: 2 content octets up to 32767, 3 up to 8388607, …) returns exactly the length of the
container the second call writes — so a buffer of the announced size is neither overrun nor left partly unwritten, and
(`pki_roundtrip`) Unwrap of exactly these octets returns the key. -/
theorem pkiWrap_len (C : Cipher) (hC : CipherOK C) (kind : PkiKind) (payload pwd salt epki : Bytes) (iter : Nat)
    (hsalt : salt.length = 8) (hiter : iter < 18446744073709551616)
    (h : pkiWrap C kind payload pwd salt iter = (.ok, epki)) :
    pkiWrapLen kind payload iter = (.ok, epki.length) := by
  obtain ⟨_, hpc, _⟩ := pkiWrap_inv C hC kind payload pwd salt epki iter h
  refine pkiWrap_len' C hC kind payload pwd salt epki iter hsalt hiter ?_ h
  intro pki he
  cases kind with
  | privkey =>
    have hk : payload.length = 24 ∨ payload.length = 32 ∨ payload.length = 48 ∨ payload.length = 64 := by
      simp only [payloadCheck] at hpc
      by_cases hb : payload.length ≠ 32 ∧ payload.length ≠ 24 ∧ payload.length ≠ 48 ∧ payload.length ≠ 64
      · rw [if_pos hb] at hpc; cases hpc
      · omega
    have := Bee2V.C08.bpkiPrivkeyEnc_len payload pki hk he
    omega
  | share =>
    have hk : payload.length = 17 ∨ payload.length = 25 ∨ payload.length = 33 := by
      simp only [payloadCheck] at hpc
      by_cases hb : (payload.length ≠ 17 ∧ payload.length ≠ 25 ∧ payload.length ≠ 33) ∨
          (payload.headD 0).toNat = 0 ∨ (payload.headD 0).toNat > 16
      · rw [if_pos hb] at hpc; cases hpc
      · have := (not_or.mp hb).1; omega
    have := Bee2V.C08.bpkiShareEnc_len payload pki hk he
    omega
/-- the announced length does depend on the iteration count: +1 octet at 32768, +1 at 8388608, … -/
example : (pkiWrapLen .privkey (List.replicate 32 1) 10000) = (.ok, 160) ∧ (pkiWrapLen .privkey (List.replicate 32 1) 32767) = (.ok, 160) ∧
    (pkiWrapLen .privkey (List.replicate 32 1) 32768) = (.ok, 161) ∧ (pkiWrapLen .privkey (List.replicate 32 1) 8388607) = (.ok, 161) ∧
    (pkiWrapLen .privkey (List.replicate 32 1) 8388608) = (.ok, 162) ∧
    (pkiWrapLen .share (5 :: List.replicate 16 1) 18446744073709551615) = (.ok, 151) := by decide +kernel

end Bee2V.C17

/-
C17 — property theorems, password-protected containers (bpki.c).  Model: ModelBpki.lean.
-/
import Bee2V.C17.LemmasBpki
namespace Bee2V.C17
open Bee2V.C01 (Cipher)

/-- bpkiPrivkeyWrap / bpkiShareWrap refuse an iteration count below 10000 (before anything else) -/
theorem pkiWrap_iter_refused (C : Cipher) (kind : PkiKind) (payload pwd salt : Bytes) (iter : Nat) (h : iter < 10000) :
    pkiWrap C kind payload pwd salt iter = (.badInput, []) := by
  unfold pkiWrap
  rw [iterMin_eq, if_pos h]
example : (9999 : Nat) < 10000 := by decide

/-- order of the checks of Wrap: iteration count, then the payload (key length / share format) -/
theorem pkiWrap_payload_refused (C : Cipher) (kind : PkiKind) (payload pwd salt : Bytes) (iter : Nat) (h : 10000 ≤ iter)
    (hp : payloadCheck kind payload ≠ .ok) :
    pkiWrap C kind payload pwd salt iter = (payloadCheck kind payload, []) := by
  unfold pkiWrap
  rw [iterMin_eq, if_neg (by omega)]
  simp only [hp, ne_eq, not_false_eq_true, if_true]
example : payloadCheck .privkey (List.replicate 16 1) = .badPrivkey ∧ payloadCheck .share (0 :: List.replicate 16 1) = .badSeckey ∧
    payloadCheck .share (17 :: List.replicate 16 1) = .badSeckey ∧ payloadCheck .share (16 :: List.replicate 32 1) = .ok := by decide

/-- WHAT OPENS A CONTAINER: Unwrap returns a payload only if belt-KWP accepted the encrypted data under the key
PBKDF2 derives from the given password and the salt / iteration count FOUND IN THE CONTAINER, i.e. (C01
`kwpUnwrap_spec`) the last 16 octets recovered by belt-WBL⁻¹ are zero.  A wrong password therefore opens the
container only if it derives the same key (PBKDF2/HMAC collision — e.g. HMAC's zero padding of short keys) or if
the 128-bit KWP check collides: the witness is explicit. -/
theorem pkiUnwrap_ok_kwp (C : Cipher) (hC : CipherOK C) (kind : PkiKind) (epki pwd v : Bytes)
    (h : pkiUnwrap C kind epki pwd = (.ok, some v)) :
    ∃ edata salt iter key pki, edataOpen epki = .ok (edata, salt, iter) ∧
      Bee2V.C01.pbkdf2 C pwd iter salt = (.ok, some key) ∧
      Bee2V.C01.kwpUnwrap C edata none key = (.ok, some pki) ∧
      (Bee2V.C01.wblStepDBase C (Bee2V.C01.fmtKey key) edata).1.drop (edata.length - 16) = zeros 16 ∧
      pkiDec kind pki = .ok (v, pki.length) := by
  unfold pkiUnwrap at h
  cases ho : edataOpen epki with
  | error e => rw [ho] at h; cases h
  | ok r =>
    obtain ⟨edata, salt, iter⟩ := r
    rw [ho] at h; dsimp only at h
    obtain ⟨e, o, hk⟩ : ∃ e o, Bee2V.C01.pbkdf2 C pwd iter salt = (e, o) := ⟨_, _, rfl⟩
    rw [hk] at h
    cases o with
    | none => cases e <;> cases h
    | some key =>
      cases e <;> try (cases h)
      dsimp only at h
      obtain ⟨e2, o2, hu⟩ : ∃ e o, Bee2V.C01.kwpUnwrap C edata none key = (e, o) := ⟨_, _, rfl⟩
      rw [hu] at h
      cases o2 with
      | none => cases e2 <;> cases h
      | some pki =>
        cases e2 <;> try (cases h)
        dsimp only at h
        have hs := Bee2V.C01.kwpUnwrap_spec C hC edata none key
        rw [hu] at hs
        have hz : (Bee2V.C01.wblStepDBase C (Bee2V.C01.fmtKey key) edata).1.drop (edata.length - 16) = zeros 16 := by
          split at hs
          · cases hs
          · split at hs
            · rename_i hz; simpa using hz
            · cases hs
        refine ⟨edata, salt, iter, key, pki, rfl, hk, hu, hz, ?_⟩
        cases hd : pkiDec kind pki with
        | err => rw [hd] at h; cases h
        | oob => rw [hd] at h; cases h
        | ok r =>
          obtain ⟨v', c⟩ := r
          rw [hd] at h; dsimp only at h
          split at h
          · cases h
          · rename_i hc
            split at h
            · cases h
            · cases h
              have : c = pki.length := by simpa using hc
              rw [this]

/-
FULL STATEMENT (the two codec hypotheses are NOT proved here — see docs/C17.md "partial"):
  ∀ kind payload pwd salt iter epki, salt.length = 8 →
    pkiWrap C kind payload pwd salt iter = (.ok, epki) → pkiUnwrap C kind epki pwd = (.ok, some payload).
Proved below: the same under the hypotheses that (1) bpkiPrivkeyDec/bpkiShareDec invert bpkiPrivkeyEnc/bpkiShareEnc on
this payload and (2) bpkiEdataDec inverts bpkiEdataEnc on this (salt, iter) — two DER round trips through the SEQ
anchors of the C08 container model (checked by the correspondence run and the C08 oracle, not by a theorem).  Everything
else — PBKDF2 determinism, belt-KWP unwrap∘wrap (C01 `kwpUnwrap_kwpWrap`), the order and the codes of the checks,
the first-octet rule of shares — is proved.
-/
theorem pki_roundtrip_partial (C : Cipher) (hC : CipherOK C) (kind : PkiKind) (payload pwd salt epki : Bytes) (iter : Nat)
    (hcodec1 : ∀ pki, pkiEnc kind payload = .ok pki → pkiDec kind pki = .ok (payload, pki.length))
    (hcodec2 : ∀ edata e, Bee2V.C08.bpkiEdataEnc edata salt iter = .ok e → edataOpen e = .ok (edata, salt, iter))
    (h : pkiWrap C kind payload pwd salt iter = (.ok, epki)) :
    pkiUnwrap C kind epki pwd = (.ok, some payload) := by
  unfold pkiWrap at h
  dsimp only at h
  by_cases hi : iter < Bee2V.Gen.C17Src.iterMin
  · rw [if_pos hi] at h; cases h
  · rw [if_neg hi] at h
    by_cases hpc : payloadCheck kind payload ≠ .ok
    · rw [if_pos hpc] at h
      have := (Prod.mk.inj h).1
      exact absurd this hpc
    · rw [if_neg hpc] at h
      have hpc' : payloadCheck kind payload = .ok := by simpa using hpc
      cases he : pkiEnc kind payload with
      | err => rw [he] at h; cases h
      | oob => rw [he] at h; cases h
      | ok pki =>
        rw [he] at h; dsimp only at h
        unfold epkiSeal at h
        obtain ⟨e, o, hk⟩ : ∃ e o, Bee2V.C01.pbkdf2 C pwd iter salt = (e, o) := ⟨_, _, rfl⟩
        rw [hk] at h
        cases o with
        | none =>
          cases e <;> try (cases h)
          unfold Bee2V.C01.pbkdf2 at hk
          split at hk <;> cases hk
        | some key =>
          cases e <;> try (cases h)
          dsimp only at h
          obtain ⟨e2, o2, hw⟩ : ∃ e o, Bee2V.C01.kwpWrap C pki none key = (e, o) := ⟨_, _, rfl⟩
          rw [hw] at h
          cases o2 with
          | none =>
            cases e2 <;> try (cases h)
            unfold Bee2V.C01.kwpWrap at hw
            split at hw <;> cases hw
          | some edata =>
            cases e2 <;> try (cases h)
            dsimp only at h
            cases hee : Bee2V.C08.bpkiEdataEnc edata salt iter with
            | err => rw [hee] at h; cases h
            | oob => rw [hee] at h; cases h
            | ok e3 =>
              rw [hee] at h; cases h
              -- the KWP facts: wrap succeeded, so the key length is admissible and the payload code has ≥ 16 octets
              have hkw : ¬ (pki.length < 16 ∨ Bee2V.C01.validKeyLen key.length = false) := by
                intro hb
                have := (Bee2V.C01.kwpWrap_badInput_iff C pki none key).mpr hb
                rw [hw] at this; cases this
              have hk16 : 16 ≤ pki.length := by
                have := not_or.mp hkw; omega
              have hkv : Bee2V.C01.validKeyLen key.length = true := by
                cases hv : Bee2V.C01.validKeyLen key.length
                · exact absurd (Or.inr hv) hkw
                · rfl
              obtain ⟨tok, ht1, _, ht2⟩ := Bee2V.C01.kwpUnwrap_kwpWrap C hC pki none key hk16 hkv (by intro h hh; cases hh)
              rw [hw] at ht1
              have htok : tok = edata := by cases ht1; rfl
              subst htok
              unfold pkiUnwrap
              rw [hcodec2 _ _ hee]; dsimp only
              rw [hk]; dsimp only
              rw [ht2]; dsimp only
              rw [hcodec1 pki he]; dsimp only
              rw [if_neg (by simp)]
              -- the first-octet rule of shares was already enforced by Wrap
              have hsh : ¬ (kind = .share ∧ ((payload.headD 0).toNat = 0 ∨ (payload.headD 0).toNat > 16)) := by
                rintro ⟨hkd, hb⟩
                subst hkd
                simp only [payloadCheck] at hpc'
                by_cases hb' : (payload.length ≠ 17 ∧ payload.length ≠ 25 ∧ payload.length ≠ 33) ∨
                    (payload.headD 0).toNat = 0 ∨ (payload.headD 0).toNat > 16
                · rw [if_pos hb'] at hpc'; cases hpc'
                · exact hb' (Or.inr hb)
              rw [if_neg hsh]

end Bee2V.C17

/-
C17 — property theorems, password-protected containers (bpki.c).  Model: ModelBpki.lean.
-/
import Bee2V.C17.LemmasBpki
namespace Bee2V.C17
open Bee2V.C01 (Cipher)

/-- bpkiPrivkeyWrap / bpkiShareWrap refuse an iteration count below 10000 (before anything else) -/
theorem pkiWrap_iter_refused (C : Cipher) (kind : PkiKind) (payload pwd salt : Bytes) (iter : Nat) (h : iter < 10000) :
    pkiWrap C kind payload pwd salt iter = (.badInput, []) := by
  unfold pkiWrap
  rw [iterMin_eq, if_pos h]
example : (9999 : Nat) < 10000 := by decide

end Bee2V.C17

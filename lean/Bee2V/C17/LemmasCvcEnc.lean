/-
C17 — encoder side of the CV-certificate code: the code-shaped encoders `bodyEnc` / `certEnc` (lists of
`derEncStep` lines run by the C08 interpreter `runEnc`, with the SEQ anchors patched by derTSEQEncStop) write
exactly the explicit DER code of CvcCode.lean.  No Mathlib.
-/
import Bee2V.C17.CvcCode
namespace Bee2V.C17
open Bee2V.C08
open Bee2V.Gen.C17Src (nameMin nameMax pubLens)

/-! ### ground facts (each evaluated once by the kernel) -/

theorem oidC_of_isOk (oid : Bytes) (h : (derOIDEnc oid).isOk = true) : derOIDEnc oid = .ok (oidC oid) := by
  unfold oidC
  generalize derOIDEnc oid = r at h ⊢
  cases r with
  | ok b => rfl
  | err => exact absurd h (by decide)
  | oob => exact absurd h (by decide)

theorem oid_pubkey_isOk : (derOIDEnc oid_pubkey).isOk = true := by decide +kernel
theorem oid_eid_isOk : (derOIDEnc oid_eid_access).isOk = true := by decide +kernel
theorem oid_esign_isOk : (derOIDEnc oid_esign_access).isOk = true := by decide +kernel
theorem oid_ext_isOk : (derOIDEnc oid_esign_auth_ext).isOk = true := by decide +kernel

theorem oidC_ok_pubkey : derOIDEnc oid_pubkey = .ok (oidC oid_pubkey) := oidC_of_isOk _ oid_pubkey_isOk
theorem oidC_ok_eid : derOIDEnc oid_eid_access = .ok (oidC oid_eid_access) := oidC_of_isOk _ oid_eid_isOk
theorem oidC_ok_esign : derOIDEnc oid_esign_access = .ok (oidC oid_esign_access) := oidC_of_isOk _ oid_esign_isOk
theorem oidC_ok_ext : derOIDEnc oid_esign_auth_ext = .ok (oidC oid_esign_auth_ext) := oidC_of_isOk _ oid_ext_isOk

theorem oidC_len_pubkey : (oidC oid_pubkey).length ≤ 16 := by decide +kernel
theorem oidC_len_eid : (oidC oid_eid_access).length ≤ 16 := by decide +kernel
theorem oidC_len_esign : (oidC oid_esign_access).length ≤ 16 := by decide +kernel
theorem oidC_len_ext : (oidC oid_esign_auth_ext).length ≤ 16 := by decide +kernel

theorem verC_ok : derTSIZEEnc 0x5F29 0 = .ok verC := by decide +kernel

theorem tv_7F4E : derTIsValid 0x7F4E = true := by decide +kernel
theorem tv_5F29 : derTIsValid 0x5F29 = true := by decide +kernel
theorem tv_42 : derTIsValid 0x42 = true := by decide +kernel
theorem tv_7F49 : derTIsValid 0x7F49 = true := by decide +kernel
theorem tv_5F20 : derTIsValid 0x5F20 = true := by decide +kernel
theorem tv_7F4C : derTIsValid 0x7F4C = true := by decide +kernel
theorem tv_5F25 : derTIsValid 0x5F25 = true := by decide +kernel
theorem tv_5F24 : derTIsValid 0x5F24 = true := by decide +kernel
theorem tv_65 : derTIsValid 0x65 = true := by decide +kernel
theorem tv_73 : derTIsValid 0x73 = true := by decide +kernel
theorem tv_7F21 : derTIsValid 0x7F21 = true := by decide +kernel
theorem tv_5F37 : derTIsValid 0x5F37 = true := by decide +kernel
theorem tv_3 : derTIsValid 3 = true := by decide +kernel
theorem tv_4 : derTIsValid 4 = true := by decide +kernel

theorem tc_7F4E : derTIsConstructive 0x7F4E = true := by decide +kernel
theorem tc_7F49 : derTIsConstructive 0x7F49 = true := by decide +kernel
theorem tc_7F4C : derTIsConstructive 0x7F4C = true := by decide +kernel
theorem tc_65 : derTIsConstructive 0x65 = true := by decide +kernel
theorem tc_73 : derTIsConstructive 0x73 = true := by decide +kernel
theorem tc_7F21 : derTIsConstructive 0x7F21 = true := by decide +kernel

/-! ### the primitive encoders write the explicit codes -/

theorem tlvC_ok (tag : Nat) (v : Bytes) (hv : derTIsValid tag = true) : derEnc tag v = .ok (tlvC tag v) :=
  derEnc_eq tag v hv

theorem pstrC_ok (tag : Nat) (v : Bytes) (hv : derTIsValid tag = true)
    (hp : v.all (fun c => isPrintable c.toNat) = true) : derTPSTREnc tag v = .ok (tlvC tag v) := by
  unfold derTPSTREnc
  rw [hp]
  exact tlvC_ok tag v hv

theorem derTEnc_3 : derTEnc 3 = .ok [3] := by decide +kernel
theorem tCount_3 : beBytes (tCount 3) 3 = [3] := by decide +kernel

theorem bitC_ok (pk : Bytes) (h : 8 * pk.length + 15 < W) :
    derTBITEnc 3 pk (8 * pk.length) = .ok (bitC pk) := by
  have e1 : (8 * pk.length + 7) % W / 8 = pk.length := by
    rw [Nat.mod_eq_of_lt (by omega)]; omega
  have e2 : (8 * pk.length + 15) % W / 8 = pk.length + 1 := by
    rw [Nat.mod_eq_of_lt (by omega)]; omega
  have e3 : 8 * pk.length % 8 = 0 := by omega
  have e4 : rdSlice pk 0 pk.length = .ok pk := by
    unfold rdSlice; simp
  unfold derTBITEnc
  simp only [e1, e2, e3, e4, derTEnc_3, ne_eq, not_true_eq_false, if_false]
  unfold bitC tlvC
  rw [tCount_3]
  simp

/-! ### the structure written by btokCVCBodyEnc as a tree of codes -/

/-- the optional CertHAT (eId) -/
def hatEidTree (c : Cvc) : List Tree :=
  if !isZero c.hatEid then [.seq 2 0x7F4C [.prim (oidC oid_eid_access), .prim (tlvC 4 c.hatEid)]] else []

/-- the optional CVExt (eSign) -/
def hatEsignTree (c : Cvc) : List Tree :=
  if !isZero c.hatEsign then
    [.seq 3 0x65 [.seq 4 0x73 [.prim (oidC oid_esign_auth_ext),
      .seq 5 0x7F4C [.prim (oidC oid_esign_access), .prim (tlvC 4 c.hatEsign)]]]]
  else []

/-- CertificateBody with the anchor slots of btokCVCBodyEnc -/
def bodyTree (c : Cvc) : Tree :=
  .seq 0 0x7F4E
    ([.prim verC, .prim (tlvC 0x42 c.authority),
      .seq 1 0x7F49 [.prim (oidC oid_pubkey), .prim (bitC c.pubkey)],
      .prim (tlvC 0x5F20 c.holder)] ++ hatEidTree c ++
     [.prim (tlvC 0x5F25 c.from_), .prim (tlvC 0x5F24 c.until_)] ++ hatEsignTree c)

theorem code_prim (b : Bytes) : (Tree.prim b).code = b := by simp only [Tree.code]

theorem code_seq (slot tag : Nat) (kids : List Tree) : (Tree.seq slot tag kids).code = tlvC tag (Tree.codeL kids) := by
  simp only [Tree.code, tlvC]

/-- the `derEncStep` lines of btokCVCBodyEnc are the lines of the tree (all primitive encoders succeed) -/
theorem bodyEncSteps_eq (c : Cvc) (ha : c.authority.all (fun ch => isPrintable ch.toNat) = true)
    (hh : c.holder.all (fun ch => isPrintable ch.toNat) = true) (hk : 8 * c.pubkey.length + 15 < W) :
    bodyEncSteps c = Tree.stepsL [bodyTree c] := by
  unfold bodyEncSteps bodyTree hatEidTree hatEsignTree
  rw [verC_ok, pstrC_ok _ _ tv_42 ha, pstrC_ok _ _ tv_5F20 hh, oidC_ok_pubkey, oidC_ok_eid, oidC_ok_esign,
    oidC_ok_ext, bitC_ok _ hk, tlvC_ok _ c.hatEid tv_4, tlvC_ok _ c.hatEsign tv_4, tlvC_ok _ _ tv_5F25,
    tlvC_ok _ _ tv_5F24]
  generalize oidC oid_pubkey = o1
  generalize oidC oid_eid_access = o2
  generalize oidC oid_esign_access = o3
  generalize oidC oid_esign_auth_ext = o4
  cases isZero c.hatEid <;> cases isZero c.hatEsign <;>
    simp only [Bool.not_true, Bool.not_false, Bool.false_eq_true, if_true, if_false, Tree.stepsL, Tree.steps,
      List.cons_append, List.nil_append, List.append_nil]

/-- the code of the tree is the explicit code -/
theorem bodyTree_code (c : Cvc) : Tree.codeL [bodyTree c] = bodyCode c := by
  unfold bodyCode bodyContent hatEidC hatEsignC bodyTree hatEidTree hatEsignTree
  generalize oidC oid_pubkey = o1
  generalize oidC oid_eid_access = o2
  generalize oidC oid_esign_access = o3
  generalize oidC oid_esign_auth_ext = o4
  cases isZero c.hatEid <;> cases isZero c.hatEsign <;>
    simp only [Bool.not_true, Bool.not_false, Bool.false_eq_true, if_true, if_false, Tree.codeL, code_prim, code_seq,
      List.cons_append, List.nil_append, List.append_nil, List.append_assoc]

/-- tags valid / constructive / u32; no slot reused inside its own SEQUENCE -/
theorem bodyTree_ok (c : Cvc) : Tree.OkL [bodyTree c] := by
  unfold bodyTree hatEidTree hatEsignTree
  cases isZero c.hatEid <;> cases isZero c.hatEsign <;>
    simp only [Bool.not_true, Bool.not_false, Bool.false_eq_true, if_true, if_false, Tree.OkL, Tree.Ok, Tree.slotsL,
      Tree.slots, List.cons_append, List.nil_append, List.append_nil, tv_7F4E, tv_7F49, tv_7F4C, tv_65, tv_73,
      tc_7F4E, tc_7F49, tc_7F4C, tc_65, tc_73, and_true, true_and] <;>
    decide

theorem tlvC_len (tag : Nat) (v : Bytes) (ht : tag < U32) (hv : v.length < W) :
    (tlvC tag v).length ≤ v.length + 13 := by
  have h4 := tCount_le4 tag ht
  have h9 := derLEnc_le9 v.length hv
  simp only [tlvC, List.length_append, beBytes_length]
  omega

theorem bitC_len (pk : Bytes) (h : pk.length + 1 < W) : (bitC pk).length ≤ pk.length + 14 := by
  have := tlvC_len 3 (0 :: pk) (by decide) (by simpa using h)
  simpa [bitC] using this

theorem date_len (d : Bytes) (h : dateIsValid d = true) : d.length = 6 := by
  unfold dateIsValid at h
  split at h
  · rfl
  · exact absurd h (by decide)

theorem name_facts (n : Bytes) (h : nameIsValid n = true) :
    n.length ≤ 12 ∧ n.all (fun ch => isPrintable ch.toNat) = true := by
  unfold nameIsValid at h
  simp only [Bool.and_eq_true, decide_eq_true_eq] at h
  exact ⟨h.1.2, h.2⟩

theorem pubkey_len_le (n : Nat) (h : pubkeyLenOk n = true) : n ≤ 128 := by
  unfold pubkeyLenOk at h
  rw [show pubLens = [48, 64, 96, 128] from rfl] at h
  simp only [List.contains_eq_mem, List.mem_cons, List.not_mem_nil, or_false, decide_eq_true_eq] at h
  omega

/-- the code-length bound of the tree (needed only to exclude size_t wrap in derTSEQEncStop) -/
theorem bodyTree_bound (c : Cvc) (ha : c.authority.length ≤ 12) (hh : c.holder.length ≤ 12)
    (hk : c.pubkey.length ≤ 128) (hf : c.from_.length = 6) (hu : c.until_.length = 6)
    (he : c.hatEid.length < 4294967296) (hs : c.hatEsign.length < 4294967296) :
    Tree.boundL [bodyTree c] ≤ 8589935000 := by
  have w1 : c.authority.length < W := by omegaW
  have w2 : c.holder.length < W := by omegaW
  have w3 : c.from_.length < W := by omegaW
  have w4 : c.until_.length < W := by omegaW
  have w5 : c.hatEid.length < W := by omegaW
  have w6 : c.hatEsign.length < W := by omegaW
  have w7 : c.pubkey.length + 1 < W := by omegaW
  have l1 := tlvC_len 0x42 c.authority (by decide) w1
  have l2 := tlvC_len 0x5F20 c.holder (by decide) w2
  have l3 := tlvC_len 0x5F25 c.from_ (by decide) w3
  have l4 := tlvC_len 0x5F24 c.until_ (by decide) w4
  have l5 := tlvC_len 4 c.hatEid (by decide) w5
  have l6 := tlvC_len 4 c.hatEsign (by decide) w6
  have l7 := bitC_len c.pubkey w7
  have l8 : verC.length = 4 := rfl
  have o1 := oidC_len_pubkey
  have o2 := oidC_len_eid
  have o3 := oidC_len_esign
  have o4 := oidC_len_ext
  clear w1 w2 w3 w4 w5 w6 w7
  unfold bodyTree hatEidTree hatEsignTree
  generalize oidC oid_pubkey = b1 at o1 ⊢
  generalize oidC oid_eid_access = b2 at o2 ⊢
  generalize oidC oid_esign_access = b3 at o3 ⊢
  generalize oidC oid_esign_auth_ext = b4 at o4 ⊢
  cases isZero c.hatEid <;> cases isZero c.hatEsign <;>
    simp only [Bool.not_true, Bool.not_false, Bool.false_eq_true, if_true, if_false, Tree.boundL, Tree.bound,
      List.cons_append, List.nil_append, List.append_nil, l8] <;>
    (generalize (tlvC 0x42 c.authority).length = n1 at l1 ⊢
     generalize (tlvC 0x5F20 c.holder).length = n2 at l2 ⊢
     generalize (tlvC 0x5F25 c.from_).length = n3 at l3 ⊢
     generalize (tlvC 0x5F24 c.until_).length = n4 at l4 ⊢
     generalize (tlvC 4 c.hatEid).length = n5 at l5 ⊢
     generalize (tlvC 4 c.hatEsign).length = n6 at l6 ⊢
     generalize (bitC c.pubkey).length = n7 at l7 ⊢
     omega)

/-- btokCVCBodyEnc writes exactly the explicit code of CertificateBody.  The bounds on the two HAT fields
    (5 and 2 octets in `btok_cvc_t`; any bound below 2^32 serves) only exclude size_t wrap of the lengths. -/
theorem bodyEnc_eq' (c : Cvc) (hv : cvcSeemsValid c = true) (he : c.hatEid.length < 4294967296)
    (hs : c.hatEsign.length < 4294967296) : bodyEnc c = .ok (bodyCode c) := by
  have hv' := hv
  unfold cvcSeemsValid at hv'
  simp only [Bool.and_eq_true] at hv'
  obtain ⟨⟨⟨⟨⟨h1, h2⟩, h3⟩, h4⟩, _⟩, h6⟩ := hv'
  obtain ⟨ha, hap⟩ := name_facts _ h1
  obtain ⟨hh, hhp⟩ := name_facts _ h2
  have hk := pubkey_len_le _ h6
  have hb := bodyTree_bound c ha hh hk (date_len _ h3) (date_len _ h4) he hs
  unfold bodyEnc
  rw [hv, Bool.not_true, if_neg Bool.false_ne_true, bodyEncSteps_eq c hap hhp (by omegaW),
    runEnc_tree [bodyTree c] (bodyTree_ok c) [] [] (by simp only [List.length_nil]; omegaW), List.nil_append,
    bodyTree_code]

theorem bodyEnc_eq (c : Cvc) (hv : cvcSeemsValid c = true) (he : c.hatEid.length ≤ 5) (hs : c.hatEsign.length ≤ 2) :
    bodyEnc c = .ok (bodyCode c) :=
  bodyEnc_eq' c hv (by omega) (by omega)

/-- non-vacuity: a certificate with both optional parts satisfies the hypotheses -/
example : let c : Cvc := ⟨cstr "BYCA0000", cstr "BYCA1000", List.replicate 64 7, [2, 2, 0, 7, 0, 7],
      [2, 3, 0, 7, 0, 7], [1, 2, 3, 4, 5], [6, 7], []⟩
    cvcSeemsValid c = true ∧ c.hatEid.length ≤ 5 ∧ c.hatEsign.length ≤ 2 ∧ isZero c.hatEid = false ∧
      isZero c.hatEsign = false := by decide +kernel

/-! ### CVCertificate -/

/-- btokCVCWrap's SEQ[0x7F21] { body, OCT[0x5F37] sig } is the explicit code -/
theorem certEnc_eq (body sig : Bytes) (hW : body.length + sig.length + 64 < W) :
    certEnc body sig = .ok (certCode body sig) := by
  have l1 := tlvC_len 0x5F37 sig (by decide) (by omegaW)
  have hs : [EStep.start 0 0x7F21, .bytes (.ok body), .bytes (.ok (tlvC 0x5F37 sig)), .stop 0] =
      Tree.stepsL [.seq 0 0x7F21 [.prim body, .prim (tlvC 0x5F37 sig)]] := by
    simp only [Tree.stepsL, Tree.steps, List.cons_append, List.nil_append, List.append_nil]
  have hok : Tree.OkL [.seq 0 0x7F21 [.prim body, .prim (tlvC 0x5F37 sig)]] := by
    simp only [Tree.OkL, Tree.Ok, Tree.slotsL, Tree.slots, List.append_nil, tv_7F21, tc_7F21,
      and_true, true_and]
    decide
  unfold certEnc
  rw [tlvC_ok _ _ tv_5F37, hs, runEnc_tree _ hok [] []
    (by simp only [Tree.boundL, Tree.bound, List.length_nil]; omegaW), List.nil_append]
  simp only [Tree.codeL, code_prim, code_seq, List.append_nil, certCode]

end Bee2V.C17

/-
C04 — executable, code-shaped model of src/crypto/bake.c (bakeKDF, bakeSWU2 as a context operation,
BMQV / BSTS / BPACE Start, Step2..Step6, StepG, the RunA / RunB drivers over read/write callbacks)
and src/crypto/btok/btok_bauth.c (BAUTH: CT/T Start, Step2..Step5, StepG) over an abstract
environment `Env G` = the bign context of C02 (`Ctx G`: group operations, point encoding, belt-hash)
+ the further belt primitives the protocols call + the SWU map + the certificate callback.
No Mathlib: this file is linked into the native driver `drv_c04`.

Conventions (shared with C02/Model.lean)
* octet strings = `List UInt8`; numbers little-endian; field/scalar VALUES are `Nat`
  (`wwFrom/wwTo/qrFrom/qrTo` are the identity on values for the plain representation of these moduli);
* `err_t` = `Nat` with the values regenerated from err.h (`Bee2V.Gen.C04Err`); callbacks (certificate
  validation, read, write) may return ANY code and the code is propagated as the C text does;
* a step = `state → inputs → Except err (state × outgoing message)`: the C functions leave the state
  partially updated when they fail; no caller in scope continues after a failure, so the model drops it;
* the caller's generator (`settings->rng`) is a tape in the state: every request takes the next octets;
* buffer LENGTHS of fixed-size messages are preconditions of the C API (`in` must hold `2·no` octets
  …) and are enforced by harness and driver; the variable-length messages of BSTS / BAUTH carry
  `in_len` and the model checks it exactly as the code does;
* not modelled (cannot fail through the harness): `memIsValid*`, `objIsOperable`, `rng == 0`,
  `blobCreate == 0`, `bignIsOperable` (only the three standard parameter sets are used).
-/
import Bee2V.C02.Model
import Bee2V.Gen.C04Err
namespace Bee2V.C04
open Bee2V.C02 (Bytes leNat natLE zeros Ctx tapeRead randNZMod loadPub encXY hashL subMod)
open Bee2V.Gen.C04Err

abbrev Err := Nat

/-! ### the environment: what bake.c / btok_bauth.c call -/

structure Env (G : Type) extends Ctx G where
  /-- `beltKRPStart(K, 32, 1^96); beltKRPStepG(out, 32, <i>_8 ‖ 0^120)`: the key of number i -/
  krp : Bytes → Nat → Bytes
  /-- `beltMACStart(K, 32); beltMACStepA(data) …; beltMACStepG` (8 octets) -/
  mac : Bytes → Bytes → Bytes
  /-- `beltCFBStart(K, 32, iv); beltCFBStepE(data)` -/
  cfbE : Bytes → Bytes → Bytes → Bytes
  cfbD : Bytes → Bytes → Bytes → Bytes
  /-- `beltECBStart(K, 32); beltECBStepE(data)` -/
  ecbE : Bytes → Bytes → Bytes
  ecbD : Bytes → Bytes → Bytes
  /-- `beltKWPWrap(token, src, count, 0^128, K, 32)` -/
  kwpW : Bytes → Bytes → Bytes
  /-- `beltKWPUnwrap(dest, token, count, 0^128, K, 32)`: `none` ⇔ the code is not ERR_OK -/
  kwpU : Bytes → Bytes → Option Bytes
  /-- `bakeSWU2`: the point of `no` octets -/
  swu : Bytes → G
  /-- the certificate callback `bake_certval_i`: (code, the `2·no` octets written to pubkey) -/
  certVal : Bytes → Err × Bytes

variable {G : Type}

abbrev Env.C (E : Env G) : Ctx G := E.toCtx
def Env.no (E : Env G) : Nat := E.toCtx.no
def Env.W (E : Env G) : Nat := E.toCtx.W

/-- `bake_settings` without the generator (which lives in the state as a tape).
`kca`, `kcb` are `bool_t` = int: most tests are `!= 0`, BSTS/BAUTH demand `== TRUE` (1);
`none` = NULL pointer -/
structure Settings where
  kca : Nat
  kcb : Nat
  helloa : Option Bytes
  hellob : Option Bytes
  deriving DecidableEq, Repr

/-- `if (helloa) beltHashStepH(helloa, helloa_len); if (hellob) beltHashStepH(hellob, hellob_len)` -/
def Settings.hello (s : Settings) : Bytes :=
  (match s.helloa with | some h => h | none => []) ++ (match s.hellob with | some h => h | none => [])

def ones (n : Nat) : Bytes := List.replicate n 0xFF

/-- `certX->val(Q, params, data, len); qrFrom; qrFrom; ecpIsOnA` -/
def certPub (E : Env G) (cert : Bytes) : Except Err G :=
  let r := E.certVal cert
  if r.1 ≠ ERR_OK then .error r.1 else
  match loadPub E.C r.2 with
  | some Q => .ok Q
  | none => .error ERR_BAD_CERT

/-- `u <-R {1..q-1}; V <- u·P; (V == O ⇒ FALSE)` : the new tape, u, the coordinates of V -/
def ephem (E : Env G) (P : G) (tape : Bytes) : Except Err (Bytes × Nat × (Nat × Nat)) :=
  match randNZMod E.C tape with
  | (none, _) => .error ERR_BAD_RNG
  | (some u, rest) =>
    match E.xy (E.smul u P) with
    | none => .error ERR_BAD_PARAMS
    | some V => .ok (rest, u, V)

/-- `t <- <beltHash(a ‖ b)>_l` as a number (beltHashStepG2(no/2), wwFrom) -/
def hashT (E : Env G) (a b : Bytes) : Nat := leNat (hashL E.C (a ++ b))

/-- `s <- (u - (2^l + t)d) mod q` as computed: zzMul, zzAdd2 (shifted by l bits), zzMod, zzSubMod -/
def mqvS (E : Env G) (u d t : Nat) : Nat :=
  subMod E.W u ((t * d + 2 ^ E.l * d) % E.q) E.q

/-- x-coordinate of the base point (`qrTo(K, ec->base)`) -/
def baseX (E : Env G) : Nat := match E.xy E.base with | some b => b.1 | none => 0

/-- `K <- s(V - (2^l + t)Q), K == O ⇒ K <- G`, as bakeBMQVStep3/4 compute it: ecMulA (t with the top
word 1; FALSE ⇒ ERR_BAD_PARAMS), then `!ecpSubAA(…) || !ecMulA(…, s, …)` ⇒ the base point (the
difference is O, or the scalar s is 0 modulo q: repaired by docs/C04.fix-1.diff — before, the second
case returned ERR_BAD_PARAMS on honest runs).  Result: `<K>_2l`. -/
def mqvK (E : Env G) (V Q : G) (t s : Nat) : Except Err Bytes :=
  match E.xy (E.smul (t + 2 ^ E.l) Q) with
  | none => .error ERR_BAD_PARAMS
  | some _ =>
    let D := E.add V (E.neg (E.smul (t + 2 ^ E.l) Q))
    match E.xy D with
    | none => .ok (natLE E.no (baseX E))
    | some _ =>
      match E.xy (E.smul s D) with
      | none => .ok (natLE E.no (baseX E))
      | some K => .ok (natLE E.no K.1)

/-- `s·G + (2^l + t)·Q` by ecAddMulA (FALSE for O), `t1` = t with the top word already set -/
def addMul (E : Env G) (s : Nat) (Q : G) (t1 : Nat) : Option (Nat × Nat) :=
  E.xy (E.add (E.smul s E.base) (E.smul t1 Q))

/-! ### bakeKDF -/

/-- `key <- beltKRP(beltHash(secret ‖ iv), 1^96, num)` (num as 8 little-endian octets, then zeros) -/
def kdf (E : Env G) (secret iv : Bytes) (num : Nat) : Bytes :=
  E.krp (E.hash (secret ++ iv)) num

/-! ### BMQV -/

structure BmqvSt where
  set : Settings
  d : Nat
  u : Nat
  /-- `s->Vb`: the saved `<Vb>_2l` (x-coordinate octets) -/
  vb : Bytes
  cert : Bytes
  k0 : Bytes
  k1 : Bytes
  tape : Bytes
  deriving Repr

/-- bakeBMQVStart (the same function for both parties) -/
def bmqvStart (E : Env G) (set : Settings) (priv cert tape : Bytes) : Except Err BmqvSt :=
  match certPub E cert with
  | .error e => .error e
  | .ok _ => .ok ⟨set, leNat priv, 0, [], cert, [], [], tape⟩

/-- bakeBMQVStep2 (B): `out = <Vb>_4l` -/
def bmqvStep2 (E : Env G) (s : BmqvSt) : Except Err (BmqvSt × Bytes) :=
  match ephem E E.base s.tape with
  | .error e => .error e
  | .ok (rest, u, V) =>
    let out := encXY E.C V
    .ok ({ s with u := u, vb := out.take E.no, tape := rest }, out)

/-- the tail shared by Step3 and Step4: `K <- beltHash(<K> ‖ certa ‖ certb ‖ helloa ‖ hellob)`, K0, K1 -/
def bmqvKeys (E : Env G) (s : BmqvSt) (K certa certb : Bytes) : Bytes × Bytes :=
  let Y := E.hash (K ++ certa ++ certb ++ s.set.hello)
  (E.krp Y 0, if s.set.kca ≠ 0 ∨ s.set.kcb ≠ 0 then E.krp Y 1 else s.k1)

/-- bakeBMQVStep3 (A): `inp = <Vb>_4l`, `out = <Va>_4l [‖ Ta]` -/
def bmqvStep3 (E : Env G) (s : BmqvSt) (inp certb : Bytes) : Except Err (BmqvSt × Bytes) :=
  match certPub E certb with
  | .error e => .error e
  | .ok Qb =>
    match loadPub E.C inp with
    | none => .error ERR_BAD_POINT
    | some Vb =>
      match ephem E E.base s.tape with
      | .error e => .error e
      | .ok (rest, u, Va) =>
        let va := encXY E.C Va
        let t := hashT E (va.take E.no) (inp.take E.no)
        let sa := mqvS E u s.d t
        match mqvK E Vb Qb t sa with
        | .error e => .error e
        | .ok K =>
          let ks := bmqvKeys E s K s.cert certb
          .ok ({ s with u := u, k0 := ks.1, k1 := ks.2, tape := rest },
               va ++ (if s.set.kca ≠ 0 then E.mac ks.2 (zeros 16) else []))

/-- bakeBMQVStep4 (B): `inp = <Va>_4l [‖ Ta]`, `out = [Tb]` -/
def bmqvStep4 (E : Env G) (s : BmqvSt) (inp certa : Bytes) : Except Err (BmqvSt × Bytes) :=
  match certPub E certa with
  | .error e => .error e
  | .ok Qa =>
    match loadPub E.C (inp.take (2 * E.no)) with
    | none => .error ERR_BAD_POINT
    | some Va =>
      let t := hashT E (inp.take E.no) s.vb
      let sb := mqvS E s.u s.d t
      match mqvK E Va Qa t sb with
      | .error e => .error e
      | .ok K =>
        let ks := bmqvKeys E s K certa s.cert
        if s.set.kca ≠ 0 ∧ E.mac ks.2 (zeros 16) ≠ (inp.drop (2 * E.no)).take 8 then .error ERR_AUTH else
        .ok ({ s with k0 := ks.1, k1 := ks.2 }, if s.set.kcb ≠ 0 then E.mac ks.2 (ones 16) else [])

/-- bakeBMQVStep5 (A): `inp = Tb` -/
def bmqvStep5 (E : Env G) (s : BmqvSt) (inp : Bytes) : Except Err BmqvSt :=
  if s.set.kcb = 0 then .error ERR_BAD_LOGIC else
  if E.mac s.k1 (ones 16) ≠ inp.take 8 then .error ERR_AUTH else .ok s

def bmqvStepG (s : BmqvSt) : Bytes := s.k0

/-! ### BSTS -/

structure BstsSt (G : Type) where
  set : Settings
  d : Nat
  u : Nat
  /-- `s->t` (n/2 + 1 words: t with the top word 1); shares its storage with `u` in C — written by
  Step3 after the last use of u -/
  t : Nat
  /-- `s->Vb`: the point (own for B, received for A) and its coordinates -/
  vbP : G
  vb : Nat × Nat
  cert : Bytes
  k0 : Bytes
  k1 : Bytes
  k2 : Bytes
  tape : Bytes

/-- bakeBSTSStart: both confirmations are mandatory (`kca != TRUE || kcb != TRUE` ⇒ ERR_BAD_INPUT) -/
def bstsStart (E : Env G) (set : Settings) (priv cert tape : Bytes) : Except Err (BstsSt G) :=
  if set.kca ≠ 1 ∨ set.kcb ≠ 1 then .error ERR_BAD_INPUT else
  match certPub E cert with
  | .error e => .error e
  | .ok _ => .ok ⟨set, leNat priv, 0, 0, E.zero, (0, 0), cert, [], [], [], tape⟩

/-- bakeBSTSStep2 (B) -/
def bstsStep2 (E : Env G) (s : BstsSt G) : Except Err (BstsSt G × Bytes) :=
  match ephem E E.base s.tape with
  | .error e => .error e
  | .ok (rest, u, V) =>
    .ok ({ s with u := u, vbP := E.smul u E.base, vb := V, tape := rest }, encXY E.C V)

/-- `K <- beltHash(<K>_2l ‖ helloa ‖ hellob)`; K0, K1, K2 -/
def bstsKeys (E : Env G) (set : Settings) (Kx : Nat) : Bytes × Bytes × Bytes :=
  let Y := E.hash (natLE E.no Kx ++ set.hello)
  (E.krp Y 0, E.krp Y 1, E.krp Y 2)

/-- bakeBSTSStep3 (A): `inp = <Vb>_4l`, `out = <Va>_4l ‖ CFB_{K2,0}(sa ‖ certa) ‖ MAC_{K1}(… ‖ 0^128)` -/
def bstsStep3 (E : Env G) (s : BstsSt G) (inp : Bytes) : Except Err (BstsSt G × Bytes) :=
  match loadPub E.C inp with
  | none => .error ERR_BAD_POINT
  | some Vb =>
    match ephem E E.base s.tape with
    | .error e => .error e
    | .ok (rest, u, Va) =>
      let va := encXY E.C Va
      let t := hashT E (va.take E.no) (inp.take E.no)
      let sa := mqvS E u s.d t
      match E.xy (E.smul u Vb) with
      | none => .error ERR_BAD_PARAMS
      | some K =>
        let ks := bstsKeys E s.set K.1
        let y := E.cfbE ks.2.2 (zeros 16) (natLE E.no sa ++ s.cert)
        .ok ({ s with u := u, t := t + 2 ^ E.l, vbP := Vb, vb := (leNat (inp.take E.no), leNat (inp.drop E.no)),
                      k0 := ks.1, k1 := ks.2.1, k2 := ks.2.2, tape := rest },
             va ++ y ++ E.mac ks.2.1 (y ++ zeros 16))

/-- bakeBSTSStep4 (B): `inp = <Va>_4l ‖ Ya ‖ Ta`, `out = CFB_{K2,1}(sb ‖ certb) ‖ MAC_{K1}(… ‖ 1^128)` -/
def bstsStep4 (E : Env G) (s : BstsSt G) (inp : Bytes) : Except Err (BstsSt G × Bytes) :=
  let no := E.no
  if inp.length ≤ 3 * no + 8 then .error ERR_BAD_INPUT else
  match loadPub E.C (inp.take (2 * no)) with
  | none => .error ERR_BAD_POINT
  | some Va =>
    match E.xy (E.smul s.u Va) with
    | none => .error ERR_BAD_PARAMS
    | some K =>
      let ks := bstsKeys E s.set K.1
      let ya := (inp.drop (2 * no)).take (inp.length - 2 * no - 8)
      if E.mac ks.2.1 (ya ++ zeros 16) ≠ inp.drop (inp.length - 8) then .error ERR_AUTH else
      let pa := E.cfbD ks.2.2 (zeros 16) ya
      let sa := leNat (pa.take no)
      if sa ≥ E.q then .error ERR_AUTH else
      match certPub E (pa.drop no) with
      | .error e => .error e
      | .ok Qa =>
        let t := hashT E (inp.take no) (natLE no s.vb.1)
        match addMul E sa Qa (t + 2 ^ E.l) with
        | none => .error ERR_BAD_PARAMS
        | some R =>
          if R ≠ (leNat (inp.take no), leNat ((inp.drop no).take no)) then .error ERR_AUTH else
          let sb := mqvS E s.u s.d t
          let y := E.cfbE ks.2.2 (ones 16) (natLE no sb ++ s.cert)
          .ok ({ s with k0 := ks.1, k1 := ks.2.1, k2 := ks.2.2 }, y ++ E.mac ks.2.1 (y ++ ones 16))

/-- bakeBSTSStep5 (A): `inp = Yb ‖ Tb` -/
def bstsStep5 (E : Env G) (s : BstsSt G) (inp : Bytes) : Except Err (BstsSt G) :=
  let no := E.no
  if inp.length ≤ no + 8 then .error ERR_BAD_INPUT else
  let yb := inp.take (inp.length - 8)
  if E.mac s.k1 (yb ++ ones 16) ≠ inp.drop (inp.length - 8) then .error ERR_AUTH else
  let pb := E.cfbD s.k2 (ones 16) yb
  let sb := leNat (pb.take no)
  if sb ≥ E.q then .error ERR_AUTH else
  match certPub E (pb.drop no) with
  | .error e => .error e
  | .ok Qb =>
    match addMul E sb Qb s.t with
    | none => .error ERR_BAD_PARAMS
    | some R => if R ≠ s.vb then .error ERR_AUTH else .ok s

def bstsStepG (s : BstsSt G) : Bytes := s.k0

/-! ### BPACE -/

structure BpaceSt (G : Type) where
  set : Settings
  /-- `s->R` (no octets): `Ra ‖ Rb`, later `<Va>_2l` for A -/
  r : Bytes
  w : G
  u : Nat
  k0 : Bytes
  k1 : Bytes
  k2 : Bytes
  tape : Bytes

/-- bakeBPACEStart: `K2 <- beltHash(pwd)` -/
def bpaceStart (E : Env G) (set : Settings) (pwd tape : Bytes) : BpaceSt G :=
  ⟨set, zeros E.no, E.zero, 0, [], [], E.hash pwd, tape⟩

/-- bakeBPACEStep2 (B): `out = beltECB(Rb, K2)` -/
def bpaceStep2 (E : Env G) (s : BpaceSt G) : BpaceSt G × Bytes :=
  let h := E.no / 2
  let r := tapeRead h s.tape
  ({ s with r := s.r.take h ++ r.1, tape := r.2 }, E.ecbE s.k2 r.1)

/-- bakeBPACEStep3 (A): `inp = Yb`, `out = Ya ‖ <Va>_4l` -/
def bpaceStep3 (E : Env G) (s : BpaceSt G) (inp : Bytes) : Except Err (BpaceSt G × Bytes) :=
  let h := E.no / 2
  let rb := E.ecbD s.k2 inp
  let ra := tapeRead h s.tape
  let W := E.swu (ra.1 ++ rb)
  match ephem E W ra.2 with
  | .error e => .error e
  | .ok (rest, u, Va) =>
    let va := encXY E.C Va
    .ok ({ s with r := va.take E.no, w := W, u := u, tape := rest }, E.ecbE s.k2 ra.1 ++ va)

/-- `Y <- beltHash(<K> ‖ <Va>_2l ‖ <Vb>_2l ‖ helloa ‖ hellob)`; K0, K1 -/
def bpaceKeys (E : Env G) (set : Settings) (k1old : Bytes) (Kx : Nat) (vax vbx : Bytes) : Bytes × Bytes :=
  let Y := E.hash (natLE E.no Kx ++ vax ++ vbx ++ set.hello)
  (E.krp Y 0, if set.kca ≠ 0 ∨ set.kcb ≠ 0 then E.krp Y 1 else k1old)

/-- bakeBPACEStep4 (B): `inp = Ya ‖ <Va>_4l`, `out = <Vb>_4l [‖ Tb]` -/
def bpaceStep4 (E : Env G) (s : BpaceSt G) (inp : Bytes) : Except Err (BpaceSt G × Bytes) :=
  let no := E.no
  let h := no / 2
  match loadPub E.C ((inp.drop h).take (2 * no)) with
  | none => .error ERR_BAD_POINT
  | some Va =>
    let ra := E.ecbD s.k2 (inp.take h)
    let W := E.swu (ra ++ s.r.drop h)
    match randNZMod E.C s.tape with
    | (none, _) => .error ERR_BAD_RNG
    | (some u, rest) =>
      match E.xy (E.smul u Va) with
      | none => .error ERR_BAD_PARAMS
      | some K =>
        match E.xy (E.smul u W) with
        | none => .error ERR_BAD_PARAMS
        | some Vb =>
          let vb := encXY E.C Vb
          let ks := bpaceKeys E s.set s.k1 K.1 ((inp.drop h).take no) (vb.take no)
          .ok ({ s with r := ra ++ s.r.drop h, w := W, u := u, k0 := ks.1, k1 := ks.2, tape := rest },
               vb ++ (if s.set.kcb ≠ 0 then E.mac ks.2 (ones 16) else []))

/-- bakeBPACEStep5 (A): `inp = <Vb>_4l [‖ Tb]`, `out = [Ta]` -/
def bpaceStep5 (E : Env G) (s : BpaceSt G) (inp : Bytes) : Except Err (BpaceSt G × Bytes) :=
  let no := E.no
  match loadPub E.C (inp.take (2 * no)) with
  | none => .error ERR_BAD_POINT
  | some Vb =>
    match E.xy (E.smul s.u Vb) with
    | none => .error ERR_BAD_PARAMS
    | some K =>
      let ks := bpaceKeys E s.set s.k1 K.1 s.r (natLE no (leNat (inp.take no)))
      if s.set.kcb ≠ 0 ∧ E.mac ks.2 (ones 16) ≠ (inp.drop (2 * no)).take 8 then .error ERR_AUTH else
      .ok ({ s with k0 := ks.1, k1 := ks.2 }, if s.set.kca ≠ 0 then E.mac ks.2 (zeros 16) else [])

/-- bakeBPACEStep6 (B): `inp = Ta` -/
def bpaceStep6 (E : Env G) (s : BpaceSt G) (inp : Bytes) : Except Err (BpaceSt G) :=
  if s.set.kca = 0 then .error ERR_BAD_LOGIC else
  if E.mac s.k1 (zeros 16) ≠ inp.take 8 then .error ERR_AUTH else .ok s

def bpaceStepG (s : BpaceSt G) : Bytes := s.k0

/-! ### BAUTH (btok_bauth.c): T = terminal (side A), CT = token (side B) -/

structure BauthCtSt where
  set : Settings
  d : Nat
  u : Nat
  /-- `s->V`: `<Vct>_2l` -/
  v : Bytes
  /-- `s->R`: Rct (l/8 octets) -/
  r : Bytes
  cert : Bytes
  k0 : Bytes
  tape : Bytes
  deriving Repr

structure BauthTSt (G : Type) where
  set : Settings
  d : Nat
  vctP : G
  vct : Nat × Nat
  /-- `s->R`: Rt (16 octets) -/
  r : Bytes
  cert : Bytes
  k0 : Bytes
  k1 : Bytes
  k2 : Bytes
  tape : Bytes

/-- btokBAuthCTStart: `kca != TRUE` ⇒ ERR_BAD_INPUT -/
def bauthCtStart (E : Env G) (set : Settings) (priv cert tape : Bytes) : Except Err BauthCtSt :=
  if set.kca ≠ 1 then .error ERR_BAD_INPUT else
  match certPub E cert with
  | .error e => .error e
  | .ok _ => .ok ⟨set, leNat priv, 0, [], [], cert, [], tape⟩

/-- btokBAuthTStart -/
def bauthTStart (E : Env G) (set : Settings) (priv cert tape : Bytes) : Except Err (BauthTSt G) :=
  if set.kca ≠ 1 then .error ERR_BAD_INPUT else
  match certPub E cert with
  | .error e => .error e
  | .ok _ => .ok ⟨set, leNat priv, E.zero, (0, 0), [], cert, [], [], [], tape⟩

/-- the key-wrapping key: the first 32 octets of `<K>_2l` (`beltKWPWrap(…, (octet*)K, 32)`) -/
def kwKey (E : Env G) (Kx : Nat) : Bytes := (natLE E.no Kx).take 32

/-- btokBAuthCTStep2: `out = <Vct>_4l ‖ belt-keywrap(Rct, 0^128, <uct·Qt>)` -/
def bauthCtStep2 (E : Env G) (s : BauthCtSt) (certt : Bytes) : Except Err (BauthCtSt × Bytes) :=
  match certPub E certt with
  | .error e => .error e
  | .ok Qt =>
    let r := tapeRead (E.no / 2) s.tape
    match ephem E E.base r.2 with
    | .error e => .error e
    | .ok (rest, u, V) =>
      match E.xy (E.smul u Qt) with
      | none => .error ERR_BAD_PARAMS
      | some K =>
        let v := encXY E.C V
        .ok ({ s with u := u, v := v.take E.no, r := r.1, tape := rest }, v ++ E.kwpW (kwKey E K.1) r.1)

/-- `Y <- beltHash(<Rct>_l ‖ [<Rt>] ‖ helloa ‖ hellob)` -/
def bauthY (E : Env G) (set : Settings) (rct rt : Bytes) : Bytes :=
  E.hash (rct ++ (if set.kcb ≠ 0 then rt else []) ++ set.hello)

/-- btokBAuthTStep3: `inp = <Vct>_4l ‖ Zct`, `out = Tt [‖ Rt]` -/
def bauthTStep3 (E : Env G) (s : BauthTSt G) (inp : Bytes) : Except Err (BauthTSt G × Bytes) :=
  let no := E.no
  match loadPub E.C (inp.take (2 * no)) with
  | none => .error ERR_BAD_POINT
  | some Vct =>
    match E.xy (E.smul s.d Vct) with
    | none => .error ERR_BAD_PARAMS
    | some K =>
      match E.kwpU (kwKey E K.1) (inp.drop (2 * no)) with
      | none => .error ERR_AUTH
      | some rct =>
        let rt := if s.set.kcb ≠ 0 then tapeRead 16 s.tape else (s.r, s.tape)
        let Y := bauthY E s.set rct rt.1
        let k1 := E.krp Y 1
        .ok ({ s with vctP := Vct, vct := (leNat (inp.take no), leNat ((inp.drop no).take no)), r := rt.1,
                      k0 := E.krp Y 0, k1 := k1, k2 := if s.set.kcb ≠ 0 then E.krp Y 2 else s.k2, tape := rt.2 },
             E.mac k1 (zeros 16) ++ (if s.set.kcb ≠ 0 then rt.1 else []))

/-- btokBAuthCTStep4: `inp = Tt [‖ Rt]`, `out = [CFB_{K2,0}(sct ‖ cert_ct) ‖ MAC_{K1}(…)]` -/
def bauthCtStep4 (E : Env G) (s : BauthCtSt) (inp : Bytes) : Except Err (BauthCtSt × Bytes) :=
  let rt := (inp.drop 8).take 16
  let Y := bauthY E s.set s.r rt
  let k1 := E.krp Y 1
  if E.mac k1 (zeros 16) ≠ inp.take 8 then .error ERR_AUTH else
  if s.set.kcb ≠ 0 then
    let t := hashT E s.v rt
    let sct := mqvS E s.u s.d t
    let z := E.cfbE (E.krp Y 2) (zeros 16) (natLE E.no sct ++ s.cert)
    .ok ({ s with k0 := E.krp Y 0 }, z ++ E.mac k1 z)
  else .ok ({ s with k0 := E.krp Y 0 }, [])

/-- btokBAuthTStep5: `inp = Zct ‖ Tct` -/
def bauthTStep5 (E : Env G) (s : BauthTSt G) (inp : Bytes) : Except Err (BauthTSt G) :=
  let no := E.no
  if s.set.kcb = 0 then .error ERR_BAD_LOGIC else
  if inp.length < 8 + no then .error ERR_BAD_INPUT else
  let z := inp.take (inp.length - 8)
  if E.mac s.k1 z ≠ inp.drop (inp.length - 8) then .error ERR_AUTH else
  let pz := E.cfbD s.k2 (zeros 16) z
  let sct := leNat (pz.take no)
  if sct ≥ E.q then .error ERR_AUTH else
  match certPub E (pz.drop no) with
  | .error e => .error e
  | .ok Qct =>
    let t := hashT E (natLE no s.vct.1) s.r
    match addMul E sct Qct (t + 2 ^ E.l) with
    | none => .error ERR_BAD_PARAMS
    | some R => if R ≠ s.vct then .error ERR_AUTH else .ok s

def bauthCtStepG (s : BauthCtSt) : Bytes := s.k0
def bauthTStepG (s : BauthTSt G) : Bytes := s.k0

/-! ### RunA / RunB: programs over the read / write callbacks -/

/-- what a driver does with its `read_i` / `write_i` callbacks and how it ends.  The continuation of a
callback receives the code the callback returns (any code) and, for `read`, the `*len` octets read. -/
inductive Prog where
  /-- `return code`, `key` written iff the driver reached StepG -/
  | ret (code : Err) (key : Option Bytes)
  | write (buf : Bytes) (k : Err → Prog)
  | read (count : Nat) (k : Err → Bytes → Prog)

/-- `ERR_CALL_HANDLE(code, blobClose(blob))` after a callback -/
def Prog.onOk (code : Err) (k : Prog) : Prog := if code ≠ ERR_OK then .ret code none else k

/-- lift a step result -/
def Prog.ofExcept {α : Type} (r : Except Err α) (k : α → Prog) : Prog :=
  match r with
  | .error e => .ret e none
  | .ok a => k a

/-- the multi-block reads of bakeBSTSRunA / RunB:
`code = read(&len, in, 512); while (code == ERR_OK) { M ‖= in[..len]; code = read(&len, in, 512); }
 if (code != ERR_MAX) return code; M ‖= in[..len]`.  `fuel` bounds the number of blocks
(the C loop ends with ERR_OUTOFMEMORY when blobResize fails). -/
def readBlocks : Nat → Bytes → (Bytes → Prog) → Prog
  | 0, _, _ => .ret ERR_OUTOFMEMORY none
  | fuel + 1, acc, k =>
    .read RUN_BLOCK (fun code data =>
      if code = ERR_OK then readBlocks fuel (acc ++ data) k
      else if code ≠ ERR_MAX then .ret code none
      else k (acc ++ data))

def runFuel : Nat := 1 <<< 24

def bmqvRunB (E : Env G) (set : Settings) (priv certb certa tape : Bytes) : Prog :=
  .ofExcept (bmqvStart E set priv certb tape) fun s =>
  .ofExcept (bmqvStep2 E s) fun (s, m1) =>
  .write m1 fun c => .onOk c <|
  .read (2 * E.no + (if set.kca ≠ 0 then 8 else 0)) fun c m2 => .onOk c <|
  .ofExcept (bmqvStep4 E s m2 certa) fun (s, m3) =>
  if set.kcb ≠ 0 then .write m3 fun c => .onOk c <| .ret ERR_OK (some (bmqvStepG s))
  else .ret ERR_OK (some (bmqvStepG s))

def bmqvRunA (E : Env G) (set : Settings) (priv certa certb tape : Bytes) : Prog :=
  .ofExcept (bmqvStart E set priv certa tape) fun s =>
  .read (2 * E.no) fun c m1 => .onOk c <|
  .ofExcept (bmqvStep3 E s m1 certb) fun (s, m2) =>
  .write m2 fun c => .onOk c <|
  if set.kcb ≠ 0 then
    .read 8 fun c m3 => .onOk c <|
    .ofExcept (bmqvStep5 E s m3) fun s => .ret ERR_OK (some (bmqvStepG s))
  else .ret ERR_OK (some (bmqvStepG s))

def bstsRunB (E : Env G) (set : Settings) (priv certb tape : Bytes) : Prog :=
  .ofExcept (bstsStart E set priv certb tape) fun s =>
  .ofExcept (bstsStep2 E s) fun (s, m1) =>
  .write m1 fun c => .onOk c <|
  readBlocks runFuel [] fun m2 =>
  .ofExcept (bstsStep4 E s m2) fun (s, m3) =>
  .write m3 fun c => .onOk c <| .ret ERR_OK (some (bstsStepG s))

def bstsRunA (E : Env G) (set : Settings) (priv certa tape : Bytes) : Prog :=
  .ofExcept (bstsStart E set priv certa tape) fun s =>
  .read (2 * E.no) fun c m1 => .onOk c <|
  .ofExcept (bstsStep3 E s m1) fun (s, m2) =>
  .write m2 fun c => .onOk c <|
  readBlocks runFuel [] fun m3 =>
  .ofExcept (bstsStep5 E s m3) fun s => .ret ERR_OK (some (bstsStepG s))

def bpaceRunB (E : Env G) (set : Settings) (pwd tape : Bytes) : Prog :=
  let s := bpaceStart E set pwd tape
  let (s, m1) := bpaceStep2 E s
  .write m1 fun c => .onOk c <|
  .read (5 * E.no / 2) fun c m2 => .onOk c <|
  .ofExcept (bpaceStep4 E s m2) fun (s, m3) =>
  .write m3 fun c => .onOk c <|
  if set.kca ≠ 0 then
    .read 8 fun c m4 => .onOk c <|
    .ofExcept (bpaceStep6 E s m4) fun s => .ret ERR_OK (some (bpaceStepG s))
  else .ret ERR_OK (some (bpaceStepG s))

def bpaceRunA (E : Env G) (set : Settings) (pwd tape : Bytes) : Prog :=
  let s := bpaceStart E set pwd tape
  .read (E.no / 2) fun c m1 => .onOk c <|
  .ofExcept (bpaceStep3 E s m1) fun (s, m2) =>
  .write m2 fun c => .onOk c <|
  .read (2 * E.no + (if set.kcb ≠ 0 then 8 else 0)) fun c m3 => .onOk c <|
  .ofExcept (bpaceStep5 E s m3) fun (s, m4) =>
  if set.kca ≠ 0 then .write m4 fun c => .onOk c <| .ret ERR_OK (some (bpaceStepG s))
  else .ret ERR_OK (some (bpaceStepG s))

/-! ### the ideal channel: two programs, one message queue per direction -/

/-- one direction: the messages written so far, the reader's position (message index, offset) -/
structure Chan where
  msgs : List Bytes
  i : Nat
  off : Nat
  deriving Repr

/-- `read(&len, buf, count, file)` on a message that is there: fewer than `count` octets left ⇒ the
rest with ERR_MAX and on to the next message; otherwise `count` octets with ERR_OK, and on to the next
message once this one is used up (the read_i contract; same behaviour as the channel of test/bake_test.c) -/
def Chan.read (c : Chan) (count : Nat) : Option (Err × Bytes × Chan) :=
  match c.msgs[c.i]? with
  | none => none
  | some m =>
    if c.off + count > m.length then some (ERR_MAX, m.drop c.off, { c with i := c.i + 1, off := 0 })
    else if c.off + count = m.length then some (ERR_OK, (m.drop c.off).take count, { c with i := c.i + 1, off := 0 })
    else some (ERR_OK, (m.drop c.off).take count, { c with off := c.off + count })

/-- run one program until it returns or needs a message that is not there; `tam i m` is what the
channel delivers in place of message number i of this direction (identity = ideal channel) -/
def runUntilBlocked : Nat → Prog → (inc out : Chan) → Prog × Chan × Chan
  | 0, p, inc, out => (p, inc, out)
  | fuel + 1, p, inc, out =>
    match p with
    | .ret c k => (.ret c k, inc, out)
    | .write buf k => runUntilBlocked fuel (k ERR_OK) inc { out with msgs := out.msgs ++ [buf] }
    | .read count k =>
      match inc.read count with
      | none => (p, inc, out)
      | some (code, data, inc') => runUntilBlocked fuel (k code data) inc' out

/-- alternate B, A, B, A … until both have returned or neither can move; a party still waiting then
ends with ERR_FILE_NOT_FOUND (what the harness channel answers).  `ab` / `ba` = the channels A→B, B→A;
`tamAB`/`tamBA` rewrite the queued messages before the receiver looks (the adversary). -/
def schedule (tamAB tamBA : Nat → Bytes → Bytes) : Nat → Prog → Prog → (ab ba : Chan) → Prog × Prog × Chan × Chan
  | 0, a, b, ab, ba => (a, b, ab, ba)
  | fuel + 1, a, b, ab, ba =>
    let apply (t : Nat → Bytes → Bytes) (c : Chan) : Chan := { c with msgs := c.msgs.zipIdx.map fun (m, i) => t i m }
    -- B moves (reads A→B, writes B→A)
    let rb := runUntilBlocked 1024 b (apply tamAB ab) { ba with msgs := [] }
    let ba' : Chan := { ba with msgs := ba.msgs ++ rb.2.2.msgs }
    let ab' : Chan := { ab with i := rb.2.1.i, off := rb.2.1.off }
    -- A moves
    let ra := runUntilBlocked 1024 a (apply tamBA ba') { ab' with msgs := [] }
    let ab'' : Chan := { ab' with msgs := ab'.msgs ++ ra.2.2.msgs }
    let ba'' : Chan := { ba' with i := ra.2.1.i, off := ra.2.1.off }
    let progress := rb.2.2.msgs.length + ra.2.2.msgs.length ≠ 0
    if progress then schedule tamAB tamBA fuel ra.1 rb.1 ab'' ba'' else (ra.1, rb.1, ab'', ba'')

/-- the outcome of a party: its return code and key; still waiting ⇒ ERR_FILE_NOT_FOUND -/
def Prog.outcome : Prog → Err × Option Bytes
  | .ret c k => (c, k)
  | _ => (ERR_FILE_NOT_FOUND, none)

/-- RunA ∥ RunB: (outcome A, outcome B, messages A→B as written, messages B→A as written) -/
def runPair (tamAB tamBA : Nat → Bytes → Bytes) (a b : Prog) : (Err × Option Bytes) × (Err × Option Bytes) × List Bytes × List Bytes :=
  let r := schedule tamAB tamBA 8 a b ⟨[], 0, 0⟩ ⟨[], 0, 0⟩
  (r.1.outcome, r.2.1.outcome, r.2.2.1.msgs, r.2.2.2.msgs)

end Bee2V.C04

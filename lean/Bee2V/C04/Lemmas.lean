/-
C04 — lemmas shared by the property files: the generator, the MQV scalar s = (u − (2^l + t)d) mod q,
the signature-like check s·G + (2^l + t)·Q = V, encodings of points.
-/
import Mathlib.Tactic.Ring
import Mathlib.Tactic.Linarith
import Mathlib.Data.ZMod.Basic
import Bee2V.C02.LemmasKeyt
import Bee2V.C04.Laws
namespace Bee2V.C04
open Bee2V.C02 (Bytes leNat natLE zeros Ctx tapeRead randNZMod loadPub encXY hashL subMod)
open Bee2V.Gen.C04Err
variable {G : Type} [AddCommGroup G] {E : Env G}

theorem rand_range {tape rest : Bytes} {u : Nat} (h : randNZMod E.C tape = (some u, rest)) : 0 < u ∧ u < E.q :=
  Bee2V.C02.keyt_randNZMod_range E.C h

theorem Laws.smul_eq (L : Laws E) (n : Nat) (P : G) : E.smul n P = n • P := L.ctx.smul_eq n P
theorem Laws.add_eq (L : Laws E) (P Q : G) : E.add P Q = P + Q := L.ctx.add_eq P Q
theorem Laws.neg_eq (L : Laws E) (P : G) : E.neg P = -P := L.ctx.neg_eq P

/-- the MQV scalar is reduced and satisfies `s + (t + 2^l)·d ≡ u (mod q)` -/
theorem mqvS_spec (L : Laws E) {u : Nat} (hu : u < E.q) (d t : Nat) :
    mqvS E u d t < E.q ∧ (mqvS E u d t + (t + 2 ^ E.l) * d) % E.q = u % E.q := by
  have hq := L.ctx.q_pos
  have hx : (t * d + 2 ^ E.l * d) % E.q < E.q := Nat.mod_lt _ hq
  unfold mqvS
  rw [show E.W = E.toCtx.W from rfl, Bee2V.C02.subMod_eq hu hx L.ctx.q_lt_W]
  refine ⟨Nat.mod_lt _ hq, ?_⟩
  have e : (t + 2 ^ E.l) * d = t * d + 2 ^ E.l * d := by ring
  rw [e, Nat.add_mod, Nat.mod_mod, ← Nat.add_mod]
  set x := t * d + 2 ^ E.l * d with hxd
  have hle : x % E.q ≤ E.q := Nat.le_of_lt hx
  have : u + (E.q - x % E.q) + x = u + E.q * (x / E.q + 1) := by
    have := Nat.mod_add_div x E.q
    have h2 : E.q - x % E.q + x % E.q = E.q := Nat.sub_add_cancel hle
    calc u + (E.q - x % E.q) + x = u + (E.q - x % E.q) + (x % E.q + E.q * (x / E.q)) := by rw [this]
      _ = u + ((E.q - x % E.q) + x % E.q) + E.q * (x / E.q) := by ring
      _ = u + E.q + E.q * (x / E.q) := by rw [h2]
      _ = u + E.q * (x / E.q + 1) := by ring
  rw [this, Nat.add_mul_mod_self_left]

/-- multiples of the base point only depend on the scalar modulo q -/
theorem Laws.base_congr (L : Laws E) {a b : Nat} (h : a % E.q = b % E.q) : a • E.base = b • E.base :=
  L.ctx.nsmul_congr h

/-- the check of BSTS Step4/Step5 and BAUTH Step5 on honest values: `s·G + (2^l + t)·(d·G) = u·G` -/
theorem honest_check (L : Laws E) {u : Nat} (hu : u < E.q) (d t : Nat) :
    mqvS E u d t • E.base + (t + 2 ^ E.l) • (d • E.base) = u • E.base := by
  rw [← mul_nsmul', ← add_nsmul]
  exact L.base_congr (mqvS_spec L hu d t).2

/-- `loadPub` succeeds exactly on the encodings of affine points: the coordinates are those of the point -/
theorem loadPub_xy (L : Laws E) {m : Bytes} {P : G} (h : loadPub E.C m = some P) :
    E.xy P = some (leNat (m.take E.no), leNat (m.drop E.no)) := by
  unfold loadPub at h
  simp only at h
  split at h
  · cases h
  · exact L.ctx.xy_ofXY _ _ _ h

/-- a certificate that validates carries a point different from O -/
theorem certPub_ne (L : Laws E) {cert : Bytes} {Q : G} (h : certPub E cert = .ok Q) : Q ≠ 0 := by
  unfold certPub at h
  simp only at h
  split at h
  · cases h
  · split at h
    · rename_i Q' hQ
      cases h
      exact L.ctx.ne_of_xy (loadPub_xy L hQ)
    · cases h

/-- `ERR_BAD_POINT` criterion: `loadPub` fails iff a coordinate is out of the field or the pair is off the curve -/
theorem loadPub_none_iff (m : Bytes) :
    loadPub E.C m = none ↔ (leNat (m.take E.no) ≥ E.p ∨ leNat (m.drop E.no) ≥ E.p) ∨
      E.ofXY (leNat (m.take E.no)) (leNat (m.drop E.no)) = none := by
  unfold loadPub
  by_cases h : leNat (m.take E.C.no) ≥ E.C.p ∨ leNat (m.drop E.C.no) ≥ E.C.p
  · simp only [if_pos h]; exact ⟨fun _ => .inl h, fun _ => trivial⟩
  · simp only [if_neg h]
    exact ⟨fun hh => .inr hh, fun hh => hh.resolve_left h⟩

theorem encXY_take (L : Laws E) (v : Nat × Nat) (r : Bytes) : (encXY E.C v ++ r).take E.no = natLE E.no v.1 := by
  unfold encXY
  rw [List.append_assoc]
  exact Bee2V.C02.take_natLE_append _ _ _

theorem encXY_take2 (v : Nat × Nat) (r : Bytes) : (encXY E.C v ++ r).take (2 * E.no) = encXY E.C v := by
  have := Bee2V.C02.encXY_length E.C v
  rw [List.take_append_of_le_length (by rw [this]; exact Nat.le_refl _), List.take_of_length_le (by rw [this]; exact Nat.le_refl _)]

theorem encXY_drop2 (v : Nat × Nat) (r : Bytes) : (encXY E.C v ++ r).drop (2 * E.no) = r := by
  have := Bee2V.C02.encXY_length E.C v
  rw [List.drop_append_of_le_length (by rw [this]; exact Nat.le_refl _), List.drop_of_length_le (by rw [this]; exact Nat.le_refl _), List.nil_append]

end Bee2V.C04

/-
C04 — BPACE, the honest run: with the same password on both sides every step succeeds and both parties
derive the same key, for every combination of the confirmation flags (`honest_agree_bpace`).
The lemmas `bpace_*` give the explicit result of each step under the values of its `match` scrutinees.
-/
import Bee2V.C04.Lemmas
namespace Bee2V.C04
open Bee2V.C02 (Bytes leNat natLE zeros Ctx tapeRead randNZMod loadPub encXY hashL subMod)
open Bee2V.Gen.C04Err
variable {G : Type} [AddCommGroup G] {E : Env G}

/-! ### octets -/

/-- one request to the generator returns exactly the requested number of octets -/
theorem bpace_tapeRead_len (n : Nat) (t : Bytes) : (tapeRead n t).1.length = n := by
  unfold tapeRead zeros
  simp only [List.length_append, List.length_take, List.length_replicate]
  omega

omit [AddCommGroup G] in
theorem bpace_encXY_take1 (v : Nat × Nat) : (encXY E.C v).take E.no = natLE E.no v.1 := by
  unfold encXY
  exact Bee2V.C02.take_natLE_append _ _ _

omit [AddCommGroup G] in
theorem bpace_encXY_take2 (v : Nat × Nat) : (encXY E.C v).take (2 * E.no) = encXY E.C v :=
  List.take_of_length_le (Nat.le_of_eq (Bee2V.C02.encXY_length E.C v))

theorem bpace_natLE_leNat (n v : Nat) : natLE n (leNat (natLE n v)) = natLE n v := by
  have h := Bee2V.C02.natLE_leNat (natLE n v)
  rw [Bee2V.C02.natLE_length] at h
  exact h

/-- `s->R` of B after Step2: the second half is Rb -/
theorem bpace_zeros_drop (L : Laws E) (Rb : Bytes) : ((zeros E.no).take (E.no / 2) ++ Rb).drop (E.no / 2) = Rb := by
  apply List.drop_left'
  have := L.ctx.no_even
  have e : E.no = E.toCtx.no := rfl
  unfold zeros
  simp only [List.length_take, List.length_replicate]
  omega

/-! ### the steps -/

omit [AddCommGroup G] in
theorem bpace_step2_eq (set : Settings) (r : Bytes) (w : G) (u0 : Nat) (k0 k1 k2 tape Rb tb' : Bytes)
    (ht : tapeRead (E.no / 2) tape = (Rb, tb')) :
    bpaceStep2 E ⟨set, r, w, u0, k0, k1, k2, tape⟩ = (⟨set, r.take (E.no / 2) ++ Rb, w, u0, k0, k1, k2, tb'⟩, E.ecbE k2 Rb) := by
  unfold bpaceStep2
  simp only [ht]

theorem bpace_step3_ok (L : Laws E) (set : Settings) (r : Bytes) (w : G) (u0 : Nat) (k0 k1 k2 tape inp Ra Rb ta' rest : Bytes)
    (u : Nat) (V : Nat × Nat)
    (ht : tapeRead (E.no / 2) tape = (Ra, ta'))
    (hb : E.ecbD k2 inp = Rb)
    (hr : randNZMod E.C ta' = (some u, rest))
    (hV : E.xy (u • E.swu (Ra ++ Rb)) = some V) :
    bpaceStep3 E ⟨set, r, w, u0, k0, k1, k2, tape⟩ inp =
      .ok (⟨set, natLE E.no V.1, E.swu (Ra ++ Rb), u, k0, k1, k2, rest⟩, E.ecbE k2 Ra ++ encXY E.C V) := by
  unfold bpaceStep3 ephem
  simp only [ht, hb, hr, L.smul_eq, hV, bpace_encXY_take1]

theorem bpace_step4_ok (L : Laws E) (set : Settings) (r : Bytes) (w : G) (u0 : Nat)
    (k0 k1 k2 tape inp Ra Rb rest vax : Bytes) (Va : G) (u : Nat) (K Vb : Nat × Nat)
    (hp : loadPub E.C ((inp.drop (E.no / 2)).take (2 * E.no)) = some Va)
    (hra : E.ecbD k2 (inp.take (E.no / 2)) = Ra)
    (hrb : r.drop (E.no / 2) = Rb)
    (hr : randNZMod E.C tape = (some u, rest))
    (hK : E.xy (u • Va) = some K)
    (hV : E.xy (u • E.swu (Ra ++ Rb)) = some Vb)
    (hx : (inp.drop (E.no / 2)).take E.no = vax) :
    bpaceStep4 E ⟨set, r, w, u0, k0, k1, k2, tape⟩ inp =
      .ok (⟨set, Ra ++ Rb, E.swu (Ra ++ Rb), u, (bpaceKeys E set k1 K.1 vax (natLE E.no Vb.1)).1,
            (bpaceKeys E set k1 K.1 vax (natLE E.no Vb.1)).2, k2, rest⟩,
           encXY E.C Vb ++ (if set.kcb ≠ 0 then E.mac (bpaceKeys E set k1 K.1 vax (natLE E.no Vb.1)).2 (ones 16) else [])) := by
  unfold bpaceStep4
  simp only [hp, hra, hrb, hr, L.smul_eq, hK, hV, hx, bpace_encXY_take1]

theorem bpace_step5_ok (L : Laws E) (set : Settings) (r : Bytes) (w : G) (u : Nat)
    (k0 k1 k2 tape inp vbx : Bytes) (Vb : G) (K : Nat × Nat)
    (hp : loadPub E.C (inp.take (2 * E.no)) = some Vb)
    (hK : E.xy (u • Vb) = some K)
    (hx : natLE E.no (leNat (inp.take E.no)) = vbx)
    (ht : set.kcb ≠ 0 → E.mac (bpaceKeys E set k1 K.1 r vbx).2 (ones 16) = (inp.drop (2 * E.no)).take 8) :
    bpaceStep5 E ⟨set, r, w, u, k0, k1, k2, tape⟩ inp =
      .ok (⟨set, r, w, u, (bpaceKeys E set k1 K.1 r vbx).1, (bpaceKeys E set k1 K.1 r vbx).2, k2, tape⟩,
           if set.kca ≠ 0 then E.mac (bpaceKeys E set k1 K.1 r vbx).2 (zeros 16) else []) := by
  unfold bpaceStep5
  simp only [hp, L.smul_eq, hK, hx]
  rw [if_neg]
  rintro ⟨h1, h2⟩
  exact h2 (ht h1)

omit [AddCommGroup G] in
theorem bpace_step6_ok (set : Settings) (r : Bytes) (w : G) (u : Nat) (k0 k1 k2 tape inp : Bytes)
    (h1 : set.kca ≠ 0) (h2 : E.mac k1 (zeros 16) = inp.take 8) :
    bpaceStep6 E ⟨set, r, w, u, k0, k1, k2, tape⟩ inp = .ok ⟨set, r, w, u, k0, k1, k2, tape⟩ := by
  unfold bpaceStep6
  simp only
  rw [if_neg h1, if_neg (not_not.2 h2)]

omit [AddCommGroup G] in
/-- the steps one after the other -/
theorem bpace_hand_ok (set : Settings) (pwda pwdb ta tb : Bytes) (sb1 sa1 sb2 sa2 : BpaceSt G) (m1 m2 m3 m4 : Bytes)
    (h2 : bpaceStep2 E (bpaceStart E set pwdb tb) = (sb1, m1))
    (h3 : bpaceStep3 E (bpaceStart E set pwda ta) m1 = .ok (sa1, m2))
    (h4 : bpaceStep4 E sb1 m2 = .ok (sb2, m3))
    (h5 : bpaceStep5 E sa1 m3 = .ok (sa2, m4))
    (h6 : set.kca ≠ 0 → bpaceStep6 E sb2 m4 = .ok sb2) :
    ∃ m, bpaceHand E set pwda pwdb ta tb = .ok ⟨sa2.k0, sb2.k0, m⟩ := by
  unfold bpaceHand
  simp only [h2, h3, h4, h5]
  by_cases hk : set.kca ≠ 0
  · simp only [if_pos hk, h6 hk, bpaceStepG]
    exact ⟨_, rfl⟩
  · simp only [if_neg hk, bpaceStepG]
    exact ⟨_, rfl⟩

/-! ### the honest run -/

/-- BPACE, honest run: same password on both sides, every flag combination, any hellos, any generator tapes
(A's tape: Ra then the one-time key, B's tape: Rb then the one-time key) that yield one-time keys: every step
succeeds and both parties hold the same key -/
theorem honest_agree_bpace (L : Laws E) (set : Settings) (pwd ta tb ra rb : Bytes) (ua ub : Nat)
    (hta : randNZMod E.C (tapeRead (E.no / 2) ta).2 = (some ua, ra))
    (htb : randNZMod E.C (tapeRead (E.no / 2) tb).2 = (some ub, rb)) :
    ∃ k m, bpaceHand E set pwd pwd ta tb = .ok ⟨k, k, m⟩ := by
  have hRa : (tapeRead (E.no / 2) ta).1.length = E.no / 2 := bpace_tapeRead_len _ _
  have hRb : (tapeRead (E.no / 2) tb).1.length = E.no / 2 := bpace_tapeRead_len _ _
  rcases hA : tapeRead (E.no / 2) ta with ⟨Ra, ta'⟩
  rcases hB : tapeRead (E.no / 2) tb with ⟨Rb, tb'⟩
  rw [hA] at hta hRa
  rw [hB] at htb hRb
  simp only at hta htb hRa hRb
  obtain ⟨ua0, uaq⟩ := rand_range hta
  obtain ⟨ub0, ubq⟩ := rand_range htb
  -- the points
  have hW : E.swu (Ra ++ Rb) ≠ 0 := L.swu_ne _
  have hVa0 : ua • E.swu (Ra ++ Rb) ≠ 0 := L.ctx.nsmul_ne hW ua0 uaq
  have hVb0 : ub • E.swu (Ra ++ Rb) ≠ 0 := L.ctx.nsmul_ne hW ub0 ubq
  have hK0 : ub • (ua • E.swu (Ra ++ Rb)) ≠ 0 := L.ctx.nsmul_ne hVa0 ub0 ubq
  obtain ⟨xa, ya, hVa⟩ := L.ctx.xy_some hVa0
  obtain ⟨xb, yb, hVb⟩ := L.ctx.xy_some hVb0
  obtain ⟨xk, yk, hK⟩ := L.ctx.xy_some hK0
  have hK' : E.xy (ua • (ub • E.swu (Ra ++ Rb))) = some (xk, yk) := by
    rw [← mul_nsmul', Nat.mul_comm, mul_nsmul']
    exact hK
  -- Step2, Step3
  have h2 := bpace_step2_eq (E := E) set (zeros E.no) E.zero 0 [] [] (E.hash pwd) tb Rb tb' hB
  have h3 := bpace_step3_ok L set (zeros E.no) E.zero 0 [] [] (E.hash pwd) ta (E.ecbE (E.hash pwd) Rb) Ra Rb ta' ra ua (xa, ya)
    hA (L.ecb_inv _ _ hRb) hta hVa
  -- Step4
  have hlen : (E.ecbE (E.hash pwd) Ra).length = E.no / 2 := (L.ecb_len _ _ hRa).trans hRa
  have hd : (E.ecbE (E.hash pwd) Ra ++ encXY E.C (xa, ya)).drop (E.no / 2) = encXY E.C (xa, ya) := List.drop_left' hlen
  have ht : (E.ecbE (E.hash pwd) Ra ++ encXY E.C (xa, ya)).take (E.no / 2) = E.ecbE (E.hash pwd) Ra := List.take_left' hlen
  have h4 := bpace_step4_ok L set ((zeros E.no).take (E.no / 2) ++ Rb) E.zero 0 [] [] (E.hash pwd) tb'
    (E.ecbE (E.hash pwd) Ra ++ encXY E.C (xa, ya)) Ra Rb rb (natLE E.no xa) (ua • E.swu (Ra ++ Rb)) ub (xk, yk) (xb, yb)
    (by rw [hd, bpace_encXY_take2]; exact L.ctx.loadPub_encXY hVa)
    (by rw [ht]; exact L.ecb_inv _ _ hRa)
    (bpace_zeros_drop L Rb) htb hK hVb
    (by rw [hd]; exact bpace_encXY_take1 _)
  -- Step5
  have h5 := bpace_step5_ok L set (natLE E.no xa) (E.swu (Ra ++ Rb)) ua [] [] (E.hash pwd) ra
    (encXY E.C (xb, yb) ++ (if set.kcb ≠ 0 then E.mac (bpaceKeys E set [] xk (natLE E.no xa) (natLE E.no xb)).2 (ones 16) else []))
    (natLE E.no xb) (ub • E.swu (Ra ++ Rb)) (xk, yk)
    (by rw [encXY_take2]; exact L.ctx.loadPub_encXY hVb)
    hK'
    (by rw [encXY_take L]; exact bpace_natLE_leNat _ _)
    (by
      intro hk
      rw [encXY_drop2, if_pos hk]
      exact (List.take_of_length_le (Nat.le_of_eq (L.mac_len _ _))).symm)
  -- Step6
  have h6 : set.kca ≠ 0 → _ := fun hk =>
    bpace_step6_ok (E := E) set (Ra ++ Rb) (E.swu (Ra ++ Rb)) ub (bpaceKeys E set [] xk (natLE E.no xa) (natLE E.no xb)).1
      (bpaceKeys E set [] xk (natLE E.no xa) (natLE E.no xb)).2 (E.hash pwd) rb
      (if set.kca ≠ 0 then E.mac (bpaceKeys E set [] xk (natLE E.no xa) (natLE E.no xb)).2 (zeros 16) else []) hk
      (by rw [if_pos hk]; exact (List.take_of_length_le (Nat.le_of_eq (L.mac_len _ _))).symm)
  obtain ⟨m, hm⟩ := bpace_hand_ok set pwd pwd ta tb _ _ _ _ _ _ _ _ h2 h3 h4 h5 h6
  exact ⟨_, m, hm⟩

end Bee2V.C04

/-
C04 — BAUTH, the honest run: with certificates that validate to the parties' public keys every step succeeds
and terminal and token derive the same key, with and without the token's authentication (`honest_agree_bauth`).
The lemmas `bauth_*` give the explicit result of each step under the values of its `match` scrutinees.
-/
import Bee2V.C04.Lemmas
namespace Bee2V.C04
open Bee2V.C02 (Bytes leNat natLE zeros Ctx tapeRead randNZMod loadPub encXY hashL subMod)
open Bee2V.Gen.C04Err
variable {G : Type} [AddCommGroup G] {E : Env G}

/-! ### octets -/

/-- one request to the generator returns exactly the requested number of octets -/
theorem bauth_tapeRead_len (n : Nat) (t : Bytes) : (tapeRead n t).1.length = n := by
  unfold tapeRead zeros
  simp only [List.length_append, List.length_take, List.length_replicate]
  omega

omit [AddCommGroup G] in
theorem bauth_encXY_take1 (v : Nat × Nat) : (encXY E.C v).take E.no = natLE E.no v.1 := by
  unfold encXY
  exact Bee2V.C02.take_natLE_append _ _ _

omit [AddCommGroup G] in
/-- the y-coordinate octets of `<V>_4l ‖ r` -/
theorem bauth_encXY_mid (v : Nat × Nat) (r : Bytes) : ((encXY E.C v ++ r).drop E.no).take E.no = natLE E.no v.2 := by
  unfold encXY
  rw [List.append_assoc]
  have h : (natLE E.no v.1 ++ (natLE E.no v.2 ++ r)).drop E.no = natLE E.no v.2 ++ r :=
    Bee2V.C02.drop_natLE_append _ _ _
  exact (congrArg (List.take E.no) h).trans (Bee2V.C02.take_natLE_append _ _ _)

/-- numbers below p, q survive the conversion to `no` octets and back -/
theorem bauth_leNat_natLE (L : Laws E) {v : Nat} (h : v < 2 ^ (2 * E.l)) : leNat (natLE E.no v) = v :=
  Bee2V.C02.leNat_natLE_of_lt (by rw [show E.no = E.toCtx.no from rfl, L.ctx.pow256]; exact h)

/-! ### the steps -/

omit [AddCommGroup G] in
theorem bauth_ctStart_ok (set : Settings) (hk : set.kca = 1) (priv cert tape : Bytes) (Q : G)
    (hc : certPub E cert = .ok Q) :
    bauthCtStart E set priv cert tape = .ok ⟨set, leNat priv, 0, [], [], cert, [], tape⟩ := by
  unfold bauthCtStart
  rw [if_neg (not_not.2 hk)]
  simp only [hc]

omit [AddCommGroup G] in
theorem bauth_tStart_ok (set : Settings) (hk : set.kca = 1) (priv cert tape : Bytes) (Q : G)
    (hc : certPub E cert = .ok Q) :
    bauthTStart E set priv cert tape = .ok ⟨set, leNat priv, E.zero, (0, 0), [], cert, [], [], [], tape⟩ := by
  unfold bauthTStart
  rw [if_neg (not_not.2 hk)]
  simp only [hc]

theorem bauth_ctStep2_ok (L : Laws E) (set : Settings) (d u0 : Nat) (v r0 cert k0 tape certt : Bytes) (Qt : G)
    (Rct tape' rest : Bytes) (u : Nat) (V K : Nat × Nat)
    (hc : certPub E certt = .ok Qt)
    (ht : tapeRead (E.no / 2) tape = (Rct, tape'))
    (hr : randNZMod E.C tape' = (some u, rest))
    (hV : E.xy (u • E.base) = some V)
    (hK : E.xy (u • Qt) = some K) :
    bauthCtStep2 E ⟨set, d, u0, v, r0, cert, k0, tape⟩ certt =
      .ok (⟨set, d, u, natLE E.no V.1, Rct, cert, k0, rest⟩, encXY E.C V ++ E.kwpW (kwKey E K.1) Rct) := by
  unfold bauthCtStep2 ephem
  simp only [hc, ht, hr, L.smul_eq, hV, hK, bauth_encXY_take1]

theorem bauth_tStep3_ok (L : Laws E) (set : Settings) (d : Nat) (vctP0 : G) (vct0 : Nat × Nat)
    (r0 cert k0 k1 k2 tape inp : Bytes) (Vct : G) (K : Nat × Nat) (rct : Bytes) (rt : Bytes × Bytes) (vct : Nat × Nat)
    (hp : loadPub E.C (inp.take (2 * E.no)) = some Vct)
    (hK : E.xy (d • Vct) = some K)
    (hu : E.kwpU (kwKey E K.1) (inp.drop (2 * E.no)) = some rct)
    (hrt : (if set.kcb ≠ 0 then tapeRead 16 tape else (r0, tape)) = rt)
    (hv : (leNat (inp.take E.no), leNat ((inp.drop E.no).take E.no)) = vct) :
    bauthTStep3 E ⟨set, d, vctP0, vct0, r0, cert, k0, k1, k2, tape⟩ inp =
      .ok (⟨set, d, Vct, vct, rt.1, cert, E.krp (bauthY E set rct rt.1) 0, E.krp (bauthY E set rct rt.1) 1,
            if set.kcb ≠ 0 then E.krp (bauthY E set rct rt.1) 2 else k2, rt.2⟩,
           E.mac (E.krp (bauthY E set rct rt.1) 1) (zeros 16) ++ (if set.kcb ≠ 0 then rt.1 else [])) := by
  unfold bauthTStep3
  simp only [hp, L.smul_eq, hK, hu, hrt, hv]

omit [AddCommGroup G] in
theorem bauth_ctStep4_ok (set : Settings) (d u : Nat) (v r cert k0 tape inp rt Y : Bytes)
    (hY : bauthY E set r ((inp.drop 8).take 16) = Y)
    (hm : E.mac (E.krp Y 1) (zeros 16) = inp.take 8)
    (hrt : set.kcb ≠ 0 → (inp.drop 8).take 16 = rt) :
    bauthCtStep4 E ⟨set, d, u, v, r, cert, k0, tape⟩ inp =
      .ok (⟨set, d, u, v, r, cert, E.krp Y 0, tape⟩,
           if set.kcb ≠ 0 then
             E.cfbE (E.krp Y 2) (zeros 16) (natLE E.no (mqvS E u d (hashT E v rt)) ++ cert) ++
               E.mac (E.krp Y 1) (E.cfbE (E.krp Y 2) (zeros 16) (natLE E.no (mqvS E u d (hashT E v rt)) ++ cert))
           else []) := by
  unfold bauthCtStep4
  simp only [hY]
  rw [if_neg (not_not.2 hm)]
  by_cases hk : set.kcb ≠ 0
  · simp only [if_pos hk, hrt hk]
  · simp only [if_neg hk]

theorem bauth_tStep5_ok (L : Laws E) (set : Settings) (d : Nat) (vctP : G) (vct : Nat × Nat)
    (r cert k0 k1 k2 tape z tag certct : Bytes) (sct : Nat) (Qct : G)
    (hkcb : set.kcb ≠ 0) (hlen : 8 + E.no ≤ (z ++ tag).length) (htl : tag.length = 8)
    (hm : E.mac k1 z = tag) (hd : E.cfbD k2 (zeros 16) z = natLE E.no sct ++ certct)
    (hs : sct < E.q) (hl : leNat (natLE E.no sct) = sct) (hc : certPub E certct = .ok Qct)
    (hR : E.xy (sct • E.base + (hashT E (natLE E.no vct.1) r + 2 ^ E.l) • Qct) = some vct) :
    bauthTStep5 E ⟨set, d, vctP, vct, r, cert, k0, k1, k2, tape⟩ (z ++ tag) =
      .ok ⟨set, d, vctP, vct, r, cert, k0, k1, k2, tape⟩ := by
  have e1 : (z ++ tag).take ((z ++ tag).length - 8) = z := List.take_left' (by rw [List.length_append]; omega)
  have e2 : (z ++ tag).drop ((z ++ tag).length - 8) = tag := List.drop_left' (by rw [List.length_append]; omega)
  unfold bauthTStep5 addMul
  simp only [e1, e2, hm, hd, Bee2V.C02.take_natLE_append, Bee2V.C02.drop_natLE_append, hl, hc, L.smul_eq, L.add_eq, hR]
  rw [if_neg hkcb, if_neg (Nat.not_lt.2 hlen), if_neg (not_not.2 rfl), if_neg (Nat.not_le.2 hs), if_neg (not_not.2 rfl)]

omit [AddCommGroup G] in
/-- the steps one after the other -/
theorem bauth_hand_ok (set : Settings) (kt kct certt certct tt tct : Bytes) (sb0 sb1 sb2 : BauthCtSt) (sa0 sa1 : BauthTSt G)
    (m1 m2 m3 : Bytes)
    (hs1 : bauthCtStart E set kct certct tct = .ok sb0)
    (hs2 : bauthTStart E set kt certt tt = .ok sa0)
    (h2 : bauthCtStep2 E sb0 certt = .ok (sb1, m1))
    (h3 : bauthTStep3 E sa0 m1 = .ok (sa1, m2))
    (h4 : bauthCtStep4 E sb1 m2 = .ok (sb2, m3))
    (h5 : set.kcb ≠ 0 → bauthTStep5 E sa1 m3 = .ok sa1) :
    ∃ m, bauthHand E set kt kct certt certct tt tct = .ok ⟨sa1.k0, sb2.k0, m⟩ := by
  unfold bauthHand
  simp only [hs1, hs2, h2, h3, h4]
  by_cases hk : set.kcb ≠ 0
  · simp only [if_pos hk, h5 hk, bauthTStepG, bauthCtStepG]
    exact ⟨_, rfl⟩
  · simp only [if_neg hk, bauthTStepG, bauthCtStepG]
    exact ⟨_, rfl⟩

/-! ### the honest run -/

/-- BAUTH, honest run (kca must be TRUE), kcb arbitrary, any hellos, certificates that validate to the parties'
public keys (a non-empty token certificate when kcb is on is NOT needed), any tapes: the token's tape yields Rct and then
a one-time key: every step succeeds, both hold the same key.  (A = terminal T, B = token CT.) -/
theorem honest_agree_bauth (L : Laws E) (set : Settings) (hk : set.kca = 1) (kt kct certt certct tt tct r : Bytes) (u : Nat)
    (hct : certPub E certt = .ok (leNat kt • E.base)) (hcct : certPub E certct = .ok (leNat kct • E.base))
    (htct : randNZMod E.C (tapeRead (E.no / 2) tct).2 = (some u, r)) :
    ∃ k m, bauthHand E set kt kct certt certct tt tct = .ok ⟨k, k, m⟩ := by
  have hRl : (tapeRead (E.no / 2) tct).1.length = E.no / 2 := bauth_tapeRead_len _ _
  rcases hB : tapeRead (E.no / 2) tct with ⟨Rct, tct'⟩
  rw [hB] at htct hRl
  simp only at htct hRl
  obtain ⟨u0, uq⟩ := rand_range htct
  -- the points
  have hQt : leNat kt • E.base ≠ 0 := certPub_ne L hct
  have hV0 : u • E.base ≠ 0 := L.ctx.base_mul_ne u0 uq
  have hK0 : u • (leNat kt • E.base) ≠ 0 := L.ctx.nsmul_ne hQt u0 uq
  obtain ⟨xv, yv, hV⟩ := L.ctx.xy_some hV0
  obtain ⟨xk, yk, hK⟩ := L.ctx.xy_some hK0
  have hK' : E.xy (leNat kt • (u • E.base)) = some (xk, yk) := by
    rw [← mul_nsmul', Nat.mul_comm, mul_nsmul']
    exact hK
  obtain ⟨hxv, hyv⟩ := L.ctx.xy_lt _ _ _ hV
  have hp := L.ctx.p_hi
  have hq := L.ctx.q_hi
  -- Start, Step2
  have hs1 := bauth_ctStart_ok set hk kct certct tct _ hcct
  have hs2 := bauth_tStart_ok set hk kt certt tt _ hct
  have h2 := bauth_ctStep2_ok L set (leNat kct) 0 [] [] certct [] tct certt _ Rct tct' r u (xv, yv) (xk, yk)
    hct hB htct hV hK
  -- Step3
  have hrtl : set.kcb ≠ 0 → (if set.kcb ≠ 0 then tapeRead 16 tt else (([] : Bytes), tt)).1.length = 16 := by
    intro hkcb
    rw [if_pos hkcb]
    exact bauth_tapeRead_len _ _
  generalize hrt : (if set.kcb ≠ 0 then tapeRead 16 tt else (([] : Bytes), tt)) = rt at hrtl
  have h3 := bauth_tStep3_ok L set (leNat kt) E.zero (0, 0) [] certt [] [] [] tt
    (encXY E.C (xv, yv) ++ E.kwpW (kwKey E xk) Rct) (u • E.base) (xk, yk) Rct rt (xv, yv)
    (by rw [encXY_take2]; exact L.ctx.loadPub_encXY hV) hK'
    (by rw [encXY_drop2]; exact L.kwp_inv _ _ hRl) hrt
    (by rw [encXY_take L, bauth_encXY_mid, bauth_leNat_natLE L (by omega), bauth_leNat_natLE L (by omega)])
  -- Step4
  have hrt' : set.kcb ≠ 0 →
      ((E.mac (E.krp (bauthY E set Rct rt.1) 1) (zeros 16) ++ (if set.kcb ≠ 0 then rt.1 else [])).drop 8).take 16 = rt.1 := by
    intro hkcb
    rw [List.drop_left' (L.mac_len _ _), if_pos hkcb]
    exact List.take_of_length_le (Nat.le_of_eq (hrtl hkcb))
  have hY : bauthY E set Rct
      (((E.mac (E.krp (bauthY E set Rct rt.1) 1) (zeros 16) ++ (if set.kcb ≠ 0 then rt.1 else [])).drop 8).take 16) =
      bauthY E set Rct rt.1 := by
    by_cases hkcb : set.kcb ≠ 0
    · rw [hrt' hkcb]
    · unfold bauthY
      simp only [if_neg hkcb]
  have h4 := bauth_ctStep4_ok (E := E) set (leNat kct) u (natLE E.no xv) Rct certct [] r
    (E.mac (E.krp (bauthY E set Rct rt.1) 1) (zeros 16) ++ (if set.kcb ≠ 0 then rt.1 else [])) rt.1 (bauthY E set Rct rt.1)
    hY (List.take_left' (L.mac_len _ _)).symm hrt'
  -- Step5
  obtain ⟨m, hm⟩ := bauth_hand_ok set kt kct certt certct tt tct _ _ _ _ _ _ _ _ hs1 hs2 h2 h3 h4 (by
    intro hkcb
    simp only [if_pos hkcb]
    obtain ⟨hsq, -⟩ := mqvS_spec L uq (leNat kct) (hashT E (natLE E.no xv) rt.1)
    refine bauth_tStep5_ok L set (leNat kt) (u • E.base) (xv, yv) rt.1 certt _ _ _ rt.2 _ _ certct
      (mqvS E u (leNat kct) (hashT E (natLE E.no xv) rt.1)) (leNat kct • E.base) hkcb ?_ (L.mac_len _ _) rfl
      (L.cfb_inv _ _ _) hsq (bauth_leNat_natLE L (by omega)) hcct ?_
    · rw [List.length_append, L.mac_len, L.cfb_len, List.length_append, Bee2V.C02.natLE_length]
      omega
    · rw [honest_check L uq]
      exact hV)
  exact ⟨_, m, hm⟩

end Bee2V.C04

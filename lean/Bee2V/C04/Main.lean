import Bee2V.C04.Drv
/-- driver executable of area C04 (`drv_c04`) -/
def main : IO Unit := Bee2V.Proto.runLoop Bee2V.C04.Drv.handle

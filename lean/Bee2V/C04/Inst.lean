/-
C04 — the executable instance of `Env`: the three standard parameter sets with the affine
chord-and-tangent arithmetic of C02 (`Bee2V.C02.stdCtx`, independent of ecp.c), the complete belt model
of C01 (hash, KRP, MAC, CFB, ECB, KWP, WBL — imported, not oracle values), the SWU map of
`bakeSWU2` / `ecpSWU` written over `Nat` modulo p, and the certificate callback of harness/c04.c.
No Mathlib.
-/
import Bee2V.C04.Model
import Bee2V.C02.Inst
import Bee2V.C01.Model.Modes
import Bee2V.C01.Model.Hash
import Bee2V.C01.Model.Wbl
namespace Bee2V.C04
open Bee2V.C02 (Bytes leNat natLE zeros Pt Curve powMod fsub stdCtx stdCurve)
open Bee2V.Gen.C02Params (Std)
open Bee2V.Gen.C04Err

abbrev bc := Bee2V.C01.beltCipher

/-- beltKRPStart(K, 32, 1^96) + beltKRPStepG(32, <i> ‖ 0…) -/
def beltKrp (K : Bytes) (i : Nat) : Bytes :=
  Bee2V.C01.krpStepG bc (Bee2V.C01.krpStart K (ones 12)) 32 (natLE 16 i)

/-- beltMACStart(K, 32) + StepA(data) + StepG -/
def beltMac (K data : Bytes) : Bytes :=
  (Bee2V.C01.macStepG bc (Bee2V.C01.macStepA bc (Bee2V.C01.macStart bc K) data) 8).2

def beltCfbE (K iv data : Bytes) : Bytes := (Bee2V.C01.cfbStepE bc (Bee2V.C01.cfbStart K iv) data).2
def beltCfbD (K iv data : Bytes) : Bytes := (Bee2V.C01.cfbStepD bc (Bee2V.C01.cfbStart K iv) data).2
def beltEcbE (K data : Bytes) : Bytes := Bee2V.C01.ecbStepE bc (Bee2V.C01.fmtKey K) data
def beltEcbD (K data : Bytes) : Bytes := Bee2V.C01.ecbStepD bc (Bee2V.C01.fmtKey K) data

def beltKwpW (K src : Bytes) : Bytes :=
  match Bee2V.C01.kwpWrap bc src (some (zeros 16)) K with
  | (.ok, some t) => t
  | _ => []

def beltKwpU (K tok : Bytes) : Option Bytes :=
  match Bee2V.C01.kwpUnwrap bc tok (some (zeros 16)) K with
  | (.ok, some r) => some r
  | _ => none

/-- ecpSWU (ecp.c) on values: `t = -a²; x1 = -B(1 + t + t²)(A(t + t²))^(p-2); y = x1³ + A·x1 + B;
x2 = x1·t; e = y^(p - 2 - (p >> 2)); s = a³y; (e²y == 1) ? (x1, e·y) : (x2, e·s)` -/
def ecpSWU (E : Curve) (a : Nat) : Pt :=
  let p := E.p
  let t := fsub p 0 (a * a % p)
  let x2 := (t * t % p + t) % p
  let x1 := powMod p (x2 * E.a % p) (p - 2)
  let x2 := (x2 + 1) % p
  let x1 := fsub p 0 (x1 * x2 % p * E.b % p)
  let y := ((x1 * x1 % p * x1 % p) + (x1 * E.a % p) + E.b) % p
  let x2 := x1 * t % p
  let e := powMod p y (p - 2 - p / 4)
  let s := (a * a % p * a % p) * y % p
  if (e * e % p) * y % p = 1 then .A x1 (e * y % p) else .A x2 (e * s % p)

/-- bakeSWU2: `H <- beltWBL(X ‖ 0^128, 0^128); s <- H mod p; W <- ecpSWU(s)` -/
def bakeSWU2 (s : Std) (X : Bytes) : Pt :=
  let H := (Bee2V.C01.wblStepE bc (Bee2V.C01.fmtKey (zeros 16)) (X ++ zeros 16)).1
  ecpSWU (stdCurve s) (leNat H % s.p)

/-- the callback of harness/c04.c (`cert_val`): shorter than a public key ⇒ ERR_BAD_CERT; first octet
0xEE (and longer than a key) ⇒ ERR_BAD_SIG ("the issuer's signature is wrong"); otherwise the public key
is the last l/2 octets -/
def harnessCertVal (l : Nat) (data : Bytes) : Err × Bytes :=
  let k := l / 2
  if data.length < k then (ERR_BAD_CERT, [])
  else if data.length > k ∧ data.head? = some 0xEE then (ERR_BAD_SIG, [])
  else (ERR_OK, data.drop (data.length - k))

def stdEnv (s : Std) : Env Pt :=
  { toCtx := stdCtx s, krp := beltKrp, mac := beltMac, cfbE := beltCfbE, cfbD := beltCfbD, ecbE := beltEcbE, ecbD := beltEcbD, kwpW := beltKwpW, kwpU := beltKwpU, swu := bakeSWU2 s, certVal := harnessCertVal s.l }

end Bee2V.C04

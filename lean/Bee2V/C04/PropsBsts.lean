/-
C04 — BSTS: the honest run.  Every step succeeds (the parsers of Step4 / Step5 recover the parts of the
variable-length messages, the decrypted MQV scalars pass the signature-like check
s·G + (2^l + t)·Q = V) and both parties hold the same key.
-/
import Bee2V.C04.Lemmas
namespace Bee2V.C04
open Bee2V.C02 (Bytes leNat natLE zeros Ctx tapeRead randNZMod loadPub encXY hashL subMod)
open Bee2V.Gen.C04Err
variable {G : Type} [AddCommGroup G] {E : Env G}

/-! ### octet strings -/

omit [AddCommGroup G] in
/-- the middle part of `v ‖ y ‖ m` as Step4 cuts it out -/
theorem bsts_parse_mid {v y m : Bytes} {n : Nat} (hv : v.length = 2 * n) (hm : m.length = 8) :
    ((v ++ y ++ m).drop (2 * n)).take ((v ++ y ++ m).length - 2 * n - 8) = y := by
  have hl : (v ++ y ++ m).length - 2 * n - 8 = y.length := by
    simp only [List.length_append, hv, hm]; omega
  rw [hl, List.append_assoc, List.drop_left' hv, List.take_left' rfl]

omit [AddCommGroup G] in
/-- the last 8 octets -/
theorem bsts_parse_last {w m : Bytes} (hm : m.length = 8) : (w ++ m).drop ((w ++ m).length - 8) = m := by
  have hl : (w ++ m).length - 8 = w.length := by
    simp only [List.length_append, hm]; omega
  rw [hl, List.drop_left' rfl]

omit [AddCommGroup G] in
/-- everything but the last 8 octets -/
theorem bsts_parse_init {w m : Bytes} (hm : m.length = 8) : (w ++ m).take ((w ++ m).length - 8) = w := by
  have hl : (w ++ m).length - 8 = w.length := by
    simp only [List.length_append, hm]; omega
  rw [hl, List.take_left' rfl]

theorem bsts_leNat_natLE (L : Laws E) {v : Nat} (h : v < 2 ^ (2 * E.l)) : leNat (natLE E.no v) = v :=
  Bee2V.C02.leNat_natLE_of_lt (by rw [show E.no = E.toCtx.no from rfl, L.ctx.pow256]; exact h)

theorem bsts_encXY_take (L : Laws E) (v : Nat × Nat) : (encXY E.C v).take E.no = natLE E.no v.1 := by
  have h := encXY_take L v []
  rw [List.append_nil] at h
  exact h

omit [AddCommGroup G] in
/-- the second coordinate of `<V>_4l ‖ r` -/
theorem bsts_encXY_mid (x y : Nat) (r : Bytes) : ((encXY E.C (x, y) ++ r).drop E.no).take E.no = natLE E.no y := by
  rw [show E.no = E.toCtx.no from rfl]
  unfold encXY
  rw [List.append_assoc, Bee2V.C02.drop_natLE_append, Bee2V.C02.take_natLE_append]

omit [AddCommGroup G] in
theorem bsts_encXY_drop (x y : Nat) : (encXY E.C (x, y)).drop E.no = natLE E.no y := by
  rw [show E.no = E.toCtx.no from rfl]
  unfold encXY
  rw [Bee2V.C02.drop_natLE_append]

/-! ### the one-time key, the check -/

theorem bsts_ephem (L : Laws E) {P : G} {tape rest : Bytes} {u : Nat} {V : Nat × Nat}
    (h : randNZMod E.C tape = (some u, rest)) (hV : E.xy (u • P) = some V) :
    ephem E P tape = .ok (rest, u, V) := by
  unfold ephem
  simp only [h, L.smul_eq, hV]

/-- the check of Step4/Step5 on honest values recomputes the coordinates of V = u·G -/
theorem bsts_addMul (L : Laws E) {u : Nat} {V : Nat × Nat} (hu : u < E.q) (hV : E.xy (u • E.base) = some V)
    (d t : Nat) : addMul E (mqvS E u d t) (d • E.base) (t + 2 ^ E.l) = some V := by
  unfold addMul
  rw [L.smul_eq, L.smul_eq, L.add_eq, honest_check L hu]
  exact hV

/-! ### the steps on honest inputs -/

omit [AddCommGroup G] in
theorem bsts_start_ok {set : Settings} (hk : set.kca = 1 ∧ set.kcb = 1) {priv cert tape : Bytes} {Q : G}
    (h : certPub E cert = .ok Q) :
    bstsStart E set priv cert tape = .ok ⟨set, leNat priv, 0, 0, E.zero, (0, 0), cert, [], [], [], tape⟩ := by
  unfold bstsStart
  have hc : ¬ (set.kca ≠ 1 ∨ set.kcb ≠ 1) := by
    rw [hk.1, hk.2]; simp only [ne_eq, not_true_eq_false, or_self, not_false_eq_true]
  simp only [if_neg hc, h]

theorem bsts_step2_ok (L : Laws E) (set : Settings) (d : Nat) (cert : Bytes) {tape rest : Bytes} {u x y : Nat}
    (h : randNZMod E.C tape = (some u, rest)) (hV : E.xy (u • E.base) = some (x, y)) :
    bstsStep2 E ⟨set, d, 0, 0, E.zero, (0, 0), cert, [], [], [], tape⟩
      = .ok (⟨set, d, u, 0, u • E.base, (x, y), cert, [], [], [], rest⟩, encXY E.C (x, y)) := by
  unfold bstsStep2
  simp only [bsts_ephem L h hV, L.smul_eq]

/-- Step3 (A) on the honest M1 = <Vb>_4l -/
theorem bsts_step3_ok (L : Laws E) (set : Settings) (da : Nat) (ca : Bytes) {ta ra : Bytes}
    {ua ub xa ya xb yb xk yk : Nat}
    (hta : randNZMod E.C ta = (some ua, ra))
    (hVa : E.xy (ua • E.base) = some (xa, ya)) (hVb : E.xy (ub • E.base) = some (xb, yb))
    (hK : E.xy (ua • (ub • E.base)) = some (xk, yk)) :
    bstsStep3 E ⟨set, da, 0, 0, E.zero, (0, 0), ca, [], [], [], ta⟩ (encXY E.C (xb, yb))
      = .ok (⟨set, da, ua, hashT E (natLE E.no xa) (natLE E.no xb) + 2 ^ E.l, ub • E.base, (xb, yb), ca,
               (bstsKeys E set xk).1, (bstsKeys E set xk).2.1, (bstsKeys E set xk).2.2, ra⟩,
             encXY E.C (xa, ya)
               ++ E.cfbE (bstsKeys E set xk).2.2 (zeros 16)
                    (natLE E.no (mqvS E ua da (hashT E (natLE E.no xa) (natLE E.no xb))) ++ ca)
               ++ E.mac (bstsKeys E set xk).2.1
                    (E.cfbE (bstsKeys E set xk).2.2 (zeros 16)
                       (natLE E.no (mqvS E ua da (hashT E (natLE E.no xa) (natLE E.no xb))) ++ ca) ++ zeros 16)) := by
  have hload := L.ctx.loadPub_encXY hVb
  obtain ⟨hxp, hyp⟩ := L.ctx.xy_lt _ _ _ hVb
  have hp := L.ctx.p_hi
  have hx : leNat (natLE E.no xb) = xb := bsts_leNat_natLE L (by omega)
  have hy : leNat (natLE E.no yb) = yb := bsts_leNat_natLE L (by omega)
  unfold bstsStep3
  simp only [hload, bsts_ephem L hta hVa, bsts_encXY_take L, bsts_encXY_drop, L.smul_eq, hK, hx, hy]

/-- Step4 (B) on M2 = <Va>_4l ‖ y ‖ MAC where y decrypts to A's MQV scalar and certificate -/
theorem bsts_step4_ok (L : Laws E) (set : Settings) (da db : Nat) (ca cb rb y : Bytes) (tB : Nat) (PB : G)
    {ua ub xa ya xb yb xk yk : Nat}
    (hca : certPub E ca = .ok (da • E.base)) (hla : ca ≠ [])
    (hVa : E.xy (ua • E.base) = some (xa, ya)) (hua : ua < E.q)
    (hK : E.xy (ub • (ua • E.base)) = some (xk, yk))
    (hylen : y.length = E.no + ca.length)
    (hy : E.cfbD (bstsKeys E set xk).2.2 (zeros 16) y
            = natLE E.no (mqvS E ua da (hashT E (natLE E.no xa) (natLE E.no xb))) ++ ca) :
    bstsStep4 E ⟨set, db, ub, tB, PB, (xb, yb), cb, [], [], [], rb⟩
        (encXY E.C (xa, ya) ++ y ++ E.mac (bstsKeys E set xk).2.1 (y ++ zeros 16))
      = .ok (⟨set, db, ub, tB, PB, (xb, yb), cb,
               (bstsKeys E set xk).1, (bstsKeys E set xk).2.1, (bstsKeys E set xk).2.2, rb⟩,
             E.cfbE (bstsKeys E set xk).2.2 (ones 16)
                 (natLE E.no (mqvS E ub db (hashT E (natLE E.no xa) (natLE E.no xb))) ++ cb)
               ++ E.mac (bstsKeys E set xk).2.1
                    (E.cfbE (bstsKeys E set xk).2.2 (ones 16)
                       (natLE E.no (mqvS E ub db (hashT E (natLE E.no xa) (natLE E.no xb))) ++ cb) ++ ones 16)) := by
  have hvlen : (encXY E.C (xa, ya)).length = 2 * E.no := Bee2V.C02.encXY_length E.C (xa, ya)
  have hmlen : (E.mac (bstsKeys E set xk).2.1 (y ++ zeros 16)).length = 8 := L.mac_len _ _
  have hcapos : 0 < ca.length := List.length_pos_iff.mpr hla
  have h1 : ¬ (encXY E.C (xa, ya) ++ y ++ E.mac (bstsKeys E set xk).2.1 (y ++ zeros 16)).length ≤ 3 * E.no + 8 := by
    simp only [List.length_append, hvlen, hylen, hmlen]; omega
  have h2 : (encXY E.C (xa, ya) ++ y ++ E.mac (bstsKeys E set xk).2.1 (y ++ zeros 16)).take (2 * E.no)
      = encXY E.C (xa, ya) := by
    rw [List.append_assoc]; exact encXY_take2 _ _
  have h3 : (encXY E.C (xa, ya) ++ y ++ E.mac (bstsKeys E set xk).2.1 (y ++ zeros 16)).take E.no
      = natLE E.no xa := by
    rw [List.append_assoc]; exact encXY_take L _ _
  have h4 : ((encXY E.C (xa, ya) ++ y ++ E.mac (bstsKeys E set xk).2.1 (y ++ zeros 16)).drop E.no).take E.no
      = natLE E.no ya := by
    rw [List.append_assoc]; exact bsts_encXY_mid _ _ _
  have h5 := bsts_parse_mid (y := y) hvlen hmlen
  have h6 := bsts_parse_last (w := encXY E.C (xa, ya) ++ y) hmlen
  have hload := L.ctx.loadPub_encXY hVa
  obtain ⟨hxp, hyp⟩ := L.ctx.xy_lt _ _ _ hVa
  have hp := L.ctx.p_hi
  have hq := L.ctx.q_hi
  have hsq := (mqvS_spec L hua da (hashT E (natLE E.no xa) (natLE E.no xb))).1
  have hx : leNat (natLE E.no xa) = xa := bsts_leNat_natLE L (by omega)
  have hy' : leNat (natLE E.no ya) = ya := bsts_leNat_natLE L (by omega)
  have hs : leNat (natLE E.no (mqvS E ua da (hashT E (natLE E.no xa) (natLE E.no xb))))
      = mqvS E ua da (hashT E (natLE E.no xa) (natLE E.no xb)) := bsts_leNat_natLE L (by omega)
  have hsq' : ¬ mqvS E ua da (hashT E (natLE E.no xa) (natLE E.no xb)) ≥ E.q := by omega
  have hadd := bsts_addMul L hua hVa da (hashT E (natLE E.no xa) (natLE E.no xb))
  unfold bstsStep4
  simp only [h1, h2, h3, h4, h5, h6, hload, L.smul_eq, hK, hy, Bee2V.C02.take_natLE_append,
    Bee2V.C02.drop_natLE_append, hs, hsq', hca, hadd, hx, hy', ne_eq, not_true_eq_false, ↓reduceIte]

/-- Step5 (A) on M3 = y ‖ MAC where y decrypts to B's MQV scalar and certificate -/
theorem bsts_step5_ok (L : Laws E) (set : Settings) (da db : Nat) (ca cb ra y k0 k1 k2 : Bytes) (uA : Nat) (PA : G)
    {ub xb yb : Nat} (t : Nat)
    (hcb : certPub E cb = .ok (db • E.base)) (hlb : cb ≠ [])
    (hVb : E.xy (ub • E.base) = some (xb, yb)) (hub : ub < E.q)
    (hylen : y.length = E.no + cb.length)
    (hy : E.cfbD k2 (ones 16) y = natLE E.no (mqvS E ub db t) ++ cb) :
    bstsStep5 E ⟨set, da, uA, t + 2 ^ E.l, PA, (xb, yb), ca, k0, k1, k2, ra⟩ (y ++ E.mac k1 (y ++ ones 16))
      = .ok ⟨set, da, uA, t + 2 ^ E.l, PA, (xb, yb), ca, k0, k1, k2, ra⟩ := by
  have hmlen : (E.mac k1 (y ++ ones 16)).length = 8 := L.mac_len _ _
  have hcbpos : 0 < cb.length := List.length_pos_iff.mpr hlb
  have h1 : ¬ (y ++ E.mac k1 (y ++ ones 16)).length ≤ E.no + 8 := by
    simp only [List.length_append, hylen, hmlen]; omega
  have h5 := bsts_parse_init (w := y) hmlen
  have h6 := bsts_parse_last (w := y) hmlen
  have hq := L.ctx.q_hi
  have hsq := (mqvS_spec L hub db t).1
  have hs : leNat (natLE E.no (mqvS E ub db t)) = mqvS E ub db t := bsts_leNat_natLE L (by omega)
  have hsq' : ¬ mqvS E ub db t ≥ E.q := by omega
  have hadd := bsts_addMul L hub hVb db t
  unfold bstsStep5
  simp only [h1, h5, h6, hy, Bee2V.C02.take_natLE_append, Bee2V.C02.drop_natLE_append, hs, hsq', hcb, hadd,
    ne_eq, not_true_eq_false, ↓reduceIte]

/-! ### the honest run -/

/-- BSTS, honest run (both confirmations are mandatory), any hellos, any non-empty certificates that validate
to the parties' public keys, any tapes that yield one-time keys: every step succeeds, both hold the same key -/
theorem honest_agree_bsts (L : Laws E) (set : Settings) (hk : set.kca = 1 ∧ set.kcb = 1) (ka kb ca cb ta tb ra rb : Bytes) (ua ub : Nat)
    (hca : certPub E ca = .ok (leNat ka • E.base)) (hcb : certPub E cb = .ok (leNat kb • E.base))
    (hla : ca ≠ []) (hlb : cb ≠ [])
    (hta : randNZMod E.C ta = (some ua, ra)) (htb : randNZMod E.C tb = (some ub, rb)) :
    ∃ k m, bstsHand E set ka kb ca cb ta tb = .ok ⟨k, k, m⟩ := by
  obtain ⟨hua0, huaq⟩ := rand_range hta
  obtain ⟨hub0, hubq⟩ := rand_range htb
  obtain ⟨xa, ya, hVa⟩ := L.ctx.xy_some (L.ctx.base_mul_ne hua0 huaq)
  obtain ⟨xb, yb, hVb⟩ := L.ctx.xy_some (L.ctx.base_mul_ne hub0 hubq)
  obtain ⟨xk, yk, hKa⟩ := L.ctx.xy_some (L.ctx.mul_mul_ne hua0 huaq hub0 hubq)
  have hKb : E.xy (ub • (ua • E.base)) = some (xk, yk) := by
    rw [← mul_nsmul', Nat.mul_comm, mul_nsmul']
    exact hKa
  have h3 := bsts_step3_ok L set (leNat ka) ca hta hVa hVb hKa
  have h4 := bsts_step4_ok L set (leNat ka) (leNat kb) ca cb rb
    (E.cfbE (bstsKeys E set xk).2.2 (zeros 16)
      (natLE E.no (mqvS E ua (leNat ka) (hashT E (natLE E.no xa) (natLE E.no xb))) ++ ca))
    0 (ub • E.base) (yb := yb) hca hla hVa huaq hKb
    (by rw [L.cfb_len, List.length_append, Bee2V.C02.natLE_length])
    (L.cfb_inv _ _ _)
  have h5 := bsts_step5_ok L set (leNat ka) (leNat kb) ca cb ra
    (E.cfbE (bstsKeys E set xk).2.2 (ones 16)
      (natLE E.no (mqvS E ub (leNat kb) (hashT E (natLE E.no xa) (natLE E.no xb))) ++ cb))
    (bstsKeys E set xk).1 (bstsKeys E set xk).2.1 (bstsKeys E set xk).2.2 ua (ub • E.base)
    (hashT E (natLE E.no xa) (natLE E.no xb)) hcb hlb hVb hubq
    (by rw [L.cfb_len, List.length_append, Bee2V.C02.natLE_length])
    (L.cfb_inv _ _ _)
  unfold bstsHand
  simp only [bsts_start_ok hk hca, bsts_start_ok hk hcb, bsts_step2_ok L set (leNat kb) cb htb hVb, h3, h4, h5]
  exact ⟨_, _, rfl⟩

end Bee2V.C04

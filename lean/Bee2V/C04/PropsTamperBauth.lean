/-
C04 — BAUTH under an active adversary who replaces every message by arbitrary octets: if all steps succeed
and the two keys are equal then a collision of KRP or of belt-hash is exhibited, or the hashed parts of the
transcript (Rct, Rt, the tag Tt) arrived as they were sent (`tamper_bauth`).
The lemmas `tbauth_*_inv` read off what a successful step implies.
-/
import Bee2V.C04.Lemmas
namespace Bee2V.C04
open Bee2V.C02 (Bytes leNat natLE zeros Ctx tapeRead randNZMod loadPub encXY hashL subMod)
open Bee2V.Gen.C04Err
variable {G : Type} [AddCommGroup G] {E : Env G}

theorem tbauth_tapeRead_len (n : Nat) (t : Bytes) : (tapeRead n t).1.length = n := by
  unfold tapeRead zeros
  simp only [List.length_append, List.length_take, List.length_replicate]
  omega

/-! ### what a successful step implies -/

omit [AddCommGroup G] in
theorem tbauth_ctStart_inv {set : Settings} {priv cert tape : Bytes} {s : BauthCtSt}
    (h : bauthCtStart E set priv cert tape = .ok s) : s.set = set := by
  unfold bauthCtStart at h
  split at h
  · cases h
  · split at h
    · cases h
    · cases h; rfl

omit [AddCommGroup G] in
theorem tbauth_tStart_inv {set : Settings} {priv cert tape : Bytes} {s : BauthTSt G}
    (h : bauthTStart E set priv cert tape = .ok s) : s.set = set := by
  unfold bauthTStart at h
  split at h
  · cases h
  · split at h
    · cases h
    · cases h; rfl

/-- the token keeps its settings, Rct has l bits, M1 = `<Vct>_4l ‖ token` has `2·no + no/2 + 16` octets -/
theorem tbauth_ctStep2_inv (L : Laws E) {s s' : BauthCtSt} {certt m : Bytes}
    (h : bauthCtStep2 E s certt = .ok (s', m)) :
    s'.set = s.set ∧ s'.r.length = E.no / 2 ∧ m.length = 2 * E.no + (E.no / 2 + 16) := by
  unfold bauthCtStep2 at h
  simp only at h
  split at h
  · cases h
  · split at h
    · cases h
    · split at h
      · cases h
      · simp only [Except.ok.injEq, Prod.mk.injEq] at h
        obtain ⟨rfl, rfl⟩ := h
        have hr := tbauth_tapeRead_len (E.no / 2) s.tape
        refine ⟨rfl, hr, ?_⟩
        rw [List.length_append, L.kwp_len _ _ hr, hr]
        exact congrArg (· + (E.no / 2 + 16)) (Bee2V.C02.encXY_length E.C _)

omit [AddCommGroup G] in
theorem tbauth_tStep3_inv {s s' : BauthTSt G} {inp m : Bytes} (h : bauthTStep3 E s inp = .ok (s', m)) :
    ∃ (K : Nat × Nat) (V : G) (rct : Bytes), loadPub E.C (inp.take (2 * E.no)) = some V ∧ E.xy (E.smul s.d V) = some K ∧
      E.kwpU (kwKey E K.1) (inp.drop (2 * E.no)) = some rct ∧
      s'.k0 = E.krp (bauthY E s.set rct s'.r) 0 ∧
      m = E.mac (E.krp (bauthY E s.set rct s'.r) 1) (zeros 16) ++ (if s.set.kcb ≠ 0 then s'.r else []) := by
  unfold bauthTStep3 at h
  simp only at h
  split at h
  · cases h
  · rename_i V hV
    split at h
    · cases h
    · rename_i K hK
      split at h
      · cases h
      · rename_i rct hU
        simp only [Except.ok.injEq, Prod.mk.injEq] at h
        obtain ⟨rfl, rfl⟩ := h
        exact ⟨K, V, rct, hV, hK, hU, rfl, rfl⟩

omit [AddCommGroup G] in
theorem tbauth_ctStep4_inv {s s' : BauthCtSt} {inp m : Bytes} (h : bauthCtStep4 E s inp = .ok (s', m)) :
    E.mac (E.krp (bauthY E s.set s.r ((inp.drop 8).take 16)) 1) (zeros 16) = inp.take 8 ∧
      s'.k0 = E.krp (bauthY E s.set s.r ((inp.drop 8).take 16)) 0 := by
  unfold bauthCtStep4 at h
  simp only at h
  split at h
  · cases h
  · rename_i hm
    refine ⟨not_not.1 hm, ?_⟩
    split at h
    · simp only [Except.ok.injEq, Prod.mk.injEq] at h
      obtain ⟨rfl, -⟩ := h
      rfl
    · simp only [Except.ok.injEq, Prod.mk.injEq] at h
      obtain ⟨rfl, -⟩ := h
      rfl

/-! ### the adversary -/

/-- BAUTH: acceptance + equal keys ⇒ collision, or the terminal unwrapped exactly the secret Rct the token wrapped, the
token received the terminal's Rt (when kcb) and the tag Tt unchanged.  (No length condition on M2' is needed: the token
reads `M2'[0..8)` and `M2'[8..24)` whatever arrives.) -/
theorem tamper_bauth (L : Laws E) (set : Settings) (kt kct certt certt' certct tt tct m1' m2' : Bytes)
    {sb0 sb1 sb2 : BauthCtSt} {sa0 sa1 : BauthTSt G} {m1 m2 m3 : Bytes}
    (hb0 : bauthCtStart E set kct certct tct = .ok sb0) (ha0 : bauthTStart E set kt certt tt = .ok sa0)
    (h2 : bauthCtStep2 E sb0 certt' = .ok (sb1, m1))
    (hl1 : m1'.length = m1.length)
    (h3 : bauthTStep3 E sa0 m1' = .ok (sa1, m2))
    (h4 : bauthCtStep4 E sb1 m2' = .ok (sb2, m3))
    (hk : bauthTStepG sa1 = bauthCtStepG sb2) :
    Collision (fun Y => E.krp Y 0) ∨ Collision E.hash ∨
      (∃ K : Nat × Nat, ∃ V, loadPub E.C (m1'.take (2 * E.no)) = some V ∧ E.xy (E.smul sa0.d V) = some K ∧
          E.kwpU (kwKey E K.1) (m1'.drop (2 * E.no)) = some sb1.r) ∧
      (set.kcb ≠ 0 → (m2'.drop 8).take 16 = sa1.r) ∧ m2'.take 8 = m2.take 8 := by
  have eb0 := tbauth_ctStart_inv hb0
  have ea0 := tbauth_tStart_inv ha0
  obtain ⟨eb1, hrl, hm1⟩ := tbauth_ctStep2_inv L h2
  obtain ⟨K, V, rct, hV, hK, hU, hka, hm2⟩ := tbauth_tStep3_inv h3
  obtain ⟨hmac, hkb⟩ := tbauth_ctStep4_inv h4
  rw [eb1, eb0] at hmac hkb
  rw [ea0] at hka hm2
  unfold bauthTStepG bauthCtStepG at hk
  rw [hka, hkb] at hk
  -- KRP
  rcases eq_or_collision (fun Y => E.krp Y 0) hk with hY | hc
  swap
  · exact .inl hc
  -- belt-hash
  have hY' := hY
  unfold bauthY at hY'
  rcases eq_or_collision E.hash hY' with hin | hc
  swap
  · exact .inr (.inl hc)
  refine .inr (.inr ?_)
  -- the hashed octets: Rct ‖ [Rt] ‖ hello, |Rct| = no/2 on both sides
  have hlen : rct.length = sb1.r.length := by
    have := L.kwpU_len _ _ _ hU
    rw [List.length_drop, hl1, hm1] at this
    omega
  have h1 := (List.append_left_inj _).1 hin
  obtain ⟨hr, hrt⟩ := List.append_inj h1 hlen
  subst hr
  refine ⟨⟨K, V, hV, hK, hU⟩, ?_, ?_⟩
  · intro hkcb
    rw [if_pos hkcb, if_pos hkcb] at hrt
    exact hrt.symm
  · rw [← hmac, ← hY, hm2]
    exact (List.take_left' (L.mac_len _ _)).symm

end Bee2V.C04

/-
C04 — `reject_exact`: a step that receives a point fails with ERR_BAD_POINT exactly when the received
coordinates are out of the field (≥ p) or the pair is not a point of the curve (the value `(0,0)`,
`(x,0)`, a point of the twist or of another curve are instances).  So every such substitution is rejected
unconditionally — before any secret-dependent computation, whatever the flags, hellos and tapes.
`loadPub` is `qrFrom ∧ qrFrom ∧ ecpIsOnA` (C02 model); `E.ofXY x y = none` ⇔ (x, y) is not the
coordinate pair of a group element (`notPoint_iff`).
-/
import Bee2V.C04.Lemmas
namespace Bee2V.C04
open Bee2V.C02 (Bytes leNat natLE zeros Ctx tapeRead randNZMod loadPub encXY hashL subMod)
open Bee2V.Gen.C04Err
variable {G : Type} [AddCommGroup G] {E : Env G}

/-- the received octets are not the encoding of a point: a coordinate ≥ p, or off the curve -/
def BadPoint (E : Env G) (m : Bytes) : Prop :=
  (leNat (m.take E.no) ≥ E.p ∨ leNat (m.drop E.no) ≥ E.p) ∨ E.ofXY (leNat (m.take E.no)) (leNat (m.drop E.no)) = none

theorem badPoint_iff (m : Bytes) : loadPub E.C m = none ↔ BadPoint E m := loadPub_none_iff m

/-- under the laws, `ofXY x y = none` says that no group element has the coordinates (x, y) -/
theorem notPoint_iff (L : Laws E) (x y : Nat) : E.ofXY x y = none ↔ ¬ ∃ P, E.xy P = some (x, y) := by
  constructor
  · intro h ⟨P, hP⟩
    rw [L.ctx.ofXY_xy P x y hP] at h
    cases h
  · intro h
    cases ho : E.ofXY x y with
    | none => rfl
    | some P => exact absurd ⟨P, L.ctx.xy_ofXY x y P ho⟩ h

theorem ephem_error {P : G} {tape : Bytes} {e : Err} (h : ephem E P tape = .error e) :
    e = ERR_BAD_RNG ∨ e = ERR_BAD_PARAMS := by
  unfold ephem at h
  split at h
  · cases h; exact .inl rfl
  · split at h
    · cases h; exact .inr rfl
    · cases h

theorem mqvK_error {V Q : G} {t s : Nat} {e : Err} (h : mqvK E V Q t s = .error e) : e = ERR_BAD_PARAMS := by
  unfold mqvK at h
  split at h
  · cases h; rfl
  · simp only at h
    split at h
    · cases h
    · split at h <;> cases h

/-- bakeBMQVStep3 (certificate of B accepted by the callback): ERR_BAD_POINT ⇔ the received Vb is no point -/
theorem reject_exact_bmqvStep3 (s : BmqvSt) (inp certb : Bytes) {Qb : G} (hc : certPub E certb = .ok Qb) :
    bmqvStep3 E s inp certb = .error ERR_BAD_POINT ↔ BadPoint E inp := by
  rw [← badPoint_iff]
  unfold bmqvStep3
  simp only [hc]
  cases hl : loadPub E.C inp with
  | none => simp
  | some Vb =>
    simp only []
    constructor
    · intro h
      exfalso
      cases he : ephem E E.base s.tape with
      | error e =>
        rw [he] at h
        simp only [Except.error.injEq] at h
        rcases ephem_error he with h1 | h1 <;> rw [h1] at h <;> cases h
      | ok r =>
        obtain ⟨rest, u, Va⟩ := r
        rw [he] at h
        simp only at h
        split at h
        · rename_i e hk
          simp only [Except.error.injEq] at h
          rw [mqvK_error hk] at h
          cases h
        · cases h
    · intro h; cases h

/-- bakeBMQVStep4 -/
theorem reject_exact_bmqvStep4 (s : BmqvSt) (inp certa : Bytes) {Qa : G} (hc : certPub E certa = .ok Qa) :
    bmqvStep4 E s inp certa = .error ERR_BAD_POINT ↔ BadPoint E (inp.take (2 * E.no)) := by
  rw [← badPoint_iff]
  unfold bmqvStep4
  simp only [hc]
  cases hl : loadPub E.C (inp.take (2 * E.no)) with
  | none => simp
  | some Va =>
    simp only []
    constructor
    · intro h
      exfalso
      split at h
      · rename_i e hk
        simp only [Except.error.injEq] at h
        rw [mqvK_error hk] at h
        cases h
      · split at h <;> cases h
    · intro h; cases h

/-- bakeBSTSStep3: the first thing the step does -/
theorem reject_exact_bstsStep3 (s : BstsSt G) (inp : Bytes) :
    bstsStep3 E s inp = .error ERR_BAD_POINT ↔ BadPoint E inp := by
  rw [← badPoint_iff]
  unfold bstsStep3
  cases hl : loadPub E.C inp with
  | none => simp
  | some Vb =>
    simp only []
    constructor
    · intro h
      exfalso
      cases he : ephem E E.base s.tape with
      | error e =>
        rw [he] at h
        simp only [Except.error.injEq] at h
        rcases ephem_error he with h1 | h1 <;> rw [h1] at h <;> cases h
      | ok r =>
        obtain ⟨rest, u, Va⟩ := r
        rw [he] at h
        simp only at h
        split at h <;> cases h
    · intro h; cases h

/-- bakeBPACEStep4 -/
theorem reject_exact_bpaceStep4 (s : BpaceSt G) (inp : Bytes) :
    bpaceStep4 E s inp = .error ERR_BAD_POINT ↔ BadPoint E ((inp.drop (E.no / 2)).take (2 * E.no)) := by
  rw [← badPoint_iff]
  unfold bpaceStep4
  simp only []
  cases hl : loadPub E.C ((inp.drop (E.no / 2)).take (2 * E.no)) with
  | none => simp
  | some Va =>
    simp only []
    constructor
    · intro h
      exfalso
      split at h
      · cases h
      · split at h
        · cases h
        · split at h <;> cases h
    · intro h; cases h

/-- bakeBPACEStep5 -/
theorem reject_exact_bpaceStep5 (s : BpaceSt G) (inp : Bytes) :
    bpaceStep5 E s inp = .error ERR_BAD_POINT ↔ BadPoint E (inp.take (2 * E.no)) := by
  rw [← badPoint_iff]
  unfold bpaceStep5
  simp only []
  cases hl : loadPub E.C (inp.take (2 * E.no)) with
  | none => simp
  | some Vb =>
    simp only []
    constructor
    · intro h
      exfalso
      split at h
      · cases h
      · split at h <;> cases h
    · intro h; cases h

/-- btokBAuthTStep3 -/
theorem reject_exact_bauthTStep3 (s : BauthTSt G) (inp : Bytes) :
    bauthTStep3 E s inp = .error ERR_BAD_POINT ↔ BadPoint E (inp.take (2 * E.no)) := by
  rw [← badPoint_iff]
  unfold bauthTStep3
  simp only []
  cases hl : loadPub E.C (inp.take (2 * E.no)) with
  | none => simp
  | some V =>
    simp only []
    constructor
    · intro h
      exfalso
      split at h
      · cases h
      · split at h <;> cases h
    · intro h; cases h

/-- non-vacuity: the all-zero octets are a bad point as soon as (0,0) is not on the curve -/
example (h : E.ofXY 0 0 = none) : BadPoint E (zeros (2 * E.no)) := by
  right
  have z : ∀ n, leNat (zeros n) = 0 := by
    intro n; induction n with
    | zero => rfl
    | succ n ih => show leNat ((0 : UInt8) :: zeros n) = 0; simp [leNat, ih]
  have h1 : (zeros (2 * E.no)).take E.no = zeros (min E.no (2 * E.no)) := by simp [zeros]
  have h2 : (zeros (2 * E.no)).drop E.no = zeros (2 * E.no - E.no) := by simp [zeros]
  rw [h1, h2, z, z]; exact h

end Bee2V.C04

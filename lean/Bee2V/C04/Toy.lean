/-
C04 — non-vacuity: `Laws E` is satisfiable (a concrete environment over ZMod 65521 built on the toy
context of C02: cyclic group of prime order 65521, l = 8, identity "ciphers", constant hash/MAC), and the
hypotheses of the honest-run theorems are met by concrete keys, certificates and tapes.
-/
import Bee2V.C02.Toy
import Bee2V.C04.PropsBmqv
import Bee2V.C04.PropsBsts
import Bee2V.C04.PropsBpace
import Bee2V.C04.PropsBauth
namespace Bee2V.C04
open Bee2V.C02 (Bytes leNat natLE zeros randNZMod tapeRead)
open Bee2V.C02.Toy (toyCtx toyLaws)
open Bee2V.Gen.C04Err

def toyEnv : Env (ZMod 65521) :=
  { toCtx := toyCtx, krp := fun _ _ => zeros 32, mac := fun _ _ => zeros 8, cfbE := fun _ _ x => x, cfbD := fun _ _ x => x, ecbE := fun _ x => x, ecbD := fun _ x => x, kwpW := fun _ x => x ++ zeros 16, kwpU := fun _ t => if 16 ≤ t.length then some (t.take (t.length - 16)) else none, swu := fun _ => 1, certVal := fun c => (ERR_OK, c.drop (c.length - 4)) }

theorem toyEnvLaws : Laws toyEnv where
  ctx := toyLaws
  mac_len := fun _ _ => by simp [toyEnv, zeros]
  krp_len := fun _ _ => by simp [toyEnv, zeros]
  cfb_len := fun _ _ _ => rfl
  cfb_inv := fun _ _ _ => rfl
  ecb_len := fun _ _ _ => rfl
  ecb_inv := fun _ _ _ => rfl
  kwp_len := fun _ x _ => by simp [toyEnv, zeros]
  kwp_inv := fun _ x _ => by
    show (if 16 ≤ (x ++ zeros 16).length then some ((x ++ zeros 16).take ((x ++ zeros 16).length - 16)) else none) = some x
    have : (x ++ zeros 16).length = x.length + 16 := by simp [zeros]
    rw [this, if_pos (by omega), Nat.add_sub_cancel, List.take_left']
    rfl
  kwpU_len := fun _ t x h => by
    change (if 16 ≤ t.length then some (t.take (t.length - 16)) else none) = some x at h
    split at h
    · cases h; rw [List.length_take]; omega
    · cases h
  swu_ne := fun _ => by
    show (1 : ZMod 65521) ≠ 0
    decide

/-- the laws are satisfiable -/
theorem laws_satisfiable : ∃ E : Env (ZMod 65521), Laws E := ⟨toyEnv, toyEnvLaws⟩

end Bee2V.C04

namespace Bee2V.C04
open Bee2V.C02 (Bytes leNat natLE zeros randNZMod tapeRead)
open Bee2V.C02.Toy (toyCtx toyLaws)
open Bee2V.Gen.C04Err

theorem toy_cert5 : certPub toyEnv [5, 0, 5, 0] = .ok (leNat [5, 0] • toyEnv.base) := by decide
theorem toy_cert7 : certPub toyEnv [7, 0, 7, 0] = .ok (leNat [7, 0] • toyEnv.base) := by decide

/-- the hypotheses of `honest_agree_bmqv` are satisfiable: keys 5 and 7, one-time keys 9 and 7 (after a rejected draw) -/
example : ∃ k m, bmqvHand toyEnv ⟨1, 0, some [1, 2, 3], none⟩ [5, 0] [7, 0] [5, 0, 5, 0] [7, 0, 7, 0] [0, 0, 241, 255, 9, 0] [0, 0, 7, 0] = .ok ⟨k, k, m⟩ :=
  honest_agree_bmqv toyEnvLaws _ _ _ _ _ _ _ [] [] 9 7 toy_cert5 toy_cert7 (by decide) (by decide)

example : ∃ k m, bstsHand toyEnv ⟨1, 1, none, some []⟩ [5, 0] [7, 0] [5, 0, 5, 0] [7, 0, 7, 0] [0, 0, 241, 255, 9, 0] [0, 0, 7, 0] = .ok ⟨k, k, m⟩ :=
  honest_agree_bsts toyEnvLaws _ ⟨rfl, rfl⟩ _ _ _ _ _ _ [] [] 9 7 toy_cert5 toy_cert7 (by simp) (by simp) (by decide) (by decide)

example : ∃ k m, bpaceHand toyEnv ⟨0, 1, none, none⟩ [56, 48] [56, 48] [3, 0, 0, 7, 0] [4, 9, 0] = .ok ⟨k, k, m⟩ :=
  honest_agree_bpace toyEnvLaws _ _ _ _ [] [] 7 9 (by decide) (by decide)

example : ∃ k m, bauthHand toyEnv ⟨1, 1, none, none⟩ [5, 0] [7, 0] [5, 0, 5, 0] [7, 0, 7, 0] [1, 2, 3] [4, 9, 0] = .ok ⟨k, k, m⟩ :=
  honest_agree_bauth toyEnvLaws _ rfl _ _ _ _ _ _ [] 9 toy_cert5 toy_cert7 (by decide)

end Bee2V.C04

/-
C04 — BMQV: the honest run.  Every step succeeds and both parties hold the same key, for every flag
combination; when an MQV scalar s = (u − (2^l + t)d) mod q is zero both parties take K <- G
(the behaviour repaired by docs/C04.fix-1.diff).
-/
import Bee2V.C04.Lemmas
namespace Bee2V.C04
open Bee2V.C02 (Bytes leNat natLE zeros Ctx tapeRead randNZMod loadPub encXY hashL subMod)
open Bee2V.Gen.C04Err
variable {G : Type} [AddCommGroup G] {E : Env G}

/-! ### sizes -/

/-- `t = <belt-hash(..)>_l` is an l-bit number -/
theorem bmqv_hashT_lt (L : Laws E) (a b : Bytes) : hashT E a b < 2 ^ E.l := by
  unfold hashT
  have h := Bee2V.C02.leNat_lt (hashL E.C (a ++ b))
  rw [L.ctx.hashL_len, L.ctx.pow256h] at h
  exact h

/-- `0 < t + 2^l < q` for an l-bit t -/
theorem bmqv_t_range (L : Laws E) {t : Nat} (ht : t < 2 ^ E.l) : 0 < t + 2 ^ E.l ∧ t + 2 ^ E.l < E.q := by
  have hl : 8 ≤ E.l := by
    have h1 := L.ctx.l_mod
    have h2 := L.ctx.l_pos
    omega
  have h2 : 2 ^ (E.l + 1) ≤ 2 ^ (2 * E.l - 1) := Nat.pow_le_pow_right (by decide) (by omega)
  have h3 := L.ctx.q_lo
  have h4 : 2 ^ (E.l + 1) = 2 ^ E.l * 2 := Nat.pow_succ 2 E.l
  have h5 : 0 < 2 ^ E.l := Nat.pow_pos (by decide)
  omega

theorem bmqv_encXY_take (L : Laws E) (v : Nat × Nat) : (encXY E.C v).take E.no = natLE E.no v.1 := by
  have h := encXY_take L v []
  rw [List.append_nil] at h
  exact h

/-! ### the one-time key and the MQV point -/

theorem bmqv_ephem (L : Laws E) {P : G} {tape rest : Bytes} {u : Nat} {V : Nat × Nat}
    (h : randNZMod E.C tape = (some u, rest)) (hV : E.xy (u • P) = some V) :
    ephem E P tape = .ok (rest, u, V) := by
  unfold ephem
  simp only [h, L.smul_eq, hV]

/-- `V − (2^l + t)·Q = s·G` for V = u·G, Q = d·G, s the MQV scalar of (u, d, t) -/
theorem bmqv_mqvK_D (L : Laws E) {u : Nat} (hu : u < E.q) (d t : Nat) :
    u • E.base + -((t + 2 ^ E.l) • (d • E.base)) = mqvS E u d t • E.base := by
  have h := honest_check L hu d t
  rw [← h, add_neg_cancel_right]

/-- mqvK on honest inputs never fails: the result is the x-coordinate of s'·(s·G) when that point is affine
and the x-coordinate of the base point otherwise (s = 0: the difference is O; s' = 0: the multiple is O) -/
theorem bmqv_mqvK_eq (L : Laws E) {u d t : Nat} (s' : Nat) (hu : u < E.q) (hd : d • E.base ≠ 0)
    (ht : t < 2 ^ E.l) :
    mqvK E (u • E.base) (d • E.base) t s'
      = .ok ((E.xy (s' • (mqvS E u d t • E.base))).elim (natLE E.no (baseX E)) (fun K => natLE E.no K.1)) := by
  obtain ⟨h0, hq⟩ := bmqv_t_range L ht
  obtain ⟨x1, y1, h1⟩ := L.ctx.xy_some (L.ctx.nsmul_ne hd h0 hq)
  have hsq := (mqvS_spec L hu d t).1
  have h3 : E.xy (0 : G) = none := (L.ctx.xy_none 0).2 rfl
  unfold mqvK
  simp only [L.smul_eq, L.add_eq, L.neg_eq, bmqv_mqvK_D L hu d t, h1]
  by_cases hs : mqvS E u d t = 0
  · simp only [hs, zero_nsmul, nsmul_zero, h3, Option.elim]
  · obtain ⟨x2, y2, h2⟩ := L.ctx.xy_some (L.ctx.base_mul_ne (Nat.pos_of_ne_zero hs) hsq)
    simp only [h2]
    cases hK : E.xy (s' • (mqvS E u d t • E.base)) with
    | none => simp only [Option.elim]
    | some K => simp only [Option.elim]

/-! ### the steps on honest inputs -/

omit [AddCommGroup G] in
theorem bmqv_start_ok {set : Settings} {priv cert tape : Bytes} {Q : G} (h : certPub E cert = .ok Q) :
    bmqvStart E set priv cert tape = .ok ⟨set, leNat priv, 0, [], cert, [], [], tape⟩ := by
  unfold bmqvStart
  simp only [h]

theorem bmqv_step2_ok (L : Laws E) (set : Settings) (d : Nat) (cert : Bytes) {tape rest : Bytes} {u x y : Nat}
    (h : randNZMod E.C tape = (some u, rest)) (hV : E.xy (u • E.base) = some (x, y)) :
    bmqvStep2 E ⟨set, d, 0, [], cert, [], [], tape⟩
      = .ok (⟨set, d, u, natLE E.no x, cert, [], [], rest⟩, encXY E.C (x, y)) := by
  unfold bmqvStep2
  simp only [bmqv_ephem L h hV, bmqv_encXY_take L]

/-- Step3 (A) on the honest M1 = <Vb>_4l, given the value `K` of the MQV point computation -/
theorem bmqv_step3_ok (L : Laws E) (set : Settings) (da db : Nat) (ca cb : Bytes) {ta ra : Bytes}
    {ua ub xa ya xb yb : Nat} {K : Bytes}
    (hcb : certPub E cb = .ok (db • E.base)) (hta : randNZMod E.C ta = (some ua, ra))
    (hVa : E.xy (ua • E.base) = some (xa, ya)) (hVb : E.xy (ub • E.base) = some (xb, yb))
    (hmq : mqvK E (ub • E.base) (db • E.base) (hashT E (natLE E.no xa) (natLE E.no xb))
             (mqvS E ua da (hashT E (natLE E.no xa) (natLE E.no xb))) = .ok K) :
    bmqvStep3 E ⟨set, da, 0, [], ca, [], [], ta⟩ (encXY E.C (xb, yb)) cb
      = .ok (⟨set, da, ua, [], ca,
               E.krp (E.hash (K ++ ca ++ cb ++ set.hello)) 0,
               if set.kca ≠ 0 ∨ set.kcb ≠ 0 then E.krp (E.hash (K ++ ca ++ cb ++ set.hello)) 1 else [],
               ra⟩,
             encXY E.C (xa, ya) ++
               (if set.kca ≠ 0 then
                  E.mac (if set.kca ≠ 0 ∨ set.kcb ≠ 0 then E.krp (E.hash (K ++ ca ++ cb ++ set.hello)) 1 else [])
                    (zeros 16)
                else [])) := by
  have hload := L.ctx.loadPub_encXY hVb
  unfold bmqvStep3
  simp only [hcb, hload, bmqv_ephem L hta hVa, bmqv_encXY_take L, hmq, bmqvKeys]

/-- Step4 (B) on M2 = <Va>_4l ‖ tag where `tag` carries A's confirmation when it is switched on -/
theorem bmqv_step4_ok (L : Laws E) (set : Settings) (da db : Nat) (ca cb rb tag : Bytes)
    {ua ub xa ya xb : Nat} {K : Bytes}
    (hca : certPub E ca = .ok (da • E.base))
    (hVa : E.xy (ua • E.base) = some (xa, ya))
    (hmq : mqvK E (ua • E.base) (da • E.base) (hashT E (natLE E.no xa) (natLE E.no xb))
             (mqvS E ub db (hashT E (natLE E.no xa) (natLE E.no xb))) = .ok K)
    (htag : set.kca ≠ 0 →
      E.mac (if set.kca ≠ 0 ∨ set.kcb ≠ 0 then E.krp (E.hash (K ++ ca ++ cb ++ set.hello)) 1 else [])
        (zeros 16) = tag.take 8) :
    bmqvStep4 E ⟨set, db, ub, natLE E.no xb, cb, [], [], rb⟩ (encXY E.C (xa, ya) ++ tag) ca
      = .ok (⟨set, db, ub, natLE E.no xb, cb,
               E.krp (E.hash (K ++ ca ++ cb ++ set.hello)) 0,
               if set.kca ≠ 0 ∨ set.kcb ≠ 0 then E.krp (E.hash (K ++ ca ++ cb ++ set.hello)) 1 else [],
               rb⟩,
             if set.kcb ≠ 0 then
               E.mac (if set.kca ≠ 0 ∨ set.kcb ≠ 0 then E.krp (E.hash (K ++ ca ++ cb ++ set.hello)) 1 else [])
                 (ones 16)
             else []) := by
  have hload := L.ctx.loadPub_encXY hVa
  have hcond : ¬ (set.kca ≠ 0 ∧
      E.mac (if set.kca ≠ 0 ∨ set.kcb ≠ 0 then E.krp (E.hash (K ++ ca ++ cb ++ set.hello)) 1 else [])
        (zeros 16) ≠ tag.take 8) := fun h => h.2 (htag h.1)
  unfold bmqvStep4
  simp only [hca, encXY_take2, encXY_take L, encXY_drop2, hload, hmq, bmqvKeys, if_neg hcond]

omit [AddCommGroup G] in
theorem bmqv_step5_ok (set : Settings) (d u : Nat) (vb cert k0 k1 tape inp : Bytes)
    (hk : set.kcb ≠ 0) (hm : E.mac k1 (ones 16) = inp.take 8) :
    bmqvStep5 E ⟨set, d, u, vb, cert, k0, k1, tape⟩ inp = .ok ⟨set, d, u, vb, cert, k0, k1, tape⟩ := by
  unfold bmqvStep5
  simp only [if_neg hk, hm, ne_eq, not_true_eq_false, if_false]

/-! ### the honest run -/

/-- BMQV, honest run, every flag combination, any hellos, any certificates that validate to the parties'
public keys, any generator tapes that yield one-time keys: every step succeeds and both hold the same key
(also in the runs in which an MQV scalar s = (u − (2^l+t)d) mod q is zero: both then take K <- G). -/
theorem honest_agree_bmqv (L : Laws E) (set : Settings) (ka kb ca cb ta tb ra rb : Bytes) (ua ub : Nat)
    (hca : certPub E ca = .ok (leNat ka • E.base)) (hcb : certPub E cb = .ok (leNat kb • E.base))
    (hta : randNZMod E.C ta = (some ua, ra)) (htb : randNZMod E.C tb = (some ub, rb)) :
    ∃ k m, bmqvHand E set ka kb ca cb ta tb = .ok ⟨k, k, m⟩ := by
  obtain ⟨hua0, huaq⟩ := rand_range hta
  obtain ⟨hub0, hubq⟩ := rand_range htb
  obtain ⟨xa, ya, hVa⟩ := L.ctx.xy_some (L.ctx.base_mul_ne hua0 huaq)
  obtain ⟨xb, yb, hVb⟩ := L.ctx.xy_some (L.ctx.base_mul_ne hub0 hubq)
  have hmqA := bmqv_mqvK_eq L (mqvS E ua (leNat ka) (hashT E (natLE E.no xa) (natLE E.no xb)))
    hubq (certPub_ne L hcb) (bmqv_hashT_lt L (natLE E.no xa) (natLE E.no xb))
  have hmqB := bmqv_mqvK_eq L (mqvS E ub (leNat kb) (hashT E (natLE E.no xa) (natLE E.no xb)))
    huaq (certPub_ne L hca) (bmqv_hashT_lt L (natLE E.no xa) (natLE E.no xb))
  have hcomm : mqvS E ub (leNat kb) (hashT E (natLE E.no xa) (natLE E.no xb)) •
      (mqvS E ua (leNat ka) (hashT E (natLE E.no xa) (natLE E.no xb)) • E.base)
      = mqvS E ua (leNat ka) (hashT E (natLE E.no xa) (natLE E.no xb)) •
      (mqvS E ub (leNat kb) (hashT E (natLE E.no xa) (natLE E.no xb)) • E.base) := by
    rw [← mul_nsmul', ← mul_nsmul', Nat.mul_comm]
  rw [hcomm] at hmqB
  generalize (E.xy (mqvS E ua (leNat ka) (hashT E (natLE E.no xa) (natLE E.no xb)) •
      (mqvS E ub (leNat kb) (hashT E (natLE E.no xa) (natLE E.no xb)) • E.base))).elim
      (natLE E.no (baseX E)) (fun K => natLE E.no K.1) = K at hmqA hmqB
  have h3 := bmqv_step3_ok L set (leNat ka) (leNat kb) ca cb hcb hta hVa hVb hmqA
  have h4 := bmqv_step4_ok L set (leNat ka) (leNat kb) ca cb rb
    (if set.kca ≠ 0 then
      E.mac (if set.kca ≠ 0 ∨ set.kcb ≠ 0 then E.krp (E.hash (K ++ ca ++ cb ++ set.hello)) 1 else [])
        (zeros 16)
     else []) hca hVa hmqB
    (by
      intro hk
      rw [if_pos hk, List.take_of_length_le (by rw [L.mac_len])])
  unfold bmqvHand
  simp only [bmqv_start_ok hca, bmqv_start_ok hcb, bmqv_step2_ok L set (leNat kb) cb htb hVb, h3, h4]
  by_cases hk : set.kcb ≠ 0
  · rw [if_pos hk]
    rw [bmqv_step5_ok (E := E) set _ _ _ _ _ _ _ _ hk
      (by rw [if_pos hk, List.take_of_length_le (by rw [L.mac_len])])]
    exact ⟨_, _, rfl⟩
  · rw [if_neg hk]
    exact ⟨_, _, rfl⟩

end Bee2V.C04

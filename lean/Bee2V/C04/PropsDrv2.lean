/-
C04 — the drivers, phase 2:
(A) every callback failure is returned at once and without a key (`Propagates`, for all six drivers, and its meaning
    over an arbitrary script of callback answers: `callback_error_returned`);
(B) a failing step of the run by hand is what the failing party's driver returns (BPACE, BSTS);
(C) the 1024 actions a party gets per round are a fuel of the model's scheduler: BSTS for every sufficient fuel.
-/
import Bee2V.C04.PropsDrv
namespace Bee2V.C04
open Bee2V.C02 (Bytes leNat natLE zeros Ctx tapeRead randNZMod loadPub encXY hashL subMod)
open Bee2V.Gen.C04Err
variable {G : Type}

/-! ### (A) failing callbacks -/

/-- every callback failure is returned at once and without a key: at a `write` node any code ≠ ERR_OK, at a `read` node any
code other than ERR_OK / ERR_MAX, makes the program end with exactly that code (ERR_MAX at a fixed-size read is itself
returned by `onOk`); and the property holds again after every admissible answer -/
inductive Propagates : Prog → Prop
  | ret (c : Err) (k : Option Bytes) : Propagates (.ret c k)
  | write (buf : Bytes) (k : Err → Prog) : (∀ c, c ≠ ERR_OK → k c = .ret c none) → Propagates (k ERR_OK) →
      Propagates (.write buf k)
  | read (n : Nat) (k : Err → Bytes → Prog) : (∀ c d, c ≠ ERR_OK → c ≠ ERR_MAX → k c d = .ret c none) →
      (∀ d, Propagates (k ERR_OK d)) → (∀ d, Propagates (k ERR_MAX d)) → Propagates (.read n k)

theorem drv2_prop_onOk (c : Err) {p : Prog} (h : Propagates p) : Propagates (Prog.onOk c p) := by
  unfold Prog.onOk
  split
  · exact .ret _ _
  · exact h

theorem drv2_prop_ofExcept {α : Type} (r : Except Err α) {k : α → Prog} (h : ∀ a, Propagates (k a)) :
    Propagates (Prog.ofExcept r k) := by
  unfold Prog.ofExcept
  split
  · exact .ret _ _
  · exact h _

/-- `write(buf); ERR_CALL_HANDLE(code, …)` -/
theorem drv2_prop_write (buf : Bytes) {p : Prog} (h : Propagates p) : Propagates (.write buf fun c => Prog.onOk c p) := by
  refine .write _ _ ?_ ?_
  · intro c hc
    simp only [Prog.onOk, if_pos hc]
  · rw [drv_onOk]
    exact h

/-- `read(&len, buf, count); ERR_CALL_HANDLE(code, …)` -/
theorem drv2_prop_read (n : Nat) {p : Bytes → Prog} (h : ∀ m, Propagates (p m)) :
    Propagates (.read n fun c m => Prog.onOk c (p m)) := by
  refine .read _ _ ?_ ?_ ?_
  · intro c d hc _
    simp only [Prog.onOk, if_pos hc]
  · intro d
    simp only [drv_onOk]
    exact h d
  · intro d
    have : ERR_MAX ≠ ERR_OK := by decide
    simp only [Prog.onOk, if_pos this]
    exact .ret _ _

/-- the block loop of BSTS -/
theorem drv2_prop_readBlocks {k : Bytes → Prog} (h : ∀ m, Propagates (k m)) :
    ∀ (fuel : Nat) (acc : Bytes), Propagates (readBlocks fuel acc k) := by
  intro fuel
  induction fuel with
  | zero => intro acc; exact .ret _ _
  | succ fuel ih =>
    intro acc
    rw [drv_readBlocks_succ]
    refine .read _ _ ?_ ?_ ?_
    · intro c d hc hm
      simp only [if_neg hc, if_pos hm]
    · intro d
      simp only [if_pos]
      exact ih _
    · intro d
      have : ¬ (ERR_MAX = ERR_OK) := by decide
      simp only [if_neg this, ne_eq, not_true_eq_false, if_false]
      exact h _

theorem propagates_bmqvRunB (E : Env G) (set : Settings) (priv certb certa tape : Bytes) :
    Propagates (bmqvRunB E set priv certb certa tape) := by
  unfold bmqvRunB
  refine drv2_prop_ofExcept _ fun s => drv2_prop_ofExcept _ fun ⟨s, m1⟩ => drv2_prop_write _ (drv2_prop_read _ fun m2 =>
    drv2_prop_ofExcept _ fun ⟨s, m3⟩ => ?_)
  show Propagates (if set.kcb ≠ 0 then _ else _)
  split
  · exact drv2_prop_write _ (.ret _ _)
  · exact .ret _ _

theorem propagates_bmqvRunA (E : Env G) (set : Settings) (priv certa certb tape : Bytes) :
    Propagates (bmqvRunA E set priv certa certb tape) := by
  unfold bmqvRunA
  refine drv2_prop_ofExcept _ fun s => drv2_prop_read _ fun m1 => drv2_prop_ofExcept _ fun ⟨s, m2⟩ =>
    drv2_prop_write _ ?_
  show Propagates (if set.kcb ≠ 0 then _ else _)
  split
  · exact drv2_prop_read _ fun m3 => drv2_prop_ofExcept _ fun s => .ret _ _
  · exact .ret _ _

theorem propagates_bstsRunB (E : Env G) (set : Settings) (priv certb tape : Bytes) :
    Propagates (bstsRunB E set priv certb tape) := by
  unfold bstsRunB
  exact drv2_prop_ofExcept _ fun s => drv2_prop_ofExcept _ fun ⟨s, m1⟩ => drv2_prop_write _
    (drv2_prop_readBlocks (fun m2 => drv2_prop_ofExcept _ fun ⟨s, m3⟩ => drv2_prop_write _ (.ret _ _)) _ _)

theorem propagates_bstsRunA (E : Env G) (set : Settings) (priv certa tape : Bytes) :
    Propagates (bstsRunA E set priv certa tape) := by
  unfold bstsRunA
  exact drv2_prop_ofExcept _ fun s => drv2_prop_read _ fun m1 => drv2_prop_ofExcept _ fun ⟨s, m2⟩ => drv2_prop_write _
    (drv2_prop_readBlocks (fun m3 => drv2_prop_ofExcept _ fun s => .ret _ _) _ _)

theorem propagates_bpaceRunB (E : Env G) (set : Settings) (pwd tape : Bytes) :
    Propagates (bpaceRunB E set pwd tape) := by
  unfold bpaceRunB
  refine drv2_prop_write _ (drv2_prop_read _ fun m2 => drv2_prop_ofExcept _ fun ⟨s, m3⟩ => drv2_prop_write _ ?_)
  show Propagates (if set.kca ≠ 0 then _ else _)
  split
  · exact drv2_prop_read _ fun m4 => drv2_prop_ofExcept _ fun s => .ret _ _
  · exact .ret _ _

theorem propagates_bpaceRunA (E : Env G) (set : Settings) (pwd tape : Bytes) :
    Propagates (bpaceRunA E set pwd tape) := by
  unfold bpaceRunA
  refine drv2_prop_read _ fun m1 => drv2_prop_ofExcept _ fun ⟨s, m2⟩ => drv2_prop_write _ (drv2_prop_read _ fun m3 =>
    drv2_prop_ofExcept _ fun ⟨s, m4⟩ => ?_)
  show Propagates (if set.kca ≠ 0 then _ else _)
  split
  · exact drv2_prop_write _ (.ret _ _)
  · exact .ret _ _

/-- run a program against a script of callback answers `(code, data)`: every callback consumes the next answer
(`write` ignores the data); a callback with no answer left ends the run with ERR_FILE_NOT_FOUND -/
def Prog.exec : Prog → List (Err × Bytes) → Err × Option Bytes
  | .ret c k, _ => (c, k)
  | .write _ _, [] => (ERR_FILE_NOT_FOUND, none)
  | .read _ _, [] => (ERR_FILE_NOT_FOUND, none)
  | .write _ k, (c, _) :: s => (k c).exec s
  | .read _ k, (c, d) :: s => (k c d).exec s

/-- the code of the first consumed answer that is a failure: not ERR_OK at a `write`, neither ERR_OK nor ERR_MAX at a `read` -/
def Prog.firstBad : Prog → List (Err × Bytes) → Option Err
  | .ret _ _, _ => none
  | .write _ _, [] => none
  | .read _ _, [] => none
  | .write _ k, (c, _) :: s => if c ≠ ERR_OK then some c else (k ERR_OK).firstBad s
  | .read _ k, (c, d) :: s => if c ≠ ERR_OK ∧ c ≠ ERR_MAX then some c else (k c d).firstBad s

/-- whatever the callbacks answer: the first failure code is what the driver returns, and no key -/
theorem callback_error_returned {p : Prog} (h : Propagates p) :
    ∀ (script : List (Err × Bytes)) (c : Err), p.firstBad script = some c → p.exec script = (c, none) := by
  induction h with
  | ret c k => intro script c' hb; cases script <;> simp [Prog.firstBad] at hb
  | write buf k hbad _ ih =>
    intro script c' hb
    cases script with
    | nil => simp [Prog.firstBad] at hb
    | cons a s =>
      obtain ⟨c, d⟩ := a
      simp only [Prog.firstBad] at hb
      simp only [Prog.exec]
      split at hb
      · rename_i hc
        cases hb
        rw [hbad _ hc]
        cases s <;> rfl
      · rename_i hc
        have : c = ERR_OK := not_not.1 hc
        subst this
        exact ih s c' hb
  | read n k hbad _ _ ih1 ih2 =>
    intro script c' hb
    cases script with
    | nil => simp [Prog.firstBad] at hb
    | cons a s =>
      obtain ⟨c, d⟩ := a
      simp only [Prog.firstBad] at hb
      simp only [Prog.exec]
      split at hb
      · rename_i hc
        cases hb
        rw [hbad _ d hc.1 hc.2]
        cases s <;> rfl
      · rename_i hc
        by_cases h1 : c = ERR_OK
        · subst h1
          exact ih1 d s c' hb
        · have h2 : c = ERR_MAX := not_not.1 fun h2 => hc ⟨h1, h2⟩
          subst h2
          exact ih2 d s c' hb

/-- a driver that delivers a key has seen no callback failure -/
theorem callback_key_no_error {p : Prog} (h : Propagates p) (script : List (Err × Bytes))
    (hk : (p.exec script).2.isSome) : p.firstBad script = none := by
  cases hb : p.firstBad script with
  | none => rfl
  | some c =>
    rw [callback_error_returned h script c hb] at hk
    cases hk

/-! ### (B) a failing step -/

/-- BPACE: when the run by hand stops with code e, that code is what the failing party's driver returns -/
theorem driver_error_bpace (E : Env G) (hmac : ∀ k d, (E.mac k d).length = 8) (hecb : ∀ k x, (E.ecbE k x).length = x.length)
    (set : Settings) (pwda pwdb ta tb : Bytes) (e : Err) (h : bpaceHand E set pwda pwdb ta tb = .error e) :
    (runPair idChan idChan (bpaceRunA E set pwda ta) (bpaceRunB E set pwdb tb)).1.1 = e ∨
    (runPair idChan idChan (bpaceRunA E set pwda ta) (bpaceRunB E set pwdb tb)).2.1.1 = e := by
  unfold bpaceHand at h
  simp only at h
  rcases h2 : bpaceStep2 E (bpaceStart E set pwdb tb) with ⟨sb1, m1⟩
  rw [h2] at h
  simp only at h
  obtain ⟨eb1, hl1⟩ := drv_bpace_step2_inv hecb h2
  split at h
  · -- Step3 (A) fails
    rename_i e' h3
    cases h
    left
    apply drv_runPair_a (k := none)
    apply drv_round_a_ret
    case hb =>
      simp only [bpaceRunB, h2]
      rewrite [drv_run_write, drv_onOk, drv_run_read_block _ _ _ _ _ _ _ rfl]
      rfl
    simp only [bpaceRunA, List.nil_append]
    rewrite [drv_run_read_whole _ _ _ _ _ _ m1 rfl hl1, drv_onOk]
    simp only [h3, Prog.ofExcept]
    rewrite [drv_run_ret]
    rfl
  rename_i sa1 m2 h3
  obtain ⟨ea1, hl2⟩ := drv_bpace_step3_inv hecb h3
  split at h
  · -- Step4 (B) fails
    rename_i e' h4
    cases h
    right
    apply drv_runPair_b (k := none)
    apply drv_round_go_P (fun r => r.2.1 = Prog.ret e none)
    case hb =>
      simp only [bpaceRunB, h2]
      rewrite [drv_run_write, drv_onOk, drv_run_read_block _ _ _ _ _ _ _ rfl]
      rfl
    case ha =>
      simp only [bpaceRunA, List.nil_append]
      rewrite [drv_run_read_whole _ _ _ _ _ _ m1 rfl hl1, drv_onOk]
      simp only [h3, Prog.ofExcept]
      rewrite [drv_run_write, drv_onOk, drv_run_read_block _ _ _ _ _ _ _ rfl]
      rfl
    case hp => simp
    simp only [List.nil_append, Nat.zero_add]
    apply drv_round_b_ret
    rewrite [drv_run_read_whole _ _ _ _ _ _ m2 rfl hl2, drv_onOk]
    simp only [h4, Prog.ofExcept]
    rewrite [drv_run_ret]
    rfl
  rename_i sb2 m3 h4
  obtain ⟨-, hl3⟩ := drv_bpace_step4_inv hmac h4
  rw [eb1] at hl3
  split at h
  · -- Step5 (A) fails
    rename_i e' h5
    cases h
    left
    apply drv_runPair_a (k := none)
    apply drv_round_go_P (fun r => r.1 = Prog.ret e none)
    case hb =>
      simp only [bpaceRunB, h2]
      rewrite [drv_run_write, drv_onOk, drv_run_read_block _ _ _ _ _ _ _ rfl]
      rfl
    case ha =>
      simp only [bpaceRunA, List.nil_append]
      rewrite [drv_run_read_whole _ _ _ _ _ _ m1 rfl hl1, drv_onOk]
      simp only [h3, Prog.ofExcept]
      rewrite [drv_run_write, drv_onOk, drv_run_read_block _ _ _ _ _ _ _ rfl]
      rfl
    case hp => simp
    simp only [List.nil_append, Nat.zero_add]
    by_cases hkca : set.kca ≠ 0
    · apply drv_round_a_ret
      case hb =>
        rewrite [drv_run_read_whole _ _ _ _ _ _ m2 rfl hl2, drv_onOk]
        simp only [h4, Prog.ofExcept, if_pos hkca]
        rewrite [drv_run_write, drv_onOk, drv_run_read_block _ _ _ _ _ _ _ rfl]
        rfl
      simp only [List.cons_append, List.nil_append]
      rewrite [drv_run_read_whole _ _ _ _ _ _ m3 rfl hl3, drv_onOk]
      simp only [h5]
      rewrite [drv_run_ret]
      rfl
    · apply drv_round_a_ret
      case hb =>
        rewrite [drv_run_read_whole _ _ _ _ _ _ m2 rfl hl2, drv_onOk]
        simp only [h4, Prog.ofExcept, if_neg hkca]
        rewrite [drv_run_write, drv_onOk, drv_run_ret]
        rfl
      simp only [List.cons_append, List.nil_append]
      rewrite [drv_run_read_whole _ _ _ _ _ _ m3 rfl hl3, drv_onOk]
      simp only [h5]
      rewrite [drv_run_ret]
      rfl
  rename_i sa2 m4 h5
  have hl4 := drv_bpace_step5_inv hmac h5
  rw [ea1] at hl4
  have hl4' : set.kca ≠ 0 → m4.length = 8 := hl4
  split at h
  · rename_i hkca
    split at h
    · -- Step6 (B) fails
      rename_i e' h6
      cases h
      right
      apply drv_runPair_b (k := none)
      apply drv_round_go_P (fun r => r.2.1 = Prog.ret e none)
      case hb =>
        simp only [bpaceRunB, h2]
        rewrite [drv_run_write, drv_onOk, drv_run_read_block _ _ _ _ _ _ _ rfl]
        rfl
      case ha =>
        simp only [bpaceRunA, List.nil_append]
        rewrite [drv_run_read_whole _ _ _ _ _ _ m1 rfl hl1, drv_onOk]
        simp only [h3, Prog.ofExcept]
        rewrite [drv_run_write, drv_onOk, drv_run_read_block _ _ _ _ _ _ _ rfl]
        rfl
      case hp => simp
      simp only [List.nil_append, Nat.zero_add]
      apply drv_round_go_P (fun r => r.2.1 = Prog.ret e none)
      case hb =>
        rewrite [drv_run_read_whole _ _ _ _ _ _ m2 rfl hl2, drv_onOk]
        simp only [h4, Prog.ofExcept, if_pos hkca]
        rewrite [drv_run_write, drv_onOk, drv_run_read_block _ _ _ _ _ _ _ rfl]
        rfl
      case ha =>
        simp only [List.cons_append, List.nil_append]
        rewrite [drv_run_read_whole _ _ _ _ _ _ m3 rfl hl3, drv_onOk]
        simp only [h5, if_pos hkca]
        rewrite [drv_run_write, drv_onOk, drv_run_ret]
        rfl
      case hp => simp
      simp only [List.nil_append, List.cons_append, Nat.zero_add]
      apply drv_round_b_ret
      rewrite [drv_run_read_whole _ _ _ _ _ _ m4 rfl (hl4' hkca), drv_onOk]
      simp only [h6]
      rewrite [drv_run_ret]
      rfl
    · cases h
  · cases h

/-- BSTS: when the run by hand stops with code e, that code is what the failing party's driver returns.  `hM2`, `hM3`:
the messages M2, M3 that are transmitted before the failure are delimited by the block reads (length not a multiple of 512)
and fit the 1024 actions of a round -/
theorem driver_error_bsts (E : Env G) (set : Settings) (ka kb ca cb ta tb : Bytes) (e : Err)
    (h : bstsHand E set ka kb ca cb ta tb = .error e)
    (hM2 : ∀ sb0 sa0 sb1 m1 sa1 m2, bstsStart E set kb cb tb = .ok sb0 → bstsStart E set ka ca ta = .ok sa0 →
      bstsStep2 E sb0 = .ok (sb1, m1) → bstsStep3 E sa0 m1 = .ok (sa1, m2) → m2.length % 512 ≠ 0 ∧ m2.length < 512 * 1000)
    (hM3 : ∀ sb0 sa0 sb1 m1 sa1 m2 sb2 m3, bstsStart E set kb cb tb = .ok sb0 → bstsStart E set ka ca ta = .ok sa0 →
      bstsStep2 E sb0 = .ok (sb1, m1) → bstsStep3 E sa0 m1 = .ok (sa1, m2) → bstsStep4 E sb1 m2 = .ok (sb2, m3) →
      m3.length % 512 ≠ 0 ∧ m3.length < 512 * 1000) :
    (runPair idChan idChan (bstsRunA E set ka ca ta) (bstsRunB E set kb cb tb)).1.1 = e ∨
    (runPair idChan idChan (bstsRunA E set ka ca ta) (bstsRunB E set kb cb tb)).2.1.1 = e := by
  unfold bstsHand at h
  split at h
  · -- B's Start fails
    rename_i e' hs1
    cases h
    right
    apply drv_runPair_b (k := none)
    simp only [bstsRunB, hs1, Prog.ofExcept]
    exact drv_stable_b _ _ _ _ _ _ _ _ _ _
  rename_i sb0 hs1
  split at h
  · -- A's Start fails
    rename_i e' hs2
    cases h
    left
    apply drv_runPair_a (k := none)
    simp only [bstsRunA, hs2, Prog.ofExcept]
    exact drv_stable_a _ _ _ _ _ _ _ _ _ _
  rename_i sa0 hs2
  split at h
  · -- Step2 (B) fails
    rename_i e' h2
    cases h
    right
    apply drv_runPair_b (k := none)
    simp only [bstsRunB, hs1, h2, Prog.ofExcept]
    exact drv_stable_b _ _ _ _ _ _ _ _ _ _
  rename_i sb1 m1 h2
  have hl1 := drv_bsts_step2_inv h2
  split at h
  · -- Step3 (A) fails
    rename_i e' h3
    cases h
    left
    apply drv_runPair_a (k := none)
    apply drv_round_a_ret
    case hb =>
      simp only [bstsRunB, hs1, h2, Prog.ofExcept]
      rewrite [drv_run_write, drv_onOk, drv_run_readBlocks_block _ _ _ _ _ _ rfl]
      rfl
    simp only [bstsRunA, hs2, Prog.ofExcept, List.nil_append]
    rewrite [drv_run_read_whole _ _ _ _ _ _ m1 rfl hl1, drv_onOk]
    simp only [h3]
    rewrite [drv_run_ret]
    rfl
  rename_i sa1 m2 h3
  obtain ⟨hm2, hb2⟩ := hM2 _ _ _ _ _ _ hs1 hs2 h2 h3
  split at h
  · -- Step4 (B) fails
    rename_i e' h4
    cases h
    right
    apply drv_runPair_b (k := none)
    obtain ⟨n2, hn2⟩ : ∃ n, 1024 = n + 1 + m2.length / 512 + 1 := ⟨1022 - m2.length / 512, by omega⟩
    apply drv_round_go_P (fun r => r.2.1 = Prog.ret e none)
    case hb =>
      simp only [bstsRunB, hs1, h2, Prog.ofExcept]
      rewrite [drv_run_write, drv_onOk, drv_run_readBlocks_block _ _ _ _ _ _ rfl]
      rfl
    case ha =>
      simp only [bstsRunA, hs2, Prog.ofExcept, List.nil_append]
      rewrite [drv_run_read_whole _ _ _ _ _ _ m1 rfl hl1, drv_onOk]
      simp only [h3]
      rewrite [drv_run_write, drv_onOk, drv_run_readBlocks_block _ _ _ _ _ _ rfl]
      rfl
    case hp => simp
    simp only [List.nil_append, Nat.zero_add]
    apply drv_round_b_ret
    rewrite [hn2, drv_run_readBlocks_whole _ _ _ m2 _ _ rfl hm2 (by omega)]
    simp only [h4]
    rewrite [drv_run_ret]
    rfl
  rename_i sb2 m3 h4
  obtain ⟨hm3, hb3⟩ := hM3 _ _ _ _ _ _ _ _ hs1 hs2 h2 h3 h4
  split at h
  · -- Step5 (A) fails
    rename_i e' h5
    cases h
    left
    apply drv_runPair_a (k := none)
    obtain ⟨n2, hn2⟩ : ∃ n, 1024 = n + 2 + m2.length / 512 + 1 := ⟨1021 - m2.length / 512, by omega⟩
    obtain ⟨n3, hn3⟩ : ∃ n, 1024 = n + 1 + m3.length / 512 + 1 := ⟨1022 - m3.length / 512, by omega⟩
    apply drv_round_go_P (fun r => r.1 = Prog.ret e none)
    case hb =>
      simp only [bstsRunB, hs1, h2, Prog.ofExcept]
      rewrite [drv_run_write, drv_onOk, drv_run_readBlocks_block _ _ _ _ _ _ rfl]
      rfl
    case ha =>
      simp only [bstsRunA, hs2, Prog.ofExcept, List.nil_append]
      rewrite [drv_run_read_whole _ _ _ _ _ _ m1 rfl hl1, drv_onOk]
      simp only [h3]
      rewrite [drv_run_write, drv_onOk, drv_run_readBlocks_block _ _ _ _ _ _ rfl]
      rfl
    case hp => simp
    simp only [List.nil_append, Nat.zero_add]
    apply drv_round_a_ret
    case hb =>
      rewrite [hn2, drv_run_readBlocks_whole _ _ _ m2 _ _ rfl hm2 (by omega)]
      simp only [h4]
      rewrite [drv_run_write, drv_onOk, drv_run_ret]
      rfl
    simp only [List.cons_append, List.nil_append]
    rewrite [hn3, drv_run_readBlocks_whole _ _ _ m3 _ _ rfl hm3 (by omega)]
    simp only [h5]
    rewrite [drv_run_ret]
    rfl
  · cases h

/-! ### (C) the actions per round as a fuel -/

/-- `schedule` with `act` actions per party and round in place of the literal 1024 -/
def scheduleN (act : Nat) (tamAB tamBA : Nat → Bytes → Bytes) : Nat → Prog → Prog → (ab ba : Chan) → Prog × Prog × Chan × Chan
  | 0, a, b, ab, ba => (a, b, ab, ba)
  | fuel + 1, a, b, ab, ba =>
    let apply (t : Nat → Bytes → Bytes) (c : Chan) : Chan := { c with msgs := c.msgs.zipIdx.map fun (m, i) => t i m }
    let rb := runUntilBlocked act b (apply tamAB ab) { ba with msgs := [] }
    let ba' : Chan := { ba with msgs := ba.msgs ++ rb.2.2.msgs }
    let ab' : Chan := { ab with i := rb.2.1.i, off := rb.2.1.off }
    let ra := runUntilBlocked act a (apply tamBA ba') { ab' with msgs := [] }
    let ab'' : Chan := { ab' with msgs := ab'.msgs ++ ra.2.2.msgs }
    let ba'' : Chan := { ba' with i := ra.2.1.i, off := ra.2.1.off }
    let progress := rb.2.2.msgs.length + ra.2.2.msgs.length ≠ 0
    if progress then scheduleN act tamAB tamBA fuel ra.1 rb.1 ab'' ba'' else (ra.1, rb.1, ab'', ba'')

/-- `runPair` over `scheduleN` -/
def runPairN (act : Nat) (tamAB tamBA : Nat → Bytes → Bytes) (a b : Prog) :
    (Err × Option Bytes) × (Err × Option Bytes) × List Bytes × List Bytes :=
  let r := scheduleN act tamAB tamBA 8 a b ⟨[], 0, 0⟩ ⟨[], 0, 0⟩
  (r.1.outcome, r.2.1.outcome, r.2.2.1.msgs, r.2.2.2.msgs)

theorem scheduleN_1024 (tamAB tamBA : Nat → Bytes → Bytes) : ∀ (fuel : Nat) (a b : Prog) (ab ba : Chan),
    scheduleN 1024 tamAB tamBA fuel a b ab ba = schedule tamAB tamBA fuel a b ab ba := by
  intro fuel
  induction fuel with
  | zero => intros; rfl
  | succ fuel ih =>
    intro a b ab ba
    rw [scheduleN, schedule]
    simp only [ih]

/-- the model's scheduler is the instance with 1024 actions -/
theorem runPairN_1024 (tamAB tamBA : Nat → Bytes → Bytes) (a b : Prog) :
    runPairN 1024 tamAB tamBA a b = runPair tamAB tamBA a b := by
  unfold runPairN runPair
  rw [scheduleN_1024]

/-- more actions change nothing once a party has returned or waits for a message that is not there -/
theorem drv2_run_mono : ∀ (n : Nat) (p : Prog) (inc out : Chan) (r : Prog × Chan × Chan),
    runUntilBlocked n p inc out = r →
    ((∃ c k, r.1 = .ret c k) ∨ (∃ cnt k, r.1 = .read cnt k ∧ r.2.1.read cnt = none)) →
    ∀ m, n ≤ m → runUntilBlocked m p inc out = r := by
  intro n
  induction n with
  | zero =>
    intro p inc out r h hf m _
    cases h
    cases m with
    | zero => rfl
    | succ m =>
      rcases hf with ⟨c, k, hc⟩ | ⟨cnt, k, hc, hn⟩
      · have hc' : p = .ret c k := hc
        subst hc'
        rfl
      · have hc' : p = .read cnt k := hc
        have hn' : inc.read cnt = none := hn
        subst hc'
        simp only [runUntilBlocked, hn']
  | succ n ih =>
    intro p inc out r h hf m hm
    obtain ⟨m, rfl⟩ : ∃ m', m = m' + 1 := ⟨m - 1, by omega⟩
    have hm' : n ≤ m := by omega
    cases p with
    | ret c k => exact h
    | write buf k =>
      simp only [runUntilBlocked] at h ⊢
      exact ih _ _ _ _ h hf m hm'
    | read cnt k =>
      simp only [runUntilBlocked] at h ⊢
      cases hr : inc.read cnt with
      | none =>
        rw [hr] at h
        exact h
      | some x =>
        rw [hr] at h
        simp only at h ⊢
        exact ih _ _ _ _ h hf m hm'

/-- one round of `scheduleN` over the ideal channel -/
theorem drv2_roundN {act fuel : Nat} {a b a' b' : Prog} {abm bam : List Bytes} {abi abo bai bao : Nat} {inb outb ina outa : Chan}
    (hb : runUntilBlocked act b ⟨abm, abi, abo⟩ ⟨[], bai, bao⟩ = (b', inb, outb))
    (ha : runUntilBlocked act a ⟨bam ++ outb.msgs, bai, bao⟩ ⟨[], inb.i, inb.off⟩ = (a', ina, outa)) :
    scheduleN act idChan idChan (fuel + 1) a b ⟨abm, abi, abo⟩ ⟨bam, bai, bao⟩ =
      if outb.msgs.length + outa.msgs.length ≠ 0 then
        scheduleN act idChan idChan fuel a' b' ⟨abm ++ outa.msgs, inb.i, inb.off⟩ ⟨bam ++ outb.msgs, ina.i, ina.off⟩
      else (a', b', ⟨abm ++ outa.msgs, inb.i, inb.off⟩, ⟨bam ++ outb.msgs, ina.i, ina.off⟩) := by
  have hid : ∀ l : List Bytes, List.map (fun x : Bytes × Nat => match x with | (m, i) => idChan i m) l.zipIdx = l :=
    fun l => drv_map_zipIdx _ (fun ⟨_, _⟩ => rfl) l 0
  rw [scheduleN]
  simp only [hid, hb, ha]

theorem drv2_roundN_go {act fuel : Nat} {a b a' b' : Prog} {abm bam : List Bytes} {abi abo bai bao : Nat}
    {inb outb ina outa : Chan} {R : Prog × Prog × Chan × Chan}
    (hb : runUntilBlocked act b ⟨abm, abi, abo⟩ ⟨[], bai, bao⟩ = (b', inb, outb))
    (ha : runUntilBlocked act a ⟨bam ++ outb.msgs, bai, bao⟩ ⟨[], inb.i, inb.off⟩ = (a', ina, outa))
    (hp : outb.msgs.length + outa.msgs.length ≠ 0)
    (hr : scheduleN act idChan idChan fuel a' b' ⟨abm ++ outa.msgs, inb.i, inb.off⟩ ⟨bam ++ outb.msgs, ina.i, ina.off⟩ = R) :
    scheduleN act idChan idChan (fuel + 1) a b ⟨abm, abi, abo⟩ ⟨bam, bai, bao⟩ = R := by
  rw [drv2_roundN hb ha, if_pos hp, hr]

theorem drv2_roundN_end {act fuel : Nat} {a b a' b' : Prog} {abm bam : List Bytes} {abi abo bai bao : Nat}
    {inb outb ina outa : Chan}
    (hb : runUntilBlocked act b ⟨abm, abi, abo⟩ ⟨[], bai, bao⟩ = (b', inb, outb))
    (ha : runUntilBlocked act a ⟨bam ++ outb.msgs, bai, bao⟩ ⟨[], inb.i, inb.off⟩ = (a', ina, outa))
    {R : Prog × Prog × Chan × Chan} (hob : outb.msgs = []) (hoa : outa.msgs = [])
    (hr : (a', b', (⟨abm, inb.i, inb.off⟩ : Chan), (⟨bam, ina.i, ina.off⟩ : Chan)) = R) :
    scheduleN act idChan idChan (fuel + 1) a b ⟨abm, abi, abo⟩ ⟨bam, bai, bao⟩ = R := by
  rw [drv2_roundN hb ha, hob, hoa, if_neg (by simp), List.append_nil, List.append_nil, hr]

theorem drv2_runPairN {act : Nat} {a b : Prog} {ca cb : Err} {ka kb : Option Bytes} {abm bam : List Bytes} {i1 o1 i2 o2 : Nat}
    (h : scheduleN act idChan idChan 8 a b ⟨[], 0, 0⟩ ⟨[], 0, 0⟩ = (.ret ca ka, .ret cb kb, ⟨abm, i1, o1⟩, ⟨bam, i2, o2⟩)) :
    runPairN act idChan idChan a b = ((ca, ka), (cb, kb), abm, bam) := by
  unfold runPairN
  simp only [h, Prog.outcome]

/-- a whole message read in blocks, for any number of actions (the block loop has its own fuel `runFuel`) -/
theorem drv2_run_readBlocks_whole (k : Bytes → Prog) (msgs : List Bytes) (i : Nat) (m : Bytes) (out : Chan) (n : Nat)
    (hm : msgs[i]? = some m) (hl : m.length % 512 ≠ 0) (hb : m.length / 512 < runFuel) :
    runUntilBlocked (n + m.length / 512 + 1) (readBlocks runFuel [] k) ⟨msgs, i, 0⟩ out =
      runUntilBlocked n (k m) ⟨msgs, i + 1, 0⟩ out := by
  have := drv_run_readBlocks k msgs i m out hm (m.length / 512) 0 n runFuel [] (by omega) (by omega) hb
  rw [this, List.nil_append, List.drop_zero]

/-- BSTS with `act` actions per party and round: no absolute bound on the sizes of M2, M3 — a party needs one action per
block read and three more; `hr2`, `hr3`: the block loop of the model has its own fuel (`runFuel` = 2^24 blocks, where the
C loop would end with ERR_OUTOFMEMORY) -/
theorem driver_eq_steps_bsts_fuel (E : Env G) (set : Settings) (ka kb ca cb ta tb : Bytes) (o : Outcome) (act : Nat)
    (h : bstsHand E set ka kb ca cb ta tb = .ok o)
    (hm2 : ∀ m2, o.msgs[1]? = some m2 → m2.length % 512 ≠ 0) (hm3 : ∀ m3, o.msgs[2]? = some m3 → m3.length % 512 ≠ 0)
    (hb2 : ∀ m2, o.msgs[1]? = some m2 → m2.length / 512 + 3 ≤ act) (hb3 : ∀ m3, o.msgs[2]? = some m3 → m3.length / 512 + 3 ≤ act)
    (hr2 : ∀ m2, o.msgs[1]? = some m2 → m2.length / 512 < runFuel) (hr3 : ∀ m3, o.msgs[2]? = some m3 → m3.length / 512 < runFuel) :
    runPairN act idChan idChan (bstsRunA E set ka ca ta) (bstsRunB E set kb cb tb)
      = ((ERR_OK, some o.keyA), (ERR_OK, some o.keyB), fromA o.msgs, fromB o.msgs) := by
  unfold bstsHand at h
  split at h
  · cases h
  rename_i sb0 hs1
  split at h
  · cases h
  rename_i sa0 hs2
  split at h
  · cases h
  rename_i sb1 m1 h2
  split at h
  · cases h
  rename_i sa1 m2 h3
  split at h
  · cases h
  rename_i sb2 m3 h4
  split at h
  · cases h
  rename_i sa2 h5
  cases h
  have hl1 := drv_bsts_step2_inv h2
  have hm2' := hm2 m2 rfl
  have hm3' := hm3 m3 rfl
  have hb2' := hb2 m2 rfl
  have hb3' := hb3 m3 rfl
  obtain ⟨n0, hn0⟩ : ∃ n, act = n + 3 := ⟨act - 3, by omega⟩
  obtain ⟨n2, hn2⟩ : ∃ n, act = n + 2 + m2.length / 512 + 1 := ⟨act - 3 - m2.length / 512, by omega⟩
  obtain ⟨n3, hn3⟩ : ∃ n, act = n + 1 + m3.length / 512 + 1 := ⟨act - 2 - m3.length / 512, by omega⟩
  apply drv2_runPairN
  -- round 1: B writes M1 and waits; A reads M1, writes M2 and waits
  apply drv2_roundN_go
  case hb =>
    simp only [bstsRunB, hs1, h2, Prog.ofExcept]
    rewrite [hn0, drv_run_write, drv_onOk, drv_run_readBlocks_block _ _ _ _ _ _ rfl]
    rfl
  case ha =>
    simp only [bstsRunA, hs2, Prog.ofExcept, List.nil_append]
    rewrite [hn0, drv_run_read_whole _ _ _ _ _ _ m1 rfl hl1, drv_onOk]
    simp only [h3]
    rewrite [drv_run_write, drv_onOk, drv_run_readBlocks_block _ _ _ _ _ _ rfl]
    rfl
  case hp => simp
  simp only [List.nil_append, Nat.zero_add]
  -- round 2: B reads M2 block by block, writes M3 and returns; A reads M3 block by block and returns
  apply drv2_roundN_go
  case hb =>
    rewrite [hn2, drv2_run_readBlocks_whole _ _ _ m2 _ _ rfl hm2' (hr2 m2 rfl)]
    simp only [h4]
    rewrite [drv_run_write, drv_onOk, drv_run_ret]
    rfl
  case ha =>
    simp only [List.cons_append, List.nil_append]
    rewrite [hn3, drv2_run_readBlocks_whole _ _ _ m3 _ _ rfl hm3' (hr3 m3 rfl)]
    simp only [h5]
    rewrite [drv_run_ret]
    rfl
  case hp => simp
  simp only [List.nil_append, List.cons_append, Nat.zero_add]
  -- round 3: nothing moves
  apply drv2_roundN_end
  case hb =>
    rewrite [hn0, drv_run_ret]
    rfl
  case ha =>
    rewrite [hn0, drv_run_ret]
    rfl
  case hob => rfl
  case hoa => rfl
  rfl

end Bee2V.C04

/-
C04 — the belt hypotheses of `Laws` hold for the executable instance (`Inst.lean`, C01's belt model) on
every argument the model passes: CFB with a 16-octet synchro, ECB on ≥ 16 octets (the l/8-octet strings
of BPACE, l ≥ 128), key wrap of ≥ 16 octets under a 32-octet key.  From the C01 theorems.
`belt_mac_len`, `belt_krp_len`: tags have 8 octets for every key and data, a key derived from a 32-octet key
(every KRP key of the protocols is a belt-hash value) has 32 octets.
-/
import Bee2V.C01.PropsModes
import Bee2V.C01.PropsStream
import Bee2V.C01.PropsWbl
import Bee2V.C01.PropsChunk
import Bee2V.C02.Lemmas
import Bee2V.C01.PropsChunk
import Bee2V.C04.Inst
namespace Bee2V.C04
open Bee2V.C02 (Bytes zeros)

/-- `Laws.cfb_len`, `Laws.cfb_inv` for belt-CFB -/
theorem belt_cfb_laws (K iv x : Bytes) (hiv : iv.length = 16) :
    (beltCfbE K iv x).length = x.length ∧ beltCfbD K iv (beltCfbE K iv x) = x := by
  have h := Bee2V.C01.cfbStepD_cfbStepE bc Bee2V.C01.length_blockEncr (Bee2V.C01.cfbStart K iv)
    (by show 0 ≤ 16; omega) (by show iv.length = 16; exact hiv) x
  exact ⟨h.2, h.1⟩

/-- `Laws.ecb_len`, `Laws.ecb_inv` for belt-ECB (ciphertext stealing included) -/
theorem belt_ecb_laws (K x : Bytes) (h16 : 16 ≤ x.length) :
    (beltEcbE K x).length = x.length ∧ beltEcbD K (beltEcbE K x) = x :=
  ⟨Bee2V.C01.belt_length_ecbStepE _ x h16, Bee2V.C01.belt_ecbStepD_ecbStepE _ x h16⟩

/-- `Laws.kwp_len`, `Laws.kwp_inv` for belt-KWP with the zero header under a 32-octet key -/
theorem belt_kwp_laws (K x : Bytes) (hK : K.length = 32) (h16 : 16 ≤ x.length) :
    (beltKwpW K x).length = x.length + 16 ∧ beltKwpU K (beltKwpW K x) = some x := by
  obtain ⟨tok, hw, hl, hu⟩ := Bee2V.C01.belt_kwpUnwrap_kwpWrap x (some (zeros 16)) K h16
    (by simp [Bee2V.C01.validKeyLen, hK]) (by intro h hh; cases hh; simp [zeros])
  have e1 : beltKwpW K x = tok := by unfold beltKwpW; rw [hw]
  rw [e1]
  refine ⟨hl, ?_⟩
  unfold beltKwpU
  rw [hu]

/-- `Laws.kwpU_len` for belt-KWP -/
theorem belt_kwpU_len (K t x : Bytes) (h : beltKwpU K t = some x) : x.length + 16 = t.length := by
  unfold beltKwpU at h
  have hs := Bee2V.C01.belt_kwpUnwrap_spec t (some (zeros 16)) K
  cases hr : Bee2V.C01.kwpUnwrap bc t (some (zeros 16)) K with
  | mk e o =>
    rw [hr] at h hs
    cases e <;> cases o <;> simp at h
    subst h
    by_cases hb : t.length < 32 ∨ Bee2V.C01.validKeyLen K.length = false
    · rw [if_pos hb] at hs; cases hs
    · rw [if_neg hb] at hs
      have h32 : ¬ t.length < 32 := fun hh => hb (Or.inl hh)
      by_cases hd : (Bee2V.C01.wblStepDBase Bee2V.C01.beltCipher (Bee2V.C01.fmtKey K) t).1.drop (t.length - 16) = (some (zeros 16)).getD (Bee2V.C01.zeros 16)
      · rw [if_pos hd] at hs
        have hx := (Prod.mk.inj hs).2
        simp only [Option.some.injEq] at hx
        rw [hx, List.length_take]
        have hl : (Bee2V.C01.wblStepDBase Bee2V.C01.beltCipher (Bee2V.C01.fmtKey K) t).1.length = t.length :=
          (Bee2V.C01.wblStepDBase_length Bee2V.C01.beltCipher Bee2V.C01.length_blockEncr _ t (by omega)).1
        omega
      · rw [if_neg hd] at hs; cases hs

theorem belt_enc_len : ∀ k x : Bytes, x.length = 16 → (bc.enc k x).length = 16 := Bee2V.C01.length_blockEncr

/-- the CBC-MAC chain value keeps 16 octets over whole blocks -/
theorem belt_macChain_len (k : Bytes) : ∀ (n : Nat) (s X : Bytes), s.length = 16 → 16 * n ≤ X.length →
    (Bee2V.C01.macChain bc k n s X).length = 16
  | 0, s, _, hs, _ => hs
  | n + 1, s, X, hs, hX => by
    unfold Bee2V.C01.macChain
    apply belt_macChain_len k n
    · apply belt_enc_len
      rw [Bee2V.C01.length_xorb, hs, List.length_take]; omega
    · rw [List.length_drop]; omega

/-- `Laws.mac_len` for belt-MAC: the tag has 8 octets for every key and every data -/
theorem belt_mac_len (K data : Bytes) : (beltMac K data).length = 8 := by
  have h := Bee2V.C01.mac_tag_spec bc K [data] 8
  simp only [List.foldl_cons, List.foldl_nil, List.flatten_cons, List.flatten_nil, List.append_nil] at h
  unfold beltMac
  rw [h, List.length_take]
  have hz : (Bee2V.C01.zeros 16).length = 16 := by simp [Bee2V.C01.zeros]
  have hr := belt_enc_len (Bee2V.C01.fmtKey K) _ hz
  generalize bc.enc (Bee2V.C01.fmtKey K) (Bee2V.C01.zeros 16) = r at hr ⊢
  have hp := Bee2V.C01.length_macPend data
  have hp16 : (Bee2V.C01.macPend data).length ≤ 16 := by
    rw [hp]; split <;> omega
  have hs : (Bee2V.C01.macS bc (Bee2V.C01.fmtKey K) data).length = 16 := by
    unfold Bee2V.C01.macS
    apply belt_macChain_len _ _ _ _ hz
    unfold Bee2V.C01.macNb; omega
  have : (Bee2V.C01.macTagSpec bc (Bee2V.C01.fmtKey K) r data).length = 16 := by
    unfold Bee2V.C01.macTagSpec
    simp only
    split
    · rename_i h16
      apply belt_enc_len
      simp only [Bee2V.C01.length_xorb, hs, h16, List.length_append, List.length_take, List.length_drop, hr]
      omega
    · apply belt_enc_len
      have hzz : ∀ n, (Bee2V.C01.zeros n).length = n := by intro n; simp [Bee2V.C01.zeros]
      simp only [Bee2V.C01.length_xorb, hs, List.length_append, List.length_take, List.length_drop, hr, hzz,
        List.length_cons, List.length_nil]
      omega
  omega

/-- `Laws.krp_len` for belt-KRP: from a 32-octet key (every KRP key of the protocols is a belt-hash value) a 32-octet
key is derived, for every number -/
theorem belt_krp_len (K : Bytes) (i : Nat) (hK : K.length = 32) : (beltKrp K i).length = 32 := by
  unfold beltKrp Bee2V.C01.krpStepG Bee2V.C01.compr Bee2V.C01.compr2 Bee2V.C01.krpStart
  simp only [hK]
  have hsz : Bee2V.Gen.C01.H.toList.length = 256 := by decide +kernel
  have hH : ((Bee2V.Gen.C01.H.toList.drop (4 * (32 - 16) + 2 * (32 - 16))).take 4).length = 4 := by
    rw [List.length_take, List.length_drop, hsz]; omega
  generalize (Bee2V.Gen.C01.H.toList.drop (4 * (32 - 16) + 2 * (32 - 16))).take 4 = r at hH ⊢
  have hX : (r ++ ones 12 ++ Bee2V.C02.natLE 16 i).length = 32 := by
    simp [hH, ones, Bee2V.C02.natLE_length]
  generalize r ++ ones 12 ++ Bee2V.C02.natLE 16 i = X at hX ⊢
  have h0 : (X.take 16).length = 16 := by rw [List.length_take]; omega
  have h1 : (X.drop 16).length = 16 := by rw [List.length_drop]; omega
  rw [List.length_take, List.length_append, Bee2V.C01.length_xorb, Bee2V.C01.length_xorb,
    belt_enc_len _ _ h0, belt_enc_len _ _ h1, h0, h1]; omega

end Bee2V.C04

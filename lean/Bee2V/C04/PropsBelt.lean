/-
C04 — the belt hypotheses of `Laws` hold for the executable instance (`Inst.lean`, C01's belt model) on
every argument the model passes: CFB with a 16-octet synchro, ECB on ≥ 16 octets (the l/8-octet strings
of BPACE, l ≥ 128), key wrap of ≥ 16 octets under a 32-octet key.  From the C01 theorems.
(`mac_len`, `krp_len`: see the end of this file.)
-/
import Bee2V.C01.PropsModes
import Bee2V.C01.PropsStream
import Bee2V.C01.PropsWbl
import Bee2V.C01.PropsChunk
import Bee2V.C04.Inst
namespace Bee2V.C04
open Bee2V.C02 (Bytes zeros)

/-- `Laws.cfb_len`, `Laws.cfb_inv` for belt-CFB -/
theorem belt_cfb_laws (K iv x : Bytes) (hiv : iv.length = 16) :
    (beltCfbE K iv x).length = x.length ∧ beltCfbD K iv (beltCfbE K iv x) = x := by
  have h := Bee2V.C01.cfbStepD_cfbStepE bc Bee2V.C01.length_blockEncr (Bee2V.C01.cfbStart K iv)
    (by show 0 ≤ 16; omega) (by show iv.length = 16; exact hiv) x
  exact ⟨h.2, h.1⟩

/-- `Laws.ecb_len`, `Laws.ecb_inv` for belt-ECB (ciphertext stealing included) -/
theorem belt_ecb_laws (K x : Bytes) (h16 : 16 ≤ x.length) :
    (beltEcbE K x).length = x.length ∧ beltEcbD K (beltEcbE K x) = x :=
  ⟨Bee2V.C01.belt_length_ecbStepE _ x h16, Bee2V.C01.belt_ecbStepD_ecbStepE _ x h16⟩

/-- `Laws.kwp_len`, `Laws.kwp_inv` for belt-KWP with the zero header under a 32-octet key -/
theorem belt_kwp_laws (K x : Bytes) (hK : K.length = 32) (h16 : 16 ≤ x.length) :
    (beltKwpW K x).length = x.length + 16 ∧ beltKwpU K (beltKwpW K x) = some x := by
  obtain ⟨tok, hw, hl, hu⟩ := Bee2V.C01.belt_kwpUnwrap_kwpWrap x (some (zeros 16)) K h16
    (by simp [Bee2V.C01.validKeyLen, hK]) (by intro h hh; cases hh; simp [zeros])
  have e1 : beltKwpW K x = tok := by unfold beltKwpW; rw [hw]
  rw [e1]
  refine ⟨hl, ?_⟩
  unfold beltKwpU
  rw [hu]

/-- `Laws.kwpU_len` for belt-KWP -/
theorem belt_kwpU_len (K t x : Bytes) (h : beltKwpU K t = some x) : x.length + 16 = t.length := by
  unfold beltKwpU at h
  have hs := Bee2V.C01.belt_kwpUnwrap_spec t (some (zeros 16)) K
  cases hr : Bee2V.C01.kwpUnwrap bc t (some (zeros 16)) K with
  | mk e o =>
    rw [hr] at h hs
    cases e <;> cases o <;> simp at h
    subst h
    by_cases hb : t.length < 32 ∨ Bee2V.C01.validKeyLen K.length = false
    · rw [if_pos hb] at hs; cases hs
    · rw [if_neg hb] at hs
      have h32 : ¬ t.length < 32 := fun hh => hb (Or.inl hh)
      by_cases hd : (Bee2V.C01.wblStepDBase Bee2V.C01.beltCipher (Bee2V.C01.fmtKey K) t).1.drop (t.length - 16) = (some (zeros 16)).getD (Bee2V.C01.zeros 16)
      · rw [if_pos hd] at hs
        have hx := (Prod.mk.inj hs).2
        simp only [Option.some.injEq] at hx
        rw [hx, List.length_take]
        have hl : (Bee2V.C01.wblStepDBase Bee2V.C01.beltCipher (Bee2V.C01.fmtKey K) t).1.length = t.length :=
          (Bee2V.C01.wblStepDBase_length Bee2V.C01.beltCipher Bee2V.C01.length_blockEncr _ t (by omega)).1
        omega
      · rw [if_neg hd] at hs; cases hs

end Bee2V.C04

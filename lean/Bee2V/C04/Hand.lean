/-
C04 — the protocols run by hand (Start, Step2, Step3, … called one after the other, every message
delivered unchanged), as one function per protocol.  These are the reference the drivers RunA ∥ RunB are
compared with (`Bee2V.C04.PropsDrv`) and the subject of the honest-run theorems.  No Mathlib.
-/
import Bee2V.C04.Model
namespace Bee2V.C04
open Bee2V.C02 (Bytes leNat natLE zeros)
open Bee2V.Gen.C04Err
variable {G : Type}

/-- the keys both parties hold after a complete run and the messages M1, M2, … that were sent -/
structure Outcome where
  keyA : Bytes
  keyB : Bytes
  msgs : List Bytes
  deriving DecidableEq, Repr

/-- BMQV: B.Start, A.Start, B.Step2 → M1, A.Step3 → M2, B.Step4 → M3, [A.Step5 if kcb] -/
def bmqvHand (E : Env G) (set : Settings) (ka kb ca cb ta tb : Bytes) : Except Err Outcome :=
  match bmqvStart E set kb cb tb with
  | .error e => .error e
  | .ok sb =>
  match bmqvStart E set ka ca ta with
  | .error e => .error e
  | .ok sa =>
  match bmqvStep2 E sb with
  | .error e => .error e
  | .ok (sb, m1) =>
  match bmqvStep3 E sa m1 cb with
  | .error e => .error e
  | .ok (sa, m2) =>
  match bmqvStep4 E sb m2 ca with
  | .error e => .error e
  | .ok (sb, m3) =>
  if set.kcb ≠ 0 then
    match bmqvStep5 E sa m3 with
    | .error e => .error e
    | .ok sa => .ok ⟨bmqvStepG sa, bmqvStepG sb, [m1, m2, m3]⟩
  else .ok ⟨bmqvStepG sa, bmqvStepG sb, [m1, m2]⟩

/-- BSTS: B.Step2 → M1, A.Step3 → M2, B.Step4 → M3, A.Step5 -/
def bstsHand (E : Env G) (set : Settings) (ka kb ca cb ta tb : Bytes) : Except Err Outcome :=
  match bstsStart E set kb cb tb with
  | .error e => .error e
  | .ok sb =>
  match bstsStart E set ka ca ta with
  | .error e => .error e
  | .ok sa =>
  match bstsStep2 E sb with
  | .error e => .error e
  | .ok (sb, m1) =>
  match bstsStep3 E sa m1 with
  | .error e => .error e
  | .ok (sa, m2) =>
  match bstsStep4 E sb m2 with
  | .error e => .error e
  | .ok (sb, m3) =>
  match bstsStep5 E sa m3 with
  | .error e => .error e
  | .ok sa => .ok ⟨bstsStepG sa, bstsStepG sb, [m1, m2, m3]⟩

/-- BPACE: B.Step2 → M1, A.Step3 → M2, B.Step4 → M3, A.Step5 → M4, [B.Step6 if kca] -/
def bpaceHand (E : Env G) (set : Settings) (pwda pwdb ta tb : Bytes) : Except Err Outcome :=
  let sb := bpaceStart E set pwdb tb
  let sa := bpaceStart E set pwda ta
  let r2 := bpaceStep2 E sb
  match bpaceStep3 E sa r2.2 with
  | .error e => .error e
  | .ok (sa, m2) =>
  match bpaceStep4 E r2.1 m2 with
  | .error e => .error e
  | .ok (sb, m3) =>
  match bpaceStep5 E sa m3 with
  | .error e => .error e
  | .ok (sa, m4) =>
  if set.kca ≠ 0 then
    match bpaceStep6 E sb m4 with
    | .error e => .error e
    | .ok sb => .ok ⟨bpaceStepG sa, bpaceStepG sb, [r2.2, m2, m3, m4]⟩
  else .ok ⟨bpaceStepG sa, bpaceStepG sb, [r2.2, m2, m3]⟩

/-- BAUTH (A = terminal T, B = token CT): CT.Step2 → M1, T.Step3 → M2, CT.Step4 → M3, [T.Step5 if kcb] -/
def bauthHand (E : Env G) (set : Settings) (kt kct certt certct tt tct : Bytes) : Except Err Outcome :=
  match bauthCtStart E set kct certct tct with
  | .error e => .error e
  | .ok sb =>
  match bauthTStart E set kt certt tt with
  | .error e => .error e
  | .ok sa =>
  match bauthCtStep2 E sb certt with
  | .error e => .error e
  | .ok (sb, m1) =>
  match bauthTStep3 E sa m1 with
  | .error e => .error e
  | .ok (sa, m2) =>
  match bauthCtStep4 E sb m2 with
  | .error e => .error e
  | .ok (sb, m3) =>
  if set.kcb ≠ 0 then
    match bauthTStep5 E sa m3 with
    | .error e => .error e
    | .ok sa => .ok ⟨bauthTStepG sa, bauthCtStepG sb, [m1, m2, m3]⟩
  else .ok ⟨bauthTStepG sa, bauthCtStepG sb, [m1, m2]⟩

/-- the messages B sends (M1, M3, …) / A sends (M2, M4, …) among M1, M2, M3, … -/
def fromB : List Bytes → List Bytes
  | [] => []
  | [a] => [a]
  | a :: _ :: r => a :: fromB r
def fromA : List Bytes → List Bytes
  | [] => []
  | [_] => []
  | _ :: b :: r => b :: fromA r

/-- the ideal channel: nothing is altered -/
def idChan : Nat → Bytes → Bytes := fun _ m => m

end Bee2V.C04

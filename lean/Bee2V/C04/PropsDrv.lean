/-
C04 — "stepwise = driver": RunA ∥ RunB over the ideal channel (`runPair idChan idChan`) return the keys and
write the messages of the run by hand (`bmqvHand`, `bpaceHand`, `bstsHand`).
The lemmas `drv_*` evaluate the scheduler round by round.
-/
import Bee2V.C04.Lemmas
namespace Bee2V.C04
open Bee2V.C02 (Bytes leNat natLE zeros Ctx tapeRead randNZMod loadPub encXY hashL subMod)
open Bee2V.Gen.C04Err
variable {G : Type}

/-! ### the scheduler, one round at a time -/

theorem drv_map_zipIdx (f : Bytes × Nat → Bytes) (hf : ∀ x, f x = x.1) (l : List Bytes) (k : Nat) :
    (l.zipIdx k).map f = l := by
  induction l generalizing k with
  | nil => rfl
  | cons a l ih => simp only [List.zipIdx_cons, List.map_cons, ih, hf]

/-- one round over the ideal channel: B runs until blocked, then A -/
theorem drv_round {fuel : Nat} {a b a' b' : Prog} {abm bam : List Bytes} {abi abo bai bao : Nat} {inb outb ina outa : Chan}
    (hb : runUntilBlocked 1024 b ⟨abm, abi, abo⟩ ⟨[], bai, bao⟩ = (b', inb, outb))
    (ha : runUntilBlocked 1024 a ⟨bam ++ outb.msgs, bai, bao⟩ ⟨[], inb.i, inb.off⟩ = (a', ina, outa)) :
    schedule idChan idChan (fuel + 1) a b ⟨abm, abi, abo⟩ ⟨bam, bai, bao⟩ =
      if outb.msgs.length + outa.msgs.length ≠ 0 then
        schedule idChan idChan fuel a' b' ⟨abm ++ outa.msgs, inb.i, inb.off⟩ ⟨bam ++ outb.msgs, ina.i, ina.off⟩
      else (a', b', ⟨abm ++ outa.msgs, inb.i, inb.off⟩, ⟨bam ++ outb.msgs, ina.i, ina.off⟩) := by
  have hid : ∀ l : List Bytes, List.map (fun x : Bytes × Nat => match x with | (m, i) => idChan i m) l.zipIdx = l :=
    fun l => drv_map_zipIdx _ (fun ⟨_, _⟩ => rfl) l 0
  rw [schedule]
  simp only [hid, hb, ha]

/-- a round in which a message is written -/
theorem drv_round_go {fuel : Nat} {a b a' b' : Prog} {abm bam : List Bytes} {abi abo bai bao : Nat} {inb outb ina outa : Chan}
    {R : Prog × Prog × Chan × Chan}
    (hb : runUntilBlocked 1024 b ⟨abm, abi, abo⟩ ⟨[], bai, bao⟩ = (b', inb, outb))
    (ha : runUntilBlocked 1024 a ⟨bam ++ outb.msgs, bai, bao⟩ ⟨[], inb.i, inb.off⟩ = (a', ina, outa))
    (hp : outb.msgs.length + outa.msgs.length ≠ 0)
    (hr : schedule idChan idChan fuel a' b' ⟨abm ++ outa.msgs, inb.i, inb.off⟩ ⟨bam ++ outb.msgs, ina.i, ina.off⟩ = R) :
    schedule idChan idChan (fuel + 1) a b ⟨abm, abi, abo⟩ ⟨bam, bai, bao⟩ = R := by
  rw [drv_round hb ha, if_pos hp, hr]

/-- the last round: nothing is written -/
theorem drv_round_end {fuel : Nat} {a b a' b' : Prog} {abm bam : List Bytes} {abi abo bai bao : Nat} {inb outb ina outa : Chan}
    (hb : runUntilBlocked 1024 b ⟨abm, abi, abo⟩ ⟨[], bai, bao⟩ = (b', inb, outb))
    (ha : runUntilBlocked 1024 a ⟨bam ++ outb.msgs, bai, bao⟩ ⟨[], inb.i, inb.off⟩ = (a', ina, outa))
    {R : Prog × Prog × Chan × Chan} (hob : outb.msgs = []) (hoa : outa.msgs = [])
    (hr : (a', b', (⟨abm, inb.i, inb.off⟩ : Chan), (⟨bam, ina.i, ina.off⟩ : Chan)) = R) :
    schedule idChan idChan (fuel + 1) a b ⟨abm, abi, abo⟩ ⟨bam, bai, bao⟩ = R := by
  rw [drv_round hb ha, hob, hoa, if_neg (by simp), List.append_nil, List.append_nil, hr]

theorem drv_runPair {a b : Prog} {ca cb : Err} {ka kb : Option Bytes} {abm bam : List Bytes} {i1 o1 i2 o2 : Nat}
    (h : schedule idChan idChan 8 a b ⟨[], 0, 0⟩ ⟨[], 0, 0⟩ = (.ret ca ka, .ret cb kb, ⟨abm, i1, o1⟩, ⟨bam, i2, o2⟩)) :
    runPair idChan idChan a b = ((ca, ka), (cb, kb), abm, bam) := by
  unfold runPair
  simp only [h, Prog.outcome]

/-! ### a party, one action at a time -/

theorem drv_run_ret (n : Nat) (c : Err) (k : Option Bytes) (inc out : Chan) :
    runUntilBlocked (n + 1) (.ret c k) inc out = (.ret c k, inc, out) := rfl

theorem drv_run_write (n : Nat) (buf : Bytes) (k : Err → Prog) (inc out : Chan) :
    runUntilBlocked (n + 1) (.write buf k) inc out = runUntilBlocked n (k ERR_OK) inc { out with msgs := out.msgs ++ [buf] } := rfl

/-- the message is not there yet: the party waits -/
theorem drv_run_read_block (n count : Nat) (k : Err → Bytes → Prog) (msgs : List Bytes) (i off : Nat) (out : Chan)
    (hm : msgs[i]? = none) :
    runUntilBlocked (n + 1) (.read count k) ⟨msgs, i, off⟩ out = (.read count k, ⟨msgs, i, off⟩, out) := by
  simp only [runUntilBlocked, Chan.read, hm]

/-- the message is there and has exactly the requested length -/
theorem drv_run_read_whole (n count : Nat) (k : Err → Bytes → Prog) (msgs : List Bytes) (i : Nat) (out : Chan) (m : Bytes)
    (hm : msgs[i]? = some m) (hc : m.length = count) :
    runUntilBlocked (n + 1) (.read count k) ⟨msgs, i, 0⟩ out = runUntilBlocked n (k ERR_OK m) ⟨msgs, i + 1, 0⟩ out := by
  subst hc
  simp only [runUntilBlocked, Chan.read, hm, Nat.zero_add, gt_iff_lt, Nat.lt_irrefl, if_false, if_true, List.drop_zero,
    List.take_length]

theorem drv_onOk (p : Prog) : Prog.onOk ERR_OK p = p := by
  unfold Prog.onOk
  rw [if_neg (not_not.2 rfl)]

/-! ### BPACE -/

theorem drv_tapeRead_len (n : Nat) (t : Bytes) : (tapeRead n t).1.length = n := by
  unfold tapeRead zeros
  simp only [List.length_append, List.length_take, List.length_replicate]
  omega

theorem drv_encXY_len (E : Env G) (v : Nat × Nat) : (encXY E.C v).length = 2 * E.no := by
  have : ∀ n a b, (natLE n a ++ natLE n b).length = 2 * n := by
    intro n a b
    rw [List.length_append, Bee2V.C02.natLE_length, Bee2V.C02.natLE_length]
    omega
  exact this _ _ _

theorem drv_bpace_step2_inv {E : Env G} (hecb : ∀ k x, (E.ecbE k x).length = x.length) {set : Settings} {pwd tb m : Bytes}
    {s : BpaceSt G} (h : bpaceStep2 E (bpaceStart E set pwd tb) = (s, m)) : s.set = set ∧ m.length = E.no / 2 := by
  unfold bpaceStep2 bpaceStart at h
  simp only [Prod.mk.injEq] at h
  obtain ⟨rfl, rfl⟩ := h
  exact ⟨rfl, (hecb _ _).trans (drv_tapeRead_len _ _)⟩

theorem drv_bpace_step3_inv {E : Env G} (hecb : ∀ k x, (E.ecbE k x).length = x.length) {s s' : BpaceSt G} {inp m : Bytes}
    (h : bpaceStep3 E s inp = .ok (s', m)) : s'.set = s.set ∧ m.length = 5 * E.no / 2 := by
  unfold bpaceStep3 at h
  simp only at h
  split at h
  · cases h
  · simp only [Except.ok.injEq, Prod.mk.injEq] at h
    obtain ⟨rfl, rfl⟩ := h
    refine ⟨rfl, ?_⟩
    rw [List.length_append, hecb, drv_tapeRead_len, drv_encXY_len]
    omega

theorem drv_bpace_step4_inv {E : Env G} (hmac : ∀ k d, (E.mac k d).length = 8) {s s' : BpaceSt G} {inp m : Bytes}
    (h : bpaceStep4 E s inp = .ok (s', m)) : s'.set = s.set ∧ m.length = 2 * E.no + (if s.set.kcb ≠ 0 then 8 else 0) := by
  unfold bpaceStep4 at h
  simp only at h
  split at h
  · cases h
  · split at h
    · cases h
    · split at h
      · cases h
      · split at h
        · cases h
        · simp only [Except.ok.injEq, Prod.mk.injEq] at h
          obtain ⟨rfl, rfl⟩ := h
          refine ⟨rfl, ?_⟩
          rw [List.length_append, drv_encXY_len]
          split
          · rw [hmac]
          · rfl

theorem drv_bpace_step5_inv {E : Env G} (hmac : ∀ k d, (E.mac k d).length = 8) {s s' : BpaceSt G} {inp m : Bytes}
    (h : bpaceStep5 E s inp = .ok (s', m)) : s.set.kca ≠ 0 → m.length = 8 := by
  unfold bpaceStep5 at h
  simp only at h
  split at h
  · cases h
  · split at h
    · cases h
    · split at h
      · cases h
      · simp only [Except.ok.injEq, Prod.mk.injEq] at h
        obtain ⟨-, rfl⟩ := h
        intro hk
        rw [if_pos hk, hmac]

theorem driver_eq_steps_bpace (E : Env G) (hmac : ∀ k d, (E.mac k d).length = 8) (hecb : ∀ k x, (E.ecbE k x).length = x.length)
    (set : Settings) (pwda pwdb ta tb : Bytes) (o : Outcome) (h : bpaceHand E set pwda pwdb ta tb = .ok o) :
    runPair idChan idChan (bpaceRunA E set pwda ta) (bpaceRunB E set pwdb tb)
      = ((ERR_OK, some o.keyA), (ERR_OK, some o.keyB), fromA o.msgs, fromB o.msgs) := by
  unfold bpaceHand at h
  simp only at h
  rcases h2 : bpaceStep2 E (bpaceStart E set pwdb tb) with ⟨sb1, m1⟩
  rw [h2] at h
  simp only at h
  split at h
  · cases h
  rename_i sa1 m2 h3
  split at h
  · cases h
  rename_i sb2 m3 h4
  split at h
  · cases h
  rename_i sa2 m4 h5
  obtain ⟨eb1, hl1⟩ := drv_bpace_step2_inv hecb h2
  obtain ⟨ea1, hl2⟩ := drv_bpace_step3_inv hecb h3
  obtain ⟨-, hl3⟩ := drv_bpace_step4_inv hmac h4
  have hl4 := drv_bpace_step5_inv hmac h5
  rw [eb1] at hl3
  rw [ea1] at hl4
  have hl4' : set.kca ≠ 0 → m4.length = 8 := hl4
  split at h
  · rename_i hkca
    split at h
    · cases h
    rename_i sb3 h6
    cases h
    apply drv_runPair
    -- round 1: B writes M1 and waits; A reads M1, writes M2 and waits
    apply drv_round_go
    case hb =>
      simp only [bpaceRunB, h2]
      rewrite [drv_run_write, drv_onOk, drv_run_read_block _ _ _ _ _ _ _ rfl]
      rfl
    case ha =>
      simp only [bpaceRunA, List.nil_append]
      rewrite [drv_run_read_whole _ _ _ _ _ _ m1 rfl hl1, drv_onOk]
      simp only [h3, Prog.ofExcept]
      rewrite [drv_run_write, drv_onOk, drv_run_read_block _ _ _ _ _ _ _ rfl]
      rfl
    case hp => simp
    simp only [List.nil_append, Nat.zero_add]
    -- round 2: B reads M2, writes M3 and waits; A reads M3, writes M4 and returns
    apply drv_round_go
    case hb =>
      rewrite [drv_run_read_whole _ _ _ _ _ _ m2 rfl hl2, drv_onOk]
      simp only [h4, Prog.ofExcept, if_pos hkca]
      rewrite [drv_run_write, drv_onOk, drv_run_read_block _ _ _ _ _ _ _ rfl]
      rfl
    case ha =>
      simp only [List.cons_append, List.nil_append]
      rewrite [drv_run_read_whole _ _ _ _ _ _ m3 rfl hl3, drv_onOk]
      simp only [h5, if_pos hkca]
      rewrite [drv_run_write, drv_onOk, drv_run_ret]
      rfl
    case hp => simp
    simp only [List.nil_append, List.cons_append, Nat.zero_add]
    -- round 3: B reads M4 and returns
    apply drv_round_end
    case hb =>
      rewrite [drv_run_read_whole _ _ _ _ _ _ m4 rfl (hl4' hkca), drv_onOk]
      simp only [h6]
      rewrite [drv_run_ret]
      rfl
    case ha =>
      rewrite [drv_run_ret]
      rfl
    case hob => rfl
    case hoa => rfl
    rfl
  · rename_i hkca
    cases h
    apply drv_runPair
    -- round 1: B writes M1 and waits; A reads M1, writes M2 and waits
    apply drv_round_go
    case hb =>
      simp only [bpaceRunB, h2]
      rewrite [drv_run_write, drv_onOk, drv_run_read_block _ _ _ _ _ _ _ rfl]
      rfl
    case ha =>
      simp only [bpaceRunA, List.nil_append]
      rewrite [drv_run_read_whole _ _ _ _ _ _ m1 rfl hl1, drv_onOk]
      simp only [h3, Prog.ofExcept]
      rewrite [drv_run_write, drv_onOk, drv_run_read_block _ _ _ _ _ _ _ rfl]
      rfl
    case hp => simp
    simp only [List.nil_append, Nat.zero_add]
    -- round 2: B reads M2, writes M3 and returns; A reads M3 and returns
    apply drv_round_go
    case hb =>
      rewrite [drv_run_read_whole _ _ _ _ _ _ m2 rfl hl2, drv_onOk]
      simp only [h4, Prog.ofExcept, if_neg hkca]
      rewrite [drv_run_write, drv_onOk, drv_run_ret]
      rfl
    case ha =>
      simp only [List.cons_append, List.nil_append]
      rewrite [drv_run_read_whole _ _ _ _ _ _ m3 rfl hl3, drv_onOk]
      simp only [h5, if_neg hkca]
      rewrite [drv_run_ret]
      rfl
    case hp => simp
    simp only [List.nil_append, List.cons_append, Nat.zero_add]
    -- round 3: nothing moves
    apply drv_round_end
    case hb =>
      rewrite [drv_run_ret]
      rfl
    case ha =>
      rewrite [drv_run_ret]
      rfl
    case hob => rfl
    case hoa => rfl
    rfl

/-! ### BMQV -/

theorem drv_bmqv_start_inv {E : Env G} {set : Settings} {priv cert tape : Bytes} {s : BmqvSt}
    (h : bmqvStart E set priv cert tape = .ok s) : s.set = set := by
  unfold bmqvStart at h
  split at h
  · cases h
  · cases h; rfl

theorem drv_bmqv_step2_inv {E : Env G} {s s' : BmqvSt} {m : Bytes} (h : bmqvStep2 E s = .ok (s', m)) :
    s'.set = s.set ∧ m.length = 2 * E.no := by
  unfold bmqvStep2 at h
  split at h
  · cases h
  · simp only [Except.ok.injEq, Prod.mk.injEq] at h
    obtain ⟨rfl, rfl⟩ := h
    exact ⟨rfl, drv_encXY_len E _⟩

theorem drv_bmqv_step3_inv {E : Env G} (hmac : ∀ k d, (E.mac k d).length = 8) {s s' : BmqvSt} {inp certb m : Bytes}
    (h : bmqvStep3 E s inp certb = .ok (s', m)) :
    s'.set = s.set ∧ m.length = 2 * E.no + (if s.set.kca ≠ 0 then 8 else 0) := by
  unfold bmqvStep3 at h
  split at h
  · cases h
  · split at h
    · cases h
    · split at h
      · cases h
      · simp only at h
        split at h
        · cases h
        · simp only [Except.ok.injEq, Prod.mk.injEq] at h
          obtain ⟨rfl, rfl⟩ := h
          refine ⟨rfl, ?_⟩
          rw [List.length_append, drv_encXY_len]
          split
          · rw [hmac]
          · rfl

theorem drv_bmqv_step4_inv {E : Env G} (hmac : ∀ k d, (E.mac k d).length = 8) {s s' : BmqvSt} {inp certa m : Bytes}
    (h : bmqvStep4 E s inp certa = .ok (s', m)) : s.set.kcb ≠ 0 → m.length = 8 := by
  unfold bmqvStep4 at h
  split at h
  · cases h
  · split at h
    · cases h
    · simp only at h
      split at h
      · cases h
      · split at h
        · cases h
        · simp only [Except.ok.injEq, Prod.mk.injEq] at h
          obtain ⟨-, rfl⟩ := h
          intro hk
          rw [if_pos hk, hmac]

theorem driver_eq_steps_bmqv (E : Env G) (hmac : ∀ k d, (E.mac k d).length = 8) (set : Settings)
    (ka kb ca cb ta tb : Bytes) (o : Outcome) (h : bmqvHand E set ka kb ca cb ta tb = .ok o) :
    runPair idChan idChan (bmqvRunA E set ka ca cb ta) (bmqvRunB E set kb cb ca tb)
      = ((ERR_OK, some o.keyA), (ERR_OK, some o.keyB), fromA o.msgs, fromB o.msgs) := by
  unfold bmqvHand at h
  split at h
  · cases h
  rename_i sb0 hs1
  split at h
  · cases h
  rename_i sa0 hs2
  split at h
  · cases h
  rename_i sb1 m1 h2
  split at h
  · cases h
  rename_i sa1 m2 h3
  split at h
  · cases h
  rename_i sb2 m3 h4
  have eb0 := drv_bmqv_start_inv hs1
  have ea0 := drv_bmqv_start_inv hs2
  obtain ⟨eb1, hl1⟩ := drv_bmqv_step2_inv h2
  obtain ⟨-, hl2⟩ := drv_bmqv_step3_inv hmac h3
  have hl3 := drv_bmqv_step4_inv hmac h4
  rw [ea0] at hl2
  rw [eb1, eb0] at hl3
  split at h
  · rename_i hkcb
    split at h
    · cases h
    rename_i sa2 h5
    cases h
    apply drv_runPair
    -- round 1: B writes M1 and waits; A reads M1, writes M2 and waits
    apply drv_round_go
    case hb =>
      simp only [bmqvRunB, hs1, h2, Prog.ofExcept]
      rewrite [drv_run_write, drv_onOk, drv_run_read_block _ _ _ _ _ _ _ rfl]
      rfl
    case ha =>
      simp only [bmqvRunA, hs2, Prog.ofExcept, List.nil_append]
      rewrite [drv_run_read_whole _ _ _ _ _ _ m1 rfl hl1, drv_onOk]
      simp only [h3, if_pos hkcb]
      rewrite [drv_run_write, drv_onOk, drv_run_read_block _ _ _ _ _ _ _ rfl]
      rfl
    case hp => simp
    simp only [List.nil_append, Nat.zero_add]
    -- round 2: B reads M2, writes M3 and returns; A reads M3 and returns
    apply drv_round_go
    case hb =>
      rewrite [drv_run_read_whole _ _ _ _ _ _ m2 rfl hl2, drv_onOk]
      simp only [h4, if_pos hkcb]
      rewrite [drv_run_write, drv_onOk, drv_run_ret]
      rfl
    case ha =>
      simp only [List.cons_append, List.nil_append]
      rewrite [drv_run_read_whole _ _ _ _ _ _ m3 rfl (hl3 hkcb), drv_onOk]
      simp only [h5]
      rewrite [drv_run_ret]
      rfl
    case hp => simp
    simp only [List.nil_append, List.cons_append, Nat.zero_add]
    -- round 3: nothing moves
    apply drv_round_end
    case hb =>
      rewrite [drv_run_ret]
      rfl
    case ha =>
      rewrite [drv_run_ret]
      rfl
    case hob => rfl
    case hoa => rfl
    rfl
  · rename_i hkcb
    cases h
    apply drv_runPair
    -- round 1: B writes M1 and waits; A reads M1, writes M2 and returns
    apply drv_round_go
    case hb =>
      simp only [bmqvRunB, hs1, h2, Prog.ofExcept]
      rewrite [drv_run_write, drv_onOk, drv_run_read_block _ _ _ _ _ _ _ rfl]
      rfl
    case ha =>
      simp only [bmqvRunA, hs2, Prog.ofExcept, List.nil_append]
      rewrite [drv_run_read_whole _ _ _ _ _ _ m1 rfl hl1, drv_onOk]
      simp only [h3, if_neg hkcb]
      rewrite [drv_run_write, drv_onOk, drv_run_ret]
      rfl
    case hp => simp
    simp only [List.nil_append, Nat.zero_add]
    -- round 2: B reads M2 and returns
    apply drv_round_end
    case hb =>
      rewrite [drv_run_read_whole _ _ _ _ _ _ m2 rfl hl2, drv_onOk]
      simp only [h4, if_neg hkcb]
      rewrite [drv_run_ret]
      rfl
    case ha =>
      rewrite [drv_run_ret]
      rfl
    case hob => rfl
    case hoa => rfl
    rfl

/-! ### BSTS: messages read in blocks -/

theorem drv_runFuel : runFuel = 16777215 + 1 := by decide

theorem drv_readBlocks_succ (rf : Nat) (acc : Bytes) (k : Bytes → Prog) :
    readBlocks (rf + 1) acc k = .read 512 (fun code data =>
      if code = ERR_OK then readBlocks rf (acc ++ data) k
      else if code ≠ ERR_MAX then .ret code none
      else k (acc ++ data)) := rfl

theorem drv_run_read_some (n count : Nat) (k : Err → Bytes → Prog) (inc out inc' : Chan) (code : Err) (data : Bytes)
    (h : inc.read count = some (code, data, inc')) :
    runUntilBlocked (n + 1) (.read count k) inc out = runUntilBlocked n (k code data) inc' out := by
  simp only [runUntilBlocked, h]

/-- the last block of a message: fewer than 512 octets are left -/
theorem drv_read_last (msgs : List Bytes) (i off : Nat) (m : Bytes) (hm : msgs[i]? = some m) (h : off + 512 > m.length) :
    Chan.read ⟨msgs, i, off⟩ 512 = some (ERR_MAX, m.drop off, ⟨msgs, i + 1, 0⟩) := by
  simp only [Chan.read, hm, if_pos h]

/-- a block inside a message -/
theorem drv_read_mid (msgs : List Bytes) (i off : Nat) (m : Bytes) (hm : msgs[i]? = some m) (h : off + 512 < m.length) :
    Chan.read ⟨msgs, i, off⟩ 512 = some (ERR_OK, (m.drop off).take 512, ⟨msgs, i, off + 512⟩) := by
  simp only [Chan.read, hm]
  rw [if_neg (by omega), if_neg (by omega)]

/-- the block loop of bakeBSTSRunA/RunB delivers the rest of a message whose remaining length is not a multiple of the
block: j full blocks with ERR_OK, then the tail with ERR_MAX -/
theorem drv_run_readBlocks (k : Bytes → Prog) (msgs : List Bytes) (i : Nat) (m : Bytes) (out : Chan) (hm : msgs[i]? = some m) :
    ∀ (j off n rf : Nat) (acc : Bytes), off + j * 512 < m.length → m.length < off + j * 512 + 512 → j < rf →
      runUntilBlocked (n + j + 1) (readBlocks rf acc k) ⟨msgs, i, off⟩ out =
        runUntilBlocked n (k (acc ++ m.drop off)) ⟨msgs, i + 1, 0⟩ out := by
  intro j
  induction j with
  | zero =>
    intro off n rf acc h1 h2 h3
    obtain ⟨rf, rfl⟩ : ∃ r, rf = r + 1 := ⟨rf - 1, by omega⟩
    rw [drv_readBlocks_succ, Nat.add_zero, drv_run_read_some _ _ _ _ _ _ _ _ (drv_read_last msgs i off m hm (by omega))]
    rw [if_neg (by decide), if_neg (not_not.2 rfl)]
  | succ j ih =>
    intro off n rf acc h1 h2 h3
    obtain ⟨rf, rfl⟩ : ∃ r, rf = r + 1 := ⟨rf - 1, by omega⟩
    have e0 : n + (j + 1) + 1 = (n + j + 1) + 1 := by omega
    have e1 : off + 512 < m.length := by omega
    have e2 : off + 512 + j * 512 < m.length := by omega
    have e3 : m.length < off + 512 + j * 512 + 512 := by omega
    have e4 : j < rf := by omega
    rw [drv_readBlocks_succ, e0, drv_run_read_some _ _ _ _ _ _ _ _ (drv_read_mid msgs i off m hm e1)]
    rw [if_pos rfl, ih (off + 512) n rf _ e2 e3 e4]
    rw [List.append_assoc, ← List.drop_drop, List.take_append_drop]

/-- a whole message (length not a multiple of the block, fewer blocks than the fuel of the round) -/
theorem drv_run_readBlocks_whole (k : Bytes → Prog) (msgs : List Bytes) (i : Nat) (m : Bytes) (out : Chan) (n : Nat)
    (hm : msgs[i]? = some m) (hl : m.length % 512 ≠ 0) (hb : m.length / 512 < 1024) :
    runUntilBlocked (n + m.length / 512 + 1) (readBlocks runFuel [] k) ⟨msgs, i, 0⟩ out =
      runUntilBlocked n (k m) ⟨msgs, i + 1, 0⟩ out := by
  have := drv_run_readBlocks k msgs i m out hm (m.length / 512) 0 n runFuel [] (by omega) (by omega) (by
    rw [drv_runFuel]
    omega)
  rw [this, List.nil_append, List.drop_zero]

/-- the message is not there yet -/
theorem drv_run_readBlocks_block (n : Nat) (k : Bytes → Prog) (msgs : List Bytes) (i off : Nat) (out : Chan)
    (hm : msgs[i]? = none) :
    runUntilBlocked (n + 1) (readBlocks runFuel [] k) ⟨msgs, i, off⟩ out = (readBlocks runFuel [] k, ⟨msgs, i, off⟩, out) := by
  rw [drv_runFuel, drv_readBlocks_succ, drv_run_read_block _ _ _ _ _ _ _ hm]

theorem drv_bsts_step2_inv {E : Env G} {s s' : BstsSt G} {m : Bytes} (h : bstsStep2 E s = .ok (s', m)) :
    m.length = 2 * E.no := by
  unfold bstsStep2 at h
  split at h
  · cases h
  · simp only [Except.ok.injEq, Prod.mk.injEq] at h
    obtain ⟨-, rfl⟩ := h
    exact drv_encXY_len E _

/-- BSTS: M2, M3 are read in 512-octet blocks; the read_i contract cannot delimit a message whose length is a multiple of
the block (`hm2`, `hm3`); the scheduler of the model gives a party 1024 actions per round, hence the size bounds
(`hb2`, `hb3`: fewer than 1000 blocks) -/
theorem driver_eq_steps_bsts (E : Env G) (set : Settings) (ka kb ca cb ta tb : Bytes) (o : Outcome)
    (h : bstsHand E set ka kb ca cb ta tb = .ok o)
    (hm2 : ∀ m2, o.msgs[1]? = some m2 → m2.length % 512 ≠ 0) (hm3 : ∀ m3, o.msgs[2]? = some m3 → m3.length % 512 ≠ 0)
    (hb2 : ∀ m2, o.msgs[1]? = some m2 → m2.length < 512 * 1000) (hb3 : ∀ m3, o.msgs[2]? = some m3 → m3.length < 512 * 1000) :
    runPair idChan idChan (bstsRunA E set ka ca ta) (bstsRunB E set kb cb tb)
      = ((ERR_OK, some o.keyA), (ERR_OK, some o.keyB), fromA o.msgs, fromB o.msgs) := by
  unfold bstsHand at h
  split at h
  · cases h
  rename_i sb0 hs1
  split at h
  · cases h
  rename_i sa0 hs2
  split at h
  · cases h
  rename_i sb1 m1 h2
  split at h
  · cases h
  rename_i sa1 m2 h3
  split at h
  · cases h
  rename_i sb2 m3 h4
  split at h
  · cases h
  rename_i sa2 h5
  cases h
  have hl1 := drv_bsts_step2_inv h2
  have hm2' := hm2 m2 rfl
  have hm3' := hm3 m3 rfl
  have hb2' := hb2 m2 rfl
  have hb3' := hb3 m3 rfl
  obtain ⟨n2, hn2⟩ : ∃ n, 1024 = n + 2 + m2.length / 512 + 1 := ⟨1021 - m2.length / 512, by omega⟩
  obtain ⟨n3, hn3⟩ : ∃ n, 1024 = n + 1 + m3.length / 512 + 1 := ⟨1022 - m3.length / 512, by omega⟩
  apply drv_runPair
  -- round 1: B writes M1 and waits; A reads M1, writes M2 and waits
  apply drv_round_go
  case hb =>
    simp only [bstsRunB, hs1, h2, Prog.ofExcept]
    rewrite [drv_run_write, drv_onOk, drv_run_readBlocks_block _ _ _ _ _ _ rfl]
    rfl
  case ha =>
    simp only [bstsRunA, hs2, Prog.ofExcept, List.nil_append]
    rewrite [drv_run_read_whole _ _ _ _ _ _ m1 rfl hl1, drv_onOk]
    simp only [h3]
    rewrite [drv_run_write, drv_onOk, drv_run_readBlocks_block _ _ _ _ _ _ rfl]
    rfl
  case hp => simp
  simp only [List.nil_append, Nat.zero_add]
  -- round 2: B reads M2 block by block, writes M3 and returns; A reads M3 block by block and returns
  apply drv_round_go
  case hb =>
    rewrite [hn2, drv_run_readBlocks_whole _ _ _ m2 _ _ rfl hm2' (by omega)]
    simp only [h4]
    rewrite [drv_run_write, drv_onOk, drv_run_ret]
    rfl
  case ha =>
    simp only [List.cons_append, List.nil_append]
    rewrite [hn3, drv_run_readBlocks_whole _ _ _ m3 _ _ rfl hm3' (by omega)]
    simp only [h5]
    rewrite [drv_run_ret]
    rfl
  case hp => simp
  simp only [List.nil_append, List.cons_append, Nat.zero_add]
  -- round 3: nothing moves
  apply drv_round_end
  case hb =>
    rewrite [drv_run_ret]
    rfl
  case ha =>
    rewrite [drv_run_ret]
    rfl
  case hob => rfl
  case hoa => rfl
  rfl

/-! ### BMQV: a failing step -/

/-- a party that has returned stays as it is -/
theorem drv_stable_b (c : Err) (k : Option Bytes) : ∀ (fuel : Nat) (a : Prog) (abm bam : List Bytes) (abi abo bai bao : Nat),
    (schedule idChan idChan fuel a (.ret c k) ⟨abm, abi, abo⟩ ⟨bam, bai, bao⟩).2.1 = .ret c k := by
  intro fuel
  induction fuel with
  | zero => intros; rfl
  | succ fuel ih =>
    intro a abm bam abi abo bai bao
    rcases hra : runUntilBlocked 1024 a ⟨bam ++ [], bai, bao⟩ ⟨[], abi, abo⟩ with ⟨a', ina, outa⟩
    rw [drv_round (drv_run_ret _ _ _ _ _) hra]
    split
    · exact ih _ _ _ _ _ _ _
    · rfl

theorem drv_stable_a (c : Err) (k : Option Bytes) : ∀ (fuel : Nat) (b : Prog) (abm bam : List Bytes) (abi abo bai bao : Nat),
    (schedule idChan idChan fuel (.ret c k) b ⟨abm, abi, abo⟩ ⟨bam, bai, bao⟩).1 = .ret c k := by
  intro fuel
  induction fuel with
  | zero => intros; rfl
  | succ fuel ih =>
    intro b abm bam abi abo bai bao
    rcases hrb : runUntilBlocked 1024 b ⟨abm, abi, abo⟩ ⟨[], bai, bao⟩ with ⟨b', inb, outb⟩
    rw [drv_round hrb (drv_run_ret _ _ _ _ _)]
    split
    · exact ih _ _ _ _ _ _ _
    · rfl

/-- B returns in this round -/
theorem drv_round_b_ret {fuel : Nat} {a b : Prog} {abm bam : List Bytes} {abi abo bai bao : Nat} {inb outb : Chan}
    {c : Err} {k : Option Bytes}
    (hb : runUntilBlocked 1024 b ⟨abm, abi, abo⟩ ⟨[], bai, bao⟩ = (.ret c k, inb, outb)) :
    (schedule idChan idChan (fuel + 1) a b ⟨abm, abi, abo⟩ ⟨bam, bai, bao⟩).2.1 = .ret c k := by
  rcases hra : runUntilBlocked 1024 a ⟨bam ++ outb.msgs, bai, bao⟩ ⟨[], inb.i, inb.off⟩ with ⟨a', ina, outa⟩
  rw [drv_round hb hra]
  split
  · exact drv_stable_b _ _ _ _ _ _ _ _ _ _
  · rfl

/-- A returns in this round -/
theorem drv_round_a_ret {fuel : Nat} {a b b' : Prog} {abm bam : List Bytes} {abi abo bai bao : Nat} {inb outb ina outa : Chan}
    {c : Err} {k : Option Bytes}
    (hb : runUntilBlocked 1024 b ⟨abm, abi, abo⟩ ⟨[], bai, bao⟩ = (b', inb, outb))
    (ha : runUntilBlocked 1024 a ⟨bam ++ outb.msgs, bai, bao⟩ ⟨[], inb.i, inb.off⟩ = (.ret c k, ina, outa)) :
    (schedule idChan idChan (fuel + 1) a b ⟨abm, abi, abo⟩ ⟨bam, bai, bao⟩).1 = .ret c k := by
  rw [drv_round hb ha]
  split
  · exact drv_stable_a _ _ _ _ _ _ _ _ _ _
  · rfl

/-- a round in which a message is written, for a property of the final configuration -/
theorem drv_round_go_P {fuel : Nat} {a b a' b' : Prog} {abm bam : List Bytes} {abi abo bai bao : Nat} {inb outb ina outa : Chan}
    (P : Prog × Prog × Chan × Chan → Prop)
    (hb : runUntilBlocked 1024 b ⟨abm, abi, abo⟩ ⟨[], bai, bao⟩ = (b', inb, outb))
    (ha : runUntilBlocked 1024 a ⟨bam ++ outb.msgs, bai, bao⟩ ⟨[], inb.i, inb.off⟩ = (a', ina, outa))
    (hp : outb.msgs.length + outa.msgs.length ≠ 0)
    (hr : P (schedule idChan idChan fuel a' b' ⟨abm ++ outa.msgs, inb.i, inb.off⟩ ⟨bam ++ outb.msgs, ina.i, ina.off⟩)) :
    P (schedule idChan idChan (fuel + 1) a b ⟨abm, abi, abo⟩ ⟨bam, bai, bao⟩) := by
  rw [drv_round hb ha, if_pos hp]
  exact hr

theorem drv_runPair_a {a b : Prog} {c : Err} {k : Option Bytes}
    (h : (schedule idChan idChan 8 a b ⟨[], 0, 0⟩ ⟨[], 0, 0⟩).1 = .ret c k) : (runPair idChan idChan a b).1.1 = c := by
  unfold runPair
  simp only [h, Prog.outcome]

theorem drv_runPair_b {a b : Prog} {c : Err} {k : Option Bytes}
    (h : (schedule idChan idChan 8 a b ⟨[], 0, 0⟩ ⟨[], 0, 0⟩).2.1 = .ret c k) : (runPair idChan idChan a b).2.1.1 = c := by
  unfold runPair
  simp only [h, Prog.outcome]

/-- the failing case: when the run by hand stops with code e, that code is what the failing party's driver returns -/
theorem driver_error_bmqv (E : Env G) (hmac : ∀ k d, (E.mac k d).length = 8) (set : Settings)
    (ka kb ca cb ta tb : Bytes) (e : Err) (h : bmqvHand E set ka kb ca cb ta tb = .error e) :
    (runPair idChan idChan (bmqvRunA E set ka ca cb ta) (bmqvRunB E set kb cb ca tb)).1.1 = e ∨
    (runPair idChan idChan (bmqvRunA E set ka ca cb ta) (bmqvRunB E set kb cb ca tb)).2.1.1 = e := by
  unfold bmqvHand at h
  split at h
  · -- B's Start fails
    rename_i e' hs1
    cases h
    right
    apply drv_runPair_b (k := none)
    simp only [bmqvRunB, hs1, Prog.ofExcept]
    exact drv_stable_b _ _ _ _ _ _ _ _ _ _
  rename_i sb0 hs1
  split at h
  · -- A's Start fails
    rename_i e' hs2
    cases h
    left
    apply drv_runPair_a (k := none)
    simp only [bmqvRunA, hs2, Prog.ofExcept]
    exact drv_stable_a _ _ _ _ _ _ _ _ _ _
  rename_i sa0 hs2
  split at h
  · -- Step2 (B) fails
    rename_i e' h2
    cases h
    right
    apply drv_runPair_b (k := none)
    simp only [bmqvRunB, hs1, h2, Prog.ofExcept]
    exact drv_stable_b _ _ _ _ _ _ _ _ _ _
  rename_i sb1 m1 h2
  obtain ⟨eb1, hl1⟩ := drv_bmqv_step2_inv h2
  split at h
  · -- Step3 (A) fails
    rename_i e' h3
    cases h
    left
    apply drv_runPair_a (k := none)
    apply drv_round_a_ret
    case hb =>
      simp only [bmqvRunB, hs1, h2, Prog.ofExcept]
      rewrite [drv_run_write, drv_onOk, drv_run_read_block _ _ _ _ _ _ _ rfl]
      rfl
    simp only [bmqvRunA, hs2, Prog.ofExcept, List.nil_append]
    rewrite [drv_run_read_whole _ _ _ _ _ _ m1 rfl hl1, drv_onOk]
    simp only [h3]
    rewrite [drv_run_ret]
    rfl
  rename_i sa1 m2 h3
  have ea0 := drv_bmqv_start_inv hs2
  obtain ⟨-, hl2⟩ := drv_bmqv_step3_inv hmac h3
  rw [ea0] at hl2
  split at h
  · -- Step4 (B) fails
    rename_i e' h4
    cases h
    right
    apply drv_runPair_b (k := none)
    by_cases hkcb : set.kcb ≠ 0
    · apply drv_round_go_P (fun r => r.2.1 = Prog.ret e none)
      case hb =>
        simp only [bmqvRunB, hs1, h2, Prog.ofExcept]
        rewrite [drv_run_write, drv_onOk, drv_run_read_block _ _ _ _ _ _ _ rfl]
        rfl
      case ha =>
        simp only [bmqvRunA, hs2, Prog.ofExcept, List.nil_append]
        rewrite [drv_run_read_whole _ _ _ _ _ _ m1 rfl hl1, drv_onOk]
        simp only [h3, if_pos hkcb]
        rewrite [drv_run_write, drv_onOk, drv_run_read_block _ _ _ _ _ _ _ rfl]
        rfl
      case hp => simp
      simp only [List.nil_append, Nat.zero_add]
      apply drv_round_b_ret
      rewrite [drv_run_read_whole _ _ _ _ _ _ m2 rfl hl2, drv_onOk]
      simp only [h4]
      rewrite [drv_run_ret]
      rfl
    · apply drv_round_go_P (fun r => r.2.1 = Prog.ret e none)
      case hb =>
        simp only [bmqvRunB, hs1, h2, Prog.ofExcept]
        rewrite [drv_run_write, drv_onOk, drv_run_read_block _ _ _ _ _ _ _ rfl]
        rfl
      case ha =>
        simp only [bmqvRunA, hs2, Prog.ofExcept, List.nil_append]
        rewrite [drv_run_read_whole _ _ _ _ _ _ m1 rfl hl1, drv_onOk]
        simp only [h3, if_neg hkcb]
        rewrite [drv_run_write, drv_onOk, drv_run_ret]
        rfl
      case hp => simp
      simp only [List.nil_append, Nat.zero_add]
      apply drv_round_b_ret
      rewrite [drv_run_read_whole _ _ _ _ _ _ m2 rfl hl2, drv_onOk]
      simp only [h4]
      rewrite [drv_run_ret]
      rfl
  rename_i sb2 m3 h4
  have eb0 := drv_bmqv_start_inv hs1
  have hl3 := drv_bmqv_step4_inv hmac h4
  rw [eb1, eb0] at hl3
  split at h
  · rename_i hkcb
    split at h
    · -- Step5 (A) fails
      rename_i e' h5
      cases h
      left
      apply drv_runPair_a (k := none)
      apply drv_round_go_P (fun r => r.1 = Prog.ret e none)
      case hb =>
        simp only [bmqvRunB, hs1, h2, Prog.ofExcept]
        rewrite [drv_run_write, drv_onOk, drv_run_read_block _ _ _ _ _ _ _ rfl]
        rfl
      case ha =>
        simp only [bmqvRunA, hs2, Prog.ofExcept, List.nil_append]
        rewrite [drv_run_read_whole _ _ _ _ _ _ m1 rfl hl1, drv_onOk]
        simp only [h3, if_pos hkcb]
        rewrite [drv_run_write, drv_onOk, drv_run_read_block _ _ _ _ _ _ _ rfl]
        rfl
      case hp => simp
      simp only [List.nil_append, Nat.zero_add]
      apply drv_round_a_ret
      case hb =>
        rewrite [drv_run_read_whole _ _ _ _ _ _ m2 rfl hl2, drv_onOk]
        simp only [h4, if_pos hkcb]
        rewrite [drv_run_write, drv_onOk, drv_run_ret]
        rfl
      simp only [List.cons_append, List.nil_append]
      rewrite [drv_run_read_whole _ _ _ _ _ _ m3 rfl (hl3 hkcb), drv_onOk]
      simp only [h5]
      rewrite [drv_run_ret]
      rfl
    · cases h
  · cases h

end Bee2V.C04

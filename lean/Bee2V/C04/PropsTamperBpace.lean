/-
C04 — BPACE under an active adversary who replaces every message by arbitrary octets: if all steps succeed
and the two keys are equal then a collision of KRP or of belt-hash is exhibited, or the hashed parts of the
transcript (the x-coordinates of Va, Vb) arrived as they were sent and the two Diffie–Hellman secrets have
the same x-coordinate (`tamper_bpace`); an altered confirmation tag is not accepted together with equal keys
(`tamper_tag_bpace`); −Va in place of Va is invisible to B (`bpace_neg_undetected`).
The lemmas `tbpace_*_inv` read off what a successful step implies.
-/
import Bee2V.C04.Lemmas
namespace Bee2V.C04
open Bee2V.C02 (Bytes leNat natLE zeros Ctx tapeRead randNZMod loadPub encXY hashL subMod)
open Bee2V.Gen.C04Err
variable {G : Type} [AddCommGroup G] {E : Env G}

/-! ### octets -/

theorem tbpace_tapeRead_len (n : Nat) (t : Bytes) : (tapeRead n t).1.length = n := by
  unfold tapeRead zeros
  simp only [List.length_append, List.length_take, List.length_replicate]
  omega

omit [AddCommGroup G] in
theorem tbpace_encXY_len (v : Nat × Nat) : (encXY E.C v).length = 2 * E.no := Bee2V.C02.encXY_length E.C v

omit [AddCommGroup G] in
theorem tbpace_encXY_take1 (v : Nat × Nat) : (encXY E.C v).take E.no = natLE E.no v.1 := by
  unfold encXY
  exact Bee2V.C02.take_natLE_append _ _ _

/-- `no` octets determine a number below `2^(2l)` -/
theorem tbpace_natLE_inj (L : Laws E) {a b : Nat} (ha : a < 2 ^ (2 * E.l)) (hb : b < 2 ^ (2 * E.l))
    (h : natLE E.no a = natLE E.no b) : a = b := by
  have e : (256 : Nat) ^ E.no = 2 ^ (2 * E.l) := L.ctx.pow256
  have h1 := congrArg leNat h
  rwa [Bee2V.C02.leNat_natLE_of_lt (by rw [e]; exact ha), Bee2V.C02.leNat_natLE_of_lt (by rw [e]; exact hb)] at h1

/-! ### what a successful step implies -/

omit [AddCommGroup G] in
theorem tbpace_step2_inv {set : Settings} {pwd tb m : Bytes} {s : BpaceSt G}
    (h : bpaceStep2 E (bpaceStart E set pwd tb) = (s, m)) : s.set = set ∧ s.k1 = [] := by
  unfold bpaceStep2 bpaceStart at h
  simp only [Prod.mk.injEq] at h
  obtain ⟨rfl, -⟩ := h
  exact ⟨rfl, rfl⟩

/-- A keeps settings and K1, M2 = `Ya ‖ <Va>_4l` with `|Ya| = no/2`, `s->R` = the x-octets of Va -/
theorem tbpace_step3_inv (L : Laws E) {s s' : BpaceSt G} {inp m : Bytes} (h : bpaceStep3 E s inp = .ok (s', m)) :
    s'.set = s.set ∧ s'.k1 = s.k1 ∧
      ∃ (y : Bytes) (V : Nat × Nat), m = y ++ encXY E.C V ∧ y.length = E.no / 2 ∧ s'.r = natLE E.no V.1 := by
  unfold bpaceStep3 at h
  simp only at h
  split at h
  · cases h
  · simp only [Except.ok.injEq, Prod.mk.injEq] at h
    obtain ⟨rfl, rfl⟩ := h
    have hr := tbpace_tapeRead_len (E.no / 2) s.tape
    exact ⟨rfl, rfl, _, _, rfl, (L.ecb_len _ _ hr).trans hr, tbpace_encXY_take1 _⟩

omit [AddCommGroup G] in
theorem tbpace_step4_inv {s s' : BpaceSt G} {inp m : Bytes} (h : bpaceStep4 E s inp = .ok (s', m)) :
    ∃ (Va : G) (K Vb : Nat × Nat), loadPub E.C ((inp.drop (E.no / 2)).take (2 * E.no)) = some Va ∧
      E.xy (E.smul s'.u Va) = some K ∧
      s'.k0 = (bpaceKeys E s.set s.k1 K.1 ((inp.drop (E.no / 2)).take E.no) (natLE E.no Vb.1)).1 ∧
      s'.k1 = (bpaceKeys E s.set s.k1 K.1 ((inp.drop (E.no / 2)).take E.no) (natLE E.no Vb.1)).2 ∧
      m = encXY E.C Vb ++ (if s.set.kcb ≠ 0 then E.mac s'.k1 (ones 16) else []) := by
  unfold bpaceStep4 at h
  simp only at h
  split at h
  · cases h
  · rename_i Va hVa
    split at h
    · cases h
    · split at h
      · cases h
      · rename_i K hK
        split at h
        · cases h
        · rename_i Vb hVb
          simp only [Except.ok.injEq, Prod.mk.injEq] at h
          obtain ⟨rfl, rfl⟩ := h
          refine ⟨Va, K, Vb, hVa, hK, ?_, ?_, rfl⟩
          · simp only [tbpace_encXY_take1]
          · simp only [tbpace_encXY_take1]

omit [AddCommGroup G] in
theorem tbpace_step5_inv {s s' : BpaceSt G} {inp m : Bytes} (h : bpaceStep5 E s inp = .ok (s', m)) :
    ∃ (Vb : G) (K : Nat × Nat), loadPub E.C (inp.take (2 * E.no)) = some Vb ∧ E.xy (E.smul s.u Vb) = some K ∧
      s'.k0 = (bpaceKeys E s.set s.k1 K.1 s.r (natLE E.no (leNat (inp.take E.no)))).1 ∧
      s'.k1 = (bpaceKeys E s.set s.k1 K.1 s.r (natLE E.no (leNat (inp.take E.no)))).2 ∧
      (s.set.kcb ≠ 0 → E.mac s'.k1 (ones 16) = (inp.drop (2 * E.no)).take 8) := by
  unfold bpaceStep5 at h
  simp only at h
  split at h
  · cases h
  · rename_i Vb hVb
    split at h
    · cases h
    · rename_i K hK
      split at h
      · cases h
      · rename_i hc
        simp only [Except.ok.injEq, Prod.mk.injEq] at h
        obtain ⟨rfl, -⟩ := h
        refine ⟨Vb, K, hVb, hK, rfl, rfl, ?_⟩
        intro hk
        exact not_not.1 (fun hne => hc ⟨hk, hne⟩)

/-! ### the adversary -/

/-- BPACE: acceptance + equal keys ⇒ KRP/hash collision, or the x-coordinates of Va (as B received it) and of Vb (as A
received it) are the ones that were sent AND the two Diffie–Hellman secrets have the same x-coordinate.  (The y-coordinates and
M1 = Yb enter only through that last relation: −Va for Va is NOT detected by the equations — see `bpace_neg_undetected`.) -/
theorem tamper_bpace (L : Laws E) (set : Settings) (pwda pwdb ta tb m1' m2' m3' : Bytes)
    {sb1 sa1 sb2 sa2 : BpaceSt G} {m1 m2 m3 m4 : Bytes}
    (h2 : bpaceStep2 E (bpaceStart E set pwdb tb) = (sb1, m1))
    (h3 : bpaceStep3 E (bpaceStart E set pwda ta) m1' = .ok (sa1, m2))
    (hl2 : m2'.length = m2.length)
    (h4 : bpaceStep4 E sb1 m2' = .ok (sb2, m3))
    (hl3 : m3'.length = m3.length)
    (h5 : bpaceStep5 E sa1 m3' = .ok (sa2, m4))
    (hk : bpaceStepG sa2 = bpaceStepG sb2) :
    Collision (fun Y => E.krp Y 0) ∨ Collision E.hash ∨
      ((m2'.drop (E.no / 2)).take E.no = (m2.drop (E.no / 2)).take E.no ∧ m3'.take E.no = m3.take E.no ∧
       ∃ Va' Vb' ka kb, loadPub E.C ((m2'.drop (E.no / 2)).take (2 * E.no)) = some Va' ∧ loadPub E.C (m3'.take (2 * E.no)) = some Vb' ∧
         E.xy (E.smul sa1.u Vb') = some ka ∧ E.xy (E.smul sb2.u Va') = some kb ∧ ka.1 = kb.1) := by
  obtain ⟨eb1, eb1k⟩ := tbpace_step2_inv h2
  obtain ⟨ea1, ea1k, y, Va, hm2, hyl, har⟩ := tbpace_step3_inv L h3
  have ea1' : sa1.set = set := ea1
  have ea1k' : sa1.k1 = [] := ea1k
  obtain ⟨Va', K, Vb, hVa', hK, hkb0, -, hm3⟩ := tbpace_step4_inv h4
  obtain ⟨Vb', K', hVb', hK', hka0, -, -⟩ := tbpace_step5_inv h5
  unfold bpaceStepG at hk
  rw [hka0, hkb0, ea1', ea1k', eb1, eb1k, har] at hk
  simp only [bpaceKeys] at hk
  -- KRP
  rcases eq_or_collision (fun Y => E.krp Y 0) hk with hY | hc
  swap
  · exact .inl hc
  -- belt-hash
  rcases eq_or_collision E.hash hY with hin | hc
  swap
  · exact .inr (.inl hc)
  refine .inr (.inr ?_)
  -- the hashed octets: three blocks of no octets, then the hellos
  have hl2' : m2'.length = E.no / 2 + 2 * E.no := by
    rw [hl2, hm2, List.length_append, hyl, tbpace_encXY_len]
  have hl3' : 2 * E.no ≤ m3'.length := by
    rw [hl3, hm3, List.length_append, tbpace_encXY_len]
    omega
  have hlb : ((m2'.drop (E.no / 2)).take E.no).length = E.no := by
    rw [List.length_take, List.length_drop, hl2']
    omega
  have h1 := (List.append_left_inj _).1 hin
  obtain ⟨h12, hc⟩ := List.append_inj h1 (by
    rw [List.length_append, List.length_append, hlb]
    simp only [Bee2V.C02.natLE_length])
  obtain ⟨ha, hb⟩ := List.append_inj h12 (by simp only [Bee2V.C02.natLE_length])
  refine ⟨?_, ?_, Va', Vb', K', K, hVa', hVb', hK', hK, ?_⟩
  · rw [← hb, hm2, List.drop_left' hyl, tbpace_encXY_take1]
  · rw [hm3, encXY_take L, ← hc]
    have hl : (m3'.take E.no).length = E.no := by
      rw [List.length_take]
      omega
    have := Bee2V.C02.natLE_leNat (m3'.take E.no)
    rw [hl] at this
    exact this.symm
  · have hp := L.ctx.p_hi
    have h1 := (L.ctx.xy_lt _ K'.1 K'.2 hK').1
    have h2 := (L.ctx.xy_lt _ K.1 K.2 hK).1
    exact tbpace_natLE_inj L (by omega) (by omega) ha

/-- a confirmation tag Tb that was altered on the way to A is never accepted together with equal keys (unless a KRP
collision is exhibited): A's acceptance means `MAC(K1_A, 1^128) = Tb'`, B sent `Tb = MAC(K1_B, 1^128)`, and equal keys
K0 = KRP(Y, 0) give equal Y, hence equal K1 = KRP(Y, 1) -/
theorem tamper_tag_bpace (L : Laws E) {sa1 sa2 sb1 sb2 : BpaceSt G} {m2' m3 m3' m4 : Bytes}
    (hset : sa1.set = sb1.set) (hkcb : sb1.set.kcb ≠ 0)
    (h4 : bpaceStep4 E sb1 m2' = .ok (sb2, m3))
    (h5 : bpaceStep5 E sa1 m3' = .ok (sa2, m4))
    (hne : (m3'.drop (2 * E.no)).take 8 ≠ (m3.drop (2 * E.no)).take 8) :
    bpaceStepG sa2 ≠ bpaceStepG sb2 ∨ Collision (fun Y => E.krp Y 0) := by
  obtain ⟨Va', K, Vb, -, -, hkb0, hkb1, hm3⟩ := tbpace_step4_inv h4
  obtain ⟨Vb', K', -, -, hka0, hka1, htag⟩ := tbpace_step5_inv h5
  rw [hset] at hka0 hka1 htag
  have hor : sb1.set.kca ≠ 0 ∨ sb1.set.kcb ≠ 0 := .inr hkcb
  simp only [bpaceKeys, if_pos hor] at hka0 hka1 hkb0 hkb1
  by_cases hk : bpaceStepG sa2 = bpaceStepG sb2
  swap
  · exact .inl hk
  unfold bpaceStepG at hk
  rw [hka0, hkb0] at hk
  rcases eq_or_collision (fun Y => E.krp Y 0) hk with hY | hc
  swap
  · exact .inr hc
  exfalso
  apply hne
  rw [← htag hkcb, hm3, if_pos hkcb, encXY_drop2, List.take_of_length_le (Nat.le_of_eq (L.mac_len _ _)), hka1, hkb1, hY]

/-- −Va in place of Va is invisible to B: if `m` encodes P, `m'` encodes −P (same x-octets), then bakeBPACEStep4
returns the same result (state, key material, M3 — or the same error) on `Ya ‖ m'` and on `Ya ‖ m`: B uses the received
point only through the x-coordinate of u·Va and the x-octets -/
theorem bpace_neg_undetected (L : Laws E) (s : BpaceSt G) (ya m m' : Bytes) (P : G)
    (hy : ya.length = E.no / 2) (hl : m.length = 2 * E.no) (hl' : m'.length = 2 * E.no)
    (hm : loadPub E.C m = some P) (hm' : loadPub E.C m' = some (-P))
    (hx : m'.take E.no = m.take E.no) :
    bpaceStep4 E s (ya ++ m') = bpaceStep4 E s (ya ++ m) := by
  unfold bpaceStep4
  simp only [List.drop_left' hy, List.take_left' hy, List.take_of_length_le (Nat.le_of_eq hl),
    List.take_of_length_le (Nat.le_of_eq hl'), hm, hm', hx, L.smul_eq]
  cases hr : randNZMod E.C s.tape with
  | mk o rest =>
    cases o with
    | none => rfl
    | some u =>
      simp only [neg_nsmul]
      cases hq : E.xy (u • P) with
      | none =>
        have h0 : u • P = 0 := (L.ctx.xy_none _).1 hq
        have hq' : E.xy (-(u • P)) = none := (L.ctx.xy_none _).2 (by rw [h0, neg_zero])
        simp only [hq']
      | some K =>
        obtain ⟨y', hq'⟩ := L.ctx.xy_neg _ K.1 K.2 hq
        simp only [hq']

end Bee2V.C04

/-
C04 — line protocol of `drv_c04` (C side: harness/c04.c; the ops are described in docs/C04.md §3).

  run <P> <ci> <kca> <kcb> <ha|N> <hb|N> <keyA> <keyB> <certA> <certB> <tapeA> <tapeB> <s|r> [tamper …]
  kdf <secret> <iv> <num>
  swu <ci> <msg>

One scenario per line: the honest run first, then — sharing the honest prefix — one re-run per tamper
`k:off:hex` (overwrite message k at offset off) or `k:=:hex` (replace message k).
-/
import Bee2V.C04.Inst
import Bee2V.Base.Proto
namespace Bee2V.C04.Drv
open Bee2V.C04 Bee2V.Proto Bee2V.Gen.C02Params Bee2V.Gen.C04Err
open Bee2V.C02 (Bytes Pt zeros natLE)

def optHex (s : String) : Option (Option Bytes) :=
  if s = "N" then some none else (parseHex s).map some

/-- a protocol as a list of steps over a pair of party states -/
structure StepDef (σ : Type) where
  name : String
  /-- true = party A -/
  isA : Bool
  run : σ → Bytes → Except Err (σ × Bytes)

structure Tamper where
  k : Nat
  off : Option Nat
  dat : Bytes
  txt : String

def parseTamper (s : String) : Option Tamper :=
  match s.splitOn ":" with
  | [k, o, h] =>
    match parseNat k, parseHex h with
    | some k, some h => if o = "=" then some ⟨k, none, h, s⟩ else (parseNat o).map fun o => ⟨k, some o, h, s⟩
    | _, _ => none
  | _ => none

/-- the altered message, `none` if the tamper does not apply (does not fit / length change not admitted) -/
def Tamper.apply (t : Tamper) (varLen : Bool) (m : Bytes) : Option Bytes :=
  match t.off with
  | some o => if o + t.dat.length ≤ m.length ∧ t.dat.length ≠ 0 then some (m.take o ++ t.dat ++ m.drop (o + t.dat.length)) else none
  | none => if t.dat.length = m.length ∨ varLen then some t.dat else none

/-- run the steps `steps` from state `st` with incoming message `msg`; returns the printed tokens, the
final state if every step succeeded, and the list (state before step, incoming message) per step -/
def runSteps {σ : Type} : List (StepDef σ) → σ → Bytes → List String → List (σ × Bytes) → List String × Option σ × List (σ × Bytes)
  | [], st, _, acc, tr => (acc.reverse, some st, tr.reverse)
  | sd :: rest, st, msg, acc, tr =>
    match sd.run st msg with
    | .error e => ((s!"{sd.name}={e}:-" :: acc).reverse, none, ((st, msg) :: tr).reverse)
    | .ok (st', out) => runSteps rest st' out (s!"{sd.name}={ERR_OK}:{toHex out}" :: acc) ((st, msg) :: tr)

/-- keys of the parties that completed all their steps: A completed iff no A-step is among the steps not run -/
def keysTok {σ : Type} (steps : List (StepDef σ)) (nDone : Nat) (failed : Bool) (st : σ) (keyA keyB : σ → Bytes) : String :=
  let pending := steps.drop (if failed then nDone - 1 else nDone)
  let aDone := !(pending.any (·.isA))
  let bDone := !(pending.any (fun s => !s.isA))
  s!"K={if aDone then toHex (keyA st) else "-"},{if bDone then toHex (keyB st) else "-"}"

/-- honest run + tampers (step mode) -/
def simulate {σ : Type} (steps : List (StepDef σ)) (st0 : σ) (keyA keyB : σ → Bytes) (varLen : Nat → Bool)
    (tams : List Tamper) (extra : String := "") : String :=
  let h := runSteps steps st0 [] [] []
  let lastSt (tr : List (σ × Bytes)) : σ := match tr.getLast? with | some x => x.1 | none => st0
  let hs := match h.2.1 with
    | some st => keysTok steps steps.length false st keyA keyB
    | none => keysTok steps h.2.2.length true (lastSt h.2.2) keyA keyB
  let honest := " ".intercalate (h.1 ++ [hs]) ++ extra
  let one (t : Tamper) : String :=
    -- message k is the input of step number k (0-based) and exists iff that step was run in the honest run
    match (if t.k = 0 then none else h.2.2[t.k]?) with
    | none => s!"{t.txt}>skip"
    | some (st, msg) =>
      match t.apply (varLen t.k) msg with
      | none => s!"{t.txt}>skip"
      | some msg' =>
        let r := runSteps (steps.drop t.k) st msg' [] []
        let ks := match r.2.1 with
          | some st' => keysTok steps steps.length false st' keyA keyB
          | none => keysTok steps (t.k + r.2.2.length) true (lastSt r.2.2) keyA keyB
        s!"{t.txt}>" ++ " ".intercalate (r.1 ++ [ks])
  " | ".intercalate (honest :: tams.map one)

def okTok (name : String) (e : Err) : String := s!"{name}={e}"

/-- `Except` result of a Start -/
def codeOf {α : Type} : Except Err α → Err
  | .ok _ => ERR_OK
  | .error e => e

def tamFun (tams : List Tamper) (dirMsgs : List Nat) (varLen : Nat → Bool) (i : Nat) (m : Bytes) : Bytes :=
  -- message number i of this direction is global message dirMsgs[i]
  match dirMsgs[i]? with
  | none => m
  | some k => tams.foldl (fun m t => if t.k = k then (match t.apply (varLen k) m with | some m' => m' | none => m) else m) m

def runTok (r : (Err × Option Bytes) × (Err × Option Bytes) × List Bytes × List Bytes) : String :=
  let key (k : Option Bytes) : String := match k with | some k => toHex k | none => "-"
  let ms (l : List Bytes) : String := if l.isEmpty then "." else ",".intercalate (l.map toHex)
  s!"R={r.1.1}:{key r.1.2},{r.2.1.1}:{key r.2.1.2} BA={ms r.2.2.2} AB={ms r.2.2.1}"

/-- run mode: RunA ∥ RunB on the ideal channel, then once per tamper.  Messages B→A are the odd ones
(M1, M3), A→B the even ones (M2, M4). -/
def simulateRun (a b : Prog) (varLen : Nat → Bool) (tams : List Tamper) : String :=
  let go (ts : List Tamper) : String :=
    runTok (runPair (tamFun ts [2, 4] varLen) (tamFun ts [1, 3] varLen) a b)
  " | ".intercalate (go [] :: tams.map fun t => s!"{t.txt}>" ++ go [t])

/-- pair states -/
structure Pair (α β : Type) where
  a : α
  b : β

def handleRun (E : Env Pt) (P : String) (set : Settings) (ka kb ca cb ta tb : Bytes) (mode : String) (tams : List Tamper)
    (ca2 cb2 : Bytes) : String :=
  let no := E.no
  let pad := zeros (8 + no)
  if mode = "r" then
    match P with
    | "bmqv" => simulateRun (bmqvRunA E set ka ca cb2 ta) (bmqvRunB E set kb cb ca2 tb) (fun _ => false) tams
    | "bsts" => simulateRun (bstsRunA E set ka ca ta) (bstsRunB E set kb cb tb) (fun k => k = 2 ∨ k = 3) tams
    | "bpace" => simulateRun (bpaceRunA E set ka ta) (bpaceRunB E set kb tb) (fun _ => false) tams
    | _ => "bad-op"
  else if mode ≠ "s" then "bad-op" else
  match P with
  | "bmqv" =>
    let sa := bmqvStart E set ka ca ta
    let sb := bmqvStart E set kb cb tb
    match sa, sb with
    | .ok sa, .ok sb =>
      let steps : List (StepDef (Pair BmqvSt BmqvSt)) :=
        [⟨"B2", false, fun s _ => (bmqvStep2 E s.b).map fun r => ({ s with b := r.1 }, r.2)⟩,
         ⟨"A3", true, fun s m => (bmqvStep3 E s.a m cb2).map fun r => ({ s with a := r.1 }, r.2)⟩,
         ⟨"B4", false, fun s m => (bmqvStep4 E s.b m ca2).map fun r => ({ s with b := r.1 }, r.2)⟩] ++
        (if set.kcb ≠ 0 then [⟨"A5", true, fun s m => (bmqvStep5 E s.a m).map fun r => ({ s with a := r }, [])⟩] else [])
      let extra := if set.kcb = 0 then s!" L={codeOf (bmqvStep5 E sa pad)}" else ""
      "S=0,0 " ++ simulate steps ⟨sa, sb⟩ (fun s => bmqvStepG s.a) (fun s => bmqvStepG s.b) (fun _ => false) tams extra
    | _, _ => s!"S={codeOf sb},{codeOf sa}"
  | "bsts" =>
    let sa := bstsStart E set ka ca ta
    let sb := bstsStart E set kb cb tb
    match sa, sb with
    | .ok sa, .ok sb =>
      let steps : List (StepDef (Pair (BstsSt Pt) (BstsSt Pt))) :=
        [⟨"B2", false, fun s _ => (bstsStep2 E s.b).map fun r => ({ s with b := r.1 }, r.2)⟩,
         ⟨"A3", true, fun s m => (bstsStep3 E s.a m).map fun r => ({ s with a := r.1 }, r.2)⟩,
         ⟨"B4", false, fun s m => (bstsStep4 E s.b m).map fun r => ({ s with b := r.1 }, r.2)⟩,
         ⟨"A5", true, fun s m => (bstsStep5 E s.a m).map fun r => ({ s with a := r }, [])⟩]
      "S=0,0 " ++ simulate steps ⟨sa, sb⟩ (fun s => bstsStepG s.a) (fun s => bstsStepG s.b) (fun k => k = 2 ∨ k = 3) tams
    | _, _ => s!"S={codeOf sb},{codeOf sa}"
  | "bpace" =>
    let sa := bpaceStart E set ka ta
    let sb := bpaceStart E set kb tb
    let steps : List (StepDef (Pair (BpaceSt Pt) (BpaceSt Pt))) :=
      [⟨"B2", false, fun s _ => let r := bpaceStep2 E s.b; .ok ({ s with b := r.1 }, r.2)⟩,
       ⟨"A3", true, fun s m => (bpaceStep3 E s.a m).map fun r => ({ s with a := r.1 }, r.2)⟩,
       ⟨"B4", false, fun s m => (bpaceStep4 E s.b m).map fun r => ({ s with b := r.1 }, r.2)⟩,
       ⟨"A5", true, fun s m => (bpaceStep5 E s.a m).map fun r => ({ s with a := r.1 }, r.2)⟩] ++
      (if set.kca ≠ 0 then [⟨"B6", false, fun s m => (bpaceStep6 E s.b m).map fun r => ({ s with b := r }, [])⟩] else [])
    let extra := if set.kca = 0 then s!" L={codeOf (bpaceStep6 E sb pad)}" else ""
    "S=0,0 " ++ simulate steps ⟨sa, sb⟩ (fun s => bpaceStepG s.a) (fun s => bpaceStepG s.b) (fun _ => false) tams extra
  | "bauth" =>
    let sa := bauthTStart E set ka ca ta
    let sb := bauthCtStart E set kb cb tb
    match sa, sb with
    | .ok sa, .ok sb =>
      let steps : List (StepDef (Pair (BauthTSt Pt) BauthCtSt)) :=
        [⟨"B2", false, fun s _ => (bauthCtStep2 E s.b ca2).map fun r => ({ s with b := r.1 }, r.2)⟩,
         ⟨"A3", true, fun s m => (bauthTStep3 E s.a m).map fun r => ({ s with a := r.1 }, r.2)⟩,
         ⟨"B4", false, fun s m => (bauthCtStep4 E s.b m).map fun r => ({ s with b := r.1 }, r.2)⟩] ++
        (if set.kcb ≠ 0 then [⟨"A5", true, fun s m => (bauthTStep5 E s.a m).map fun r => ({ s with a := r }, [])⟩] else [])
      let extra := if set.kcb = 0 then s!" L={codeOf (bauthTStep5 E sa pad)}" else ""
      "S=0,0 " ++ simulate steps ⟨sa, sb⟩ (fun s => bauthTStepG s.a) (fun s => bauthCtStepG s.b) (fun k => k = 3) tams extra
    | _, _ => s!"S={codeOf sb},{codeOf sa}"
  | _ => "bad-op"

def handle : List String → String
  | "run" :: P :: ci :: kca :: kcb :: ha :: hb :: ka :: kb :: ca :: cb :: ta :: tb :: mode :: tams =>
    match (parseNat ci).bind (std[·]?), parseNat kca, parseNat kcb, optHex ha, optHex hb with
    | some s, some kca, some kcb, some ha, some hb =>
      match parseHex ka, parseHex kb, parseHex ca, parseHex cb, parseHex ta, parseHex tb, tams.mapM parseTamper with
      | some ka, some kb, some ca, some cb, some ta, some tb, some tams =>
        let E := stdEnv s
        if P ≠ "bpace" ∧ (ka.length ≠ E.no ∨ kb.length ≠ E.no) then "bad-op" else
        handleRun E P ⟨kca, kcb, ha, hb⟩ ka kb ca cb ta tb mode tams ca cb
      | _, _, _, _, _, _, _ =>
        -- modes sx / rx: two more arguments = A's certificate as B holds it, B's certificate as A holds it
        match mode, tams with
        | "sx", a2 :: b2 :: tams | "rx", a2 :: b2 :: tams =>
          match parseHex ka, parseHex kb, parseHex ca, parseHex cb, parseHex ta, parseHex tb, tams.mapM parseTamper, parseHex a2, parseHex b2 with
          | some ka, some kb, some ca, some cb, some ta, some tb, some tams, some a2, some b2 =>
            let E := stdEnv s
            if P ≠ "bpace" ∧ (ka.length ≠ E.no ∨ kb.length ≠ E.no) then "bad-op" else
            handleRun E P ⟨kca, kcb, ha, hb⟩ ka kb ca cb ta tb (mode.take 1).toString tams a2 b2
          | _, _, _, _, _, _, _, _, _ => "bad-op"
        | _, _ => "bad-op"
    | _, _, _, _, _ => "bad-op"
  | ["kdf", secret, iv, num] =>
    match parseHex secret, parseHex iv, parseNat num with
    | some secret, some iv, some num =>
      if num < 2 ^ 64 then toHex (kdf (stdEnv std0) secret iv num) else "bad-op"
    | _, _, _ => "bad-op"
  | ["hash", data] =>
    match parseHex data with
    | some d => toHex ((stdEnv std0).hash d)
    | none => "bad-op"
  | ["swu", ci, msg] =>
    match (parseNat ci).bind (std[·]?), parseHex msg with
    | some s, some msg =>
      let E := stdEnv s
      if msg.length ≠ E.no then "bad-op" else
      match E.xy (E.swu msg) with
      | some W => toHex (Bee2V.C02.encXY E.C W)
      | none => "O"
    | _, _ => "bad-op"
  | _ => "bad-op"

end Bee2V.C04.Drv

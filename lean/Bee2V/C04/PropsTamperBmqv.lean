/-
C04 — BMQV under an active adversary: every message is replaced by arbitrary octets.  If all steps
nevertheless succeed and the two keys are equal, then an explicit collision of KRP or of belt-hash is
exhibited, or both parties derived the key from the same MQV secret octets and the same certificate
strings.  An altered confirmation tag that B accepts forces different keys (or a KRP collision).
-/
import Bee2V.C04.Lemmas
namespace Bee2V.C04
open Bee2V.C02 (Bytes leNat natLE zeros Ctx tapeRead randNZMod loadPub encXY hashL subMod)
open Bee2V.Gen.C04Err
variable {G : Type} [AddCommGroup G] {E : Env G}

/-! ### what a successful step tells -/

omit [AddCommGroup G] in
/-- the MQV secret is always `no` octets long -/
theorem tbmqv_mqvK_len {V Q : G} {t s : Nat} {K : Bytes} (h : mqvK E V Q t s = .ok K) : K.length = E.no := by
  unfold mqvK at h
  split at h
  · cases h
  · simp only at h
    split at h
    · cases h; exact Bee2V.C02.natLE_length _ _
    · split at h <;> (cases h; exact Bee2V.C02.natLE_length _ _)

omit [AddCommGroup G] in
theorem tbmqv_start_inv {set : Settings} {priv cert tape : Bytes} {s : BmqvSt}
    (h : bmqvStart E set priv cert tape = .ok s) : s = ⟨set, leNat priv, 0, [], cert, [], [], tape⟩ := by
  unfold bmqvStart at h
  split at h
  · cases h
  · cases h; rfl

omit [AddCommGroup G] in
theorem tbmqv_step2_inv {s s' : BmqvSt} {m : Bytes} (h : bmqvStep2 E s = .ok (s', m)) :
    s'.set = s.set ∧ s'.d = s.d ∧ s'.cert = s.cert ∧ s'.k1 = s.k1 ∧ s'.vb = m.take E.no := by
  unfold bmqvStep2 at h
  split at h
  · cases h
  · simp only [Except.ok.injEq, Prod.mk.injEq] at h
    obtain ⟨rfl, rfl⟩ := h
    exact ⟨rfl, rfl, rfl, rfl, rfl⟩

omit [AddCommGroup G] in
/-- Step3 (A) succeeded on (inp, certb): certb validated, inp is a point, the MQV computation gave K, the keys
are derived from `K ‖ own certificate ‖ certb ‖ hellos`, and (kca) the message ends with the tag under K1 -/
theorem tbmqv_step3_inv {s s' : BmqvSt} {inp certb out : Bytes} (h : bmqvStep3 E s inp certb = .ok (s', out)) :
    ∃ Qb Vb K, certPub E certb = .ok Qb ∧ loadPub E.C inp = some Vb ∧
      mqvK E Vb Qb (hashT E (out.take E.no) (inp.take E.no))
        (mqvS E s'.u s.d (hashT E (out.take E.no) (inp.take E.no))) = .ok K ∧
      s'.k0 = E.krp (E.hash (K ++ s.cert ++ certb ++ s.set.hello)) 0 ∧
      s'.k1 = (if s.set.kca ≠ 0 ∨ s.set.kcb ≠ 0 then E.krp (E.hash (K ++ s.cert ++ certb ++ s.set.hello)) 1 else s.k1) ∧
      (s.set.kca ≠ 0 → out.drop (2 * E.no) = E.mac s'.k1 (zeros 16)) := by
  unfold bmqvStep3 at h
  split at h
  · cases h
  · rename_i Qb hQb
    split at h
    · cases h
    · rename_i Vb hVb
      split at h
      · cases h
      · rename_i rest u Va hE
        simp only at h
        split at h
        · cases h
        · rename_i K hK
          simp only [Except.ok.injEq, Prod.mk.injEq] at h
          obtain ⟨rfl, rfl⟩ := h
          have hlen : (encXY E.C Va).length = 2 * E.no := Bee2V.C02.encXY_length E.C Va
          have htk : ∀ r : Bytes, (encXY E.C Va ++ r).take E.no = (encXY E.C Va).take E.no := fun r =>
            List.take_append_of_le_length (by rw [hlen]; omega)
          refine ⟨Qb, Vb, K, hQb, hVb, ?_, rfl, rfl, ?_⟩
          · rw [htk]; exact hK
          · intro hk
            rw [if_pos hk, List.drop_left' hlen]

omit [AddCommGroup G] in
/-- Step4 (B) succeeded on (inp, certa) -/
theorem tbmqv_step4_inv {s s' : BmqvSt} {inp certa out : Bytes} (h : bmqvStep4 E s inp certa = .ok (s', out)) :
    ∃ Qa Va K, certPub E certa = .ok Qa ∧ loadPub E.C (inp.take (2 * E.no)) = some Va ∧
      mqvK E Va Qa (hashT E (inp.take E.no) s.vb) (mqvS E s.u s.d (hashT E (inp.take E.no) s.vb)) = .ok K ∧
      s'.k0 = E.krp (E.hash (K ++ certa ++ s.cert ++ s.set.hello)) 0 ∧
      s'.k1 = (if s.set.kca ≠ 0 ∨ s.set.kcb ≠ 0 then E.krp (E.hash (K ++ certa ++ s.cert ++ s.set.hello)) 1 else s.k1) ∧
      (s.set.kca ≠ 0 → E.mac s'.k1 (zeros 16) = (inp.drop (2 * E.no)).take 8) := by
  unfold bmqvStep4 at h
  split at h
  · cases h
  · rename_i Qa hQa
    split at h
    · cases h
    · rename_i Va hVa
      simp only at h
      split at h
      · cases h
      · rename_i K hK
        split at h
        · cases h
        · rename_i hc
          simp only [Except.ok.injEq, Prod.mk.injEq] at h
          obtain ⟨rfl, _⟩ := h
          refine ⟨Qa, Va, K, hQa, hVa, hK, rfl, rfl, ?_⟩
          intro hk
          by_contra hne
          exact hc ⟨hk, hne⟩

/-! ### the tamper theorems -/

/-- BMQV: acceptance + equal keys ⇒ KRP/hash collision, or both parties derived the key from the same MQV secret octets and the
same certificate strings (ca' / cb' = what the peer holds as the other's certificate) -/
theorem tamper_bmqv (_L : Laws E) (set : Settings) (ka kb ca cb ca' cb' ta tb m1' m2' : Bytes)
    {sa0 sb0 sb1 sa1 sb2 : BmqvSt} {m1 m2 m3 : Bytes}
    (ha0 : bmqvStart E set ka ca ta = .ok sa0) (hb0 : bmqvStart E set kb cb tb = .ok sb0)
    (h2 : bmqvStep2 E sb0 = .ok (sb1, m1))
    (h3 : bmqvStep3 E sa0 m1' cb' = .ok (sa1, m2))
    (h4 : bmqvStep4 E sb1 m2' ca' = .ok (sb2, m3))
    (hk : bmqvStepG sa1 = bmqvStepG sb2) :
    Collision (fun Y => E.krp Y 0) ∨ Collision E.hash ∨
      ∃ Vb' Qb' Va' Qa' KA KB,
        loadPub E.C m1' = some Vb' ∧ certPub E cb' = .ok Qb' ∧ loadPub E.C (m2'.take (2 * E.no)) = some Va' ∧ certPub E ca' = .ok Qa' ∧
        mqvK E Vb' Qb' (hashT E (m2.take E.no) (m1'.take E.no)) (mqvS E sa1.u sa0.d (hashT E (m2.take E.no) (m1'.take E.no))) = .ok KA ∧
        mqvK E Va' Qa' (hashT E (m2'.take E.no) (m1.take E.no)) (mqvS E sb1.u sb0.d (hashT E (m2'.take E.no) (m1.take E.no))) = .ok KB ∧
        KA = KB ∧ ca ++ cb' = ca' ++ cb := by
  have ea := tbmqv_start_inv ha0
  have eb := tbmqv_start_inv hb0
  obtain ⟨e1, e2, e3, _, e5⟩ := tbmqv_step2_inv h2
  obtain ⟨Qb', Vb', KA, hQb, hVb, hKA, hk0A, _, _⟩ := tbmqv_step3_inv h3
  obtain ⟨Qa', Va', KB, hQa, hVa, hKB, hk0B, _, _⟩ := tbmqv_step4_inv h4
  have hsa : sa0.cert = ca ∧ sa0.set = set := by rw [ea]; exact ⟨rfl, rfl⟩
  have hsb : sb0.cert = cb ∧ sb0.set = set := by rw [eb]; exact ⟨rfl, rfl⟩
  rw [e1, e3, hsb.1, hsb.2] at hk0B
  rw [hsa.1, hsa.2] at hk0A
  rw [e2, e5] at hKB
  unfold bmqvStepG at hk
  rw [hk0A, hk0B] at hk
  rcases eq_or_collision (fun Y => E.krp Y 0) hk with hY | hc
  · rcases eq_or_collision E.hash hY with hI | hc
    · refine .inr (.inr ⟨Vb', Qb', Va', Qa', KA, KB, hVb, hQb, hVa, hQa, hKA, hKB, ?_⟩)
      have h1 := List.append_cancel_right hI
      rw [List.append_assoc, List.append_assoc] at h1
      exact List.append_inj h1 (by rw [tbmqv_mqvK_len hKA, tbmqv_mqvK_len hKB])
    · exact .inr (.inl hc)
  · exact .inl hc

/-- an altered tag Ta (kca ≠ 0) accepted by B forces different keys (or a KRP collision): B accepted ⇒ mac k1_B 0^128 = tag',
A sent tag = mac k1_A 0^128 ≠ tag' ⇒ k1_A ≠ k1_B ⇒ Y_A ≠ Y_B ⇒ k0_A ≠ k0_B ∨ Collision (krp · 0) -/
theorem tamper_tag_bmqv (L : Laws E) (set : Settings) (ka kb ca cb ca' cb' ta tb m1' m2' : Bytes)
    {sa0 sb0 sb1 sa1 sb2 : BmqvSt} {m1 m2 m3 : Bytes}
    (ha0 : bmqvStart E set ka ca ta = .ok sa0) (hb0 : bmqvStart E set kb cb tb = .ok sb0)
    (h2 : bmqvStep2 E sb0 = .ok (sb1, m1))
    (h3 : bmqvStep3 E sa0 m1' cb' = .ok (sa1, m2))
    (h4 : bmqvStep4 E sb1 m2' ca' = .ok (sb2, m3))
    (hkca : set.kca ≠ 0)
    (htag : (m2'.drop (2 * E.no)).take 8 ≠ (m2.drop (2 * E.no)).take 8) :
    bmqvStepG sa1 ≠ bmqvStepG sb2 ∨ Collision (fun Y => E.krp Y 0) := by
  have ea := tbmqv_start_inv ha0
  have eb := tbmqv_start_inv hb0
  obtain ⟨e1, _, _, _, _⟩ := tbmqv_step2_inv h2
  obtain ⟨Qb', Vb', KA, _, _, _, hk0A, hk1A, htA⟩ := tbmqv_step3_inv h3
  obtain ⟨Qa', Va', KB, _, _, _, hk0B, hk1B, htB⟩ := tbmqv_step4_inv h4
  have hsa : sa0.set = set := by rw [ea]
  have hsb : sb0.set = set := by rw [eb]
  rw [e1, hsb] at hk0B hk1B htB
  rw [hsa] at hk0A hk1A htA
  rw [if_pos (Or.inl hkca)] at hk1A hk1B
  by_cases hk : bmqvStepG sa1 = bmqvStepG sb2
  · unfold bmqvStepG at hk
    rw [hk0A, hk0B] at hk
    rcases eq_or_collision (fun Y => E.krp Y 0) hk with hY | hc
    · exfalso
      apply htag
      have hk1 : sa1.k1 = sb2.k1 := by rw [hk1A, hk1B, hY]
      rw [← htB hkca, htA hkca, hk1, List.take_of_length_le (by rw [L.mac_len])]
    · exact .inr hc
  · exact .inl hk

end Bee2V.C04

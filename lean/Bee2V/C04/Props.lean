/-
C04 — property theorems (see docs/C04.md).  Work in progress: this first slice states the exact
acceptance condition of the explicit confirmation steps.
-/
import Bee2V.C04.Model
namespace Bee2V.C04
open Bee2V.Gen.C04Err
open Bee2V.C02 (Bytes)
variable {G : Type}

/-- bakeBMQVStep5 succeeds exactly when B's confirmation is switched on and the received tag is the
MAC of 1^128 under K1 -/
theorem bmqvStep5_ok_iff (E : Env G) (s : BmqvSt) (inp : Bytes) :
    (∃ s', bmqvStep5 E s inp = .ok s') ↔ s.set.kcb ≠ 0 ∧ E.mac s.k1 (ones 16) = inp.take 8 := by
  unfold bmqvStep5
  by_cases h1 : s.set.kcb = 0 <;> by_cases h2 : E.mac s.k1 (ones 16) = inp.take 8 <;> simp [h1, h2]

end Bee2V.C04

/-
C04 — root of the property theorems (docs/C04.md lists them): imports every Props file of the area and
states the exact acceptance condition of the explicit confirmation steps.
-/
import Bee2V.C04.Model
import Bee2V.C04.PropsReject
import Bee2V.C04.PropsBmqv
import Bee2V.C04.PropsBsts
import Bee2V.C04.PropsBpace
import Bee2V.C04.PropsBauth
import Bee2V.C04.PropsTamperBmqv
import Bee2V.C04.PropsTamperBsts
import Bee2V.C04.PropsTamperBpace
import Bee2V.C04.PropsTamperBauth
import Bee2V.C04.PropsDrv
import Bee2V.C04.PropsDrv2
import Bee2V.C04.PropsBelt
import Bee2V.C04.Toy
namespace Bee2V.C04
open Bee2V.Gen.C04Err
open Bee2V.C02 (Bytes zeros)
variable {G : Type}

/-- bakeBMQVStep5 succeeds exactly when B's confirmation is switched on and the received tag is the
MAC of 1^128 under K1 -/
theorem bmqvStep5_ok_iff (E : Env G) (s : BmqvSt) (inp : Bytes) :
    (∃ s', bmqvStep5 E s inp = .ok s') ↔ s.set.kcb ≠ 0 ∧ E.mac s.k1 (ones 16) = inp.take 8 := by
  unfold bmqvStep5
  by_cases h1 : s.set.kcb = 0 <;> by_cases h2 : E.mac s.k1 (ones 16) = inp.take 8 <;> simp [h1, h2]

/-- bakeBPACEStep6 succeeds exactly when A's confirmation is switched on and the received tag is the MAC of 0^128 under K1 -/
theorem bpaceStep6_ok_iff (E : Env G) (s : BpaceSt G) (inp : Bytes) :
    (∃ s', bpaceStep6 E s inp = .ok s') ↔ s.set.kca ≠ 0 ∧ E.mac s.k1 (zeros 16) = inp.take 8 := by
  unfold bpaceStep6
  by_cases h1 : s.set.kca = 0 <;> by_cases h2 : E.mac s.k1 (zeros 16) = inp.take 8 <;> simp [h1, h2]

/-- the confirmation steps that the flags switch off answer ERR_BAD_LOGIC -/
theorem confirm_off_badLogic (E : Env G) (sm : BmqvSt) (sp : BpaceSt G) (st : BauthTSt G) (inp : Bytes) :
    (sm.set.kcb = 0 → bmqvStep5 E sm inp = .error ERR_BAD_LOGIC) ∧
    (sp.set.kca = 0 → bpaceStep6 E sp inp = .error ERR_BAD_LOGIC) ∧
    (st.set.kcb = 0 → bauthTStep5 E st inp = .error ERR_BAD_LOGIC) := by
  refine ⟨fun h => ?_, fun h => ?_, fun h => ?_⟩
  · simp [bmqvStep5, h]
  · simp [bpaceStep6, h]
  · simp [bauthTStep5, h]

end Bee2V.C04

/-
C04 — BSTS under an active adversary: what the acceptance of Step4 / Step5 means (the MAC on the encrypted
part verified, the decrypted scalar is reduced, the decrypted certificate validated and
s·G + (2^l + t)·Q recomputes BOTH coordinates of the received one-time public key), and the tamper
theorem: all messages replaced by arbitrary octets, all steps succeed, equal keys ⇒ an explicit collision
of KRP or belt-hash, or the two Diffie–Hellman secrets have the same x-coordinate.
-/
import Bee2V.C04.Lemmas
namespace Bee2V.C04
open Bee2V.C02 (Bytes leNat natLE zeros Ctx tapeRead randNZMod loadPub encXY hashL subMod)
open Bee2V.Gen.C04Err
variable {G : Type} [AddCommGroup G] {E : Env G}

/-! ### what a successful step tells -/

omit [AddCommGroup G] in
theorem tbsts_start_inv {set : Settings} {priv cert tape : Bytes} {s : BstsSt G}
    (h : bstsStart E set priv cert tape = .ok s) :
    (set.kca = 1 ∧ set.kcb = 1) ∧ s.set = set ∧ s.d = leNat priv ∧ s.cert = cert := by
  unfold bstsStart at h
  split at h
  · cases h
  · rename_i hc
    split at h
    · cases h
    · cases h
      exact ⟨by omega, rfl, rfl, rfl⟩

omit [AddCommGroup G] in
theorem tbsts_step2_inv {s s' : BstsSt G} {m : Bytes} (h : bstsStep2 E s = .ok (s', m)) :
    s'.set = s.set ∧ s'.d = s.d ∧ s'.cert = s.cert ∧ m = encXY E.C s'.vb ∧ E.xy (E.smul s'.u E.base) = some s'.vb := by
  unfold bstsStep2 at h
  split at h
  · cases h
  · rename_i rest u V hE
    simp only [Except.ok.injEq, Prod.mk.injEq] at h
    obtain ⟨rfl, rfl⟩ := h
    refine ⟨rfl, rfl, rfl, rfl, ?_⟩
    unfold ephem at hE
    split at hE
    · cases hE
    · split at hE
      · cases hE
      · rename_i u' rest' hr V' hV
        simp only [Except.ok.injEq, Prod.mk.injEq] at hE
        obtain ⟨_, rfl, rfl⟩ := hE
        exact hV

omit [AddCommGroup G] in
/-- Step3 (A) succeeded on inp: inp is a point Vb', the Diffie–Hellman point u·Vb' is affine, the keys come from
its x-coordinate and the hellos, and A keeps t (with the top bit) and the received coordinates for Step5 -/
theorem tbsts_step3_inv {s s' : BstsSt G} {inp out : Bytes} (h : bstsStep3 E s inp = .ok (s', out)) :
    ∃ Vb K, loadPub E.C inp = some Vb ∧ E.xy (E.smul s'.u Vb) = some K ∧
      s'.k0 = (bstsKeys E s.set K.1).1 ∧ s'.k1 = (bstsKeys E s.set K.1).2.1 ∧ s'.k2 = (bstsKeys E s.set K.1).2.2 ∧
      s'.t = hashT E (out.take E.no) (inp.take E.no) + 2 ^ E.l ∧
      s'.vb = (leNat (inp.take E.no), leNat (inp.drop E.no)) ∧ s'.vbP = Vb ∧ s'.set = s.set ∧ s'.d = s.d := by
  unfold bstsStep3 at h
  split at h
  · cases h
  · rename_i Vb hVb
    split at h
    · cases h
    · rename_i rest u Va hE
      simp only at h
      split at h
      · cases h
      · rename_i K hK
        simp only [Except.ok.injEq, Prod.mk.injEq] at h
        obtain ⟨rfl, rfl⟩ := h
        have hlen : (encXY E.C Va).length = 2 * E.no := Bee2V.C02.encXY_length E.C Va
        refine ⟨Vb, K, hVb, hK, rfl, rfl, rfl, ?_, rfl, rfl, rfl, rfl⟩
        rw [List.append_assoc, List.take_append_of_le_length (by rw [hlen]; omega)]

/-- BSTS: what acceptance means: Step4 succeeded ⇒ the received Va' (BOTH coordinates) satisfies sa'·G + (2^l + t)·Qa' = Va' for the
sa' < q and the certificate decrypted from M2' (which validated), and the MAC on the encrypted part verified under B's K1 -/
theorem bstsStep4_accept (_L : Laws E) (s s' : BstsSt G) (inp out : Bytes) (h : bstsStep4 E s inp = .ok (s', out)) :
    3 * E.no + 8 < inp.length ∧
    ∃ Va K Qa, loadPub E.C (inp.take (2 * E.no)) = some Va ∧ E.xy (E.smul s.u Va) = some K ∧
      let ks := bstsKeys E s.set K.1
      let ya := (inp.drop (2 * E.no)).take (inp.length - 2 * E.no - 8)
      let pa := E.cfbD ks.2.2 (zeros 16) ya
      E.mac ks.2.1 (ya ++ zeros 16) = inp.drop (inp.length - 8) ∧ leNat (pa.take E.no) < E.q ∧ certPub E (pa.drop E.no) = .ok Qa ∧
      addMul E (leNat (pa.take E.no)) Qa (hashT E (inp.take E.no) (natLE E.no s.vb.1) + 2 ^ E.l)
        = some (leNat (inp.take E.no), leNat ((inp.drop E.no).take E.no)) ∧
      s'.k0 = ks.1 := by
  unfold bstsStep4 at h
  simp only at h
  split at h
  · cases h
  · rename_i hlen
    split at h
    · cases h
    · rename_i Va hVa
      split at h
      · cases h
      · rename_i K hK
        split at h
        · cases h
        · rename_i hmac
          split at h
          · cases h
          · rename_i hsq
            split at h
            · cases h
            · rename_i Qa hQa
              split at h
              · cases h
              · rename_i R hR
                split at h
                · cases h
                · rename_i hRe
                  simp only [Except.ok.injEq, Prod.mk.injEq] at h
                  obtain ⟨rfl, _⟩ := h
                  refine ⟨by omega, Va, K, Qa, hVa, hK, ?_⟩
                  simp only
                  refine ⟨not_not.mp hmac, by omega, hQa, ?_, trivial⟩
                  rw [hR, not_not.mp hRe]

/-- same for Step5 (A): the state is unchanged, the MAC on the encrypted part verified under A's K1, sb' < q, the decrypted
certificate validated, sb'·G + s.t·Qb' = the Vb' that A received in Step3 (both coordinates: `s.vb`, `s.t` as
`tbsts_step3_inv` describes them) -/
theorem bstsStep5_accept (_L : Laws E) (s s' : BstsSt G) (inp : Bytes) (h : bstsStep5 E s inp = .ok s') :
    E.no + 8 < inp.length ∧ s' = s ∧
    ∃ Qb,
      let yb := inp.take (inp.length - 8)
      let pb := E.cfbD s.k2 (ones 16) yb
      E.mac s.k1 (yb ++ ones 16) = inp.drop (inp.length - 8) ∧ leNat (pb.take E.no) < E.q ∧
      certPub E (pb.drop E.no) = .ok Qb ∧ addMul E (leNat (pb.take E.no)) Qb s.t = some s.vb := by
  unfold bstsStep5 at h
  simp only at h
  split at h
  · cases h
  · rename_i hlen
    split at h
    · cases h
    · rename_i hmac
      split at h
      · cases h
      · rename_i hsq
        split at h
        · cases h
        · rename_i Qb hQb
          split at h
          · cases h
          · rename_i R hR
            split at h
            · cases h
            · rename_i hRe
              simp only [Except.ok.injEq] at h
              refine ⟨by omega, h.symm, Qb, ?_⟩
              simp only
              refine ⟨not_not.mp hmac, by omega, hQb, ?_⟩
              rw [hR, not_not.mp hRe]

/-! ### the tamper theorems -/

/-- BSTS: acceptance + equal keys ⇒ collision, or the two Diffie–Hellman secrets ua·Vb' and ub·Va' have the same x-coordinate -/
theorem tamper_bsts (L : Laws E) (set : Settings) (ka kb ca cb ta tb m1' m2' m3' : Bytes)
    {sa0 sb0 sb1 sa1 sb2 sa2 : BstsSt G} {m1 m2 m3 : Bytes}
    (ha0 : bstsStart E set ka ca ta = .ok sa0) (hb0 : bstsStart E set kb cb tb = .ok sb0)
    (h2 : bstsStep2 E sb0 = .ok (sb1, m1)) (h3 : bstsStep3 E sa0 m1' = .ok (sa1, m2))
    (h4 : bstsStep4 E sb1 m2' = .ok (sb2, m3)) (h5 : bstsStep5 E sa1 m3' = .ok sa2)
    (hk : bstsStepG sa2 = bstsStepG sb2) :
    Collision (fun Y => E.krp Y 0) ∨ Collision E.hash ∨
      ∃ Vb' Va' Ka Kb, loadPub E.C m1' = some Vb' ∧ loadPub E.C (m2'.take (2 * E.no)) = some Va' ∧
        E.xy (E.smul sa1.u Vb') = some Ka ∧ E.xy (E.smul sb1.u Va') = some Kb ∧ Ka.1 = Kb.1 := by
  obtain ⟨_, hsa, _, _⟩ := tbsts_start_inv ha0
  obtain ⟨_, hsb, _, _⟩ := tbsts_start_inv hb0
  obtain ⟨e1, _, _, _, _⟩ := tbsts_step2_inv h2
  obtain ⟨Vb', Ka, hVb, hKa, hk0A, _⟩ := tbsts_step3_inv h3
  obtain ⟨_, Va', Kb, Qa, hVa, hKb, hrest⟩ := bstsStep4_accept L _ _ _ _ h4
  have hk0B : sb2.k0 = (bstsKeys E sb1.set Kb.1).1 := hrest.2.2.2.2
  obtain ⟨_, e5, _⟩ := bstsStep5_accept L _ _ _ h5
  rw [e1, hsb] at hk0B
  rw [hsa] at hk0A
  unfold bstsStepG at hk
  rw [e5, hk0A, hk0B] at hk
  unfold bstsKeys at hk
  simp only at hk
  rcases eq_or_collision (fun Y => E.krp Y 0) hk with hY | hc
  · rcases eq_or_collision E.hash hY with hI | hc
    · refine .inr (.inr ⟨Vb', Va', Ka, Kb, hVb, hVa, hKa, hKb, ?_⟩)
      have h1 := congrArg leNat (List.append_cancel_right hI)
      have hp := L.ctx.p_hi
      have ha := (L.ctx.xy_lt _ Ka.1 Ka.2 hKa).1
      have hb := (L.ctx.xy_lt _ Kb.1 Kb.2 hKb).1
      have hpow : 256 ^ E.no = 2 ^ (2 * E.l) := L.ctx.pow256
      rw [Bee2V.C02.leNat_natLE_of_lt (by rw [hpow]; omega),
        Bee2V.C02.leNat_natLE_of_lt (by rw [hpow]; omega)] at h1
      exact h1
    · exact .inr (.inl hc)
  · exact .inl hc

/-! ### a tag altered alone -/

omit [AddCommGroup G] in
theorem tbsts_parse_mid {v y m : Bytes} {n : Nat} (hv : v.length = 2 * n) (hm : m.length = 8) :
    ((v ++ y ++ m).drop (2 * n)).take ((v ++ y ++ m).length - 2 * n - 8) = y := by
  have hl : (v ++ y ++ m).length - 2 * n - 8 = y.length := by
    simp only [List.length_append, hv, hm]; omega
  rw [hl, List.append_assoc, List.drop_left' hv, List.take_left' rfl]

omit [AddCommGroup G] in
theorem tbsts_parse_last {w m : Bytes} (hm : m.length = 8) : (w ++ m).drop ((w ++ m).length - 8) = m := by
  have hl : (w ++ m).length - 8 = w.length := by
    simp only [List.length_append, hm]; omega
  rw [hl, List.drop_left' rfl]

omit [AddCommGroup G] in
/-- M2 = <Va>_4l ‖ Ya ‖ Ta with the tag replaced by 8 other octets while the point and the encrypted part are
kept: B, whose MAC key K1 is the one A used (`hk1`), answers ERR_AUTH (the MAC is deterministic) -/
theorem bsts_tag_alone_rejected (s : BstsSt G) (va ya ta' k1A : Bytes) {Va : G} {K : Nat × Nat}
    (hva : va.length = 2 * E.no) (hya : E.no < ya.length) (hta : ta'.length = 8)
    (hVa : loadPub E.C va = some Va) (hK : E.xy (E.smul s.u Va) = some K)
    (hk1 : (bstsKeys E s.set K.1).2.1 = k1A) (hne : ta' ≠ E.mac k1A (ya ++ zeros 16)) :
    bstsStep4 E s (va ++ ya ++ ta') = .error ERR_AUTH := by
  have h1 : ¬ (va ++ ya ++ ta').length ≤ 3 * E.no + 8 := by
    simp only [List.length_append, hva, hta]; omega
  have h2 : (va ++ ya ++ ta').take (2 * E.no) = va := by
    rw [List.append_assoc, List.take_left' hva]
  have h5 := tbsts_parse_mid (y := ya) hva hta
  have h6 := tbsts_parse_last (w := va ++ ya) hta
  have hne' : ¬ E.mac k1A (ya ++ zeros 16) = ta' := fun e => hne e.symm
  unfold bstsStep4
  simp only [h1, h2, h5, h6, hVa, hK, hk1, ne_eq, hne', not_false_eq_true, ↓reduceIte]

end Bee2V.C04

import Bee2V.C11.Math
import Bee2V.Base.Proto
/-
C11 driver, math-header ops: the arena is viewed as 64-bit little-endian words (word address = octet
offset / 8); C05's word-memory programs (Bee2V/C05/ModelAlias.lean) and the six of Bee2V/C11/Math.lean run
on it; the arena is printed back as octets.  Default build = SAFE editions.
-/
namespace Bee2V.C11.DrvMath
open Bee2V.Proto Bee2V.C05 Bee2V.C05.Alias Bee2V.C11.Math

def W : Nat := 64

def wordsOf (a : Array UInt8) : Mem := fun j =>
  (List.range 8).foldr (fun i acc => (a.getD (8 * j + i) 0).toNat + 256 * acc) 0

def dumpW (m : Mem) (nbytes : Nat) : String :=
  toHex ((List.range (nbytes / 8)).foldr (fun j acc => natLE 8 (m j) ++ acc) [])

def pA (s : String) : Option Nat := do
  let v ← parseNat s
  if v % 8 = 0 then some (v / 8) else none

def op (fn : String) (arena : Array UInt8) (args : List String) : Option String := do
  if arena.size % 8 != 0 then none
  let m := wordsOf arena
  let nb := arena.size
  let outV (r : Mem) : String := s!"- {dumpW r nb}"
  let outW (r : Mem × Nat) : String := s!"{r.2} {dumpW r.1 nb}"
  match fn, args with
  | "wwCopy", [b, a, n] => pure (outV (wwCopyMem (← pA b) (← pA a) (← parseNat n) m))
  | "wwXor", [c, a, b, n] => pure (outV (wwXorMem (← pA c) (← pA a) (← pA b) (← parseNat n) m))
  | "wwXor2", [b, a, n] => pure (outV (wwXor2Mem (← pA b) (← pA a) (← parseNat n) m))
  | "zzAdd", [c, a, b, n] => pure (outW (zzAddMem W (← pA c) (← pA a) (← pA b) (← parseNat n) m))
  | "zzSub", [c, a, b, n] => pure (outW (zzSubMem W (← pA c) (← pA a) (← pA b) (← parseNat n) m))
  | "zzAdd2", [b, a, n] => pure (outW (zzAdd2Mem W (← pA b) (← pA a) (← parseNat n) m))
  | "zzSub2", [b, a, n] => pure (outW (zzSub2Mem W (← pA b) (← pA a) (← parseNat n) m))
  | "zzAdd3", [c, a, n, b, k] => pure (outW (zzAdd3Mem W (← pA c) (← pA a) (← parseNat n) (← pA b) (← parseNat k) m))
  | "zzAddW", [b, a, n, x] => pure (outW (zzAddWMem W (← pA b) (← pA a) (← parseNat n) (← parseNat x) m))
  | "zzSubW", [b, a, n, x] => pure (outW (zzSubWMem W (← pA b) (← pA a) (← parseNat n) (← parseNat x) m))
  | "zzNeg", [b, a, n] => pure (outV (zzNegMem W (← pA b) (← pA a) (← parseNat n) m))
  | "zzMulW", [b, a, n, x] => pure (outW (zzMulWMem W (← pA b) (← pA a) (← parseNat n) (← parseNat x) m))
  | "zzAddMulW", [b, a, n, x] => pure (outW (zzAddMulWMem W (← pA b) (← pA a) (← parseNat n) (← parseNat x) m))
  | "zzSubMulW", [b, a, n, x] => pure (outW (zzSubMulWMem W (← pA b) (← pA a) (← parseNat n) (← parseNat x) m))
  | "zzDivW", [q, a, n, x] => pure (outW (zzDivWMem W (← pA q) (← pA a) (← parseNat n) (← parseNat x) m))
  | "zzAddMod", [c, a, b, md, n] =>
    pure (outV (zzAddModMem_safe W (← pA c) (← pA a) (← pA b) (← pA md) (← parseNat n) m))
  | "zzSubMod", [c, a, b, md, n] =>
    pure (outV (zzSubModMem_safe W (← pA c) (← pA a) (← pA b) (← pA md) (← parseNat n) m))
  | "zzAddWMod", [b, a, x, md, n] =>
    pure (outV (zzAddWModMem_safe W (← pA b) (← pA a) (← parseNat x) (← pA md) (← parseNat n) m))
  | "zzSubWMod", [b, a, x, md, n] =>
    pure (outV (zzSubWModMem_safe W (← pA b) (← pA a) (← parseNat x) (← pA md) (← parseNat n) m))
  | "zzNegMod", [b, a, md, n] => pure (outV (zzNegModMem_safe W (← pA b) (← pA a) (← pA md) (← parseNat n) m))
  | "zzDoubleMod", [b, a, md, n] => pure (outV (zzDoubleModMem_safe W (← pA b) (← pA a) (← pA md) (← parseNat n) m))
  | "zzHalfMod", [b, a, md, n] => pure (outV (zzHalfModMem_safe W (← pA b) (← pA a) (← pA md) (← parseNat n) m))
  | "ppMulW", [b, a, n, x] => pure (outW (ppMulWMem W (← pA b) (← pA a) (← parseNat n) (← parseNat x) m))
  | "ppAddMulW", [b, a, n, x] => pure (outW (ppAddMulWMem W (← pA b) (← pA a) (← parseNat n) (← parseNat x) m))
  | _, _ => none

def fns : List String :=
  ["wwCopy", "wwXor", "wwXor2", "zzAdd", "zzSub", "zzAdd2", "zzSub2", "zzAdd3", "zzAddW", "zzSubW", "zzNeg", "zzMulW",
   "zzAddMulW", "zzSubMulW", "zzDivW", "zzAddMod", "zzSubMod", "zzAddWMod", "zzSubWMod", "zzNegMod", "zzDoubleMod",
   "zzHalfMod", "ppMulW", "ppAddMulW"]

end Bee2V.C11.DrvMath

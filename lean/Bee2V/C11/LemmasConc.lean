import Bee2V.C11.Lemmas
/-! Helper lemmas of C11 for the concrete memory programs of der.c / belt_block.c
    (PropsConc.lean): regions after `memMove` / `memRev` / `set1` / `putSize`, the XOR words of
    `beltKeyExpand`, and the pure value functions `uintBody`, `bitBody`. -/
namespace Bee2V.C11

/-! ### regions -/

/-- a sub-region of the destination of a `memMove` holds the OLD source octets -/
theorem read_memMove_sub (m : Mem) (d s n o k : Nat) (h : o + k ≤ n) :
    read (memMove m d s n) (d + o) k = read m (s + o) k := by
  rw [read_eq_iff]
  intro i hi
  have : d ≤ d + o + i ∧ d + o + i < d + n := by omega
  simp only [memMove, this, and_self, if_true]
  congr 1; omega

theorem read_memMove_self (m : Mem) (d s n : Nat) : read (memMove m d s n) d n = read m s n := by
  have := read_memMove_sub m d s n 0 n (by omega)
  simpa using this

theorem read_set1_disj (m : Mem) (a : Nat) (v : UInt8) (b k : Nat) (h : a < b ∨ b + k ≤ a) :
    read (set1 m a v) b k = read m b k := by
  rw [read_eq_iff]
  intro i hi
  have : ¬ (b + i = a) := by omega
  simp only [set1, this, if_false]

theorem read_memRev_self (m : Mem) (a n : Nat) : read (memRev m a n) a n = (read m a n).reverse := by
  have := read_write_same m a (read m a n).reverse
  rwa [List.length_reverse, read_length] at this

theorem read_memRev_disj (m : Mem) (a n b k : Nat) (h : disj2 a n b k = true) :
    read (memRev m a n) b k = read m b k := by
  unfold memRev
  exact read_write_disj _ _ _ _ _ (by rwa [List.length_reverse, read_length])

theorem read_putSize_self (m : Mem) (a v : Nat) : read (putSize m a v) a 8 = Bee2V.Proto.natLE 8 v := by
  have := read_write_same m a (Bee2V.Proto.natLE 8 v)
  rwa [natLE_length] at this

theorem read_putSize_disj (m : Mem) (a v b k : Nat) (h : disj2 a 8 b k = true) :
    read (putSize m a v) b k = read m b k := by
  unfold putSize
  exact read_write_disj _ _ _ _ _ (by rwa [natLE_length])

theorem putSize_apply_disj (m : Mem) (a v x : Nat) (h : x < a ∨ a + 8 ≤ x) : putSize m a v x = m x := by
  have : ¬ (a ≤ x ∧ x < a + (Bee2V.Proto.natLE 8 v).length) := by rw [natLE_length]; omega
  simp only [putSize, write, this, if_false]

theorem read_congr (m m' : Mem) (a n : Nat) (h : ∀ i, i < n → m (a + i) = m' (a + i)) :
    read m a n = read m' a n := (read_eq_iff m m' a a n).2 h

/-! ### beltKeyExpand -/

theorem xorBytes_length (a b : Bytes) : (xorBytes a b).length = min a.length b.length := by
  fun_induction xorBytes a b with
  | case1 a as b bs ih => simp [ih]
  | case2 a b h =>
    cases a with
    | nil => simp
    | cons x xs => cases b with
      | nil => simp
      | cons y ys => exact (h x xs y ys rfl rfl).elim

/-- a slice of a region is the region at the shifted address -/
theorem read_drop_take (m : Mem) (a n o k : Nat) (h : o + k ≤ n) :
    ((read m a n).drop o).take k = read m (a + o) k := by
  apply List.ext_getElem
  · simp [read_length]; omega
  · intro i h1 h2
    simp only [List.getElem_take, List.getElem_drop, read_getElem]
    congr 1; omega

theorem read_take (m : Mem) (a n k : Nat) (h : k ≤ n) : (read m a n).take k = read m a k := by
  have := read_drop_take m a n 0 k (by omega)
  simpa using this

/-- two adjacent moves from adjacent sources = one move, when the first destination piece does not
    cover the second source piece -/
theorem memMove_adj (m : Mem) (d s n k : Nat) (h : d + n ≤ s + n ∨ s + n + k ≤ d) :
    memMove (memMove m d s n) (d + n) (s + n) k = memMove m d s (n + k) := by
  funext x
  simp only [memMove]
  by_cases a : d + n ≤ x ∧ x < d + n + k
  · have b : ¬ (d ≤ s + n + (x - (d + n)) ∧ s + n + (x - (d + n)) < d + n) := by omega
    have c : d ≤ x ∧ x < d + (n + k) := by omega
    simp only [a, b, c, and_self, if_true, if_false]
    congr 1; omega
  · by_cases b : d ≤ x ∧ x < d + n
    · have c : d ≤ x ∧ x < d + (n + k) := by omega
      simp only [a, b, c, and_self, if_true, if_false]
    · have c : ¬ (d ≤ x ∧ x < d + (n + k)) := by omega
      simp only [a, b, c, if_false]

/-- the key block followed by two stored words -/
theorem read_write_two (m1 : Mem) (k_ : Nat) (X1 X2 : Bytes) (h1 : X1.length = 4) (h2 : X2.length = 4) :
    read (write (write m1 (k_ + 24) X1) (k_ + 28) X2) k_ 32 = read m1 k_ 24 ++ X1 ++ X2 := by
  rw [show (32 : Nat) = 24 + 4 + 4 from rfl, read_append, read_append]
  congr 1
  · congr 1
    · rw [read_write_disj _ _ _ _ _ (by rw [disj2_iff]; omega),
        read_write_disj _ _ _ _ _ (by rw [disj2_iff]; omega)]
    · rw [read_write_disj _ _ _ _ _ (by rw [disj2_iff]; omega)]
      have := read_write_same m1 (k_ + 24) X1
      rwa [h1] at this
  · have := read_write_same (write m1 (k_ + 24) X1) (k_ + 28) X2
    rwa [h2] at this

theorem keyExpand2_16 (m : Mem) (key_ key : Nat) : keyExpand2 m key_ key 16 = keyExpand m key_ key 16 := by
  simp only [keyExpand2, keyExpand, if_true, ← memMove_eq_write]
  have e1 := memMove_adj (memMove m key_ key 16) (key_ + 16) key_ 4 4 (by omega)
  have e2 := memMove_adj (memMove m key_ key 16) (key_ + 16) key_ (4 + 4) 4 (by omega)
  have e3 := memMove_adj (memMove m key_ key 16) (key_ + 16) key_ (4 + 4 + 4) 4 (by omega)
  rw [show key_ + 20 = key_ + 16 + 4 from rfl, e1,
    show key_ + 24 = key_ + 16 + (4 + 4) from rfl, show key_ + 8 = key_ + (4 + 4) from rfl, e2,
    show key_ + 28 = key_ + 16 + (4 + 4 + 4) from rfl, show key_ + 12 = key_ + (4 + 4 + 4) from rfl, e3]

theorem keyExpand_16 (m : Mem) (key_ key : Nat) :
    read (keyExpand m key_ key 16) key_ 32 = keyExpandPure (read m key 16) := by
  simp only [keyExpand, keyExpandPure, read_length, if_true]
  rw [show (32 : Nat) = 16 + 16 from rfl, read_append]
  congr 1
  · rw [read_memMove_disj _ _ _ _ _ _ (by rw [disj2_iff]; omega)]; exact read_memMove_self _ _ _ _
  · rw [read_memMove_self]; exact read_memMove_self _ _ _ _

theorem keyExpand_32 (m : Mem) (key_ key : Nat) :
    read (keyExpand m key_ key 32) key_ 32 = keyExpandPure (read m key 32) := by
  simp [keyExpand, keyExpandPure, read_length, read_memMove_self]

theorem keyExpand2_32 (m : Mem) (key_ key : Nat) : keyExpand2 m key_ key 32 = keyExpand m key_ key 32 := by
  simp [keyExpand2, keyExpand]

/-- the words `w[i]` of the moved key are slices of the OLD key -/
theorem keyWord (m : Mem) (key_ key i : Nat) (h : i < 6) :
    read (memMove m key_ key 24) (key_ + 4 * i) 4 = ((read m key 24).drop (4 * i)).take 4 := by
  rw [read_memMove_sub _ _ _ _ _ _ (by omega), read_drop_take _ _ _ _ _ (by omega)]

theorem keyExpand_24 (m : Mem) (key_ key : Nat) :
    read (keyExpand m key_ key 24) key_ 32 = keyExpandPure (read m key 24) := by
  have e : ¬ ((24 : Nat) = 16) := by decide
  simp only [keyExpand, keyExpandPure, read_length, e, if_true, if_false]
  rw [read_write_two _ _ _ _ (by simp [xorBytes_length, read_length]) (by simp [xorBytes_length, read_length]),
    read_memMove_self]
  rw [keyWord _ _ _ 0 (by omega), keyWord _ _ _ 1 (by omega), keyWord _ _ _ 2 (by omega),
    keyWord _ _ _ 3 (by omega), keyWord _ _ _ 4 (by omega), keyWord _ _ _ 5 (by omega)]
  rfl

theorem keyExpand2_24 (m : Mem) (key_ key : Nat) : keyExpand2 m key_ key 24 = keyExpand m key_ key 24 := by
  have e : ¬ ((24 : Nat) = 16) := by decide
  simp only [keyExpand2, keyExpand, e, if_true, if_false]
  have hx : ∀ X : Bytes, X.length = 4 → ∀ i, i < 6 →
      read (write (memMove m key_ key 24) (key_ + 24) X) (key_ + 4 * i) 4 =
        read (memMove m key_ key 24) (key_ + 4 * i) 4 := by
    intro X hX i hi
    exact read_write_disj _ _ _ _ _ (by rw [disj2_iff]; omega)
  rw [hx _ (by simp [xorBytes_length, read_length]) 3 (by omega),
    hx _ (by simp [xorBytes_length, read_length]) 4 (by omega),
    hx _ (by simp [xorBytes_length, read_length]) 5 (by omega)]

/-! ### derTUINTEnc -/

/-- drop leading zero octets of a big-endian number, keeping at least one octet -/
def dropLeadZ : Bytes → Bytes
  | a :: b :: bs => if a = 0 then dropLeadZ (b :: bs) else a :: b :: bs
  | l => l

/-- the V octets of an unsigned INTEGER whose value is the little-endian number `v`: trailing (most
    significant) zero octets stripped down to at least one octet, reversed to big-endian, and a zero octet
    in front when the leading octet has bit 7 set -/
def uintBody (v : Bytes) : Bytes :=
  let b := dropLeadZ v.reverse
  if b.headD 0 &&& 128 != 0 then 0 :: b else b

theorem read_succ (m : Mem) (a n : Nat) : read m a (n + 1) = read m a n ++ [m (a + n)] := by
  rw [read_append]; simp [read]

theorem read_reverse_succ (m : Mem) (a n : Nat) :
    (read m a (n + 1)).reverse = m (a + n) :: (read m a n).reverse := by
  rw [read_succ]; simp

theorem stripLen_pos (m : Mem) (val n : Nat) (h : 0 < n) : 0 < stripLen m val n := by
  induction n with
  | zero => omega
  | succ n ih =>
    rw [stripLen]
    split
    · next hc => exact ih (by omega)
    · omega

theorem stripLen_le (m : Mem) (val n : Nat) : stripLen m val n ≤ n := by
  induction n with
  | zero => simp [stripLen]
  | succ n ih =>
    rw [stripLen]
    split
    · omega
    · omega

/-- the loop `while (len > 1 && val[len - 1] == 0) --len` = dropping the leading zeros of the
    big-endian number -/
theorem stripLen_spec (m : Mem) (val n : Nat) :
    (read m val (stripLen m val n)).reverse = dropLeadZ (read m val n).reverse := by
  induction n with
  | zero => simp [stripLen, read, dropLeadZ]
  | succ n ih =>
    rw [stripLen]
    by_cases h : n + 1 > 1 ∧ m (val + n) = 0
    · rw [if_pos h, ih]
      obtain ⟨k, rfl⟩ : ∃ k, n = k + 1 := ⟨n - 1, by omega⟩
      rw [read_reverse_succ m val (k + 1), read_reverse_succ m val k, dropLeadZ, if_pos h.2]
    · rw [if_neg h]
      cases n with
      | zero => simp [read, dropLeadZ]
      | succ k =>
        have h0 : ¬ (m (val + (k + 1)) = 0) := fun e => h ⟨by omega, e⟩
        rw [read_reverse_succ m val (k + 1), read_reverse_succ m val k, dropLeadZ, if_neg h0]

theorem headD_read_reverse (m : Mem) (a n : Nat) (h : 0 < n) :
    (read m a n).reverse.headD 0 = m (a + n - 1) := by
  obtain ⟨k, rfl⟩ : ∃ k, n = k + 1 := ⟨n - 1, by omega⟩
  rw [read_reverse_succ]
  simp only [List.headD_cons]
  congr 1

/-- the value octets the encoder must produce, in terms of the variables of the code -/
theorem uintBody_read (m : Mem) (val len : Nat) (h : 0 < len) :
    uintBody (read m val len) =
      (if m (val + stripLen m val len - 1) &&& 128 != 0 then [0] else []) ++
        (read m val (stripLen m val len)).reverse := by
  unfold uintBody
  simp only []
  rw [← stripLen_spec, headD_read_reverse _ _ _ (stripLen_pos m val len h)]
  split <;> simp

/-- V is produced in place: move, optional zero octet, reverse; TL is written last -/
theorem uintEnc_core (m : Mem) (der val L ex : Nat) (tl : Bytes) :
    read (write (memRev (if ex = 1 then set1 (memMove m (der + tl.length) val L) (der + tl.length + L) 0
        else memMove m (der + tl.length) val L) (der + tl.length) (L + (if ex = 1 then 1 else 0))) der tl) der
      (tl.length + (L + (if ex = 1 then 1 else 0))) =
    tl ++ ((if ex = 1 then [0] else []) ++ (read m val L).reverse) := by
  rw [read_append]
  congr 1
  · exact read_write_same _ _ _
  · rw [read_write_disj _ _ _ _ _ (by rw [disj2_iff]; omega), read_memRev_self]
    by_cases he : ex = 1
    · simp only [he, if_true]
      rw [read_succ, read_set1_disj _ _ _ _ _ (by omega), read_memMove_self]
      simp [set1]
    · simp only [he, if_false, Nat.add_zero, List.nil_append]
      rw [read_memMove_self]

/-! ### derTBITEnc -/

/-- the V octets of a BIT STRING of `len` bits held in the octets `v` (`(len + 7) / 8` of them): the
    pad-count octet, then the octets, the low `8 - len % 8` bits of the last one (index `len / 8`)
    cleared when `len % 8 ≠ 0` -/
def bitBody (len : Nat) (v : Bytes) : Bytes :=
  if len % 8 != 0 then
    let sh := UInt8.ofNat (8 - len % 8)
    sh :: v.modify (len / 8) (fun b => (b >>> sh) <<< sh)
  else 0 :: v

theorem read_one_add (m : Mem) (a n : Nat) : read m a (1 + n) = m a :: read m (a + 1) n := by
  rw [read_append]; simp [read]

/-- rewriting one octet of a region in place -/
theorem read_set1_modify (m : Mem) (b n j : Nat) (f : UInt8 → UInt8) :
    read (set1 m (b + j) (f (m (b + j)))) b n = (read m b n).modify j f := by
  apply List.ext_getElem
  · simp [read_length]
  · intro i h1 h2
    rw [List.getElem_modify]
    simp only [read_getElem, set1]
    by_cases e : j = i
    · subst e; simp
    · have : ¬ (b + i = b + j) := by omega
      simp only [this, e, if_false]

/-- V of the BIT STRING is produced in place after the move; TL is written last -/
theorem bitEnc_core (m : Mem) (der val len : Nat) (tl : Bytes) :
    read (derTBITEnc m der val len tl) der (tl.length + (1 + (len + 7) / 8)) =
      tl ++ bitBody len (read m val ((len + 7) / 8)) := by
  rw [read_append]
  congr 1
  · exact read_write_same _ _ _
  · simp only [derTBITEnc]
    rw [read_write_disj _ _ _ _ _ (by rw [disj2_iff]; omega), read_one_add]
    by_cases c : (len % 8 != 0) = true
    · simp only [c, if_true, bitBody]
      rw [read_set1_disj _ _ _ _ _ (by omega)]
      rw [read_set1_modify (memMove m (der + tl.length + 1) val ((len + 7) / 8)) (der + tl.length + 1)
        ((len + 7) / 8) (len / 8)
        (fun b => (b >>> UInt8.ofNat (8 - len % 8)) <<< UInt8.ofNat (8 - len % 8)),
        read_memMove_self]
      simp [set1]
    · simp only [c, Bool.false_eq_true, if_false, bitBody]
      rw [read_set1_disj _ _ _ _ _ (by omega), read_memMove_self]
      simp [set1]

end Bee2V.C11

import Bee2V.C11.LemmasMath
/-
C11 — math headers (ww.h, zz.h, pp.h): "the output buffer either coincides with or is disjoint from each
input".  18 functions are proved in Bee2V/C05/PropsAlias.lean (named in `Bee2V.C11.covered`); the
remaining ones here, on the same word-addressed memory, for every base address and length.
-/
namespace Bee2V.C11.Math
open Bee2V.C05 Bee2V.C05.Alias

/-- ww.h `wwXor` ("Буфер c либо не пересекается, либо совпадает с каждым из буферов a, b"): every word of c
    is the XOR of the ORIGINAL words of a and b; nothing else changes.  (a, b may overlap each other freely.) -/
theorem wwXor_alias (c a b n : Nat) (m : Mem) (ha : SameOrDisj c a n) (hb : SameOrDisj c b n) :
    (∀ i, i < n → wwXorMem c a b n m (c + i) = m (a + i) ^^^ m (b + i)) ∧
    ∀ j, (j < c ∨ c + n ≤ j) → wwXorMem c a b n m j = m j := by
  constructor
  · intro i hi
    have : c ≤ c + i ∧ c + i < c + n := by omega
    simp only [wwXorMem, elem2Desc_apply _ _ _ _ _ _ _ ha hb, this, and_self, if_true]
    congr 2 <;> omega
  · intro j hj
    have : ¬ (c ≤ j ∧ j < c + n) := by omega
    simp only [wwXorMem, elem2Desc_apply _ _ _ _ _ _ _ ha hb, this, if_false]

example : wwXorMem 0 0 0 3 (ofList [5, 6, 7] 0) 1 = 0 ∧ wwXorMem 0 0 3 2 (ofList [5, 6, 7, 1, 2] 0) 1 = 4 := by decide

/-- ww.h `wwXor2` (b ^= a, b the same as or disjoint from a) -/
theorem wwXor2_alias (b a n : Nat) (m : Mem) (h : SameOrDisj b a n) :
    (∀ i, i < n → wwXor2Mem b a n m (b + i) = m (b + i) ^^^ m (a + i)) ∧
    ∀ j, (j < b ∨ b + n ≤ j) → wwXor2Mem b a n m j = m j :=
  wwXor_alias b b a n m (Or.inl rfl) h

example : SameOrDisj 0 0 3 ∧ SameOrDisj 0 3 3 := by decide

/-- ww.h `wwCopy` (b the same as or disjoint from a) -/
theorem wwCopy_alias (b a n : Nat) (m : Mem) (h : SameOrDisj b a n) :
    (∀ i, i < n → wwCopyMem b a n m (b + i) = m (a + i)) ∧
    ∀ j, (j < b ∨ b + n ≤ j) → wwCopyMem b a n m j = m j := by
  constructor
  · intro i hi
    have : b ≤ b + i ∧ b + i < b + n := by omega
    simp only [wwCopyMem, elem2Desc_apply _ _ _ _ _ _ _ h h, this, and_self, if_true]
    congr 1; omega
  · intro j hj
    have : ¬ (b ≤ j ∧ j < b + n) := by omega
    simp only [wwCopyMem, elem2Desc_apply _ _ _ _ _ _ _ h h, this, if_false]

/-- the hypothesis matters: a descending copy one word DOWN over itself smears the top word -/
example : wwCopyMem 0 1 3 (ofList [1, 2, 3, 4] 0) 1 ≠ 3 ∧ ¬ SameOrDisj 0 1 3 := by decide

/-- pp.h `ppMulW` (b the same as or disjoint from a): b and the carry word are C05's list function of the
    ORIGINAL a -/
theorem ppMulW_alias (w b a n x : Nat) (m : Mem) (h : SameOrDisj b a n) :
    readN (ppMulWMem w b a n x m).1 b n = (ppMulW w (readN m a n) x).1
    ∧ (ppMulWMem w b a n x m).2 = (ppMulW w (readN m a n) x).2
    ∧ ∀ j, (j < b ∨ b + n ≤ j) → (ppMulWMem w b a n x m).1 j = m j := by
  have := loop1_alias (ppMulWStep w x) a b n 0 m h
  rw [pure1_ppMulW] at this
  exact this

/-- pp.h `ppAddMulW` -/
theorem ppAddMulW_alias (w b a n x : Nat) (m : Mem) (h : SameOrDisj b a n) :
    readN (ppAddMulWMem w b a n x m).1 b n = (ppAddMulW w (readN m b n) (readN m a n) x).1
    ∧ (ppAddMulWMem w b a n x m).2 = (ppAddMulW w (readN m b n) (readN m a n) x).2
    ∧ ∀ j, (j < b ∨ b + n ≤ j) → (ppAddMulWMem w b a n x m).1 j = m j := by
  have := loopIO_alias (ppAddMulWStep w x) b a n 0 m h
  rw [pure2_ppAddMulW] at this
  exact this

example : readN (ppMulWMem 8 0 0 2 3 (ofList [5, 129] 0)).1 0 2 = (ppMulW 8 [5, 129] 3).1 := by decide

/-! ### zz.h zzAdd3 -/

/-- the unequal-length half of zzAdd3: `wwCopy(c + k, a + k, n - k); carry = zzAdd(c, a, b, k);
    zzAddW2(c + k, n - k, carry)` with c[n] the same as or disjoint from a[n] and from b[k] (k ≤ n) -/
theorem zzAdd3_long (w c a n b k : Nat) (m : Mem) (hk : k ≤ n)
    (ha : c = a ∨ c + n ≤ a ∨ a + n ≤ c) (hb : c = b ∨ c + n ≤ b ∨ b + k ≤ c) :
    let m1 := wwCopyMem (c + k) (a + k) (n - k) m
    let r := zzAddMem w c a b k m1
    let q := zzAddWMem w (c + k) (c + k) (n - k) r.2 r.1
    let r' := zzAdd w ((readN m a n).take k) (readN m b k)
    let r2 := zzAddW w ((readN m a n).drop k) r'.2
    readN q.1 c n = r'.1 ++ r2.1 ∧ q.2 = r2.2 ∧ ∀ j, (j < c ∨ c + n ≤ j) → q.1 j = m j := by
  intro m1 r q r' r2
  have hc := wwCopy_alias (c + k) (a + k) (n - k) m (by unfold SameOrDisj Disj; omega)
  have hadd := zzAdd_alias w c a b k m1 (by unfold SameOrDisj Disj; omega) (by unfold SameOrDisj Disj; omega)
  have haw := zzAddW_alias w (c + k) (c + k) (n - k) r.2 r.1 (Or.inl rfl)
  have e1 : readN m1 a k = readN m a k :=
    readN_congr _ _ _ _ (fun j h1 h2 => hc.2 j (by omega))
  have e2 : readN m1 b k = readN m b k :=
    readN_congr _ _ _ _ (fun j h1 h2 => hc.2 j (by omega))
  have e3 : readN r.1 (c + k) (n - k) = readN m (a + k) (n - k) := by
    have : readN m1 (c + k) (n - k) = readN m (a + k) (n - k) := readN_ext _ _ _ _ _ hc.1
    rw [← this]
    exact readN_congr _ _ _ _ (fun j h1 h2 => hadd.2.2 j (by omega))
  have hr' : r' = zzAdd w (readN m1 a k) (readN m1 b k) := by
    simp only [r', e1, e2, readN_take _ _ _ _ hk]
  have hr2 : r2 = zzAddW w (readN r.1 (c + k) (n - k)) r.2 := by
    show zzAddW w ((readN m a n).drop k) r'.2 = _
    rw [readN_drop _ _ _ _ hk, e3, hr', ← hadd.2.1]
  have hsplit := readN_append q.1 c k (n - k)
  rw [show k + (n - k) = n by omega] at hsplit
  refine ⟨?_, ?_, ?_⟩
  · rw [hsplit]
    congr 1
    · rw [readN_congr r.1 q.1 c k (fun j h1 h2 => haw.2.2 j (by omega)), hadd.1, hr']
    · rw [haw.1, hr2]
  · rw [haw.2.1, hr2]
  · intro j hj
    exact (haw.2.2 j (by omega)).trans ((hadd.2.2 j (by omega)).trans (hc.2 j (by omega)))

/-- the same with the operands of zzAdd in the other order (the `n < m` branch): `wwCopy(c + k, a + k, n - k); carry = zzAdd(c, a, b, k);
    zzAddW2(c + k, n - k, carry)` with c[n] the same as or disjoint from a[n] and from b[k] (k ≤ n) -/
theorem zzAdd3_long' (w c a n b k : Nat) (m : Mem) (hk : k ≤ n)
    (ha : c = a ∨ c + n ≤ a ∨ a + n ≤ c) (hb : c = b ∨ c + n ≤ b ∨ b + k ≤ c) :
    let m1 := wwCopyMem (c + k) (a + k) (n - k) m
    let r := zzAddMem w c b a k m1
    let q := zzAddWMem w (c + k) (c + k) (n - k) r.2 r.1
    let r' := zzAdd w (readN m b k) ((readN m a n).take k)
    let r2 := zzAddW w ((readN m a n).drop k) r'.2
    readN q.1 c n = r'.1 ++ r2.1 ∧ q.2 = r2.2 ∧ ∀ j, (j < c ∨ c + n ≤ j) → q.1 j = m j := by
  intro m1 r q r' r2
  have hc := wwCopy_alias (c + k) (a + k) (n - k) m (by unfold SameOrDisj Disj; omega)
  have hadd := zzAdd_alias w c b a k m1 (by unfold SameOrDisj Disj; omega) (by unfold SameOrDisj Disj; omega)
  have haw := zzAddW_alias w (c + k) (c + k) (n - k) r.2 r.1 (Or.inl rfl)
  have e1 : readN m1 a k = readN m a k :=
    readN_congr _ _ _ _ (fun j h1 h2 => hc.2 j (by omega))
  have e2 : readN m1 b k = readN m b k :=
    readN_congr _ _ _ _ (fun j h1 h2 => hc.2 j (by omega))
  have e3 : readN r.1 (c + k) (n - k) = readN m (a + k) (n - k) := by
    have : readN m1 (c + k) (n - k) = readN m (a + k) (n - k) := readN_ext _ _ _ _ _ hc.1
    rw [← this]
    exact readN_congr _ _ _ _ (fun j h1 h2 => hadd.2.2 j (by omega))
  have hr' : r' = zzAdd w (readN m1 b k) (readN m1 a k) := by
    simp only [r', e1, e2, readN_take _ _ _ _ hk]
  have hr2 : r2 = zzAddW w (readN r.1 (c + k) (n - k)) r.2 := by
    show zzAddW w ((readN m a n).drop k) r'.2 = _
    rw [readN_drop _ _ _ _ hk, e3, hr', ← hadd.2.1]
  have hsplit := readN_append q.1 c k (n - k)
  rw [show k + (n - k) = n by omega] at hsplit
  refine ⟨?_, ?_, ?_⟩
  · rw [hsplit]
    congr 1
    · rw [readN_congr r.1 q.1 c k (fun j h1 h2 => haw.2.2 j (by omega)), hadd.1, hr']
    · rw [haw.1, hr2]
  · rw [haw.2.1, hr2]
  · intro j hj
    exact (haw.2.2 j (by omega)).trans ((hadd.2.2 j (by omega)).trans (hc.2 j (by omega)))

/-- zz.h `zzAdd3` ("Буфер c либо не пересекается, либо совпадает с каждым из буферов a, b"; c has max(n, k)
    words): for every base address and all lengths the sum and the carry are C05's list function
    `zzAdd3` of the ORIGINAL a[n], b[k]; nothing outside c changes. -/
theorem zzAdd3_alias (w c a n b k : Nat) (m : Mem)
    (ha : c = a ∨ c + max n k ≤ a ∨ a + n ≤ c) (hb : c = b ∨ c + max n k ≤ b ∨ b + k ≤ c) :
    readN (zzAdd3Mem w c a n b k m).1 c (max n k) = (zzAdd3 w (readN m a n) (readN m b k)).1
    ∧ (zzAdd3Mem w c a n b k m).2 = (zzAdd3 w (readN m a n) (readN m b k)).2
    ∧ ∀ j, (j < c ∨ c + max n k ≤ j) → (zzAdd3Mem w c a n b k m).1 j = m j := by
  by_cases h1 : n > k
  · have hm : max n k = n := by omega
    rw [hm] at ha hb ⊢
    have := zzAdd3_long w c a n b k m (by omega) (by omega) (by omega)
    simp only [zzAdd3Mem, zzAdd3, readN_length, h1, if_true, zzAddW2]
    exact this
  · by_cases h2 : n < k
    · have hm : max n k = k := by omega
      rw [hm] at ha hb ⊢
      have := zzAdd3_long' w c b k a n m (by omega) (by omega) (by omega)
      simp only [zzAdd3Mem, zzAdd3, readN_length, h1, h2, if_true, if_false, zzAddW2]
      exact this
    · have hk : k = n := by omega
      subst hk
      have hm : max k k = k := by omega
      rw [hm] at ha hb ⊢
      simp only [zzAdd3Mem, zzAdd3, readN_length, h1, if_false]
      exact zzAdd_alias w c a b k m (by unfold SameOrDisj Disj; omega) (by unfold SameOrDisj Disj; omega)

example : readN (zzAdd3Mem 8 0 0 3 3 1 (ofList [255, 255, 1, 7] 0)).1 0 3 = (zzAdd3 8 [255, 255, 1] [7]).1 := by decide



/-! ### the 18 functions proved by C05 (Bee2V/C05/PropsAlias.lean) — referenced here: renaming or removing one of them
    makes this file fail (the names are listed in `Bee2V.C11.covered`) -/
example := @zzAdd_alias
example := @zzSub_alias
example := @zzAdd2_alias
example := @zzSub2_alias
example := @zzAddW_alias
example := @zzSubW_alias
example := @zzNeg_alias
example := @zzMulW_alias
example := @zzAddMulW_alias
example := @zzSubMulW_alias
example := @zzDivW_alias
example := And.intro @zzAddMod_safe_alias @zzAddMod_fast_alias
example := And.intro @zzSubMod_safe_alias @zzSubMod_fast_alias
example := And.intro @zzAddWMod_safe_alias @zzAddWMod_fast_alias
example := And.intro @zzSubWMod_safe_alias @zzSubWMod_fast_alias
example := And.intro @zzNegMod_safe_alias @zzNegMod_fast_alias
example := And.intro @zzDoubleMod_safe_alias @zzDoubleMod_fast_alias
example := And.intro @zzHalfMod_safe_alias @zzHalfMod_fast_alias

end Bee2V.C11.Math

import Bee2V.C11.Math
import Bee2V.C05.PropsAlias
/-
C11 — math headers (ww.h, zz.h, pp.h): "the output buffer either coincides with or is disjoint from each
input".  18 functions are proved in Bee2V/C05/PropsAlias.lean (named in `Bee2V.C11.covered`); the
remaining ones here, on the same word-addressed memory, for every base address and length.
-/
namespace Bee2V.C11.Math
open Bee2V.C05 Bee2V.C05.Alias

/-- pointwise form of the descending element-wise loop under the header's precondition -/
theorem elem2Desc_apply (f : Nat → Nat → Nat) (c a b : Nat) : ∀ (n : Nat) (m : Mem) (j : Nat),
    SameOrDisj c a n → SameOrDisj c b n →
    elem2Desc f c a b n m j = if c ≤ j ∧ j < c + n then f (m (a + (j - c))) (m (b + (j - c))) else m j := by
  intro n
  induction n with
  | zero =>
    intro m j _ _
    have : ¬ (c ≤ j ∧ j < c + 0) := by omega
    simp only [elem2Desc, this, if_false]
  | succ n ih =>
    intro m j ha hb
    have ha' : SameOrDisj c a n := by unfold SameOrDisj Disj at *; omega
    have hb' : SameOrDisj c b n := by unfold SameOrDisj Disj at *; omega
    rw [elem2Desc, ih _ _ ha' hb']
    unfold SameOrDisj Disj at ha hb
    by_cases h1 : c ≤ j ∧ j < c + n
    · have h2 : c ≤ j ∧ j < c + (n + 1) := by omega
      have ea : a + (j - c) ≠ c + n := by omega
      have eb : b + (j - c) ≠ c + n := by omega
      simp only [h1, h2, and_self, if_true, write_other _ _ _ _ ea, write_other _ _ _ _ eb]
    · by_cases h3 : j = c + n
      · have h2 : c ≤ j ∧ j < c + (n + 1) := by omega
        rw [if_neg h1, if_pos h2, h3, write_same]
        have e : c + n - c = n := by omega
        rw [e]
      · have h2 : ¬ (c ≤ j ∧ j < c + (n + 1)) := by omega
        simp only [h1, h2, if_false, write_other _ _ _ _ h3]

/-- ww.h `wwXor` ("Буфер c либо не пересекается, либо совпадает с каждым из буферов a, b"): every word of c
    is the XOR of the ORIGINAL words of a and b; nothing else changes.  (a, b may overlap each other freely.) -/
theorem wwXor_alias (c a b n : Nat) (m : Mem) (ha : SameOrDisj c a n) (hb : SameOrDisj c b n) :
    (∀ i, i < n → wwXorMem c a b n m (c + i) = m (a + i) ^^^ m (b + i)) ∧
    ∀ j, (j < c ∨ c + n ≤ j) → wwXorMem c a b n m j = m j := by
  constructor
  · intro i hi
    have : c ≤ c + i ∧ c + i < c + n := by omega
    simp only [wwXorMem, elem2Desc_apply _ _ _ _ _ _ _ ha hb, this, and_self, if_true]
    congr 2 <;> omega
  · intro j hj
    have : ¬ (c ≤ j ∧ j < c + n) := by omega
    simp only [wwXorMem, elem2Desc_apply _ _ _ _ _ _ _ ha hb, this, if_false]

example : wwXorMem 0 0 0 3 (ofList [5, 6, 7] 0) 1 = 0 ∧ wwXorMem 0 0 3 2 (ofList [5, 6, 7, 1, 2] 0) 1 = 4 := by decide

/-- ww.h `wwXor2` (b ^= a, b the same as or disjoint from a) -/
theorem wwXor2_alias (b a n : Nat) (m : Mem) (h : SameOrDisj b a n) :
    (∀ i, i < n → wwXor2Mem b a n m (b + i) = m (b + i) ^^^ m (a + i)) ∧
    ∀ j, (j < b ∨ b + n ≤ j) → wwXor2Mem b a n m j = m j :=
  wwXor_alias b b a n m (Or.inl rfl) h

example : SameOrDisj 0 0 3 ∧ SameOrDisj 0 3 3 := by decide

/-- ww.h `wwCopy` (b the same as or disjoint from a) -/
theorem wwCopy_alias (b a n : Nat) (m : Mem) (h : SameOrDisj b a n) :
    (∀ i, i < n → wwCopyMem b a n m (b + i) = m (a + i)) ∧
    ∀ j, (j < b ∨ b + n ≤ j) → wwCopyMem b a n m j = m j := by
  constructor
  · intro i hi
    have : b ≤ b + i ∧ b + i < b + n := by omega
    simp only [wwCopyMem, elem2Desc_apply _ _ _ _ _ _ _ h h, this, and_self, if_true]
    congr 1; omega
  · intro j hj
    have : ¬ (b ≤ j ∧ j < b + n) := by omega
    simp only [wwCopyMem, elem2Desc_apply _ _ _ _ _ _ _ h h, this, if_false]

/-- the hypothesis matters: a descending copy one word DOWN over itself smears the top word -/
example : wwCopyMem 0 1 3 (ofList [1, 2, 3, 4] 0) 1 ≠ 3 ∧ ¬ SameOrDisj 0 1 3 := by decide

theorem pure1_ppMulW (w x : Nat) : ∀ (l : List Nat) (c : Nat), pure1 (ppMulWStep w x) c l = ppMulWLoop w x l c := by
  intro l
  induction l with
  | nil => intro c; simp [pure1, ppMulWLoop]
  | cons a as ih => intro c; simp [pure1, ppMulWLoop, ppMulWStep, ih]

theorem pure2_ppAddMulW (w x : Nat) : ∀ (bs as : List Nat) (c : Nat),
    pure2 (ppAddMulWStep w x) c bs as = ppAddMulWLoop w x bs as c := by
  intro bs
  induction bs with
  | nil => intro as c; simp [pure2, ppAddMulWLoop]
  | cons b bs ih =>
    intro as c
    cases as with
    | nil => simp [pure2, ppAddMulWLoop]
    | cons a as => simp [pure2, ppAddMulWLoop, ppAddMulWStep, ih]

/-- pp.h `ppMulW` (b the same as or disjoint from a): b and the carry word are C05's list function of the
    ORIGINAL a -/
theorem ppMulW_alias (w b a n x : Nat) (m : Mem) (h : SameOrDisj b a n) :
    readN (ppMulWMem w b a n x m).1 b n = (ppMulW w (readN m a n) x).1
    ∧ (ppMulWMem w b a n x m).2 = (ppMulW w (readN m a n) x).2
    ∧ ∀ j, (j < b ∨ b + n ≤ j) → (ppMulWMem w b a n x m).1 j = m j := by
  have := loop1_alias (ppMulWStep w x) a b n 0 m h
  rw [pure1_ppMulW] at this
  exact this

/-- pp.h `ppAddMulW` -/
theorem ppAddMulW_alias (w b a n x : Nat) (m : Mem) (h : SameOrDisj b a n) :
    readN (ppAddMulWMem w b a n x m).1 b n = (ppAddMulW w (readN m b n) (readN m a n) x).1
    ∧ (ppAddMulWMem w b a n x m).2 = (ppAddMulW w (readN m b n) (readN m a n) x).2
    ∧ ∀ j, (j < b ∨ b + n ≤ j) → (ppAddMulWMem w b a n x m).1 j = m j := by
  have := loopIO_alias (ppAddMulWStep w x) b a n 0 m h
  rw [pure2_ppAddMulW] at this
  exact this

example : readN (ppMulWMem 8 0 0 2 3 (ofList [5, 129] 0)).1 0 2 = (ppMulW 8 [5, 129] 3).1 := by decide

end Bee2V.C11.Math

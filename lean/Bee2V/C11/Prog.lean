import Bee2V.C11.Mem
/-
C11 — the high-level functions as ORDERINGS of reads and writes over `Mem`.

The cryptographic core is abstract (`Core`): what a Start/Step function computes is a function
of the octets it has absorbed so far (the transcript: key, IV, associated data, processed
text, in the order of the C calls) and of the buffer it transforms in place.  What the model
fixes is WHEN each buffer of the caller is read and written, which is all that overlap
tolerance depends on.  The state of a high-level function is a freshly created blob, hence
disjoint from every caller buffer: it is the transcript and never part of `Mem`.
-/
namespace Bee2V.C11

/-- abstract cryptographic core, indexed by the name of the Step function -/
structure Core where
  /-- in-place transformation (StepE/StepD): transcript → buffer → new buffer -/
  x : String → List Bytes → Bytes → Bytes
  /-- output computed from the state alone (StepG; Start-time fields) -/
  g : String → List Bytes → Nat → Bytes
  /-- a check (StepV; header comparison) on the state and the octets read -/
  ok : String → List Bytes → Bytes → Bool

inductive Step where
  /-- the state reads `[a, a+n)` (Start reading key/iv, StepI/StepA/StepH reading data) -/
  | absorb (a n : Nat)
  /-- `memMove(d, s, n)` -/
  | move (d s n : Nat)
  /-- `memCopy(d, s, n)`: undefined on overlap -/
  | copy (d s n : Nat)
  /-- `memSetZero(d, n)` -/
  | zero (d n : Nat)
  /-- `memJoin(d, s1, n1, s2, n2)` -/
  | join (d s1 n1 s2 n2 : Nat)
  /-- in-place Step: `[d, d+n)` := x id transcript (old `[d, d+n)`); the old content joins the transcript -/
  | xform (id : String) (d n : Nat)
  /-- StepG: `[d, d+n)` := g id transcript n -/
  | emit (id : String) (d n : Nat)
  /-- a check that reads `[a, a+n)` now; on failure `memSetZero(zd, zn)` and return `err` -/
  | guard (id : String) (a n : Nat) (err : Nat) (zd zn : Nat)
  /-- early `return err` when the (address) condition holds: argument checks of the C function -/
  | reject (cond : Bool) (err : Nat)
  /-- domain of the model: a placement for which `ok` is false is outside what the model describes (`none`) —
      used for the buffer pairs of a function whose header is silent and whose overlap is NOT tolerated by the code -/
  | domain (ok : Bool)
  deriving Repr

structure St where
  mem : Mem
  tr : List Bytes := []
  ret : Nat := 0

/-- run the steps in order; `none` = undefined behaviour (memCopy on overlapping buffers);
    a failed guard / reject stops with its error code -/
def run (c : Core) : List Step → St → Option St
  | [], s => some s
  | .absorb a n :: ps, s => run c ps { s with tr := s.tr ++ [read s.mem a n] }
  | .move d a n :: ps, s => run c ps { s with mem := memMove s.mem d a n }
  | .copy d a n :: ps, s =>
    match memCopy s.mem d a n with
    | some m => run c ps { s with mem := m }
    | none => none
  | .zero d n :: ps, s => run c ps { s with mem := memSet s.mem d 0 n }
  | .join d s1 n1 s2 n2 :: ps, s => run c ps { s with mem := memJoin s.mem d s1 n1 s2 n2 }
  | .xform id d n :: ps, s =>
    let old := read s.mem d n
    run c ps { s with mem := write s.mem d (c.x id s.tr old), tr := s.tr ++ [old] }
  | .emit id d n :: ps, s => run c ps { s with mem := write s.mem d (c.g id s.tr n) }
  | .guard id a n err zd zn :: ps, s =>
    if c.ok id s.tr (read s.mem a n) then run c ps s
    else some { s with mem := memSet s.mem zd 0 zn, ret := err }
  | .reject cond err :: ps, s => if cond then some { s with ret := err } else run c ps s
  | .domain ok :: ps, s => if ok then run c ps s else none

def ERR_BAD_INPUT : Nat := 109
def ERR_BAD_MAC : Nat := 511
def ERR_BAD_KEYTOKEN : Nat := 513

/-! ### The programs: one per C function, statement for statement (after the argument checks
    that do not depend on placement).  Addresses are the pointer arguments. -/

/-- belt_cbc.c/belt_cfb.c/belt_ctr.c/belt_bde.c `belt<M>Encr/Decr`, `beltCTR`:
    `Start(state, key, len, iv); memMove(dest, src, count); StepE/D(dest, count, state);` -/
def progModeIv (id : String) (dest src count key len iv : Nat) : List Step :=
  [.absorb key len, .absorb iv 16, .move dest src count, .xform id dest count]

/-- belt_ecb.c: `Start(state, key, len); memMove; Step` -/
def progModeNoIv (id : String) (dest src count key len : Nat) : List Step :=
  [.absorb key len, .move dest src count, .xform id dest count]

/-- belt_sde.c `beltSDEEncr/Decr` as FIXED (docs/C11.fix-1.diff):
    `Start(state, key, len); memCopy(iv2, iv, 16); memMove(dest, src, count); Step(dest, count, iv2, state)` -/
def progSDE (id : String) (dest src count key len iv : Nat) : List Step :=
  [.absorb key len, .absorb iv 16, .move dest src count, .xform id dest count]

/-- belt_sde.c before the fix: iv is read by the Step, after the move -/
def progSDE_old (id : String) (dest src count key len iv : Nat) : List Step :=
  [.absorb key len, .move dest src count, .absorb iv 16, .xform id dest count]

/-- belt_fmt.c `beltFMTEncr/Decr`: the header's exclusion is also an argument check:
    `iv && !memIsDisjoint2(dest, 2*count, iv, 16)` → ERR_BAD_INPUT; iv is read by the Step after the move.
    `ivNull` = null pointer passed (zero synchro value, nothing read). -/
def progFMT (id : String) (dest src count key len iv : Nat) (ivNull : Bool) : List Step :=
  [.reject (!ivNull && !disj2 dest (2 * count) iv 16) ERR_BAD_INPUT,
   .absorb key len, .move dest src (2 * count), .absorb iv (if ivNull then 0 else 16), .xform id dest (2 * count)]

/-- belt_mac.c/belt_hmac.c: `Start(key); StepA(src); StepG(mac)` -/
def progMAC (id : String) (mac src count key len macLen : Nat) : List Step :=
  [.absorb key len, .absorb src count, .emit id mac macLen]

/-- belt_hash.c / bash_hash.c: `Start; StepH(src); StepG(hash)` -/
def progHash (id : String) (hash src count hashLen : Nat) : List Step :=
  [.absorb src count, .emit id hash hashLen]

/-- belt_dwp.c/belt_che.c `Wrap`: `Start(key, iv); StepI(src2); memMove(dest, src1); StepE(dest); StepA(dest); StepG(mac)` -/
def progWrap (idx idg : String) (dest mac src1 count1 src2 count2 key len iv : Nat) : List Step :=
  [.absorb key len, .absorb iv 16, .absorb src2 count2, .move dest src1 count1, .xform idx dest count1,
   .absorb dest count1, .emit idg mac 8]

/-- belt_dwp.c/belt_che.c `Unwrap`: `Start; StepI(src2); StepA(src1); StepV(mac) else ERR_BAD_MAC; memMove(dest, src1); StepD(dest)` -/
def progUnwrap (idx idv : String) (dest src1 count1 src2 count2 mac key len iv : Nat) : List Step :=
  [.absorb key len, .absorb iv 16, .absorb src2 count2, .absorb src1 count1, .guard idv mac 8 ERR_BAD_MAC 0 0,
   .move dest src1 count1, .xform idx dest count1]

/-- belt_kwp.c `beltKWPWrap` (as fixed in /repo, 7d517b5): argument check `header && !disjoint(src, header)`,
    `Start(key); if (header) memJoin(dest, src, count, header, 16) else { memMove(dest, src, count); memSetZero(dest+count, 16) }; StepE(dest, count+16)` -/
def progKWPWrap (id : String) (dest src count header key len : Nat) (hdrNull : Bool) : List Step :=
  [.reject (!hdrNull && !disj2 src count header 16) ERR_BAD_INPUT, .absorb key len] ++
  (if hdrNull then [.move dest src count, .zero (dest + count) 16] else [.join dest src count header 16]) ++
  [.xform id dest (count + 16)]

/-- the /repo code before 7d517b5: `memMove(dest, src, count)` preceded the join (F5) -/
def progKWPWrap_old (id : String) (dest src count header key len : Nat) : List Step :=
  [.absorb key len, .move dest src count, .join dest src count header 16, .xform id dest (count + 16)]

/-- belt_kwp.c `beltKWPUnwrap` as FIXED (docs/C11.fix-2.diff): header copied (read) before the move;
    `memCopy(header2, src+count-16, 16); memMove(dest, src, count-16); StepD2(dest, header2, count)`;
    then `memEq(header1, header2)` else wipe dest and ERR_BAD_KEYTOKEN.  The xform works on the pair
    (dest, header2): header2 is in the blob, so its old content is absorbed and its new content is part
    of the state the guard sees. -/
def progKWPUnwrap (idx idv : String) (dest src count header key len : Nat) (hdrNull : Bool) : List Step :=
  [.absorb key len, .absorb header (if hdrNull then 0 else 16), .absorb (src + count - 16) 16,
   .move dest src (count - 16), .xform idx dest (count - 16),
   .guard idv 0 0 ERR_BAD_KEYTOKEN dest (count - 16)]

/-- before the fix: header is read by the comparison, after dest has been written -/
def progKWPUnwrap_old (idx idv : String) (dest src count header key len : Nat) : List Step :=
  [.absorb key len, .absorb (src + count - 16) 16,
   .move dest src (count - 16), .xform idx dest (count - 16),
   .guard idv header 16 ERR_BAD_KEYTOKEN dest (count - 16)]

/-- belt_krp.c `beltKRP`: `Start(src, n, level); StepG(dest, m, header)`: header is read by StepG before dest is written -/
def progKRP (id : String) (dest m src n level header : Nat) : List Step :=
  [.absorb level 12, .absorb src n, .absorb header 16, .emit id dest m]

def ERR_BAD_POINT : Nat := 401
def ERR_BAD_PARAMS : Nat := 502

/-- dstu.c `dstuPointCompress(xpoint, params, point)`: `qrFrom(x, point); qrFrom(y, point + no)` (both halves
    absorbed into the blob), validity/trace computed there, then `memMove(xpoint, point, no);
    xpoint[0] &= 0xFE; xpoint[0] |= tr;` (the x = 0 point, `memSetZero(xpoint)`, is the emit-only special case
    and is not generated) -/
def progDstuCompress (idx idv : String) (xpoint point no : Nat) : List Step :=
  [.absorb point (2 * no), .guard idv 0 0 ERR_BAD_POINT 0 0, .move xpoint point no, .xform idx xpoint 1]

/-- dstu.c `dstuPointRecover(point, params, xpoint)`: `qrFrom(x, xpoint)`, everything computed in the blob,
    `qrTo(point, x); qrTo(point + no, y)` at the end -/
def progDstuRecover (idg idv : String) (point xpoint no : Nat) : List Step :=
  [.absorb xpoint no, .guard idv 0 0 ERR_BAD_PARAMS 0 0, .emit idg point (2 * no)]

/-! ### High-level functions whose header is silent about overlap (bign, bign96, bels, bake, bpki, btok, dstu, g12s,
    pfok, hex, u16): the public-key functions load every input into the blob (`wwFrom`, `qrFrom`, hashing) and store
    the results last.  Generic shape: all inputs absorbed, then all outputs emitted; the (output, input) pairs that
    the code does NOT tolerate (observed on the real library, listed in xlate/x_c11_hl.py and docs/C11.md) delimit
    the domain. -/

def absorbs (ins : List (Nat × Nat)) : List Step := ins.map fun p => .absorb p.1 p.2
def emits (outs : List (String × Nat × Nat)) : List Step := outs.map fun o => .emit o.1 o.2.1 o.2.2

/-- `dom` = all not-tolerated pairs are disjoint in this placement -/
def progIO (dom : Bool) (ins : List (Nat × Nat)) (outs : List (String × Nat × Nat)) : List Step :=
  .domain dom :: (absorbs ins ++ emits outs)

/-- bign_keyt.c `bignKeyWrap` (HEAD): pubkey and the generator output are consumed first (R, theta in the blob);
    `memCopy(R + n, header, 16)` (header absorbed, or zeros); `memMove(token + no, key, len)`;
    `memCopy(token + no + len, R + n, 16)` (emit of the saved header); KWP StepE in place on `[token + no, +len + 16)`;
    finally `token[0 .. no)` := x-coordinate.  `hdrNull` = null header. -/
def progBignKeyWrap (id : String) (token key len header pubkey no : Nat) (hdrNull : Bool) : List Step :=
  [.absorb pubkey (2 * no), .absorb header (if hdrNull then 0 else 16), .move (token + no) key len,
   .emit (id ++ ".hdr") (token + no + len) 16, .xform (id ++ ".x") (token + no) (len + 16), .emit (id ++ ".R") token no]

/-- the seeded change C02-m5: `memMove(token + no, key, len); memMove(token + no + len, header, 16)` straight from the
    caller's pointer -/
def progBignKeyWrap_m5 (id : String) (token key len header pubkey no : Nat) : List Step :=
  [.absorb pubkey (2 * no), .move (token + no) key len, .move (token + no + len) header 16,
   .xform (id ++ ".x") (token + no) (len + 16), .emit (id ++ ".R") token no]

/-- bign_keyt.c `bignKeyUnwrap` as fixed by docs/C11.fix-6.diff: privkey and `token[0 .. no)` consumed; token tail and
    header saved next to the state; `memMove(key, token + no, len - no - 16)`; KWP StepD2 on (key, header2); comparison of
    the two saved headers, wipe on failure -/
def progBignKeyUnwrap (id : String) (key token len header privkey no : Nat) (hdrNull : Bool) : List Step :=
  [.absorb privkey no, .absorb token no, .absorb (token + len - 16) 16, .absorb header (if hdrNull then 0 else 16),
   .move key (token + no) (len - no - 16), .xform (id ++ ".x") key (len - no - 16),
   .guard (id ++ ".v") 0 0 ERR_BAD_KEYTOKEN key (len - no - 16)]

/-! ### State-resident placements (the state IS caller memory here) -/

/-- `belt*Start(state, key, len, …)`: first statement `beltKeyExpand2(st->key, key, len)`
    (`u32From` = `memMove` + in-place expansion of `st->key`), then the other fields are computed from
    `st->key` and the remaining arguments.  `kOff` = offset of `st->key`; `fields` = (offset, size) of the
    fields written afterwards. -/
def progStart (id : String) (state kOff key len iv ivLen : Nat) (fields : List (Nat × Nat)) : List Step :=
  [.move (state + kOff) key len, .xform (id ++ ".expand") (state + kOff) 32, .absorb iv ivLen] ++
  fields.map fun (o, n) => .emit id (state + o) n

/-- belt_krp.c `beltKRPStart` before docs/C11.fix-5.diff: level and len stored first -/
def progKRPStart_old (id : String) (state kOff key len level bOff lOff : Nat) : List Step :=
  [.absorb level 12, .emit (id ++ ".level") (state + bOff) 12, .emit (id ++ ".len") (state + lOff) 8,
   .move (state + kOff) key len, .xform (id ++ ".expand") (state + kOff) 32]

/-- `belt*StepG(mac, state)`: `StepG_internal(state)` computes `st->mac` inside the state, then
    `u32To(mac, n, st->mac)` = `memMove`; mac may lie anywhere, also inside the state -/
def progStepG (id : String) (mac n state keep mOff : Nat) : List Step :=
  [.xform id state keep, .move mac (state + mOff) n]

end Bee2V.C11

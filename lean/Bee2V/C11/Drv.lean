import Bee2V.C11.Mem
import Bee2V.C11.Prog
import Bee2V.C11.Der
import Bee2V.C11.DrvMath
import Bee2V.Base.Proto
/-
C11 driver: the same op lines as harness/c11.c.

Concrete functions (mem*, beltKeyExpand*, der*): `fn A args…` → `<ret> <arena after>` computed by
the memory models.

Abstract-core functions: `fn A args… | A' args'… | ret id=hex…`.  `A'`/`args'` is the relocation of
the same call to pairwise disjoint buffers (built by the generator and executed on the real
library first); `id=hex` are the values the real Step functions produced there.  The order
program of the function is run on both placements with a core that returns these values; if the
transcripts (everything the abstract Steps read, in order) coincide, the model predicts that the
overlapped call behaves like the disjoint one and prints the arena with the values written where
the program writes them; otherwise it prints `miss`.
-/
namespace Bee2V.C11.Drv
open Bee2V.Proto Bee2V.C11

def memOf (a : Array UInt8) : Mem := fun x => a.getD x 0

def dump (m : Mem) (n : Nat) : String := toHex (read m 0 n)

def pN (s : String) : Option Nat := parseNat s

/-- pointer token: `N` = null -/
def pP (s : String) : Option (Option Nat) := if s = "N" then some none else (parseNat s).map some

def sizeStr (n : Nat) : String := toString n

def withArena (a : String) (k : Array UInt8 → Option String) : String :=
  match parseHex a with
  | some bs => (k bs.toArray).getD "bad-op"
  | none => "bad-op"

def natsOf (ts : List String) : Option (List Nat) := ts.mapM pN

def concrete (fn : String) (arena : Array UInt8) (args : List String) : Option String := do
  let m := memOf arena
  let n := arena.size
  match fn, args with
  | "memMove", [d, s, c] => do
    let d ← pN d; let s ← pN s; let c ← pN c
    pure s!"- {dump (memMove m d s c) n}"
  | "memJoin", [d, s1, c1, s2, c2] => do
    let d ← pN d; let s1 ← pN s1; let c1 ← pN c1; let s2 ← pN s2; let c2 ← pN c2
    pure s!"- {dump (memJoin m d s1 c1 s2 c2) n}"
  | "memXor", [d, s1, s2, c] => do
    let d ← pN d; let s1 ← pN s1; let s2 ← pN s2; let c ← pN c
    pure s!"- {dump (memXor m d s1 s2 c) n}"
  | "memXor2", [d, s, c] => do
    let d ← pN d; let s ← pN s; let c ← pN c
    pure s!"- {dump (memXor2 m d s c) n}"
  | "beltKeyExpand", [d, k, l] => do
    let d ← pN d; let k ← pN k; let l ← pN l
    pure s!"- {dump (keyExpand m d k l) n}"
  | "beltKeyExpand2", [d, k, l] => do
    let d ← pN d; let k ← pN k; let l ← pN l
    pure s!"- {dump (keyExpand2 m d k l) n}"
  | "derEnc", [der, tag, val, len] => do
    let der ← pN der; let tag ← pN tag; let val ← pN val; let len ← pN len
    let tl := tlEnc tag len
    pure s!"{tl.length + len} {dump (derEnc m der val len tl) n}"
  | "derTPSTREnc", [der, tag, val] => do
    let der ← pN der; let tag ← pN tag; let val ← pN val
    -- strLen(val): the string is read (validated, measured) before anything is written
    let len := ((List.range (n - val)).find? fun i => m (val + i) == 0).getD (n - val)
    let tl := tlEnc tag len
    pure s!"{tl.length + len} {dump (derEnc m der val len tl) n}"
  | "derTUINTEnc", [der, tag, val, len] => do
    let der ← pN der; let tag ← pN tag; let val ← pN val; let len ← pN len
    let r := derTUINTEnc m der val len (tlEnc tag)
    pure s!"{r.2} {dump r.1 n}"
  | "derTBITEnc", [der, tag, val, len] => do
    let der ← pN der; let tag ← pN tag; let val ← pN val; let len ← pN len
    let tl := tlEnc tag ((len + 15) / 8)
    pure s!"{tl.length + (len + 15) / 8} {dump (derTBITEnc m der val len tl) n}"
  | _, _ => none

/-- decoders: `fn A val lenp der count tag` / `fn A val der count tag len` -/
def decoder (fn : String) (arena : Array UInt8) (args : List String) : Option String := do
  let m := memOf arena
  let n := arena.size
  let fail := s!"max {dump m n}"
  let parse (der count tag : Nat) : Option (Nat × Nat) :=
    match tlDec (read m der count) with
    | some (t, voff, l) => if t = tag then some (voff, l) else none
    | none => none
  match fn, args with
  | "derTUINTDec", [val, lenp, der, count, tag] => do
    let val ← pP val; let lenp ← pP lenp; let der ← pN der; let count ← pN count; let tag ← pN tag
    match parse der count tag with
    | none => pure fail
    | some (voff, l) =>
      match derTUINTDec m val lenp der voff l with
      | some m' => pure s!"{voff + l} {dump m' n}"
      | none => pure fail
  | "derTBITDec", [val, lenp, der, count, tag] => do
    let val ← pP val; let lenp ← pP lenp; let der ← pN der; let count ← pN count; let tag ← pN tag
    match parse der count tag with
    | none => pure fail
    | some (voff, l) =>
      match derTBITDec m val lenp der voff l with
      | some m' => pure s!"{voff + l} {dump m' n}"
      | none => pure fail
  | "derTOCTDec", [val, lenp, der, count, tag] => do
    let val ← pP val; let lenp ← pP lenp; let der ← pN der; let count ← pN count; let tag ← pN tag
    match parse der count tag with
    | none => pure fail
    | some (voff, l) => pure s!"{voff + l} {dump (derTOCTDec m val lenp der voff l) n}"
  | "derTPSTRDec", [val, lenp, der, count, tag] => do
    let val ← pP val; let lenp ← pP lenp; let der ← pN der; let count ← pN count; let tag ← pN tag
    match parse der count tag with
    | none => pure fail
    | some (voff, l) =>
      match derTPSTRDec m val lenp der voff l with
      | some m' => pure s!"{voff + l} {dump m' n}"
      | none => pure fail
  | "derTUINTDec2", [val, der, count, tag, len] => do
    let val ← pP val; let der ← pN der; let count ← pN count; let tag ← pN tag; let len ← pN len
    match parse der count tag with
    | none => pure fail
    | some (voff, l) =>
      match derTUINTDec2 m val der voff l len with
      | some m' => pure s!"{voff + l} {dump m' n}"
      | none => pure fail
  | "derTBITDec2", [val, der, count, tag, len] => do
    let val ← pP val; let der ← pN der; let count ← pN count; let tag ← pN tag; let len ← pN len
    match parse der count tag with
    | none => pure fail
    | some (voff, l) =>
      match derTBITDec2 m val der voff l len with
      | some m' => pure s!"{voff + l} {dump m' n}"
      | none => pure fail
  | "derTOCTDec2", [val, der, count, tag, len] => do
    let val ← pP val; let der ← pN der; let count ← pN count; let tag ← pN tag; let len ← pN len
    match parse der count tag with
    | none => pure fail
    | some (voff, l) =>
      if l != len then pure fail else pure s!"{voff + l} {dump (derTOCTDec2 m val der voff l) n}"
  | _, _ => none

/-- the order program of an abstract-core function from its argument tokens -/
def progOf (fn : String) (a : List String) : Option (List Step) := do
  let x := fn ++ ".x"
  let g := fn ++ ".g"
  let v := fn ++ ".v"
  match fn, a with
  | "beltCBCEncr", [d, s, n, k, l, iv] | "beltCBCDecr", [d, s, n, k, l, iv]
  | "beltCFBEncr", [d, s, n, k, l, iv] | "beltCFBDecr", [d, s, n, k, l, iv]
  | "beltCTR", [d, s, n, k, l, iv]
  | "beltBDEEncr", [d, s, n, k, l, iv] | "beltBDEDecr", [d, s, n, k, l, iv] =>
    pure (progModeIv x (← pN d) (← pN s) (← pN n) (← pN k) (← pN l) (← pN iv))
  | "beltSDEEncr", [d, s, n, k, l, iv] | "beltSDEDecr", [d, s, n, k, l, iv] =>
    pure (progSDE x (← pN d) (← pN s) (← pN n) (← pN k) (← pN l) (← pN iv))
  | "beltECBEncr", [d, s, n, k, l] | "beltECBDecr", [d, s, n, k, l] =>
    pure (progModeNoIv x (← pN d) (← pN s) (← pN n) (← pN k) (← pN l))
  | "beltFMTEncr", [d, _, s, n, k, l, iv] | "beltFMTDecr", [d, _, s, n, k, l, iv] => do
    let iv ← pP iv
    pure (progFMT x (← pN d) (← pN s) (← pN n) (← pN k) (← pN l) (iv.getD 0) iv.isNone)
  | "beltMAC", [mac, s, n, k, l] => pure (progMAC g (← pN mac) (← pN s) (← pN n) (← pN k) (← pN l) 8)
  | "beltHMAC", [mac, s, n, k, l] => pure (progMAC g (← pN mac) (← pN s) (← pN n) (← pN k) (← pN l) 32)
  | "beltHash", [h, s, n] => pure (progHash g (← pN h) (← pN s) (← pN n) 32)
  | "bashHash", [l, h, s, n] => pure (progHash g (← pN h) (← pN s) (← pN n) ((← pN l) / 4))
  | "beltDWPWrap", [d, mac, s1, n1, s2, n2, k, l, iv] | "beltCHEWrap", [d, mac, s1, n1, s2, n2, k, l, iv] =>
    pure (progWrap x g (← pN d) (← pN mac) (← pN s1) (← pN n1) (← pN s2) (← pN n2) (← pN k) (← pN l) (← pN iv))
  | "beltDWPUnwrap", [d, s1, n1, s2, n2, mac, k, l, iv] | "beltCHEUnwrap", [d, s1, n1, s2, n2, mac, k, l, iv] =>
    pure (progUnwrap x v (← pN d) (← pN s1) (← pN n1) (← pN s2) (← pN n2) (← pN mac) (← pN k) (← pN l) (← pN iv))
  | "beltKWPWrap", [d, s, n, h, k, l] => do
    let h ← pP h
    pure (progKWPWrap x (← pN d) (← pN s) (← pN n) (h.getD 0) (← pN k) (← pN l) h.isNone)
  | "beltKWPUnwrap", [d, s, n, h, k, l] => do
    let h ← pP h
    pure (progKWPUnwrap x v (← pN d) (← pN s) (← pN n) (h.getD 0) (← pN k) (← pN l) h.isNone)
  | "dstuPointCompress", [xp, p, _, no] =>
    pure (progDstuCompress x v (← pN xp) (← pN p) (← pN no))
  | "dstuPointRecover", [p, xp, _, no] =>
    pure (progDstuRecover g v (← pN p) (← pN xp) (← pN no))
  | "bignKeyWrap", [tok, key, len, h, pub, l, _] => do
    let h ← pP h
    pure (progBignKeyWrap fn (← pN tok) (← pN key) (← pN len) (h.getD 0) (← pN pub) ((← pN l) / 4) h.isNone)
  | "bignKeyUnwrap", [key, tok, len, h, priv, l] => do
    let h ← pP h
    pure (progBignKeyUnwrap fn (← pN key) (← pN tok) (← pN len) (h.getD 0) (← pN priv) ((← pN l) / 4) h.isNone)
  | "beltKRP", [d, m, s, n, lev, h] =>
    pure (progKRP g (← pN d) (← pN m) (← pN s) (← pN n) (← pN lev) (← pN h))
  | _, _ => none

/-- generic order program from its description: `d:<0|1>` (domain), `i:<addr>:<n>` (input, in parameter order),
    `o:<id>:<addr>:<n>` (output) -/
def progOfDesc (ts : List String) : Option (List Step) := do
  let mut dom := true
  let mut ins : List (Nat × Nat) := []
  let mut outs : List (String × Nat × Nat) := []
  for t in ts do
    match t.splitOn ":" with
    | ["d", v] => dom := v == "1"
    | ["i", a, n] => ins := ins ++ [((← pN a), (← pN n))]
    | ["o", id, a, n] => outs := outs ++ [(id, (← pN a), (← pN n))]
    | _ => none
  pure (progIO dom ins outs)

def splitBar (ts : List String) : List (List String) :=
  ts.foldr (fun t acc => if t = "|" then [] :: acc else
    match acc with
    | [] => [[t]]
    | h :: r => (t :: h) :: r) [[]]

/-- the oracle core: values observed on the real library for the disjoint placement -/
def oracleCore (ret : Nat) (vals : List (String × Bytes)) : Core where
  x := fun id _ old => (vals.lookup id).getD (old.map fun _ => 0xEE)
  g := fun id _ n => (vals.lookup id).getD (List.replicate n 0xEE)
  ok := fun _ _ _ => ret == 0

def abstractOp (fn : String) (rest : List String) : Option String := do
  match splitBar rest with
  | [a :: _, a' :: _, r :: vals, desc, desc'] => do
    let ar ← parseHex a
    let ar' ← parseHex a'
    let ret ← pN r
    let vals ← vals.mapM fun t => match t.splitOn "=" with
      | [id, hx] => (parseHex hx).map fun b => (id, b)
      | _ => none
    let p ← progOfDesc desc
    let p' ← progOfDesc desc'
    let c := oracleCore ret vals
    match run c p ⟨memOf ar.toArray, [], 0⟩, run c p' ⟨memOf ar'.toArray, [], 0⟩ with
    | some s, some s' =>
      -- a function that fails (ret ≠ 0) on the disjoint placement writes nothing the model knows of
      if ret != 0 then pure s!"{ret} {toHex ar}"
      else if s.tr == s'.tr then pure s!"{s.ret} {dump s.mem ar.length}"
      else pure s!"miss {dump s.mem ar.length}"
    | _, _ => pure "undefined"
  | [a :: args, a' :: args', r :: vals] => do
    let ar ← parseHex a
    let ar' ← parseHex a'
    let ret ← pN r
    let vals ← vals.mapM fun t => match t.splitOn "=" with
      | [id, hx] => (parseHex hx).map fun b => (id, b)
      | _ => none
    let p ← progOf fn args
    let p' ← progOf fn args'
    let c := oracleCore ret vals
    match run c p ⟨memOf ar.toArray, [], 0⟩, run c p' ⟨memOf ar'.toArray, [], 0⟩ with
    | some s, some s' =>
      if s.tr == s'.tr || (s.ret != 0 && s.tr.isEmpty) then
        pure s!"{s.ret} {dump s.mem ar.length}"
      else pure s!"miss {dump s.mem ar.length}"
    | _, _ => pure "undefined"
  | _ => none

def concreteFns : List String :=
  ["memMove", "memJoin", "memXor", "memXor2", "beltKeyExpand", "beltKeyExpand2",
   "derEnc", "derTPSTREnc", "derTUINTEnc", "derTBITEnc"]

def handle (ts : List String) : String :=
  match ts with
  | fn :: a :: args =>
    if concreteFns.contains fn then withArena a fun ar => concrete fn ar args
    else if DrvMath.fns.contains fn then withArena a fun ar => DrvMath.op fn ar args
    else if fn.startsWith "der" then withArena a fun ar => decoder fn ar args
    else (abstractOp fn (a :: args)).getD "bad-op"
  | _ => "bad-op"

end Bee2V.C11.Drv

import Bee2V.C11.Lemmas
import Bee2V.C11.LemmasConc
/-! Helper lemmas for Bee2V/C11/PropsHL.lean: running a block of absorbs / emits. -/
namespace Bee2V.C11

/-- memory after a block of emits computed from the fixed transcript `T` -/
def emitMem (c : Core) (T : List Bytes) : List (String × Nat × Nat) → Mem → Mem
  | [], m => m
  | o :: os, m => emitMem c T os (write m o.2.1 (c.g o.1 T o.2.2))

theorem run_absorbs (c : Core) (rest : List Step) : ∀ (ins : List (Nat × Nat)) (m : Mem) (tr : List Bytes) (r : Nat),
    run c (absorbs ins ++ rest) ⟨m, tr, r⟩ = run c rest ⟨m, tr ++ ins.map (fun p => read m p.1 p.2), r⟩ := by
  intro ins
  induction ins with
  | nil => intro m tr r; simp [absorbs]
  | cons p ps ih =>
    intro m tr r
    have := ih m (tr ++ [read m p.1 p.2]) r
    simp only [absorbs, List.map_cons, List.cons_append, run] at this ⊢
    rw [this]
    simp [List.append_assoc]

theorem run_emits (c : Core) : ∀ (outs : List (String × Nat × Nat)) (m : Mem) (tr : List Bytes) (r : Nat),
    run c (emits outs) ⟨m, tr, r⟩ = some ⟨emitMem c tr outs m, tr, r⟩ := by
  intro outs
  induction outs with
  | nil => intro m tr r; simp [emits, run, emitMem]
  | cons o os ih =>
    intro m tr r
    have := ih (write m o.2.1 (c.g o.1 tr o.2.2)) tr r
    simp only [emits, List.map_cons, run, emitMem] at this ⊢
    exact this

end Bee2V.C11

import Bee2V.C11.Math
import Bee2V.C05.PropsAlias
/-! Helper lemmas for Bee2V/C11/PropsMath.lean. -/
namespace Bee2V.C11.Math
open Bee2V.C05 Bee2V.C05.Alias

/-- pointwise form of the descending element-wise loop under the header's precondition -/
theorem elem2Desc_apply (f : Nat → Nat → Nat) (c a b : Nat) : ∀ (n : Nat) (m : Mem) (j : Nat),
    SameOrDisj c a n → SameOrDisj c b n →
    elem2Desc f c a b n m j = if c ≤ j ∧ j < c + n then f (m (a + (j - c))) (m (b + (j - c))) else m j := by
  intro n
  induction n with
  | zero =>
    intro m j _ _
    have : ¬ (c ≤ j ∧ j < c + 0) := by omega
    simp only [elem2Desc, this, if_false]
  | succ n ih =>
    intro m j ha hb
    have ha' : SameOrDisj c a n := by unfold SameOrDisj Disj at *; omega
    have hb' : SameOrDisj c b n := by unfold SameOrDisj Disj at *; omega
    rw [elem2Desc, ih _ _ ha' hb']
    unfold SameOrDisj Disj at ha hb
    by_cases h1 : c ≤ j ∧ j < c + n
    · have h2 : c ≤ j ∧ j < c + (n + 1) := by omega
      have ea : a + (j - c) ≠ c + n := by omega
      have eb : b + (j - c) ≠ c + n := by omega
      simp only [h1, h2, and_self, if_true, write_other _ _ _ _ ea, write_other _ _ _ _ eb]
    · by_cases h3 : j = c + n
      · have h2 : c ≤ j ∧ j < c + (n + 1) := by omega
        rw [if_neg h1, if_pos h2, h3, write_same]
        have e : c + n - c = n := by omega
        rw [e]
      · have h2 : ¬ (c ≤ j ∧ j < c + (n + 1)) := by omega
        simp only [h1, h2, if_false, write_other _ _ _ _ h3]

theorem pure1_ppMulW (w x : Nat) : ∀ (l : List Nat) (c : Nat), pure1 (ppMulWStep w x) c l = ppMulWLoop w x l c := by
  intro l
  induction l with
  | nil => intro c; simp [pure1, ppMulWLoop]
  | cons a as ih => intro c; simp [pure1, ppMulWLoop, ppMulWStep, ih]

theorem pure2_ppAddMulW (w x : Nat) : ∀ (bs as : List Nat) (c : Nat),
    pure2 (ppAddMulWStep w x) c bs as = ppAddMulWLoop w x bs as c := by
  intro bs
  induction bs with
  | nil => intro as c; simp [pure2, ppAddMulWLoop]
  | cons b bs ih =>
    intro as c
    cases as with
    | nil => simp [pure2, ppAddMulWLoop]
    | cons a as => simp [pure2, ppAddMulWLoop, ppAddMulWStep, ih]

theorem readN_append (m : Mem) (a n k : Nat) : readN m a (n + k) = readN m a n ++ readN m (a + n) k := by
  induction n generalizing a with
  | zero => simp [readN]
  | succ n ih =>
    rw [show n + 1 + k = (n + k) + 1 by omega, readN, readN, ih (a + 1)]
    simp [show a + 1 + n = a + (n + 1) by omega]

theorem readN_take (m : Mem) (a n k : Nat) (h : k ≤ n) : (readN m a n).take k = readN m a k := by
  rw [show n = k + (n - k) by omega, readN_append]
  exact List.take_left' (readN_length _ _ _)

theorem readN_drop (m : Mem) (a n k : Nat) (h : k ≤ n) : (readN m a n).drop k = readN m (a + k) (n - k) := by
  conv => lhs; rw [show n = k + (n - k) by omega, readN_append]
  exact List.drop_left' (readN_length _ _ _)

theorem readN_ext (m1 m2 : Mem) : ∀ (n p q : Nat), (∀ i, i < n → m1 (p + i) = m2 (q + i)) →
    readN m1 p n = readN m2 q n := by
  intro n
  induction n with
  | zero => intro p q _; rfl
  | succ n ih =>
    intro p q h
    simp only [readN]
    rw [show m1 p = m2 q from by simpa using h 0 (by omega)]
    rw [ih (p + 1) (q + 1) (fun i hi => by
      have := h (i + 1) (by omega)
      simpa [Nat.add_assoc, Nat.add_comm 1 i] using this)]

end Bee2V.C11.Math

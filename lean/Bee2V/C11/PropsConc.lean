import Bee2V.C11.LemmasConc
/-
C11 — property theorems for the concrete memory programs of der.c and belt_block.c.
Every address is a universally quantified natural number: the theorems hold for EVERY placement
of the buffers; the only hypotheses are the exclusions the header states and the validity
conditions the code tests (on the OLD memory).
-/
namespace Bee2V.C11

/-! ### der.h decoders: `val` and `len` may overlap `der` -/

/-- der.h `derTPSTRDec` ("val и len не пересекаются между собой, но могут пересекаться с буфером der"):
    all of V is checked first; then for every placement of val (l + 1 octets: string and terminator) and
    len against der, val receives the OLD value octets, a terminating zero, and len the length. -/
theorem derTPSTRDec_overlap (m : Mem) (val lp der voff l : Nat) (h : disj2 val (l + 1) lp 8 = true)
    (hp : (read m (der + voff) l).all isPrintable = true) :
    ∃ m', derTPSTRDec m (some val) (some lp) der voff l = some m' ∧
      read m' val l = read m (der + voff) l ∧ m' (val + l) = 0 ∧
      read m' lp 8 = Bee2V.Proto.natLE 8 l := by
  rw [disj2_iff] at h
  refine ⟨_, by simp only [derTPSTRDec, hp, Bool.not_true, Bool.false_eq_true, if_false]; rfl, ?_, ?_, ?_⟩
  · rw [read_putSize_disj _ _ _ _ _ (by rw [disj2_iff]; omega),
      read_set1_disj _ _ _ _ _ (by omega)]
    exact read_memMove_self m val (der + voff) l
  · rw [putSize_apply_disj _ _ _ _ (by omega)]
    simp [set1]
  · exact read_putSize_self _ _ _

/-- non-vacuity: der = 13 02 'A' 'b', val = der + 1 (over L and V), len after it -/
example : disj2 1 (2 + 1) 8 8 = true ∧
    (read (fun x => [0x13, 2, 65, 98].getD x 0) (0 + 2) 2).all isPrintable = true := by decide

/-- der.h `derTUINTDec` ("val и len не пересекаются между собой, но могут пересекаться с буфером der"):
    under the validity condition the code tests on the OLD memory (`hok` is the negation of the model's
    `if`), for every placement of val and len against der: val receives the OLD value octets (without
    the leading zero octet when there is one) reversed to little-endian, len their number. -/
theorem derTUINTDec_overlap (m : Mem) (val lp der voff l : Nat) (h : disj2 val l lp 8 = true)
    (hok : (l < 1 || m (der + voff) &&& 128 != 0 ||
      (m (der + voff) == 0 && l > 1 && m (der + voff + 1) &&& 128 == 0)) = false) :
    let ex := if m (der + voff) == 0 && l > 1 && m (der + voff + 1) &&& 128 != 0 then 1 else 0
    ∃ m', derTUINTDec m (some val) (some lp) der voff l = some m' ∧
      read m' val (l - ex) = (read m (der + voff + ex) (l - ex)).reverse ∧
      read m' lp 8 = Bee2V.Proto.natLE 8 (l - ex) := by
  intro ex
  rw [disj2_iff] at h
  refine ⟨_, by simp only [derTUINTDec, hok, Bool.false_eq_true, if_false]; rfl, ?_, ?_⟩
  · rw [read_putSize_disj _ _ _ _ _ (by rw [disj2_iff]; omega), read_memRev_self,
      read_memMove_self]
  · exact read_putSize_self _ _ _

/-- non-vacuity: der = 02 02 00 80 (the value 0x80 with its leading zero octet), val = der, len after it:
    the validity condition holds and ex = 1 -/
example : disj2 0 2 8 8 = true ∧
    (let m : Mem := fun x => [2, 2, 0, 0x80].getD x 0
     ((2 : Nat) < 1 || m (0 + 2) &&& 128 != 0 || (m (0 + 2) == 0 && 2 > 1 && m (0 + 2 + 1) &&& 128 == 0)) = false ∧
     (if m (0 + 2) == 0 && 2 > 1 && m (0 + 2 + 1) &&& 128 != 0 then 1 else 0) = 1) := by decide

/-- der.h `derTUINTDec2` ("буфер val может пересекаться с буфером der"): as above with the expected length
    `len` (the code tests `l - ex = len`). -/
theorem derTUINTDec2_overlap (m : Mem) (val der voff l len : Nat)
    (hok : (l < 1 || m (der + voff) &&& 128 != 0 ||
      (m (der + voff) == 0 && l > 1 && m (der + voff + 1) &&& 128 == 0)) = false) :
    let ex := if m (der + voff) == 0 && l > 1 && m (der + voff + 1) &&& 128 != 0 then 1 else 0
    l - ex = len →
    ∃ m', derTUINTDec2 m (some val) der voff l len = some m' ∧
      read m' val len = (read m (der + voff + ex) len).reverse := by
  intro ex hlen
  refine ⟨_, by simp only [derTUINTDec2, hok, Bool.false_eq_true, if_false]; rw [if_neg (by simpa [ex] using hlen)], ?_⟩
  rw [read_memRev_self, read_memMove_self]

example : (let m : Mem := fun x => [2, 2, 0, 0x80].getD x 0
     ((2 : Nat) < 1 || m (0 + 2) &&& 128 != 0 || (m (0 + 2) == 0 && 2 > 1 && m (0 + 2 + 1) &&& 128 == 0)) = false ∧
     2 - (if m (0 + 2) == 0 && 2 > 1 && m (0 + 2 + 1) &&& 128 != 0 then 1 else 0) = 1) := by decide

/-! ### belt.h beltKeyExpand / beltKeyExpand2 ("Буферы key и key_ могут пересекаться") -/

/-- belt.h `beltKeyExpand`: for every placement of key against key_ and every admissible length the
    32 octets of key_ are the expansion of the OLD key octets (len 24: the two XOR words are computed
    from key_ after the move, where the moved words are the old key words). -/
theorem beltKeyExpand_overlap (m : Mem) (key_ key len : Nat) (hl : len = 16 ∨ len = 24 ∨ len = 32) :
    read (keyExpand m key_ key len) key_ 32 = keyExpandPure (read m key len) := by
  rcases hl with hl | hl | hl <;> subst hl
  · exact keyExpand_16 m key_ key
  · exact keyExpand_24 m key_ key
  · exact keyExpand_32 m key_ key

/-- non-vacuity: key = key_ + 4 (the move shifts the key down over itself), len = 24 -/
example : read (keyExpand (fun x => UInt8.ofNat (x * x + 1)) 0 4 24) 0 32 =
    keyExpandPure (read (fun x => UInt8.ofNat (x * x + 1)) 4 24) ∧
    disj2 0 24 4 24 = false := by decide

/-- belt.h `beltKeyExpand2` (word-wise, little-endian machine): the same. -/
theorem beltKeyExpand2_overlap (m : Mem) (key_ key len : Nat) (hl : len = 16 ∨ len = 24 ∨ len = 32) :
    read (keyExpand2 m key_ key len) key_ 32 = keyExpandPure (read m key len) := by
  rcases hl with hl | hl | hl <;> subst hl
  · rw [keyExpand2_16]; exact keyExpand_16 m key_ key
  · rw [keyExpand2_24]; exact keyExpand_24 m key_ key
  · rw [keyExpand2_32]; exact keyExpand_32 m key_ key

example : read (keyExpand2 (fun x => UInt8.ofNat (x * x + 1)) 2 0 16) 2 32 =
    keyExpandPure (read (fun x => UInt8.ofNat (x * x + 1)) 0 16) := by decide

/-! ### der.h encoders: `val` may overlap `der` -/

/-- der.h `derTUINTEnc` ("Буферы der и val могут пересекаться"), code as fixed by docs/C11.fix-3.diff (V is
    produced first — move, optional zero octet, reverse — TL is written last): for EVERY placement of val
    against der and every TL encoder `tlOf` (a function of the length of V), the code is
    `TL ‖ uintBody (old val)` and the returned count is its length. -/
theorem derTUINTEnc_overlap (m : Mem) (der val len : Nat) (tlOf : Nat → Bytes) (h : 0 < len) :
    let U := uintBody (read m val len)
    let r := derTUINTEnc m der val len tlOf
    r.2 = (tlOf U.length).length + U.length ∧ read r.1 der r.2 = tlOf U.length ++ U := by
  intro U r
  have hU : U = _ := uintBody_read m val len h
  by_cases c : (m (val + stripLen m val len - 1) &&& 128 != 0) = true
  · have hlen : U.length = stripLen m val len + 1 := by
      rw [hU]; simp [c, read_length]
    have e := uintEnc_core m der val (stripLen m val len) 1 (tlOf (stripLen m val len + 1))
    rw [if_pos rfl, if_pos rfl, if_pos rfl] at e
    rw [if_pos c] at hU
    constructor
    · simp only [r, derTUINTEnc, c, if_true, hlen]; omega
    · simp only [r, derTUINTEnc, c, if_true, hlen]
      rw [hU]; simpa only [Nat.add_assoc] using e
  · have hlen : U.length = stripLen m val len + 0 := by
      rw [hU]; simp [c, read_length]
    have e := uintEnc_core m der val (stripLen m val len) 0 (tlOf (stripLen m val len + 0))
    have z : ¬ ((0 : Nat) = 1) := by decide
    rw [if_neg z, if_neg z, if_neg z] at e
    rw [if_neg c] at hU
    constructor
    · simp only [r, derTUINTEnc, c, Bool.false_eq_true, if_false, hlen]; omega
    · simp only [r, derTUINTEnc, c, Bool.false_eq_true, if_false, hlen, z]
      rw [hU]; simpa only [Nat.add_assoc] using e

/-- non-vacuity: the little-endian number 0x0080 (val = 80 00, two octets, top octet zero, bit 7 of the
    remaining octet set) at val = der + 1, i.e. inside the code being written: V = 00 80 -/
example : uintBody [0x80, 0] = [0, 0x80] ∧
    (let r := derTUINTEnc (fun x => [7, 0x80, 0, 9].getD x 0) 0 1 2 (fun n => [2, UInt8.ofNat n])
     r.2 = 4 ∧ read r.1 0 4 = [2, 2, 0, 0x80]) := by decide

/-- der.h `derTBITEnc` ("Буферы der и val могут пересекаться"): V (pad-count octet, then the octets of
    the string with the unused bits of the last one cleared) is produced after `memMove(der + |TL| + 1, val)`
    and TL is written last: for EVERY placement of val against der, every bit length `len` and every TL
    prefix the code is `TL ‖ bitBody len (old val)`. -/
theorem derTBITEnc_overlap (m : Mem) (der val len : Nat) (tl : Bytes) :
    read (derTBITEnc m der val len tl) der (tl.length + (len + 15) / 8) =
      tl ++ bitBody len (read m val ((len + 7) / 8)) := by
  rw [show (len + 15) / 8 = 1 + (len + 7) / 8 by omega]
  exact bitEnc_core m der val len tl

/-- non-vacuity: 11 bits AB E7 at val = der (the move shifts them up by |TL| + 1 = 3 over themselves):
    5 unused bits, the last octet becomes E0 -/
example : bitBody 11 [0xAB, 0xE7] = [5, 0xAB, 0xE0] ∧
    read (derTBITEnc (fun x => [0xAB, 0xE7, 1, 2, 3].getD x 0) 0 0 11 [3, 3]) 0 5 = [3, 3, 5, 0xAB, 0xE0] := by
  decide

end Bee2V.C11

import Bee2V.C11.Drv
/-- driver executable of area C11 (`drv_c11`) -/
def main : IO Unit := Bee2V.Proto.runLoop Bee2V.C11.Drv.handle

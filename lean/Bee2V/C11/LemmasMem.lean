import Bee2V.C11.Mem
/-! Pointwise characterisations of the memory helpers (helper lemmas of C11). -/
namespace Bee2V.C11

theorem disj2_iff (a n b k : Nat) :
    disj2 a n b k = true ↔ (n = 0 ∨ k = 0 ∨ a + n ≤ b ∨ b + k ≤ a) := by
  simp [disj2, or_assoc]

theorem read_length (m : Mem) (a n : Nat) : (read m a n).length = n := by simp [read]

theorem read_getElem (m : Mem) (a n i : Nat) (h : i < (read m a n).length) :
    (read m a n)[i] = m (a + i) := by simp [read]

theorem read_getD (m : Mem) (a n i : Nat) (h : i < n) : (read m a n).getD i 0 = m (a + i) := by
  simp [read, List.getD, h]

/-- two regions are equal as lists iff they agree pointwise -/
theorem read_eq_iff (m m' : Mem) (a b n : Nat) :
    read m a n = read m' b n ↔ ∀ i, i < n → m (a + i) = m' (b + i) := by
  constructor
  · intro h i hi
    have := congrArg (fun l => l.getD i 0) h
    simp only [read_getD _ _ _ _ hi] at this
    exact this
  · intro h
    apply List.ext_getElem
    · simp [read_length]
    · intro i h1 h2
      simp [read_length] at h1
      simp [read_getElem, h i h1]

theorem read_append (m : Mem) (a n k : Nat) : read m a (n + k) = read m a n ++ read m (a + n) k := by
  apply List.ext_getElem
  · simp [read_length]
  · intro i h1 h2
    simp [read_length] at h1
    by_cases hi : i < n
    · rw [List.getElem_append_left (by simpa [read_length] using hi)]
      simp [read_getElem]
    · rw [List.getElem_append_right (by simpa [read_length] using hi)]
      simp only [read_getElem, read_length]
      congr 1; omega

theorem write_read_apply (m m0 : Mem) (d s n x : Nat) :
    write m d (read m0 s n) x = if d ≤ x ∧ x < d + n then m0 (s + (x - d)) else m x := by
  unfold write
  simp only [read_length]
  split
  · next h => rw [read_getD _ _ _ _ (by omega)]
  · rfl

/-- `memMove` = write the snapshot of the source -/
theorem memMove_eq_write (m : Mem) (d s n : Nat) : memMove m d s n = write m d (read m s n) := by
  funext x; rw [write_read_apply]; rfl

theorem read_write_same (m : Mem) (d : Nat) (bs : Bytes) : read (write m d bs) d bs.length = bs := by
  apply List.ext_getElem
  · simp [read_length]
  · intro i h1 h2
    simp only [read_getElem, write]
    have : d ≤ d + i ∧ d + i < d + bs.length := by omega
    simp [this, List.getD, h2]

/-- rotLoop after `k ≤ n` passes, pointwise -/
theorem rotLoop_apply (dest n : Nat) : ∀ (k : Nat) (m : Mem) (x : Nat), k ≤ n →
    rotLoop dest n k m x =
      if dest ≤ x ∧ x < dest + (n - k) then m (x + k)
      else if dest + (n - k) ≤ x ∧ x < dest + n then m (x + k - n)
      else m x := by
  intro k
  induction k with
  | zero =>
    intro m x _
    simp only [rotLoop, Nat.sub_zero, Nat.add_zero]
    split
    · rfl
    · split
      · omega
      · rfl
  | succ k ih =>
    intro m x hk
    rw [rotLoop, ih _ _ (by omega)]
    simp only [rotl1, set1, memMove]
    by_cases h1 : dest ≤ x ∧ x < dest + (n - (k + 1))
    · have a1 : dest ≤ x ∧ x < dest + (n - k) := by omega
      have a2 : ¬ (x + k = dest + n - 1) := by omega
      have a3 : dest ≤ x + k ∧ x + k < dest + (n - 1) := by omega
      simp only [h1, a1, a2, a3, and_self, if_true, if_false]
      congr 1; omega
    · by_cases h2 : dest + (n - (k + 1)) ≤ x ∧ x < dest + n
      · simp only [h1, h2, and_self, if_true, if_false]
        by_cases h3 : x = dest + (n - (k + 1))
        · have a1 : dest ≤ x ∧ x < dest + (n - k) := by omega
          have a2 : x + k = dest + n - 1 := by omega
          simp only [a1, a2, and_self, if_true]
          congr 1; omega
        · have a1 : ¬ (dest ≤ x ∧ x < dest + (n - k)) := by omega
          have a2 : dest + (n - k) ≤ x ∧ x < dest + n := by omega
          have a3 : ¬ (x + k - n = dest + n - 1) := by omega
          have a4 : dest ≤ x + k - n ∧ x + k - n < dest + (n - 1) := by omega
          simp only [a1, a2, a3, a4, and_self, if_true, if_false]
          congr 1; omega
      · have a1 : ¬ (dest ≤ x ∧ x < dest + (n - k)) := by omega
        have a2 : ¬ (dest + (n - k) ≤ x ∧ x < dest + n) := by omega
        have a3 : ¬ (x = dest + n - 1) := by omega
        have a4 : ¬ (dest ≤ x ∧ x < dest + (n - 1)) := by omega
        simp only [h1, h2, a1, a2, a3, a4, if_false]

/-- the result `memJoin` must produce, pointwise: `dest[0..c1) = old src1`, `dest[c1..c1+c2) = old src2`,
    everything else untouched -/
def joinSpec (m : Mem) (dest src1 c1 src2 c2 : Nat) : Mem :=
  fun x => if dest ≤ x ∧ x < dest + c1 then m (src1 + (x - dest))
    else if dest + c1 ≤ x ∧ x < dest + c1 + c2 then m (src2 + (x - dest - c1))
    else m x

end Bee2V.C11

namespace Bee2V.C11

theorem memJoin_eq_spec (m : Mem) (dest src1 c1 src2 c2 : Nat) :
    memJoin m dest src1 c1 src2 c2 = joinSpec m dest src1 c1 src2 c2 := by
  fun_induction memJoin m dest src1 c1 src2 c2 with
  | case1 m dest src1 c1 c2 h =>
    rw [disj2_iff] at h
    funext x
    simp only [memMove, joinSpec]
    by_cases a : dest ≤ x ∧ x < dest + c1
    · have b : ¬ (dest + c1 ≤ x ∧ x < dest + c1 + c2) := by omega
      have c : ¬ (dest ≤ src1 + (x - dest) ∧ src1 + (x - dest) < dest + c1) ∨ True := Or.inr trivial
      simp only [a, b, and_self, if_true, if_false]
    · by_cases b : dest + c1 ≤ x ∧ x < dest + c1 + c2
      · have e : ¬ (dest ≤ src2 + (x - (dest + c1)) ∧ src2 + (x - (dest + c1)) < dest + c1) := by omega
        simp only [a, b, e, and_self, if_true, if_false]
        congr 1; omega
      · simp only [a, b, if_false]
  | case2 m dest src1 c1 c2 h1 h =>
    rw [disj2_iff] at h
    funext x
    simp only [memMove, joinSpec]
    by_cases a : dest ≤ x ∧ x < dest + c1
    · have e : ¬ (dest + c1 ≤ src1 + (x - dest) ∧ src1 + (x - dest) < dest + c1 + c2) := by omega
      simp only [a, e, and_self, if_true, if_false]
    · by_cases b : dest + c1 ≤ x ∧ x < dest + c1 + c2
      · simp only [a, b, and_self, if_true, if_false]
        congr 1; omega
      · simp only [a, b, if_false]
  | case3 m dest src1 c1 c2 h1 h2 h =>
    rw [disj2_iff] at h
    simp only [disj2_iff] at h1 h2
    funext x
    rw [rotLoop_apply _ _ _ _ _ (by omega)]
    simp only [memMove, joinSpec]
    by_cases a : dest ≤ x ∧ x < dest + c1
    · have a1 : dest ≤ x ∧ x < dest + (c1 + c2 - c2) := by omega
      have a2 : dest + c2 ≤ x + c2 ∧ x + c2 < dest + c2 + c1 := by omega
      have a3 : ¬ (dest ≤ src1 + (x + c2 - (dest + c2)) ∧ src1 + (x + c2 - (dest + c2)) < dest + c2) := by omega
      simp only [a, a1, a2, a3, and_self, if_true, if_false]
      congr 1; omega
    · by_cases b : dest + c1 ≤ x ∧ x < dest + c1 + c2
      · have a1 : ¬ (dest ≤ x ∧ x < dest + (c1 + c2 - c2)) := by omega
        have a2 : dest + (c1 + c2 - c2) ≤ x ∧ x < dest + (c1 + c2) := by omega
        have a3 : ¬ (dest + c2 ≤ x + c2 - (c1 + c2) ∧ x + c2 - (c1 + c2) < dest + c2 + c1) := by omega
        have a4 : dest ≤ x + c2 - (c1 + c2) ∧ x + c2 - (c1 + c2) < dest + c2 := by omega
        simp only [a, b, a1, a2, a3, a4, and_self, if_true, if_false]
        congr 1; omega
      · have a1 : ¬ (dest ≤ x ∧ x < dest + (c1 + c2 - c2)) := by omega
        have a2 : ¬ (dest + (c1 + c2 - c2) ≤ x ∧ x < dest + (c1 + c2)) := by omega
        have a3 : ¬ (dest + c2 ≤ x ∧ x < dest + c2 + c1) := by omega
        have a4 : ¬ (dest ≤ x ∧ x < dest + c2) := by omega
        simp only [a, b, a1, a2, a3, a4, if_false]
  | case4 m dest src1 c1 c2 h1 h2 h3 h =>
    rw [disj2_iff] at h
    simp only [disj2_iff] at h1 h2 h3
    funext x
    rw [rotLoop_apply _ _ _ _ _ (by omega)]
    simp only [memMove, joinSpec]
    by_cases a : dest ≤ x ∧ x < dest + c1
    · have a1 : dest ≤ x ∧ x < dest + (c1 + c2 - c2) := by omega
      have a2 : dest + c2 ≤ x + c2 ∧ x + c2 < dest + c2 + c1 := by omega
      have a3 : ¬ (dest ≤ x + c2 ∧ x + c2 < dest + c2) := by omega
      simp only [a, a1, a2, a3, and_self, if_true, if_false]
      congr 1; omega
    · by_cases b : dest + c1 ≤ x ∧ x < dest + c1 + c2
      · have a1 : ¬ (dest ≤ x ∧ x < dest + (c1 + c2 - c2)) := by omega
        have a2 : dest + (c1 + c2 - c2) ≤ x ∧ x < dest + (c1 + c2) := by omega
        have a4 : dest ≤ x + c2 - (c1 + c2) ∧ x + c2 - (c1 + c2) < dest + c2 := by omega
        have a5 : ¬ (dest + c2 ≤ src2 + (x + c2 - (c1 + c2) - dest) ∧
            src2 + (x + c2 - (c1 + c2) - dest) < dest + c2 + c1) := by omega
        simp only [a, b, a1, a2, a4, a5, and_self, if_true, if_false]
        congr 1; omega
      · have a1 : ¬ (dest ≤ x ∧ x < dest + (c1 + c2 - c2)) := by omega
        have a2 : ¬ (dest + (c1 + c2 - c2) ≤ x ∧ x < dest + (c1 + c2)) := by omega
        have a3 : ¬ (dest + c2 ≤ x ∧ x < dest + c2 + c1) := by omega
        have a4 : ¬ (dest ≤ x ∧ x < dest + c2) := by omega
        simp only [a, b, a1, a2, a3, a4, if_false]
  | case5 m dest src1 c1 c2 h1 h2 h3 h4 m1 m2 ih =>
    simp only [disj2_iff] at h1 h2 h3 h4
    rw [ih]
    funext x
    simp only [joinSpec, m2, m1, set1]
    by_cases a : dest ≤ x ∧ x < dest + c1
    · by_cases a0 : x = dest
      · subst a0
        have b1 : ¬ (x + 1 ≤ x ∧ x < x + 1 + (c1 - 1)) := by omega
        have b2 : ¬ (x + 1 + (c1 - 1) ≤ x ∧ x < x + 1 + (c1 - 1) + (c2 - 1)) := by omega
        have b3 : ¬ (x = x + c1 + c2 - 1) := by omega
        have b4 : x ≤ x ∧ x < x + c1 := by omega
        simp only [b1, b2, b3, b4, and_self, if_true, if_false, Nat.sub_self, Nat.add_zero]
      · have b1 : dest + 1 ≤ x ∧ x < dest + 1 + (c1 - 1) := by omega
        have b3 : ¬ (src1 + 1 + (x - (dest + 1)) = dest + c1 + c2 - 1) := by omega
        have b4 : ¬ (src1 + 1 + (x - (dest + 1)) = dest) := by omega
        simp only [a, b1, b3, b4, and_self, if_true, if_false]
        congr 1; omega
    · by_cases b : dest + c1 ≤ x ∧ x < dest + c1 + c2
      · by_cases b0 : x = dest + c1 + c2 - 1
        · have b1 : ¬ (dest + 1 ≤ x ∧ x < dest + 1 + (c1 - 1)) := by omega
          have b2 : ¬ (dest + 1 + (c1 - 1) ≤ x ∧ x < dest + 1 + (c1 - 1) + (c2 - 1)) := by omega
          have b3 : ¬ (src2 + c2 - 1 = dest) := by omega
          simp only [a, b, b1, b2, b3, and_self, if_true, if_false]
          rw [if_pos b0]
          congr 1; omega
        · have b1 : ¬ (dest + 1 ≤ x ∧ x < dest + 1 + (c1 - 1)) := by omega
          have b2 : dest + 1 + (c1 - 1) ≤ x ∧ x < dest + 1 + (c1 - 1) + (c2 - 1) := by omega
          have b3 : ¬ (src2 + (x - (dest + 1) - (c1 - 1)) = dest + c1 + c2 - 1) := by omega
          have b4 : ¬ (src2 + (x - (dest + 1) - (c1 - 1)) = dest) := by omega
          simp only [a, b, b1, b2, b3, b4, and_self, if_true, if_false]
          congr 1; omega
      · have b1 : ¬ (dest + 1 ≤ x ∧ x < dest + 1 + (c1 - 1)) := by omega
        have b2 : ¬ (dest + 1 + (c1 - 1) ≤ x ∧ x < dest + 1 + (c1 - 1) + (c2 - 1)) := by omega
        have b3 : ¬ (x = dest + c1 + c2 - 1) := by omega
        have b4 : ¬ (x = dest) := by omega
        simp only [a, b, b1, b2, b3, b4, if_false]

end Bee2V.C11

import Bee2V.C11.Mem
import Bee2V.Base.Proto
/-
C11 — der.c encoders/decoders whose `val` may overlap `der`, and belt key expansion, as
concrete memory programs (little-endian machine: `u32From`/`u32To` are `memMove`).
The TL prefix of an encoder is a function of (tag, length) only and the TL parse of a decoder
reads `der` before anything is written: both enter the memory programs as plain values
(`tl : Bytes`, `(voff, l)`), and the theorems hold for ALL such values; the concrete
`tlEnc`/`tlDec` below are what the driver uses.
-/
namespace Bee2V.C11

/-- mem.c `memRev` (in place) -/
def memRev (m : Mem) (a n : Nat) : Mem := write m a (read m a n).reverse

/-- `*len = v` for a `size_t* len` (8 octets, little-endian) -/
def putSize (m : Mem) (a v : Nat) : Mem := write m a (Bee2V.Proto.natLE 8 v)

/-! #### belt_block.c -/

/-- `beltKeyExpand(key_, key, len)`: `memMove(key_, key, len)`; len 16: `memCopy(key_+16, key_, 16)`;
    len 24: `w[6] = w[0]^w[1]^w[2]; w[7] = w[3]^w[4]^w[5]` (octet-wise on any byte order). -/
def keyExpand (m : Mem) (key_ key len : Nat) : Mem :=
  let m1 := memMove m key_ key len
  if len = 16 then memMove m1 (key_ + 16) key_ 16
  else if len = 24 then
    let w (i : Nat) : Bytes := read m1 (key_ + 4 * i) 4
    let m2 := write m1 (key_ + 24) (xorBytes (xorBytes (w 0) (w 1)) (w 2))
    write m2 (key_ + 28) (xorBytes (xorBytes (w 3) (w 4)) (w 5))
  else m1

/-- `beltKeyExpand2(key_, key, len)` on a little-endian machine: `u32From` = `memMove`; then word
    assignments `key_[4..7] = key_[0..3]` / the two XOR words.  Same octets as `keyExpand`. -/
def keyExpand2 (m : Mem) (key_ key len : Nat) : Mem :=
  let m1 := memMove m key_ key len
  if len = 16 then
    let m2 := write m1 (key_ + 16) (read m1 key_ 4)
    let m3 := write m2 (key_ + 20) (read m2 (key_ + 4) 4)
    let m4 := write m3 (key_ + 24) (read m3 (key_ + 8) 4)
    write m4 (key_ + 28) (read m4 (key_ + 12) 4)
  else if len = 24 then
    let w (i : Nat) : Bytes := read m1 (key_ + 4 * i) 4
    let m2 := write m1 (key_ + 24) (xorBytes (xorBytes (w 0) (w 1)) (w 2))
    let w' (i : Nat) : Bytes := read m2 (key_ + 4 * i) 4
    write m2 (key_ + 28) (xorBytes (xorBytes (w' 3) (w' 4)) (w' 5))
  else m1

/-- the expanded key as a function of the key octets (STB 34.101.31, belt-keyexpand) -/
def keyExpandPure (k : Bytes) : Bytes :=
  if k.length = 16 then k ++ k
  else if k.length = 24 then
    k ++ xorBytes (xorBytes (k.take 4) ((k.drop 4).take 4)) ((k.drop 8).take 4)
      ++ xorBytes (xorBytes ((k.drop 12).take 4) ((k.drop 16).take 4)) ((k.drop 20).take 4)
  else k

/-! #### TL prefix -/

def beBytes : Nat → Nat → Bytes
  | 0, _ => []
  | n + 1, v => beBytes n (v / 256) ++ [UInt8.ofNat (v % 256)]

def byteLen : Nat → Nat → Nat
  | 0, _ => 0
  | fuel + 1, v => if v = 0 then 0 else byteLen fuel (v / 256) + 1

/-- `derTEnc` (octets of the tag, big-endian, at least one) followed by `derLEnc` -/
def tlEnc (tag len : Nat) : Bytes :=
  let t := if tag = 0 then [0] else beBytes (byteLen 8 tag) tag
  let l := if len < 128 then [UInt8.ofNat len]
           else let r := byteLen 16 len; UInt8.ofNat (r + 128) :: beBytes r len
  t ++ l

def beNat (bs : Bytes) : Nat := bs.foldl (fun acc b => acc * 256 + b.toNat) 0

/-- `derTDec`: number of tag octets (≤ 4) of a well-formed tag, and the tag value -/
def tDec (d : Bytes) : Option (Nat × Nat) :=
  match d with
  | [] => none
  | b0 :: rest =>
    if b0 &&& 31 != 31 then some (1, b0.toNat)
    else
      let rec go : Nat → Bytes → Nat → Option Nat
        | _, [], _ => none
        | 0, _, _ => none
        | fuel + 1, b :: bs, k => if b &&& 128 == 0 then some (k + 1) else go fuel bs (k + 1)
      match go 3 rest 1 with
      | some tc => some (tc, beNat (d.take tc))
      | none => none

/-- `derDec` on the octets `d` = `[count]der`: (tag, offset of V, length of V) -/
def tlDec (d : Bytes) : Option (Nat × Nat × Nat) :=
  match tDec d with
  | none => none
  | some (tc, tag) =>
    match d.drop tc with
    | [] => none
    | l0 :: lrest =>
      if l0 == 128 || l0 == 255 then none
      else if l0 < 128 then
        if l0.toNat ≤ d.length - tc - 1 then some (tag, tc + 1, l0.toNat) else none
      else
        let r := l0.toNat - 128
        if lrest.length < r || r > 8 then none
        else
          let l := beNat (lrest.take r)
          if l ≤ d.length - tc - 1 - r then some (tag, tc + 1 + r, l) else none

/-! #### encoders: `val` may overlap `der` -/

/-- `derEnc(der, tag, val, len)`: `memMove(der + |TL|, val, len)`, then T, then L -/
def derEnc (m : Mem) (der val len : Nat) (tl : Bytes) : Mem :=
  write (memMove m (der + tl.length) val len) der tl

/-- `while (len > 1 && val[len - 1] == 0) --len;` -/
def stripLen (m : Mem) (val : Nat) : Nat → Nat
  | 0 => 0
  | n + 1 => if n + 1 > 1 ∧ m (val + n) = 0 then stripLen m val n else n + 1

/-- `derTUINTEnc` as FIXED (docs/C11.fix-3.diff): V first (memMove, optional zero octet, memRev), TL last.
    Returns the memory and the number of octets of the code. -/
def derTUINTEnc (m : Mem) (der val len : Nat) (tlOf : Nat → Bytes) : Mem × Nat :=
  let len := stripLen m val len
  let ex := if m (val + len - 1) &&& 128 != 0 then 1 else 0
  let tl := tlOf (len + ex)
  let m1 := memMove m (der + tl.length) val len
  let m2 := if ex = 1 then set1 m1 (der + tl.length + len) 0 else m1
  let m3 := memRev m2 (der + tl.length) (len + ex)
  (write m3 der tl, tl.length + len + ex)

/-- `derTBITEnc(der, tag, val, len /*bits*/)` -/
def derTBITEnc (m : Mem) (der val len : Nat) (tl : Bytes) : Mem :=
  let p := der + tl.length
  let m1 := memMove m (p + 1) val ((len + 7) / 8)
  let m2 :=
    if len % 8 != 0 then
      let i := p + 1 + len / 8
      let sh := UInt8.ofNat (8 - len % 8)
      set1 (set1 m1 i ((m1 i >>> sh) <<< sh)) p sh
    else set1 m1 p 0
  write m2 der tl

/-! #### decoders: `val` (and `len`) may overlap `der`; `(voff, l)` = result of `derDec2` -/

/-- `derTUINTDec` after a successful `derDec2`: validity of V, `ex`, `memMove(val, v + ex, l - ex); memRev(val, l - ex); *len = l - ex`.
    `none` = the function returns SIZE_MAX without writing. -/
def derTUINTDec (m : Mem) (val lenp : Option Nat) (der voff l : Nat) : Option Mem :=
  let v := der + voff
  if l < 1 || m v &&& 128 != 0 || (m v == 0 && l > 1 && m (v + 1) &&& 128 == 0) then none
  else
    let ex := if m v == 0 && l > 1 && m (v + 1) &&& 128 != 0 then 1 else 0
    let m1 := match val with
      | some val => memRev (memMove m val (v + ex) (l - ex)) val (l - ex)
      | none => m
    some (match lenp with
      | some lp => putSize m1 lp (l - ex)
      | none => m1)

/-- `derTUINTDec2(val, der, count, tag, len)` -/
def derTUINTDec2 (m : Mem) (val : Option Nat) (der voff l len : Nat) : Option Mem :=
  let v := der + voff
  if l < 1 || m v &&& 128 != 0 || (m v == 0 && l > 1 && m (v + 1) &&& 128 == 0) then none
  else
    let ex := if m v == 0 && l > 1 && m (v + 1) &&& 128 != 0 then 1 else 0
    if l - ex != len then none
    else some (match val with
      | some val => memRev (memMove m val (v + ex) len) val len
      | none => m)

/-- validity test of a BIT STRING value (current /repo: pad ≤ 7, no pad in an empty string, pad bits zero) -/
def bitOk (m : Mem) (v l : Nat) : Bool :=
  !(l < 1 || m v > 7 || (m v != 0 && l == 1) || (m (v + l - 1) &&& ((1 <<< m v) - 1)) != 0)

/-- `derTBITDec` as FIXED (docs/C11.fix-4.diff): `pad = v[0]` BEFORE `memMove(val, v + 1, l - 1)`; `*len = (l-1)*8 - pad` -/
def derTBITDec (m : Mem) (val lenp : Option Nat) (der voff l : Nat) : Option Mem :=
  let v := der + voff
  if !bitOk m v l then none
  else
    let pad := (m v).toNat
    let m1 := match val with
      | some val => memMove m val (v + 1) (l - 1)
      | none => m
    some (match lenp with
      | some lp => putSize m1 lp ((l - 1) * 8 - pad)
      | none => m1)

/-- `derTBITDec` before the fix: `v[0]` re-read after the move (`size_t` arithmetic wraps) -/
def derTBITDec_old (m : Mem) (val lenp : Option Nat) (der voff l : Nat) : Option Mem :=
  let v := der + voff
  if !bitOk m v l then none
  else
    let m1 := match val with
      | some val => memMove m val (v + 1) (l - 1)
      | none => m
    some (match lenp with
      | some lp => putSize m1 lp (((l - 1) * 8 + 2 ^ 64 - (m1 v).toNat) % 2 ^ 64)
      | none => m1)

def derTBITDec2 (m : Mem) (val : Option Nat) (der voff l len : Nat) : Option Mem :=
  let v := der + voff
  if !bitOk m v l || (l - 1) * 8 != len + (m v).toNat then none
  else some (match val with
    | some val => memMove m val (v + 1) (l - 1)
    | none => m)

/-- `derTOCTDec`: `memMove(val, v, l); *len = l` -/
def derTOCTDec (m : Mem) (val lenp : Option Nat) (der voff l : Nat) : Mem :=
  let m1 := match val with
    | some val => memMove m val (der + voff) l
    | none => m
  match lenp with
  | some lp => putSize m1 lp l
  | none => m1

/-- `derTOCTDec2(val, der, count, tag, len)` after `derDec3` (which checks `l == len`) -/
def derTOCTDec2 (m : Mem) (val : Option Nat) (der voff l : Nat) : Mem :=
  match val with
  | some val => memMove m val (der + voff) l
  | none => m

def isPrintable (b : UInt8) : Bool :=
  (48 ≤ b && b ≤ 57) || (65 ≤ b && b ≤ 90) || (97 ≤ b && b ≤ 122) ||
  b == 32 || b == 39 || b == 40 || b == 41 || b == 43 || b == 44 || b == 45 || b == 46 || b == 47 ||
  b == 58 || b == 61 || b == 63

/-- `derTPSTRDec`: all of V is checked (read) first, then `memMove(val, v, l); val[l] = 0; *len = l` -/
def derTPSTRDec (m : Mem) (val lenp : Option Nat) (der voff l : Nat) : Option Mem :=
  if !(read m (der + voff) l).all isPrintable then none
  else
    let m1 := match val with
      | some val => set1 (memMove m val (der + voff) l) (val + l) 0
      | none => m
    some (match lenp with
      | some lp => putSize m1 lp l
      | none => m1)

end Bee2V.C11

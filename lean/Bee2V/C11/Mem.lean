/-
C11 — byte-addressed memory and the models of mem.c's overlap-tolerant helpers.

`Mem := Nat → UInt8`: total memory with natural-number addresses (no wrap-around of
`size_t`: a valid C buffer never wraps; recorded as an assumption).  A pointer is an
address; the placement of the buffers of a call is the tuple of its address arguments, and
every theorem quantifies over ALL of them.

`memMove` is "snapshot, then write": the new memory is defined from the OLD one (`m`), the
libc contract of `memmove`.  `memCopy` is `none` on overlapping buffers (libc `memcpy` is
undefined there), so a model that copies between overlapping regions cannot be proved correct.
No Mathlib; everything here is executable and used by the driver.
-/
namespace Bee2V.C11

abbrev Mem := Nat → UInt8
abbrev Bytes := List UInt8

/-- the octets `[a, a+n)` -/
def read (m : Mem) (a n : Nat) : Bytes := (List.range n).map fun i => m (a + i)

/-- store the octets `bs` at `a` -/
def write (m : Mem) (a : Nat) (bs : Bytes) : Mem :=
  fun x => if a ≤ x ∧ x < a + bs.length then bs.getD (x - a) 0 else m x

/-- `((octet*)p)[0] = v` -/
def set1 (m : Mem) (a : Nat) (v : UInt8) : Mem := fun x => if x = a then v else m x

/-- mem.c `memIsDisjoint2` (pointer comparison on addresses) -/
def disj2 (a n b k : Nat) : Bool := n == 0 || k == 0 || decide (a + n ≤ b) || decide (a ≥ b + k)

/-- mem.c `memIsDisjoint` -/
def disj (a b n : Nat) : Bool := n == 0 || decide (a + n ≤ b) || decide (a ≥ b + n)

/-- mem.c `memIsSameOrDisjoint` -/
def sameOrDisj (a b n : Nat) : Bool := a == b || disj a b n

/-- mem.c `memMove` = libc `memmove`: every octet of `[d, d+n)` receives the OLD octet of the source -/
def memMove (m : Mem) (d s n : Nat) : Mem :=
  fun x => if d ≤ x ∧ x < d + n then m (s + (x - d)) else m x

/-- mem.c `memCopy` = libc `memcpy`: undefined (none) when the buffers overlap -/
def memCopy (m : Mem) (d s n : Nat) : Option Mem :=
  if disj s d n then some (memMove m d s n) else none

/-- mem.c `memSet` -/
def memSet (m : Mem) (d : Nat) (c : UInt8) (n : Nat) : Mem :=
  fun x => if d ≤ x ∧ x < d + n then c else m x

/-- one pass of the rotation loop of `memJoin`:
    `o = dest[0]; memMove(dest, dest + 1, n - 1); dest[n - 1] = o;` -/
def rotl1 (m : Mem) (dest n : Nat) : Mem :=
  -- `o` is the OLD first octet; written functionally (the value is looked up only when the last
  -- octet is read) so that the compiled driver does not re-evaluate it at every nesting level
  fun x => if x = dest + n - 1 then m dest else memMove m dest (dest + 1) (n - 1) x

/-- `for (i = 0; i < k; ++i) <rotl1>` -/
def rotLoop (dest n : Nat) : Nat → Mem → Mem
  | 0, m => m
  | k + 1, m => rotLoop dest n k (rotl1 m dest n)

/-- mem.c `memJoin`, branch for branch; the fifth branch is the `goto repeat` with
    `count1--, count2--, src1++, dest++` (here: the recursive call). -/
def memJoin (m : Mem) (dest src1 c1 src2 c2 : Nat) : Mem :=
  if disj2 dest c1 src2 c2 then
    memMove (memMove m dest src1 c1) (dest + c1) src2 c2
  else if disj2 (dest + c1) c2 src1 c1 then
    memMove (memMove m (dest + c1) src2 c2) dest src1 c1
  else if disj2 dest c2 src1 c1 then
    rotLoop dest (c1 + c2) c2 (memMove (memMove m dest src2 c2) (dest + c2) src1 c1)
  else if disj2 (dest + c2) c1 src2 c2 then
    rotLoop dest (c1 + c2) c2 (memMove (memMove m (dest + c2) src1 c1) dest src2 c2)
  else
    let m1 := set1 m dest (m src1)
    let m2 := set1 m1 (dest + c1 + c2 - 1) (m1 (src2 + c2 - 1))
    memJoin m2 (dest + 1) (src1 + 1) (c1 - 1) src2 (c2 - 1)
termination_by c1 + c2
decreasing_by
  rename_i h1 _ _ _
  simp [disj2] at h1
  omega

/-- which branch `memJoin` takes first (1..5) — coverage counter of the driver -/
def memJoinBranch (dest src1 c1 src2 c2 : Nat) : Nat :=
  if disj2 dest c1 src2 c2 then 1
  else if disj2 (dest + c1) c2 src1 c1 then 2
  else if disj2 dest c2 src1 c1 then 3
  else if disj2 (dest + c2) c1 src2 c2 then 4
  else 5

/-- mem.c `memXor`, octet loop (`*dest = *src1 ^ *src2; ++src1; ++src2; ++dest`), ascending.
    The word loop does the same on little-endian words; its word granularity is the reason
    for the same-or-disjoint precondition. -/
def memXor (m : Mem) (d s1 s2 : Nat) : Nat → Mem
  | 0 => m
  | n + 1 => memXor (set1 m d (m s1 ^^^ m s2)) (d + 1) (s1 + 1) (s2 + 1) n

/-- mem.c `memXor2` -/
def memXor2 (m : Mem) (d s : Nat) : Nat → Mem
  | 0 => m
  | n + 1 => memXor2 (set1 m d (m d ^^^ m s)) (d + 1) (s + 1) n

def xorBytes : Bytes → Bytes → Bytes
  | a :: as, b :: bs => (a ^^^ b) :: xorBytes as bs
  | _, _ => []

end Bee2V.C11

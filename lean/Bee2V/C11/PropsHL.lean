import Bee2V.C11.LemmasHL
import Bee2V.Gen.C11Inv
/-
C11 — high-level functions with several octet buffers about whose overlap the HEADER IS SILENT (the inventory
Bee2V/Gen/C11Inv.lean is regenerated from include/bee2/{core,crypto}/*.h on every run).  Their models are order
programs (Prog.lean): everything is absorbed into the blob, results are stored last; for the named bign key
transport functions the programs follow the statements.  All addresses are universally quantified.
-/
namespace Bee2V.C11

/-- generic public-key / container function: for EVERY placement inside the model's domain the cryptographic core
    receives the OLD contents of all inputs (in the order of the parameter list) and the outputs are computed from
    them; outside the domain (a not-tolerated pair overlaps) the model makes no claim. -/
theorem progIO_overlap (c : Core) (m : Mem) (ins : List (Nat × Nat)) (outs : List (String × Nat × Nat)) :
    run c (progIO true ins outs) ⟨m, [], 0⟩ =
      some ⟨emitMem c (ins.map fun p => read m p.1 p.2) outs m, ins.map fun p => read m p.1 p.2, 0⟩ ∧
    run c (progIO false ins outs) ⟨m, [], 0⟩ = none := by
  constructor
  · simp only [progIO, run, if_true]
    rw [run_absorbs, run_emits]
    simp
  · simp [progIO, run]

/-- one output over one input, e.g. `bignPubkeyCalc(pubkey, params, privkey)` in place -/
example (c : Core) (m : Mem) (a : Nat) :
    (run c (progIO true [(a, 32)] [("pub", a, 64)]) ⟨m, [], 0⟩).map (·.tr) = some [read m a 32] := by
  rw [(progIO_overlap c m _ _).1]; rfl

/-- bign.h `bignKeyWrap` (header silent; source: "буферы key, header и token могут пересекаться"): for EVERY placement
    of token, key, header, pubkey the KWP plaintext is `old key ‖ saved header`, where the saved header is a function
    of the OLD header octets — also when the header lies inside `[token + no, token + no + len)` or the token is built
    in place over `key ‖ header`. -/
theorem bignKeyWrap_overlap (c : Core) (id : String) (m : Mem) (token key len header pubkey no : Nat) (hdrNull : Bool)
    (hg : ∀ tr, (c.g (id ++ ".hdr") tr 16).length = 16) :
    let P := read m pubkey (2 * no)
    let Hd := read m header (if hdrNull then 0 else 16)
    (run c (progBignKeyWrap id token key len header pubkey no hdrNull) ⟨m, [], 0⟩).map (·.tr) =
      some [P, Hd, read m key len ++ c.g (id ++ ".hdr") [P, Hd] 16] := by
  intro P Hd
  have e : read (write (memMove m (token + no) key len) (token + no + len) (c.g (id ++ ".hdr") [P, Hd] 16))
      (token + no) (len + 16) = read m key len ++ c.g (id ++ ".hdr") [P, Hd] 16 := by
    rw [read_append]
    congr 1
    · rw [read_write_disj _ _ _ _ _ (by rw [disj2_iff, hg]; omega)]
      exact read_memMove_self m (token + no) key len
    · have := read_write_same (memMove m (token + no) key len) (token + no + len) (c.g (id ++ ".hdr") [P, Hd] 16)
      rwa [hg] at this
  simp only [run, progBignKeyWrap, List.nil_append, List.cons_append, Option.map_some]
  simp only [P, Hd] at e
  rw [e]

/-- non-vacuity: in place, `buf = key ‖ header`, `token = key = buf` (no = 32, len = 48: the header lies inside the
    region the key is moved to) -/
example : disj2 (0 + 32) 48 48 16 = false := by decide

/-- the seeded change C02-m5 reads the header from the memory in which the key has ALREADY been moved -/
theorem bignKeyWrap_m5_reads_moved_header (c : Core) (id : String) (m : Mem) (token key len header pubkey no : Nat) :
    (run c (progBignKeyWrap_m5 id token key len header pubkey no) ⟨m, [], 0⟩).map (·.tr) =
      some [read m pubkey (2 * no),
            read (memMove (memMove m (token + no) key len) (token + no + len) header 16)
              (token + no) (len + 16)] := by
  simp [run, progBignKeyWrap_m5]

/-- bign.h `bignKeyUnwrap` (header silent; source: "буферы могут пересекаться"), code as fixed by docs/C11.fix-6.diff:
    for every placement — in place (key = token), key over the tail of token, header inside key — the core receives the
    OLD private key, point, token tail, header and token body. -/
theorem bignKeyUnwrap_overlap (c : Core) (id : String) (m : Mem) (key token len header privkey no : Nat) (hdrNull : Bool) :
    let K := [read m privkey no, read m token no, read m (token + len - 16) 16, read m header (if hdrNull then 0 else 16)]
    let B := read m (token + no) (len - no - 16)
    run c (progBignKeyUnwrap id key token len header privkey no hdrNull) ⟨m, [], 0⟩ =
      let m1 := write (memMove m key (token + no) (len - no - 16)) key (c.x (id ++ ".x") K B)
      if c.ok (id ++ ".v") (K ++ [B]) [] then some ⟨m1, K ++ [B], 0⟩
      else some ⟨memSet m1 key 0 (len - no - 16), K ++ [B], ERR_BAD_KEYTOKEN⟩ := by
  intro K B
  have h0 : ∀ mm : Mem, read mm 0 0 = [] := fun _ => rfl
  simp only [run, progBignKeyUnwrap, List.nil_append, List.cons_append, K, B,
    read_memMove_self m key (token + no) (len - no - 16), h0]

/-! ### the inventory is closed -/

/-- functions of the inventory whose header is silent and which are covered by an order program + the pairwise
    overlapped-vs-disjoint sweep (harness/c11_hl.c) -/
def hlCovered : List String := [
  "bignPubkeyCalc", "bignDH", "bignSign", "bignSign2", "bignKeyWrap", "bignKeyUnwrap", "bignIdExtract", "bignIdSign",
  "bignIdSign2", "bignOidToDER", "bign96PubkeyCalc", "bign96Sign", "bign96Sign2",
  "belsGenMi", "belsGenMid", "belsShare", "belsShare2", "belsShare3", "belsRecover", "belsRecover2",
  "bakeKDF", "bakeSWU", "bpkiPrivkeyWrap", "bpkiPrivkeyUnwrap", "bpkiShareWrap", "bpkiShareUnwrap", "bpkiCSRRewrap",
  "bpkiCSRUnwrap", "btokCVCWrap", "btokCVCIss", "dstuSign", "g12sSign", "pfokPubkeyCalc", "pfokDH", "pfokMTI",
  "hexTo", "hexToRev", "u16From", "u16To"]

/-- silent functions that are NOT exercised, each with its reason in xlate/x_c11_hl.py (`NOT_EXERCISED`) and docs/C11.md -/
def hlNotExercised : List String := [
  "objCopy", "objAppend", "rngESRead",
  "bakeBMQVStep3", "bakeBMQVStep4", "bakeBMQVRunA", "bakeBMQVRunB", "bakeBSTSStep3", "bakeBSTSStep4", "bakeBSTSRunA",
  "bakeBSTSRunB", "bakeBPACEStep3", "bakeBPACEStep4", "bakeBPACEStep5", "bakeBPACERunA", "bakeBPACERunB",
  "btokBAuthTStep3", "btokBAuthCTStep4"]

/-- fail-closed: every function with >= 2 octet buffers whose header neither allows nor excludes overlap is in one
    of the two lists; a new such function (or a removed exclusion sentence) makes this theorem fail -/
theorem inventory_complete :
    Bee2V.Gen.C11Inv.silent.all (fun f => hlCovered.contains f || hlNotExercised.contains f) = true := by decide

end Bee2V.C11

import Bee2V.C11.LemmasMem
import Bee2V.C11.Prog
import Bee2V.C11.Der
import Bee2V.Gen.C11List
/-
C11 — property theorems.  Every address is a universally quantified natural number: the
theorems hold for EVERY placement of the buffers (identical, shifted by any offset, nested,
aux inputs inside the output region); the only hypotheses are the exclusions the header states.
-/
namespace Bee2V.C11

/-- mem.h `memMove` ("Буферы src и dest могут пересекаться"): for every placement the destination
    receives the OLD source octets and nothing else changes. -/
theorem memMove_overlap (m : Mem) (dest src n : Nat) :
    read (memMove m dest src n) dest n = read m src n ∧
    ∀ x, ¬ (dest ≤ x ∧ x < dest + n) → memMove m dest src n x = m x := by
  constructor
  · rw [read_eq_iff]
    intro i hi
    have : dest ≤ dest + i ∧ dest + i < dest + n := by omega
    simp only [memMove, this, and_self, if_true]
    congr 1; omega
  · intro x hx
    simp only [memMove, hx, if_false]

example : read (memMove (fun x => UInt8.ofNat x) 2 0 6) 0 8 = [0, 1, 0, 1, 2, 3, 4, 5] := by decide

/-- mem.h `memJoin` ("Буферы src1, src2 и dest могут пересекаться"): for EVERY placement of dest, src1,
    src2 and all lengths, through all five branches, the rotation loops and the `goto repeat`:
    `dest[0 .. c1+c2) = old src1 ‖ old src2`, and nothing outside `dest` changes. -/
theorem memJoin_overlap (m : Mem) (dest src1 c1 src2 c2 : Nat) :
    read (memJoin m dest src1 c1 src2 c2) dest (c1 + c2) = read m src1 c1 ++ read m src2 c2 ∧
    ∀ x, ¬ (dest ≤ x ∧ x < dest + (c1 + c2)) → memJoin m dest src1 c1 src2 c2 x = m x := by
  rw [memJoin_eq_spec]
  constructor
  · rw [read_append]
    congr 1
    · rw [read_eq_iff]
      intro i hi
      have : dest ≤ dest + i ∧ dest + i < dest + c1 := by omega
      simp only [joinSpec, this, and_self, if_true]
      congr 1; omega
    · rw [read_eq_iff]
      intro i hi
      have a : ¬ (dest ≤ dest + c1 + i ∧ dest + c1 + i < dest + c1) := by omega
      have b : dest + c1 ≤ dest + c1 + i ∧ dest + c1 + i < dest + c1 + c2 := by omega
      simp only [joinSpec, a, b, and_self, if_true, if_false]
      congr 1; omega
  · intro x hx
    have a : ¬ (dest ≤ x ∧ x < dest + c1) := by omega
    have b : ¬ (dest + c1 ≤ x ∧ x < dest + c1 + c2) := by omega
    simp only [joinSpec, a, b, if_false]

/-- non-vacuity: a placement that goes through the fifth branch (src1 and src2 both straddle dest) -/
example : memJoinBranch 2 3 4 4 4 = 5 ∧
    read (memJoin (fun x => UInt8.ofNat x) 2 3 4 4 4) 2 8 = [3, 4, 5, 6, 4, 5, 6, 7] := by
  rw [memJoin_eq_spec]; decide

/-! ### coverage of the header remarks (fail-closed) -/

/-- functions of include/bee2/core and include/bee2/crypto documented as overlap-tolerant that this
    file (or, for the last two, another property) covers, with the theorem that covers them -/
def covered : List (String × String) := [
  ("memMove", "memMove_overlap"), ("memJoin", "memJoin_overlap")]

end Bee2V.C11

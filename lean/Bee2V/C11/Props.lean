import Bee2V.C11.Lemmas
import Bee2V.C11.LemmasConc
import Bee2V.Gen.C11List
/-
C11 — property theorems.  Every address is a universally quantified natural number: the
theorems hold for EVERY placement of the buffers (identical, shifted by any offset, nested,
aux inputs inside the output region); the only hypotheses are the exclusions the header states.
-/
namespace Bee2V.C11

/-- mem.h `memMove` ("Буферы src и dest могут пересекаться"): for every placement the destination
    receives the OLD source octets and nothing else changes. -/
theorem memMove_overlap (m : Mem) (dest src n : Nat) :
    read (memMove m dest src n) dest n = read m src n ∧
    ∀ x, ¬ (dest ≤ x ∧ x < dest + n) → memMove m dest src n x = m x := by
  constructor
  · rw [read_eq_iff]
    intro i hi
    have : dest ≤ dest + i ∧ dest + i < dest + n := by omega
    simp only [memMove, this, and_self, if_true]
    congr 1; omega
  · intro x hx
    simp only [memMove, hx, if_false]

example : read (memMove (fun x => UInt8.ofNat x) 2 0 6) 0 8 = [0, 1, 0, 1, 2, 3, 4, 5] := by decide

/-- mem.h `memJoin` ("Буферы src1, src2 и dest могут пересекаться"): for EVERY placement of dest, src1,
    src2 and all lengths, through all five branches, the rotation loops and the `goto repeat`:
    `dest[0 .. c1+c2) = old src1 ‖ old src2`, and nothing outside `dest` changes. -/
theorem memJoin_overlap (m : Mem) (dest src1 c1 src2 c2 : Nat) :
    read (memJoin m dest src1 c1 src2 c2) dest (c1 + c2) = read m src1 c1 ++ read m src2 c2 ∧
    ∀ x, ¬ (dest ≤ x ∧ x < dest + (c1 + c2)) → memJoin m dest src1 c1 src2 c2 x = m x := by
  rw [memJoin_eq_spec]
  constructor
  · rw [read_append]
    congr 1
    · rw [read_eq_iff]
      intro i hi
      have : dest ≤ dest + i ∧ dest + i < dest + c1 := by omega
      simp only [joinSpec, this, and_self, if_true]
      congr 1; omega
    · rw [read_eq_iff]
      intro i hi
      have a : ¬ (dest ≤ dest + c1 + i ∧ dest + c1 + i < dest + c1) := by omega
      have b : dest + c1 ≤ dest + c1 + i ∧ dest + c1 + i < dest + c1 + c2 := by omega
      simp only [joinSpec, a, b, and_self, if_true, if_false]
      congr 1; omega
  · intro x hx
    have a : ¬ (dest ≤ x ∧ x < dest + c1) := by omega
    have b : ¬ (dest + c1 ≤ x ∧ x < dest + c1 + c2) := by omega
    simp only [joinSpec, a, b, if_false]

/-- non-vacuity: a placement that goes through the fifth branch (src1 and src2 both straddle dest) -/
example : memJoinBranch 2 3 4 4 4 = 5 ∧
    read (memJoin (fun x => UInt8.ofNat x) 2 3 4 4 4) 2 8 = [3, 4, 5, 6, 4, 5, 6, 7] := by
  rw [memJoin_eq_spec]; decide

/-! ### high-level functions: orderings of reads and writes, abstract core -/

/-- belt.h beltCBCEncr/Decr, beltCFBEncr/Decr, beltCTR, beltBDEEncr/Decr ("Буферы могут пересекаться"):
    for every placement of dest, src, key, iv the core receives the OLD key, iv and src, and dest
    receives its result; nothing else is written. -/
theorem beltModeIv_overlap (c : Core) (id : String) (m : Mem) (dest src count key len iv : Nat) :
    run c (progModeIv id dest src count key len iv) ⟨m, [], 0⟩ =
      some ⟨write (memMove m dest src count) dest (c.x id [read m key len, read m iv 16] (read m src count)),
            [read m key len, read m iv 16, read m src count], 0⟩ := by
  simp [run, progModeIv, (memMove_overlap m dest src count).1]

example : (run ⟨fun _ tr b => (tr.foldl (· ++ ·) []) ++ b, fun _ _ _ => [], fun _ _ _ => true⟩
    (progModeIv "x" 0 1 2 1 1 2) ⟨fun x => UInt8.ofNat x, [], 0⟩).map (fun s => read s.mem 0 4) = some [1, 2, 3, 4] := by
  simp [beltModeIv_overlap]; decide

/-- belt.h beltSDEEncr/Decr ("Буферы могут пересекаться"), code as fixed by docs/C11.fix-1.diff -/
theorem beltSDE_overlap (c : Core) (id : String) (m : Mem) (dest src count key len iv : Nat) :
    run c (progSDE id dest src count key len iv) ⟨m, [], 0⟩ =
      some ⟨write (memMove m dest src count) dest (c.x id [read m key len, read m iv 16] (read m src count)),
            [read m key len, read m iv 16, read m src count], 0⟩ := by
  simp [run, progSDE, (memMove_overlap m dest src count).1]

/-- the code before the fix read iv after the move: what reaches the core is the iv region of the
    MOVED memory — equal to the old iv only when iv and dest are disjoint (or dest = src) -/
theorem beltSDE_old_reads_moved_iv (c : Core) (id : String) (m : Mem) (dest src count key len iv : Nat) :
    (run c (progSDE_old id dest src count key len iv) ⟨m, [], 0⟩).map (·.tr) =
      some [read m key len, read (memMove m dest src count) iv 16, read m src count] := by
  simp [run, progSDE_old, (memMove_overlap m dest src count).1]

/-- belt.h beltFMTEncr/Decr ("Все буферы, кроме iv и [count]dest, могут пересекаться"; the same exclusion
    is an ERR_BAD_INPUT check of the code): under the header's exclusion, as above. -/
theorem beltFMT_overlap (c : Core) (id : String) (m : Mem) (dest src count key len iv : Nat) (ivNull : Bool)
    (h : ivNull = true ∨ disj2 dest (2 * count) iv 16 = true) :
    run c (progFMT id dest src count key len iv ivNull) ⟨m, [], 0⟩ =
      some ⟨write (memMove m dest src (2 * count)) dest
              (c.x id [read m key len, read m iv (if ivNull then 0 else 16)] (read m src (2 * count))),
            [read m key len, read m iv (if ivNull then 0 else 16), read m src (2 * count)], 0⟩ := by
  have hz : ∀ (mm : Mem), read mm iv 0 = [] := fun _ => rfl
  rcases h with h | h
  · subst h
    simp [run, progFMT, (memMove_overlap m dest src (2 * count)).1, hz]
  · cases ivNull
    · simp [run, progFMT, h, (memMove_overlap m dest src (2 * count)).1, read_memMove_disj _ _ _ _ _ _ h]
    · simp [run, progFMT, (memMove_overlap m dest src (2 * count)).1, hz]

/-- …and when the exclusion is violated the function refuses (ERR_BAD_INPUT) without writing -/
theorem beltFMT_rejects (c : Core) (id : String) (m : Mem) (dest src count key len iv : Nat)
    (h : disj2 dest (2 * count) iv 16 = false) :
    (run c (progFMT id dest src count key len iv false) ⟨m, [], 0⟩).map (fun s => (s.ret, s.tr)) =
      some (ERR_BAD_INPUT, []) := by
  simp [run, progFMT, h]

example : disj2 0 (2 * 4) 8 16 = true := by decide

/-- belt.h beltMAC, beltHMAC ("Буферы могут пересекаться"): mac may lie anywhere, also over src or key -/
theorem beltMAC_overlap (c : Core) (id : String) (m : Mem) (mac src count key len n : Nat) :
    run c (progMAC id mac src count key len n) ⟨m, [], 0⟩ =
      some ⟨write m mac (c.g id [read m key len, read m src count] n), [read m key len, read m src count], 0⟩ := by
  simp [run, progMAC]

/-- belt.h beltHash, bash.h bashHash ("Буферы могут пересекаться") -/
theorem hash_overlap (c : Core) (id : String) (m : Mem) (hash src count n : Nat) :
    run c (progHash id hash src count n) ⟨m, [], 0⟩ =
      some ⟨write m hash (c.g id [read m src count] n), [read m src count], 0⟩ := by
  simp [run, progHash]

/-- belt.h beltKRP ("Буферы могут пересекаться"): header is absorbed before dest is written -/
theorem beltKRP_overlap (c : Core) (id : String) (m : Mem) (dest mm src n level header : Nat) :
    run c (progKRP id dest mm src n level header) ⟨m, [], 0⟩ =
      some ⟨write m dest (c.g id [read m level 12, read m src n, read m header 16] mm),
            [read m level 12, read m src n, read m header 16], 0⟩ := by
  simp [run, progKRP]

/-- belt.h beltDWPWrap, beltCHEWrap ("Буферы могут пересекаться, за исключением пересечения dest и mac"):
    the ciphertext is the core's function of old key, iv, src2 (absorbed by StepI BEFORE the move) and
    old src1; the mac is computed from these and the ciphertext. -/
theorem beltWrap_overlap (c : Core) (idx idg : String) (m : Mem) (dest mac src1 count1 src2 count2 key len iv : Nat)
    (hlen : ∀ tr b, (c.x idx tr b).length = b.length) :
    let K := [read m key len, read m iv 16, read m src2 count2]
    let C := c.x idx K (read m src1 count1)
    let T := c.g idg (K ++ [read m src1 count1, C]) 8
    run c (progWrap idx idg dest mac src1 count1 src2 count2 key len iv) ⟨m, [], 0⟩ =
      some ⟨write (write (memMove m dest src1 count1) dest C) mac T, K ++ [read m src1 count1, C], 0⟩ := by
  intro K C T
  have hC : C.length = count1 := by simp [C, hlen, read_length]
  have h1 := (memMove_overlap m dest src1 count1).1
  have h2 : read (write (memMove m dest src1 count1) dest C) dest count1 = C := by
    rw [← hC]; exact read_write_same _ _ _
  simp [run, progWrap, h1, K, C, T]
  constructor
  · simp [C, K] at h2; rw [h2]
  · simp [C, K] at h2; rw [h2]

/-- under the header's exclusion (dest ∩ mac = ∅) the ciphertext in dest survives the write of mac -/
theorem beltWrap_dest (c : Core) (idx idg : String) (m : Mem) (dest mac src1 count1 src2 count2 key len iv : Nat)
    (hlen : ∀ tr b, (c.x idx tr b).length = b.length) (hg : ∀ tr n, (c.g idg tr n).length = n)
    (hd : disj2 dest count1 mac 8 = true) :
    (run c (progWrap idx idg dest mac src1 count1 src2 count2 key len iv) ⟨m, [], 0⟩).map
        (fun s => read s.mem dest count1) =
      some (c.x idx [read m key len, read m iv 16, read m src2 count2] (read m src1 count1)) := by
  have := beltWrap_overlap c idx idg m dest mac src1 count1 src2 count2 key len iv hlen
  simp only at this
  rw [this]
  simp only [Option.map_some, Option.some.injEq]
  rw [disj2_iff] at hd
  have hC : (c.x idx [read m key len, read m iv 16, read m src2 count2] (read m src1 count1)).length = count1 := by
    simp [hlen, read_length]
  apply List.ext_getElem
  · simp [read_length, hC]
  · intro i h1 h2
    simp [read_length] at h1
    simp only [read_getElem, write, hg, hC]
    have a : ¬ (mac ≤ dest + i ∧ dest + i < mac + 8) := by omega
    have b : dest ≤ dest + i ∧ dest + i < dest + count1 := by omega
    simp [a, b, List.getD, h2]

/-- belt.h beltDWPUnwrap, beltCHEUnwrap ("Буферы могут пересекаться"): the mac is verified (read) BEFORE
    dest is written, so mac, key, iv, src2 may lie inside dest -/
theorem beltUnwrap_overlap (c : Core) (idx idv : String) (m : Mem) (dest src1 count1 src2 count2 mac key len iv : Nat) :
    let K := [read m key len, read m iv 16, read m src2 count2, read m src1 count1]
    run c (progUnwrap idx idv dest src1 count1 src2 count2 mac key len iv) ⟨m, [], 0⟩ =
      if c.ok idv K (read m mac 8) then
        some ⟨write (memMove m dest src1 count1) dest (c.x idx K (read m src1 count1)), K ++ [read m src1 count1], 0⟩
      else some ⟨memSet m 0 0 0, K, ERR_BAD_MAC⟩ := by
  intro K
  simp only [run, progUnwrap, List.nil_append, List.cons_append, K]
  split
  · simp [(memMove_overlap m dest src1 count1).1]
  · rfl

/-- belt.h beltKWPWrap ("Буферы могут пересекаться"; the code additionally rejects header ∩ src with
    ERR_BAD_INPUT): with a header, for every placement of dest, src, header, key the core receives
    old src ‖ old header — through `memJoin`, all branches (code as fixed in /repo by 7d517b5). -/
theorem beltKWPWrap_overlap (c : Core) (id : String) (m : Mem) (dest src count header key len : Nat)
    (h : disj2 src count header 16 = true) :
    run c (progKWPWrap id dest src count header key len false) ⟨m, [], 0⟩ =
      some ⟨write (memJoin m dest src count header 16) dest (c.x id [read m key len] (read m src count ++ read m header 16)),
            [read m key len, read m src count ++ read m header 16], 0⟩ := by
  simp [run, progKWPWrap, h, (memJoin_overlap m dest src count header 16).1]

/-- …and without a header: old src ‖ 0^128 -/
theorem beltKWPWrap_nohdr_overlap (c : Core) (id : String) (m : Mem) (dest src count header key len : Nat) :
    run c (progKWPWrap id dest src count header key len true) ⟨m, [], 0⟩ =
      some ⟨write (memSet (memMove m dest src count) (dest + count) 0 16) dest
              (c.x id [read m key len] (read m src count ++ List.replicate 16 0)),
            [read m key len, read m src count ++ List.replicate 16 0], 0⟩ := by
  simp [run, progKWPWrap, read_move_zero]

/-- the defect F5 (fixed in /repo): with the premature `memMove` the core receives the src region of
    the MOVED memory -/
theorem beltKWPWrap_old_reads_moved_src (c : Core) (id : String) (m : Mem) (dest src count header key len : Nat) :
    (run c (progKWPWrap_old id dest src count header key len) ⟨m, [], 0⟩).map (·.tr) =
      some [read m key len, read (memMove m dest src count) src count ++ read (memMove m dest src count) header 16] := by
  simp [run, progKWPWrap_old, (memJoin_overlap (memMove m dest src count) dest src count header 16).1]

/-- belt.h beltKWPUnwrap ("Буферы могут пересекаться"), code as fixed by docs/C11.fix-2.diff: header and the
    last block of src are absorbed before dest is written -/
theorem beltKWPUnwrap_overlap (c : Core) (idx idv : String) (m : Mem) (dest src count header key len : Nat) (hdrNull : Bool) :
    let K := [read m key len, read m header (if hdrNull then 0 else 16), read m (src + count - 16) 16]
    run c (progKWPUnwrap idx idv dest src count header key len hdrNull) ⟨m, [], 0⟩ =
      let X := c.x idx K (read m src (count - 16))
      let m1 := write (memMove m dest src (count - 16)) dest X
      if c.ok idv (K ++ [read m src (count - 16)]) [] then some ⟨m1, K ++ [read m src (count - 16)], 0⟩
      else some ⟨memSet m1 dest 0 (count - 16), K ++ [read m src (count - 16)], ERR_BAD_KEYTOKEN⟩ := by
  intro K
  simp only [run, progKWPUnwrap, List.nil_append, List.cons_append, K, (memMove_overlap m dest src (count - 16)).1]
  have : read (write (memMove m dest src (count - 16)) dest
      (c.x idx [read m key len, read m header (if hdrNull = true then 0 else 16), read m (src + count - 16) 16]
        (read m src (count - 16)))) 0 0 = [] := by simp [read]
  rw [this]

/-! ### state-resident placements -/

/-- belt.h `belt*Start` ("Буферы key и state могут пересекаться"): the first statement moves key into
    `st->key`; for every placement of key — inside the state, over `st->key` at any offset — the rest of
    Start runs on the memory in which `st->key` holds the OLD key octets: the call is equivalent to the
    call with a separate key buffer. -/
theorem start_overlap (c : Core) (id : String) (m : Mem) (state kOff key len iv ivLen : Nat) (fields : List (Nat × Nat)) :
    run c (progStart id state kOff key len iv ivLen fields) ⟨m, [], 0⟩ =
      run c ((progStart id state kOff key len iv ivLen fields).tail) ⟨write m (state + kOff) (read m key len), [], 0⟩ := by
  simp [run, progStart, memMove_eq_write]

/-- …and the key field then holds exactly the old key -/
theorem start_key_field (m : Mem) (state kOff key len : Nat) :
    read (memMove m (state + kOff) key len) (state + kOff) len = read m key len :=
  (memMove_overlap m (state + kOff) key len).1

/-- belt.h/bash.h `*StepG` ("mac/hash и state могут пересекаться"): the value is completed inside the state
    and then moved out by `u32To`/`memMove`: for every placement of the output, also inside the state, it
    receives the octets the state held after `_internal`. -/
theorem stepG_overlap (c : Core) (id : String) (m : Mem) (mac n state keep mOff : Nat) :
    (run c (progStepG id mac n state keep mOff) ⟨m, [], 0⟩).map (fun s => read s.mem mac n) =
      some (read (write m state (c.x id [] (read m state keep))) (state + mOff) n) := by
  simp [run, progStepG, (memMove_overlap _ mac (state + mOff) n).1]

/-! ### mem.h memXor / memXor2 (dest either coincides with or is disjoint from each source) -/

/-- mem.h `memXor2` ("dest либо не пересекается, либо совпадает с буфером src") -/
theorem memXor2_sameOrDisjoint (m : Mem) (d s n : Nat) (h : sameOrDisj s d n = true) :
    read (memXor2 m d s n) d n = xorBytes (read m d n) (read m s n) := by
  have h' : s = d ∨ s + n ≤ d ∨ d + n ≤ s ∨ n = 0 := by
    simp [sameOrDisj, disj] at h; omega
  apply List.ext_getElem
  · have : ∀ (a b : Bytes), a.length = b.length → (xorBytes a b).length = a.length := by
      intro a; induction a with
      | nil => intro b _; cases b <;> simp [xorBytes]
      | cons x xs ih => intro b hb; cases b with
        | nil => simp at hb
        | cons y ys => simp [xorBytes]; exact ih ys (by simpa using hb)
    simp [read_length, this]
  · intro i h1 h2
    simp [read_length] at h1
    have key : ∀ (a b : Bytes) (i : Nat) (h : i < (xorBytes a b).length) (ha : i < a.length) (hb : i < b.length),
        (xorBytes a b)[i] = a[i] ^^^ b[i] := by
      intro a; induction a with
      | nil => intro b i h; simp [xorBytes] at h
      | cons x xs ih => intro b i h ha hb; cases b with
        | nil => simp at hb
        | cons y ys => cases i with
          | zero => simp [xorBytes]
          | succ j => simp [xorBytes]; exact ih ys j _ _ _
    rw [key _ _ _ h2 (by simp [read_length, h1]) (by simp [read_length, h1])]
    simp only [read_getElem]
    rw [memXor2_apply _ _ _ _ _ (by omega)]
    have : d ≤ d + i ∧ d + i < d + n := by omega
    simp only [this, and_self, if_true]
    congr 2; omega

example : sameOrDisj 3 3 8 = true ∧ sameOrDisj 0 8 8 = true := by decide

/-- mem.h `memXor` ("dest либо не пересекается, либо совпадает с каждым из буферов src1, src2"):
    every octet of dest is the XOR of the OLD source octets -/
theorem memXor_sameOrDisjoint (m : Mem) (d s1 s2 n : Nat)
    (h1 : sameOrDisj s1 d n = true) (h2 : sameOrDisj s2 d n = true) :
    ∀ i, i < n → memXor m d s1 s2 n (d + i) = m (s1 + i) ^^^ m (s2 + i) := by
  intro i hi
  have h1' : s1 = d ∨ s1 + n ≤ d ∨ d + n ≤ s1 := by simp [sameOrDisj, disj] at h1; omega
  have h2' : s2 = d ∨ s2 + n ≤ d ∨ d + n ≤ s2 := by simp [sameOrDisj, disj] at h2; omega
  rw [memXor_apply _ _ _ _ _ _ h1' h2']
  have : d ≤ d + i ∧ d + i < d + n := by omega
  simp only [this, and_self, if_true]
  congr 2 <;> omega

/-! ### der.h: `val` (and `len`) may overlap `der` -/

/-- der.h `derEnc` ("Буферы der и val могут пересекаться"), also derTPSTREnc / derOCTEnc which call it:
    for every placement of val against der and every TL prefix the code is `TL ‖ old val`. -/
theorem derEnc_overlap (m : Mem) (der val len : Nat) (tl : Bytes) :
    read (derEnc m der val len tl) der (tl.length + len) = tl ++ read m val len := by
  rw [read_append]
  congr 1
  · exact read_write_same _ _ _
  · rw [derEnc, read_write_disj _ _ _ _ _ (by rw [disj2_iff]; omega)]
    exact (memMove_overlap m (der + tl.length) val len).1

example : read (derEnc (fun x => UInt8.ofNat x) 0 1 3 [4, 3]) 0 5 = [4, 3, 1, 2, 3] := by decide

/-- der.h `derTOCTDec` ("val и len не пересекаются между собой, но могут пересекаться с буфером der"):
    for every placement of val and len against der (val, len disjoint from each other) val receives the OLD
    value octets and len the length. `(voff, l)` is any result of the TL parse. -/
theorem derTOCTDec_overlap (m : Mem) (val lp der voff l : Nat) (h : disj2 val l lp 8 = true) :
    read (derTOCTDec m (some val) (some lp) der voff l) val l = read m (der + voff) l ∧
    read (derTOCTDec m (some val) (some lp) der voff l) lp 8 = Bee2V.Proto.natLE 8 l := by
  constructor
  · simp only [derTOCTDec, putSize]
    rw [read_write_disj _ _ _ _ _ (by rw [natLE_length]; rw [disj2_iff] at h ⊢; omega)]
    exact (memMove_overlap m val (der + voff) l).1
  · simp only [derTOCTDec, putSize]
    have := read_write_same (memMove m val (der + voff) l) lp (Bee2V.Proto.natLE 8 l)
    rwa [natLE_length] at this

example : disj2 1 3 16 8 = true := by decide

/-- der.h `derTOCTDec2` / `derTBITDec2` ("буфер может пересекаться с der") -/
theorem derTOCTDec2_overlap (m : Mem) (val der voff l : Nat) :
    read (derTOCTDec2 m (some val) der voff l) val l = read m (der + voff) l :=
  (memMove_overlap m val (der + voff) l).1

/-- der.h `derTBITDec`, code as fixed by docs/C11.fix-4.diff: the bit length is computed from the OLD pad
    octet `der[voff]` for every placement of val (e.g. val = der + 1, which covers that octet). -/
theorem derTBITDec_overlap (m : Mem) (val lp der voff l : Nat) (hok : bitOk m (der + voff) l = true)
    (h : disj2 val (l - 1) lp 8 = true) :
    ∃ m', derTBITDec m (some val) (some lp) der voff l = some m' ∧
      read m' val (l - 1) = read m (der + voff + 1) (l - 1) ∧
      read m' lp 8 = Bee2V.Proto.natLE 8 ((l - 1) * 8 - (m (der + voff)).toNat) := by
  refine ⟨_, by simp [derTBITDec, hok]; rfl, ?_, ?_⟩
  · simp only [putSize]
    rw [read_write_disj _ _ _ _ _ (by rw [natLE_length]; rw [disj2_iff] at h ⊢; omega)]
    exact (memMove_overlap m val (der + voff + 1) (l - 1)).1
  · simp only [putSize]
    have := read_write_same (memMove m val (der + voff + 1) (l - 1)) lp
      (Bee2V.Proto.natLE 8 ((l - 1) * 8 - (m (der + voff)).toNat))
    rwa [natLE_length] at this

/-- the witness of the fix: der = 03 03 05 AB E0, val = der + 1 -/
example : bitOk (fun x => [3, 3, 5, 0xAB, 0xE0].getD x 0) 2 3 = true := by decide

/-! ### dstu.h dstuPointCompress / dstuPointRecover ("Буферы point и xpoint могут пересекаться") -/

/-- dstuPointRecover: xpoint is absorbed completely before point is written, so xpoint may lie anywhere inside
    point (and vice versa) -/
theorem dstuRecover_overlap (c : Core) (idg idv : String) (m : Mem) (point xpoint no : Nat) :
    run c (progDstuRecover idg idv point xpoint no) ⟨m, [], 0⟩ =
      if c.ok idv [read m xpoint no] [] then
        some ⟨write m point (c.g idg [read m xpoint no] (2 * no)), [read m xpoint no], 0⟩
      else some ⟨memSet m 0 0 0, [read m xpoint no], ERR_BAD_PARAMS⟩ := by
  simp only [run, progDstuRecover, List.nil_append]
  have : read m 0 0 = [] := rfl
  rw [this]

/-- dstuPointCompress: both coordinates are absorbed first; then `memMove(xpoint, point, no)` (any overlap) and
    the trace bit goes into the first octet, which is the OLD first octet of point -/
theorem dstuCompress_overlap (c : Core) (idx idv : String) (m : Mem) (xpoint point no : Nat) (h : 0 < no) :
    run c (progDstuCompress idx idv xpoint point no) ⟨m, [], 0⟩ =
      if c.ok idv [read m point (2 * no)] [] then
        some ⟨write (memMove m xpoint point no) xpoint (c.x idx [read m point (2 * no)] (read m point 1)),
              [read m point (2 * no), read m point 1], 0⟩
      else some ⟨memSet m 0 0 0, [read m point (2 * no)], ERR_BAD_POINT⟩ := by
  have e : read (memMove m xpoint point no) xpoint 1 = read m point 1 := by
    have := read_memMove_sub m xpoint point no 0 1 (by omega)
    simpa using this
  simp only [run, progDstuCompress, List.nil_append, List.cons_append, e]
  have : read m 0 0 = [] := rfl
  rw [this]

/-! ### coverage of the header remarks (fail-closed) -/

/-- every function of include/bee2/**/*.h documented as overlap-tolerant (or same-or-disjoint), with the theorem that
    covers it: in Props.lean / PropsConc.lean / PropsMath.lean of C11, or (`C05.…`) in Bee2V/C05/PropsAlias.lean -/
def covered : List (String × String) := [
  ("memMove", "memMove_overlap"), ("memJoin", "memJoin_overlap"),
  ("memXor", "memXor_sameOrDisjoint"), ("memXor2", "memXor2_sameOrDisjoint"),
  ("beltKeyExpand", "beltKeyExpand_overlap"), ("beltKeyExpand2", "beltKeyExpand2_overlap"),
  ("derEnc", "derEnc_overlap"), ("derTPSTREnc", "derEnc_overlap"), ("derTUINTEnc", "derTUINTEnc_overlap"), ("derTBITEnc", "derTBITEnc_overlap"),
  ("derTUINTDec", "derTUINTDec_overlap"), ("derTUINTDec2", "derTUINTDec2_overlap"), ("derTBITDec", "derTBITDec_overlap"), ("derTBITDec2", "derTOCTDec2_overlap"),
  ("derTOCTDec", "derTOCTDec_overlap"), ("derTOCTDec2", "derTOCTDec2_overlap"), ("derTPSTRDec", "derTPSTRDec_overlap"),
  ("beltCBCEncr", "beltModeIv_overlap"), ("beltCBCDecr", "beltModeIv_overlap"), ("beltCFBEncr", "beltModeIv_overlap"),
  ("beltCFBDecr", "beltModeIv_overlap"), ("beltCTR", "beltModeIv_overlap"), ("beltBDEEncr", "beltModeIv_overlap"),
  ("beltBDEDecr", "beltModeIv_overlap"), ("beltSDEEncr", "beltSDE_overlap"), ("beltSDEDecr", "beltSDE_overlap"),
  ("beltFMTEncr", "beltFMT_overlap"), ("beltFMTDecr", "beltFMT_overlap"),
  ("beltMAC", "beltMAC_overlap"), ("beltHMAC", "beltMAC_overlap"), ("beltHash", "hash_overlap"), ("bashHash", "hash_overlap"),
  ("beltDWPWrap", "beltWrap_overlap"), ("beltCHEWrap", "beltWrap_overlap"),
  ("beltDWPUnwrap", "beltUnwrap_overlap"), ("beltCHEUnwrap", "beltUnwrap_overlap"),
  ("beltKWPWrap", "beltKWPWrap_overlap"), ("beltKWPUnwrap", "beltKWPUnwrap_overlap"), ("beltKRP", "beltKRP_overlap"),
  ("beltWBLStart", "start_overlap"), ("beltECBStart", "start_overlap"), ("beltCBCStart", "start_overlap"),
  ("beltCFBStart", "start_overlap"), ("beltCTRStart", "start_overlap"), ("beltMACStart", "start_overlap"),
  ("beltDWPStart", "start_overlap"), ("beltCHEStart", "start_overlap"), ("beltBDEStart", "start_overlap"),
  ("beltSDEStart", "start_overlap"), ("beltFMTStart", "start_overlap"), ("beltKRPStart", "start_overlap"),
  ("beltMACStepG", "stepG_overlap"), ("beltMACStepG2", "stepG_overlap"), ("beltHashStepG", "stepG_overlap"),
  ("beltHashStepG2", "stepG_overlap"), ("beltHMACStepG2", "stepG_overlap"), ("bashHashStepG", "stepG_overlap"),
  ("dstuPointCompress", "dstuCompress_overlap"), ("dstuPointRecover", "dstuRecover_overlap"),
  -- math headers: proved here (Bee2V/C11/PropsMath.lean) …
  ("wwCopy", "wwCopy_alias"), ("wwXor", "wwXor_alias"), ("wwXor2", "wwXor2_alias"),
  ("ppMulW", "ppMulW_alias"), ("ppAddMulW", "ppAddMulW_alias"), ("zzAdd3", "zzAdd3_alias"),
  -- … or by C05 (Bee2V/C05/PropsAlias.lean; referenced by name in PropsMath.lean)
  ("zzAdd", "C05.zzAdd_alias"), ("zzAdd2", "C05.zzAdd2_alias"), ("zzAddW", "C05.zzAddW_alias"),
  ("zzSub", "C05.zzSub_alias"), ("zzSub2", "C05.zzSub2_alias"), ("zzSubW", "C05.zzSubW_alias"),
  ("zzNeg", "C05.zzNeg_alias"), ("zzMulW", "C05.zzMulW_alias"), ("zzAddMulW", "C05.zzAddMulW_alias"),
  ("zzSubMulW", "C05.zzSubMulW_alias"), ("zzDivW", "C05.zzDivW_alias"),
  ("zzAddMod", "C05.zzAddMod_safe_alias"), ("zzAddWMod", "C05.zzAddWMod_safe_alias"),
  ("zzSubMod", "C05.zzSubMod_safe_alias"), ("zzSubWMod", "C05.zzSubWMod_safe_alias"),
  ("zzNegMod", "C05.zzNegMod_safe_alias"), ("zzDoubleMod", "C05.zzDoubleMod_safe_alias"),
  ("zzHalfMod", "C05.zzHalfMod_safe_alias")]

/-- fail-closed: every function that the headers (as scanned on THIS run) document as overlap-tolerant is
    in the covered list; a new remark makes this theorem fail -/
theorem coverage_complete :
    Bee2V.Gen.C11List.scope.all (fun f => (covered.map (·.1)).contains f) = true := by decide

end Bee2V.C11

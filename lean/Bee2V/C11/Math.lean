import Bee2V.C05.ModelAlias
import Bee2V.C05.ModelPpMul
import Bee2V.C05.ModelMisc
/-
C11 — the math-header functions whose documentation allows the output to coincide with an input
("Буфер c либо не пересекается, либо совпадает с каждым из буферов a, b").  18 of the 24 are modelled on
a word-addressed memory and proved by C05 (Bee2V/C05/ModelAlias.lean, PropsAlias.lean); here are the
remaining six on the same memory (`Bee2V.C05.Alias.Mem = Nat → Nat`, word addresses), as the C loops:

  ww.c   wwCopy   `while (n--) b[n] = a[n];`
         wwXor    `while (n--) c[n] = a[n] ^ b[n];`      wwXor2  `while (n--) b[n] ^= a[n];`
  pp_mul.c ppMulW / ppAddMulW: ascending loops with a carry word (step = C05's `ppMul1W`)
  zz_add.c zzAdd3: `wwCopy(c + m, a + m, n - m); return zzAddW2(c + m, n - m, zzAdd(c, a, b, m));` (and symmetric)
No Mathlib.
-/
namespace Bee2V.C11.Math
open Bee2V.C05 Bee2V.C05.Alias

/-- descending element-wise loop `while (n--) c[n] = f(a[n], b[n]);` -/
def elem2Desc (f : Nat → Nat → Nat) (c a b : Nat) : Nat → Mem → Mem
  | 0, m => m
  | n + 1, m => elem2Desc f c a b n (write m (c + n) (f (m (a + n)) (m (b + n))))

def wwCopyMem (b a n : Nat) (m : Mem) : Mem := elem2Desc (fun x _ => x) b a a n m
def wwXorMem (c a b n : Nat) (m : Mem) : Mem := elem2Desc (· ^^^ ·) c a b n m
def wwXor2Mem (b a n : Nat) (m : Mem) : Mem := elem2Desc (· ^^^ ·) b b a n m

/-- `_MUL…(t16, t17, …, a[i]); b[i] = carry ^ t16; carry = t17` -/
def ppMulWStep (w x : Nat) (carry ai : Nat) : Nat × Nat :=
  let p := ppMul1W w x ai
  (p.2, carry ^^^ p.1)
/-- `b[i] ^= carry ^ t16; carry = t17` -/
def ppAddMulWStep (w x : Nat) (carry bi ai : Nat) : Nat × Nat :=
  let p := ppMul1W w x ai
  (p.2, bi ^^^ (carry ^^^ p.1))

def ppMulWMem (w b a n x : Nat) (m : Mem) : Mem × Nat := loop1 (ppMulWStep w x) a b n 0 m
def ppAddMulWMem (w b a n x : Nat) (m : Mem) : Mem × Nat := loopIO (ppAddMulWStep w x) b a n 0 m

/-- zz_add.c `zzAdd3(c, a, n, b, m)` statement for statement (`zzAddW2(b, n, w)` = `zzAddW(b, b, n, w)`) -/
def zzAdd3Mem (w c a n b k : Nat) (m : Mem) : Mem × Nat :=
  if n > k then
    let m1 := wwCopyMem (c + k) (a + k) (n - k) m
    let r := zzAddMem w c a b k m1
    zzAddWMem w (c + k) (c + k) (n - k) r.2 r.1
  else if n < k then
    let m1 := wwCopyMem (c + n) (b + n) (k - n) m
    let r := zzAddMem w c a b n m1
    zzAddWMem w (c + n) (c + n) (k - n) r.2 r.1
  else zzAddMem w c a b n m

end Bee2V.C11.Math

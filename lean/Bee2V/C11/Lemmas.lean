import Bee2V.C11.LemmasMem
import Bee2V.C11.Prog
import Bee2V.C11.Der
/-! Helper lemmas of C11 (regions untouched by a write, the XOR loops pointwise). -/
namespace Bee2V.C11

/-- reading a region that a `memMove` does not touch -/
theorem read_memMove_disj (m : Mem) (d s n a k : Nat) (h : disj2 d n a k = true) :
    read (memMove m d s n) a k = read m a k := by
  rw [disj2_iff] at h
  rw [read_eq_iff]
  intro i hi
  have : ¬ (d ≤ a + i ∧ a + i < d + n) := by omega
  simp only [memMove, this, if_false]


/-- the buffer `beltKWPWrap` hands to the core when header = 0 -/
theorem read_move_zero (m : Mem) (dest src count : Nat) :
    read (memSet (memMove m dest src count) (dest + count) 0 16) dest (count + 16) =
      read m src count ++ List.replicate 16 0 := by
  apply List.ext_getElem
  · simp [read_length]
  · intro i h1 h2
    simp [read_length] at h1
    simp only [read_getElem, memSet, memMove]
    by_cases hi : i < count
    · have a : ¬ (dest + count ≤ dest + i ∧ dest + i < dest + count + 16) := by omega
      have b : dest ≤ dest + i ∧ dest + i < dest + count := by omega
      rw [List.getElem_append_left (by simpa [read_length] using hi)]
      simp only [a, b, and_self, if_true, if_false, read_getElem]
      congr 1; omega
    · have a : dest + count ≤ dest + i ∧ dest + i < dest + count + 16 := by omega
      rw [List.getElem_append_right (by simpa [read_length] using hi)]
      simp only [a, and_self, if_true, List.getElem_replicate]


theorem memXor2_apply : ∀ (n : Nat) (m : Mem) (d s x : Nat), (s = d ∨ s + n ≤ d ∨ d + n ≤ s) →
    memXor2 m d s n x = if d ≤ x ∧ x < d + n then m x ^^^ m (s + (x - d)) else m x := by
  intro n
  induction n with
  | zero =>
    intro m d s x _
    have : ¬ (d ≤ x ∧ x < d + 0) := by omega
    simp only [memXor2, this, if_false]
  | succ n ih =>
    intro m d s x h
    rw [memXor2, ih _ _ _ _ (by omega)]
    simp only [set1]
    by_cases hx : x = d
    · subst hx
      have a : ¬ (x + 1 ≤ x ∧ x < x + 1 + n) := by omega
      have b : x ≤ x ∧ x < x + (n + 1) := by omega
      simp [a, b]
    · by_cases hr : d + 1 ≤ x ∧ x < d + 1 + n
      · have b : d ≤ x ∧ x < d + (n + 1) := by omega
        have e : ¬ (s + 1 + (x - (d + 1)) = d) := by omega
        simp only [hr, b, hx, e, and_self, if_true, if_false]
        congr 2; omega
      · have b : ¬ (d ≤ x ∧ x < d + (n + 1)) := by omega
        simp only [hr, b, hx, if_false]


theorem memXor_apply : ∀ (n : Nat) (m : Mem) (d s1 s2 x : Nat),
    (s1 = d ∨ s1 + n ≤ d ∨ d + n ≤ s1) → (s2 = d ∨ s2 + n ≤ d ∨ d + n ≤ s2) →
    memXor m d s1 s2 n x = if d ≤ x ∧ x < d + n then m (s1 + (x - d)) ^^^ m (s2 + (x - d)) else m x := by
  intro n
  induction n with
  | zero =>
    intro m d s1 s2 x _ _
    have : ¬ (d ≤ x ∧ x < d + 0) := by omega
    simp only [memXor, this, if_false]
  | succ n ih =>
    intro m d s1 s2 x h1 h2
    rw [memXor, ih _ _ _ _ _ (by omega) (by omega)]
    simp only [set1]
    by_cases hx : x = d
    · subst hx
      have a : ¬ (x + 1 ≤ x ∧ x < x + 1 + n) := by omega
      have b : x ≤ x ∧ x < x + (n + 1) := by omega
      simp [a, b]
    · by_cases hr : d + 1 ≤ x ∧ x < d + 1 + n
      · have b : d ≤ x ∧ x < d + (n + 1) := by omega
        have e1 : ¬ (s1 + 1 + (x - (d + 1)) = d) := by omega
        have e2 : ¬ (s2 + 1 + (x - (d + 1)) = d) := by omega
        simp only [hr, b, e1, e2, and_self, if_true, if_false]
        congr 2 <;> omega
      · have b : ¬ (d ≤ x ∧ x < d + (n + 1)) := by omega
        simp only [hr, b, hx, if_false]


theorem read_write_disj (m : Mem) (a : Nat) (bs : Bytes) (b k : Nat) (h : disj2 a bs.length b k = true) :
    read (write m a bs) b k = read m b k := by
  rw [disj2_iff] at h
  rw [read_eq_iff]
  intro i hi
  have : ¬ (a ≤ b + i ∧ b + i < a + bs.length) := by omega
  simp only [write, this, if_false]

theorem natLE_length (n v : Nat) : (Bee2V.Proto.natLE n v).length = n := by
  induction n generalizing v with
  | zero => rfl
  | succ n ih => simp [Bee2V.Proto.natLE, ih]


end Bee2V.C11

/-
C16 — executable, code-shaped model of src/crypto/bign96.c over an abstract context `B96 G`
(the operations of `ec_o` + belt that bign96 calls).  No Mathlib.

bign96 = bign with l = 96: 24-octet field elements / scalars, s0 = 80 bits (10 octets) of belt-hash,
signature = s0 ‖ s1 (10 + 24 octets), the deterministic nonce of bign96Sign2 uses belt-32block with
a running round counter.  The public-key check `ecpIsOnA` in bign96Verify is the REPAIRED behaviour
(docs/C16.fix-1.diff).
-/
import Bee2V.C16x.Common
namespace Bee2V.C16

/-- the group operations of `ec_o` as the high-level functions see them (prime or binary curve) -/
structure ECtx (G : Type) where
  /-- group order `ec->order` -/
  q : Nat
  /-- the point at infinity -/
  zero : G
  add : G → G → G
  neg : G → G
  /-- `ecMulA` / one summand of `ecAddMulA` (before the conversion to affine coordinates) -/
  smul : Nat → G → G
  /-- `ec->base` -/
  base : G
  /-- affine coordinates as numbers (`qrTo` + `wwFrom`), `none` for O (the C functions then return FALSE) -/
  xy : G → Option (Nat × Nat)
  /-- `qrFrom(x) && qrFrom(y) && ec*IsOnA`: the point with these coordinates, if they are field elements
  and satisfy the curve equation -/
  ofXY : Nat → Nat → Option G

structure B96 (G : Type) extends ECtx G where
  /-- `oidFromDER(0, oid_der, oid_len) != SIZE_MAX` -/
  oidOk : Bytes → Bool
  /-- belt-hash (32 octets) of the concatenation of everything fed to beltHashStepH -/
  hash : Bytes → Bytes
  /-- `belt32BlockEncr(block, key, &round)` with `key = beltKeyExpand2(theta)`: theta, the value of
  `round` on entry (it is advanced by 3), the 24-octet block -/
  b32 : Bytes → Nat → Bytes → Bytes

variable {G : Type}

/-- `B^n` for n = W_OF_B(192) -/
def W192 : Nat := 2 ^ 192

namespace B96

/-- `qrFrom(x) && qrFrom(y) && ecpIsOnA` on the 48-octet public key -/
def loadPub (C : B96 G) (pub : Bytes) : Option G :=
  C.ofXY (leNat (pub.take 24)) (leNat (pub.drop 24))

/-- `qrTo(pubkey, x); qrTo(pubkey + 24, y)` -/
def encXY (xy : Nat × Nat) : Bytes := natLE 24 xy.1 ++ natLE 24 xy.2

/-- `beltHashStepG2(sig, 10, ..)`: 80 bits of belt-hash -/
def hash80 (C : B96 G) (m : Bytes) : Bytes := (C.hash m).take 10

/-- `sig[10] = sig[11] = 0, sig[12] = 0x80; wwFrom(s0, sig, 13)`: the 13-octet number s0 ‖ 00 00 80,
i.e. s0 + 2^103.  (The comments of bign96.c say "s0 + 2^l"; the octet 0x80 at position 12 is bit 103.
bign96Sign, bign96Sign2 and bign96Verify use the same constant, and the code is the only definition of
this experimental scheme, so the model follows the code.) -/
def s0Full (s0 : Bytes) : Nat := leNat s0 + 2 ^ 103

/-- the tail of bign96Sign / bign96Sign2 after `s0` is known:
`s1 <- (k - (s0 + 2^l) d - H) mod q` exactly as computed (zzMul, zzMod, zzSubMod, reduction of H, zzSubMod) -/
def signS1 (C : B96 G) (s0 : Bytes) (d k : Nat) (Hb : Bytes) : Nat :=
  let t := (s0Full s0 * d) % C.q
  let s1 := subMod W192 k t C.q
  subMod W192 s1 (redOnce (leNat Hb) C.q) C.q

/-- bign96KeypairGen: (code, privkey ‖ pubkey, octets requested from the generator) -/
def keypairGen (C : B96 G) (tape : Bytes) : Err × Bytes × Nat :=
  match randNZMod C.q tape with
  | (none, _, used) => (.badRng, [], used)
  | (some d, _, used) =>
    match C.xy (C.smul d C.base) with
    | some Q => (.ok, natLE 24 d ++ encXY Q, used)
    | none => (.badParams, [], used)

/-- bign96KeypairVal -/
def keypairVal (C : B96 G) (priv pub : Bytes) : Err :=
  let d := leNat priv
  if d = 0 ∨ d ≥ C.q then .badPrivkey else
  match C.xy (C.smul d C.base) with
  | some Q => if encXY Q = pub then .ok else .badPubkey
  | none => .badParams

/-- bign96PubkeyVal -/
def pubkeyVal (C : B96 G) (pub : Bytes) : Err :=
  match loadPub C pub with
  | some _ => .ok
  | none => .badPubkey

/-- bign96PubkeyCalc -/
def pubkeyCalc (C : B96 G) (priv : Bytes) : Err × Bytes :=
  let d := leNat priv
  if d = 0 ∨ d ≥ C.q then (.badPrivkey, []) else
  match C.xy (C.smul d C.base) with
  | some Q => (.ok, encXY Q)
  | none => (.badParams, [])

/-- the common part of bign96Sign and bign96Sign2 once the nonce k is fixed -/
def signWith (C : B96 G) (oid Hb : Bytes) (d k : Nat) : Err × Bytes :=
  match C.xy (C.smul k C.base) with
  | none => (.badParams, [])
  | some R =>
    let s0 := hash80 C (oid ++ natLE 24 R.1 ++ Hb)
    (.ok, s0 ++ natLE 24 (signS1 C s0 d k Hb))

/-- bign96Sign: (code, sig, octets requested) -/
def sign (C : B96 G) (oid Hb priv tape : Bytes) : Err × Bytes × Nat :=
  if !C.oidOk oid then (.badOid, [], 0) else
  let d := leNat priv
  if d = 0 ∨ d ≥ C.q then (.badPrivkey, [], 0) else
  match randNZMod C.q tape with
  | (none, _, used) => (.badRng, [], used)
  | (some k, _, used) => let r := signWith C oid Hb d k; (r.1, r.2, used)

/-- the deterministic nonce of bign96Sign2: `k <- H; do k <- belt32Block(k, theta) while k ∉ {1..q-1}`,
the round counter starts at 1 and runs on.  The C loop is `while (1)`; `fuel` bounds the rounds of the
model (`none` = not finished). -/
def nonceLoop (C : B96 G) (theta : Bytes) : Nat → Nat → Bytes → Option Nat
  | 0, _, _ => none
  | fuel + 1, round, k =>
    let k := C.b32 theta round k
    let v := leNat k
    if v ≠ 0 ∧ v < C.q then some v else nonceLoop C theta fuel (round + 3) k

/-- bign96Sign2 (`t = none` is the NULL pointer); `none` = the nonce loop did not finish within `fuel` -/
def sign2 (C : B96 G) (fuel : Nat) (oid Hb priv : Bytes) (t : Option Bytes) : Option (Err × Bytes) :=
  if !C.oidOk oid then some (.badOid, []) else
  let d := leNat priv
  if d = 0 ∨ d ≥ C.q then some (.badPrivkey, []) else
  let theta := C.hash (oid ++ priv ++ (match t with | some t => t | none => []))
  match nonceLoop C theta fuel 1 Hb with
  | none => none
  | some k => some (signWith C oid Hb d k)

/-- bign96Verify -/
def verify (C : B96 G) (oid Hb sig pub : Bytes) : Err :=
  if !C.oidOk oid then .badOid else
  match loadPub C pub with
  | none => .badPubkey
  | some Q =>
    let s1 := leNat (sig.drop 10)
    if s1 ≥ C.q then .badSig else
    let s1 := addMod W192 s1 (redOnce (leNat Hb) C.q) C.q
    match C.xy (C.add (C.smul s1 C.base) (C.smul (s0Full (sig.take 10)) Q)) with
    | none => .badSig
    | some R => if hash80 C (oid ++ natLE 24 R.1 ++ Hb) = sig.take 10 then .ok else .badSig

end B96
end Bee2V.C16

/-
C16 — lemmas for the dstu theorems: sizes (`order_nb`, `order_no`, `B^order_n`), the point encoding, the
rejection loops, the layout r ‖ 0.. ‖ s ‖ 0.. of the signature, signatures against `verify`
(`Q = -dP`, `s = (e + d r) mod n  ⇒  sP + rQ = eP`).
-/
import Mathlib.Tactic.Abel
import Bee2V.C16x.LemmasSig
namespace Bee2V.C16.Sig
open Bee2V.C16

variable {G F : Type}

/-! ### lists -/

theorem zeros_any (k : Nat) : (zeros k).any (· != 0) = false := by
  induction k with
  | zero => rfl
  | succ k ih =>
    have : zeros (k + 1) = 0 :: zeros k := rfl
    rw [this, List.any_cons, ih]
    rfl

theorem any_ne_zero_iff (l : Bytes) : l.any (· != 0) = true ↔ ∃ b ∈ l, b ≠ 0 := by
  simp

theorem not_any_ne_zero_iff (l : Bytes) : ¬ (l.any (· != 0) = true) ↔ ∀ b ∈ l, b = 0 := by
  simp

theorem zeros_length (k : Nat) : (zeros k).length = k := by simp [zeros]

/-- the pieces of `r ‖ 0.. ‖ s ‖ 0..` -/
theorem d_layout (oo half r s : Nat) (h : oo ≤ half) :
    let sig := natLE oo r ++ zeros (half - oo) ++ natLE oo s ++ zeros (half - oo)
    sig.take oo = natLE oo r ∧ (sig.take half).drop oo = zeros (half - oo) ∧
    (sig.drop half).take oo = natLE oo s ∧ (sig.drop half).drop oo = zeros (half - oo) ∧
    sig.length = 2 * half := by
  intro sig
  have hl : (natLE oo r ++ zeros (half - oo)).length = half := by
    rw [List.length_append, natLE_length, zeros_length]; omega
  have e1 : sig = natLE oo r ++ (zeros (half - oo) ++ (natLE oo s ++ zeros (half - oo))) := by
    simp only [sig, List.append_assoc]
  have e2 : sig = (natLE oo r ++ zeros (half - oo)) ++ (natLE oo s ++ zeros (half - oo)) := by
    simp only [sig, List.append_assoc]
  have t : sig.take half = natLE oo r ++ zeros (half - oo) := by
    rw [e2]; exact List.take_left' hl
  have d : sig.drop half = natLE oo s ++ zeros (half - oo) := by
    rw [e2]; exact List.drop_left' hl
  refine ⟨?_, ?_, ?_, ?_, ?_⟩
  · rw [e1]; exact take_natLE_append _ _ _
  · rw [t]; exact drop_natLE_append _ _ _
  · rw [d]; exact take_natLE_append _ _ _
  · rw [d]; exact drop_natLE_append _ _ _
  · rw [e2, List.length_append, hl, List.length_append, natLE_length, zeros_length]; omega

/-- an octet at position i, oo ≤ i < half, of the first half lies in the first padding region -/
theorem d_pad_mem1 {sig : Bytes} {oo half i : Nat} {b : UInt8} (h : sig[i]? = some b) (h1 : oo ≤ i)
    (h2 : i < half) : b ∈ (sig.take half).drop oo := by
  rw [List.mem_iff_getElem?]
  refine ⟨i - oo, ?_⟩
  rw [List.getElem?_drop, List.getElem?_take]
  have : oo + (i - oo) = i := by omega
  rw [this, if_pos h2, h]

/-- an octet at position i ≥ oo of the second half lies in the second padding region -/
theorem d_pad_mem2 {sig : Bytes} {oo half i : Nat} {b : UInt8} (h : sig[half + i]? = some b)
    (h1 : oo ≤ i) : b ∈ (sig.drop half).drop oo := by
  rw [List.mem_iff_getElem?]
  refine ⟨i - oo, ?_⟩
  rw [List.getElem?_drop, List.getElem?_drop]
  have : half + (oo + (i - oo)) = half + i := by omega
  rw [this, h]

/-! ### sizes -/

variable [AddCommGroup G] {C : Dstu G F}

theorem d_n_pos (L : DLaws C) : 0 < C.n := by have := L.n_big; omega

theorem d_pow_lo (L : DLaws C) : 2 ^ (C.nb - 1) ≤ C.n := bitLen_lo (d_n_pos L)

omit [AddCommGroup G] in
theorem d_n_lt_pow_oo (C : Dstu G F) : C.n < 256 ^ C.oo := by
  rw [pow256]
  refine Nat.lt_of_lt_of_le (bitLen_hi C.n) (Nat.pow_le_pow_right (by omega) ?_)
  unfold Dstu.oo Dstu.nb
  omega

omit [AddCommGroup G] in
theorem d_n_lt_Wn (C : Dstu G F) : C.n < C.Wn := by
  unfold Dstu.Wn
  refine Nat.lt_of_lt_of_le (bitLen_hi C.n) (Nat.pow_le_pow_right (by omega) ?_)
  unfold Dstu.nb
  omega

omit [AddCommGroup G] in
theorem d_pow_m_le (C : Dstu G F) : 2 ^ C.f.m ≤ 256 ^ C.no := by
  rw [pow256]
  refine Nat.pow_le_pow_right (by omega) ?_
  unfold Dstu.no
  omega

omit [AddCommGroup G] in
theorem d_leNat_natLE (C : Dstu G F) {v : Nat} (h : v < C.n) : leNat (natLE C.oo v) = v :=
  leNat_natLE_of_lt (Nat.lt_trans h (d_n_lt_pow_oo C))

theorem d_truncR_lt (L : DLaws C) (h x : F) : C.truncR h x < C.n := by
  unfold Dstu.truncR
  exact Nat.lt_of_lt_of_le (Nat.mod_lt _ (Nat.two_pow_pos _)) (d_pow_lo L)

/-! ### points -/

theorem d_loadXY_encXY (L : DLaws C) (Q : F × F) : C.loadXY (C.encXY Q) = some Q := by
  obtain ⟨x, y⟩ := Q
  have hx : leNat (natLE C.no (C.f.toNat x)) = C.f.toNat x :=
    leNat_natLE_of_lt (Nat.lt_of_lt_of_le (L.toNat_lt x) (d_pow_m_le C))
  have hy : leNat (natLE C.no (C.f.toNat y)) = C.f.toNat y :=
    leNat_natLE_of_lt (Nat.lt_of_lt_of_le (L.toNat_lt y) (d_pow_m_le C))
  unfold Dstu.loadXY Dstu.encXY Dstu.encF
  simp only [take_natLE_append, drop_natLE_append, hx, hy, L.enc_dec]

theorem d_xy_some (L : DLaws C) {P : G} (hP : P ≠ 0) : ∃ Q, C.xy P = some Q := by
  cases h : C.xy P with
  | none => exact absurd ((L.xy_none P).1 h) hP
  | some v => exact ⟨v, rfl⟩

/-! ### the rejection loops -/

omit [AddCommGroup G] in
theorem d_randTrim_range (C : Dstu G F) : ∀ (fuel : Nat) (tape : Bytes) (used v : Nat) (rest : Bytes)
    (used' : Nat), C.randTrim fuel tape used = some (v, rest, used') → 0 < v ∧ v < 2 ^ (C.nb - 1) := by
  intro fuel
  induction fuel with
  | zero => intro tape used v rest used' h; simp [Dstu.randTrim] at h
  | succ n ih =>
    intro tape used v rest used' h
    simp only [Dstu.randTrim] at h
    split at h
    · cases h
    · rename_i chunk rest' _
      split at h
      · exact ih _ _ _ _ _ h
      · rename_i hv
        simp only [Option.some.injEq, Prod.mk.injEq] at h
        have : 0 < 2 ^ (C.nb - 1) := Nat.two_pow_pos _
        have := Nat.mod_lt (leNat chunk) this
        omega

omit [AddCommGroup G] in
/-- every successful exit of the `step8:` loop: a one-time key e in [1, 2^(nb-1)), `R = eP` with
x_R ≠ 0, r = trunc(h x_R) ≠ 0, s = (d r + e) mod n ≠ 0 and the layout of the signature -/
theorem d_signLoop_shape (C : Dstu G F) (ld d : Nat) (h : F) : ∀ (fuel : Nat) (tape : Bytes) (used : Nat)
    (sig : Bytes) (used' : Nat), C.signLoop ld d h fuel tape used = some (.ok, sig, used') →
    ∃ e x y, 0 < e ∧ e < 2 ^ (C.nb - 1) ∧ C.xy (C.smul e C.base) = some (x, y) ∧ C.truncR h x ≠ 0 ∧
      addMod C.Wn ((d * C.truncR h x) % C.n) e C.n ≠ 0 ∧
      sig = natLE C.oo (C.truncR h x) ++ zeros (ld / 16 - C.oo) ++
        natLE C.oo (addMod C.Wn ((d * C.truncR h x) % C.n) e C.n) ++ zeros (ld / 16 - C.oo) := by
  intro fuel
  induction fuel with
  | zero => intro tape used sig used' hs; simp [Dstu.signLoop] at hs
  | succ n ih =>
    intro tape used sig used' hs
    simp only [Dstu.signLoop] at hs
    split at hs
    · cases hs
    · rename_i e rest u hr
      obtain ⟨he0, he1⟩ := d_randTrim_range C _ _ _ _ _ _ hr
      split at hs
      · simp at hs
      · rename_i x y hxy
        split at hs
        · exact ih _ _ _ _ hs
        · split at hs
          · exact ih _ _ _ _ hs
          · rename_i hr0
            split at hs
            · exact ih _ _ _ _ hs
            · rename_i hs0
              simp only [Option.some.injEq, Prod.mk.injEq, true_and] at hs
              exact ⟨e, x, y, he0, he1, hxy, hr0, hs0, hs.1.symm⟩

/-! ### signatures against verify -/

/-- `s = (d r + e) mod n`, `Q = -dP`  ⇒  `sP + rQ = eP` -/
theorem d_point_eq (L : DLaws C) (d r e : Nat) :
    (((d * r) % C.n + e) % C.n) • C.base + r • (-(d • C.base)) = e • C.base := by
  rw [nsmul_mod L.order, add_nsmul, nsmul_mod L.order, smul_neg, ← mul_nsmul', Nat.mul_comm r d]
  abel

/-- a signature r ‖ 0.. ‖ s ‖ 0.. with r = trunc(h x_{eP}) ≠ 0, s = (d r + e) mod n ≠ 0 passes
`verify` under the public key -dP -/
theorem d_verify_sig (L : DLaws C) {ld : Nat} {Hb : Bytes} {h : F} (h16 : ld % 16 = 0)
    (hld : 16 * C.oo ≤ ld) (hh : C.hashF Hb = some h) {d e : Nat} {x y : F} {Q : F × F}
    (hxy : C.xy (e • C.base) = some (x, y)) (hr0 : C.truncR h x ≠ 0)
    (hs0 : ((d * C.truncR h x) % C.n + e) % C.n ≠ 0) (hQ : C.xy (-(d • C.base)) = some Q) :
    C.verify ld Hb (natLE C.oo (C.truncR h x) ++ zeros (ld / 16 - C.oo) ++
      natLE C.oo (((d * C.truncR h x) % C.n + e) % C.n) ++ zeros (ld / 16 - C.oo)) (C.encXY Q) = .ok := by
  have hn := d_n_pos L
  have hrn := d_truncR_lt L h x
  generalize hr : C.truncR h x = r at *
  have hsn : ((d * r) % C.n + e) % C.n < C.n := Nat.mod_lt _ hn
  have hpt := d_point_eq L d r e
  generalize ((d * r) % C.n + e) % C.n = s at *
  obtain ⟨l1, l2, l3, l4, _⟩ := d_layout C.oo (ld / 16) r s (by omega)
  have hof : C.ofXY Q.1 Q.2 = some (-(d • C.base)) := L.ofXY_xy _ _ _ hQ
  unfold Dstu.verify
  rw [if_neg (by omega), d_loadXY_encXY L Q]
  simp only [hof, hh, l1, l2, l3, l4, zeros_any, d_leNat_natLE C hrn, d_leNat_natLE C hsn]
  rw [if_neg (by simp), if_neg (by omega), L.smul_eq, L.smul_eq, L.add_eq, hpt, hxy]
  simp [hr]

end Bee2V.C16.Sig

/-
C16 — helper lemmas on fields of characteristic 2: trace, half-trace, the loops of gf2Tr / gf2QSolve.
-/
import Bee2V.C16x.LawsField
import Mathlib.Algebra.BigOperators.Intervals
import Mathlib.Tactic.Ring
import Mathlib.Tactic.LinearCombination
import Mathlib.Tactic.FieldSimp

namespace Bee2V.C16.Fld
open Bee2V.C16 Finset

variable {F : Type} [Field F]

/-- Tr a = a + a² + a⁴ + … + a^(2^(m-1)) -/
def Tr (m : Nat) (a : F) : F := ∑ i ∈ range m, a ^ (2 ^ i)

/-- the half-trace sum c + c⁴ + … + c^(4^k) -/
def HTr (k : Nat) (c : F) : F := ∑ i ∈ range (k + 1), c ^ (2 ^ (2 * i))

theorem sum_even_odd (f : Nat → F) (n : Nat) :
    ∑ j ∈ range (2 * n), f j = ∑ i ∈ range n, f (2 * i) + ∑ i ∈ range n, f (2 * i + 1) := by
  induction n with
  | zero => simp
  | succ n ih =>
    rw [show 2 * (n + 1) = 2 * n + 1 + 1 by ring, sum_range_succ, sum_range_succ, ih,
      sum_range_succ, sum_range_succ]
    ring

theorem iter_sqr (n : Nat) (b : F) : FOps.iter (fun t : F => t * t) n b = b ^ (2 ^ n) := by
  induction n generalizing b with
  | zero => simp [FOps.iter]
  | succ n ih => rw [FOps.iter, ih, ← pow_two, ← pow_mul, pow_succ']

section char2
variable (h2 : ∀ x : F, x + x = 0)
include h2

theorem two_eq_zero : (2 : F) = 0 := by linear_combination h2 1

theorem sq_add (a b : F) : (a + b) ^ 2 = a ^ 2 + b ^ 2 := by
  linear_combination (h2 (a * b))

theorem mul_self_add (a b : F) : (a + b) * (a + b) = a * a + b * b := by
  linear_combination (h2 (a * b))

theorem pow2_add (a b : F) (k : Nat) : (a + b) ^ (2 ^ k) = a ^ (2 ^ k) + b ^ (2 ^ k) := by
  induction k with
  | zero => simp
  | succ k ih => rw [pow_succ, pow_mul, ih, sq_add h2, ← pow_mul, ← pow_mul]

theorem sum_sq (f : Nat → F) (n : Nat) : (∑ i ∈ range n, f i) ^ 2 = ∑ i ∈ range n, (f i) ^ 2 := by
  induction n with
  | zero => simp
  | succ n ih => rw [sum_range_succ, sum_range_succ, sq_add h2, ih]

theorem Tr_sq_shift (m : Nat) (a : F) : (Tr m a) ^ 2 = ∑ i ∈ range m, a ^ (2 ^ (i + 1)) := by
  unfold Tr
  rw [sum_sq h2]
  apply sum_congr rfl
  intro i _
  rw [← pow_mul, pow_succ]

theorem Tr_sq {m : Nat} {a : F} (hf : a ^ (2 ^ m) = a) : (Tr m a) ^ 2 = Tr m a := by
  rw [Tr_sq_shift h2]
  have e1 := sum_range_succ' (fun i => a ^ (2 ^ i)) m
  have e2 := sum_range_succ (fun i => a ^ (2 ^ i)) m
  have e := e1.symm.trans e2
  simp only [pow_zero, pow_one, hf] at e
  exact add_right_cancel e

theorem Tr_01 {m : Nat} {a : F} (hf : a ^ (2 ^ m) = a) : Tr m a = 0 ∨ Tr m a = 1 := by
  have h := Tr_sq h2 hf
  have : Tr m a * (Tr m a - 1) = 0 := by linear_combination h
  rcases mul_eq_zero.1 this with h0 | h1
  · exact Or.inl h0
  · exact Or.inr (sub_eq_zero.1 h1)

theorem Tr_add (m : Nat) (a b : F) : Tr m (a + b) = Tr m a + Tr m b := by
  unfold Tr
  rw [← sum_add_distrib]
  apply sum_congr rfl
  intro i _
  exact pow2_add h2 a b i

theorem Tr_mul_self (m : Nat) (a : F) : Tr m (a * a) = (Tr m a) ^ 2 := by
  rw [Tr_sq_shift h2]
  unfold Tr
  apply sum_congr rfl
  intro i _
  rw [← pow_two, ← pow_mul, pow_succ']

theorem Tr_one {m : Nat} (hm : m % 2 = 1) : Tr m (1 : F) = 1 := by
  unfold Tr
  simp only [one_pow, sum_const, card_range, nsmul_eq_mul, mul_one]
  have : m = 2 * (m / 2) + 1 := by omega
  rw [this]
  push_cast
  rw [two_eq_zero h2]
  ring

omit h2 in
theorem Tr_zero (m : Nat) : Tr m (0 : F) = 0 := by
  unfold Tr
  apply sum_eq_zero
  intro i _
  exact zero_pow (pow_ne_zero _ (by norm_num))

theorem HTr_sq (k : Nat) (c : F) : (HTr k c) ^ 2 = ∑ i ∈ range (k + 1), c ^ (2 ^ (2 * i + 1)) := by
  unfold HTr
  rw [sum_sq h2]
  apply sum_congr rfl
  intro i _
  rw [← pow_mul, pow_succ]

theorem HTr_eq {k : Nat} {c : F} (hf : c ^ (2 ^ (2 * k + 1)) = c) :
    (HTr k c) ^ 2 + HTr k c = c + Tr (2 * k + 1) c := by
  have e := sum_even_odd (fun j => c ^ (2 ^ j)) (k + 1)
  rw [show 2 * (k + 1) = 2 * k + 1 + 1 by ring, sum_range_succ, hf] at e
  rw [HTr_sq h2]
  unfold HTr Tr
  linear_combination -e

theorem iter_tr (a : F) (n k : Nat) :
    FOps.iter (fun t : F => t * t + a) n (Tr (k + 1) a) = Tr (k + 1 + n) a := by
  induction n generalizing k with
  | zero => rfl
  | succ n ih =>
    have hs : Tr (k + 1) a * Tr (k + 1) a + a = Tr (k + 1 + 1) a := by
      rw [← pow_two, Tr_sq_shift h2]
      conv_rhs => unfold Tr; rw [sum_range_succ']
      simp
    rw [FOps.iter, hs, ih (k + 1)]
    congr 1
    omega

theorem HTr_step (k : Nat) (t : F) :
    (HTr k t * HTr k t) * (HTr k t * HTr k t) + t = HTr (k + 1) t := by
  have h4 : (HTr k t * HTr k t) * (HTr k t * HTr k t)
      = ∑ i ∈ range (k + 1), t ^ (2 ^ (2 * (i + 1))) := by
    rw [← pow_two, ← pow_two, HTr_sq h2, sum_sq h2]
    apply sum_congr rfl
    intro i _
    rw [← pow_mul, ← pow_succ]
    rfl
  rw [h4]
  conv_rhs => unfold HTr; rw [sum_range_succ']
  simp

theorem iter_htr (t : F) (n k : Nat) :
    FOps.iter (fun x : F => (x * x) * (x * x) + t) n (HTr k t) = HTr (k + n) t := by
  induction n generalizing k with
  | zero => rfl
  | succ n ih =>
    rw [FOps.iter, HTr_step h2, ih (k + 1)]
    congr 1
    omega

end char2

/-! ### the operations of `FOps` under `FLaws` -/

section laws
variable {O : FOps F} (L : FLaws O)
include L

theorem m_pos : 0 < O.m := by have := L.m_odd; omega

theorem isZero_false_iff (a : F) : O.isZero a = false ↔ a ≠ 0 := by
  constructor
  · intro h e
    rw [(L.isZero_iff a).2 e] at h
    cases h
  · intro h
    cases hz : O.isZero a
    · rfl
    · exact absurd ((L.isZero_iff a).1 hz) h

theorem tr_val (a : F) :
    FOps.iter (fun t => O.add (O.sqr t) a) (O.m - 1) a = Tr O.m a := by
  have hf : (fun t => O.add (O.sqr t) a) = fun t : F => t * t + a := by
    funext t; rw [L.add_eq, L.sqr_eq]
  have h1 : Tr (0 + 1) a = a := by simp [Tr]
  have h := iter_tr L.char2 a (O.m - 1) 0
  rw [h1] at h
  rw [hf, h]
  congr 1
  have := m_pos L
  omega

theorem Tr01 (a : F) : Tr O.m a = 0 ∨ Tr O.m a = 1 := Tr_01 L.char2 (L.frob a)

theorem tr_iff (a : F) : O.tr a = true ↔ Tr O.m a = 1 := by
  unfold FOps.tr
  rw [tr_val L]
  rcases Tr01 L a with h | h
  · rw [h, (L.isZero_iff 0).2 rfl]; simp
  · rw [h, (isZero_false_iff L 1).2 one_ne_zero]; simp

theorem tr_false_iff (a : F) : O.tr a = false ↔ Tr O.m a = 0 := by
  rcases Tr01 L a with h | h
  · have : ¬ O.tr a = true := by rw [tr_iff L, h]; exact zero_ne_one
    simp [h, this]
  · have : O.tr a = true := by rw [tr_iff L, h]
    simp [h, this]

/-- the Boolean and the field value of the trace together -/
theorem tr_cases (a : F) :
    (O.tr a = false ∧ Tr O.m a = 0) ∨ (O.tr a = true ∧ Tr O.m a = 1) := by
  rcases Tr01 L a with h | h
  · exact Or.inl ⟨(tr_false_iff L a).2 h, h⟩
  · exact Or.inr ⟨(tr_iff L a).2 h, h⟩

theorem tr_add (a b : F) : O.tr (a + b) = xor (O.tr a) (O.tr b) := by
  have hs := Tr_add L.char2 O.m a b
  have h11 : (1 : F) + 1 = 0 := L.char2 1
  rcases tr_cases L a with ⟨ha, va⟩ | ⟨ha, va⟩ <;> rcases tr_cases L b with ⟨hb, vb⟩ | ⟨hb, vb⟩ <;>
    rw [ha, hb] <;> rw [va, vb] at hs
  · rw [add_zero] at hs; simpa using (tr_false_iff L _).2 hs
  · rw [zero_add] at hs; simpa using (tr_iff L _).2 hs
  · rw [add_zero] at hs; simpa using (tr_iff L _).2 hs
  · rw [h11] at hs; simpa using (tr_false_iff L _).2 hs

theorem tr_sqr (a : F) : O.tr (a * a) = O.tr a := by
  have h : Tr O.m (a * a) = Tr O.m a := by
    rw [Tr_mul_self L.char2, Tr_sq L.char2 (L.frob a)]
  rcases tr_cases L a with ⟨ha, va⟩ | ⟨ha, va⟩
  · rw [ha, tr_false_iff L, h, va]
  · rw [ha, tr_iff L, h, va]

theorem tr_one : O.tr (1 : F) = true := (tr_iff L 1).2 (Tr_one L.char2 L.m_odd)

theorem tr_zero : O.tr (0 : F) = false := (tr_false_iff L 0).2 (Tr_zero O.m)

theorem tr_add_one (a : F) : O.tr (a + 1) = !O.tr a := by
  rw [tr_add L, tr_one L]; simp

theorem tr_sq_add_self (w : F) : O.tr (w * w + w) = false := by
  rw [tr_add L, tr_sqr L]; simp

theorem tr_bool (A : Bool) : O.tr (if A then (1 : F) else 0) = A := by
  cases A
  · simpa using tr_zero L
  · simpa using tr_one L

/-! square root -/

theorem sqrtF_val (b : F) : O.sqrtF b = b ^ (2 ^ (O.m - 1)) := by
  unfold FOps.sqrtF
  have hf : O.sqr = fun t : F => t * t := by funext t; rw [L.sqr_eq]
  rw [hf, iter_sqr]

theorem pow_half_sq (b : F) : (b ^ (2 ^ (O.m - 1))) ^ 2 = b := by
  rw [← pow_mul, ← pow_succ]
  have : O.m - 1 + 1 = O.m := by have := m_pos L; omega
  rw [this, L.frob]

theorem sqrtF_sq (b : F) : O.sqrtF b * O.sqrtF b = b := by
  rw [sqrtF_val L, ← pow_two, pow_half_sq L]

theorem sqrtF_mul_self (y : F) : O.sqrtF (y * y) = y := by
  rw [sqrtF_val L, ← pow_two, ← pow_mul, ← pow_succ']
  have : O.m - 1 + 1 = O.m := by have := m_pos L; omega
  rw [this, L.frob]

/-! half-trace -/

theorem htr_val (t : F) : O.htr t = HTr ((O.m - 1) / 2) t := by
  unfold FOps.htr
  have hf : (fun x => O.add (O.sqr (O.sqr x)) t) = fun x : F => (x * x) * (x * x) + t := by
    funext x; rw [L.add_eq, L.sqr_eq, L.sqr_eq]
  have h1 : HTr 0 t = t := by simp [HTr]
  have h := iter_htr L.char2 t ((O.m - 1) / 2) 0
  rw [h1, Nat.zero_add] at h
  rw [hf, h]

theorem htr_eq (c : F) :
    O.htr c * O.htr c + O.htr c = c + (if O.tr c then 1 else 0) := by
  have hm : 2 * ((O.m - 1) / 2) + 1 = O.m := by have := L.m_odd; omega
  have hf : c ^ (2 ^ (2 * ((O.m - 1) / 2) + 1)) = c := by rw [hm]; exact L.frob c
  have h := HTr_eq L.char2 hf
  rw [hm] at h
  rw [htr_val L, ← pow_two, h]
  rcases tr_cases L c with ⟨hc, vc⟩ | ⟨hc, vc⟩ <;> rw [hc, vc] <;> simp

/-! the quadratic solver -/

theorem qsolve_sound {a b z : F} (h : O.qsolve a b = some z) : z * z + a * z = b := by
  unfold FOps.qsolve at h
  split at h
  · rename_i ha
    have ha0 := (L.isZero_iff a).1 ha
    simp only [Option.some.injEq] at h
    subst h
    rw [ha0, sqrtF_sq L]; ring
  · rename_i ha
    have ha0 : a ≠ 0 := fun e => ha ((L.isZero_iff a).2 e)
    split at h
    · rename_i hb
      have hb0 := (L.isZero_iff b).1 hb
      simp only [Option.some.injEq] at h
      subst h
      rw [hb0, L.zero_eq]; ring
    · simp only at h
      split at h
      · exact absurd h (by simp)
      · rename_i ht
        simp only [Option.some.injEq] at h
        subst h
        have hh := htr_eq L (O.div b (O.sqr a))
        have ht' : O.tr (O.div b (O.sqr a)) = false := by simpa using ht
        rw [ht', L.div_eq, L.sqr_eq] at hh
        simp only [Bool.false_eq_true, if_false, add_zero] at hh
        rw [L.mul_eq, L.div_eq, L.sqr_eq]
        have : (O.htr (b / (a * a)) * O.htr (b / (a * a)) + O.htr (b / (a * a))) * (a * a) = b := by
          rw [hh]; field_simp
        linear_combination this

theorem qsolve_complete {a b : F} (ha : a ≠ 0) (hz : ∃ z, z * z + a * z = b) :
    (O.qsolve a b).isSome = true := by
  obtain ⟨z, hz⟩ := hz
  unfold FOps.qsolve
  have ha' : O.isZero a = false := (isZero_false_iff L a).2 ha
  rw [ha']
  simp only [Bool.false_eq_true, if_false]
  split
  · rfl
  · have ht : O.tr (O.div b (O.sqr a)) = false := by
      rw [L.div_eq, L.sqr_eq]
      have : b / (a * a) = (z / a) * (z / a) + z / a := by
        rw [← hz]; field_simp
      rw [this, tr_sq_add_self L]
    simp [ht]

/-- the solver applied to a = 1 and a right-hand side of trace 0 -/
theorem qsolve_one {b w : F} (hw : w * w + w = b) :
    ∃ z, O.qsolve O.one b = some z ∧ (z = w ∨ z = w + 1) := by
  have h1 : (1 : F) ≠ 0 := one_ne_zero
  have hs := qsolve_complete L (b := b) h1 ⟨w, by rw [one_mul]; exact hw⟩
  rw [L.one_eq]
  obtain ⟨z, hz⟩ := Option.isSome_iff_exists.1 hs
  refine ⟨z, hz, ?_⟩
  have hzz := qsolve_sound L hz
  rw [one_mul] at hzz
  have : (z + w) * (z + w + 1) = 0 := by
    linear_combination hzz - hw + L.char2 (z * w) + L.char2 (w * w) + L.char2 w
  rcases mul_eq_zero.1 this with e | e
  · left; linear_combination e - L.char2 w
  · right; linear_combination e - L.char2 w - L.char2 1

/-! the bit-0 manipulations -/

theorem low_clearLow (x : F) : O.low (O.clearLow x) = false := by
  unfold FOps.clearLow
  split
  · rename_i h; rw [L.add_eq, L.one_eq, L.low_add_one, h]; rfl
  · rename_i h; simpa using h

theorem clearLow_cases (x : F) :
    (O.low x = false ∧ O.clearLow x = x) ∨ (O.low x = true ∧ O.clearLow x = x + 1) := by
  unfold FOps.clearLow
  cases h : O.low x
  · left; simp
  · right; simp [L.add_eq, L.one_eq]

theorem add_one_add_one (x : F) : x + 1 + 1 = x := by
  linear_combination L.char2 1

theorem low_one : O.low (1 : F) = true := by
  have := L.low_add_one 0
  rw [zero_add, L.low_zero] at this
  simpa using this

end laws

end Bee2V.C16.Fld

/-
C16 — two concrete models of `FLaws` (non-vacuity of the hypotheses of PropsDstuPoint):
GF(2) (m = 1) and GF(8) = GF(2)[x]/(x³ + x + 1) (m = 3, polynomial basis, elements coded by their
coefficient bits), with toy `Dstu` contexts over them (the group part is not used by
compress/recover and is left trivial).
-/
import Bee2V.C16x.LemmasField2
import Mathlib.Algebra.Field.ZMod

namespace Bee2V.C16.Fld
open Bee2V.C16

/-! ### GF(2) -/


def toyF2 : FOps (ZMod 2) where
  m := 1
  zero := 0
  one := 1
  add := fun a b => a + b
  mul := fun a b => a * b
  sqr := fun a => a * a
  div := fun a b => a / b
  isZero := fun a => decide (a = 0)
  low := fun a => decide (a = 1)
  toNat := fun a => a.val
  ofNat := fun v => if v < 2 then some (v : ZMod 2) else none

theorem toyF2_laws : FLaws toyF2 where
  char2 := by decide
  zero_eq := rfl
  one_eq := rfl
  add_eq := fun _ _ => rfl
  mul_eq := fun _ _ => rfl
  sqr_eq := fun _ => rfl
  div_eq := fun _ _ => rfl
  isZero_iff := by decide
  frob := by decide
  m_odd := rfl
  low_zero := by decide
  low_add_one := by decide
  enc_dec := by decide
  dec_enc := by
    intro v x h
    show x.val = v
    have h' : (if v < 2 then some (v : ZMod 2) else none) = some x := h
    split at h'
    · rename_i hv
      rw [← Option.some.inj h', ZMod.val_cast_of_lt hv]
    · cases h'
  toNat_lt := by decide
  toNat_zero := rfl

/-- the curve y² + xy = x³ + x² over GF(2) (A = 1, B = 0) with the group left abstract -/
def toyDstu : Dstu Unit (ZMod 2) where
  f := toyF2
  A := true
  B := 0
  n := 1
  zero := ()
  add := fun _ _ => ()
  neg := fun _ => ()
  smul := fun _ _ => ()
  base := ()
  xy := fun _ => none
  ofXY := fun _ _ => none

/-! ### GF(8) -/


/-- GF(8) = GF(2)[x] / (x³ + x + 1), elements coded by their coefficient bits -/
structure GF8 where
  v : Fin 8
  deriving DecidableEq

namespace GF8

instance : Fintype GF8 := Fintype.ofEquiv (Fin 8) ⟨GF8.mk, GF8.v, fun _ => rfl, fun _ => rfl⟩

def mulx (a : Nat) : Nat := if a * 2 ≥ 8 then (a * 2) ^^^ 11 else a * 2

def mulNat (a b : Nat) : Nat :=
  (if b % 2 = 1 then a else 0) ^^^ (if b / 2 % 2 = 1 then mulx a else 0) ^^^
    (if b / 4 % 2 = 1 then mulx (mulx a) else 0)

instance : Add GF8 := ⟨fun a b => ⟨Fin.ofNat 8 (a.v.val ^^^ b.v.val)⟩⟩
instance : Mul GF8 := ⟨fun a b => ⟨Fin.ofNat 8 (mulNat a.v.val b.v.val)⟩⟩
instance : Zero GF8 := ⟨⟨0⟩⟩
instance : One GF8 := ⟨⟨1⟩⟩
instance : Neg GF8 := ⟨fun a => a⟩
instance : Inv GF8 := ⟨fun a => (a * a) * ((a * a) * (a * a))⟩

set_option maxRecDepth 100000 in
instance : Field GF8 where
  add_assoc := by decide +kernel
  zero_add := by decide +kernel
  add_zero := by decide +kernel
  nsmul := nsmulRec
  zsmul := zsmulRec
  neg_add_cancel := by decide +kernel
  add_comm := by decide +kernel
  left_distrib := by decide +kernel
  right_distrib := by decide +kernel
  zero_mul := by decide +kernel
  mul_zero := by decide +kernel
  mul_assoc := by decide +kernel
  one_mul := by decide +kernel
  mul_one := by decide +kernel
  mul_comm := by decide +kernel
  exists_pair_ne := ⟨0, 1, by decide⟩
  mul_inv_cancel := by decide +kernel
  inv_zero := by decide +kernel
  nnqsmul := _
  qsmul := _
end GF8

def gf8Ops : FOps GF8 where
  m := 3
  zero := 0
  one := 1
  add := fun a b => a + b
  mul := fun a b => a * b
  sqr := fun a => a * a
  div := fun a b => a / b
  isZero := fun a => decide (a = 0)
  low := fun a => decide (a.v.val % 2 = 1)
  toNat := fun a => a.v.val
  ofNat := fun v => if h : v < 8 then some ⟨⟨v, h⟩⟩ else none

theorem gf8_laws : FLaws gf8Ops where
  char2 := by decide +kernel
  zero_eq := rfl
  one_eq := rfl
  add_eq := fun _ _ => rfl
  mul_eq := fun _ _ => rfl
  sqr_eq := fun _ => rfl
  div_eq := fun _ _ => rfl
  isZero_iff := by decide +kernel
  frob := by decide +kernel
  m_odd := rfl
  low_zero := by decide +kernel
  low_add_one := by decide +kernel
  enc_dec := by decide +kernel
  dec_enc := by
    intro v x h
    have h' : (if h : v < 8 then some (⟨⟨v, h⟩⟩ : GF8) else none) = some x := h
    split at h'
    · rw [← Option.some.inj h']; rfl
    · cases h'
  toNat_lt := by decide +kernel
  toNat_zero := rfl


/-- y² + xy = x³ + x² + 1 over GF(8): 14 points, the subgroup of order 7 is
{O, (3,0), (3,3), (5,0), (5,5), (7,0), (7,7)} -/
def gf8Dstu : Dstu Unit GF8 where
  f := gf8Ops
  A := true
  B := 1
  n := 7
  zero := ()
  add := fun _ _ => ()
  neg := fun _ => ()
  smul := fun _ _ => ()
  base := ()
  xy := fun _ => none
  ofXY := fun _ _ => none

/-- y² + xy = x³ + x² + x over GF(8) (A = 1, tr(B) = 0): the points (1, 4), (1, 5) lie on it -/
def gf8DstuB2 : Dstu Unit GF8 := { gf8Dstu with B := ⟨2⟩ }

end Bee2V.C16.Fld

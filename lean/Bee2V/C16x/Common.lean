/-
C16 — shared pieces of the executable, code-shaped models of bign96.c, g12s.c, dstu.c, pfok.c.
No Mathlib: linked into the native driver `drv_c16`.

Conventions
* octet strings = `List UInt8`; `wwFrom`/`wwTo`/`qrFrom`/`qrTo` of the plain representations are the
  identity on the VALUE, so the models keep values in `Nat`;
* every function takes the C buffers with their exact lengths: lengths are preconditions of the C API
  and are enforced by the harness/driver, not by the model;
* error codes AND their order follow the C text line by line; the C checks that cannot fail through
  the harness (`memIsValid`, `blobCreate`, `rng == 0`) are omitted (listed in docs/C16.md).
-/
namespace Bee2V.C16

abbrev Bytes := List UInt8

/-- little-endian octets -> Nat (`wwFrom`) -/
def leNat : Bytes → Nat
  | [] => 0
  | b :: bs => b.toNat + 256 * leNat bs

/-- Nat -> n little-endian octets, truncating (`wwTo`) -/
def natLE : Nat → Nat → Bytes
  | 0, _ => []
  | n + 1, v => UInt8.ofNat (v % 256) :: natLE n (v / 256)

/-- big-endian octets -> Nat (`memRev` + `wwFrom`) -/
def beNat (b : Bytes) : Nat := leNat b.reverse

/-- Nat -> n big-endian octets (`wwTo` + `memRev`) -/
def natBE (n v : Nat) : Bytes := (natLE n v).reverse

def zeros (n : Nat) : Bytes := List.replicate n 0

/-- `wwBitSize` -/
def bitLen (n : Nat) : Nat := if n = 0 then 0 else Nat.log2 n + 1

inductive Err
  | ok | badInput | badOid | badRng | badPoint | badParams | badPrivkey | badPubkey | badSig
  deriving DecidableEq, Repr, Inhabited

/-- the numeric values of include/bee2/core/err.h -/
def Err.code : Err → Nat
  | .ok => 0 | .badInput => 109 | .badOid => 301 | .badRng => 304 | .badPoint => 401 | .badParams => 502
  | .badPrivkey => 504 | .badPubkey => 505 | .badSig => 510

/-! ### zz: the modular steps with their real behaviour on n-word operands (`W = B^n`) -/

/-- `zzAddMod(c, a, b, mod, n)` -/
def addMod (W a b m : Nat) : Nat :=
  let c := (a + b) % W
  if a + b ≥ W ∨ c ≥ m then (c + W - m) % W else c

/-- `zzSubMod(c, a, b, mod, n)`: `a - b` with the borrow repaired by `+ mod` (all modulo B^n) -/
def subMod (W a b m : Nat) : Nat :=
  if a < b then (a + W - b + m) % W else a - b

/-- `zzNegMod(b, a, mod, n)` for `a < mod` -/
def negMod (a m : Nat) : Nat := if a = 0 then 0 else m - a

/-- `wwFrom(k, hash, no); if (wwCmp(k, q) >= 0) zzSub2(k, q)`: the hash value reduced once -/
def redOnce (h q : Nat) : Nat := if h ≥ q then h - q else h

/-! ### the caller's generator as a tape -/

/-- one call `rng(buf, n, state)`: the next n octets of the tape (zero octets once it is exhausted) -/
def tapeRead (n : Nat) (tape : Bytes) : Bytes × Bytes :=
  (tape.take n ++ zeros (n - tape.length), tape.drop n)

/-- the do-while loop of `zzRandNZMod`; `i` = attempts left.  Every attempt reads `O_OF_B(l)` octets,
`l = wwBitSize(mod)`, and trims the value to l bits (`wwTrimHi`). -/
def randLoop (q : Nat) : Nat → Bytes → Nat → Option Nat × Bytes × Nat
  | 0, tape, used => (none, tape, used)
  | i + 1, tape, used =>
    let l := bitLen q
    let r := tapeRead ((l + 7) / 8) tape
    let v := leNat r.1 % 2 ^ l
    if v = 0 ∨ v ≥ q then randLoop q i r.2 (used + (l + 7) / 8) else (some v, r.2, used + (l + 7) / 8)

/-- `zzRandNZMod(k, order, n, rng, rng_state)`: 1 + B_PER_IMPOSSIBLE attempts; `none` = FALSE.
Returns the value, the rest of the tape and the number of octets requested. -/
def randNZMod (q : Nat) (tape : Bytes) : Option Nat × Bytes × Nat := randLoop q 65 tape 0

/-- a strict read (dstu: the library loops `while (1)` around the generator, the harness aborts the
operation when the tape cannot serve a request completely): `none` = exhausted -/
def tapeReadStrict (n : Nat) (tape : Bytes) : Option (Bytes × Bytes) :=
  if tape.length < n then none else some (tape.take n, tape.drop n)

end Bee2V.C16

/-
C16 — helper lemmas for the pfok model (Montgomery group B_p) and the octet round trips that both
PropsPfok and PropsDstuPoint use.
-/
import Bee2V.C16x.Pfok
import Mathlib.Data.ZMod.Basic
import Mathlib.Algebra.Field.ZMod
import Mathlib.Data.Nat.ModEq
import Mathlib.Tactic.Ring
import Mathlib.Tactic.FieldSimp

namespace Bee2V.C16.Pf
open Bee2V.C16

/-! ### octets -/

theorem natLE_length (n v : Nat) : (natLE n v).length = n := by
  induction n generalizing v with
  | zero => rfl
  | succ n ih => simp [natLE, ih]

theorem leNat_natLE_mod (n v : Nat) : leNat (natLE n v) = v % 256 ^ n := by
  induction n generalizing v with
  | zero => simp [natLE, leNat, Nat.mod_one]
  | succ n ih =>
    simp only [natLE, leNat, ih, UInt8.toNat_ofNat']
    rw [show (2 : Nat) ^ 8 = 256 by norm_num, Nat.mod_mod, Nat.pow_succ,
      Nat.mul_comm (256 ^ n) 256, Nat.mod_mul]

theorem leNat_natLE {n v : Nat} (h : v < 256 ^ n) : leNat (natLE n v) = v := by
  rw [leNat_natLE_mod, Nat.mod_eq_of_lt h]

theorem pow256 (n : Nat) : 256 ^ n = 2 ^ (8 * n) := by
  rw [pow_mul]; norm_num

theorem leNat_natLE' {n v : Nat} (h : v < 2 ^ (8 * n)) : leNat (natLE n v) = v :=
  leNat_natLE (by rw [pow256]; exact h)

theorem leNat_zeros (n : Nat) : leNat (zeros n) = 0 := by
  induction n with
  | zero => rfl
  | succ n ih =>
    show leNat ((0 : UInt8) :: zeros n) = 0
    simp [leNat, ih]

theorem natLE_zero (n : Nat) : natLE n 0 = zeros n := by
  induction n with
  | zero => rfl
  | succ n ih =>
    show UInt8.ofNat (0 % 256) :: natLE n (0 / 256) = (0 : UInt8) :: zeros n
    simp [ih]

theorem zeros_length (n : Nat) : (zeros n).length = n := by simp [zeros]

/-! ### halving -/

theorem halve_mod {p : Nat} (hp : p % 2 = 1) (x : Nat) : (2 * halve p x) % p = x % p := by
  unfold halve
  split
  · rw [Nat.mul_div_cancel' (Nat.dvd_of_mod_eq_zero ‹_›)]
  · have h2 : (x + p) % 2 = 0 := by omega
    rw [Nat.mul_div_cancel' (Nat.dvd_of_mod_eq_zero h2)]
    simp

theorem halve_lt {p x : Nat} (h : x < p) : halve p x < p := by
  unfold halve
  split <;> omega

theorem halveN_mod {p : Nat} (hp : p % 2 = 1) (k x : Nat) :
    (halveN p k x * 2 ^ k) % p = x % p := by
  induction k generalizing x with
  | zero => simp [halveN]
  | succ k ih =>
    rw [halveN, pow_succ, ← Nat.mul_assoc, Nat.mul_mod, ih, ← Nat.mul_mod, Nat.mul_comm, halve_mod hp]

theorem halveN_lt {p : Nat} (k : Nat) {x : Nat} (h : x < p) : halveN p k x < p := by
  induction k generalizing x with
  | zero => simpa [halveN]
  | succ k ih => rw [halveN]; exact ih (halve_lt h)

/-! ### the Montgomery group -/

theorem odd_of_prime {p : Nat} (hp : Nat.Prime p) (hp2 : p ≠ 2) : p % 2 = 1 :=
  (Nat.Prime.eq_two_or_odd hp).resolve_left hp2

theorem rinv_mod (C : Pfok) (hp : C.p % 2 = 1) : (C.rinv * 2 ^ C.lR) % C.p = 1 % C.p := by
  unfold Pfok.rinv
  rw [halveN_mod hp, Nat.mod_mod]

theorem mulM_mod (C : Pfok) (hp : C.p % 2 = 1) (u v : Nat) :
    (C.mulM u v * 2 ^ C.lR) % C.p = (u * v) % C.p := by
  unfold Pfok.mulM
  rw [Nat.mul_mod, Nat.mod_mod, ← Nat.mul_mod, Nat.mul_assoc, Nat.mul_mod, rinv_mod C hp,
    ← Nat.mul_mod, Nat.mul_one, Nat.mod_mod]

theorem mulM_lt (C : Pfok) (hp : 0 < C.p) (u v : Nat) : C.mulM u v < C.p := by
  unfold Pfok.mulM; exact Nat.mod_lt _ hp

theorem unity_lt (C : Pfok) (hp : 0 < C.p) : C.unity < C.p := by
  unfold Pfok.unity; exact Nat.mod_lt _ hp

theorem powM_lt (C : Pfok) (hp : 0 < C.p) (a e : Nat) : C.powM a e < C.p := by
  rw [Pfok.powM]
  split
  · exact unity_lt C hp
  · simp only
    split <;> exact mulM_lt C hp _ _

section zmod
variable (C : Pfok) [Fact (Nat.Prime C.p)]

/-- R = 2^lR in ZMod p -/
def R : ZMod C.p := (2 : ZMod C.p) ^ C.lR

theorem two_ne_zero (hp2 : C.p ≠ 2) : (2 : ZMod C.p) ≠ 0 := by
  intro h
  have h' : ((2 : Nat) : ZMod C.p) = 0 := by exact_mod_cast h
  rw [ZMod.natCast_eq_zero_iff] at h'
  have hp : Nat.Prime C.p := Fact.out
  exact hp2 ((Nat.prime_dvd_prime_iff_eq hp Nat.prime_two).1 h')

theorem R_ne_zero (hp2 : C.p ≠ 2) : R C ≠ 0 := pow_ne_zero _ (two_ne_zero C hp2)

theorem cast_eq_of_mod {p a b : Nat} (h : a % p = b % p) : (a : ZMod p) = (b : ZMod p) :=
  (ZMod.natCast_eq_natCast_iff' a b p).2 h

theorem eq_of_cast_eq {p a b : Nat} (ha : a < p) (hb : b < p) (h : (a : ZMod p) = (b : ZMod p)) :
    a = b := by
  have := (ZMod.natCast_eq_natCast_iff' a b p).1 h
  rwa [Nat.mod_eq_of_lt ha, Nat.mod_eq_of_lt hb] at this

theorem mulM_cast (hp2 : C.p ≠ 2) (u v : Nat) :
    ((C.mulM u v : Nat) : ZMod C.p) = u * v * (R C)⁻¹ := by
  have hp : Nat.Prime C.p := Fact.out
  have h := cast_eq_of_mod (mulM_mod C (odd_of_prime hp hp2) u v)
  have hR := R_ne_zero C hp2
  push_cast at h
  rw [eq_mul_inv_iff_mul_eq₀ hR]
  exact h

theorem unity_cast : ((C.unity : Nat) : ZMod C.p) = R C := by
  unfold Pfok.unity R
  rw [ZMod.natCast_mod]; push_cast; rfl

theorem powM_cast (hp2 : C.p ≠ 2) (a e : Nat) :
    ((C.powM a e : Nat) : ZMod C.p) = ((a : ZMod C.p) * (R C)⁻¹) ^ e * R C := by
  have hR := R_ne_zero C hp2
  induction e using Nat.strong_induction_on with
  | _ e ih =>
    rw [Pfok.powM]
    split
    · subst e; rw [unity_cast]; simp
    · rename_i he
      have ih' := ih (e / 2) (by omega)
      simp only
      have hs : ((C.mulM (C.powM a (e / 2)) (C.powM a (e / 2)) : Nat) : ZMod C.p)
          = ((a : ZMod C.p) * (R C)⁻¹) ^ (2 * (e / 2)) * R C := by
        rw [mulM_cast C hp2, ih', Nat.mul_comm, pow_mul, pow_two]
        field_simp
      split
      · rename_i hodd
        rw [mulM_cast C hp2, hs]
        conv_rhs => rw [← Nat.div_add_mod e 2, hodd, pow_succ]
        ring
      · rename_i heven
        rw [hs]
        conv_rhs => rw [← Nat.div_add_mod e 2, show e % 2 = 0 by omega, Nat.add_zero]

theorem powM_ne_zero (hp2 : C.p ≠ 2) {a : Nat} (ha : a % C.p ≠ 0) (e : Nat) : C.powM a e ≠ 0 := by
  intro h
  have h1 := powM_cast C hp2 a e
  rw [h] at h1
  have hR := R_ne_zero C hp2
  have ha' : (a : ZMod C.p) ≠ 0 := by
    intro h0
    rw [ZMod.natCast_eq_zero_iff] at h0
    exact ha (Nat.mod_eq_zero_of_dvd h0)
  have : ((a : ZMod C.p) * (R C)⁻¹) ^ e * R C ≠ 0 :=
    mul_ne_zero (pow_ne_zero _ (mul_ne_zero ha' (inv_ne_zero hR))) hR
  exact this (by rw [← h1]; simp)

theorem powM_powM (hp2 : C.p ≠ 2) (a x y : Nat) : C.powM (C.powM a x) y = C.powM a (x * y) := by
  have hp : Nat.Prime C.p := Fact.out
  have hR := R_ne_zero C hp2
  apply eq_of_cast_eq (powM_lt C hp.pos _ _) (powM_lt C hp.pos _ _)
  rw [powM_cast C hp2, powM_cast C hp2, powM_cast C hp2, pow_mul]
  congr 2
  field_simp

theorem mulM_assoc (hp2 : C.p ≠ 2) (u v w : Nat) :
    C.mulM (C.mulM u v) w = C.mulM u (C.mulM v w) := by
  have hp : Nat.Prime C.p := Fact.out
  apply eq_of_cast_eq (mulM_lt C hp.pos _ _) (mulM_lt C hp.pos _ _)
  simp only [mulM_cast C hp2]
  ring

theorem mulM_unity (hp2 : C.p ≠ 2) {u : Nat} (hu : u < C.p) : C.mulM u C.unity = u := by
  have hp : Nat.Prime C.p := Fact.out
  have hR := R_ne_zero C hp2
  apply eq_of_cast_eq (mulM_lt C hp.pos _ _) hu
  rw [mulM_cast C hp2, unity_cast]
  field_simp

end zmod

/-! ### key functions -/

theorem r_le_mo (C : Pfok) : C.r ≤ 8 * C.mo := by unfold Pfok.mo; omega

theorem pubkeyCalc_eq (C : Pfok) {priv : Bytes} (h : leNat priv < 2 ^ C.r) :
    C.pubkeyCalc priv = (.ok, natLE C.no (C.powM C.g (leNat priv))) := by
  unfold Pfok.pubkeyCalc
  simp only
  rw [if_neg (by omega)]

theorem leNat_pub (C : Pfok) (hp : 0 < C.p) (hno : C.p < 2 ^ (8 * C.no)) (a e : Nat) :
    leNat (natLE C.no (C.powM a e)) = C.powM a e :=
  leNat_natLE' (lt_trans (powM_lt C hp a e) hno)

theorem dh_eq (C : Pfok) {priv pub : Bytes} (h : leNat priv < 2 ^ C.r)
    (h0 : leNat pub ≠ 0) (h1 : leNat pub < C.p) :
    C.dh priv pub = (.ok, C.trimKey (C.powM (leNat pub) (leNat priv))) := by
  unfold Pfok.dh
  simp only
  rw [if_neg (by omega), if_neg (by omega)]

theorem mti_eq (C : Pfok) {priv priv1 pub pub1 : Bytes} (h : leNat priv < 2 ^ C.r)
    (h' : leNat priv1 < 2 ^ C.r)
    (h0 : leNat pub ≠ 0) (h1 : leNat pub < C.p) (h2 : leNat pub1 ≠ 0) (h3 : leNat pub1 < C.p) :
    C.mti priv priv1 pub pub1 =
      (.ok, C.trimKey (Nat.xor (C.powM (leNat pub) (leNat priv1)) (C.powM (leNat pub1) (leNat priv)))) := by
  unfold Pfok.mti
  simp only
  rw [if_neg (by omega), if_neg (by omega)]

/-! ### a toy context: p = 23, g = 5, l = 5, lR = l + 2 = 7, r = 3, n = 4 -/

def toyPfok : Pfok := { l := 5, r := 3, n := 4, p := 23, g := 5, lR := 7 }

theorem toy_rinv : toyPfok.rinv = 16 := by decide

/-- concrete run: x_A = 3, x_B = 6, y_A = 7, y_B = 2, shared key 1 -/
theorem toy_dh_eval : toyPfok.pubkeyCalc [3] = (.ok, [7]) ∧ toyPfok.pubkeyCalc [6] = (.ok, [2]) ∧
    toyPfok.dh [3] [2] = (.ok, [1]) ∧ toyPfok.dh [6] [7] = (.ok, [1]) := by
  simp [Pfok.pubkeyCalc, Pfok.dh, Pfok.trimKey, leNat, natLE, Pfok.powM, Pfok.mulM, toy_rinv,
    Pfok.unity, show toyPfok.no = 1 from rfl, show toyPfok.ko = 1 from rfl,
    show toyPfok.p = 23 from rfl, show toyPfok.g = 5 from rfl, show toyPfok.lR = 7 from rfl,
    show toyPfok.r = 3 from rfl, show toyPfok.n = 4 from rfl]

/-- concrete MTI run: long-term (3, 7), (6, 2); one-time (5, 19), (7, 22); shared key 8 -/
theorem toy_mti_eval : toyPfok.pubkeyCalc [5] = (.ok, [19]) ∧ toyPfok.pubkeyCalc [7] = (.ok, [22]) ∧
    toyPfok.mti [3] [5] [2] [22] = (.ok, [8]) ∧ toyPfok.mti [6] [7] [7] [19] = (.ok, [8]) := by
  simp [Pfok.pubkeyCalc, Pfok.mti, Pfok.trimKey, leNat, natLE, Pfok.powM, Pfok.mulM, toy_rinv,
    Pfok.unity, show toyPfok.no = 1 from rfl, show toyPfok.ko = 1 from rfl,
    show toyPfok.p = 23 from rfl, show toyPfok.g = 5 from rfl, show toyPfok.lR = 7 from rfl,
    show toyPfok.r = 3 from rfl, show toyPfok.n = 4 from rfl]

end Bee2V.C16.Pf

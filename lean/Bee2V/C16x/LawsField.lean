/-
C16 — the hypothesis structure under which the gf2Tr / gf2QSolve / dstuPointCompress /
dstuPointRecover models are verified: `F` is a field of characteristic 2 with 2^m elements, m odd,
`FOps` computes in it, and the code `toNat`/`ofNat` is a polynomial-basis code (adding the unity flips
the constant coefficient; the code of 0 is 0; codes have at most m bits).

Every clause holds for GF(2^m), m odd, in a polynomial basis; `PropsDstuPoint` exhibits a model.
-/
import Bee2V.C16x.Dstu
import Mathlib.Algebra.Field.Basic

namespace Bee2V.C16

structure FLaws {F : Type} [Field F] (O : FOps F) : Prop where
  /-- characteristic 2 -/
  char2 : ∀ x : F, x + x = 0
  zero_eq : O.zero = 0
  one_eq : O.one = 1
  add_eq : ∀ a b, O.add a b = a + b
  mul_eq : ∀ a b, O.mul a b = a * b
  sqr_eq : ∀ a, O.sqr a = a * a
  div_eq : ∀ a b, O.div a b = a / b
  isZero_iff : ∀ a, O.isZero a = true ↔ a = 0
  /-- the field has 2^m elements -/
  frob : ∀ x : F, x ^ (2 ^ O.m) = x
  m_odd : O.m % 2 = 1
  /-- polynomial basis: the constant coefficient of 0 is 0, adding 1 flips it -/
  low_zero : O.low 0 = false
  low_add_one : ∀ x, O.low (x + 1) = !O.low x
  enc_dec : ∀ x, O.ofNat (O.toNat x) = some x
  dec_enc : ∀ v x, O.ofNat v = some x → O.toNat x = v
  toNat_lt : ∀ x, O.toNat x < 2 ^ O.m
  toNat_zero : O.toNat 0 = 0

end Bee2V.C16

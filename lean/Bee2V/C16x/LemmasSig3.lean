/-
C16 — lemmas for the g12s theorems: `zzInvMod` (extended Euclid) is the inverse modulo a prime, the
congruence `z1 + z2 d ≡ k` of GOST R 34.10-2012, the signing loop, signatures against `verify`.
-/
import Bee2V.C16x.LemmasSig2
namespace Bee2V.C16.Sig
open Bee2V.C16

/-! ### zzInvMod -/

/-- the invariant of extended Euclid: `r_i ≡ t_i a (mod m)`, hence the result times a is the gcd -/
theorem xgcd_spec (m a : Nat) : ∀ (r1 r0 : Nat) (t0 t1 : Int),
    ((r0 : ℕ) : ZMod m) = (t0 : ZMod m) * (a : ZMod m) →
    ((r1 : ℕ) : ZMod m) = (t1 : ZMod m) * (a : ZMod m) →
    ((xgcd r0 r1 t0 t1 : ℤ) : ZMod m) * (a : ZMod m) = ((Nat.gcd r0 r1 : ℕ) : ZMod m) := by
  intro r1
  induction r1 using Nat.strong_induction_on with
  | _ r1 ih =>
    intro r0 t0 t1 h0 h1
    rw [xgcd]
    by_cases hz : r1 = 0
    · rw [dif_pos hz]
      subst hz
      rw [Nat.gcd_zero_right, h0]
    · rw [dif_neg hz]
      have hlt : r0 % r1 < r1 := Nat.mod_lt _ (Nat.pos_of_ne_zero hz)
      have hg : Nat.gcd r1 (r0 % r1) = Nat.gcd r0 r1 := by
        rw [Nat.gcd_comm r1 (r0 % r1), ← Nat.gcd_rec, Nat.gcd_comm]
      rw [← hg]
      apply ih (r0 % r1) hlt r1 t1 _ h1
      have hm : ((r0 % r1 : ℕ) : ZMod m) = (r0 : ZMod m) - (r1 : ZMod m) * ((r0 / r1 : ℕ) : ZMod m) := by
        have := congrArg (fun n : ℕ => (n : ZMod m)) (Nat.mod_add_div r0 r1)
        simp only [Nat.cast_add, Nat.cast_mul] at this
        rw [← this]
        ring
      rw [hm, h0, h1, Int.cast_sub, Int.cast_mul, Int.cast_natCast]
      ring

/-- `zzInvMod` modulo a prime: the result is reduced and is the inverse -/
theorem invMod_spec {q e : Nat} (hq : Nat.Prime q) (h0 : 0 < e) (he : e < q) :
    invMod e q < q ∧ (invMod e q * e) % q = 1 := by
  have hqpos : 0 < q := hq.pos
  have hcop : Nat.gcd q e = 1 := by
    have : Nat.Coprime q e := (Nat.Prime.coprime_iff_not_dvd hq).2 (fun hd => by
      have := Nat.le_of_dvd h0 hd
      omega)
    exact this
  have hx := xgcd_spec q e e q 0 1 (by simp) (by simp)
  rw [hcop, Nat.cast_one] at hx
  unfold invMod
  rw [Nat.mod_eq_of_lt he]
  generalize xgcd q e 0 1 = t at hx
  have hnn : 0 ≤ t % (q : ℤ) := Int.emod_nonneg _ (by omega)
  have hlt : t % (q : ℤ) < q := Int.emod_lt_of_pos _ (by omega)
  refine ⟨by omega, ?_⟩
  have hc : (((t % (q : ℤ)).toNat : ℕ) : ZMod q) = (t : ZMod q) := by
    have h1 : (((t % (q : ℤ)).toNat : ℕ) : ℤ) = t % (q : ℤ) := Int.toNat_of_nonneg hnn
    have h2 : ((((t % (q : ℤ)).toNat : ℕ) : ℤ) : ZMod q) = (((t % (q : ℤ)).toNat : ℕ) : ZMod q) :=
      Int.cast_natCast _
    rw [← h2, h1, ZMod.intCast_mod]
  have h1 : 1 % q = 1 := Nat.mod_eq_of_lt hq.one_lt
  rw [← h1]
  apply mod_eq_of_cast
  push_cast
  rw [hc, hx]

/-- the inverse modulo a prime is unique among the reduced numbers -/
theorem invMod_unique {q e v : Nat} (hq : Nat.Prime q) (h0 : 0 < e) (he : e < q) (hv : v < q)
    (h : (v * e) % q = 1) : v = invMod e q := by
  obtain ⟨hi, hm⟩ := invMod_spec hq h0 he
  have h1 : 1 % q = 1 := Nat.mod_eq_of_lt hq.one_lt
  have c1 : (v : ZMod q) * (e : ZMod q) = 1 := by
    have := cast_of_mod_eq (q := q) (a := v * e) (b := 1) (by rw [h, h1])
    simpa using this
  have c2 : (invMod e q : ZMod q) * (e : ZMod q) = 1 := by
    have := cast_of_mod_eq (q := q) (a := invMod e q * e) (b := 1) (by rw [hm, h1])
    simpa using this
  have c3 : (v : ZMod q) = (invMod e q : ZMod q) := by
    calc (v : ZMod q) = (v : ZMod q) * ((invMod e q : ZMod q) * (e : ZMod q)) := by rw [c2, mul_one]
      _ = (invMod e q : ZMod q) * ((v : ZMod q) * (e : ZMod q)) := by ring
      _ = (invMod e q : ZMod q) := by rw [c1, mul_one]
  have := mod_eq_of_cast c3
  rwa [Nat.mod_eq_of_lt hv, Nat.mod_eq_of_lt hi] at this

/-- the congruence of GOST R 34.10: with `s = (r d + k e) mod q` and `v e ≡ 1`,
`z1 = s v`, `z2 = -(v r)` give `z1 + z2 d ≡ k` -/
theorem gost_cong {q v e r d k : Nat} (hq : 0 < q) (hv : (v * e) % q = 1 % q) :
    ((((r * d) % q + (k * e) % q) % q * v) % q + ((q - (v * r) % q) % q) * d) % q = k % q := by
  have c1 : (v : ZMod q) * (e : ZMod q) = 1 := by
    have := cast_of_mod_eq (q := q) (a := v * e) (b := 1) hv
    simpa using this
  have hle : (v * r) % q ≤ q := (Nat.mod_lt _ hq).le
  apply mod_eq_of_cast
  push_cast [ZMod.natCast_mod, Nat.cast_sub hle, ZMod.natCast_self]
  calc ((r : ZMod q) * d + k * e) * v + (0 - v * r) * d = (k : ZMod q) * ((v : ZMod q) * e) := by ring
    _ = k := by rw [c1, mul_one]

/-! ### g12s sizes and keys -/

variable {G : Type} [AddCommGroup G] {C : G12 G}

theorem g_q_pos (L : G12Laws C) : 0 < C.q := L.q_prime.pos

theorem g_pow_mo (L : G12Laws C) : 256 ^ C.mo = 2 ^ C.l := by
  rw [pow256]
  congr 1
  have := L.l_mod
  unfold G12.mo
  omega

theorem g_q_lt_W (L : G12Laws C) : C.q < 2 ^ C.l := L.q_hi

theorem g_lt_pow (L : G12Laws C) {v : Nat} (h : v < C.q) : v < 256 ^ C.mo := by
  rw [g_pow_mo L]; exact Nat.lt_trans h L.q_hi

omit [AddCommGroup G] in
theorem g_hashE_range (C : G12 G) (hq : 1 < C.q) (H : Bytes) : 0 < C.hashE H ∧ C.hashE H < C.q := by
  unfold G12.hashE
  simp only
  have := Nat.mod_lt (beNat H) (show 0 < C.q by omega)
  split <;> omega

theorem g_loadPub_encXY (L : G12Laws C) {P : G} {x y : Nat} (h : C.xy P = some (x, y)) :
    C.loadPub (C.encXY (x, y)) = some P := by
  obtain ⟨hx, hy⟩ := L.xy_lt P x y h
  unfold G12.loadPub G12.encXY
  simp only [take_natLE_append, drop_natLE_append]
  rw [leNat_natLE_of_lt (by rw [pow256]; exact hx), leNat_natLE_of_lt (by rw [pow256]; exact hy)]
  exact L.ofXY_xy P x y h

/-! ### the signing loop -/

omit [AddCommGroup G] in
/-- every successful exit of the `gen_k:` loop has the shape r ‖ s for some one-time key in [1, q-1]
with r = x_{kP} mod q ≠ 0 and s = (r d + k e) mod q ≠ 0 -/
theorem g_signLoop_shape (C : G12 G) (d e : Nat) : ∀ (fuel : Nat) (tape : Bytes) (used : Nat)
    (sig : Bytes) (used' : Nat), C.signLoop d e fuel tape used = some (.ok, sig, used') →
    ∃ k x y, 0 < k ∧ k < C.q ∧ C.xy (C.smul k C.base) = some (x, y) ∧ x % C.q ≠ 0 ∧
      addMod (2 ^ C.l) ((x % C.q * d) % C.q) ((k * e) % C.q) C.q ≠ 0 ∧
      sig = natBE C.mo (x % C.q) ++
        natBE C.mo (addMod (2 ^ C.l) ((x % C.q * d) % C.q) ((k * e) % C.q) C.q) := by
  intro fuel
  induction fuel with
  | zero => intro tape used sig used' h; simp [G12.signLoop] at h
  | succ n ih =>
    intro tape used sig used' h
    simp only [G12.signLoop] at h
    split at h
    · simp at h
    · rename_i k rest u hr
      obtain ⟨hk0, hkq⟩ := randLoop_range _ _ _ _ _ _ _ hr
      split at h
      · simp at h
      · rename_i R hR
        split at h
        · exact ih _ _ _ _ h
        · rename_i hr0
          split at h
          · exact ih _ _ _ _ h
          · rename_i hs0
            simp only [Option.some.injEq, Prod.mk.injEq, true_and] at h
            exact ⟨k, R.1, R.2, hk0, hkq, hR, hr0, hs0, h.1.symm⟩

/-- a signature r ‖ s with r = x_{kP} mod q ≠ 0, s = (r d + k e) mod q ≠ 0 passes `verify` under dP -/
theorem g_verify_sig (L : G12Laws C) {Hb pub : Bytes} {d k x y : Nat}
    (hk : C.xy (k • C.base) = some (x, y)) (hr0 : x % C.q ≠ 0)
    (hs0 : ((x % C.q * d) % C.q + (k * C.hashE Hb) % C.q) % C.q ≠ 0)
    (hp : C.loadPub pub = some (d • C.base)) :
    C.verify Hb (natBE C.mo (x % C.q) ++
      natBE C.mo (((x % C.q * d) % C.q + (k * C.hashE Hb) % C.q) % C.q)) pub = .ok := by
  have hq := g_q_pos L
  have hq1 : 1 < C.q := L.q_prime.one_lt
  obtain ⟨he0, heq⟩ := g_hashE_range C hq1 Hb
  obtain ⟨hvq, hve⟩ := invMod_spec L.q_prime he0 heq
  unfold G12.verify
  generalize C.hashE Hb = e at *
  generalize hr : x % C.q = r at *
  have hrq : r < C.q := by rw [← hr]; exact Nat.mod_lt _ hq
  generalize hs : ((r * d) % C.q + (k * e) % C.q) % C.q = s at *
  have hsq : s < C.q := by rw [← hs]; exact Nat.mod_lt _ hq
  have hbr : beNat (natBE C.mo r) = r := by
    rw [beNat_natBE, Nat.mod_eq_of_lt (g_lt_pow L hrq)]
  have hbs : beNat (natBE C.mo s) = s := by
    rw [beNat_natBE, Nat.mod_eq_of_lt (g_lt_pow L hsq)]
  simp only [hp, take_natBE_append, drop_natBE_append, hbr, hbs]
  rw [if_neg (by omega)]
  rw [negMod_eq (Nat.mod_lt _ hq), L.smul_eq, L.smul_eq, L.add_eq, ← mul_nsmul', ← add_nsmul]
  have h1 : 1 % C.q = 1 := Nat.mod_eq_of_lt hq1
  have hc := gost_cong (q := C.q) (v := invMod e C.q) (e := e) (r := r) (d := d) (k := k) hq
    (by rw [hve, h1])
  rw [hs] at hc
  rw [nsmul_congr L.order hc, hk]
  simp only [hr, if_true]

/-- every successful run of g12sSign: the private key is in [1, q-1] and the signature is r ‖ s with
r = x_{kP} mod q ≠ 0, s = (r d + k e) mod q ≠ 0 for a one-time key k -/
theorem g_sign_shape (L : G12Laws C) {Hb priv tape sig : Bytes} {fuel used : Nat}
    (hs : C.sign fuel Hb priv tape = some (.ok, sig, used)) :
    0 < leNat priv ∧ leNat priv < C.q ∧ ∃ k x y, C.xy (k • C.base) = some (x, y) ∧ x % C.q ≠ 0 ∧
      ((x % C.q * leNat priv) % C.q + (k * C.hashE Hb) % C.q) % C.q ≠ 0 ∧
      sig = natBE C.mo (x % C.q) ++
        natBE C.mo (((x % C.q * leNat priv) % C.q + (k * C.hashE Hb) % C.q) % C.q) ∧
      beNat (sig.drop C.mo) = ((x % C.q * leNat priv) % C.q + (k * C.hashE Hb) % C.q) % C.q := by
  have hq := g_q_pos L
  unfold G12.sign at hs
  simp only at hs
  by_cases hd : leNat priv = 0 ∨ leNat priv ≥ C.q
  · rw [if_pos hd] at hs; simp at hs
  rw [if_neg hd] at hs
  obtain ⟨k, x, y, _, _, hxy, hr0, hs0, hsig⟩ := g_signLoop_shape C _ _ _ _ _ _ _ hs
  rw [L.smul_eq] at hxy
  rw [addMod_eq (Nat.mod_lt _ hq) (Nat.mod_lt _ hq) (g_q_lt_W L)] at hsig hs0
  refine ⟨by omega, by omega, k, x, y, hxy, hr0, hs0, hsig, ?_⟩
  rw [hsig, drop_natBE_append, beNat_natBE, Nat.mod_eq_of_lt (g_lt_pow L (Nat.mod_lt _ hq))]

end Bee2V.C16.Sig

/-
C16 — executable, code-shaped model of src/crypto/g12s.c (GOST R 34.10-2012) over the abstract
group context `G12 G`.  No Mathlib.

Octet conventions of g12s: private key, public key coordinates little-endian; hash and the two halves
of the signature (r first, then s) big-endian.  `mo = l/8` octets per scalar, `no` octets per field
element.  The public-key check `ecpIsOnA` in g12sVerify is the REPAIRED behaviour (docs/C16.fix-2.diff).
-/
import Bee2V.C16x.Bign96
namespace Bee2V.C16

structure G12 (G : Type) extends ECtx G where
  /-- security level: 256 or 512 -/
  l : Nat
  /-- octets of a field element (`ec->f->no`) -/
  no : Nat

variable {G : Type}

/-- extended Euclid on (r0, r1) with the Bezout coefficients of the second kind (t0, t1) -/
def xgcd (r0 r1 : Nat) (t0 t1 : Int) : Int :=
  if _h : r1 = 0 then t0 else xgcd r1 (r0 % r1) t1 (t0 - (r0 / r1 : Nat) * t1)
termination_by r1
decreasing_by exact Nat.mod_lt _ (by omega)

/-- `zzInvMod(b, a, mod, n)`: a⁻¹ mod m for gcd(a, m) = 1 -/
def invMod (a m : Nat) : Nat := ((xgcd m (a % m) 0 1) % (m : Int)).toNat

namespace G12

def mo (C : G12 G) : Nat := C.l / 8

/-- `e <- hash mod q; if (e == 0) e <- 1` (hash big-endian) -/
def hashE (C : G12 G) (Hb : Bytes) : Nat :=
  let e := beNat Hb % C.q
  if e = 0 then 1 else e

def encXY (C : G12 G) (xy : Nat × Nat) : Bytes := natLE C.no xy.1 ++ natLE C.no xy.2

/-- `qrFrom(x) && qrFrom(y) && ecpIsOnA` -/
def loadPub (C : G12 G) (pub : Bytes) : Option G :=
  C.ofXY (leNat (pub.take C.no)) (leNat (pub.drop C.no))

/-- g12sKeypairGen: (code, privkey ‖ pubkey, octets requested) -/
def keypairGen (C : G12 G) (tape : Bytes) : Err × Bytes × Nat :=
  match randNZMod C.q tape with
  | (none, _, used) => (.badRng, [], used)
  | (some d, _, used) =>
    match C.xy (C.smul d C.base) with
    | some Q => (.ok, natLE C.mo d ++ encXY C Q, used)
    | none => (.badParams, [], used)

/-- the `gen_k:` loop of g12sSign: draw k, C = kP, r = x_C mod q, repeat while r = 0; s = (rd + ke) mod q,
repeat while s = 0 (REPAIRED behaviour, docs/C16.fix-6.diff).  The C loop is
unbounded (every round consumes the generator, which fails after 65 rejected draws); `fuel` bounds the
rounds of the model (`none` = not finished). -/
def signLoop (C : G12 G) (d e : Nat) : Nat → Bytes → Nat → Option (Err × Bytes × Nat)
  | 0, _, _ => none
  | fuel + 1, tape, used =>
    match randLoop C.q 65 tape used with
    | (none, _, used) => some (.badRng, [], used)
    | (some k, rest, used) =>
      match C.xy (C.smul k C.base) with
      | none => some (.badInput, [], used)
      | some R =>
        let r := R.1 % C.q
        if r = 0 then signLoop C d e fuel rest used else
        -- s <- (rd + ke) mod q
        let s := addMod (2 ^ C.l) ((r * d) % C.q) ((k * e) % C.q) C.q
        -- s == 0 => repeat the generation of k
        if s = 0 then signLoop C d e fuel rest used else
        some (.ok, natBE C.mo r ++ natBE C.mo s, used)

/-- g12sSign: (code, sig, octets requested); `none` = the loop did not finish within `fuel` -/
def sign (C : G12 G) (fuel : Nat) (Hb priv tape : Bytes) : Option (Err × Bytes × Nat) :=
  let d := leNat priv
  if d = 0 ∨ d ≥ C.q then some (.badPrivkey, [], 0) else
  signLoop C d (hashE C Hb) fuel tape 0

/-- g12sVerify -/
def verify (C : G12 G) (Hb sig pub : Bytes) : Err :=
  match loadPub C pub with
  | none => .badPubkey
  | some Q =>
    let r := beNat (sig.take C.mo)
    let s := beNat (sig.drop C.mo)
    if s = 0 ∨ r = 0 ∨ s ≥ C.q ∨ r ≥ C.q then .badSig else
    let v := invMod (hashE C Hb) C.q
    let z1 := (s * v) % C.q
    let z2 := negMod ((v * r) % C.q) C.q
    match C.xy (C.add (C.smul z1 C.base) (C.smul z2 Q)) with
    | none => .badParams
    | some R => if r = R.1 % C.q then .ok else .badSig

end G12
end Bee2V.C16

/-
C16 — the hypotheses under which the signature theorems of bign96 / g12s / dstu are stated, phrased for
the abstract contexts `B96 G`, `G12 G`, `Dstu G F` of the executable models.

Nothing here is assumed globally: the structures are hypotheses of each theorem.  They say what the theory of
elliptic curves gives for the group of ALL points of the curve (no cofactor-1 assumption: only the base
point is required to have prime order q) and what the octet encodings of field elements satisfy.
They are shown satisfiable by small concrete instances in `ToySig.lean` (non-vacuity).
-/
import Mathlib.Algebra.Group.Basic
import Mathlib.Data.Nat.Prime.Basic
import Bee2V.C16x.Bign96
import Bee2V.C16x.G12s
import Bee2V.C16x.Dstu
namespace Bee2V.C16

variable {G F : Type}

/-- the group part shared by bign96 and g12s -/
structure ELaws [AddCommGroup G] (C : ECtx G) : Prop where
  zero_eq : C.zero = 0
  add_eq : ∀ a b, C.add a b = a + b
  neg_eq : ∀ a, C.neg a = -a
  smul_eq : ∀ n a, C.smul n a = n • a
  /-- q is prime and is the order of the base point (G is the whole curve: no cofactor-1 assumption) -/
  q_prime : Nat.Prime C.q
  order : ∀ n : Nat, n • C.base = 0 ↔ C.q ∣ n
  /-- affine coordinates: exactly the non-zero elements have them; `ofXY` (range + curve equation) is
  the inverse of `xy` -/
  xy_none : ∀ P, C.xy P = none ↔ P = 0
  ofXY_xy : ∀ P x y, C.xy P = some (x, y) → C.ofXY x y = some P
  xy_ofXY : ∀ x y P, C.ofXY x y = some P → C.xy P = some (x, y)

/-- bign96: q is a 192-bit number, coordinates fit into 24 octets, belt-hash values have 32 octets -/
structure B96Laws [AddCommGroup G] (C : B96 G) : Prop extends ELaws C.toECtx where
  q_lo : 2 ^ 191 < C.q
  q_hi : C.q < 2 ^ 192
  xy_lt : ∀ P x y, C.xy P = some (x, y) → x < 2 ^ 192 ∧ y < 2 ^ 192
  hash_len : ∀ m, (C.hash m).length = 32

/-- g12s: l (256 or 512) is a whole number of octets, q < 2^l, coordinates fit into `no` octets -/
structure G12Laws [AddCommGroup G] (C : G12 G) : Prop extends ELaws C.toECtx where
  l_mod : C.l % 8 = 0
  l_pos : 0 < C.l
  q_hi : C.q < 2 ^ C.l
  q_lo : 2 < C.q
  xy_lt : ∀ P x y, C.xy P = some (x, y) → x < 2 ^ (8 * C.no) ∧ y < 2 ^ (8 * C.no)

/-- dstu: the group part (n is the prime order of the base point) and the polynomial-basis code of the
elements of GF(2^m) -/
structure DLaws [AddCommGroup G] (C : Dstu G F) : Prop where
  zero_eq : C.zero = 0
  add_eq : ∀ a b, C.add a b = a + b
  neg_eq : ∀ a, C.neg a = -a
  smul_eq : ∀ k a, C.smul k a = k • a
  n_prime : Nat.Prime C.n
  order : ∀ k : Nat, k • C.base = 0 ↔ C.n ∣ k
  xy_none : ∀ P, C.xy P = none ↔ P = 0
  ofXY_xy : ∀ P x y, C.xy P = some (x, y) → C.ofXY x y = some P
  xy_ofXY : ∀ x y P, C.ofXY x y = some P → C.xy P = some (x, y)
  n_big : 2 < C.n
  /-- `qrFrom` inverts `qrTo`, and codes are m-bit numbers -/
  enc_dec : ∀ x : F, C.f.ofNat (C.f.toNat x) = some x
  toNat_lt : ∀ x : F, C.f.toNat x < 2 ^ C.f.m
  m_pos : 0 < C.f.m

end Bee2V.C16

/-
C16 — NON-VACUITY of the hypothesis structures of LawsSig.lean: small concrete contexts over the group
(ZMod 65521, +) with base point 1 (prime order q = 65521, the largest prime below 2^16).

"Coordinates" of P ≠ 0 with v = P.val: (min v (q - v), v) — P and -P share the x-coordinate.
* `toyG12 : G12 (ZMod 65521)` with l = 16 (mo = 2), no = 2 and `toyG12Laws : G12Laws toyG12`;
* `toyDstu : Dstu (ZMod 65521) (Fin 65536)` with m = 16 (no = 2), n = 65521 (nb = 16, oo = 2) and
  `toyDLaws : DLaws toyDstu`; the "field" is Fin 65536 with its modular operations (the laws only ask
  for the code of its elements);
* `toyE : ECtx (ZMod 65521)` with `toyELaws : ELaws toyE`.
* `toyB96 : B96 (ZMod Q96)` over (ZMod Q96, +), Q96 = 13·2^188 + 1 a 192-bit prime (bign96 fixes the
  size of q: `W192`, 24-octet strings), primality by Lucas' test; `toyB96Laws : B96Laws toyB96`.
-/
import Mathlib.Data.ZMod.Basic
import Mathlib.Tactic.NormNum.Prime
import Mathlib.Tactic.ReduceModChar
import Mathlib.NumberTheory.LucasPrimality
import Bee2V.C16x.LawsSig
namespace Bee2V.C16.ToySig
open Bee2V.C16

/-- a 192-bit prime: 13·2^188 + 1 (2^191 < q < 2^192) -/
def Q96 : Nat := 5100145160001678120616578906356228963083163798627028041729

instance : NeZero (65521 : Nat) := ⟨by omega⟩
instance : NeZero Q96 := ⟨by unfold Q96; omega⟩

/-! ### the coordinate maps on naturals (for a modulus q) -/

def xyN (q v : Nat) : Option (Nat × Nat) :=
  if v = 0 then none else some (min v (q - v), v)

def ofXYN (q x y : Nat) : Option (ZMod q) :=
  if y ≠ 0 ∧ y < q ∧ x = min y (q - y) then some (y : ZMod q) else none

section generic
variable {q : Nat}

theorem xyN_some {v x y : Nat} (h : xyN q v = some (x, y)) :
    v ≠ 0 ∧ x = min v (q - v) ∧ y = v := by
  unfold xyN at h
  by_cases hv : v = 0
  · rw [if_pos hv] at h; cases h
  · rw [if_neg hv] at h
    simp only [Option.some.injEq, Prod.mk.injEq] at h
    exact ⟨hv, h.1.symm, h.2.symm⟩

theorem xyN_of_ne {v : Nat} (hv : v ≠ 0) : xyN q v = some (min v (q - v), v) := by
  unfold xyN; rw [if_neg hv]

theorem ofXYN_some {x y : Nat} {P : ZMod q} (h : ofXYN q x y = some P) :
    y ≠ 0 ∧ y < q ∧ x = min y (q - y) ∧ P = (y : ZMod q) := by
  unfold ofXYN at h
  by_cases hc : y ≠ 0 ∧ y < q ∧ x = min y (q - y)
  · rw [if_pos hc] at h
    simp only [Option.some.injEq] at h
    exact ⟨hc.1, hc.2.1, hc.2.2, h.symm⟩
  · rw [if_neg hc] at h; cases h

theorem order_q (n : Nat) : n • (1 : ZMod q) = 0 ↔ q ∣ n := by
  rw [nsmul_one]
  exact ZMod.natCast_eq_zero_iff n q

variable [NeZero q]

omit [NeZero q] in
theorem xy_none_q (P : ZMod q) : xyN q P.val = none ↔ P = 0 := by
  rw [← ZMod.val_eq_zero P]
  unfold xyN
  by_cases hv : P.val = 0
  · simp [hv]
  · simp [hv]

theorem ofXY_xy_q (P : ZMod q) (x y : Nat) (h : xyN q P.val = some (x, y)) : ofXYN q x y = some P := by
  obtain ⟨hv, hx, hy⟩ := xyN_some h
  have hlt : P.val < q := ZMod.val_lt P
  unfold ofXYN
  rw [if_pos ⟨by omega, by omega, by rw [hy]; exact hx⟩, hy, ZMod.natCast_zmod_val]

omit [NeZero q] in
theorem xy_ofXY_q (x y : Nat) (P : ZMod q) (h : ofXYN q x y = some P) : xyN q P.val = some (x, y) := by
  obtain ⟨hy0, hyq, hx, hP⟩ := ofXYN_some h
  rw [hP, ZMod.val_cast_of_lt hyq, xyN_of_ne hy0, hx]

theorem xy_lt_q (P : ZMod q) (x y : Nat) (h : xyN q P.val = some (x, y)) : x < q ∧ y < q := by
  obtain ⟨_, hx, hy⟩ := xyN_some h
  have hlt : P.val < q := ZMod.val_lt P
  omega

end generic

theorem prime_q : Nat.Prime 65521 := by norm_num

/-- Lucas' test with the witness 3: q - 1 = 13·2^188 -/
theorem prime_Q96 : Nat.Prime Q96 := by
  unfold Q96
  apply lucas_primality _ (3 : ZMod 5100145160001678120616578906356228963083163798627028041729)
  · reduce_mod_char
  · intro p hp hd
    have h1 : (5100145160001678120616578906356228963083163798627028041729 - 1 : ℕ) = 13 * 2 ^ 188 := by
      norm_num
    rw [h1] at hd ⊢
    rcases (Nat.Prime.dvd_mul hp).1 hd with h | h
    · have : p = 13 := (Nat.prime_dvd_prime_iff_eq hp (by norm_num)).1 h
      subst this
      have h2 : 13 * 2 ^ 188 / 13 = 2 ^ 188 := by norm_num
      rw [h2]
      reduce_mod_char
      decide
    · have : p = 2 := (Nat.prime_dvd_prime_iff_eq hp Nat.prime_two).1 (hp.dvd_of_dvd_pow h)
      subst this
      have h2 : 13 * 2 ^ 188 / 2 = 13 * 2 ^ 187 := by norm_num
      rw [h2]
      reduce_mod_char
      decide

/-! ### the group context -/

def toyE : ECtx (ZMod 65521) where
  q := 65521
  zero := 0
  add := fun a b => a + b
  neg := fun a => -a
  smul := fun n a => n • a
  base := 1
  xy := fun P => xyN 65521 P.val
  ofXY := ofXYN 65521

theorem toyELaws : ELaws toyE where
  zero_eq := rfl
  add_eq := fun _ _ => rfl
  neg_eq := fun _ => rfl
  smul_eq := fun _ _ => rfl
  q_prime := prime_q
  order := order_q
  xy_none := xy_none_q
  ofXY_xy := ofXY_xy_q
  xy_ofXY := xy_ofXY_q

/-! ### g12s -/

def toyG12 : G12 (ZMod 65521) where
  toECtx := toyE
  l := 16
  no := 2

theorem toyG12Laws : G12Laws toyG12 where
  toELaws := toyELaws
  l_mod := rfl
  l_pos := by show 0 < 16; omega
  q_hi := by show 65521 < 2 ^ 16; decide
  q_lo := by show 2 < 65521; omega
  xy_lt := by
    intro P x y h
    have := xy_lt_q (q := 65521) P x y h
    show x < 2 ^ (8 * 2) ∧ y < 2 ^ (8 * 2)
    omega

/-! ### dstu -/

def toyF : FOps (Fin 65536) where
  m := 16
  zero := 0
  one := 1
  add := fun a b => a + b
  mul := fun a b => a * b
  sqr := fun a => a * a
  div := fun a b => a / b
  isZero := fun a => a.val == 0
  low := fun a => a.val % 2 == 1
  toNat := fun a => a.val
  ofNat := fun v => if h : v < 65536 then some ⟨v, h⟩ else none

def xyD (P : ZMod 65521) : Option (Fin 65536 × Fin 65536) :=
  if P.val = 0 then none
  else some (Fin.ofNat 65536 (min P.val (65521 - P.val)), Fin.ofNat 65536 P.val)

def ofXYD (x y : Fin 65536) : Option (ZMod 65521) := ofXYN 65521 x.val y.val

def toyDstu : Dstu (ZMod 65521) (Fin 65536) where
  f := toyF
  A := true
  B := 1
  n := 65521
  zero := 0
  add := fun a b => a + b
  neg := fun a => -a
  smul := fun n a => n • a
  base := 1
  xy := xyD
  ofXY := ofXYD

theorem xyD_some {P : ZMod 65521} {x y : Fin 65536} (h : xyD P = some (x, y)) :
    xyN 65521 P.val = some (x.val, y.val) := by
  have hlt : P.val < 65521 := ZMod.val_lt P
  unfold xyD at h
  by_cases hv : P.val = 0
  · rw [if_pos hv] at h; cases h
  · rw [if_neg hv] at h
    simp only [Option.some.injEq, Prod.mk.injEq] at h
    rw [xyN_of_ne hv, ← h.1, ← h.2]
    simp only [Fin.ofNat, Fin.val_mk]
    rw [Nat.mod_eq_of_lt (by omega), Nat.mod_eq_of_lt (by omega)]

theorem toyDLaws : DLaws toyDstu where
  zero_eq := rfl
  add_eq := fun _ _ => rfl
  neg_eq := fun _ => rfl
  smul_eq := fun _ _ => rfl
  n_prime := prime_q
  order := order_q
  xy_none := by
    intro P
    show xyD P = none ↔ P = 0
    rw [← ZMod.val_eq_zero P]
    unfold xyD
    by_cases hv : P.val = 0
    · simp [hv]
    · simp [hv]
  ofXY_xy := by
    intro P x y h
    exact ofXY_xy_q (q := 65521) P x.val y.val (xyD_some h)
  xy_ofXY := by
    intro x y P h
    have h' := xy_ofXY_q (q := 65521) x.val y.val P h
    obtain ⟨hv, hx, hy⟩ := xyN_some h'
    show xyD P = some (x, y)
    unfold xyD
    rw [if_neg hv, ← hx, ← hy]
    have e1 : Fin.ofNat 65536 x.val = x := Fin.ext (Nat.mod_eq_of_lt x.isLt)
    have e2 : Fin.ofNat 65536 y.val = y := Fin.ext (Nat.mod_eq_of_lt y.isLt)
    rw [e1, e2]
  n_big := by show 2 < 65521; omega
  enc_dec := by
    intro x
    show (if h : x.val < 65536 then some (⟨x.val, h⟩ : Fin 65536) else none) = some x
    rw [dif_pos x.isLt]
  toNat_lt := by
    intro x
    show x.val < 2 ^ 16
    exact x.isLt
  m_pos := by show 0 < 16; omega

/-! ### bign96 (q must be a 192-bit prime: Q96 = 13·2^188 + 1) -/

def toyB96 : B96 (ZMod Q96) where
  q := Q96
  zero := 0
  add := fun a b => a + b
  neg := fun a => -a
  smul := fun n a => n • a
  base := 1
  xy := fun P => xyN Q96 P.val
  ofXY := ofXYN Q96
  oidOk := fun oid => oid.length != 0
  hash := fun m => natLE 32 (leNat m * 31 + 7)
  b32 := fun _ round k => natLE 24 (leNat k + round)

theorem toyB96Laws : B96Laws toyB96 where
  zero_eq := rfl
  add_eq := fun _ _ => rfl
  neg_eq := fun _ => rfl
  smul_eq := fun _ _ => rfl
  q_prime := prime_Q96
  order := order_q
  xy_none := xy_none_q
  ofXY_xy := ofXY_xy_q
  xy_ofXY := xy_ofXY_q
  q_lo := by show 2 ^ 191 < Q96; unfold Q96; norm_num
  q_hi := by show Q96 < 2 ^ 192; unfold Q96; norm_num
  xy_lt := by
    intro P x y h
    have := xy_lt_q (q := Q96) P x y h
    have hq : Q96 < 2 ^ 192 := by unfold Q96; norm_num
    omega
  hash_len := by
    intro m
    show (natLE 32 (leNat m * 31 + 7)).length = 32
    generalize leNat m * 31 + 7 = v
    have : ∀ n v, (natLE n v).length = n := by
      intro n
      induction n with
      | zero => intro v; rfl
      | succ n ih => intro v; simp [natLE, ih]
    exact this 32 v

/-- inputs of the bign96 examples in PropsB96.lean: the private key 5, the hash value 2^192 - 1, a tape whose
first two draws (0 and 2^192 - 1) are rejected by zzRandNZMod and whose third draw is 7 -/
def priv5 : Bytes := natLE 24 5
def hFF : Bytes := List.replicate 24 255
def tape7 : Bytes := zeros 24 ++ List.replicate 24 255 ++ natLE 24 7

/-- the hypothesis structures are satisfiable -/
theorem laws_satisfiable :
    (∃ E : ECtx (ZMod 65521), ELaws E) ∧ (∃ C : G12 (ZMod 65521), G12Laws C) ∧
    (∃ C : Dstu (ZMod 65521) (Fin 65536), DLaws C) ∧ (∃ C : B96 (ZMod Q96), B96Laws C) :=
  ⟨⟨toyE, toyELaws⟩, ⟨toyG12, toyG12Laws⟩, ⟨toyDstu, toyDLaws⟩, ⟨toyB96, toyB96Laws⟩⟩

end Bee2V.C16.ToySig

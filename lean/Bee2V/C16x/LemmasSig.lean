/-
C16 — basic lemmas for the signature theorems: octets <-> numbers, the modular steps of zz inside their
preconditions, the rejection loop of zzRandNZMod, scalar multiples of a point of prime order,
`zzInvMod` (extended Euclid), `wwBitSize`.
-/
import Mathlib.Data.ZMod.Basic
import Mathlib.Tactic.Ring
import Bee2V.C16x.LawsSig
namespace Bee2V.C16.Sig
open Bee2V.C16

/-! ### octets -/

theorem natLE_length (n v : Nat) : (natLE n v).length = n := by
  induction n generalizing v with
  | zero => rfl
  | succ n ih => simp [natLE, ih]

theorem leNat_natLE (n v : Nat) : leNat (natLE n v) = v % 256 ^ n := by
  induction n generalizing v with
  | zero => simp [natLE, leNat, Nat.mod_one]
  | succ n ih =>
    simp only [natLE, leNat, ih]
    have h : (UInt8.ofNat (v % 256)).toNat = v % 256 := by
      simp [UInt8.toNat_ofNat']
    rw [h, Nat.pow_succ, Nat.mul_comm (256 ^ n) 256, Nat.mod_mul, Nat.add_comm]

theorem leNat_lt (b : Bytes) : leNat b < 256 ^ b.length := by
  induction b with
  | nil => simp [leNat]
  | cons x xs ih =>
    simp only [leNat, List.length_cons, Nat.pow_succ]
    have := x.toNat_lt
    omega

theorem natLE_leNat (b : Bytes) : natLE b.length (leNat b) = b := by
  induction b with
  | nil => rfl
  | cons x xs ih =>
    simp only [List.length_cons, natLE, leNat]
    have hx := x.toNat_lt
    have h1 : (x.toNat + 256 * leNat xs) % 256 = x.toNat := by omega
    have h2 : (x.toNat + 256 * leNat xs) / 256 = leNat xs := by omega
    rw [h1, h2, ih]
    simp

theorem leNat_natLE_of_lt {n v : Nat} (h : v < 256 ^ n) : leNat (natLE n v) = v := by
  rw [leNat_natLE, Nat.mod_eq_of_lt h]

theorem take_natLE_append (n v : Nat) (r : Bytes) : (natLE n v ++ r).take n = natLE n v := by
  have h := natLE_length n v
  rw [List.take_append_of_le_length (by omega), List.take_of_length_le (by omega)]

theorem drop_natLE_append (n v : Nat) (r : Bytes) : (natLE n v ++ r).drop n = r := by
  have h := natLE_length n v
  rw [List.drop_append_of_le_length (by omega)]
  simp [List.drop_eq_nil_of_le, h]

theorem natBE_length (n v : Nat) : (natBE n v).length = n := by
  simp [natBE, natLE_length]

theorem beNat_natBE (n v : Nat) : beNat (natBE n v) = v % 256 ^ n := by
  simp [beNat, natBE, leNat_natLE]

theorem take_natBE_append (n v : Nat) (r : Bytes) : (natBE n v ++ r).take n = natBE n v := by
  have h := natBE_length n v
  rw [List.take_append_of_le_length (by omega), List.take_of_length_le (by omega)]

theorem drop_natBE_append (n v : Nat) (r : Bytes) : (natBE n v ++ r).drop n = r := by
  have h := natBE_length n v
  rw [List.drop_append_of_le_length (by omega)]
  simp [List.drop_eq_nil_of_le, h]

theorem pow256 (n : Nat) : 256 ^ n = 2 ^ (8 * n) := by
  have : (256 : Nat) = 2 ^ 8 := by decide
  rw [this, ← Nat.pow_mul]

/-- a string of n octets split at n and re-encoded is the string -/
theorem natLE_take_drop (n : Nat) (b : Bytes) (h : b.length = 2 * n) :
    natLE n (leNat (b.take n)) ++ natLE n (leNat (b.drop n)) = b := by
  have h1 : (b.take n).length = n := by rw [List.length_take]; omega
  have h2 : (b.drop n).length = n := by rw [List.length_drop]; omega
  have e1 := natLE_leNat (b.take n)
  have e2 := natLE_leNat (b.drop n)
  rw [h1] at e1
  rw [h2] at e2
  rw [e1, e2, List.take_append_drop]

/-! ### the modular steps inside their preconditions -/

theorem subMod_eq {W a b q : Nat} (ha : a < q) (hb : b < q) (hq : q < W) :
    subMod W a b q = (a + (q - b)) % q := by
  unfold subMod
  split
  · have h1 : a + W - b + q = (a + (q - b)) + W := by omega
    rw [h1, Nat.add_mod_right, Nat.mod_eq_of_lt (by omega), Nat.mod_eq_of_lt (by omega)]
  · have h1 : a + (q - b) = (a - b) + q := by omega
    rw [h1, Nat.add_mod_right, Nat.mod_eq_of_lt (by omega)]

/-- `zzAddMod` for reduced operands (no condition `W < 2 q`) -/
theorem addMod_eq {W a b q : Nat} (ha : a < q) (hb : b < q) (hq : q < W) :
    addMod W a b q = (a + b) % q := by
  unfold addMod
  simp only
  by_cases h : a + b ≥ W
  · have hc : (a + b) % W = a + b - W := by
      rw [Nat.mod_eq_sub_mod h, Nat.mod_eq_of_lt (by omega)]
    rw [if_pos (Or.inl h), hc]
    have h2 : a + b - W + W - q = a + b - q := by omega
    rw [h2, Nat.mod_eq_of_lt (by omega)]
    have : a + b = (a + b - q) + q := by omega
    conv_rhs => rw [this, Nat.add_mod_right]
    exact (Nat.mod_eq_of_lt (by omega)).symm
  · have hc : (a + b) % W = a + b := Nat.mod_eq_of_lt (by omega)
    rw [hc]
    by_cases h' : a + b ≥ q
    · rw [if_pos (Or.inr h')]
      have h2 : a + b + W - q = (a + b - q) + W := by omega
      rw [h2, Nat.add_mod_right, Nat.mod_eq_of_lt (by omega)]
      have : a + b = (a + b - q) + q := by omega
      conv_rhs => rw [this, Nat.add_mod_right]
      exact (Nat.mod_eq_of_lt (by omega)).symm
    · have hn : ¬ (a + b ≥ W ∨ a + b ≥ q) := by omega
      rw [if_neg hn]
      exact (Nat.mod_eq_of_lt (by omega)).symm

theorem redOnce_eq {h q W : Nat} (hh : h < W) (hW : W < 2 * q) : redOnce h q = h % q := by
  unfold redOnce
  split
  · rw [Nat.mod_eq_sub_mod (by omega), Nat.mod_eq_of_lt (by omega)]
  · exact (Nat.mod_eq_of_lt (by omega)).symm

theorem negMod_eq {a q : Nat} (ha : a < q) : negMod a q = (q - a) % q := by
  unfold negMod
  split
  · have : a = 0 := by omega
    subst this; simp
  · exact (Nat.mod_eq_of_lt (by omega)).symm

/-! ### the rejection loop of zzRandNZMod -/

theorem randLoop_range (q : Nat) : ∀ (i : Nat) (tape : Bytes) (used : Nat) (v : Nat) (rest : Bytes) (used' : Nat),
    randLoop q i tape used = (some v, rest, used') → 0 < v ∧ v < q := by
  intro i
  induction i with
  | zero => intro tape used v rest used' h; simp [randLoop] at h
  | succ i ih =>
    intro tape used v rest used' h
    simp only [randLoop] at h
    split at h
    · exact ih _ _ _ _ _ h
    · rename_i hc
      simp only [Prod.mk.injEq, Option.some.injEq] at h
      omega

theorem randNZMod_range {q : Nat} {tape : Bytes} {v : Nat} {rest : Bytes} {used : Nat}
    (h : randNZMod q tape = (some v, rest, used)) : 0 < v ∧ v < q :=
  randLoop_range _ _ _ _ _ _ _ h

/-! ### arithmetic modulo q through ZMod q -/

theorem mod_eq_of_cast {q a b : Nat} (h : (a : ZMod q) = (b : ZMod q)) : a % q = b % q :=
  (ZMod.natCast_eq_natCast_iff' a b q).1 h

theorem cast_of_mod_eq {q a b : Nat} (h : a % q = b % q) : (a : ZMod q) = (b : ZMod q) :=
  (ZMod.natCast_eq_natCast_iff' a b q).2 h

/-- `(a + (q - x)) mod q` is `a - x` -/
theorem sub_cast (q a x : Nat) (hx : x ≤ q) : (((a + (q - x)) % q : ℕ) : ZMod q) = (a : ZMod q) - x := by
  rw [ZMod.natCast_mod]
  push_cast [Nat.cast_sub hx, ZMod.natCast_self]
  ring

/-! ### multiples of a point of order q in a commutative group -/

section group
variable {G : Type} [AddCommGroup G] {base : G} {q : Nat}

theorem nsmul_mod (order : ∀ n : Nat, n • base = 0 ↔ q ∣ n) (n : Nat) : (n % q) • base = n • base := by
  conv_rhs => rw [← Nat.mod_add_div n q]
  have : q • base = 0 := (order q).2 (dvd_refl _)
  rw [add_nsmul, mul_nsmul, this, nsmul_zero, add_zero]

theorem nsmul_congr (order : ∀ n : Nat, n • base = 0 ↔ q ∣ n) {a b : Nat} (h : a % q = b % q) :
    a • base = b • base := by
  rw [← nsmul_mod order a, ← nsmul_mod order b, h]

theorem base_mul_ne (order : ∀ n : Nat, n • base = 0 ↔ q ∣ n) {d : Nat} (h0 : 0 < d) (hq : d < q) :
    d • base ≠ 0 := by
  intro h
  have := Nat.le_of_dvd h0 ((order d).1 h)
  omega

end group

/-! ### wwBitSize -/

theorem bitLen_lo {n : Nat} (h : 0 < n) : 2 ^ (bitLen n - 1) ≤ n := by
  unfold bitLen
  rw [if_neg (by omega)]
  exact Nat.log2_self_le (by omega)

theorem bitLen_hi (n : Nat) : n < 2 ^ bitLen n := by
  unfold bitLen
  split
  · subst_vars; simp
  · exact Nat.lt_log2_self

end Bee2V.C16.Sig

/-
C16 — executable, code-shaped model of the key functions of src/crypto/pfok.c.  No Mathlib.

The group is B_p: residues modulo p under the Montgomery multiplication
`u ∘ v = u v R⁻¹ mod p`, `R = 2^(l + 2)` — the constant `params->l + 2` that EVERY function passes to
`zmMontCreate`.  `qrPower` is exponentiation in that group (unity = R mod p), keys are loaded and
stored WITHOUT conversion (`wwFrom` / `zmTo` = identity), so public keys are elements of B_p as they
stand.  The model takes R's exponent as a parameter `lR` of the context and uses the same `lR` in all
functions, as the code does.
-/
import Bee2V.C16x.Common
namespace Bee2V.C16

/-- x / 2 modulo an odd p -/
def halve (p x : Nat) : Nat := if x % 2 = 0 then x / 2 else (x + p) / 2

/-- `k` halvings: x · 2^(-k) mod p -/
def halveN (p : Nat) : Nat → Nat → Nat
  | 0, x => x
  | k + 1, x => halveN p k (halve p x)

structure Pfok where
  /-- bit length of p (`params->l`) -/
  l : Nat
  /-- bit length of private keys -/
  r : Nat
  /-- bit length of the shared key -/
  n : Nat
  p : Nat
  g : Nat
  /-- the exponent of R = 2^lR in `zmMontCreate(qr, p, no, lR, stack)`; the code passes `l + 2` -/
  lR : Nat

namespace Pfok

def no (C : Pfok) : Nat := (C.l + 7) / 8
def mo (C : Pfok) : Nat := (C.r + 7) / 8
def ko (C : Pfok) : Nat := (C.n + 7) / 8

/-- R⁻¹ mod p -/
def rinv (C : Pfok) : Nat := halveN C.p C.lR (1 % C.p)

/-- `zmMulMont2` / `zmSqrMont2`: u v R⁻¹ mod p -/
def mulM (C : Pfok) (u v : Nat) : Nat := (u * v) % C.p * C.rinv % C.p

/-- the unity of the Montgomery ring: R mod p -/
def unity (C : Pfok) : Nat := 2 ^ C.lR % C.p

/-- `qrPower(c, a, b, m, qr)`: a^(b) in B_p by square-and-multiply (the library uses sliding windows;
the value is the same power) -/
def powM (C : Pfok) (a e : Nat) : Nat :=
  if _h : e = 0 then C.unity
  else
    let h := C.powM a (e / 2)
    let s := C.mulM h h
    if e % 2 = 1 then C.mulM s a else s
termination_by e
decreasing_by omega

/-- `memCopy(sharekey, y, O_OF_B(n)); if (n % 8) sharekey[n / 8] &= 255 >> (8 - n % 8)` -/
def trimKey (C : Pfok) (v : Nat) : Bytes := natLE C.ko (v % 2 ^ C.n)

/-- pfokKeypairGen: (code, privkey ‖ pubkey, octets requested) -/
def keypairGen (C : Pfok) (tape : Bytes) : Err × Bytes × Nat :=
  let x := leNat (tapeRead C.mo tape).1 % 2 ^ C.r
  (.ok, natLE C.mo x ++ natLE C.no (C.powM C.g x), C.mo)

/-- pfokPubkeyVal -/
def pubkeyVal (C : Pfok) (pub : Bytes) : Err :=
  let y := leNat pub
  if y = 0 ∨ y ≥ C.p then .badPubkey else .ok

/-- pfokPubkeyCalc -/
def pubkeyCalc (C : Pfok) (priv : Bytes) : Err × Bytes :=
  let x := leNat priv
  if x ≥ 2 ^ C.r then (.badPrivkey, []) else
  (.ok, natLE C.no (C.powM C.g x))

/-- pfokDH -/
def dh (C : Pfok) (priv pub : Bytes) : Err × Bytes :=
  let x := leNat priv
  if x ≥ 2 ^ C.r then (.badPrivkey, []) else
  let y := leNat pub
  if y = 0 ∨ y ≥ C.p then (.badPubkey, []) else
  (.ok, C.trimKey (C.powM y x))

/-- pfokMTI: (pubkey^(privkey1)) xor (pubkey1^(privkey)) -/
def mti (C : Pfok) (priv priv1 pub pub1 : Bytes) : Err × Bytes :=
  let x := leNat priv
  let u := leNat priv1
  if x ≥ 2 ^ C.r ∨ u ≥ 2 ^ C.r then (.badPrivkey, []) else
  let y := leNat pub
  let v := leNat pub1
  if y = 0 ∨ y ≥ C.p ∨ v = 0 ∨ v ≥ C.p then (.badPubkey, []) else
  (.ok, C.trimKey (Nat.xor (C.powM y u) (C.powM v x)))

end Pfok
end Bee2V.C16
